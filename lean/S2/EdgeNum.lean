/-
  S2.EdgeNum — model of the numeric edge primitives of golang/geo (core-only, executable).

  (C16)  s2/edge_crossings.go : compareEdges, canonicalEdges, Intersection, intersectionStable,
         intersectionStableSorted, projection, robustNormalWithLength, intersectionExact
         r3/precisevector.go  : Cross, Vector  (math/big.Float at 2^26 bits never rounds here; the
                                 only rounding is `Float64()` = round-to-nearest-even, incl. the SIGN
                                 OF ZERO which big.Float tracks and which survives into the result)
  (C17)  s2/edge_distances.go : updateMinDistance, interiorDist, UpdateMinDistance, IsDistanceLess,
         UpdateMinInteriorDistance, IsInteriorDistanceLess, UpdateMaxDistance, Project,
         updateEdgePairMinDistance / MaxDistance, minUpdate(Interior)DistanceMaxError
         s2/point.go : PointCross, ChordAngleBetweenPoints;  s1/chordangle.go : MaxPointError

  Every float operation is the bit-exact soft-float `S2.F64` (+ − × ÷ √ compare min max abs), in the
  evaluation order of the Go source (amd64: no fused multiply-add).  NOT modelled (need libm):
  `ChordAngle.Angle` (asin), `Interpolate` (sin, cos), `DistanceFraction` / `Point.Distance` (atan2).

  The selection logic of `Intersection` is ALSO given generically (`intersectionG`) over the two
  numeric kernels, so that the order-independence theorem of S2Proofs.Properties.C16 can name exactly
  what it needs from them.
-/
import S2.F64
import S2.STUV
import S2.Exact
import S2.Pred
import S2.Contain
import S2.PointCross
/- NOTE: this is the model of the REPAIRED code (docs/fixes/fix_C16_F1..F4.diff, fix_C17_F6.diff,
   D50_intersection_canonical_order.diff): the `Norm2 < DBL_MIN` guard in
   intersectionStableSorted, the power-of-two scaling in PreciseVector.Vector(), the lexicographic-minimum collinear rule, the
   zero canonicalisation at the exit of Intersection, the canonical argument order (`canonicalEdges`) at its entry, and the
   clamp to 4 in updateMinDistance. -/
namespace S2.EdgeNum
open S2 S2.Exact S2.Pred

/-! ### constants -/

/- `fz`, `zero3` : defined in `S2.PointCross` (same namespace) -/
def f1 : F64 := F64.one
def f2 : F64 := F64.two
def f4 : F64 := F64.four
def fhalf : F64 := F64.half
def fInf : F64 := F64.inf false
def fNegOne : F64 := ⟨0xBFF0000000000000⟩
def f1p5 : F64 := ⟨0x3FF8000000000000⟩
def f3p5 : F64 := ⟨0x400C000000000000⟩
def f8p5 : F64 := ⟨0x4021000000000000⟩
def f6p5 : F64 := ⟨0x401A000000000000⟩
def f32 : F64 := ⟨0x4040000000000000⟩
def f10 : F64 := ⟨0x4024000000000000⟩
/-- `roundingEpsilon(float64) = 1.0 / float64(1<<53)` = 2^-53 -/
def tErr : F64 := ⟨0x3CA0000000000000⟩
/-- `minNormalFloat64 = 0x1p-1022` (C++ DBL_MIN) -/
def minNormalF : F64 := ⟨0x0010000000000000⟩
/-- `float64(dblEpsilon)`, s2 package (2.220446049250313e-16) -/
def dblEpsilonF : F64 := qDblEpsilon.toF64
/-- `float64(dblError)` (1.110223024625156e-16) -/
def dblErrorF : F64 := qDblError.toF64
/-- `float64(intersectionError)` : the constant `8 * dblError`, rounded once -/
def intersectionErrorF : F64 := (Q.ofNat 8 * qDblError).toF64
/-- `math.Sqrt(3)` -/
def sqrt3F : F64 := F64.sqrt F64.three
/-- `3.5+2*math.Sqrt(3)` (run-time float arithmetic) -/
def projC1 : F64 := f3p5 + f2 * sqrt3F
/-- `32*math.Sqrt(3)*dblError` (run-time float arithmetic) -/
def projC2 : F64 := (f32 * sqrt3F) * dblErrorF
/-- `4.75*dblEpsilon` (exact constant, rounded once) -/
def idC1 : F64 := (Q.mk 475 100 * qDblEpsilon).toF64
/-- `8*dblEpsilon*dblEpsilon` -/
def idC2 : F64 := (Q.ofNat 8 * qDblEpsilon * qDblEpsilon).toF64
/-- `2.5+2*sqrt3` -/
def meK1 : F64 := (Q.mk 25 10 + Q.ofNat 2 * qSqrt3).toF64
/-- `2+2*sqrt3/3` -/
def meK2 : F64 := (Q.ofNat 2 + Q.ofNat 2 * qSqrt3 * Q.mk 1 3).toF64
/-- `(23+16/sqrt3)*dblEpsilon` -/
def meK3 : F64 := ((Q.ofNat 23 + Q.ofNat 16 * qSqrt3.inv) * qDblEpsilon).toF64
/-- s1 package: `dblEpsilon = 2.220446049e-16` (a SHORTER decimal than the s2 constant) -/
def qS1Eps : Q := ⟨2220446049, 10 ^ 25⟩
/-- `float64` value of s1's `dblEpsilon`.  It is a package-level VARIABLE (`var dblEpsilon = 2.220446049e-16`), so
    arithmetic with it happens at run time in float64 (not in exact constant arithmetic). -/
def s1EpsF : F64 := qS1Eps.toF64
def f4p5 : F64 := ⟨0x4012000000000000⟩
def f16 : F64 := ⟨0x4030000000000000⟩
/-- `4.5*dblEpsilon` of s1.MaxPointError (run-time product) -/
def mpC1 : F64 := f4p5 * s1EpsF
/-- `16*dblEpsilon*dblEpsilon` of s1.MaxPointError (run-time products, left to right; one ulp above the exactly
    rounded constant — found by the regenerated tie S2Proofs.Ties.C17_EdgeNum) -/
def mpC2 : F64 := (f16 * s1EpsF) * s1EpsF

/-! ### C16 : compareEdges, Intersection -/

/-- `a.Cmp(b) == -1` -/
def vlt (a b : V3) : Bool := V3.cmp a b == -1

/-- the endpoint normalisation of `compareEdges`: `if a0.Cmp(a1) != -1 { swap }` -/
def sortEdge (a0 a1 : V3) : V3 × V3 := if vlt a0 a1 then (a0, a1) else (a1, a0)

/-- `compareEdges(a0,a1,b0,b1)` — NOTE the last conjunct is `b0 < b1` (as in the C++ original), not
    `a1 < b1`: for two edges with the same smaller endpoint it holds in BOTH directions. -/
def compareEdges (a0 a1 b0 b1 : V3) : Bool :=
  let a := sortEdge a0 a1
  let b := sortEdge b0 b1
  vlt a.1 b.1 || (V3.feq a.1 b.1 && vlt b.1 b.2)

/-- `projection(x, aNorm, aNormLen, a0, a1)` : (proj, bound) -/
def projection (x aNorm : V3) (aNormLen : F64) (a0 a1 : V3) : F64 × F64 :=
  let x0 := x.sub a0
  let x1 := x.sub a1
  let x0d := x0.norm2
  let x1d := x1.norm2
  let (dist, proj) :=
    if F64.lt x0d x1d || (F64.feq x0d x1d && V3.cmp x0 x1 == -1) then (F64.sqrt x0d, x0.dot aNorm)
    else (F64.sqrt x1d, x1.dot aNorm)
  let bound := ((projC1 * aNormLen + projC2) * dist + f1p5 * proj.abs) * tErr
  (proj, bound)

/-- the intermediate quantities of `intersectionStableSorted` (for the oracle's diagnostics) -/
structure StableParts where
  b0Dist : F64
  b1Dist : F64
  distSum : F64
  errorSum : F64
  x : V3
  err : F64
  xLen2 : F64
  xLen : F64

def stableParts (a0 a1 b0 b1 : V3) : StableParts :=
  let aNorm := (a0.sub a1).cross (a0.add a1)
  let aNormLen := aNorm.norm
  let bLen := (b1.sub b0).norm
  let (b0Dist, b0Error) := projection b0 aNorm aNormLen a0 a1
  let (b1Dist, b1Error) := projection b1 aNorm aNormLen a0 a1
  let distSum := (b0Dist - b1Dist).abs
  let errorSum := b0Error + b1Error
  let x := (b1.mul b0Dist).sub (b0.mul b1Dist)
  let err := bLen * (b0Dist * b1Error - b1Dist * b0Error).abs / (distSum - errorSum) + f2 * distSum * tErr
  ⟨b0Dist, b1Dist, distSum, errorSum, x, err, x.norm2, F64.sqrt x.norm2⟩

/-- `intersectionStableSorted` : `none` = `(pt, false)` -/
def intersectionStableSorted (a0 a1 b0 b1 : V3) : Option V3 :=
  let p := stableParts a0 a1 b0 b1
  if F64.le p.distSum p.errorSum then none
  else if F64.lt p.xLen2 minNormalF then none   -- the result could not be normalised: leave it to the exact method
  else if F64.gt p.err ((intersectionErrorF - tErr) * p.xLen) then none
  else some (p.x.mul (f1 / p.xLen))

/-- the argument tuple on which `intersectionStable` calls its kernel: the longer edge first, ties
    broken by `compareEdges` -/
def stableArgs (a0 a1 b0 b1 : V3) : V3 × V3 × V3 × V3 :=
  let aLen2 := (a1.sub a0).norm2
  let bLen2 := (b1.sub b0).norm2
  if F64.lt aLen2 bLen2 || (F64.feq aLen2 bLen2 && compareEdges a0 a1 b0 b1) then (b0, b1, a0, a1)
  else (a0, a1, b0, b1)

/-- `canonicalEdges(a0,a1,b0,b1)` (repair D50): the endpoints of each edge in `Cmp` order (the same test as in
    `compareEdges`: swap unless `a0.Cmp(a1) == -1`), then the longer edge first, ties broken by `compareEdges`.  The
    tuple on which BOTH kernels and the hemisphere correction of `Intersection` work. -/
def canonArgs (a0 a1 b0 b1 : V3) : V3 × V3 × V3 × V3 :=
  let a := sortEdge a0 a1
  let b := sortEdge b0 b1
  stableArgs a.1 a.2 b.1 b.2

/-- `intersectionStable` over an arbitrary sorted kernel: the kernel on the canonical tuple -/
def intersectionStableG (K : V3 → V3 → V3 → V3 → Option V3) (a0 a1 b0 b1 : V3) : Option V3 :=
  let t := canonArgs a0 a1 b0 b1
  K t.1 t.2.1 t.2.2.1 t.2.2.2

def intersectionStable (a0 a1 b0 b1 : V3) : Option V3 :=
  intersectionStableG intersectionStableSorted a0 a1 b0 b1

/-- BEFORE repair D50 (kept for the regression theorems of S2Proofs.Properties.C16 / C16_Sym): `intersectionStable` sorted
    the two edges only (`stableArgs`), not the endpoints inside an edge -/
def intersectionStableGOld (K : V3 → V3 → V3 → V3 → Option V3) (a0 a1 b0 b1 : V3) : Option V3 :=
  let t := stableArgs a0 a1 b0 b1
  K t.1 t.2.1 t.2.2.1 t.2.2.2

def intersectionStableOld (a0 a1 b0 b1 : V3) : Option V3 :=
  intersectionStableGOld intersectionStableSorted a0 a1 b0 b1

/-- `robustNormalWithLength(x, y)` (not used by Intersection in the Go port; kept for completeness) -/
def robustNormalWithLength (x y : V3) : V3 × F64 :=
  let tmp := (x.sub y).cross (x.add y)
  let length := tmp.norm
  let pt := if F64.fne length fz then tmp.mul (f1 / length) else zero3
  (pt, fhalf * length)

/-! #### exact path: math/big.Float values with their signed zero: `SZ`, `PV` — moved to `S2.PointCross`
     (same namespace `S2.EdgeNum`), because `Point.PointCross` needs them since repair D60 -/

/-- one step of the collinear rule: `if ok && p.Cmp(x) == -1 { x = p }` -/
def pickStep (x : V3) (c : V3 × Bool) : V3 := if c.2 && vlt c.1 x then c.1 else x
/-- the collinear rule: the lexicographically smallest qualifying candidate, else the sentinel -/
def pickMin (big : V3) (cands : List (V3 × Bool)) : V3 := cands.foldl pickStep big

/-- `intersectionExact(a0,a1,b0,b1)`.  Collinear branch: the lexicographically smallest of the endpoints
    that lie on the other edge (as in the C++ original). -/
def intersectionExact (a0 a1 b0 b1 : V3) : V3 :=
  let aNormP := (PV.ofV3 a0).cross (PV.ofV3 a1)
  let bNormP := (PV.ofV3 b0).cross (PV.ofV3 b1)
  let xP := aNormP.cross bNormP
  let x := xP.toVector (-4296)
  if V3.feq x zero3 then
    let big : V3 := ⟨f10, f10, f10⟩
    let aNorm := aNormP.toVector (-2148)
    let bNorm := bNormP.toVector (-2148)
    pickMin big [(a0, orderedCCW b0 a0 b1 bNorm), (a1, orderedCCW b0 a1 b1 bNorm),
                 (b0, orderedCCW a0 b0 a1 aNorm), (b1, orderedCCW a0 b1 a1 aNorm)]
  else x

/-- `(a0 + a1) + (b0 + b1)` -/
def sum4 (a0 a1 b0 b1 : V3) : V3 := (a0.add a1).add (b0.add b1)

/-- the final hemisphere correction of `Intersection` -/
def signCorrect (pt s : V3) : V3 := if F64.lt (pt.dot s) fz then pt.mul fNegOne else pt

/-- the exit of `Intersection`: `pt.Add(r3.Vector{})` turns every −0 coordinate into +0 -/
def canonZero (p : V3) : V3 := p.add zero3

/-- `Intersection` over arbitrary numeric kernels `K` (= intersectionStableSorted) and
    `E` (= intersectionExact).  Repair D50: the argument order is canonicalised ONCE (`canonArgs`) and the SAME tuple goes
    to the stable kernel, to the exact kernel and into the vertex sum of the hemisphere correction. -/
def intersectionG (K : V3 → V3 → V3 → V3 → Option V3) (E : V3 → V3 → V3 → V3 → V3)
    (a0 a1 b0 b1 : V3) : V3 :=
  let t := canonArgs a0 a1 b0 b1
  let pt := match K t.1 t.2.1 t.2.2.1 t.2.2.2 with
    | some p => p
    | none => E t.1 t.2.1 t.2.2.1 t.2.2.2
  canonZero (signCorrect pt (sum4 t.1 t.2.1 t.2.2.1 t.2.2.2))

/-- `Intersection(a0,a1,b0,b1)` -/
def intersection (a0 a1 b0 b1 : V3) : V3 :=
  intersectionG intersectionStableSorted intersectionExact a0 a1 b0 b1

/-- BEFORE repair D50: only the stable kernel saw sorted EDGES (`stableArgs`); the exact kernel and the vertex sum were
    evaluated on the caller's order.  Kept as the object of the pre-repair theorems (sign symmetry of the kernels, the
    necessary side conditions `DecisiveAt` / `OccwSym`, and the in-contract order dependence D50). -/
def intersectionGOld (K : V3 → V3 → V3 → V3 → Option V3) (E : V3 → V3 → V3 → V3 → V3)
    (a0 a1 b0 b1 : V3) : V3 :=
  let pt := match intersectionStableGOld K a0 a1 b0 b1 with
    | some p => p
    | none => E a0 a1 b0 b1
  canonZero (signCorrect pt (sum4 a0 a1 b0 b1))

def intersectionOld (a0 a1 b0 b1 : V3) : V3 :=
  intersectionGOld intersectionStableSorted intersectionExact a0 a1 b0 b1

/-! ### C17 : distances -/

/- `Point.PointCross` (`pointCross`, pre-repair `pointCrossOld`, `pointCrossFloat`, `pointCrossMinNorm2`): in `S2.PointCross`
   (same namespace `S2.EdgeNum`) -/

/-- `ChordAngleBetweenPoints` -/
def chordBetween (x y : V3) : F64 := F64.fmin f4 (x.sub y).norm2

/-- `interiorDist(x, a, b, minDist, alwaysUpdate)` -/
def interiorDist (x a b : V3) (minDist : F64) (always : Bool) : F64 × Bool :=
  let xa2 := (x.sub a).norm2
  let xb2 := (x.sub b).norm2
  let ab2 := (a.sub b).norm2
  let maxError := idC1 * (xa2 + xb2 + ab2) + idC2
  if F64.ge (xa2 - xb2).abs (ab2 + maxError) then (minDist, false) else
  let c := pointCross a b
  let c2 := c.norm2
  let xDotC := x.dot c
  let xDotC2 := xDotC * xDotC
  if !always && F64.gt xDotC2 (c2 * minDist) then (minDist, false) else
  let cx := c.cross x
  if F64.ge ((a.sub x).dot cx) fz || F64.le ((b.sub x).dot cx) fz then (minDist, false) else
  let qr := f1 - F64.sqrt (cx.norm2 / c2)
  let dist := (xDotC2 / c2) + (qr * qr)
  if !always && F64.ge dist minDist then (minDist, false) else (dist, true)

/-- `s1.ChordAngleFromSquaredLength` : clamp to StraightChordAngle -/
def chordFromLen2 (y : F64) : F64 := if F64.gt y f4 then f4 else y

/-- `updateMinDistance(x, a, b, minDist, alwaysUpdate)` -/
def updateMinDistance (x a b : V3) (minDist : F64) (always : Bool) : F64 × Bool :=
  let r := interiorDist x a b minDist always
  if r.2 then (r.1, true) else
  let xa2 := (x.sub a).norm2
  let xb2 := (x.sub b).norm2
  let dist := chordFromLen2 (F64.fmin xa2 xb2)
  if !always && F64.ge dist minDist then (minDist, false) else (dist, true)

/-- `UpdateMinDistance` -/
def updateMinDistancePub (x a b : V3) (minDist : F64) : F64 × Bool := updateMinDistance x a b minDist false
/-- `IsDistanceLess` -/
def isDistanceLess (x a b : V3) (limit : F64) : Bool := (updateMinDistancePub x a b limit).2
/-- `UpdateMinInteriorDistance` -/
def updateMinInteriorDistance (x a b : V3) (minDist : F64) : F64 × Bool := interiorDist x a b minDist false
/-- `IsInteriorDistanceLess` -/
def isInteriorDistanceLess (x a b : V3) (limit : F64) : Bool := (updateMinInteriorDistance x a b limit).2
/-- the chord angle inside `DistanceFromSegment` (before `.Angle()`) -/
def distanceFromSegmentChord (x a b : V3) : F64 := (updateMinDistance x a b fz true).1

/-- `ChordAngle.MaxPointError` (s1 constants) -/
def maxPointError (c : F64) : F64 := mpC1 * c + mpC2

/-- `ChordAngle.Expanded(e)`: a special chord angle (negative or +Inf) is returned unchanged, otherwise the clamp
    of `c + e` to `[0, 4]` -/
def chordExpanded (c e : F64) : F64 :=
  if F64.lt c fz || (c.isInf && !c.signBit) then c else F64.fmax (F64.zero false) (F64.fmin f4 (c + e))

/-- `UpdateMaxDistance` (the 90-degree test allows for the error of the endpoint distances: repair D41) -/
def updateMaxDistance (x a b : V3) (maxDist : F64) : F64 × Bool :=
  let ca := chordBetween x a
  let cb := chordBetween x b
  let dist0 := if F64.gt cb ca then cb else ca
  let dist :=
    if F64.gt (chordExpanded dist0 (maxPointError dist0)) f2 then
      f4 - (updateMinDistance (x.mul fNegOne) a b dist0 true).1 else dist0
  if F64.lt maxDist dist then (dist, true) else (maxDist, false)

/-- `Project(x, a, b)` -/
def project (x a b : V3) : V3 :=
  let aXb := pointCross a b
  let p := x.sub (aXb.mul (x.dot aXb / aXb.norm2))
  if sign aXb a p && sign p b aXb then p.normalize
  else if F64.le (x.sub a).norm2 (x.sub b).norm2 then a else b


/-- `minUpdateInteriorDistanceMaxError` -/
def minUpdateInteriorDistanceMaxError (dist : F64) : F64 :=
  if F64.ge dist f2 then fz else
  let b := F64.fmin f1 (fhalf * dist)
  let a := F64.sqrt (b * (f2 - b))
  ((meK1 + f8p5 * a) * a + (meK2 + f6p5 * (f1 - b)) * b + meK3) * dblEpsilonF

/-- `minUpdateDistanceMaxError` -/
def minUpdateDistanceMaxError (dist : F64) : F64 :=
  F64.fmax (minUpdateInteriorDistanceMaxError dist) (maxPointError dist)

/-- `CrossingSign(a,b,c,d) == Cross` with the library's float cascade -/
def crosses (a b c d : V3) : Bool :=
  match Contain.crossingSign Contain.floatGeo a b c d with
  | .cross => true
  | _ => false

/-- `updateEdgePairMinDistance` -/
def updateEdgePairMinDistance (a0 a1 b0 b1 : V3) (minDist : F64) : F64 × Bool :=
  if F64.feq minDist fz then (fz, false)
  else if crosses a0 a1 b0 b1 then (fz, true)
  else
    let r1 := updateMinDistancePub a0 b0 b1 minDist
    let r2 := updateMinDistancePub a1 b0 b1 r1.1
    let r3 := updateMinDistancePub b0 a0 a1 r2.1
    let r4 := updateMinDistancePub b1 a0 a1 r3.1
    (r4.1, r1.2 || r2.2 || r3.2 || r4.2)

/-- `updateEdgePairMaxDistance` -/
def updateEdgePairMaxDistance (a0 a1 b0 b1 : V3) (maxDist : F64) : F64 × Bool :=
  if F64.feq maxDist f4 then (f4, false)
  else if crosses a0 a1 (b0.mul fNegOne) (b1.mul fNegOne) then (f4, true)
  else
    let r1 := updateMaxDistance a0 b0 b1 maxDist
    let r2 := updateMaxDistance a1 b0 b1 r1.1
    let r3 := updateMaxDistance b0 a0 a1 r2.1
    let r4 := updateMaxDistance b1 a0 a1 r3.1
    (r4.1, r1.2 || r2.2 || r3.2 || r4.2)

/-- the vertex index chosen by `EdgePairClosestPoints` (non-crossing case) -/
def closestVertex (a0 a1 b0 b1 : V3) : Nat :=
  let m0 := (updateMinDistance a0 b0 b1 fz true).1
  let r1 := updateMinDistancePub a1 b0 b1 m0
  let r2 := updateMinDistancePub b0 a0 a1 r1.1
  let r3 := updateMinDistancePub b1 a0 a1 r2.1
  if r3.2 then 3 else if r2.2 then 2 else if r1.2 then 1 else 0

/-- `EdgePairClosestPoints` -/
def edgePairClosestPoints (a0 a1 b0 b1 : V3) : V3 × V3 :=
  if crosses a0 a1 b0 b1 then
    let x := intersection a0 a1 b0 b1
    (x, x)
  else match closestVertex a0 a1 b0 b1 with
    | 0 => (a0, project a0 b0 b1)
    | 1 => (a1, project a1 b0 b1)
    | 2 => (project b0 a0 a1, b0)
    | _ => (project b1 a0 a1, b1)

end S2.EdgeNum
