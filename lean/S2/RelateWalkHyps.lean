/-
  S2.RelateWalkHyps — executable (Bool) forms of the decidable hypotheses of the theorems of
  S2Proofs.Properties.C07_WalkSound about the two-index walk (`S2.RelateWalk`), evaluated by the oracle
  (op `c07walk`) on the dumped indexes of every generated pair (core-only).
    `edgesOKB`      = `S2Proofs.C07.EdgesOK`     the index lists only edge ids of its loop
    `centerFiresB`  = `S2Proofs.C07.CenterFires` a centre shortcut of the walk can fire on the two indexes
    `rectsExactB`   = `S2Proofs.C07.RectsExact`  the bounding-rectangle booleans are exact shortcuts
  The equivalences are proved in S2Proofs/C07/WalkHyps.lean.
-/
import S2.RelateWalk
namespace S2.RelateWalk
open S2 S2.CellID S2.Relate

/-- number of leaf cells of the range of cell `p`, minus one -/
def rangeWidthAt (I : Index) (p : Nat) : Nat := (I.rangeMaxAt p).toNat - (I.rangeMinAt p).toNat

/-- every edge id listed in the index is an edge id of the loop (`numEdges` edges) -/
def edgesOKB (numEdges : Nat) (I : Index) : Bool :=
  (List.range I.size).all fun p => (I.edgesAt p).all fun i => decide (i < numEdges)

/-- the centre shortcut applies to the cells `pa` of A, `pb` of B: meeting ranges, and the cells are equal
    or the larger one has no edges -/
def centerPairB (IA IB : Index) (pa pb : Nat) : Bool :=
  decide (IA.rangeMinAt pa ≤ IB.rangeMaxAt pb) && decide (IB.rangeMinAt pb ≤ IA.rangeMaxAt pa) &&
  (decide (rangeWidthAt IA pa = rangeWidthAt IB pb) ||
   (decide (IA.numEdgesAt pa = 0) && decide (rangeWidthAt IB pb < rangeWidthAt IA pa)) ||
   (decide (IB.numEdgesAt pb = 0) && decide (rangeWidthAt IA pa < rangeWidthAt IB pb)))

/-- a centre shortcut of the walk for relation `k` can fire on the two indexes -/
def centerFiresB (k : RelKind) (IA IB : Index) : Bool :=
  (List.range IA.size).any fun pa =>
    containsCenterMatches (IA.ccAt pa) k.aTarget &&
    (List.range IB.size).any fun pb =>
      containsCenterMatches (IB.ccAt pb) k.bTarget && centerPairB IA IB pa pb

section
variable {α : Type} [DecidableEq α] (G : Geo α)

/-- the six clauses of `RectsExact`, on a given scan `s` (the oracle passes the scan it already has;
    the theorem is about `s = scan G A B`) -/
def rectsExactB (s : Scan) (R : Rects) (A B : Loop α) : Bool :=
  let cpA := A.containsPoint G (B.vertex G 0)
  let cpB := B.containsPoint G (A.vertex G 0)
  (R.aSubContainsB || !containsWith G s A B) &&
  (R.boundsIntersect || !intersectsWith G s A B) &&
  (R.boundsIntersect || A.isEmpty || B.isEmpty || compareBoundaryWith G s A B == -1) &&
  (!(A.isEmpty || B.isEmpty) || !R.boundsIntersect) &&
  ((A.isEmptyOrFull || B.isEmptyOrFull) || s.crossing || !s.shared.isEmpty ||
    ((cpA && !((R.bSubContainsA || R.unionFull) && cpB)) == (cpA && !cpB))) &&
  (s.crossing || !s.shared.isEmpty ||
    ((((R.aSubContainsB || R.unionFull) && cpA) || (R.bSubContainsA && cpB)) == (cpA || cpB)))

end
end S2.RelateWalk
