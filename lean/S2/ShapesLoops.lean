/-
  S2.ShapesLoops — the two-variable loop forms of `Polygon.Edge / Chain / ChainPosition`
  (s2/polygon.go) as primitives for the regenerated accessor arithmetic
  (`S2.Generated.ShapeAccessors`, emitted by translator_c06):

  * `forInc2 cond step fuel x a`   =  `for ; cond(x, a); x++ { a = step(x, a) }`   → final `(x, a)`
  * `rangeBreak2 n cond step x a`  =  `for x = range <slice of length n> { if cond(x, a) { a = step(x, a); break } }`

  `cond` / `step` may panic (`none`).  Core-only.
-/
import S2.ShapesBase
namespace S2
namespace Shapes

/-- `for ; cond(x, a); x++ { a = step(x, a) }`.  `fuel` only has to exceed the number of evaluations
    of `cond`; in every use the loop indexes a slice with `x`, so it ends (normally or by a panic)
    within `len + 1` evaluations and the `0` case is unreachable (see `PolygonS.fuel`). -/
def forInc2 (cond : Int → Int → Option Bool) (step : Int → Int → Option Int) : Nat → Int → Int → Option (Int × Int)
  | 0, _, _ => none
  | fuel+1, x, a =>
    match cond x a with
    | none => none
    | some false => some (x, a)
    | some true =>
      match step x a with
      | none => none
      | some a' => forInc2 cond step fuel (x + 1) a'

/-- the iterations `x, x+1, …` of a range loop with `k` indices left; falling off the end leaves
    the last index in `x`. -/
def rangeBreak2.go (cond : Int → Int → Option Bool) (step : Int → Int → Option Int) : Nat → Int → Int → Option (Int × Int)
  | 0, x, a => some (x - 1, a)
  | k+1, x, a =>
    match cond x a with
    | none => none
    | some true =>
      match step x a with
      | none => none
      | some a' => some (x, a')
    | some false => rangeBreak2.go cond step k (x + 1) a

/-- `for x = range s { if cond(x, a) { a = step(x, a); break } }` with `n = len(s)`; an empty slice
    leaves `x` untouched. -/
def rangeBreak2 (n : Int) (cond : Int → Int → Option Bool) (step : Int → Int → Option Int) (x0 a : Int) : Option (Int × Int) :=
  if n ≤ 0 then some (x0, a) else rangeBreak2.go cond step n.toNat 0 a

/-- fuel for the `p.Loop(i)`-indexed loops of Polygon: they panic at `i = len(p.loops)`. -/
def PolygonS.fuel (s : PolygonS) : Nat := s.loops.length + 1

end Shapes
end S2
