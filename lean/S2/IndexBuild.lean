/-
  S2.IndexBuild — executable, bit-exact model of the CONSTRUCTION of a ShapeIndex
  (s2/shapeindex.go `applyUpdatesInternal` and everything below it), line by line, in the
  soft-float `S2.F64`.  Core-only (linked into the oracle executable).

  Input : the shapes as the builder sees them through the `Shape` interface —
          `Dimension()`, `Edge(e)` for e < NumEdges(), `ReferencePoint()`.
  Output: the index cells in the order they are appended to `s.cells`
          (cell id, [(shape id, containsCenter, [edge ids])]).

  Source followed:
    s2/shapeindex.go     tracker (newTracker, addShape, moveTo, drawTo, testEdge, setNextCellID,
                         atCellID, toggleShape), applyUpdatesInternal, addShapeInternal, addFaceEdge,
                         updateFaceEdges, shrinkToFit, skipCellRange, updateEdges, makeIndexCell,
                         updateBound, clipUBound, clipVBound, clipVAxis, testAllEdges, countShapes,
                         maxLevelForEdge
    s2/edge_clipping.go  ClipToPaddedFace, intersectsFace, intersectsOppositeEdges, exitAxis,
                         exitPoint, clipDestination, interpolateFloat64
    s2/metric.go         Metric.MinLevel (math.Ilogb is exponent extraction: no libm)
    s2/shapeutil.go      containsBruteForce
    r1 / r2              RectFromPoints, AddRect (= per-axis Union), ClampPoint
  Reused models: `S2.PaddedCellM` (PaddedCellFromCellID / FromParentIJ / ChildIJ / Middle /
    EntryVertex / ExitVertex / Center / ShrinkToFit), `S2.Crosser` (EdgeCrosser state machine over
    `Pred.robustSign`), `S2.CellUnion.fromRange` (CellUnionFromRange), `S2.STUV`, `S2.CellM`.

  The code that exists (this Go port):
    * `applyUpdatesInternal` never updates incrementally: when anything is pending on a non-first
      update it resets `cellMap`, `cells`, `pendingAdditionsPos` and rebuilds from all current
      shapes.  Hence `isFirstUpdate()` is true whenever an edge is processed, `disjointFromIndex`
      is always true, `absorbIndexCell` / `saveAndClearStateBefore` / `restoreStateBefore` /
      `tracker.lowerBound` (which panics "not implemented") are unreachable, `removeShapeInternal`
      is empty.  The model is the first-update path.  Removed shape ids (holes in the id space)
      are not modelled: shape ids are 0 … n-1 and the sentinel `int32(s.Len())` is n.
    * the `bound` field of `PaddedCell` is only read by `absorbIndexCell`; it is not carried here.
    * `cellSizeToLongEdgeRatio = 1.0`: the multiplication is the identity on non-NaN values.
    * `makeIndexCell` sizes the cell with `countShapes` and fills it in a separate merge loop;
      both are modelled literally (`countShapes`, `fillShapes`).
    * the tracker keeps ONE EdgeCrosser per `drawTo` whose cached `c` / `acb` survive from one
      `testEdge` to the next: `Tracker.crosser` is the `S2.Crosser.St` state machine.
  Recursion: `updateEdges` is structurally recursive on a fuel argument (31 = face level + 30
  subdivisions suffices; theorem `S2Proofs.C06Build.build_no_fuel_exhaustion`); the result carries `ok = false`
  when the fuel ran out.
-/
import S2.F64
import S2.STUV
import S2.CellID
import S2.CellM
import S2.CellUnion
import S2.PaddedCellM
import S2.Pred
import S2.Crossing
import S2.Crosser
namespace S2
namespace IndexBuild
open CellID CellM PaddedCellM

/-- r2.Point -/
abbrev R2 := F64 × F64

/-! ### constants (Go untyped constant expressions: exact arithmetic, ONE rounding) -/

open Pred in
/-- `faceClipErrorUVCoord = 9.0 * (1.0 / math.Sqrt2) * dblEpsilon` -/
def qFaceClipErrorUVCoord : Pred.Q := Pred.Q.ofNat 9 * qSqrt2.inv * qDblEpsilon
open Pred in
/-- `edgeClipErrorUVCoord = 2.25 * dblEpsilon` -/
def qEdgeClipErrorUVCoord : Pred.Q := Pred.Q.mk 225 100 * qDblEpsilon
/-- `cellPadding = 2.0 * (faceClipErrorUVCoord + edgeClipErrorUVCoord)` -/
def qCellPadding : Pred.Q := Pred.Q.ofNat 2 * (qFaceClipErrorUVCoord + qEdgeClipErrorUVCoord)

/-- `cellPadding` as a float64 = 0x3cf13a5919a791a3 -/
def cellPadding : F64 := qCellPadding.toF64
/-- `maxUV := 1 - cellPadding` (constant expression) = 0x3fefffffffffffde -/
def maxUV : F64 := ((Pred.Q.ofNat 1).sub qCellPadding).toF64
/-- `maxSafeUVCoord := 1 - faceClipErrorUVCoord` (constant expression) = 0x3feffffffffffff3 -/
def maxSafeUVCoord : F64 := ((Pred.Q.ofNat 1).sub qFaceClipErrorUVCoord).toF64
/-- `AvgEdgeMetric.Deriv = 1.459213746386106062` = 0x3ff758f08369a1a5 -/
def avgEdgeDeriv : F64 := (Pred.Q.mk 1459213746386106062 (10 ^ 18)).toF64
/-- `math.Ldexp(1, -511)` -/
def twoPowM511 : F64 := ⟨0x2000000000000000⟩
/-- `math.Ldexp(1, 563)` -/
def twoPow563 : F64 := ⟨0x6320000000000000⟩
/-- `maxEdgesPerCell` of `NewShapeIndex` -/
def maxEdgesPerCell : Nat := 10

/-! ### r1 / r2 -/

/-- `r1.Interval.AddPoint` -/
def Ivl.addPoint (i : Ivl) (p : F64) : Ivl :=
  if Ivl.isEmpty i then (p, p)
  else if F64.lt p i.1 then (p, i.2)
  else if F64.gt p i.2 then (i.1, p)
  else i

/-- `r1.Interval.Union` -/
def Ivl.union (i o : Ivl) : Ivl :=
  if Ivl.isEmpty i then o
  else if Ivl.isEmpty o then i
  else (F64.fmin i.1 o.1, F64.fmax i.2 o.2)

/-- `r1.Interval.ClampPoint` -/
def Ivl.clampPoint (i : Ivl) (p : F64) : F64 := F64.fmax i.1 (F64.fmin i.2 p)

/-- `r2.RectFromPoints(a, b)` -/
def rectFromPoints (a b : R2) : Rect2 :=
  (Ivl.addPoint (a.1, a.1) b.1, Ivl.addPoint (a.2, a.2) b.2)

/-- `r2.Rect.AddRect` -/
def Rect2.addRect (r o : Rect2) : Rect2 := (Ivl.union r.1 o.1, Ivl.union r.2 o.2)

/-- `r2.EmptyRect()` -/
def emptyRect : Rect2 := (emptyIvl, emptyIvl)

/-! ### s2/metric.go, maxLevelForEdge -/

/-- `math.Ilogb(x)` -/
def ilogb (x : F64) : Int :=
  if x.isZero then -2147483648
  else if x.isNaN || x.isInf then 2147483647
  else if x.expField == 0 then (x.fracField.log2 : Int) - 1074
  else (x.expField : Int) - 1023

/-- `AvgEdgeMetric.MinLevel(val)` (Dim = 1: the shift is by 0) -/
def avgEdgeMinLevel (val : F64) : Nat :=
  if F64.lt val fzero then maxLevel else
  let level : Int := -(ilogb (val / avgEdgeDeriv))
  if level > 30 then 30 else if level < 0 then 0 else level.toNat

/-- `maxLevelForEdge(edge)` -/
def maxLevelForEdge (v0 v1 : V3) : Nat :=
  avgEdgeMinLevel ((v0.sub v1).norm * F64.one)

/-! ### s2/edge_clipping.go: clipping a geodesic edge to a padded cube face -/

/-- `pointUVW.intersectsFace` -/
def intersectsFace (p : V3) : Bool :=
  let u := p.x.abs
  let v := p.y.abs
  let w := p.z.abs
  F64.ge v (w - u) && F64.ge u (w - v)

/-- `pointUVW.intersectsOppositeEdges` -/
def intersectsOppositeEdges (p : V3) : Bool :=
  let u := p.x.abs
  let v := p.y.abs
  let w := p.z.abs
  if F64.fne (u - v).abs w then F64.ge (u - v).abs w
  else if F64.ge u v then F64.ge (u - w) v
  else F64.ge (v - w) u

/-- `pointUVW.exitAxis` : 0 = axisU, 1 = axisV -/
def exitAxis (p : V3) : Nat :=
  if intersectsOppositeEdges p then
    (if F64.ge p.x.abs p.y.abs then 1 else 0)
  else
    let x : Nat := if p.x.signBit then 1 else 0
    let y : Nat := if p.y.signBit then 1 else 0
    let z : Nat := if p.z.signBit then 1 else 0
    if (x ^^^ y ^^^ z) == 0 then 1 else 0

/-- `pointUVW.exitPoint(axis)` -/
def exitPoint (p : V3) (axis : Nat) : R2 :=
  if axis == 0 then
    let u : F64 := if F64.gt p.y fzero then F64.one else negOne
    (u, ((-u) * p.x - p.z) / p.y)
  else
    let v : F64 := if F64.lt p.x fzero then F64.one else negOne
    (((-v) * p.y - p.z) / p.x, v)

/-- `clipDestination(a, b, scaledN, aTan, bTan, scaleUV)` : (uv, score) -/
def clipDestination (a b scaledN aTan bTan : V3) (scaleUV : F64) : R2 × Nat :=
  let early : Option R2 :=
    if F64.gt b.z fzero then
      let uv : R2 := (b.x / b.z, b.y / b.z)
      if F64.le (F64.fmax uv.1.abs uv.2.abs) maxSafeUVCoord then some uv else none
    else none
  match early with
  | some uv => (uv, 0)
  | none =>
    let ep := exitPoint scaledN (exitAxis scaledN)
    let uv : R2 := (scaleUV * ep.1, scaleUV * ep.2)
    let p : V3 := ⟨uv.1, uv.2, F64.one⟩
    let score : Nat :=
      if F64.lt ((p.sub a).dot aTan) fzero then 2
      else if F64.lt ((p.sub b).dot bTan) fzero then 1
      else 0
    if score > 0 then
      if F64.le b.z fzero then (uv, 3)
      else ((b.x / b.z, b.y / b.z), score)
    else (uv, score)

/-- `ClipToPaddedFace(a, b, f, padding)` : `none` = does not intersect -/
def clipToPaddedFace (a b : V3) (f : Nat) (padding : F64) : Option (R2 × R2) :=
  if STUV.face a == f && STUV.face b == f then
    some (STUV.validFaceXYZToUV f a, STUV.validFaceXYZToUV f b)
  else
    let normUVW := faceXYZtoUVW f (Crossing.pointCross a b)
    let aUVW := faceXYZtoUVW f a
    let bUVW := faceXYZtoUVW f b
    let scaleUV := F64.one + padding
    let scaledN : V3 := ⟨scaleUV * normUVW.x, scaleUV * normUVW.y, normUVW.z⟩
    if !intersectsFace scaledN then none else
    let normUVW :=
      if F64.lt (F64.fmax normUVW.x.abs (F64.fmax normUVW.y.abs normUVW.z.abs)) twoPowM511
      then normUVW.mul twoPow563 else normUVW
    let normUVW := normUVW.normalize
    let aTan := normUVW.cross aUVW
    let bTan := bUVW.cross normUVW
    let (aUV, aScore) := clipDestination bUVW aUVW (scaledN.mul negOne) bTan aTan scaleUV
    let (bUV, bScore) := clipDestination aUVW bUVW scaledN aTan bTan scaleUV
    if aScore + bScore < 3 then some (aUV, bUV) else none

/-- `interpolateFloat64(x, a, b, a1, b1)` -/
def interpolateFloat64 (x a b a1 b1 : F64) : F64 :=
  if F64.feq a b then a1
  else if F64.le (a - x).abs (b - x).abs then a1 + (b1 - a1) * (x - a) / (b - a)
  else b1 + (a1 - b1) * (x - b) / (a - b)

/-! ### shapes, face edges, clipped edges -/

/-- what the builder reads of a `Shape` -/
structure Shape where
  dim : Nat
  edges : Array (V3 × V3)
  refPoint : V3
  refContained : Bool
deriving Inhabited

/-- `type faceEdge struct` -/
structure FaceEdge where
  shapeID : Nat
  edgeID : Nat
  maxLevel : Nat
  hasInterior : Bool
  a : R2
  b : R2
  v0 : V3
  v1 : V3
deriving Inhabited

/-- `type clippedEdge struct` -/
structure ClippedEdge where
  fe : FaceEdge
  bound : Rect2
deriving Inhabited

/-- `type clippedShape struct` -/
structure Clipped where
  shapeID : Nat
  containsCenter : Bool
  edges : List Nat
deriving DecidableEq, Inhabited, Repr

/-- one entry of `s.cells` / `s.cellMap` -/
structure IndexCell where
  id : CellID
  shapes : List Clipped
deriving DecidableEq, Inhabited, Repr

/-! ### child edge clipping -/

/-- `updateBound(edge, uEnd, u, vEnd, v)` -/
def updateBound (e : ClippedEdge) (uEnd : Nat) (u : F64) (vEnd : Nat) (v : F64) : ClippedEdge :=
  let x : Ivl := if uEnd == 0 then (u, e.bound.1.2) else (e.bound.1.1, u)
  let y : Ivl := if vEnd == 0 then (v, e.bound.2.2) else (e.bound.2.1, v)
  { fe := e.fe, bound := (x, y) }

/-- `positiveSlope := (e.a.X > e.b.X) == (e.a.Y > e.b.Y)` -/
def positiveSlope (fe : FaceEdge) : Bool := (F64.gt fe.a.1 fe.b.1) == (F64.gt fe.a.2 fe.b.2)

/-- `clipUBound(edge, uEnd, u)` -/
def clipUBound (e : ClippedEdge) (uEnd : Nat) (u : F64) : ClippedEdge :=
  if (if uEnd == 0 then F64.ge e.bound.1.1 u else F64.le e.bound.1.2 u) then e else
  let fe := e.fe
  let v := Ivl.clampPoint e.bound.2 (interpolateFloat64 u fe.a.1 fe.b.1 fe.a.2 fe.b.2)
  let vEnd : Nat := if (uEnd == 1) == positiveSlope fe then 1 else 0
  updateBound e uEnd u vEnd v

/-- `clipVBound(edge, vEnd, v)` -/
def clipVBound (e : ClippedEdge) (vEnd : Nat) (v : F64) : ClippedEdge :=
  if (if vEnd == 0 then F64.ge e.bound.2.1 v else F64.le e.bound.2.2 v) then e else
  let fe := e.fe
  let u := Ivl.clampPoint e.bound.1 (interpolateFloat64 v fe.a.2 fe.b.2 fe.a.1 fe.b.1)
  let uEnd : Nat := if (vEnd == 1) == positiveSlope fe then 1 else 0
  updateBound e uEnd u vEnd v

/-- `clipVAxis(edge, middle)` : (lower child, upper child) -/
def clipVAxis (e : ClippedEdge) (middle : Ivl) : Option ClippedEdge × Option ClippedEdge :=
  if F64.le e.bound.2.2 middle.1 then (some e, none)
  else if F64.ge e.bound.2.1 middle.2 then (none, some e)
  else (some (clipVBound e 1 middle.2), some (clipVBound e 0 middle.1))

/-- the four child slots `childEdges[0][0], [0][1], [1][0], [1][1]` one edge is appended to by
    one iteration of the distribution loop of `updateEdges` -/
structure Quad where
  c00 : Option ClippedEdge
  c01 : Option ClippedEdge
  c10 : Option ClippedEdge
  c11 : Option ClippedEdge
deriving Inhabited

/-- one iteration of `for _, edge := range edges` in `updateEdges` -/
def edgeChildren (middle : Rect2) (e : ClippedEdge) : Quad :=
  if F64.le e.bound.1.2 middle.1.1 then
    let ab := clipVAxis e middle.2
    ⟨ab.1, ab.2, none, none⟩
  else if F64.ge e.bound.1.1 middle.1.2 then
    let ab := clipVAxis e middle.2
    ⟨none, none, ab.1, ab.2⟩
  else if F64.le e.bound.2.2 middle.2.1 then
    ⟨some (clipUBound e 1 middle.1.2), none, some (clipUBound e 0 middle.1.1), none⟩
  else if F64.ge e.bound.2.1 middle.2.2 then
    ⟨none, some (clipUBound e 1 middle.1.2), none, some (clipUBound e 0 middle.1.1)⟩
  else
    let ab := clipVAxis (clipUBound e 1 middle.1.2) middle.2
    let cd := clipVAxis (clipUBound e 0 middle.1.1) middle.2
    ⟨ab.1, ab.2, cd.1, cd.2⟩

def Quad.get (q : Quad) (i j : Nat) : Option ClippedEdge :=
  if i == 0 then (if j == 0 then q.c00 else q.c01) else (if j == 0 then q.c10 else q.c11)

/-- `childEdges[i][j]` after the distribution loop (appends keep the order of `edges`) -/
def childEdges (quads : List Quad) (i j : Nat) : List ClippedEdge :=
  quads.filterMap fun q => q.get i j

/-! ### the interior tracker -/

/-- `type tracker struct` (`savedIDs` is only touched by the unreachable incremental path) -/
structure Tracker where
  isActive : Bool
  a : V3
  b : V3
  nextCellID : CellID
  crosser : Crosser.St
  shapeIDs : List Nat
deriving Inhabited

/-- `trackerOrigin()` : `faceUVToXYZ(0, -1, -1).Normalize()` -/
def trackerOrigin : V3 := (STUV.faceUVToXYZ 0 negOne negOne).normalize

/-- `drawTo(b)` -/
def Tracker.drawTo (t : Tracker) (b : V3) : Tracker :=
  { t with a := t.b, b := b, crosser := Crosser.init t.b b }

/-- `moveTo(b)` -/
def Tracker.moveTo (t : Tracker) (b : V3) : Tracker := { t with b := b }

/-- `newTracker()` -/
def newTracker : Tracker :=
  let t : Tracker :=
    { isActive := false, a := Crossing.zero3, b := trackerOrigin,
      nextCellID := childBeginAtLevel (fromFace 0) maxLevel,
      crosser := default, shapeIDs := [] }
  t.drawTo trackerOrigin

/-- `toggleShape(shapeID)` : sorted insert / remove -/
def toggle (id : Nat) : List Nat → List Nat
  | [] => [id]
  | s :: rest =>
    if s < id then s :: toggle id rest
    else if s == id then rest
    else id :: s :: rest

/-- `addShape(shapeID, containsFocus)` -/
def Tracker.addShape (t : Tracker) (shapeID : Nat) (containsFocus : Bool) : Tracker :=
  let t := { t with isActive := true }
  if containsFocus then { t with shapeIDs := toggle shapeID t.shapeIDs } else t

/-- `testEdge(shapeID, edge)` -/
def Tracker.testEdge (t : Tracker) (shapeID : Nat) (v0 v1 : V3) : Tracker :=
  let (c, r) := Crosser.edgeOrVertexCrossing t.crosser v0 v1
  let t := { t with crosser := c }
  if r then { t with shapeIDs := toggle shapeID t.shapeIDs } else t

/-- `setNextCellID(next)` -/
def Tracker.setNextCellID (t : Tracker) (nextID : CellID) : Tracker :=
  { t with nextCellID := rangeMin nextID }

/-- `atCellID(id)` -/
def Tracker.atCellID (t : Tracker) (id : CellID) : Bool := rangeMin id == t.nextCellID

/-- `testAllEdges(edges, t)` -/
def testAllEdges (edges : List ClippedEdge) (t : Tracker) : Tracker :=
  edges.foldl (fun t e => if e.fe.hasInterior then t.testEdge e.fe.shapeID e.fe.v0 e.fe.v1 else t) t

/-- `containsBruteForce(shape, point)` (one EdgeCrosser over all edges) -/
def containsBruteForce (s : Shape) (p : V3) : Bool :=
  if s.dim != 2 then false
  else if V3.feq s.refPoint p then s.refContained
  else
    (s.edges.foldl (fun (st : Crosser.St × Bool) e =>
      let (c, r) := Crosser.edgeOrVertexCrossing st.1 e.1 e.2
      (c, st.2 != r)) (Crosser.init s.refPoint p, s.refContained)).2

/-! ### makeIndexCell -/

/-- the counting loop at the top of `makeIndexCell`: `true` = `return false` (too many short edges) -/
def countExceeds (level : Nat) : Nat → List ClippedEdge → Bool
  | _, [] => false
  | count, e :: es =>
    let count := if level < e.fe.maxLevel then count + 1 else count
    if count > maxEdgesPerCell then true else countExceeds level count es

/-- the inner `for ; shapeIDidx < len(shapeIDs); shapeIDidx++` of `countShapes`:
    (count, remaining shape ids) -/
def skipContaining (last : Nat) : Nat → List Nat → Nat × List Nat
  | count, [] => (count, [])
  | count, c :: cs =>
    if c > last then (count, c :: cs)
    else skipContaining last (if c < last then count + 1 else count) cs

/-- `countShapes(edges, shapeIDs)` ; `last = none` is `lastShapeID = -1` -/
def countShapesGo : Option Nat → Nat → List ClippedEdge → List Nat → Nat
  | _, count, [], cs => count + cs.length
  | last, count, e :: es, cs =>
    if last == some e.fe.shapeID then countShapesGo last count es cs
    else
      let (count', cs') := skipContaining e.fe.shapeID (count + 1) cs
      countShapesGo (some e.fe.shapeID) count' es cs'

def countShapes (edges : List ClippedEdge) (shapeIDs : List Nat) : Nat :=
  countShapesGo none 0 edges shapeIDs

/-- `eshapeID` of the merge loop: `edges[eNext].faceEdge.shapeID`, or the sentinel when `eNext == len(edges)` -/
def headShapeID (sentinel : Nat) : List ClippedEdge → Nat
  | [] => sentinel
  | e :: _ => e.fe.shapeID

/-- `cshapeID` of the merge loop: `cshapeIDs[cNextIdx]`, or the sentinel -/
def headID (sentinel : Nat) : List Nat → Nat
  | [] => sentinel
  | c :: _ => c

/-- the merge loop `for i := 0; i < numShapes; i++` of `makeIndexCell`; `sentinel = int32(s.Len())`,
    `es` = `edges[eNext:]`, `cs` = `cshapeIDs[cNextIdx:]` -/
def fillShapes (sentinel : Nat) : Nat → List ClippedEdge → List Nat → List Clipped
  | 0, _, _ => []
  | n+1, es, cs =>
    let eid := headShapeID sentinel es
    let cid := headID sentinel cs
    if cid < eid then
      ⟨cid, true, []⟩ :: fillShapes sentinel n es cs.tail
    else
      let mine := es.takeWhile fun e => e.fe.shapeID == eid
      let rest := es.dropWhile fun e => e.fe.shapeID == eid
      if cid == eid then ⟨eid, true, mine.map (·.fe.edgeID)⟩ :: fillShapes sentinel n rest cs.tail
      else ⟨eid, false, mine.map (·.fe.edgeID)⟩ :: fillShapes sentinel n rest cs

/-- `makeIndexCell(p, edges, t)` : `none` = returned false (subdivide);
    `some (cells, t')` = returned true having appended `cells` (0 or 1 cell) -/
def makeIndexCell (nShapes : Nat) (p : PaddedCell) (edges : List ClippedEdge) (t : Tracker) :
    Option (List IndexCell × Tracker) :=
  if edges.isEmpty && t.shapeIDs.isEmpty then some ([], t)
  else if countExceeds p.level 0 edges then none
  else
    let t1 :=
      if t.isActive && !edges.isEmpty then
        let t := if !t.atCellID p.id then t.moveTo (entryVertex p) else t
        testAllEdges edges (t.drawTo (center p))
      else t
    let cell : IndexCell :=
      ⟨p.id, fillShapes nShapes (countShapes edges t1.shapeIDs) edges t1.shapeIDs⟩
    let t2 :=
      if t1.isActive && !edges.isEmpty then
        (testAllEdges edges (t1.drawTo (exitVertex p))).setNextCellID (next p.id)
      else t1
    some ([cell], t2)

/-! ### updateEdges -/

/-- result of a (sub)build: the cells appended to `s.cells` in order, the tracker afterwards,
    `ok = false` iff the recursion fuel ran out somewhere -/
structure Res where
  cells : List IndexCell
  t : Tracker
  ok : Bool
deriving Inhabited

/-- one iteration of `for pos := 0; pos < 4; pos++` at the end of `updateEdges`; `recur` is the
    recursive call `updateEdges(PaddedCellFromParentIJ(pcell, i, j), childEdges[i][j], t, true)` -/
def visitChild (recur : PaddedCell → List ClippedEdge → Tracker → Res) (p : PaddedCell)
    (quads : List Quad) (r : Res) (pos : Nat) : Res :=
  let ij := childIJ p pos
  let es := childEdges quads ij.1 ij.2
  if !es.isEmpty || !r.t.shapeIDs.isEmpty then
    let r' := recur (fromParentIJ p ij.1 ij.2) es r.t
    ⟨r.cells ++ r'.cells, r'.t, r.ok && r'.ok⟩
  else r

/-- the body of `if !makeIndexCell(...) { … }` in `updateEdges`: distribute the edges over the four
    children, visit the children in Hilbert order.  `preset` = `pcell` was built by the face fast
    path of `PaddedCellFromCellID` (its `middle` is preset). -/
def subdivide (recur : PaddedCell → List ClippedEdge → Tracker → Res) (p : PaddedCell) (preset : Bool)
    (edges : List ClippedEdge) (t : Tracker) : Res :=
  let mid := middle p cellPadding preset
  let quads := edges.map (edgeChildren mid)
  visitChild recur p quads (visitChild recur p quads (visitChild recur p quads
    (visitChild recur p quads ⟨[], t, true⟩ 0) 1) 2) 3

/-- `updateEdges(pcell, edges, t, disjointFromIndex = true)`. -/
def updateEdges (nShapes : Nat) : Nat → PaddedCell → Bool → List ClippedEdge → Tracker → Res
  | 0, _, _, _, t => ⟨[], t, false⟩
  | fuel+1, p, preset, edges, t =>
    match makeIndexCell nShapes p edges t with
    | some (cells, t') => ⟨cells, t', true⟩
    | none => subdivide (fun q es t => updateEdges nShapes fuel q false es t) p preset edges t

/-- fuel that always suffices: one call per level 0 … 30 -/
def fuel : Nat := 31

/-- `skipCellRange(begin, end, t, true)` -/
def skipCellRange (nShapes : Nat) (b e : CellID) (t : Tracker) : Res :=
  if t.shapeIDs.isEmpty then ⟨[], t, true⟩ else
  (CellUnion.fromRange b e).foldl (fun (r : Res) cell =>
    let r' := updateEdges nShapes fuel (fromCellID cell) (isFace cell) [] r.t
    ⟨r.cells ++ r'.cells, r'.t, r.ok && r'.ok⟩) ⟨[], t, true⟩

/-- `updateFaceEdges(face, faceEdges, t)` -/
def updateFaceEdges (nShapes : Nat) (face : Nat) (faceEdges : List FaceEdge) (t : Tracker) : Res :=
  if faceEdges.isEmpty && t.shapeIDs.isEmpty then ⟨[], t, true⟩ else
  let clipped : List ClippedEdge := faceEdges.map fun fe => ⟨fe, rectFromPoints fe.a fe.b⟩
  let bound := clipped.foldl (fun b c => Rect2.addRect b c.bound) emptyRect
  let faceID := fromFace face
  let pcell := fromCellID faceID
  let shrunkID := if faceEdges.isEmpty then pcell.id else shrinkToFit pcell cellPadding bound
  if shrunkID != pcell.id then
    let r1 := skipCellRange nShapes (rangeMin faceID) (rangeMin shrunkID) t
    let r2 := updateEdges nShapes fuel (fromCellID shrunkID) (isFace shrunkID) clipped r1.t
    let r3 := skipCellRange nShapes (next (rangeMax shrunkID)) (next (rangeMax faceID)) r2.t
    ⟨r1.cells ++ r2.cells ++ r3.cells, r3.t, r1.ok && r2.ok && r3.ok⟩
  else
    updateEdges nShapes fuel pcell true clipped t

/-! ### addShapeInternal / addFaceEdge -/

/-- `addFaceEdge(fe, allEdges)` : the `(face, faceEdge)` appends it performs, in order -/
def addFaceEdge (fe : FaceEdge) : List (Nat × FaceEdge) :=
  let aFace := STUV.face fe.v0
  let direct : Option FaceEdge :=
    if aFace == STUV.face fe.v1 then
      let a := STUV.validFaceXYZToUV aFace fe.v0
      let b := STUV.validFaceXYZToUV aFace fe.v1
      if F64.le a.1.abs maxUV && F64.le a.2.abs maxUV && F64.le b.1.abs maxUV && F64.le b.2.abs maxUV
      then some { fe with a := a, b := b } else none
    else none
  match direct with
  | some fe' => [(aFace, fe')]
  | none =>
    (List.range 6).filterMap fun face =>
      match clipToPaddedFace fe.v0 fe.v1 face cellPadding with
      | some (a, b) => some (face, { fe with a := a, b := b })
      | none => none

/-- the face edges `addShapeInternal(shapeID)` appends, in order -/
def shapeFaceEdges (shapeID : Nat) (s : Shape) : List (Nat × FaceEdge) :=
  (List.range s.edges.size).flatMap fun e =>
    let edge := s.edges[e]!
    addFaceEdge
      { shapeID := shapeID, edgeID := e, maxLevel := maxLevelForEdge edge.1 edge.2,
        hasInterior := s.dim == 2, a := (fzero, fzero), b := (fzero, fzero), v0 := edge.1, v1 := edge.2 }

/-- the tracker part of `addShapeInternal` -/
def addShapeTracker (t : Tracker) (shapeID : Nat) (s : Shape) : Tracker :=
  if s.dim == 2 then t.addShape shapeID (containsBruteForce s t.b) else t

/-- `allEdges` after the `addShapeInternal` loop, as one list of `(face, faceEdge)` -/
def allFaceEdges (shapes : Array Shape) : List (Nat × FaceEdge) :=
  (List.range shapes.size).flatMap fun id => shapeFaceEdges id shapes[id]!

/-- the tracker after the `addShapeInternal` loop -/
def initialTracker (shapes : Array Shape) : Tracker :=
  (List.range shapes.size).foldl (fun t id => addShapeTracker t id shapes[id]!) newTracker

/-- `allEdges[face]` -/
def faceEdgesOf (all : List (Nat × FaceEdge)) (face : Nat) : List FaceEdge :=
  all.filterMap fun fe => if fe.1 == face then some fe.2 else none

/-- one iteration of `for face := 0; face < 6; face++ { s.updateFaceEdges(face, allEdges[face], t) }` -/
def faceStep (nShapes : Nat) (all : List (Nat × FaceEdge)) (r : Res) (face : Nat) : Res :=
  let r' := updateFaceEdges nShapes face (faceEdgesOf all face) r.t
  ⟨r.cells ++ r'.cells, r'.t, r.ok && r'.ok⟩

/-- `applyUpdatesInternal()` on an index holding exactly `shapes` (ids 0 … n-1) -/
def buildRes (shapes : Array Shape) : Res :=
  (List.range 6).foldl (faceStep shapes.size (allFaceEdges shapes)) ⟨[], initialTracker shapes, true⟩

/-- the index: `s.cells` with the contents of `s.cellMap` -/
def build (shapes : Array Shape) : List IndexCell := (buildRes shapes).cells

end IndexBuild
end S2
