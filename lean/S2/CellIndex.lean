/-
  S2.CellIndex — executable model of s2/cell_index.go.

  * `build`            : `CellIndex.Add`* followed by `CellIndex.Build` (delta list, Go's sort order,
                         stack walk that emits the label tree `cellTree` and the leaf ranges `rangeNodes`)
  * `RangeIter.*`      : `CellIndexRangeIterator` (Begin / Next / Prev / Seek / Finish / Advance / Done,
                         StartID / LimitID / IsEmpty), for both the plain and the non-empty flavour
  * `ContentsIter.*`   : `CellIndexContentsIterator` (StartUnion / Next / Done / Clear) with the
                         de-duplication state `nodeCutoff` / `nextNodeCutoff` / `prevStartID`
  * specification      : `pairsAt`, `labelsAt` in leaf-set semantics (independent of the algorithm)

  Go `int32` values (labels, tree indices, `-1` markers) are `Int`.
  Contract of the Go code: every indexed cell id is valid, every label is ≥ 0 (`Add` panics otherwise).
  Under that contract `cellTree[contents]` in `Build` is never evaluated with `contents = -1`
  (every pop is preceded by its push); the model totalises the access with `[·]!`.
  Core-only: linked into the oracle executable.
-/
import S2.CellID
namespace S2
namespace CellIndex
open CellID

/-- `cellIndexDoneContents` -/
def doneContents : Int := -1

/-- `cellIndexNode` -/
structure TreeNode where
  cellID : CellID
  label : Int
  parent : Int
deriving Repr, BEq, DecidableEq

/-- `newCellIndexNode()`; also the value of the totalised out-of-range access `tree[i]!`
    (Go panics there; never reached under the contract) -/
instance : Inhabited TreeNode := ⟨{ cellID := 0, label := doneContents, parent := -1 }⟩

/-- `rangeNode` -/
structure RangeNode where
  startID : CellID
  contents : Int
deriving Repr, BEq, DecidableEq, Inhabited

/-- the built index: `cellTree` and `rangeNodes` -/
structure Index where
  tree : Array TreeNode
  ranges : Array RangeNode
deriving Repr, BEq, DecidableEq, Inhabited

/-- the local type `delta` of `Build` -/
structure Delta where
  startID : CellID
  cellID : CellID
  label : Int
deriving Repr, BEq, DecidableEq, Inhabited

/-- `CellIDFromFace(0).ChildBeginAtLevel(MaxLevel)` (= 1) -/
def firstLeaf : CellID := childBeginAtLevel (fromFace 0) maxLevel
/-- `CellIDFromFace(5).ChildEndAtLevel(MaxLevel)` (= 0xc000000000000001) -/
def endLeaf : CellID := childEndAtLevel (fromFace 5) maxLevel

/-- The delta list before sorting: two per `(cellID, label)` pair in `Add` order, then the two
    special ones. -/
def deltasOf (cells : List (CellID × Int)) : List Delta :=
  cells.flatMap (fun (c, l) =>
      [ { startID := rangeMin c, cellID := c, label := l },
        { startID := next (rangeMax c), cellID := sentinel, label := -1 } ])
    ++ [ { startID := firstLeaf, cellID := 0, label := -1 },
         { startID := endLeaf, cellID := 0, label := -1 } ]

/-- the `less` function given to `sort.Slice`: by startID, then REVERSE by cellID, then by label -/
def deltaLess (a b : Delta) : Bool :=
  if a.startID != b.startID then a.startID < b.startID
  else if a.cellID != b.cellID then a.cellID > b.cellID
  else a.label < b.label

/-- `deltaLess` is a strict total order on the three fields, so every correct sort (Go's unstable
    pdqsort included) produces the same list up to swapping fully identical entries. -/
def sortDeltas (ds : List Delta) : List Delta := ds.mergeSort (fun a b => !deltaLess b a)

/-- The body of the inner `for` loop of `Build` for one delta. -/
def applyDelta (tree : Array TreeNode) (contents : Int) (d : Delta) : Array TreeNode × Int :=
  if d.label ≥ 0 then
    (tree.push { cellID := d.cellID, label := d.label, parent := contents }, (tree.size : Int))
  else if d.cellID == sentinel then
    (tree, tree[contents.toNat]!.parent)
  else (tree, contents)

/-- The two nested loops of `Build`, flattened: a range node is appended after the last delta of each
    group of equal `startID` (i.e. when the next delta has another startID or there is none). -/
def buildLoop : List Delta → Array TreeNode → Array RangeNode → Int → Index
  | [], tree, ranges, _ => { tree := tree, ranges := ranges }
  | d :: rest, tree, ranges, contents =>
    let (tree', contents') := applyDelta tree contents d
    match rest with
    | [] => { tree := tree', ranges := ranges.push { startID := d.startID, contents := contents' } }
    | d' :: _ =>
      if d'.startID == d.startID then buildLoop rest tree' ranges contents'
      else buildLoop rest tree' (ranges.push { startID := d.startID, contents := contents' }) contents'

/-- `Add` for every pair (in order), then `Build`. -/
def build (cells : List (CellID × Int)) : Index :=
  buildLoop (sortDeltas (deltasOf cells)) #[] #[] (-1)

/-- the chain `node, parent, parent.parent, …` as `(cellID, label)` pairs (what a fresh contents
    iterator reports for a range whose `contents` is `i`) -/
def chain (tree : Array TreeNode) : Nat → Int → List (CellID × Int)
  | 0, _ => []
  | fuel+1, i =>
    if i < 0 then [] else
    let n := tree[i.toNat]!
    (n.cellID, n.label) :: chain tree fuel n.parent

/-- All ranges `(StartID, LimitID, contents)` in the order of the plain range iterator. -/
def rangeList (ix : Index) : List (CellID × CellID × Int) :=
  (List.range (ix.ranges.size - 1)).map fun p =>
    (ix.ranges[p]!.startID, ix.ranges[p+1]!.startID, ix.ranges[p]!.contents)

/-! ### CellIndexRangeIterator -/

/-- `CellIndexRangeIterator`: the shared `rangeNodes`, `pos`, `nonEmpty` -/
structure RangeIter where
  rn : Array RangeNode
  pos : Int
  nonEmpty : Bool
deriving Repr, Inhabited

namespace RangeIter

def new (ix : Index) : RangeIter := { rn := ix.ranges, pos := 0, nonEmpty := false }
def newNonEmpty (ix : Index) : RangeIter := { rn := ix.ranges, pos := 0, nonEmpty := true }

def startID (c : RangeIter) : CellID := c.rn[c.pos.toNat]!.startID
def limitID (c : RangeIter) : CellID := c.rn[(c.pos + 1).toNat]!.startID
def contents (c : RangeIter) : Int := c.rn[c.pos.toNat]!.contents
def isEmpty (c : RangeIter) : Bool := c.contents == doneContents
def done (c : RangeIter) : Bool := c.pos ≥ (c.rn.size : Int) - 1

/-- `for c.nonEmpty && c.IsEmpty() && !c.Done() { c.pos++ }` -/
def skipEmpty (c : RangeIter) : RangeIter := go c.rn.size c
where
  go : Nat → RangeIter → RangeIter
    | 0, c => c
    | fuel+1, c => if c.nonEmpty && c.isEmpty && !c.done then go fuel { c with pos := c.pos + 1 } else c

def begin (c : RangeIter) : RangeIter := skipEmpty { c with pos := 0 }
def next (c : RangeIter) : RangeIter := skipEmpty { c with pos := c.pos + 1 }
def finish (c : RangeIter) : RangeIter := { c with pos := (c.rn.size : Int) - 1 }

/-- unexported `prev` -/
def prev' (c : RangeIter) : RangeIter × Bool :=
  if c.pos == 0 then (c, false) else ({ c with pos := c.pos - 1 }, true)

/-- `nonEmptyPrev` -/
def nonEmptyPrev (c : RangeIter) : RangeIter × Bool := go (c.rn.size + 1) c
where
  go : Nat → RangeIter → RangeIter × Bool
    | 0, c => (c, false)
    | fuel+1, c =>
      let (c', moved) := prev' c
      if moved then
        if !c'.isEmpty then (c', true) else go fuel c'
      else
        -- "Return the iterator to its original position."
        if c'.isEmpty && !c'.done then (c'.next, false) else (c', false)

def prev (c : RangeIter) : RangeIter × Bool := if c.nonEmpty then nonEmptyPrev c else prev' c

def advance (c : RangeIter) (n : Int) : RangeIter × Bool :=
  if n ≥ (c.rn.size : Int) - 1 - c.pos then (c, false) else ({ c with pos := c.pos + n }, true)

/-- `sort.Search(len, func(i) bool { return rangeNodes[i].startID > target })` as the real
    binary search -/
def searchGT (rn : Array RangeNode) (target : CellID) : Nat := go rn.size 0 rn.size
where
  go : Nat → Nat → Nat → Nat
    | 0, i, _ => i
    | fuel+1, i, j =>
      if i < j then
        let h := (i + j) / 2
        if !(rn[h]!.startID > target) then go fuel (h+1) j else go fuel i h
      else i

def seek (c : RangeIter) (target : CellID) : RangeIter :=
  let p : Int := (searchGT c.rn target : Int) - 1
  let p := if p < 0 then 0 else p
  skipEmpty { c with pos := p }

end RangeIter

/-! ### CellIndexContentsIterator -/

structure ContentsIter where
  nodeCutoff : Int
  nextNodeCutoff : Int
  prevStartID : CellID
  tree : Array TreeNode
  node : TreeNode
deriving Repr, Inhabited

namespace ContentsIter

def new (ix : Index) : ContentsIter :=
  { tree := ix.tree, prevStartID := 0, nodeCutoff := -1, nextNodeCutoff := -1,
    node := { cellID := 0, label := doneContents, parent := 0 } }

def clear (c : ContentsIter) : ContentsIter :=
  { c with prevStartID := 0, nodeCutoff := -1, nextNodeCutoff := -1,
           node := { c.node with label := doneContents } }

def done (c : ContentsIter) : Bool := c.node.label == doneContents

def next (c : ContentsIter) : ContentsIter :=
  if c.node.parent ≤ c.nodeCutoff then
    { c with nodeCutoff := c.nextNodeCutoff, node := { c.node with label := doneContents } }
  else { c with node := c.tree[c.node.parent.toNat]! }

def startUnion (c : ContentsIter) (r : RangeIter) : ContentsIter :=
  let c := if r.startID < c.prevStartID then { c with nodeCutoff := -1 } else c
  let c := { c with prevStartID := r.startID }
  let contents := r.contents
  let c := if contents ≤ c.nodeCutoff then { c with node := { c.node with label := doneContents } }
           else { c with node := c.tree[contents.toNat]! }
  { c with nextNodeCutoff := contents }

/-- `for ; !c.Done(); c.Next() { report (c.CellID(), c.Label()) }` -/
def drain : Nat → ContentsIter → List (CellID × Int) → ContentsIter × List (CellID × Int)
  | 0, c, acc => (c, acc.reverse)
  | fuel+1, c, acc => if c.done then (c, acc.reverse) else drain fuel c.next ((c.node.cellID, c.node.label) :: acc)

/-- `StartUnion(r)` followed by a complete `Next` loop -/
def visit (c : ContentsIter) (r : RangeIter) : ContentsIter × List (CellID × Int) :=
  drain (c.tree.size + 1) (c.startUnion r) []

end ContentsIter

/-- Position a plain range iterator on range number `p` (Begin, then `p` × Next). -/
def rangeAt (ix : Index) (p : Nat) : RangeIter := { RangeIter.new ix with pos := p }

/-- Visit the ranges with the given positions, in the given order, with ONE contents iterator. -/
def sweep (ix : Index) (positions : List Nat) : List (List (CellID × Int)) :=
  (positions.foldl (fun (st : ContentsIter × List (List (CellID × Int))) p =>
      let (c, out) := st.1.visit (rangeAt ix p)
      (c, out :: st.2)) (ContentsIter.new ix, [])).2.reverse

/-- Sweep all ranges of a (plain or non-empty) range iterator from `Begin` until `Done`, with ONE
    contents iterator: `(StartID, LimitID, reported pairs)` per visited range. -/
def sweepIter (ix : Index) (nonEmpty : Bool) : List (CellID × CellID × List (CellID × Int)) :=
  let r0 := (if nonEmpty then RangeIter.newNonEmpty ix else RangeIter.new ix).begin
  (go ix.ranges.size r0 (ContentsIter.new ix) []).reverse
where
  go : Nat → RangeIter → ContentsIter → List (CellID × CellID × List (CellID × Int)) →
       List (CellID × CellID × List (CellID × Int))
    | 0, _, _, acc => acc
    | fuel+1, r, c, acc =>
      if r.done then acc else
      let (c', out) := c.visit r
      go fuel r.next c' ((r.startID, r.limitID, out) :: acc)

/-! ### Specification in leaf-set semantics -/

/-- the indexed pairs whose cell contains position `x` -/
def pairsAt (cells : List (CellID × Int)) (x : Nat) : List (CellID × Int) :=
  cells.filter fun (c, _) => (rangeMin c).toNat ≤ x && x ≤ (rangeMax c).toNat

def insertSorted (x : Int) : List Int → List Int
  | [] => [x]
  | y :: ys => if x < y then x :: y :: ys else if x == y then y :: ys else y :: insertSorted x ys

/-- sorted, de-duplicated list of integers -/
def sortDedup (l : List Int) : List Int := l.foldr insertSorted []

/-- the set of labels of the indexed pairs whose cell contains leaf position `x` -/
def labelsAt (cells : List (CellID × Int)) (x : Nat) : List Int :=
  sortDedup ((pairsAt cells x).map (·.2))

end CellIndex
end S2
