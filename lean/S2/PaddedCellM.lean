/-
  S2.PaddedCellM — executable model of the INTEGER bookkeeping of s2/paddedcell.go, line by line.

  A `PaddedCell` here is the tuple (id, level, orientation, iLo, jLo); the float fields `bound`,
  `middle`, `padding` of the Go struct are not part of the structure: the padding is passed as an
  explicit argument where it is read (`shrinkToFit`, `boundFromCellID`, `middle`), and the two float
  rectangles are modelled by separate functions at the end of the file (`boundFromCellID`, `middle`,
  `boundFromParentIJ`; soft-float, used by the oracle only, no theorems about them).

  Modelled: `PaddedCellFromCellID`, `PaddedCellFromParentIJ`, `ChildIJ`, the integer pair (i,j)
  computed in `EntryVertex` / `ExitVertex` before the `faceSiTiToXYZ` call (`entryIJ` / `exitIJ`),
  the resulting points (`entryVertex` / `exitVertex`, via the soft-float `S2.STUV.faceSiTiToXYZ`
  and `V3.normalize`), `Center`'s (si,ti), and `ShrinkToFit` (soft-float, `shrinkToFit`).

  Go `int` values here are all non-negative and < 2^32, so they are `Nat`.
  Quirks kept:
  * `PaddedCellFromCellID` has a face fast path that never calls `faceIJOrientation`/`Level`.
  * `iLo &= -ijSize` is the 64-bit two's complement AND (`andNeg`).
  * `PaddedCellFromParentIJ` on a LEAF parent is out of contract (`Children()` of a leaf is not a
    cell, and Go's `sizeIJ(31) = 1 << uint(-1) = 0` while the totalised `sizeIJ 31 = 1` here);
    theorems and generators guard with `level < 30`.
  * `ijToPos[..][2*i+j]` / `posToIJ[..][pos]` are `[..]!`-totalised; Go panics for an index ≥ 4;
    theorems guard with `i < 2`, `j < 2`, `pos < 4`, `orientation < 4`.
  Core-only (linked into the oracle executable).
-/
import S2.CellID
import S2.Hilbert
import S2.STUV
import S2.CellM
namespace S2
namespace PaddedCellM
open CellID Hilbert

structure PaddedCell where
  id : CellID
  level : Nat
  orientation : Nat
  iLo : Nat
  jLo : Nat
deriving DecidableEq, BEq, Repr, Inhabited

/-- Go `x & -s` on 64-bit ints for `0 ≤ x`, `0 < s ≤ 2^64` (two's complement of `-s`). -/
def andNeg (x s : Nat) : Nat := x &&& (2 ^ 64 - s)

/-- `PaddedCellFromCellID` (integer fields). -/
def fromCellID (id : CellID) : PaddedCell :=
  if isFace id then
    -- fast path: iLo, jLo, level keep their zero values
    { id := id, level := 0, orientation := face id &&& 1, iLo := 0, jLo := 0 }
  else
    let (_, i, j, o) := faceIJOrientation id
    let lvl := level id
    let ijSize := sizeIJ lvl
    { id := id, level := lvl, orientation := o, iLo := andNeg i ijSize, jLo := andNeg j ijSize }

/-- `PaddedCellFromParentIJ` (integer fields). -/
def fromParentIJ (parent : PaddedCell) (i j : Nat) : PaddedCell :=
  let pos := ijToPos[parent.orientation]![2 * i + j]!
  let lvl := parent.level + 1
  let ijSize := sizeIJ lvl
  { id := child parent.id pos,
    orientation := parent.orientation ^^^ posToOrientation[pos]!,
    level := lvl,
    iLo := parent.iLo + i * ijSize,
    jLo := parent.jLo + j * ijSize }

/-- `ChildIJ(pos)`. -/
def childIJ (p : PaddedCell) (pos : Nat) : Nat × Nat :=
  let ij := posToIJ[p.orientation]![pos]!
  (ij >>> 1, ij &&& 1)

/-- the child visited at traversal position `pos` (how the ShapeIndex builder uses the API:
    `i, j := p.ChildIJ(pos); PaddedCellFromParentIJ(p, i, j)`). -/
def childAtPos (p : PaddedCell) (pos : Nat) : PaddedCell :=
  fromParentIJ p (childIJ p pos).1 (childIJ p pos).2

/-- the `(i, j)` of `EntryVertex` before the `faceSiTiToXYZ(face, uint32(2*i), uint32(2*j))` call. -/
def entryIJ (p : PaddedCell) : Nat × Nat :=
  if p.orientation &&& invertMask != 0 then
    let ijSize := sizeIJ p.level
    (p.iLo + ijSize, p.jLo + ijSize)
  else (p.iLo, p.jLo)

/-- the `(i, j)` of `ExitVertex` before the `faceSiTiToXYZ` call. -/
def exitIJ (p : PaddedCell) : Nat × Nat :=
  let ijSize := sizeIJ p.level
  if p.orientation == 0 || p.orientation == swapMask + invertMask then
    (p.iLo + ijSize, p.jLo)
  else (p.iLo, p.jLo + ijSize)

/-- `uint32(x)`. -/
def u32 (x : Nat) : Nat := x % 4294967296

def entryVertex (p : PaddedCell) : V3 :=
  let (i, j) := entryIJ p
  (STUV.faceSiTiToXYZ (face p.id) (u32 (2 * i)) (u32 (2 * j))).normalize

def exitVertex (p : PaddedCell) : V3 :=
  let (i, j) := exitIJ p
  (STUV.faceSiTiToXYZ (face p.id) (u32 (2 * i)) (u32 (2 * j))).normalize

/-- the `(si, ti)` of `Center` / `Middle` / `ShrinkToFit`. -/
def centerSiTi (p : PaddedCell) : Nat × Nat :=
  let ijSize := sizeIJ p.level
  (u32 (2 * p.iLo + ijSize), u32 (2 * p.jLo + ijSize))

def center (p : PaddedCell) : V3 :=
  let (si, ti) := centerSiTi p
  (STUV.faceSiTiToXYZ (face p.id) si ti).normalize

open CellM in
/-- `ShrinkToFit(rect)`; `padding` is the Go field `p.padding`. -/
def shrinkToFit (p : PaddedCell) (padding : F64) (rect : Rect2) : CellID :=
  if p.level == 0 && (Ivl.contains rect.1 fzero || Ivl.contains rect.2 fzero) then p.id else
  let ijSize := sizeIJ p.level
  let (si, ti) := centerSiTi p
  if Ivl.contains rect.1 (STUV.stToUV (STUV.siTiToST si)) ||
     Ivl.contains rect.2 (STUV.stToUV (STUV.siTiToST ti)) then p.id else
  -- 1.5*dblEpsilon = 3·2^-53 is an exact constant
  let padded := Rect2.expandedByMargin rect (padding + (⟨0x3CB8000000000000⟩ : F64))
  let xlo := (STUV.stToIJ (STUV.uvToST padded.1.1)).toNat
  let xhi := (STUV.stToIJ (STUV.uvToST padded.1.2)).toNat
  let ylo := (STUV.stToIJ (STUV.uvToST padded.2.1)).toNat
  let yhi := (STUV.stToIJ (STUV.uvToST padded.2.2)).toNat
  let iMin := if p.iLo < xlo then xlo else p.iLo
  let iXor := if p.iLo + ijSize - 1 ≤ xhi then iMin ^^^ (p.iLo + ijSize - 1) else iMin ^^^ xhi
  let jMin := if p.jLo < ylo then ylo else p.jLo
  let jXor := if p.jLo + ijSize - 1 ≤ yhi then jMin ^^^ (p.jLo + ijSize - 1) else jMin ^^^ yhi
  let levelMSB : UInt64 := UInt64.ofNat (((iXor ||| jXor) <<< 1) + 1)
  let lvl := maxLevel - msbPos levelMSB
  if lvl ≤ p.level then p.id else
  parent (cellIDFromFaceIJ (face p.id) iMin jMin) lvl

/-! ### the float rectangles `bound` / `middle` (kept outside the record) -/

open CellM in
/-- the `bound` field set by `PaddedCellFromCellID`. -/
def boundFromCellID (id : CellID) (padding : F64) : Rect2 :=
  if isFace id then
    let limit := padding + F64.one
    ((-limit, limit), (-limit, limit))
  else
    let (_, i, j, _) := faceIJOrientation id
    Rect2.expandedByMargin (ijLevelToBoundUV i j (level id)) padding

open CellM in
/-- `Middle()`.  `preset` = the cell was built by the face fast path of `PaddedCellFromCellID`, which stores
    `[-padding, padding]²` (for padding 0 its lower ends are `-0`, unlike the lazily computed value). -/
def middle (p : PaddedCell) (padding : F64) (preset : Bool) : Rect2 :=
  if preset && !(Ivl.isEmpty (-padding, padding)) then ((-padding, padding), (-padding, padding)) else
  let (si, ti) := centerSiTi p
  let u := STUV.stToUV (STUV.siTiToST si)
  let v := STUV.stToUV (STUV.siTiToST ti)
  ((u - padding, u + padding), (v - padding, v + padding))

open CellM in
/-- the `bound` field set by `PaddedCellFromParentIJ` from the parent's bound and `parent.Middle()`. -/
def boundFromParentIJ (parentBound mid : Rect2) (i j : Nat) : Rect2 :=
  let x : Ivl := if i == 1 then (mid.1.1, parentBound.1.2) else (parentBound.1.1, mid.1.2)
  let y : Ivl := if j == 1 then (mid.2.1, parentBound.2.2) else (parentBound.2.1, mid.2.2)
  (x, y)

end PaddedCellM
end S2
