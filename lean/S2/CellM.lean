/-
  S2.CellM — executable model of s2/cell.go (the parts that need no libm), line by line.

  Modelled: `CellFromCellID`, `CellFromPoint`, `Children`, `VertexRaw`/`Vertex`, `EdgeRaw`/`Edge`,
  `Center`, `BoundUV`, `ContainsPoint` (with the `dblEpsilon` expansion), `ContainsCell`,
  `IntersectsCell`, `vertexChordDist2`, `uEdgeIsClosest`, `vEdgeIsClosest`, `edgeDistance`,
  `distanceInternal`, `Distance`, `BoundaryDistance`, `MaxDistance`; from s2/cellid.go
  `ijLevelToBoundUV`, `centerUV`, `rawPoint`; from s2/stuv.go `faceXYZToUV`, `faceXYZtoUVW`,
  `uNorm`, `vNorm`; from r1/r2 the interval / rectangle predicates used; from s1 the
  chord-angle helpers used (`ChordAngleFromSquaredLength`, `ChordAngleBetweenPoints`).
  A chord angle is its `float64` (squared chord length).

  NOT modelled (libm or the robust cross product): `RectBound`, `CapBound`, `DistanceToEdge`,
  `DistanceToCell` and their `Max…` variants — these are judged by the oracle on Go's outputs.
  Core-only (linked into the oracle executable).
-/
import S2.F64
import S2.STUV
namespace S2
namespace CellM
open CellID Hilbert STUV

/-- r1.Interval as (Lo, Hi); r2.Rect as (X, Y). -/
abbrev Ivl := F64 × F64
abbrev Rect2 := Ivl × Ivl

structure Cell where
  face : Nat
  level : Nat
  orientation : Nat
  id : CellID
  uv : Rect2
deriving BEq, DecidableEq, Inhabited

def fzero : F64 := F64.zero false
/-- `dblEpsilon = 2.220446049250313e-16 = 2^-52` -/
def dblEpsilon : F64 := ⟨0x3CB0000000000000⟩
def negOne : F64 := ⟨0xBFF0000000000000⟩

/-! ### r1.Interval / r2.Rect -/
def Ivl.isEmpty (i : Ivl) : Bool := F64.gt i.1 i.2
def Ivl.contains (i : Ivl) (p : F64) : Bool := F64.le i.1 p && F64.le p i.2
def Ivl.expanded (i : Ivl) (m : F64) : Ivl := if Ivl.isEmpty i then i else (i.1 - m, i.2 + m)
def Ivl.intersects (i oi : Ivl) : Bool :=
  if F64.le i.1 oi.1 then F64.le oi.1 i.2 && F64.le oi.1 oi.2
  else F64.le i.1 oi.2 && F64.le i.1 i.2
def Ivl.center (i : Ivl) : F64 := F64.half * (i.1 + i.2)
def emptyIvl : Ivl := (F64.one, fzero)

def Rect2.expanded (r : Rect2) (mx my : F64) : Rect2 :=
  let xx := Ivl.expanded r.1 mx
  let yy := Ivl.expanded r.2 my
  if Ivl.isEmpty xx || Ivl.isEmpty yy then (emptyIvl, emptyIvl) else (xx, yy)
def Rect2.expandedByMargin (r : Rect2) (m : F64) : Rect2 := Rect2.expanded r m m
def Rect2.containsPoint (r : Rect2) (x y : F64) : Bool := Ivl.contains r.1 x && Ivl.contains r.2 y
def Rect2.intersects (r o : Rect2) : Bool := Ivl.intersects r.1 o.1 && Ivl.intersects r.2 o.2
/-- `Vertices()[k]` : CCW from the lower-left corner -/
def Rect2.vertex (r : Rect2) (k : Nat) : F64 × F64 :=
  match k % 4 with
  | 0 => (r.1.1, r.2.1)
  | 1 => (r.1.2, r.2.1)
  | 2 => (r.1.2, r.2.2)
  | _ => (r.1.1, r.2.2)

/-! ### cellid.go -/

/-- `ijLevelToBoundUV`.  `i & -cellSize` on a non-negative `int` with `cellSize` a power of two
    clears the low bits: `i - i % cellSize`. -/
def ijLevelToBoundUV (i j level : Nat) : Rect2 :=
  let cellSize := sizeIJ level
  let xLo := i - i % cellSize
  let yLo := j - j % cellSize
  ((stToUV (ijToSTMin (xLo : Nat)), stToUV (ijToSTMin ((xLo + cellSize : Nat) : Int))),
   (stToUV (ijToSTMin (yLo : Nat)), stToUV (ijToSTMin ((yLo + cellSize : Nat) : Int))))

/-- `CellID.centerUV` -/
def centerUV (ci : CellID) : F64 × F64 :=
  let (_, si, ti) := faceSiTi ci
  (stToUV (siTiToST si), stToUV (siTiToST ti))

/-- `(0.5/MaxSize)` = 2^-31 -/
def halfOverMaxSize : F64 := ⟨0x3E00000000000000⟩

/-- `CellID.rawPoint` -/
def rawPoint (ci : CellID) : V3 :=
  let (f, si, ti) := faceSiTi ci
  faceUVToXYZ f (stToUV (halfOverMaxSize * F64.ofNat si)) (stToUV (halfOverMaxSize * F64.ofNat ti))

/-! ### stuv.go (parts not in S2.STUV) -/

/-- `faceXYZToUV` : `none` when the dot product with the face normal is not positive -/
def faceXYZToUV (face : Nat) (p : V3) : Option (F64 × F64) :=
  let bad : Bool := match face with
    | 0 => F64.le p.x fzero
    | 1 => F64.le p.y fzero
    | 2 => F64.le p.z fzero
    | 3 => F64.ge p.x fzero
    | 4 => F64.ge p.y fzero
    | _ => F64.ge p.z fzero
  if bad then none else some (validFaceXYZToUV face p)

def faceXYZtoUVW (face : Nat) (p : V3) : V3 :=
  match face with
  | 0 => ⟨p.y, p.z, p.x⟩
  | 1 => ⟨-p.x, p.z, p.y⟩
  | 2 => ⟨-p.x, -p.y, p.z⟩
  | 3 => ⟨-p.z, -p.y, -p.x⟩
  | 4 => ⟨-p.z, p.x, -p.y⟩
  | _ => ⟨p.y, p.x, -p.z⟩

def uNorm (face : Nat) (u : F64) : V3 :=
  match face with
  | 0 => ⟨u, negOne, fzero⟩
  | 1 => ⟨F64.one, u, fzero⟩
  | 2 => ⟨F64.one, fzero, u⟩
  | 3 => ⟨-u, fzero, F64.one⟩
  | 4 => ⟨fzero, -u, F64.one⟩
  | _ => ⟨fzero, negOne, -u⟩

def vNorm (face : Nat) (v : F64) : V3 :=
  match face with
  | 0 => ⟨-v, fzero, F64.one⟩
  | 1 => ⟨fzero, -v, F64.one⟩
  | 2 => ⟨fzero, negOne, -v⟩
  | 3 => ⟨v, negOne, fzero⟩
  | 4 => ⟨F64.one, v, fzero⟩
  | _ => ⟨F64.one, fzero, v⟩

/-! ### cell.go -/

def cellFromCellID (id : CellID) : Cell :=
  let (f, i, j, o) := faceIJOrientation id
  let lvl := CellID.level id
  { id := id, face := f, level := lvl, orientation := o, uv := ijLevelToBoundUV i j lvl }

def cellFromPoint (p : V3) : Cell := cellFromCellID (cellIDFromPoint p)

/-- one iteration of the loop of `Cell.Children` -/
def childCell (c : Cell) (uvMid : F64 × F64) (pos : Nat) (cid : CellID) : Cell :=
  let ij := (posToIJ[c.orientation]!)[pos]!
  let i := ij >>> 1
  let j := ij &&& 1
  let x : Ivl := if i == 1 then (uvMid.1, c.uv.1.2) else (c.uv.1.1, uvMid.1)
  let y : Ivl := if j == 1 then (uvMid.2, c.uv.2.2) else (c.uv.2.1, uvMid.2)
  { face := c.face, level := c.level + 1, orientation := c.orientation ^^^ posToOrientation[pos]!,
    id := cid, uv := (x, y) }

/-- `Cell.Children`: `none` for a leaf cell -/
def children (c : Cell) : Option (List Cell) :=
  if isLeaf c.id then none else
  let uvMid := centerUV c.id
  let c0 := childBegin c.id
  let c1 := next c0
  let c2 := next c1
  let c3 := next c2
  some [childCell c uvMid 0 c0, childCell c uvMid 1 c1, childCell c uvMid 2 c2, childCell c uvMid 3 c3]

def vertexRaw (c : Cell) (k : Nat) : V3 :=
  let p := Rect2.vertex c.uv k
  faceUVToXYZ c.face p.1 p.2
def vertex (c : Cell) (k : Nat) : V3 := (vertexRaw c k).normalize

def edgeRaw (c : Cell) (k : Nat) : V3 :=
  match k with
  | 0 => vNorm c.face c.uv.2.1
  | 1 => uNorm c.face c.uv.1.2
  | 2 => (vNorm c.face c.uv.2.2).mul negOne
  | _ => (uNorm c.face c.uv.1.1).mul negOne
def edge (c : Cell) (k : Nat) : V3 := (edgeRaw c k).normalize

def centerRaw (c : Cell) : V3 := rawPoint c.id
def center (c : Cell) : V3 := (rawPoint c.id).normalize

/-- `2 * dblEpsilon`: the margin of `Cell.ContainsPoint` after repair D46 (was `dblEpsilon`) -/
def containsMargin : F64 := F64.mul F64.two dblEpsilon

def containsPoint (c : Cell) (p : V3) : Bool :=
  match faceXYZToUV c.face p with
  | none => false
  | some (u, v) => Rect2.containsPoint (Rect2.expandedByMargin c.uv containsMargin) u v

def containsCell (c oc : Cell) : Bool := CellID.contains c.id oc.id
def intersectsCell (c oc : Cell) : Bool := CellID.intersects c.id oc.id

/-! ### distances (chord angles are the float64 squared chord length) -/

/-- `PointFromCoords` -/
def pointFromCoords (x y z : F64) : V3 :=
  if F64.feq x fzero && F64.feq y fzero && F64.feq z fzero then
    -- OriginPoint(); never reached from the cell code (z = 1)
    ⟨⟨0xBF847A99AA86ED3B⟩, ⟨0x3F653CC5488BEC88⟩, ⟨0x3FEFFF901A72D2AC⟩⟩
  else (V3.mk x y z).normalize

/-- `ChordAngleBetweenPoints` : `math.Min(4.0, |x−y|²)` -/
def chordAngleBetweenPoints (x y : V3) : F64 := F64.fmin F64.four (x.sub y).norm2

/-- `s1.ChordAngleFromSquaredLength` -/
def chordAngleFromSquaredLength (l2 : F64) : F64 := if F64.gt l2 F64.four then F64.four else l2

def minChord (x : F64) (others : List F64) : F64 :=
  others.foldl (fun m y => if F64.lt y m then y else m) x
def maxChord (x : F64) (others : List F64) : F64 :=
  others.foldl (fun m y => if F64.gt y m then y else m) x

def vertexChordDist2 (c : Cell) (p : V3) (xHi yHi : Bool) : F64 :=
  let x := if xHi then c.uv.1.2 else c.uv.1.1
  let y := if yHi then c.uv.2.2 else c.uv.2.1
  chordAngleBetweenPoints p (pointFromCoords x y F64.one)

/-- `const edgeIsClosestMargin = 32 * dblError` (s2/cell.go, repair D58) as the float64 the compiler materialises:
    `dblError = 1.110223024625156e-16` is a DECIMAL literal (float64 `3c9ffffffffffffc` = 2^-53·(1 − 2^-51), four ulps
    below 2^-53); the untyped product `32 * dblError` is exact and rounds once, to `2^-48·(1 − 2^-51)`, which is also
    `32 · float64(dblError)` exactly (a power-of-two factor).  NOT 2^-48. -/
def edgeIsClosestMargin : F64 := ⟨0x3ceffffffffffffc⟩

def uEdgeIsClosest (c : Cell) (p : V3) (vHi : Bool) : Bool :=
  let u0 := c.uv.1.1
  let u1 := c.uv.1.2
  let v := if vHi then c.uv.2.2 else c.uv.2.1
  let dir0 : V3 := ⟨v * v + F64.one, (-u0) * v, -u0⟩
  let dir1 : V3 := ⟨v * v + F64.one, (-u1) * v, -u1⟩
  F64.gt (p.dot dir0) edgeIsClosestMargin && F64.lt (p.dot dir1) (-edgeIsClosestMargin)

def vEdgeIsClosest (c : Cell) (p : V3) (uHi : Bool) : Bool :=
  let v0 := c.uv.2.1
  let v1 := c.uv.2.2
  let u := if uHi then c.uv.1.2 else c.uv.1.1
  let dir0 : V3 := ⟨(-u) * v0, u * u + F64.one, -v0⟩
  let dir1 : V3 := ⟨(-u) * v1, u * u + F64.one, -v1⟩
  F64.gt (p.dot dir0) edgeIsClosestMargin && F64.lt (p.dot dir1) (-edgeIsClosestMargin)

/-- `along`, `w`: the two in-plane components of the target (OQ² = along² + w²/(1+uv²), a sum of squares) -/
def edgeDistance (ij uv along w : F64) : F64 :=
  let pq2 := (ij * ij) / (F64.one + uv * uv)
  let oq2 := along * along + (w * w) / (F64.one + uv * uv)
  let qr := F64.one - F64.sqrt oq2
  chordAngleFromSquaredLength (pq2 + qr * qr)

/-- the four sign tests of `distanceInternal` on the (u,v,w) target -/
structure Dirs where
  dir00 : F64
  dir01 : F64
  dir10 : F64
  dir11 : F64

def dirs (c : Cell) (t : V3) : Dirs :=
  { dir00 := t.x - t.z * c.uv.1.1, dir01 := t.x - t.z * c.uv.1.2,
    dir10 := t.y - t.z * c.uv.2.1, dir11 := t.y - t.z * c.uv.2.2 }

/-- `inside` flag of `distanceInternal` -/
def Dirs.inside (d : Dirs) : Bool :=
  !(F64.lt d.dir00 fzero) && !(F64.gt d.dir01 fzero) && !(F64.lt d.dir10 fzero) && !(F64.gt d.dir11 fzero)

/-- which branch of `distanceInternal` returns: 0..3 = an edge (left, right, bottom, top),
    4 = inside, 5 = vertices -/
def distanceBranch (c : Cell) (targetXYZ : V3) : Nat :=
  let t := faceXYZtoUVW c.face targetXYZ
  let d := dirs c t
  if F64.lt d.dir00 fzero && vEdgeIsClosest c t false then 0
  else if F64.gt d.dir01 fzero && vEdgeIsClosest c t true then 1
  else if F64.lt d.dir10 fzero && uEdgeIsClosest c t false then 2
  else if F64.gt d.dir11 fzero && uEdgeIsClosest c t true then 3
  else if d.inside then 4 else 5

def distanceInternal (c : Cell) (targetXYZ : V3) (toInterior : Bool) : F64 :=
  let t := faceXYZtoUVW c.face targetXYZ
  let d := dirs c t
  if F64.lt d.dir00 fzero && vEdgeIsClosest c t false then edgeDistance (-d.dir00) c.uv.1.1 t.y (c.uv.1.1 * t.x + t.z)
  else if F64.gt d.dir01 fzero && vEdgeIsClosest c t true then edgeDistance d.dir01 c.uv.1.2 t.y (c.uv.1.2 * t.x + t.z)
  else if F64.lt d.dir10 fzero && uEdgeIsClosest c t false then edgeDistance (-d.dir10) c.uv.2.1 t.x (c.uv.2.1 * t.y + t.z)
  else if F64.gt d.dir11 fzero && uEdgeIsClosest c t true then edgeDistance d.dir11 c.uv.2.2 t.x (c.uv.2.2 * t.y + t.z)
  else if d.inside then
    if toInterior then fzero
    else minChord (edgeDistance (-d.dir00) c.uv.1.1 t.y (c.uv.1.1 * t.x + t.z))
      [edgeDistance d.dir01 c.uv.1.2 t.y (c.uv.1.2 * t.x + t.z), edgeDistance (-d.dir10) c.uv.2.1 t.x (c.uv.2.1 * t.y + t.z), edgeDistance d.dir11 c.uv.2.2 t.x (c.uv.2.2 * t.y + t.z)]
  else minChord (vertexChordDist2 c t false false)
      [vertexChordDist2 c t true false, vertexChordDist2 c t false true, vertexChordDist2 c t true true]

def distance (c : Cell) (target : V3) : F64 := distanceInternal c target true
def boundaryDistance (c : Cell) (target : V3) : F64 := distanceInternal c target false

/-- the vertex maximum computed first by `MaxDistance` -/
def maxVertexDist (c : Cell) (target : V3) : F64 :=
  let t := faceXYZtoUVW c.face target
  maxChord (vertexChordDist2 c t false false)
    [vertexChordDist2 c t true false, vertexChordDist2 c t false true, vertexChordDist2 c t true true]

def maxDistance (c : Cell) (target : V3) : F64 :=
  let maxDist := maxVertexDist c target
  if F64.le maxDist F64.two then maxDist
  else F64.four - distance c (target.mul negOne)

end CellM
end S2
