/-
  S2.Codec — model of the golang/geo binary codecs (property C09).
  `Prim`: bytes, little-endian, uvarint, zig-zag, interleave, N-th derivative coder.
  `Points`: compressed point lists.  `Types`: the nine encodable types.
-/
import S2.Codec.Prim
import S2.Codec.Points
import S2.Codec.Types
