/-
  S2.CapCell — bit-exact model of the cap-versus-cell predicates of s2/cap.go:

    func (c Cap) ContainsCell(cell Cell) bool
    func (c Cap) IntersectsCell(cell Cell) bool
    func (c Cap) intersects(cell Cell, vertices [4]Point) bool

  line by line over the soft-float (`S2.F64`, `S2.V3`), the cap model `S2.CapM` at its binary64 instance
  `S2.CapF64` (`ContainsPoint`, `Complement`, `IsEmpty`) and the cell model `S2.CellM` (`Vertex`, `Edge`,
  `ContainsPoint`).  Pure arithmetic (`+ − × ÷ sqrt` and comparisons), no libm.

  `vertices` of the Go code is always `[cell.Vertex(0), …, cell.Vertex(3)]` (both callers fill all four slots
  before they call `intersects`), so the model reads `CellM.vertex cell k` directly.

  `capRegion` is the `S2.Coverer.Region` of a cap (the value the coverer theorems of C05 are instantiated with and the
  oracle op `pred cap` compares with Go).  Core-only.
-/
import S2.CapM
import S2.CellM
import S2.Coverer
namespace S2
namespace CapCell
open S2.CellM S2.CapF64

/-- `s1.RightChordAngle` = 2 -/
def rightChordAngle : F64 := ⟨0x4000000000000000⟩

/-- `const capEdgeDotError = 16 * dblEpsilon` (s2/cap.go, repair D59) as the float64 the compiler materialises:
    `dblEpsilon = 2.220446049250313e-16` is a decimal literal within 2^-105 of 2^-52; the untyped product is exact and
    rounds once, to `2^-48` -/
def capEdgeDotError : F64 := ⟨0x3cf0000000000000⟩

/-- one iteration of the edge loop of `Cap.intersects`:
    `none` = fall through to the next `k` (`continue` or end of the body), `some b` = `return b`.
    The rejection test is `dot*(dot+capEdgeDotError) > sin2Angle*edge.Norm2()` (after repair D59; it was
    `dot*dot > …`, faithful pre-repair model: `S2Proofs.C05Cap.OldModel`). -/
def edgeStep (c : Cap) (sin2Angle : F64) (cell : Cell) (k : Nat) : Option Bool :=
  let edge := CellM.edge cell k
  let dot := c.center.dot edge
  if F64.gt dot (F64.zero false) then none
  else if F64.gt (dot * (dot + capEdgeDotError)) (sin2Angle * edge.norm2) then some false
  else
    let dir := edge.cross c.center
    if F64.lt (dir.dot (CellM.vertex cell k)) (F64.zero false) &&
       F64.gt (dir.dot (CellM.vertex cell ((k + 1) % 4))) (F64.zero false) then some true
    else none

/-- the loop `for k := 0; k < 4; k++` started at `k` with `n` iterations left; `return false` after it -/
def edgeLoop (c : Cap) (sin2Angle : F64) (cell : Cell) : Nat → Nat → Bool
  | _, 0 => false
  | k, n + 1 =>
    match edgeStep c sin2Angle cell k with
    | some b => b
    | none => edgeLoop c sin2Angle cell (k + 1) n

/-- `Cap.intersects(cell, vertices)` -/
def intersects (c : Cap) (cell : Cell) : Bool :=
  if F64.ge c.radius rightChordAngle then false
  else if c.isEmpty then false
  else if CellM.containsPoint cell c.center then true
  else edgeLoop c (Chord.sin2 c.radius) cell 0 4

/-- `Cap.IntersectsCell(cell)` -/
def intersectsCell (c : Cap) (cell : Cell) : Bool :=
  if c.containsPoint (CellM.vertex cell 0) then true
  else if c.containsPoint (CellM.vertex cell 1) then true
  else if c.containsPoint (CellM.vertex cell 2) then true
  else if c.containsPoint (CellM.vertex cell 3) then true
  else intersects c cell

/-- `Cap.ContainsCell(cell)` -/
def containsCell (c : Cap) (cell : Cell) : Bool :=
  if !c.containsPoint (CellM.vertex cell 0) then false
  else if !c.containsPoint (CellM.vertex cell 1) then false
  else if !c.containsPoint (CellM.vertex cell 2) then false
  else if !c.containsPoint (CellM.vertex cell 3) then false
  else !intersects c.complement cell

/-- a `Cap` used as a `Region` of the coverer (`region.ContainsCell(CellFromCellID(id))`, … as in
    `newCandidate` of regioncoverer.go) -/
def capRegion (c : Cap) : Coverer.Region :=
  ⟨fun id => containsCell c (cellFromCellID id), fun id => intersectsCell c (cellFromCellID id)⟩

end CapCell
end S2
