/-
  S2.RelateWalk — the two-index walk of the loop relations AS WRITTEN (core-only, executable).

  Source followed line by line:
    s2/shapeutil.go   rangeIterator (newRangeIterator, cellID, next, done, seekTo, seekBeyond, refresh)
    s2/loop.go        hasCrossingRelation (the merge loop over the two indexes),
                      loopCrosser (newLoopCrosser incl. the swap of the crossing targets, startEdge,
                      edgeCrossesCell, cellCrossesCell, cellCrossesAnySubcell, hasCrossing with its
                      edgeQueryMinEdges = 20 threshold, hasCrossingRelation with the edge-free-cell
                      shortcut), containsCenterMatches, containsRelation / intersectsRelation /
                      compareBoundaryRelation with their wedgesCross state, and the bodies of
                      Loop.Contains / Intersects / compareBoundary around the walk.

  Inputs of the model
    * the two ShapeIndexes as the iterator shows them: cells in order, each (cell id, containsCenter,
      edge ids) of the single shape (`Index`; dumped by the hook, or built by `S2.IndexBuild`);
    * the loops' vertices and the geometry `Relate.Geo` (instantiated with `geoExact`):
      `ChainCrossingSign` is the stateless exact `Relate.crossingSign` (the EdgeCrosser state
      `c / acb / bjPrev` only caches the previous vertex: `RestartAt(b.Vertex(bj))` is issued exactly
      when the cached vertex is not `b.Vertex(bj)`), point equality is Go `==`;
    * `gc` : what `CrossingEdgeQuery.getCells(a_j, a_{j+1}, PaddedCellFromCellID(root))` APPENDS to the
      query's cell list (PASSED IN, the PaddedCell recursion is not modelled here).  The Go method does
      not clear `c.cells` (the C++ original does), so the cells of all earlier calls of the same
      loopCrosser stay in the list and are tested again: the accumulation IS modelled (`WState.qAB/qBA`);
    * the bounding-rectangle tests of Contains / Intersects / compareBoundary: Go's own booleans
      (`Rects`; the bounds are computed with libm);
    * `Loop.ContainsPoint(v0)` after the walk is the exact `Relate.Loop.containsPoint` (property C04).

  The walk is generic in the tests it performs (`Tests σ`): the control flow (iterator movement) reads
  only the index data; the geometric tests and the relation state are callbacks threaded through a
  state `σ`.  `realTests` instantiates them with the code of loopCrosser; the theorems of
  S2Proofs.Properties.C07_Walk instantiate them with a logger to state which pairs of cells the walk
  visits.

  Totalisation: positions at or after the end of an index read as the sentinel cell without edges (Go
  would dereference a nil `IndexCell()` there; never reached from the walk: theorem
  `S2Proofs.C07.walk_no_fuel_exhaustion` / alignment invariant).  Loops are structurally recursive on
  fuel; `none` = fuel exhausted (never for sorted disjoint cell lists).
-/
import S2.CellID
import S2.Locate
import S2.Relate
namespace S2.RelateWalk
open S2 S2.CellID

/-! ### the index as the iterator shows it -/

/-- one index cell of a loop's index: `CellID()`, and `IndexCell().shapes[0]` -/
structure ICell where
  id : CellID
  cc : Bool
  edges : List Nat
deriving Repr

structure Index where
  cells : Array ICell

namespace Index
variable (I : Index)

def size : Nat := I.cells.size
/-- `it.CellID()` at a position (`refresh`: the sentinel at or after the end) -/
def idAt (p : Nat) : CellID := if h : p < I.cells.size then I.cells[p].id else sentinel
/-- `it.IndexCell().shapes[0].containsCenter` -/
def ccAt (p : Nat) : Bool := if h : p < I.cells.size then I.cells[p].cc else false
/-- `it.IndexCell().shapes[0].edges` -/
def edgesAt (p : Nat) : List Nat := if h : p < I.cells.size then I.cells[p].edges else []
def numEdgesAt (p : Nat) : Nat := (I.edgesAt p).length
/-- `it.Done()` -/
def done (p : Nat) : Bool := I.idAt p == sentinel
/-- `it.seek(target)` = `sort.Search(len(cells), cells[i] >= target)` -/
def seek (t : CellID) : Nat := Locate.sortSearch I.cells.size (fun i => decide (I.idAt i ≥ t))
/-- `rangeIterator.rangeMin / rangeMax` (`refresh`) -/
def rangeMinAt (p : Nat) : CellID := rangeMin (I.idAt p)
def rangeMaxAt (p : Nat) : CellID := rangeMax (I.idAt p)

/-- `r.seekTo(target)` given the target's `rangeMin`, `rangeMax`, `cellID()`; returns the new position -/
def seekTo (tMin tMax tID : CellID) : Nat :=
  let p := I.seek tMin
  if I.done p || I.rangeMinAt p > tMax then
    -- `if r.it.Prev() && r.it.CellID().RangeMax() < target.cellID() { r.it.Next() }`
    if p ≤ 0 then p
    else if I.rangeMaxAt (p - 1) < tID then p
    else p - 1
  else p

/-- `r.seekBeyond(target)` given the target's `rangeMax` -/
def seekBeyond (tMax : CellID) : Nat :=
  let p := I.seek (CellID.next tMax)
  if !I.done p && I.rangeMinAt p ≤ tMax then p + 1 else p

end Index

/-! ### the tests of the walk -/

/-- the callbacks of the walk.  `sw` = the `swapped` flag of the loopCrosser that performs the test
    (`false` = crosser `ab`: own index A, other index B; `true` = crosser `ba`).  Positions are
    positions in the crosser's own (first) and other (second) index. -/
structure Tests (σ : Type) where
  /-- `l.cellCrossesCell(aClipped, bClipped)` -/
  cellCell : Bool → Nat → Nat → σ → σ × Bool
  /-- `l.cellCrossesAnySubcell(aClipped, ai.cellID())` -/
  subcell : Bool → Nat → σ → σ × Bool
  /-- `containsCenterMatches(aClipped, l.aCrossingTarget)` for the edge-free larger cell -/
  centerA : Bool → Nat → σ → σ × Bool
  /-- `containsCenterMatches(bClipped, l.bCrossingTarget)` for a cell below the edge-free larger cell -/
  centerB : Bool → Nat → Nat → σ → σ × Bool
  /-- equal cells: `containsCenterMatches(aClipped, ab.aCrossingTarget) && containsCenterMatches(bClipped, ab.bCrossingTarget)` -/
  sameCenter : Nat → Nat → σ → σ × Bool

section walk
variable {σ : Type} (T : Tests σ)

/-- `edgeQueryMinEdges` -/
def edgeQueryMinEdges : Nat := 20

/-- the counting loop of `hasCrossing` over the other index `IT` from position `pb`, for the own cell
    with `rangeMax = aMax`: (`true` = the threshold was reached: use the query; the cells with edges
    collected so far in `l.bCells`; the position of `bi`). -/
def collect (IT : Index) (aMax : CellID) : Nat → Nat → Nat → List Nat → Bool × List Nat × Nat
  | 0, pb, _, acc => (false, acc, pb)
  | fuel + 1, pb, total, acc =>
    let n := IT.numEdgesAt pb
    if n > 0 then
      let total := total + n
      if total ≥ edgeQueryMinEdges then (true, acc, pb)
      else
        let acc := acc ++ [pb]
        -- bi.next(); if bi.cellID() > ai.rangeMax { break }
        if IT.idAt (pb + 1) > aMax then (false, acc, pb + 1) else collect IT aMax fuel (pb + 1) total acc
    else
      if IT.idAt (pb + 1) > aMax then (false, acc, pb + 1) else collect IT aMax fuel (pb + 1) total acc

/-- `for _, c := range l.bCells { if l.cellCrossesCell(aClipped, c.shapes[0]) { return true } }` -/
def directCells (sw : Bool) (pa : Nat) : List Nat → σ → σ × Bool
  | [], s => (s, false)
  | pb :: rest, s =>
    let (s, r) := T.cellCell sw pa pb s
    if r then (s, true) else directCells sw pa rest s

/-- `loopCrosser.hasCrossing(ai, bi)`: (state, new position of bi, result) -/
def hasCrossing (sw : Bool) (IO IT : Index) (pa pb : Nat) (s : σ) : σ × Nat × Bool :=
  match collect IT (IO.rangeMaxAt pa) (IT.size + 2 - pb) pb 0 [] with
  | (true, _, pb') =>
    let (s, r) := T.subcell sw pa s
    if r then (s, pb', true) else (s, IT.seekBeyond (IO.rangeMaxAt pa), false)
  | (false, cells, pb') =>
    let (s, r) := directCells T sw pa cells s
    (s, pb', r)

/-- `for bi.cellID() <= ai.rangeMax { if containsCenterMatches(bClipped, l.bCrossingTarget) { return true }; bi.next() }` -/
def centerLoop (sw : Bool) (IT : Index) (aMax : CellID) (pa : Nat) : Nat → Nat → σ → σ × Nat × Bool
  | 0, pb, s => (s, pb, false)
  | fuel + 1, pb, s =>
    if IT.idAt pb ≤ aMax then
      let (s, r) := T.centerB sw pa pb s
      if r then (s, pb, true) else centerLoop sw IT aMax pa fuel (pb + 1) s
    else (s, pb, false)

/-- `loopCrosser.hasCrossingRelation(ai, bi)`: (state, new position of ai, new position of bi, result) -/
def crosserStep (sw : Bool) (IO IT : Index) (pa pb : Nat) (s : σ) : σ × Nat × Nat × Bool :=
  if IO.numEdgesAt pa != 0 then
    let (s, pb', r) := hasCrossing T sw IO IT pa pb s
    if r then (s, pa, pb', true) else (s, pa + 1, pb', false)
  else
    let (s, m) := T.centerA sw pa s
    if !m then (s, pa + 1, IT.seekBeyond (IO.rangeMaxAt pa), false)
    else
      let (s, pb', r) := centerLoop T sw IT (IO.rangeMaxAt pa) pa (IT.size + 2 - pb) pb s
      if r then (s, pa, pb', true) else (s, pa + 1, pb', false)

/-- the loop of `hasCrossingRelation(a, b, relation)` from iterator positions `pa`, `pb` -/
def mainLoop (IA IB : Index) : Nat → Nat → Nat → σ → Option (σ × Bool)
  | 0, _, _, _ => none
  | fuel + 1, pa, pb, s =>
    if !(!IA.done pa || !IB.done pb) then some (s, false)
    else if IA.rangeMaxAt pa < IB.rangeMinAt pb then
      mainLoop IA IB fuel (IA.seekTo (IB.rangeMinAt pb) (IB.rangeMaxAt pb) (IB.idAt pb)) pb s
    else if IB.rangeMaxAt pb < IA.rangeMinAt pa then
      mainLoop IA IB fuel pa (IB.seekTo (IA.rangeMinAt pa) (IA.rangeMaxAt pa) (IA.idAt pa)) s
    else
      -- abRelation := int64(ai.it.CellID().lsb() - bi.it.CellID().lsb())
      let abRelation : Int := int64OfWord (lsb (IA.idAt pa) - lsb (IB.idAt pb))
      if abRelation > 0 then
        let (s, pa', pb', r) := crosserStep T false IA IB pa pb s
        if r then some (s, true) else mainLoop IA IB fuel pa' pb' s
      else if abRelation < 0 then
        let (s, pb', pa', r) := crosserStep T true IB IA pb pa s
        if r then some (s, true) else mainLoop IA IB fuel pa' pb' s
      else
        let (s, r) := T.sameCenter pa pb s
        if r then some (s, true)
        else if IA.numEdgesAt pa > 0 && IB.numEdgesAt pb > 0 then
          let (s, r) := T.cellCell false pa pb s
          if r then some (s, true) else mainLoop IA IB fuel (pa + 1) (pb + 1) s
        else mainLoop IA IB fuel (pa + 1) (pb + 1) s

/-- enough fuel: every iteration moves at least one iterator forward on sorted cell lists -/
def walkFuel (IA IB : Index) : Nat := IA.size + IB.size + 1

/-- `hasCrossingRelation(a, b, relation)`: both iterators start at position 0 -/
def walk (IA IB : Index) (s : σ) : Option (σ × Bool) := mainLoop T IA IB (walkFuel IA IB) 0 0 s

end walk

/-! ### the relations -/

/-- `crossingTarget` -/
inductive Target where
  | dontCare | dontCross | cross
deriving DecidableEq, Repr

/-- `containsCenterMatches(a, target)` -/
def containsCenterMatches (cc : Bool) (t : Target) : Bool :=
  (!cc && t == .dontCross) || (cc && t == .cross)

/-- the three implementations of `loopRelation` -/
inductive RelKind where
  | contains | intersects
  | compareBoundary (reverse : Bool)
deriving DecidableEq, Repr

def RelKind.aTarget : RelKind → Target
  | .contains => .dontCross | .intersects => .cross | .compareBoundary _ => .dontCare
def RelKind.bTarget : RelKind → Target
  | .contains => .cross | .intersects => .cross | .compareBoundary _ => .dontCare

/-- the mutable fields of the relation objects -/
structure RelState where
  foundSharedVertex : Bool := false
  containsEdge : Bool := false
  excludesEdge : Bool := false
deriving DecidableEq, Repr

section real
open S2.Relate
variable {α : Type} [DecidableEq α] (G : Geo α)

/-- `relation.wedgesCross(a0, ab1, a2, b0, b2)` -/
def wedgesCross (k : RelKind) (s : RelState) (a0 ab1 a2 b0 b2 : α) : RelState × Bool :=
  match k with
  | .contains => ({ s with foundSharedVertex := true }, !wedgeContains G a0 ab1 a2 b0 b2)
  | .intersects => ({ s with foundSharedVertex := true }, wedgeIntersects G a0 ab1 a2 b0 b2)
  | .compareBoundary reverse =>
    let s := { s with foundSharedVertex := true }
    let s := if wedgeContainsSemiwedge G a0 ab1 a2 b2 reverse then { s with containsEdge := true }
             else { s with excludesEdge := true }
    (s, s.containsEdge && s.excludesEdge)

/-- `l.edgeCrossesCell(bClipped)` for the current edge `aj` of the crosser's own loop `X` against the
    edges `bEdges` of the other loop `Y` -/
def edgeCrossesCell (k : RelKind) (sw : Bool) (X Y : Loop α) (aj : Nat) : List Nat → RelState → RelState × Bool
  | [], s => (s, false)
  | bj :: rest, s =>
    let crossing := crossingSign G (X.vertex G aj) (X.vertex G (aj + 1)) (Y.vertex G bj) (Y.vertex G (bj + 1))
    if crossing == -1 then edgeCrossesCell k sw X Y aj rest s
    else if crossing == 1 then (s, true)
    else if X.vertex G (aj + 1) = Y.vertex G (bj + 1) then
      let (s, r) :=
        if sw then wedgesCross G k s (Y.vertex G bj) (Y.vertex G (bj + 1)) (Y.vertex G (bj + 2)) (X.vertex G aj) (X.vertex G (aj + 2))
        else wedgesCross G k s (X.vertex G aj) (X.vertex G (aj + 1)) (X.vertex G (aj + 2)) (Y.vertex G bj) (Y.vertex G (bj + 2))
      if r then (s, true) else edgeCrossesCell k sw X Y aj rest s
    else edgeCrossesCell k sw X Y aj rest s

/-- `l.cellCrossesCell(aClipped, bClipped)` -/
def cellCrossesCell (k : RelKind) (sw : Bool) (X Y : Loop α) (bEdges : List Nat) : List Nat → RelState → RelState × Bool
  | [], s => (s, false)
  | aj :: rest, s =>
    let (s, r) := edgeCrossesCell G k sw X Y aj bEdges s
    if r then (s, true) else cellCrossesCell k sw X Y bEdges rest s

/-- `for c := 0; c < len(l.bCells); c++ { if l.edgeCrossesCell(l.bCells[c].shapes[0]) { return true } }` -/
def edgeCrossesCells (k : RelKind) (sw : Bool) (X Y : Loop α) (IT : Index) (aj : Nat) : List Nat → RelState → RelState × Bool
  | [], s => (s, false)
  | c :: rest, s =>
    let (s, r) := edgeCrossesCell G k sw X Y aj (IT.edgesAt c) s
    if r then (s, true) else edgeCrossesCells k sw X Y IT aj rest s

/-- `l.cellCrossesAnySubcell(aClipped, bID)`; `q` = `l.bQuery.cells` (NOT cleared by `getCells`),
    `gc aj` = what `getCells(a_j, a_{j+1}, bRoot)` appends -/
def cellCrossesAnySubcell (k : RelKind) (sw : Bool) (X Y : Loop α) (IT : Index) (gc : Nat → List Nat) :
    List Nat → List Nat → RelState → (RelState × List Nat) × Bool
  | [], q, s => ((s, q), false)
  | aj :: rest, q, s =>
    let q := q ++ gc aj
    if q.isEmpty then cellCrossesAnySubcell k sw X Y IT gc rest q s
    else
      let (s, r) := edgeCrossesCells G k sw X Y IT aj q s
      if r then ((s, q), true) else cellCrossesAnySubcell k sw X Y IT gc rest q s

/-- the state the walk threads: the relation object and the cell lists of the two queries -/
structure WState where
  rel : RelState := {}
  qAB : List Nat := []
  qBA : List Nat := []
deriving Repr

/-- the real tests of `hasCrossingRelation(A, B, relation)`.
    `gcAB aj pa` : cells of B's index that `getCells` finds for edge `aj` of A with root = cell `pa` of A's index;
    `gcBA` likewise for the edges of B against A's index. -/
def realTests (k : RelKind) (A B : Loop α) (IA IB : Index) (gcAB gcBA : Nat → Nat → List Nat) : Tests WState where
  cellCell sw pa pb s :=
    let (r, x) :=
      if sw then cellCrossesCell G k true B A (IA.edgesAt pb) (IB.edgesAt pa) s.rel
      else cellCrossesCell G k false A B (IB.edgesAt pb) (IA.edgesAt pa) s.rel
    ({ s with rel := r }, x)
  subcell sw pa s :=
    if sw then
      let ((r, q), x) := cellCrossesAnySubcell G k true B A IA (fun aj => gcBA aj pa) (IB.edgesAt pa) s.qBA s.rel
      ({ s with rel := r, qBA := q }, x)
    else
      let ((r, q), x) := cellCrossesAnySubcell G k false A B IB (fun aj => gcAB aj pa) (IA.edgesAt pa) s.qAB s.rel
      ({ s with rel := r, qAB := q }, x)
  -- newLoopCrosser: the crosser `ba` has the two crossing targets swapped
  centerA sw pa s :=
    (s, if sw then containsCenterMatches (IB.ccAt pa) k.bTarget else containsCenterMatches (IA.ccAt pa) k.aTarget)
  centerB sw _ pb s :=
    (s, if sw then containsCenterMatches (IA.ccAt pb) k.aTarget else containsCenterMatches (IB.ccAt pb) k.bTarget)
  sameCenter pa pb s :=
    (s, containsCenterMatches (IA.ccAt pa) k.aTarget && containsCenterMatches (IB.ccAt pb) k.bTarget)

/-- `hasCrossingRelation(A, B, relation)` with a fresh relation object: (result, final relation state) -/
def hasCrossingRelation (k : RelKind) (A B : Loop α) (IA IB : Index) (gcAB gcBA : Nat → Nat → List Nat) :
    Option (Bool × RelState) :=
  (walk (realTests G k A B IA IB gcAB gcBA) IA IB {}).map fun (s, r) => (r, s.rel)

/-- Go's own answers of the bounding-rectangle tests for the ordered pair (A, B) -/
structure Rects where
  /-- `A.subregionBound.Contains(B.bound)` -/
  aSubContainsB : Bool
  /-- `B.subregionBound.Contains(A.bound)` -/
  bSubContainsA : Bool
  /-- `A.bound.Intersects(B.bound)` -/
  boundsIntersect : Bool
  /-- `A.bound.Union(B.bound).IsFull()` -/
  unionFull : Bool

/-- `A.Contains(B)` given the outcome `w` of `hasCrossingRelation(A, B, &containsRelation{})` -/
def containsFrom (R : Rects) (A B : Loop α) (w : Option (Bool × RelState)) : Option Bool :=
  if !R.aSubContainsB then some false
  else if A.isEmptyOrFull || B.isEmptyOrFull then some (A.isFull || B.isEmpty)
  else w.map fun (crossed, rel) =>
    if crossed then false
    else if rel.foundSharedVertex then true
    else if !A.containsPoint G (B.vertex G 0) then false
    else if (R.bSubContainsA || R.unionFull) && B.containsPoint G (A.vertex G 0) then false
    else true

/-- `A.Intersects(B)` given the outcome of `hasCrossingRelation(A, B, &intersectsRelation{})` -/
def intersectsFrom (R : Rects) (A B : Loop α) (w : Option (Bool × RelState)) : Option Bool :=
  if !R.boundsIntersect then some false
  else w.map fun (crossed, rel) =>
    if crossed then true
    else if rel.foundSharedVertex then false
    else if (R.aSubContainsB || R.unionFull) && A.containsPoint G (B.vertex G 0) then true
    else if R.bSubContainsA && B.containsPoint G (A.vertex G 0) then true
    else false

/-- `A.compareBoundary(B)` given the outcome of
    `hasCrossingRelation(A, B, newCompareBoundaryRelation(B.IsHole()))`
    (Go requires: neither loop empty; if B is full it is not a hole) -/
def compareBoundaryFrom (R : Rects) (A B : Loop α) (w : Option (Bool × RelState)) : Option Int :=
  if !R.boundsIntersect then some (-1)
  else if A.isFull then some 1
  else if B.isFull then some (-1)
  else w.map fun (crossed, rel) =>
    if crossed then 0
    else if rel.foundSharedVertex then (if rel.containsEdge then 1 else -1)
    else if A.containsPoint G (B.vertex G 0) then 1 else -1

/-- `A.Contains(B)` -/
def contains (R : Rects) (A B : Loop α) (IA IB : Index) (gcAB gcBA : Nat → Nat → List Nat) : Option Bool :=
  containsFrom G R A B (hasCrossingRelation G .contains A B IA IB gcAB gcBA)

/-- `A.Intersects(B)` -/
def intersects (R : Rects) (A B : Loop α) (IA IB : Index) (gcAB gcBA : Nat → Nat → List Nat) : Option Bool :=
  intersectsFrom G R A B (hasCrossingRelation G .intersects A B IA IB gcAB gcBA)

/-- `A.compareBoundary(B)` -/
def compareBoundary (R : Rects) (A B : Loop α) (IA IB : Index) (gcAB gcBA : Nat → Nat → List Nat) : Option Int :=
  compareBoundaryFrom G R A B (hasCrossingRelation G (.compareBoundary B.isHole) A B IA IB gcAB gcBA)

end real
end S2.RelateWalk
