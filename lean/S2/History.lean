/-
  S2.History — bookkeeping state machine behind property C13 (core-only, executable).

  Geometry is abstracted away; what is kept is exactly the laziness / option / scratch
  bookkeeping of
    s2/shapeindex.go   ShapeIndex: Add, Remove, Reset, Build, maybeApplyUpdates, applyUpdatesInternal,
                       isFirstUpdate, pendingAdditionsPos, pendingRemovals, status, Len (as the old
                       shape-id sentinel of makeIndexCell)
    s2/edge_query.go   EdgeQuery: opts (a *pointer* shared with the caller's EdgeQueryOptions),
                       findEdgesInternal (`e.opts = opts`), findEdge (`opts.MaxResults(1)`),
                       IsDistanceLess (MaxResults(1).DistanceLimit(l).MaxError(Straight) on e.opts),
                       indexNumEdges / indexNumEdgesLimit cache, indexCovering cache, Reset
    s2/loop.go         Loop.Invert (index.Reset, reverse, originInside flip, bound, index.Add),
                       Loop.ContainsPoint (brute force / index)
    s2/polygon.go      Polygon.Invert, FullPolygon (index == nil!), ContainsPoint

  A *shape* is abstracted to (number of edges, "its interior is tracked from the tracker origin").
  A shape is `live` when applyUpdatesInternal has something to do for it: it has an edge, or it is
  a dimension-2 shape containing the tracker origin (t.shapeIDs non-empty).  `cells` is the list of
  live shape ids whose edges / interior are present in cellMap.

  The *answer* of a query is abstracted to the symbolic record of everything the real answer is a
  function of: which shapes were visible to the search (through `shapes` for the brute-force paths,
  through `cells` for the index paths) and the effective search options.

  Defects of the current tree that the faithful model reproduces (DESIGN §7):
    D4  a non-first update with a live pending shape re-enters maybeApplyUpdates through
        s.Iterator() (shrinkToFit / updateEdges) while mu is held and status != fresh: self-deadlock.
        (tracker.lowerBound = panic("not implemented") lies *behind* that Lock and is unreachable.)
    D5  Reset does not reset pendingAdditionsPos.
    D8  findEdge / IsDistanceLess write their per-call overrides into the query's own options.
    D19 FullPolygon() has a nil index; ContainsPoint dereferences it (also reached by
        EmptyPolygon.Invert()).
    D49 findEdgesInternal forwarded maxError to the target only when it was non-zero: an index target
        (`MinDistanceToShapeIndexTarget`, which writes it into the options of its own query) kept the
        value of an earlier call (repaired in /repo 3519f3b).
    D51 the inner query of an index target caches indexNumEdges / indexCovering of the TARGET's index
        and nothing ever resets them: after a shape is added to the target's index the target answers
        from the stale covering (present on the current tree; found by work package c13targets).
    D52 `makeIndexCell` used `Len()` as the shape-id sentinel of its merge loop; ids are never reused, so
        after a `Remove` a present shape can have an id ≥ `Len()` and its entries in the index cells come out
        wrong (edge-free interior cells lose `containsCenter`, cells with its edges get an entry for the
        phantom id `Len()`); repaired in /repo 58d7f1b (sentinel `nextID`).
    D53 `CrossingEdgeQuery.candidatesEdgeMap`: `if len(c.index.shapes) == 1 { shape := c.index.Shape(0) …`:
        after `Remove` the single present shape need not have id 0; `Shape(0)` is nil and `candidates`
        dereferences it (found by work package c13remove; repaired in /repo ef8934e).
  `Fixes` selects, per defect, the faithful behaviour (false) or the minimal repair (true).

  REMOVE (work package c13remove).  `Remove(shape)` deletes the key from the map `shapes` — ids are never
  reused (`nextID` only grows) — returns at once when the shape was never indexed (`id >= pendingAdditionsPos`,
  status untouched), otherwise appends to `pendingRemovals` and stores `stale`.  `applyUpdatesInternal` (since
  a4a8224) rebuilds the WHOLE index on a non-first update with anything pending, `removeShapeInternal` is an
  empty stub.  In the model the list `shapes` stays positional (position = id): a removed id keeps the
  tombstone `Shape.gone = ⟨0, false⟩` and is recorded in `gone`.  Every modelled reader of the map skips a
  missing key (`addShapeInternal`: `!ok → return`; `NumEdgesUpTo`: `nil → continue`; the `range shapes` loops of
  the brute-force search and of `visitContainingShapes`), which is what it does with a shape without edges and
  without interior; the readers for which a missing key is NOT the same as an empty shape are exactly the ones
  that use `Len()`: D52 and D53 (`Index.numPresent`).  The op is `remove k`: the k-th present shape (the caller
  names a shape by identity, not by id).

  TARGETS (s2/min_distance_targets.go).  Point / edge / cell targets are values without state.  An
  index target owns a ShapeIndex and an EdgeQuery on it (`m.query`); what a call sees of it is
    * `visitContainingShapes`: the live shapes of the target's index, read through `shapes`,
    * `capBound()`: `m.index.Region().CapBound()` — builds the target's index, recomputed every time,
    * `updateDistanceToEdge/Cell`: `m.query.opts.distanceLimit = dist; m.query.findEdge(…, m.query.opts)`,
      the inner search with the inner option record, in which `setMaxError` / `setIncludeInteriors` /
      `setUseBruteForce` wrote `maxError` / `includeInteriors` / `useBruteForce`.
  Only min-distance targets are modelled (`maxBruteForceIndexSize` 30 / 30 / 30 / 25).
-/
namespace S2.History

/-- which minimal repairs are switched on -/
structure Fixes where
  d4 : Bool   -- full rebuild on a non-first update
  d5 : Bool   -- Reset also resets pendingAdditionsPos
  d8 : Bool   -- per-call option overrides are applied to a copy; e.opts restored
  d19 : Bool  -- FullPolygon gets an index
  d49 : Bool  -- findEdgesInternal calls target.setMaxError on every query, also with maxError = 0
  d51 : Bool  -- an index target drops the caches of its inner query at every call
  d52 : Bool  -- makeIndexCell: sentinel nextID instead of Len()
  d53 : Bool  -- CrossingEdgeQuery: the single-shape shortcut looks the shape up instead of assuming id 0
deriving DecidableEq, Repr

def Fixes.none : Fixes := ⟨false, false, false, false, false, false, false, false⟩
def Fixes.all : Fixes := ⟨true, true, true, true, true, true, true, true⟩
/-- the repairs present in /repo (D51 is open) -/
def Fixes.tree : Fixes := ⟨true, true, true, true, true, false, true, true⟩

inductive Status | stale | updating | fresh
deriving DecidableEq, Repr, Inhabited

structure Shape where
  edges : Nat
  interior : Bool
deriving DecidableEq, Repr, Inhabited

def Shape.live (s : Shape) : Bool := s.edges != 0 || s.interior

/-- what a removed id holds in the positional list `Index.shapes` (the Go map has no such key) -/
def Shape.gone : Shape := ⟨0, false⟩

/-! ### ShapeIndex -/

structure Index where
  shapes : List Shape          -- position = shape id; a removed id holds `Shape.gone`
  nextID : Nat
  pendingAdditionsPos : Nat
  status : Status
  cells : List Nat
  gone : List Nat := []              -- ids deleted from the map `shapes` since the last Reset
  pendingRemovals : List Nat := []   -- `pendingRemovals` (the shape ids of the queued `removedShape`s)
deriving DecidableEq, Repr, Inhabited

/-- `NewShapeIndex()` -/
def Index.new : Index := ⟨[], 0, 0, .fresh, [], [], []⟩

/-- `Len()` = `len(s.shapes)`: the number of keys in the map -/
def Index.numPresent (s : Index) : Nat := s.shapes.length - s.gone.length

/-- the ids `i, i+1, …, i+n-1` that are still in the map, ascending -/
def presentFrom (gone : List Nat) : Nat → Nat → List Nat
  | 0, _ => []
  | n + 1, i => if gone.contains i then presentFrom gone n (i + 1) else i :: presentFrom gone n (i + 1)

/-- the ids still in the map (of an index that has handed out the ids `0 … n-1`), ascending -/
def presentIds (n : Nat) (gone : List Nat) : List Nat := presentFrom gone n 0

/-- the shapes still in the map, in id order (`i` = id of the head of the list) -/
def denseFrom (gone : List Nat) : List Shape → Nat → List Shape
  | [], _ => []
  | s :: t, i => if gone.contains i then denseFrom gone t (i + 1) else s :: denseFrom gone t (i + 1)

/-- what a FRESH index over the current geometry holds: the present shapes, added in id order (ids `0 … m-1`) -/
def dense (shapes : List Shape) (gone : List Nat) : List Shape := denseFrom gone shapes 0

/-- ids (base + position) of the live shapes of a list -/
def liveFrom : List Shape → Nat → List Nat
  | [], _ => []
  | s :: t, i => if s.live then i :: liveFrom t (i + 1) else liveFrom t (i + 1)

def liveIds (shapes : List Shape) : List Nat := liveFrom shapes 0

/-- live ids in `[pos, len shapes)`: the loop `for id := pendingAdditionsPos; id < len(shapes)` -/
def pendingLive (shapes : List Shape) (pos : Nat) : List Nat := liveFrom (shapes.drop pos) pos

/-- `Add`: `shapes[nextID] = shape; nextID++; status = stale; return nextID-1`
    (`nextID = len shapes` is an invariant, so the map store is an append). -/
def Index.add (s : Index) (sh : Shape) : Index × Nat :=
  ({ s with shapes := s.shapes ++ [sh], nextID := s.nextID + 1, status := .stale }, s.nextID)

/-- `Remove(shape)` for the shape with id `id` (a present one):
    `delete(s.shapes, id); if id >= s.pendingAdditionsPos { return };
     s.pendingRemovals = append(s.pendingRemovals, removed); atomic.StoreInt32(&s.status, stale)` -/
def Index.remove (s : Index) (id : Nat) : Index :=
  let s := { s with shapes := s.shapes.set id Shape.gone, gone := s.gone ++ [id] }
  if id ≥ s.pendingAdditionsPos then s
  else { s with pendingRemovals := s.pendingRemovals ++ [id], status := .stale }

/-- `Reset`: shapes, nextID, cellMap, cells, status — before b61d2d9 *not* pendingAdditionsPos and
    pendingRemovals (D5). -/
def Index.reset (f : Fixes) (s : Index) : Index :=
  { s with shapes := [], nextID := 0, cells := [], status := .fresh, gone := [],
           pendingAdditionsPos := if f.d5 then 0 else s.pendingAdditionsPos,
           pendingRemovals := if f.d5 then [] else s.pendingRemovals }

/-- the shape ids a build enters correctly into the index cells: all of them with the sentinel `nextID`;
    with the old sentinel `Len()` (D52) only the ids below `Len()` -/
def visible (f : Fixes) (s : Index) (ids : List Nat) : List Nat :=
  if f.d52 then ids else ids.filter fun id => id < s.numPresent

/-- `applyUpdatesInternal`; `none` = the goroutine blocks forever on `mu.Lock()` (D4).
    Current code (d4): `if !isFirstUpdate() && (pendingAdditionsPos < nextID || len(pendingRemovals) > 0)`
    { drop cellMap / cells, pendingAdditionsPos = 0, pendingRemovals = pendingRemovals[:0] }; then the loop over
    `pendingRemovals` (`removeShapeInternal`: empty stub), `addShapeInternal` for the ids
    `pendingAdditionsPos ≤ id < nextID` (a missing key is skipped), `pendingRemovals = pendingRemovals[:0]`,
    `pendingAdditionsPos = nextID`. -/
def applyUpdatesInternal (f : Fixes) (s : Index) : Option Index :=
  let new := visible f s (pendingLive s.shapes s.pendingAdditionsPos)
  if s.pendingAdditionsPos == 0 then
    some { s with cells := s.cells ++ new, pendingAdditionsPos := s.shapes.length, pendingRemovals := [] }
  else if f.d4 then
    if s.pendingAdditionsPos < s.nextID || !s.pendingRemovals.isEmpty then
      -- drop the cell map and re-run as a first update over all shapes still in the map
      some { s with cells := visible f s (pendingLive s.shapes 0), pendingAdditionsPos := s.shapes.length,
                    pendingRemovals := [] }
    else
      -- nothing pending (a second goroutine that also saw `stale`): the index is not touched
      some { s with pendingAdditionsPos := s.shapes.length }
  else if new.isEmpty then
    -- before a4a8224: every face returns early from updateFaceEdges (no edges, tracker empty); a queued
    -- removal is handed to the stub `removeShapeInternal`, i.e. the removed shape STAYS in the cells
    some { s with pendingAdditionsPos := s.shapes.length, pendingRemovals := [] }
  else none

/-- `maybeApplyUpdates` (single-threaded reading; the concurrent one is `S2.Protocol`). -/
def maybeApplyUpdates (f : Fixes) (s : Index) : Option Index :=
  if s.status != .fresh then
    (applyUpdatesInternal f s).map fun s => { s with status := .fresh }
  else some s

/-- `NumEdgesUpTo(limit)` with running total `acc`. -/
def numEdgesUpTo : List Shape → Nat → Nat → Nat
  | [], _, acc => acc
  | s :: t, limit, acc =>
    if acc + s.edges ≥ limit then acc + s.edges else numEdgesUpTo t limit (acc + s.edges)

/-! ### EdgeQuery -/

/-- abstract chord angles (only equality matters) -/
inductive Lim
  | val (n : Nat) | expanded (n : Nat) | shrunk (n : Nat) | straight | infinity
deriving DecidableEq, Repr, Inhabited

def Lim.zero : Lim := .val 0

structure Opts where
  maxResults : Nat
  distanceLimit : Lim
  maxError : Lim
  includeInteriors : Bool
  useBruteForce : Bool
deriving DecidableEq, Repr, Inhabited

/-- `newQueryOptions(minDistance)` -/
def Opts.default : Opts := ⟨2147483647, .infinity, .zero, true, false⟩

structure EQ where
  opts : Opts                    -- *e.opts, the same object as the caller's options
  user : Opts                    -- ghost: what the caller configured
  numEdges : Nat                 -- indexNumEdges
  numEdgesLimit : Nat            -- indexNumEdgesLimit
  covering : Option (List Nat)   -- indexCovering (none = len 0 = not yet computed)
deriving DecidableEq, Repr

def EQ.new (o : Opts) : EQ := ⟨o, o, 0, 0, none⟩

/-- kinds of call; `thr` is `target.maxBruteForceIndexSize()` -/
inductive QKind
  | findEdges                      -- FindEdges(target)
  | findEdge                       -- findEdge(target, e.opts)   (exported by the verif hook)
  | distance                       -- Distance(target)
  | isDistanceLess (l : Nat)       -- IsDistanceLess(target, l)
  | isDistanceGreater (l : Nat)    -- IsDistanceGreater(target, l)  = IsDistanceLess(target, l)
  | isConsLE (l : Nat)             -- IsConservativeDistanceLessOrEqual
  | isConsGE (l : Nat)             -- IsConservativeDistanceGreaterOrEqual
deriving DecidableEq, Repr

/-- shape of the reported value -/
inductive Report | list | single | dist | bool
deriving DecidableEq, Repr

def QKind.report : QKind → Report
  | .findEdges => .list | .findEdge => .single | .distance => .dist | _ => .bool

/-- the per-call override each Go method applies to the option struct it is handed -/
def QKind.override (k : QKind) (o : Opts) : Opts :=
  match k with
  | .findEdges => o
  | .findEdge | .distance => { o with maxResults := 1 }
  | .isDistanceLess l | .isDistanceGreater l =>
    { o with maxResults := 1, distanceLimit := .val l, maxError := .straight }
  | .isConsLE l => { o with maxResults := 1, distanceLimit := .expanded l, maxError := .straight }
  | .isConsGE l => { o with maxResults := 1, distanceLimit := .shrunk l, maxError := .straight }

/-- symbolic answer of an EdgeQuery call -/
structure EQAns where
  report : Report
  interiors : Option (List Nat)  -- shapes consulted for containment (none: not consulted)
  edges : List Nat               -- shapes whose edges were searched
  maxResults : Nat               -- effective options of the search and of the final truncation
  distanceLimit : Lim
  maxError : Lim
deriving DecidableEq, Repr

/-- what a call saw of an INDEX target (`MinDistanceToShapeIndexTarget`) -/
structure TAns where
  starts : Option (List Nat)     -- visitContainingShapes: target shapes whose chain starts were tested
                                 -- (read through `m.index.shapes`; none: includeInteriors off)
  cap : Option (List Nat)        -- capBound(): shapes in the cells of the (built) target index
                                 -- (none: brute-force path, capBound not asked)
  iopts : Opts                   -- the option object the target's own query searches with
                                 -- (`single := *m.query.opts; single.MaxResults(1)`)
  inner : Option EQAns           -- the inner search: visible target shapes + effective inner options
                                 -- (none: no edge / cell distance was asked for)
deriving DecidableEq, Repr

/-- symbolic answer of a call: a function of (visible shapes of the queried index, effective options)
    = `outer`, and of (visible shapes of the target's index, effective inner options of the target)
    = `target` (`none` for the stateless point / edge / cell targets). -/
structure Answer where
  outer : EQAns
  target : Option TAns
deriving DecidableEq, Repr

inductive Out
  | unit
  | id (n : Nat)                                   -- Add
  | seen (cells : List Nat)                        -- index query through a fresh query object
  | eq (a : Answer) (optsAfter : Opts)             -- EdgeQuery call; options as left behind
  | loop (reversed originInside boundFor : Bool) (view : Option (List Nat))
  | poly (full : Bool) (inverted : Bool) (view : Option (List Nat))
  | outOfContract                                  -- EdgeQuery op without a valid query object
  | stuck                                          -- blocked forever on mu.Lock()
  | panicked
deriving DecidableEq, Repr

/-- `findEdgesInternal(target, o)` followed by the sort/truncate of `findEdges`:
    returns the index (possibly built), the query scratch state and the answer;
    `none` = stuck. -/
def findEdgesCore (f : Fixes) (idx : Index) (q : EQ) (thr : Nat) (o : Opts) (rep : Report) :
    Option (Index × EQ × EQAns) :=
  if o.distanceLimit == Lim.zero then
    some (idx, q, ⟨rep, none, [], o.maxResults, o.distanceLimit, o.maxError⟩)
  else
    -- includeInteriors: visitContainingShapes → NewContainsPointQuery → index.Iterator()
    let r1 : Option (Index × Option (List Nat)) :=
      if o.includeInteriors then (maybeApplyUpdates f idx).map fun i => (i, some i.cells)
      else some (idx, none)
    match r1 with
    | none => none
    | some (idx, interiors) =>
      let minOpt := thr + 1
      let q := if minOpt > q.numEdgesLimit && q.numEdges ≥ q.numEdgesLimit then
                 { q with numEdges := numEdgesUpTo idx.shapes minOpt 0, numEdgesLimit := minOpt }
               else q
      if o.useBruteForce || q.numEdges < minOpt then
        -- findEdgesBruteForce ranges over index.shapes
        some (idx, q, ⟨rep, interiors, liveIds idx.shapes, o.maxResults, o.distanceLimit, o.maxError⟩)
      else
        -- findEdgesOptimized: initQueue → (len(indexCovering)==0 → initCovering → Begin())
        match q.covering with
        | some c => some (idx, q, ⟨rep, interiors, c, o.maxResults, o.distanceLimit, o.maxError⟩)
        | none =>
          match maybeApplyUpdates f idx with
          | none => none
          | some idx =>
            some (idx, { q with covering := some idx.cells },
                  ⟨rep, interiors, idx.cells, o.maxResults, o.distanceLimit, o.maxError⟩)

/-- one public EdgeQuery call -/
def eqCall (f : Fixes) (idx : Index) (q : EQ) (k : QKind) (thr : Nat) :
    Option (Index × EQ × EQAns) :=
  let o := k.override q.opts
  -- current code: `o` is written through the pointer e.opts; repair: `o` is a copy
  let q' := if f.d8 then q else { q with opts := o }
  match findEdgesCore f idx q' thr o k.report with
  | none => none
  | some (idx, q'', a) => some (idx, q'', a)

/-- `EdgeQuery.Reset()` -/
def EQ.reset (q : EQ) : EQ := { q with numEdges := 0, numEdgesLimit := 0, covering := none }

/-! ### Targets -/

inductive TKind | point | edge | cell | index
deriving DecidableEq, Repr, Inhabited

/-- `maxBruteForceIndexSize()` of the four min-distance targets -/
def TKind.thr : TKind → Nat
  | .index => 25
  | _ => 30

/-- the three fields of the inner option record that the target's setters write -/
structure TOpts where
  maxError : Lim
  includeInteriors : Bool
  useBruteForce : Bool
deriving DecidableEq, Repr

/-- a target OBJECT.  For `kind ≠ index` only `kind` matters (`idx`, `q` are never read or written). -/
structure Target where
  kind : TKind
  idx : Index        -- m.index: the target's own ShapeIndex
  q : EQ             -- m.query = NewClosestEdgeQuery(m.index, NewClosestEdgeQueryOptions());
                     -- q.user (ghost): the defaults + what the CALLER configured through the setters
deriving DecidableEq, Repr

def addAll (i : Index) : List Shape → Index
  | [] => i
  | sh :: t => addAll (i.add sh).1 t

/-- `ti := NewShapeIndex(); ti.Add(…)…; NewMinDistanceToShapeIndexTarget(ti)` (index not built) -/
def Target.new (k : TKind) (shapes : List Shape) : Target :=
  ⟨k, addAll Index.new (if k = .index then shapes else []), EQ.new Opts.default⟩

def Target.inner (t : Target) : TOpts :=
  ⟨t.q.opts.maxError, t.q.opts.includeInteriors, t.q.opts.useBruteForce⟩

/-- `setIncludeInteriors(ii); setUseBruteForce(bf)` -/
def Target.configure (t : Target) (ii bf : Bool) : Target :=
  { t with q := { t.q with opts := { t.q.opts with includeInteriors := ii, useBruteForce := bf },
                           user := { t.q.user with includeInteriors := ii, useBruteForce := bf } } }

/-- what `findEdgesInternal` does with `target.setMaxError`:
    repaired `targetTakesMaxError := e.target.setMaxError(opts.maxError)` on every query;
    before 3519f3b `opts.maxError != zero && e.target.setMaxError(opts.maxError)` (short-circuit).
    `setMaxError` of the index target: `m.query.opts.maxError = maxErr`. -/
def Target.setMaxError (f : Fixes) (t : Target) (e : Lim) : Target :=
  if f.d49 || e != Lim.zero then { t with q := { t.q with opts := { t.q.opts with maxError := e } } } else t

/-- the option object the inner search of a call with effective outer options `o` runs with -/
def Target.effInner (f : Fixes) (t : Target) (o : Opts) : Opts :=
  { (t.setMaxError f o.maxError).q.opts with distanceLimit := o.distanceLimit, maxResults := 1 }

/-- `updateDistanceToEdge / updateDistanceToCell` of the index target:
    `m.query.opts.distanceLimit = dist.chordAngle()` (written through the pointer: stays),
    `m.query.findEdge(NewMinDistanceTo{Edge,Cell}Target(…), m.query.opts)` (thr = 30). -/
def Target.innerFind (f : Fixes) (t : Target) (lim : Lim) : Option (Target × Opts × EQAns) :=
  let q : EQ := { t.q with opts := { t.q.opts with distanceLimit := lim } }
  let o : Opts := { q.opts with maxResults := 1 }
  let q' : EQ := if f.d8 then q else { q with opts := o }
  match findEdgesCore f t.idx q' 30 o .single with
  | none => none
  | some (i, q'', a) => some ({ t with idx := i, q := q'' }, o, a)

def hasEdges (shapes : List Shape) : Bool := numEdgesUpTo shapes 1 0 != 0

/-- `setMaxError` as called by `findEdgesInternal`; with the repair of D51 (not in /repo) the target also
    forgets what its query cached about the target's index -/
def Target.prepare (f : Fixes) (t : Target) (e : Lim) : Target :=
  let t := t.setMaxError f e
  if f.d51 then { t with q := t.q.reset } else t

/-- the edge-count cache of `findEdgesInternal` -/
def EQ.count (q : EQ) (shapes : List Shape) (minOpt : Nat) : EQ :=
  if minOpt > q.numEdgesLimit && q.numEdges ≥ q.numEdgesLimit then
    { q with numEdges := numEdgesUpTo shapes minOpt 0, numEdgesLimit := minOpt }
  else q

def outerAns (rep : Report) (interiors : Option (List Nat)) (edges : List Nat) (o : Opts) : EQAns :=
  ⟨rep, interiors, edges, o.maxResults, o.distanceLimit, o.maxError⟩

/-- `findEdgesBruteForce` with an index target: every edge of index.shapes → target.updateDistanceToEdge -/
def bruteT (f : Fixes) (idx : Index) (q : EQ) (t : Target) (o : Opts) (rep : Report)
    (interiors tstarts : Option (List Nat)) : Option (Index × EQ × Target × Answer) :=
  let io := { t.q.opts with distanceLimit := o.distanceLimit, maxResults := 1 }
  if hasEdges idx.shapes then
    match t.innerFind f o.distanceLimit with
    | none => none
    | some (t, io, ia) =>
      some (idx, q, t, ⟨outerAns rep interiors (liveIds idx.shapes) o, some ⟨tstarts, none, io, some ia⟩⟩)
  else
    some (idx, q, t, ⟨outerAns rep interiors (liveIds idx.shapes) o, some ⟨tstarts, none, io, none⟩⟩)

/-- `findEdgesOptimized` with an index target → initQueue: (no covering yet → e.iter = e.index.Iterator());
    cb := target.capBound() = m.index.Region().CapBound() → m.index.Iterator(); `if cb.IsEmpty() { return }`;
    covering (cached or initCovering); cells / edges → target.updateDistanceToCell / Edge -/
def optT (f : Fixes) (idx : Index) (q : EQ) (t : Target) (o : Opts) (rep : Report)
    (interiors tstarts : Option (List Nat)) : Option (Index × EQ × Target × Answer) :=
  let io := { t.q.opts with distanceLimit := o.distanceLimit, maxResults := 1 }
  let r2 : Option Index := if q.covering.isNone then maybeApplyUpdates f idx else some idx
  match r2 with
  | none => none
  | some idx =>
    match maybeApplyUpdates f t.idx with
    | none => none
    | some ti =>
      let t := { t with idx := ti }
      if ti.cells.isEmpty then
        some (idx, q, t, ⟨outerAns rep interiors [] o, some ⟨tstarts, some [], io, none⟩⟩)
      else
        let qc : EQ × List Nat := match q.covering with
          | some c => (q, c)
          | none => ({ q with covering := some idx.cells }, idx.cells)
        match t.innerFind f o.distanceLimit with
        | none => none
        | some (t, io, ia) =>
          some (idx, qc.1, t, ⟨outerAns rep interiors qc.2 o, some ⟨tstarts, some ti.cells, io, some ia⟩⟩)

/-- includeInteriors: target.visitContainingShapes ranges over m.index.shapes; every chain start / contained
    reference point → NewContainsPointQuery(e.index) → e.index.Iterator() -/
def interiorsT (f : Fixes) (idx : Index) (t : Target) (o : Opts) : Option (Index × Option (List Nat)) :=
  if o.includeInteriors then
    if (liveIds t.idx.shapes).isEmpty then some (idx, some [])
    else (maybeApplyUpdates f idx).map fun i => (i, some i.cells)
  else some (idx, none)

/-- `findEdgesInternal(target, o)` + sort/truncate for an INDEX target `t` (`findEdgesCore` is the
    same function for the stateless targets). -/
def findEdgesT (f : Fixes) (idx : Index) (q : EQ) (t : Target) (o : Opts) (rep : Report) :
    Option (Index × EQ × Target × Answer) :=
  if o.distanceLimit == Lim.zero then
    some (idx, q, t, ⟨outerAns rep none [] o, none⟩)
  else
    match interiorsT f idx t o with
    | none => none
    | some (idx, interiors) =>
      let tstarts := if o.includeInteriors then some (liveIds t.idx.shapes) else none
      let t := t.prepare f o.maxError
      let minOpt := TKind.index.thr + 1
      let q := q.count idx.shapes minOpt
      if o.useBruteForce || q.numEdges < minOpt then bruteT f idx q t o rep interiors tstarts
      else optT f idx q t o rep interiors tstarts

/-- one public EdgeQuery call with the target OBJECT `t` -/
def eqCallT (f : Fixes) (idx : Index) (q : EQ) (t : Target) (k : QKind) :
    Option (Index × EQ × Target × Answer) :=
  let o := k.override q.opts
  let q' := if f.d8 then q else { q with opts := o }
  match t.kind with
  | .index => findEdgesT f idx q' t o k.report
  | _ =>
    -- setMaxError of the point / edge / cell targets: `return false`, nothing written
    match findEdgesCore f idx q' t.kind.thr o k.report with
    | none => none
    | some (idx, q'', a) => some (idx, q'', t, ⟨a, none⟩)

/-! ### Loop and Polygon -/

structure LoopS where
  nverts : Nat
  reversed : Bool
  originInside : Bool
  boundFor : Bool        -- orientation the stored bound was computed for
  idx : Index
deriving DecidableEq, Repr

def LoopS.shape (l : LoopS) : Shape := ⟨l.nverts, false⟩

/-- `LoopFromPoints` of a non-degenerate loop -/
def LoopS.new (n : Nat) (originInside : Bool) : LoopS :=
  let l : LoopS := ⟨n, false, originInside, false, Index.new⟩
  { l with idx := (l.idx.add l.shape).1 }

/-- `Loop.Invert` (non-special loop) -/
def LoopS.invert (f : Fixes) (l : LoopS) : LoopS :=
  let idx := l.idx.reset f
  let l := { l with idx := idx, reversed := !l.reversed, originInside := !l.originInside,
                    boundFor := !l.reversed }
  { l with idx := (l.idx.add l.shape).1 }

def maxBruteForceVertices : Nat := 32

inductive PolyKind | empty | full | normal
deriving DecidableEq, Repr

structure PolyS where
  kind : PolyKind
  nverts : Nat             -- of the normal polygon
  inverted : Bool          -- parity of inversions of the normal polygon
  idx : Option Index       -- p.index (nil for FullPolygon on the current tree)
deriving DecidableEq, Repr

def PolyS.numVertices (p : PolyS) : Nat :=
  match p.kind with | .empty => 0 | .full => 1 | .normal => p.nverts

/-- `initEdgesAndIndex` for a polygon of the given kind -/
def polyIndex (f : Fixes) (kind : PolyKind) (nverts : Nat) : Option Index :=
  match kind with
  | .full => if f.d19 then some (Index.new.add ⟨0, true⟩).1 else none   -- `if p.IsFull() { return }`
  | .empty => some (Index.new.add ⟨0, false⟩).1
  | .normal => some (Index.new.add ⟨nverts, false⟩).1

def PolyS.new (f : Fixes) (kind : PolyKind) (nverts : Nat) : PolyS :=
  ⟨kind, nverts, false, polyIndex f kind nverts⟩

/-- `Polygon.Invert` -/
def PolyS.invert (f : Fixes) (p : PolyS) : PolyS :=
  match p.kind with
  | .empty => { p with kind := .full, idx := polyIndex f .full p.nverts }
  | .full => { p with kind := .empty, idx := polyIndex f .empty p.nverts }
  | .normal => { p with inverted := !p.inverted, idx := polyIndex f .normal p.nverts }

/-! ### The combined machine -/

structure State where
  idx : Index
  eq : Option EQ         -- query object on `idx` (dropped by Add/Reset: such histories are out of contract)
  loop : LoopS
  poly : PolyS
  dead : Option Out      -- `some stuck` / `some panicked` once the process is lost
  tgt : Option Target := none   -- the current target OBJECT (lives until the next `newTarget`)
deriving DecidableEq, Repr

inductive Op
  | add (sh : Shape) | build | reset | query
  | remove (k : Nat)                              -- `Remove` of the k-th shape present in the index (k from 0)
  | newEQ (o : Opts) | call (k : QKind) (thr : Nat) | eqReset
  | invert | loopContains | loopCell
  | polyInvert | polyContains
  -- targets: `call` above hands a NEW stateless target (brute-force threshold `thr`) to every call;
  | newTarget (k : TKind) (shapes : List Shape)   -- a new target object (index targets: over a new index holding `shapes`)
  | tadd (sh : Shape)                             -- Add on the index of the current index target
  | tset (ii bf : Bool)                           -- setIncludeInteriors / setUseBruteForce of the current index target
  | tcall (k : QKind)                             -- a call that uses the CURRENT target object
deriving DecidableEq, Repr

def State.init (f : Fixes) (loopVerts : Nat) (loopOrigin : Bool) (pk : PolyKind) (polyVerts : Nat) : State :=
  ⟨Index.new, none, LoopS.new loopVerts loopOrigin, PolyS.new f pk polyVerts, none, none⟩

def die (s : State) (o : Out) : State × Out := ({ s with dead := some o }, o)

def stepV (f : Fixes) (s : State) (op : Op) : State × Out :=
  match s.dead with
  | some o => (s, o)
  | none =>
  match op with
  | .add sh => let (i, n) := s.idx.add sh; ({ s with idx := i, eq := none }, .id n)
  | .reset => ({ s with idx := s.idx.reset f, eq := none }, .unit)
  | .remove k =>
    match (presentIds s.idx.shapes.length s.idx.gone)[k]? with
    | some id => ({ s with idx := s.idx.remove id, eq := none }, .unit)
    | none => (s, .outOfContract)       -- there is no such shape (the generators never ask for it)
  | .build =>
    match maybeApplyUpdates f s.idx with
    | some i => ({ s with idx := i }, .unit)
    | none => die s .stuck
  | .query =>
    -- NewContainsPointQuery / NewCrossingEdgeQuery: `iter: index.Iterator()`
    match maybeApplyUpdates f s.idx with
    | some i =>
      -- CrossingEdgeQuery.candidatesEdgeMap: `if len(c.index.shapes) == 1 { shape := c.index.Shape(0); … }` (D53)
      if !f.d53 && i.numPresent == 1 && i.gone.contains 0 then die { s with idx := i } .panicked
      else ({ s with idx := i }, .seen i.cells)
    | none => die s .stuck
  | .newEQ o => ({ s with eq := some (EQ.new o) }, .unit)
  | .eqReset =>
    match s.eq with
    | some q => ({ s with eq := some q.reset }, .unit)
    | none => (s, .outOfContract)
  | .call k thr =>
    match s.eq with
    | none => (s, .outOfContract)
    | some q =>
      match eqCall f s.idx q k thr with
      | some (i, q', a) => ({ s with idx := i, eq := some q' }, .eq ⟨a, none⟩ q'.opts)
      | none => die s .stuck
  | .newTarget k shapes => ({ s with tgt := some (Target.new k shapes) }, .unit)
  | .tadd sh =>
    match s.tgt with
    | some t =>
      if t.kind = .index then
        let (i, n) := t.idx.add sh
        ({ s with tgt := some { t with idx := i } }, .id n)
      else (s, .outOfContract)
    | none => (s, .outOfContract)
  | .tset ii bf =>
    match s.tgt with
    | some t =>
      if t.kind = .index then ({ s with tgt := some (t.configure ii bf) }, .unit)
      else (s, .outOfContract)
    | none => (s, .outOfContract)
  | .tcall k =>
    match s.eq, s.tgt with
    | some q, some t =>
      match eqCallT f s.idx q t k with
      | some (i, q', t', a) => ({ s with idx := i, eq := some q', tgt := some t' }, .eq a q'.opts)
      | none => die s .stuck
    | _, _ => (s, .outOfContract)
  | .invert => ({ s with loop := s.loop.invert f }, .unit)
  | .loopContains =>
    let l := s.loop
    if l.idx.shapes.length == 0 || l.nverts ≤ maxBruteForceVertices then
      (s, .loop l.reversed l.originInside l.boundFor none)
    else
      match maybeApplyUpdates f l.idx with
      | some i => ({ s with loop := { l with idx := i } }, .loop l.reversed l.originInside l.boundFor (some i.cells))
      | none => die s .stuck
  | .loopCell =>
    -- ContainsCell / IntersectsCell / boundary queries: always `l.index.Iterator()`
    let l := s.loop
    match maybeApplyUpdates f l.idx with
    | some i => ({ s with loop := { l with idx := i } }, .loop l.reversed l.originInside l.boundFor (some i.cells))
    | none => die s .stuck
  | .polyInvert => ({ s with poly := s.poly.invert f }, .unit)
  | .polyContains =>
    let p := s.poly
    match p.idx with
    | none => die s .panicked          -- p.index.IsFresh() on a nil *ShapeIndex
    | some ix =>
      if p.numVertices < maxBruteForceVertices then
        (s, .poly (p.kind == .full) p.inverted none)
      else
        match maybeApplyUpdates f ix with
        | some i => ({ s with poly := { p with idx := some i } }, .poly (p.kind == .full) p.inverted (some i.cells))
        | none => die s .stuck

/-- the faithful model of the current tree -/
def step : State → Op → State × Out := stepV Fixes.none
/-- the model with the four minimal repairs -/
def stepFixed : State → Op → State × Out := stepV Fixes.all

def runV (f : Fixes) : State → List Op → State × List Out
  | s, [] => (s, [])
  | s, op :: t =>
    let (s', o) := stepV f s op
    let (s'', os) := runV f s' t
    (s'', o :: os)

/-! ### The history-free specification: geometry + the caller's options, nothing else -/

/-- a target as the caller knows it: kind, the shapes in its index, the two settings made through
    setIncludeInteriors / setUseBruteForce (defaults true / false) -/
structure TGeo where
  kind : TKind
  shapes : List Shape
  ii : Bool
  bf : Bool
deriving DecidableEq, Repr

structure Geo where
  shapes : List Shape           -- the shapes by IDENTITY: position = the id `Add` returned for the shape;
                                -- the position of a removed shape holds `Shape.gone`
  user : Option Opts            -- options of the live query object, if any
  loopVerts : Nat
  loopReversed : Bool
  loopOrigin : Bool
  polyKind : PolyKind
  polyVerts : Nat
  polyInverted : Bool
  tgt : Option TGeo := none      -- the current target: geometry + what the caller configured
  gone : List Nat := []          -- the identities (ids) of the removed shapes
deriving DecidableEq, Repr

def Target.geo (t : Target) : TGeo :=
  ⟨t.kind, t.idx.shapes, t.q.user.includeInteriors, t.q.user.useBruteForce⟩

def abs (s : State) : Geo :=
  ⟨s.idx.shapes, s.eq.map (·.user), s.loop.nverts, s.loop.reversed, s.loop.originInside,
   s.poly.kind, s.poly.nverts, s.poly.inverted, s.tgt.map Target.geo, s.idx.gone⟩

/-- answer of a *fresh* EdgeQuery with options `u` on a *freshly built* index over `shapes` -/
def specAns (shapes : List Shape) (u : Opts) (k : QKind) : EQAns :=
  let o := k.override u
  if o.distanceLimit == Lim.zero then ⟨k.report, none, [], o.maxResults, o.distanceLimit, o.maxError⟩
  else ⟨k.report, if o.includeInteriors then some (liveIds shapes) else none, liveIds shapes,
        o.maxResults, o.distanceLimit, o.maxError⟩

/-- answer of a fresh search with effective options `o` over a freshly built index holding `shapes` -/
def searchAns (shapes : List Shape) (o : Opts) (rep : Report) : EQAns :=
  if o.distanceLimit == Lim.zero then ⟨rep, none, [], o.maxResults, o.distanceLimit, o.maxError⟩
  else ⟨rep, if o.includeInteriors then some (liveIds shapes) else none, liveIds shapes,
        o.maxResults, o.distanceLimit, o.maxError⟩

/-- the inner options of a FRESH index target configured like `tg`, in a call with effective outer options `o` -/
def specInnerOpts (tg : TGeo) (o : Opts) : Opts :=
  { Opts.default with includeInteriors := tg.ii, useBruteForce := tg.bf,
                      maxError := o.maxError, distanceLimit := o.distanceLimit, maxResults := 1 }

/-- answer of a fresh search with effective options `o` over a freshly built index holding `shapes`, asked
    with a FRESH index target over a freshly built index holding `tg.shapes`, configured like `tg` -/
def searchAnsT (shapes : List Shape) (o : Opts) (rep : Report) (tg : TGeo) : Answer :=
  if o.distanceLimit == Lim.zero then ⟨outerAns rep none [] o, none⟩
  else
    let starts := liveIds tg.shapes
    let interiors := if o.includeInteriors then some (if starts.isEmpty then [] else liveIds shapes) else none
    let tstarts := if o.includeInteriors then some starts else none
    let io := specInnerOpts tg o
    let ia := searchAns tg.shapes io .single
    if o.useBruteForce || numEdgesUpTo shapes (TKind.index.thr + 1) 0 < TKind.index.thr + 1 then
      ⟨outerAns rep interiors (liveIds shapes) o, some ⟨tstarts, none, io, if hasEdges shapes then some ia else none⟩⟩
    else if starts.isEmpty then
      ⟨outerAns rep interiors [] o, some ⟨tstarts, some [], io, none⟩⟩
    else
      ⟨outerAns rep interiors (liveIds shapes) o, some ⟨tstarts, some starts, io, some ia⟩⟩

/-- answer of a fresh EdgeQuery with options `u` … with a fresh index target like `tg` -/
def specAnsT (shapes : List Shape) (u : Opts) (k : QKind) (tg : TGeo) : Answer :=
  searchAnsT shapes (k.override u) k.report tg

def spec (g : Geo) (op : Op) : Geo × Out :=
  match op with
  | .newTarget k shapes => ({ g with tgt := some ⟨k, if k = .index then shapes else [], true, false⟩ }, .unit)
  | .tadd sh =>
    match g.tgt with
    | some tg =>
      if tg.kind = .index then ({ g with tgt := some { tg with shapes := tg.shapes ++ [sh] } }, .id tg.shapes.length)
      else (g, .outOfContract)
    | none => (g, .outOfContract)
  | .tset ii bf =>
    match g.tgt with
    | some tg =>
      if tg.kind = .index then ({ g with tgt := some { tg with ii := ii, bf := bf } }, .unit)
      else (g, .outOfContract)
    | none => (g, .outOfContract)
  | .tcall k =>
    match g.user, g.tgt with
    | some u, some tg =>
      match tg.kind with
      | .index => (g, .eq (specAnsT g.shapes u k tg) u)
      | _ => (g, .eq ⟨specAns g.shapes u k, none⟩ u)
    | _, _ => (g, .outOfContract)
  | .add sh => ({ g with shapes := g.shapes ++ [sh], user := none }, .id g.shapes.length)
  | .reset => ({ g with shapes := [], gone := [], user := none }, .unit)
  | .remove k =>
    match (presentIds g.shapes.length g.gone)[k]? with
    | some id => ({ g with shapes := g.shapes.set id Shape.gone, gone := g.gone ++ [id], user := none }, .unit)
    | none => (g, .outOfContract)
  | .build => (g, .unit)
  | .query => (g, .seen (liveIds g.shapes))
  | .newEQ o => ({ g with user := some o }, .unit)
  | .eqReset => (g, if g.user.isSome then .unit else .outOfContract)
  | .call k _ =>
    match g.user with
    | none => (g, .outOfContract)
    | some u => (g, .eq ⟨specAns g.shapes u k, none⟩ u)
  | .invert => ({ g with loopReversed := !g.loopReversed, loopOrigin := !g.loopOrigin }, .unit)
  | .loopContains =>
    (g, .loop g.loopReversed g.loopOrigin g.loopReversed
          (if g.loopVerts ≤ maxBruteForceVertices then none else some (liveIds [⟨g.loopVerts, false⟩])))
  | .loopCell => (g, .loop g.loopReversed g.loopOrigin g.loopReversed (some (liveIds [⟨g.loopVerts, false⟩])))
  | .polyInvert =>
    match g.polyKind with
    | .empty => ({ g with polyKind := .full }, .unit)
    | .full => ({ g with polyKind := .empty }, .unit)
    | .normal => ({ g with polyInverted := !g.polyInverted }, .unit)
  | .polyContains =>
    let nv := match g.polyKind with | .empty => 0 | .full => 1 | .normal => g.polyVerts
    (g, .poly (g.polyKind == .full) g.polyInverted
          (if nv < maxBruteForceVertices then none else some (liveIds [⟨g.polyVerts, false⟩])))

def runSpec : Geo → List Op → Geo × List Out
  | g, [] => (g, [])
  | g, op :: t =>
    let (g', o) := spec g op
    let (g'', os) := runSpec g' t
    (g'', o :: os)

end S2.History
