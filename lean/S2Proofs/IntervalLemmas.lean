/-
  S2Proofs.IntervalLemmas — laws assumed about the number carrier of the interval model
  (`S2.Interval`), their satisfiability, and helper lemmas for property C19.

  The carrier of the proofs is an arbitrary Mathlib `LinearOrder` (the model's `≤ < max min` are then
  literally the ones of that order).  Floats without NaN, with `+0`/`-0` identified, form such an order.
-/
import Mathlib.Order.Defs.LinearOrder
import Mathlib.Order.Basic
import Mathlib.Tactic.Order
import S2.Interval

set_option linter.unusedSectionVars false

namespace S2Proofs
open S2 S2.IvlOps

/-- Order-level laws: float `==` is equality of the carrier, `-π < π`, `-π/2 < π/2`, `0 < 1`,
    and `|a| ≤ b` means `-b ≤ a ≤ b` for the two constants it is used with. -/
class IvlLaws (α : Type) [LinearOrder α] [IvlOps α] : Prop where
  feq_iff : ∀ a b : α, feq a b = true ↔ a = b
  negPi_lt_pi : (negPi : α) < pi
  negHalfPi_lt_halfPi : (negHalfPi : α) < halfPi
  zero_lt_one : (zero : α) < one
  abs_le_pi : ∀ a : α, abs a ≤ pi ↔ (negPi ≤ a ∧ a ≤ pi)
  abs_le_halfPi : ∀ a : α, abs a ≤ halfPi ↔ (negHalfPi ≤ a ∧ a ≤ halfPi)
  /-- the canonical empty latitude interval `[1, 0]` lies within `[-π/2, π/2]` -/
  zero_one_lat : (negHalfPi : α) ≤ zero ∧ (one : α) ≤ halfPi

/-- Arithmetic laws (all that is assumed about `+`/`-` for `r1.Expanded` and the lat-lng `expanded`, and about
    `math.Remainder` for validity of `s1.Expanded`): adding a non-negative (non-positive) margin does not
    decrease (increase); the remainder lands in `[-π, π]`.  Any monotone rounding of exact arithmetic that
    fixes representable numbers satisfies them (`a ⊕ m = rnd(a+m) ≥ rnd(a) = a` for `m ≥ 0`). -/
class IvlArithLaws (α : Type) [LinearOrder α] [IvlOps α] : Prop where
  le_add_nonneg : ∀ a m : α, zero ≤ m → a ≤ add a m
  sub_nonneg_le : ∀ a m : α, zero ≤ m → sub a m ≤ a
  add_nonpos_le : ∀ a m : α, m ≤ zero → add a m ≤ a
  le_sub_nonpos : ∀ a m : α, m ≤ zero → a ≤ sub a m
  rem_range : ∀ x : α, negPi ≤ rem2pi x ∧ rem2pi x ≤ pi

/-- Laws used only by the theorem about `s1.Length` (negative exactly for the empty interval):
    `(-π) ⊖ π < 0`, `((-π) ⊖ π) ⊕ 2π` is not positive, and `-1 < 0`.  True of float64 (the two values are
    exactly -2π and 0) and of exact arithmetic. -/
class IvlLengthLaws (α : Type) [LinearOrder α] [IvlOps α] : Prop where
  sub_negPi_pi_neg : sub (negPi : α) pi < zero
  empty_len_not_pos : ¬ (zero : α) < add (sub (negPi : α) pi) twoPi
  negOne_neg : (negOne : α) < zero

variable {α : Type} [LinearOrder α] [IvlOps α]

/-- a point of the circle in the documented range [-π, π] -/
def ValidPt (p : α) : Prop := (negPi : α) ≤ p ∧ p ≤ pi

section
variable [IvlLaws α]

theorem feq_eq (a b : α) : feq a b = decide (a = b) := by
  rw [Bool.eq_iff_iff, IvlLaws.feq_iff]; simp

/-! ### r1 -/

theorem r1_isEmpty_iff (i : R1 α) : i.isEmpty = true ↔ i.hi < i.lo := by
  simp [R1.isEmpty]

theorem r1_contains_iff (i : R1 α) (p : α) : i.contains p = true ↔ (i.lo ≤ p ∧ p ≤ i.hi) := by
  simp [R1.contains]

theorem r1_ci_iff (i o : R1 α) : i.containsInterval o = true ↔ (o.hi < o.lo ∨ (i.lo ≤ o.lo ∧ o.hi ≤ i.hi)) := by
  unfold R1.containsInterval R1.isEmpty
  by_cases h : o.hi < o.lo <;> simp [h]

theorem r1_intersects_iff (i o : R1 α) : i.intersects o = true ↔
    ((i.lo ≤ o.lo ∧ o.lo ≤ i.hi ∧ o.lo ≤ o.hi) ∨ (¬ i.lo ≤ o.lo ∧ i.lo ≤ o.hi ∧ i.lo ≤ i.hi)) := by
  unfold R1.intersects
  by_cases h : i.lo ≤ o.lo <;> simp [h]

theorem r1_empty_isEmpty : (R1.empty : R1 α).isEmpty = true := by
  simp [R1.isEmpty, R1.empty, IvlLaws.zero_lt_one]

theorem r2_valid_iff (r : R2Rect α) : r.isValid = true ↔ (r.x.hi < r.x.lo ↔ r.y.hi < r.y.lo) := by
  unfold R2Rect.isValid R1.isEmpty
  by_cases h : r.x.hi < r.x.lo <;> by_cases h' : r.y.hi < r.y.lo <;> simp [h, h']

/-! ### s1: propositional characterisations of the Boolean functions -/

theorem s1_isEmpty_iff (i : S1 α) : i.isEmpty = true ↔ (i.lo = pi ∧ i.hi = negPi) := by
  simp [S1.isEmpty, feq_eq]

theorem s1_isFull_iff (i : S1 α) : i.isFull = true ↔ (i.lo = negPi ∧ i.hi = pi) := by
  simp [S1.isFull, feq_eq]

theorem s1_fc_iff (i : S1 α) (q : α) : i.fastContains q = true ↔
    ((i.hi < i.lo ∧ (i.lo ≤ q ∨ q ≤ i.hi) ∧ ¬(i.lo = pi ∧ i.hi = negPi)) ∨
     (¬ i.hi < i.lo ∧ i.lo ≤ q ∧ q ≤ i.hi)) := by
  unfold S1.fastContains S1.isInverted S1.isEmpty
  simp only [feq_eq]
  by_cases h : i.hi < i.lo <;> simp [h]
  grind

theorem s1_valid_iff (i : S1 α) : i.isValid = true ↔
    (negPi ≤ i.lo ∧ i.lo ≤ pi ∧ negPi ≤ i.hi ∧ i.hi ≤ pi ∧
      (i.lo = negPi → i.hi = pi) ∧ (i.hi = negPi → i.lo = pi)) := by
  unfold S1.isValid
  simp only [feq_eq, IvlLaws.abs_le_pi]
  simp; grind

theorem s1_ci_iff (i o : S1 α) : i.containsInterval o = true ↔
    (i.hi < i.lo ∧ o.hi < o.lo ∧ i.lo ≤ o.lo ∧ o.hi ≤ i.hi) ∨
    (i.hi < i.lo ∧ ¬ o.hi < o.lo ∧ (i.lo ≤ o.lo ∨ o.hi ≤ i.hi) ∧ ¬(i.lo = pi ∧ i.hi = negPi)) ∨
    (¬ i.hi < i.lo ∧ o.hi < o.lo ∧ ((i.lo = negPi ∧ i.hi = pi) ∨ (o.lo = pi ∧ o.hi = negPi))) ∨
    (¬ i.hi < i.lo ∧ ¬ o.hi < o.lo ∧ i.lo ≤ o.lo ∧ o.hi ≤ i.hi) := by
  unfold S1.containsInterval S1.isInverted S1.isEmpty S1.isFull
  simp only [feq_eq]
  by_cases h : i.hi < i.lo <;> by_cases h' : o.hi < o.lo <;> simp [h, h']
  grind

theorem s1_ici_iff (i o : S1 α) : i.interiorContainsInterval o = true ↔
    (i.hi < i.lo ∧ o.hi < o.lo ∧ ((i.lo < o.lo ∧ o.hi < i.hi) ∨ (o.lo = pi ∧ o.hi = negPi))) ∨
    (i.hi < i.lo ∧ ¬ o.hi < o.lo ∧ (i.lo < o.lo ∨ o.hi < i.hi)) ∨
    (¬ i.hi < i.lo ∧ o.hi < o.lo ∧ ((i.lo = negPi ∧ i.hi = pi) ∨ (o.lo = pi ∧ o.hi = negPi))) ∨
    (¬ i.hi < i.lo ∧ ¬ o.hi < o.lo ∧ ((i.lo < o.lo ∧ o.hi < i.hi) ∨ (i.lo = negPi ∧ i.hi = pi))) := by
  unfold S1.interiorContainsInterval S1.isInverted S1.isEmpty S1.isFull
  simp only [feq_eq]
  by_cases h : i.hi < i.lo <;> by_cases h' : o.hi < o.lo <;> simp [h, h']

theorem s1_intersects_iff (i o : S1 α) : i.intersects o = true ↔
    (¬(i.lo = pi ∧ i.hi = negPi) ∧ ¬(o.lo = pi ∧ o.hi = negPi) ∧
      ((i.hi < i.lo ∧ (o.hi < o.lo ∨ o.lo ≤ i.hi ∨ i.lo ≤ o.hi)) ∨
       (¬ i.hi < i.lo ∧ o.hi < o.lo ∧ (o.lo ≤ i.hi ∨ i.lo ≤ o.hi)) ∨
       (¬ i.hi < i.lo ∧ ¬ o.hi < o.lo ∧ o.lo ≤ i.hi ∧ i.lo ≤ o.hi))) := by
  unfold S1.intersects S1.isInverted S1.isEmpty
  simp only [feq_eq]
  by_cases h : i.hi < i.lo <;> by_cases h' : o.hi < o.lo <;> simp [h, h'] <;> grind

theorem s1_iintersects_iff (i o : S1 α) : i.interiorIntersects o = true ↔
    (¬(i.lo = pi ∧ i.hi = negPi) ∧ ¬(o.lo = pi ∧ o.hi = negPi) ∧ i.lo ≠ i.hi ∧
      ((i.hi < i.lo ∧ (o.hi < o.lo ∨ o.lo < i.hi ∨ i.lo < o.hi)) ∨
       (¬ i.hi < i.lo ∧ o.hi < o.lo ∧ (o.lo < i.hi ∨ i.lo < o.hi)) ∨
       (¬ i.hi < i.lo ∧ ¬ o.hi < o.lo ∧ ((o.lo < i.hi ∧ i.lo < o.hi) ∨ (i.lo = negPi ∧ i.hi = pi))))) := by
  unfold S1.interiorIntersects S1.isInverted S1.isEmpty S1.isFull
  simp only [feq_eq]
  by_cases h : i.hi < i.lo <;> by_cases h' : o.hi < o.lo <;> simp [h, h'] <;> grind

/-- the point after the `if p == -π { p = π }` prologue -/
def norm (p : α) : α := if p = negPi then pi else p

theorem normPoint_eq (p : α) : S1.normPoint p = norm p := by
  unfold S1.normPoint norm; simp [feq_eq]

theorem s1_contains_iff (i : S1 α) (p : α) : i.contains p = true ↔ i.fastContains (norm p) = true := by
  unfold S1.contains; rw [normPoint_eq]

theorem s1_icontains_iff (i : S1 α) (p : α) : i.interiorContains p = true ↔
    ((i.hi < i.lo ∧ (i.lo < norm p ∨ norm p < i.hi)) ∨
     (¬ i.hi < i.lo ∧ ((i.lo < norm p ∧ norm p < i.hi) ∨ (i.lo = negPi ∧ i.hi = pi)))) := by
  unfold S1.interiorContains S1.isInverted S1.isFull
  simp only [feq_eq, normPoint_eq]
  by_cases h : i.hi < i.lo <;> simp [h]

theorem norm_range (p : α) (hp : ValidPt p) : negPi < norm p ∧ norm p ≤ (pi : α) := by
  have h1 := IvlLaws.negPi_lt_pi (α := α)
  unfold ValidPt at hp
  unfold norm
  split <;> grind

/-! ### lat-lng rectangle -/

theorem latlng_valid_iff (ll : LatLng α) : ll.isValid = true ↔
    (negHalfPi ≤ ll.lat ∧ ll.lat ≤ halfPi ∧ ValidPt ll.lng) := by
  unfold LatLng.isValid ValidPt
  simp only [Bool.and_eq_true, decide_eq_true_eq, IvlLaws.abs_le_halfPi, IvlLaws.abs_le_pi]; grind

theorem ll_mem_iff (r : LLRect α) (ll : LatLng α) : r.containsLatLng ll = true ↔
    (negHalfPi ≤ ll.lat ∧ ll.lat ≤ halfPi ∧ ValidPt ll.lng ∧
      r.lat.contains ll.lat = true ∧ r.lng.contains ll.lng = true) := by
  unfold LLRect.containsLatLng
  by_cases h : ll.isValid = true
  · have h' := (latlng_valid_iff ll).1 h
    simp [h]; grind
  · have h' := (latlng_valid_iff ll).not.1 h
    simp [h]; grind

theorem ll_valid_iff (r : LLRect α) : r.isValid = true ↔
    (negHalfPi ≤ r.lat.lo ∧ r.lat.lo ≤ halfPi ∧ negHalfPi ≤ r.lat.hi ∧ r.lat.hi ≤ halfPi ∧
      r.lng.isValid = true ∧ (r.lat.isEmpty = true ↔ r.lng.isEmpty = true)) := by
  unfold LLRect.isValid
  simp only [Bool.and_eq_true, decide_eq_true_eq, IvlLaws.abs_le_halfPi, beq_iff_eq]
  cases r.lat.isEmpty <;> cases r.lng.isEmpty <;> simp <;> grind

theorem norm_of_ne (p : α) (h : p ≠ negPi) : norm p = p := by
  unfold norm; simp [h]

theorem norm_negPi : norm (negPi : α) = pi := by
  unfold norm; simp

/-- interior membership as a proposition about a normalised point -/
def IntMem (i : S1 α) (q : α) : Prop :=
  (i.hi < i.lo ∧ (i.lo < q ∨ q < i.hi)) ∨
  (¬ i.hi < i.lo ∧ ((i.lo < q ∧ q < i.hi) ∨ (i.lo = negPi ∧ i.hi = pi)))

theorem s1_icontains_iff' (i : S1 α) (p : α) : i.interiorContains p = true ↔ IntMem i (norm p) :=
  s1_icontains_iff i p

/-- instantiate a "for all valid points" hypothesis at a point of (-π, π] -/
theorem probe_cc (i o : S1 α) (h : ∀ p, ValidPt p → o.contains p = true → i.contains p = true)
    (q : α) : negPi < q → q ≤ pi → o.fastContains q = true → i.fastContains q = true := by
  intro h1 h2 h3
  have := h q ⟨le_of_lt h1, h2⟩
  rw [s1_contains_iff, s1_contains_iff, norm_of_ne q (ne_of_gt h1)] at this
  exact this h3

theorem probe_ci (i o : S1 α) (h : ∀ p, ValidPt p → o.contains p = true → i.interiorContains p = true)
    (q : α) : negPi < q → q ≤ pi → o.fastContains q = true → IntMem i q := by
  intro h1 h2 h3
  have := h q ⟨le_of_lt h1, h2⟩
  rw [s1_contains_iff, s1_icontains_iff', norm_of_ne q (ne_of_gt h1)] at this
  exact this h3

theorem probe_nex (i o : S1 α) (h : ∀ p, ¬ (ValidPt p ∧ i.contains p = true ∧ o.contains p = true))
    (q : α) : negPi < q → q ≤ pi → ¬ (i.fastContains q = true ∧ o.fastContains q = true) := by
  intro h1 h2 h3
  have := h q
  rw [s1_contains_iff, s1_contains_iff, norm_of_ne q (ne_of_gt h1)] at this
  exact this ⟨⟨le_of_lt h1, h2⟩, h3⟩

end

/-! ### satisfiability of the laws: `Int` with exact arithmetic and π := 4 -/

section IntInstance
open S2.IvlInt

theorem rem8_range (x : Int) : -4 ≤ rem8 x ∧ rem8 x ≤ 4 := by
  unfold rem8 F64.roundDivHalfEven
  simp only
  split
  · omega
  · split
    · omega
    · split <;> omega

instance : IvlLaws Int where
  feq_iff := by intro a b; show (a == b) = true ↔ a = b; simp
  negPi_lt_pi := by show (-4 : Int) < 4; decide
  negHalfPi_lt_halfPi := by show (-2 : Int) < 2; decide
  zero_lt_one := by show (0 : Int) < 1; decide
  abs_le_pi := by
    intro a; show (if a < 0 then -a else a) ≤ (4 : Int) ↔ (-4 ≤ a ∧ a ≤ 4)
    split <;> omega
  abs_le_halfPi := by
    intro a; show (if a < 0 then -a else a) ≤ (2 : Int) ↔ (-2 ≤ a ∧ a ≤ 2)
    split <;> omega
  zero_one_lat := by show (-2 : Int) ≤ 0 ∧ (1 : Int) ≤ 2; decide

instance : IvlArithLaws Int where
  le_add_nonneg := by intro a m h; show a ≤ a + m; have : (0 : Int) ≤ m := h; omega
  sub_nonneg_le := by intro a m h; show a - m ≤ a; have : (0 : Int) ≤ m := h; omega
  add_nonpos_le := by intro a m h; show a + m ≤ a; have : m ≤ (0 : Int) := h; omega
  le_sub_nonpos := by intro a m h; show a ≤ a - m; have : m ≤ (0 : Int) := h; omega
  rem_range := by intro x; exact rem8_range x

instance : IvlLengthLaws Int where
  sub_negPi_pi_neg := by show (-4 - 4 : Int) < 0; decide
  empty_len_not_pos := by show ¬ (0 : Int) < (-4 - 4) + 8; decide
  negOne_neg := by show (-1 : Int) < 0; decide

/-- on the three periods that `s1.Expanded` can reach the remainder is the obvious shift -/
theorem rem8_cases (x : Int) :
    (-4 ≤ x ∧ x ≤ 4 → rem8 x = x) ∧ (-12 < x ∧ x < -4 → rem8 x = x + 8) ∧ (4 < x ∧ x < 12 → rem8 x = x - 8) := by
  unfold rem8 F64.roundDivHalfEven
  simp only
  refine ⟨?_, ?_, ?_⟩ <;> intro h <;> split <;> try omega
  all_goals (split <;> try omega)
  all_goals (split <;> rename_i hq <;> simp only [beq_iff_eq] at hq <;> omega)

theorem c_pi : (IvlOps.pi : Int) = 4 := rfl
theorem c_negPi : (IvlOps.negPi : Int) = -4 := rfl
theorem c_twoPi : (IvlOps.twoPi : Int) = 8 := rfl
theorem c_zero : (IvlOps.zero : Int) = 0 := rfl
theorem c_negOne : (IvlOps.negOne : Int) = -1 := rfl
theorem c_twoEps : (IvlOps.twoEps : Int) = 0 := rfl
theorem c_add (a b : Int) : IvlOps.add a b = a + b := rfl
theorem c_sub (a b : Int) : IvlOps.sub a b = a - b := rfl
theorem c_dbl (a : Int) : IvlOps.dbl a = 2 * a := rfl
theorem c_rem (a : Int) : IvlOps.rem2pi a = rem8 a := rfl

end IntInstance

end S2Proofs
