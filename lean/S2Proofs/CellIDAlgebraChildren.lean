/-
  S2Proofs.CellIDAlgebraChildren — helper lemmas for the children / child-range part of the
  cell-id algebra (continues S2Proofs.CellIDAlgebra; split only to keep build times short).
-/
import S2Proofs.CellIDAlgebra
open S2 S2.CellID
namespace S2Proofs

/-! ### words that have the low-bit pattern of a level-`k` cell (face not restricted) -/

theorem lsb_eq_of_low {x : CellID} {k : Nat} (hk : k ≤ 30) (hlow : x.toNat % 2^(61 - 2*k) = 2^(60 - 2*k)) :
    (lsb x).toNat = 2^(60 - 2*k) := by
  have hx : x.toNat ≠ 0 := by
    intro h0; rw [h0] at hlow; simp at hlow
    have := Nat.two_pow_pos (60 - 2*k); omega
  rw [lsb_toNat x hx]
  have e1 : 61 - 2*k = (60 - 2*k) + 1 := by omega
  have hdm := Nat.div_add_mod x.toNat (2^(61 - 2*k))
  rw [hlow, e1, Nat.pow_succ] at hdm
  have e : x.toNat = (2 * (x.toNat / (2^(60-2*k) * 2)) + 1) * 2^(60-2*k) := by
    have : (2 * (x.toNat / (2^(60-2*k) * 2)) + 1) * 2^(60-2*k)
        = 2^(60-2*k) * 2 * (x.toNat / (2^(60-2*k) * 2)) + 2^(60-2*k) := by ring
    omega
  have hlt := x.toNat_lt
  rw [e] at hlt ⊢
  exact lsbNat _ _ hlt

theorem next_toNat_of_low {x : CellID} {k : Nat} (hk : k ≤ 30)
    (hlow : x.toNat % 2^(61 - 2*k) = 2^(60 - 2*k)) :
    (next x).toNat = (x.toNat + 2^(61 - 2*k)) % 2^64 := by
  have hl := lsb_eq_of_low hk hlow
  unfold CellID.next
  rw [UInt64.toNat_add, UInt64.toNat_shiftLeft, hl, one_toNat, Nat.shiftLeft_eq]
  interval_cases k <;> simp only [Nat.reducePow, Nat.reduceMul, Nat.reduceSub, Nat.reduceMod]

theorem prev_toNat_of_low {x : CellID} {k : Nat} (hk : k ≤ 30)
    (hlow : x.toNat % 2^(61 - 2*k) = 2^(60 - 2*k)) :
    (prev x).toNat = (2^64 - 2^(61 - 2*k) + x.toNat) % 2^64 := by
  have hl := lsb_eq_of_low hk hlow
  unfold CellID.prev
  rw [UInt64.toNat_sub, UInt64.toNat_shiftLeft, hl, one_toNat, Nat.shiftLeft_eq]
  interval_cases k <;> simp only [Nat.reducePow, Nat.reduceMul, Nat.reduceSub, Nat.reduceMod]

/-! ### Group 3: children -/

theorem IsCell.child_face {x : CellID} {k t : Nat} (h : IsCell x k) (hk : k < 30) (ht : t < 4) :
    face (child x t) = face x := by
  rw [face_toNat, face_toNat, h.child_toNat hk ht]
  obtain ⟨_, hf, hlow⟩ := h
  interval_cases k <;> cell_omega

theorem IsCell.parent_child_id {x : CellID} {k t : Nat} (h : IsCell x k) (hk : k < 30) (ht : t < 4) :
    parent (child x t) k = x := by
  apply UInt64.toNat_inj.mp
  rw [parent_toNat _ k h.k_le, h.child_toNat hk ht]
  obtain ⟨_, hf, hlow⟩ := h
  interval_cases k <;> cell_omega

theorem IsCell.immediateParent_child {x : CellID} {k t : Nat} (h : IsCell x k) (hk : k < 30)
    (ht : t < 4) : immediateParent (child x t) = x := by
  rw [(h.child_isCell hk ht).immediateParent_eq (by omega)]
  exact h.parent_child_id hk ht

theorem childPosition_eq (x : CellID) (k : Nat) (hk : k ≤ 30) :
    childPosition x k = x.toNat / 2^(61 - 2*k) % 4 := by
  unfold childPosition
  rw [UInt64.toNat_and, shiftRight_lit_toNat _ _ (by simp only [maxLevel]; omega)]
  have : (3 : UInt64).toNat = 2^2 - 1 := rfl
  rw [this, Nat.and_two_pow_sub_one_eq_mod]
  simp only [maxLevel]
  rw [show 2 * (30 - k) + 1 = 61 - 2*k by omega]

theorem IsCell.child_childPosition {x : CellID} {k : Nat} (h : IsCell x k) (hk : 0 < k) :
    child (immediateParent x) (childPosition x k) = x := by
  have hk30 := h.k_le
  rw [h.immediateParent_eq hk, childPosition_eq x k hk30]
  have hp : IsCell (parent x (k-1)) (k-1) := h.parent_isCell (by omega)
  apply UInt64.toNat_inj.mp
  rw [hp.child_toNat (by omega) (Nat.mod_lt _ (by omega)), parent_toNat x (k-1) (by omega)]
  obtain ⟨_, hf, hlow⟩ := h
  interval_cases k <;> cell_omega

theorem IsCell.childPosition_child {x : CellID} {k t : Nat} (h : IsCell x k) (hk : k < 30)
    (ht : t < 4) : childPosition (child x t) (k+1) = t := by
  rw [childPosition_eq _ _ (by omega), h.child_toNat hk ht]
  obtain ⟨_, hf, hlow⟩ := h
  interval_cases k <;> cell_omega

theorem IsCell.next_child {x : CellID} {k t : Nat} (h : IsCell x k) (hk : k < 30) (ht : t < 3) :
    next (child x t) = child x (t+1) := by
  apply UInt64.toNat_inj.mp
  rw [(h.child_isCell hk (by omega)).next_toNat, h.child_toNat hk (by omega),
    h.child_toNat hk (by omega)]
  obtain ⟨_, hf, hlow⟩ := h
  interval_cases k <;> cell_omega

theorem IsCell.child_ranges {x : CellID} {k : Nat} (h : IsCell x k) (hk : k < 30) :
    rangeMin (child x 0) = rangeMin x ∧ rangeMax (child x 3) = rangeMax x ∧
    ∀ t, t < 3 → (rangeMax (child x t)).toNat + 2 = (rangeMin (child x (t+1))).toNat := by
  refine ⟨?_, ?_, ?_⟩
  · apply UInt64.toNat_inj.mp
    rw [(h.child_isCell hk (by omega)).rangeMin_eq, h.rangeMin_eq, h.child_toNat hk (by omega)]
    obtain ⟨_, hf, hlow⟩ := h
    interval_cases k <;> cell_omega
  · apply UInt64.toNat_inj.mp
    rw [(h.child_isCell hk (by omega)).rangeMax_eq, h.rangeMax_eq, h.child_toNat hk (by omega)]
    obtain ⟨_, hf, hlow⟩ := h
    interval_cases k <;> cell_omega
  · intro t ht
    rw [(h.child_isCell hk (by omega)).rangeMax_eq, (h.child_isCell hk (by omega)).rangeMin_eq,
      h.child_toNat hk (by omega), h.child_toNat hk (by omega)]
    obtain ⟨_, hf, hlow⟩ := h
    interval_cases k <;> cell_omega

theorem IsCell.child_disjoint {x : CellID} {k t u : Nat} (h : IsCell x k) (hk : k < 30)
    (htu : t < u) (hu : u < 4) :
    (rangeMax (child x t)).toNat < (rangeMin (child x u)).toNat := by
  rw [(h.child_isCell hk (by omega)).rangeMax_eq, (h.child_isCell hk (by omega)).rangeMin_eq,
    h.child_toNat hk (by omega), h.child_toNat hk (by omega)]
  obtain ⟨_, hf, hlow⟩ := h
  interval_cases k <;> cell_omega

theorem IsCell.child_inj {x : CellID} {k t u : Nat} (h : IsCell x k) (hk : k < 30)
    (ht : t < 4) (hu : u < 4) (he : child x t = child x u) : t = u := by
  have := congrArg UInt64.toNat he
  rw [h.child_toNat hk ht, h.child_toNat hk hu] at this
  have hpos := Nat.two_pow_pos (58 - 2*k)
  have : (2*t+1) * 2^(58-2*k) = (2*u+1) * 2^(58-2*k) := by omega
  have := Nat.eq_of_mul_eq_mul_right hpos this
  omega

theorem IsCell.contains_child {x : CellID} {k t : Nat} (h : IsCell x k) (hk : k < 30) (ht : t < 4) :
    contains x (child x t) = true := by
  rw [h.contains_iff_parent (h.child_isCell hk ht)]
  exact ⟨by omega, h.parent_child_id hk ht⟩

/-- a cell strictly inside `x` lies in exactly one child of `x` -/
theorem IsCell.unique_child {x c : CellID} {k j : Nat} (h : IsCell x k) (hc : IsCell c j)
    (hin : contains x c = true) (hne : c ≠ x) :
    k < 30 ∧ ∃ t, (t < 4 ∧ contains (child x t) c = true) ∧
      ∀ u, u < 4 ∧ contains (child x u) c = true → u = t := by
  rw [h.contains_iff_parent hc] at hin
  obtain ⟨hkj, hpar⟩ := hin
  have hj30 := hc.k_le
  have hlt : k < j := by
    rcases Nat.lt_or_ge k j with h' | h'
    · exact h'
    · exfalso
      have : k = j := by omega
      subst this
      rw [hc.parent_self_id] at hpar; exact hne hpar
  have hk : k < 30 := by omega
  refine ⟨hk, ?_⟩
  have hp : IsCell (parent c (k+1)) (k+1) := hc.parent_isCell (by omega)
  have hip : immediateParent (parent c (k+1)) = x := by
    rw [hp.immediateParent_eq (by omega)]
    show parent (parent c (k+1)) k = x
    rw [parent_parent c k (k+1) (by omega) (by omega)]; exact hpar
  have hcc := hp.child_childPosition (by omega)
  rw [hip] at hcc
  have ht4 : childPosition (parent c (k+1)) (k+1) < 4 := by
    rw [childPosition_eq _ _ (by omega)]; exact Nat.mod_lt _ (by omega)
  refine ⟨childPosition (parent c (k+1)) (k+1), ⟨ht4, ?_⟩, ?_⟩
  · rw [(h.child_isCell hk ht4).contains_iff_parent hc]
    exact ⟨by omega, hcc.symm⟩
  · rintro u ⟨hu, hcu⟩
    rw [(h.child_isCell hk hu).contains_iff_parent hc] at hcu
    apply h.child_inj hk hu ht4
    rw [hcc, hcu.2]

/-! ### child ranges at a given level -/

theorem childrenList_eq_id (x : CellID) : childrenList x = [child x 0, child x 1, child x 2, child x 3] := rfl
theorem childBegin_eq (x : CellID) : childBegin x = child x 0 := rfl

/-- `Y + 2^(60-2j)` with `Y` on the level-`j` grid is a level-`j` cell -/
theorem isCell_of_base {w : CellID} {Y j : Nat} (hj : j ≤ 30) (hY : Y % 2^(61 - 2*j) = 0)
    (hw : w.toNat = Y + 2^(60 - 2*j)) (hlt : w.toNat < 6 * 2^61) : IsCell w j := by
  refine ⟨hj, hlt, ?_⟩
  obtain ⟨q, hq⟩ := Nat.dvd_of_mod_eq_zero hY
  rw [hw, hq, Nat.mul_add_mod]
  apply Nat.mod_eq_of_lt
  exact Nat.pow_lt_pow_right (by omega) (by omega)

/-- the base `x - lsb` of a level-`k` cell and its end `x + lsb` are on every finer grid -/
theorem IsCell.base_facts {x : CellID} {k : Nat} (h : IsCell x k) (j : Nat) (hkj : k ≤ j) :
    2^(60 - 2*k) ≤ x.toNat ∧ 2^(60 - 2*j) ≤ 2^(60 - 2*k) ∧
    (x.toNat - 2^(60 - 2*k)) % 2^(61 - 2*j) = 0 ∧ (x.toNat + 2^(60 - 2*k)) % 2^(61 - 2*j) = 0 := by
  obtain ⟨hk, hf, hlow⟩ := h
  have hle : 2^(60 - 2*k) ≤ x.toNat := by
    have := Nat.mod_le x.toNat (2^(61 - 2*k)); omega
  have e1 : (2:Nat)^(61 - 2*k) = 2 * 2^(60 - 2*k) := by
    rw [show 61 - 2*k = (60 - 2*k) + 1 by omega, Nat.pow_succ]; ring
  have d := Nat.div_add_mod x.toNat (2^(61 - 2*k))
  rw [hlow] at d
  have hY1 : (x.toNat - 2^(60 - 2*k)) % 2^(61 - 2*k) = 0 := by
    have e : x.toNat - 2^(60 - 2*k) = 2^(61 - 2*k) * (x.toNat / 2^(61 - 2*k)) := by omega
    rw [e]; exact Nat.mul_mod_right _ _
  have hY2 : (x.toNat + 2^(60 - 2*k)) % 2^(61 - 2*k) = 0 := by
    have e : x.toNat + 2^(60 - 2*k) = 2^(61 - 2*k) * (x.toNat / 2^(61 - 2*k) + 1) := by
      rw [Nat.mul_add]; omega
    rw [e]; exact Nat.mul_mod_right _ _
  exact ⟨hle, Nat.pow_le_pow_right (by omega) (by omega),
    mod_zero_of_coarser _ _ _ (by omega) hY1, mod_zero_of_coarser _ _ _ (by omega) hY2⟩

theorem IsCell.childBeginAtLevel_toNat {x : CellID} {k : Nat} (h : IsCell x k) (j : Nat) (hkj : k ≤ j)
    (hj : j ≤ 30) :
    (childBeginAtLevel x j).toNat = x.toNat - 2^(60 - 2*k) + 2^(60 - 2*j) := by
  obtain ⟨hle, hll, _, _⟩ := h.base_facts j hkj
  unfold childBeginAtLevel
  rw [UInt64.toNat_add, UInt64.toNat_sub, h.lsb_eq, lsbForLevel_toNat j hj]
  have := x.toNat_lt
  generalize 2^(60 - 2*k) = L at *
  generalize 2^(60 - 2*j) = l at *
  omega

theorem IsCell.childEndAtLevel_toNat {x : CellID} {k : Nat} (h : IsCell x k) (j : Nat) (hkj : k ≤ j)
    (hj : j ≤ 30) :
    (childEndAtLevel x j).toNat = x.toNat + 2^(60 - 2*k) + 2^(60 - 2*j) := by
  obtain ⟨hle, hll, _, _⟩ := h.base_facts j hkj
  unfold childEndAtLevel
  rw [UInt64.toNat_add, UInt64.toNat_add, h.lsb_eq, lsbForLevel_toNat j hj]
  have := h.face_lt
  have : 2^(60 - 2*k) ≤ 2^60 := Nat.pow_le_pow_right (by omega) (by omega)
  generalize 2^(60 - 2*k) = L at *
  generalize 2^(60 - 2*j) = l at *
  omega

theorem IsCell.childBeginAtLevel_isCell {x : CellID} {k : Nat} (h : IsCell x k) (j : Nat) (hkj : k ≤ j)
    (hj : j ≤ 30) : IsCell (childBeginAtLevel x j) j := by
  obtain ⟨hle, hll, hY, _⟩ := h.base_facts j hkj
  have e := h.childBeginAtLevel_toNat j hkj hj
  refine isCell_of_base hj hY e ?_
  have := h.face_lt
  omega

theorem IsCell.childBeginAtLevel_rangeMin {x : CellID} {k : Nat} (h : IsCell x k) (j : Nat)
    (hkj : k ≤ j) (hj : j ≤ 30) : rangeMin (childBeginAtLevel x j) = rangeMin x := by
  apply UInt64.toNat_inj.mp
  rw [(h.childBeginAtLevel_isCell j hkj hj).rangeMin_eq, h.rangeMin_eq,
    h.childBeginAtLevel_toNat j hkj hj]
  omega

/-- a level-`j` cell is determined by its `rangeMin` -/
theorem IsCell.eq_of_rangeMin_eq {c d : CellID} {j : Nat} (hc : IsCell c j) (hd : IsCell d j)
    (he : rangeMin c = rangeMin d) : c = d := by
  have := congrArg UInt64.toNat he
  rw [hc.rangeMin_eq, hd.rangeMin_eq] at this
  obtain ⟨h1, _, _, _⟩ := hc.base_facts j (Nat.le_refl _)
  obtain ⟨h2, _, _, _⟩ := hd.base_facts j (Nat.le_refl _)
  apply UInt64.toNat_inj.mp; omega

theorem IsCell.eq_of_rangeMax_eq {c d : CellID} {j : Nat} (hc : IsCell c j) (hd : IsCell d j)
    (he : rangeMax c = rangeMax d) : c = d := by
  have := congrArg UInt64.toNat he
  rw [hc.rangeMax_eq, hd.rangeMax_eq] at this
  have := Nat.two_pow_pos (60 - 2*j)
  apply UInt64.toNat_inj.mp; omega

theorem IsCell.add_lsb_le_id {x : CellID} {k : Nat} (h : IsCell x k) :
    x.toNat + 2^(60 - 2*k) ≤ 6 * 2^61 := by
  obtain ⟨hk, hf, hlow⟩ := h
  interval_cases k <;> cell_omega

theorem IsCell.prev_childEndAtLevel {x : CellID} {k : Nat} (h : IsCell x k) (j : Nat)
    (hkj : k ≤ j) (hj : j ≤ 30) :
    IsCell (prev (childEndAtLevel x j)) j ∧
      rangeMax (prev (childEndAtLevel x j)) = rangeMax x := by
  obtain ⟨hle, hll, _, hY⟩ := h.base_facts j hkj
  have e := h.childEndAtLevel_toNat j hkj hj
  have e1 : (2:Nat)^(61 - 2*j) = 2 * 2^(60 - 2*j) := by
    rw [show 61 - 2*j = (60 - 2*j) + 1 by omega, Nat.pow_succ]; ring
  have hpos := Nat.two_pow_pos (60 - 2*j)
  have hlow : (childEndAtLevel x j).toNat % 2^(61 - 2*j) = 2^(60 - 2*j) := by
    obtain ⟨q, hq⟩ := Nat.dvd_of_mod_eq_zero hY
    rw [e, hq, Nat.mul_add_mod]
    exact Nat.mod_eq_of_lt (by omega)
  have hp := prev_toNat_of_low hj hlow
  have hxl := (childEndAtLevel x j).toNat_lt
  have hp' : (prev (childEndAtLevel x j)).toNat
      = (x.toNat + 2^(60 - 2*k) - 2^(61 - 2*j)) + 2^(60 - 2*j) := by
    rw [hp]; omega
  have hY' : (x.toNat + 2^(60 - 2*k) - 2^(61 - 2*j)) % 2^(61 - 2*j) = 0 := by
    obtain ⟨q, hq⟩ := Nat.dvd_of_mod_eq_zero hY
    rw [hq]
    have : 2^(61 - 2*j) * q - 2^(61 - 2*j) = 2^(61 - 2*j) * (q - 1) := by
      rw [Nat.mul_sub, Nat.mul_one]
    rw [this]; exact Nat.mul_mod_right _ _
  have hf := h.add_lsb_le_id
  have hc : IsCell (prev (childEndAtLevel x j)) j := by
    refine isCell_of_base hj hY' hp' ?_
    rw [hp']
    generalize 2^(60 - 2*k) = L at *
    generalize 2^(60 - 2*j) = l at *
    generalize 2^(61 - 2*j) = l2 at *
    omega
  refine ⟨hc, ?_⟩
  apply UInt64.toNat_inj.mp
  rw [hc.rangeMax_eq, h.rangeMax_eq, hp']
  omega

theorem IsCell.contains_iff_childRange {x c : CellID} {k j : Nat} (h : IsCell x k) (hc : IsCell c j)
    (hkj : k ≤ j) :
    contains x c = true ↔
      (childBeginAtLevel x j).toNat ≤ c.toNat ∧ c.toNat < (childEndAtLevel x j).toNat := by
  have hj := hc.k_le
  obtain ⟨hle, hll, hY1, hY2⟩ := h.base_facts j hkj
  rw [contains_iff, h.rangeMin_eq, h.rangeMax_eq, h.childBeginAtLevel_toNat j hkj hj,
    h.childEndAtLevel_toNat j hkj hj]
  obtain ⟨_, _, hlow⟩ := hc
  have hpos := Nat.two_pow_pos (60 - 2*k)
  interval_cases j <;> cell_omega

theorem IsCell.childRange_size {x : CellID} {k : Nat} (h : IsCell x k) (j : Nat) (hkj : k ≤ j)
    (hj : j ≤ 30) :
    (childEndAtLevel x j).toNat - (childBeginAtLevel x j).toNat = 4^(j - k) * 2^(61 - 2*j) := by
  obtain ⟨hle, hll, _, _⟩ := h.base_facts j hkj
  rw [h.childBeginAtLevel_toNat j hkj hj, h.childEndAtLevel_toNat j hkj hj]
  have e : (4:Nat)^(j - k) * 2^(61 - 2*j) = 2^(61 - 2*k) := by
    rw [show (4:Nat) = 2^2 from rfl, ← Nat.pow_mul, ← Nat.pow_add]; congr 1; omega
  have e1 : (2:Nat)^(61 - 2*k) = 2 * 2^(60 - 2*k) := by
    rw [show 61 - 2*k = (60 - 2*k) + 1 by omega, Nat.pow_succ]; ring
  rw [e, e1]; omega

theorem IsCell.childEnd_toNat {x : CellID} {k : Nat} (h : IsCell x k) (hk : k < 30) :
    (childEnd x).toNat = x.toNat + 2^(60 - 2*k) + 2^(58 - 2*k) := by
  have hl := h.lsb_eq
  have h2 : (lsb x >>> 2).toNat = 2^(58 - 2*k) := by
    have := shiftRight_lit_toNat (lsb x) 2 (by omega)
    rw [show (UInt64.ofNat 2 : UInt64) = 2 from rfl] at this
    rw [this, hl]
    interval_cases k <;> simp only [Nat.reducePow, Nat.reduceMul, Nat.reduceSub, Nat.reduceDiv]
  unfold childEnd
  simp only []
  rw [UInt64.toNat_add, UInt64.toNat_add, hl, h2]
  obtain ⟨_, hf, hlow⟩ := h
  interval_cases k <;> cell_omega

theorem IsCell.childEnd_eq {x : CellID} {k : Nat} (h : IsCell x k) (hk : k < 30) :
    childEnd x = next (child x 3) ∧
      (childEnd x).toNat = (next x).toNat - 2^(60 - 2*k) + 2^(58 - 2*k) := by
  constructor
  · apply UInt64.toNat_inj.mp
    rw [h.childEnd_toNat hk, (h.child_isCell hk (by omega)).next_toNat, h.child_toNat hk (by omega)]
    obtain ⟨_, hf, hlow⟩ := h
    interval_cases k <;> cell_omega
  · rw [h.childEnd_toNat hk, h.next_toNat]
    obtain ⟨_, hf, hlow⟩ := h
    interval_cases k <;> cell_omega

theorem IsCell.childAtLevel_succ {x : CellID} {k : Nat} (h : IsCell x k) (hk : k < 30) :
    childBeginAtLevel x (k+1) = childBegin x ∧ childEndAtLevel x (k+1) = childEnd x := by
  have e : 60 - 2*(k+1) = 58 - 2*k := by omega
  constructor
  · apply UInt64.toNat_inj.mp
    rw [h.childBeginAtLevel_toNat (k+1) (by omega) (by omega), childBegin_eq,
      h.child_toNat hk (by omega), e]
    omega
  · apply UInt64.toNat_inj.mp
    rw [h.childEndAtLevel_toNat (k+1) (by omega) (by omega), h.childEnd_toNat hk, e]

end S2Proofs
