/-
  S2Proofs.WrapFloat — the float arithmetic inside `cellIDFromFaceIJWrap`, for ALL arguments:
  * the (u,v) values `scale·float(2i+1−2^30)` are EXACT dyadics `w/2^30` (w odd), the clamp to ±nextafter(1,2)
    only acts on the two out-of-range indices −1 and 2^30;
  * dividing such a dyadic by ±1 is exact, dividing by ±(1+2^-52) is off by at most 2^-50 (faithful rounding,
    `F64Faithful`), and `stToIJ(0.5·(x+1))` recovers the cell index of any x within 2^-50 of a cell centre.
  No kernel evaluation over ranges of inputs: everything is for all i, j.
-/
import S2Proofs.F64Faithful
import S2Proofs.HilbertNeighbors
import S2Proofs.F64Inj

set_option linter.unusedSimpArgs false
set_option linter.unusedVariables false
set_option exponentiation.threshold 3000

namespace S2Proofs.WrapFloat
open S2 S2.Exact S2.STUV S2Proofs.Codec S2Proofs.F64Order S2Proofs.C12ST S2Proofs.F64Faithful

/-! ### abs -/

theorem abs_bits_toNat (x : F64) : (F64.abs x).bits.toNat = x.bits.toNat % 2 ^ 63 := by
  unfold F64.abs
  simp only [UInt64.toNat_and]
  have hm : (0x7FFFFFFFFFFFFFFF : UInt64).toNat = 2 ^ 63 - 1 := by decide
  rw [hm, Nat.and_two_pow_sub_one_eq_mod]

theorem expField_abs (x : F64) : (F64.abs x).expField = x.expField := by
  rw [C18.expField_eq, C18.expField_eq, abs_bits_toNat]
  have := x.bits.toNat_lt
  omega

theorem fracField_abs (x : F64) : (F64.abs x).fracField = x.fracField := by
  rw [C18.fracField_eq, C18.fracField_eq, abs_bits_toNat]
  omega

theorem signBit_abs (x : F64) : (F64.abs x).signBit = false := by
  rw [C18.signBit_eq, abs_bits_toNat]
  have : ¬ (2 ^ 63 ≤ x.bits.toNat % 2 ^ 63) := by omega
  exact decide_eq_false this

theorem fin_abs {x : F64} : F64Order.Fin (F64.abs x) ↔ F64Order.Fin x := by
  unfold F64Order.Fin; rw [expField_abs]

theorem amag_abs (x : F64) : amag (F64.abs x) = amag x := by
  rw [amag_eq, amag_eq]
  unfold F64.mant F64.expo
  rw [expField_abs, fracField_abs]

theorem toInt_abs (x : F64) : toInt (F64.abs x) = (amag x : Int) := by
  rw [toInt_eq_amag, signBit_abs, amag_abs]; rfl

theorem abs_neg (x : F64) : F64.abs (F64.neg x) = F64.abs x := by
  apply S2Proofs.F64Inj.bits_eq_of_fields
  · rw [signBit_abs, signBit_abs]
  · rw [expField_abs, expField_abs, C18.expField_neg]
  · rw [fracField_abs, fracField_abs, C18.fracField_neg]

/-- comparison of absolute values = comparison of magnitudes -/
theorem gt_abs (a b : F64) (ha : F64Order.Fin a) (hb : F64Order.Fin b) :
    F64.gt (F64.abs a) (F64.abs b) = decide (amag b < amag a) := by
  have h := gt_iff (fin_abs.2 ha) (fin_abs.2 hb)
  rw [toInt_abs, toInt_abs] at h
  by_cases hc : amag b < amag a
  · rw [decide_eq_true hc]; exact h.2 (by exact_mod_cast hc)
  · rw [decide_eq_false hc]
    cases hg : F64.gt (F64.abs a) (F64.abs b)
    · rfl
    · exact absurd (by exact_mod_cast h.1 hg) hc

/-- sign test against +0 -/
theorem lt_zero (a : F64) (ha : F64Order.Fin a) (hz : 0 < amag a) :
    F64.lt a (F64.zero false) = a.signBit := by
  have h := lt_iff ha Fin_zero
  rw [toInt_zero, toInt_eq_amag] at h
  cases hs : a.signBit
  · simp only [hs, Bool.false_eq_true, if_false] at h
    cases hl : F64.lt a (F64.zero false)
    · rfl
    · have := h.1 hl; omega
  · simp only [hs, if_true] at h
    exact h.2 (by omega)

/-! ### constants (unit `K = 2^1022`, i.e. 2^-52) -/

def limit : F64 := ⟨0x3FF0000000000001⟩   -- math.Nextafter(1, 2)
def scale : F64 := ⟨0x3E10000000000000⟩   -- 2^-30

theorem one_facts : F64Order.Fin F64.one ∧ F64.one.signBit = false ∧ amag F64.one = 2 ^ 52 * 2 ^ 1022 := by
  decide +kernel
theorem limit_facts : F64Order.Fin limit ∧ limit.signBit = false ∧ amag limit = (2 ^ 52 + 1) * 2 ^ 1022 := by
  decide +kernel
theorem scale_facts : F64Order.Fin scale ∧ scale.signBit = false ∧ amag scale = 2 ^ 22 * 2 ^ 1022 ∧
    scale.isZero = false := by
  decide +kernel
theorem half_facts : F64Order.Fin F64.half ∧ F64.half.signBit = false ∧ amag F64.half = 2 ^ 51 * 2 ^ 1022 ∧
    F64.half.isZero = false := by
  decide +kernel
theorem pow1074 : (2:Nat) ^ 1074 = 2 ^ 52 * 2 ^ 1022 := by rw [← Nat.pow_add]

/-- `a` is the exact dyadic `w / 2^30` -/
def Exact (a : F64) (w : Int) : Prop :=
  F64Order.Fin a ∧ a.signBit = decide (w < 0) ∧ amag a = w.natAbs * (2 ^ 22 * 2 ^ 1022)

/-- `x` has the sign of `w` and `|w|/2^30 − 2^-50 ≤ |x| ≤ |w|/2^30` -/
def Near (x : F64) (w : Int) : Prop :=
  F64Order.Fin x ∧ x.signBit = decide (w < 0) ∧
    w.natAbs * (2 ^ 22 * 2 ^ 1022) ≤ amag x + 4 * 2 ^ 1022 ∧ amag x ≤ w.natAbs * (2 ^ 22 * 2 ^ 1022)

/-- odd numerators of cell centres: `w = 2i + 1 − 2^30`, `0 ≤ i < 2^30` -/
def OddW (w : Int) : Prop := w % 2 = 1 ∧ -1073741824 < w ∧ w < 1073741824

theorem Exact.near {a : F64} {w : Int} (h : Exact a w) : Near a w :=
  ⟨h.1, h.2.1, by rw [h.2.2]; omega, by rw [h.2.2]⟩

theorem Exact.neg {a : F64} {w : Int} (h : Exact a w) (hw : w ≠ 0) : Exact (F64.neg a) (-w) := by
  refine ⟨fin_neg.2 h.1, ?_, ?_⟩
  · rw [C18.signBit_neg, h.2.1]
    by_cases hc : w < 0
    · rw [decide_eq_true hc, decide_eq_false (by omega)]; rfl
    · rw [decide_eq_false hc, decide_eq_true (by omega)]; rfl
  · rw [amag_neg, h.2.2, Int.natAbs_neg]

/-- `float64(w)` for a small non-zero integer -/
theorem ofInt_spec (w : Int) (hw : w ≠ 0) (hb : w.natAbs < 2 ^ 51) :
    F64Order.Fin (F64.ofInt w) ∧ (F64.ofInt w).signBit = decide (w < 0) ∧
      amag (F64.ofInt w) = w.natAbs * 2 ^ 1074 := by
  unfold F64.ofInt
  have h0 : (w == 0) = false := by simpa using hw
  simp only [h0, Bool.false_eq_true, if_false]
  obtain ⟨f1, f2, f3, f4⟩ := roundNE_faithful_s (decide (w < 0)) w.natAbs 1 (by omega) (by decide) (by omega)
  have hR : F64Faithful.Repr (w.natAbs * 2 ^ 1074) := repr_mul_pow _ (by omega)
  have l := f3 _ hR (by omega)
  have u := f4 _ hR (by omega)
  exact ⟨f1, f2, by omega⟩

/-- the value handed to `faceUVToXYZ` for the index `i` (already clamped to [-1, 2^30]) -/
def uc (i : Int) : F64 :=
  F64.fmax (-limit) (F64.fmin limit (scale * F64.ofInt (2 * i + 1 - 1073741824)))

theorem uc_low : uc (-1) = F64.neg limit := by decide +kernel
theorem uc_high : uc 1073741824 = limit := by decide +kernel

theorem isZero_of_exact {a : F64} {w : Int} (h : Exact a w) (hw : w ≠ 0) : a.isZero = false := by
  apply isZero_of_amag_pos
  rw [h.2.2]
  exact Nat.mul_pos (by omega) (Nat.mul_pos (by decide) (Nat.two_pow_pos _))

/-- the clamp does nothing below 1 in magnitude -/
theorem clamp_id (y : F64) (hy : F64Order.Fin y) (hz : y.isZero = false) (hlt : amag y < 2 ^ 52 * 2 ^ 1022) :
    F64.fmax (-limit) (F64.fmin limit y) = y := by
  obtain ⟨lf, ls, la⟩ := limit_facts
  have hK : 0 < (2:Nat) ^ 1022 := Nat.two_pow_pos _
  have tl : toInt limit = ((2 ^ 52 + 1) * 2 ^ 1022 : Nat) := by
    rw [toInt_eq_amag, ls, la]; rfl
  have tn : toInt (F64.neg limit) = -(((2 ^ 52 + 1) * 2 ^ 1022 : Nat) : Int) := by
    rw [toInt_neg, tl]
  have ty : -((amag y : Nat) : Int) ≤ toInt y ∧ toInt y ≤ (amag y : Nat) := by
    rw [toInt_eq_amag]; split <;> omega
  have h1 : F64.lt limit y = false := by
    cases h : F64.lt limit y
    · rfl
    · have := (lt_iff lf hy).1 h
      rw [tl] at this
      generalize (2:Nat) ^ 1022 = K at *
      push_cast at this
      omega
  have h2 : F64.gt (F64.neg limit) y = false := by
    cases h : F64.gt (F64.neg limit) y
    · rfl
    · have := (gt_iff (fin_neg.2 lf) hy).1 h
      rw [tn] at this
      generalize (2:Nat) ^ 1022 = K at *
      push_cast at this
      omega
  have e1 : F64.fmin limit y = y := by
    unfold F64.fmin
    have a1 : limit.isInf = false := by decide
    have a2 : limit.isNaN = false := by decide
    have a3 : limit.isZero = false := by decide
    simp only [a1, a2, a3, isInf_false hy, isNaN_false hy, h1, Bool.false_and, Bool.or_self,
      Bool.false_eq_true, if_false]
  have hn : (-limit : F64) = F64.neg limit := rfl
  rw [e1, hn]
  unfold F64.fmax
  have a1 : (F64.neg limit).isInf = false := by decide
  have a2 : (F64.neg limit).isNaN = false := by decide
  have a3 : (F64.neg limit).isZero = false := by decide
  simp only [a1, a2, a3, isInf_false hy, isNaN_false hy, h2, Bool.false_and, Bool.or_self,
    Bool.false_eq_true, if_false]

/-- in-range indices give the exact cell-centre dyadic `(2i+1−2^30)/2^30` -/
theorem uc_exact (i : Int) (h0 : 0 ≤ i) (h1 : i < 1073741824) : Exact (uc i) (2 * i + 1 - 1073741824) := by
  obtain ⟨sf, ss, sa, sz⟩ := scale_facts
  have hw : (2 * i + 1 - 1073741824 : Int) ≠ 0 := by omega
  generalize hwdef : (2 * i + 1 - 1073741824 : Int) = w at *
  have hb : w.natAbs < 2 ^ 30 := by omega
  obtain ⟨o1, o2, o3⟩ := ofInt_spec w hw (by omega)
  have oz : (F64.ofInt w).isZero = false := isZero_of_amag_pos (by rw [o3]; exact Nat.mul_pos (by omega) (Nat.two_pow_pos _))
  have hK : 0 < (2:Nat) ^ 1022 := Nat.two_pow_pos _
  have hprod : amag scale * amag (F64.ofInt w) = w.natAbs * (2 ^ 22 * 2 ^ 1022) * 2 ^ 1074 := by
    rw [sa, o3]; ring
  obtain ⟨m1, m2, m3, m4⟩ := mul_spec scale (F64.ofInt w) sf o1 sz oz (by
    rw [hprod, pow1074]
    generalize (2:Nat) ^ 1022 = K at *
    have : w.natAbs * (2 ^ 22 * K) * (2 ^ 52 * K) = (w.natAbs * 2 ^ 74) * (K * K) := by ring
    rw [this]
    have : 2 ^ 51 * (2 ^ 52 * K * (2 ^ 52 * K)) = 2 ^ 155 * (K * K) := by ring
    rw [this]
    exact Nat.mul_lt_mul_of_pos_right (by omega) (Nat.mul_pos hK hK))
  have hR : F64Faithful.Repr (w.natAbs * (2 ^ 22 * 2 ^ 1022)) := by
    rw [← Nat.mul_assoc]; exact repr_mul_pow _ (by omega)
  have l := m3 _ hR (by rw [hprod])
  have u := m4 _ hR (by rw [hprod])
  have hy : Exact (scale * F64.ofInt w) w := ⟨m1, by rw [m2, ss, o2]; simp, by omega⟩
  unfold uc
  rw [hwdef, clamp_id _ m1 (isZero_of_exact hy hw) (by
    rw [hy.2.2]
    generalize (2:Nat) ^ 1022 = K at *
    have : w.natAbs * (2 ^ 22 * K) = (w.natAbs * 2 ^ 22) * K := by ring
    rw [this]
    exact Nat.mul_lt_mul_of_pos_right (by omega) hK)]
  exact hy

/-! ### division by ±1 and ±nextafter(1,2) -/

theorem oddW_ne {w : Int} (hw : OddW w) : w ≠ 0 := by unfold OddW at hw; omega
theorem oddW_neg {w : Int} (hw : OddW w) : OddW (-w) := by unfold OddW at *; omega

theorem near_div (a c : F64) (w : Int) (ha : Exact a w) (hw : OddW w)
    (hc : F64Order.Fin c) (hca : amag c = 2 ^ 52 * 2 ^ 1022 ∨ amag c = (2 ^ 52 + 1) * 2 ^ 1022) :
    Near (a / c) (if c.signBit then -w else w) := by
  have hw0 := oddW_ne hw
  have hK : 0 < (2:Nat) ^ 1022 := Nat.two_pow_pos _
  have hcz : c.isZero = false := isZero_of_amag_pos (by rcases hca with h | h <;> rw [h] <;> exact Nat.mul_pos (by decide) hK)
  have haz := isZero_of_exact ha hw0
  obtain ⟨af, as, aa⟩ := ha
  have hwb : 1 ≤ w.natAbs ∧ w.natAbs < 2 ^ 30 := by unfold OddW at hw; omega
  -- the two possible divisors: C·K with C = 2^52 or 2^52+1
  obtain ⟨C, hC1, hC2, hcC⟩ : ∃ C, 2 ^ 52 ≤ C ∧ C ≤ 2 ^ 52 + 1 ∧ amag c = C * 2 ^ 1022 := by
    rcases hca with h | h
    · exact ⟨2 ^ 52, by decide, by decide, h⟩
    · exact ⟨2 ^ 52 + 1, by decide, by decide, h⟩
  have key := div_spec a c af hc haz hcz
  rw [aa, hcC, pow1074] at key
  have hna : (if c.signBit = true then -w else w).natAbs = w.natAbs := by split <;> simp
  unfold Near
  rw [hna]
  have hR : ∀ c, c < 2 ^ 53 → F64Faithful.Repr (c * 2 ^ 1022) := fun c hc => ⟨c, 1022, rfl, hc⟩
  generalize (2:Nat) ^ 1022 = K at *
  generalize hZ : w.natAbs * K = Z at *
  have hZ1 : K ≤ Z := by rw [← hZ]; exact Nat.le_mul_of_pos_left K (by omega)
  have hZ2 : Z < 2 ^ 30 * K := by rw [← hZ]; exact Nat.mul_lt_mul_of_pos_right hwb.2 hK
  have e1 : w.natAbs * (2 ^ 22 * K) = 2 ^ 22 * Z := by rw [← hZ]; ring
  have e2 : (2 ^ 22 * w.natAbs - 4) * K = 2 ^ 22 * Z - 4 * K := by
    rw [Nat.sub_mul, ← hZ]; congr 1; ring
  have e3 : (2 ^ 22 * w.natAbs) * K = 2 ^ 22 * Z := by rw [← hZ]; ring
  rw [e1] at key aa ⊢
  obtain ⟨d1, d2, d3, d4⟩ := key (by
    have : 2 ^ 51 * (C * K) = (2 ^ 51 * C) * K := by ring
    rw [this]
    have : 2 ^ 22 * Z < 2 ^ 52 * K := by omega
    have : 2 ^ 52 * K ≤ 2 ^ 51 * C * K := Nat.mul_le_mul_right K (by omega)
    omega)
  have l := d3 _ (hR (2 ^ 22 * w.natAbs - 4) (by omega)) (by
    rw [e2]
    have h1 : (2 ^ 22 * Z - 4 * K) * (C * K) = ((2 ^ 22 * Z - 4 * K) * C) * K := by ring
    have h2 : 2 ^ 22 * Z * (2 ^ 52 * K) = (2 ^ 22 * Z * 2 ^ 52) * K := by ring
    rw [h1, h2]
    apply Nat.mul_le_mul_right
    have h3 : (2 ^ 22 * Z - 4 * K) * C ≤ (2 ^ 22 * Z - 4 * K) * (2 ^ 52 + 1) := Nat.mul_le_mul_left _ hC2
    have h4 : 2 ^ 22 * Z - 4 * K + 4 * K = 2 ^ 22 * Z := by omega
    generalize 2 ^ 22 * Z - 4 * K = T at *
    generalize T * C = X at *
    rw [Nat.mul_comm T] at h3
    rw [Nat.mul_comm _ (2 ^ 52)]
    omega)
  have u := d4 _ (hR (2 ^ 22 * w.natAbs) (by omega)) (by
    rw [e3]
    have h1 : 2 ^ 22 * Z * (C * K) = (2 ^ 22 * Z * C) * K := by ring
    have h2 : 2 ^ 22 * Z * (2 ^ 52 * K) = (2 ^ 22 * Z * 2 ^ 52) * K := by ring
    rw [h1, h2]
    apply Nat.mul_le_mul_right
    exact Nat.mul_le_mul_left _ hC1)
  rw [e2] at l
  rw [e3] at u
  refine ⟨d1, ?_, by omega, u⟩
  rw [d2, as]
  cases c.signBit
  · simp
  · by_cases hc : w < 0
    · rw [decide_eq_true hc]; simp; omega
    · rw [decide_eq_false hc]; simp; omega

/-! ### from a (u,v) value back to the cell index -/

theorem pow1044_int : (2:Int) ^ 1044 = ((2 ^ 22 * 2 ^ 1022 : Nat) : Int) := by
  rw [← Nat.pow_add]; norm_cast
theorem pow1075_nat : (2:Nat) ^ 1075 = 2 ^ 53 * 2 ^ 1022 := by rw [← Nat.pow_add]

/-- `stToIJ(0.5·(x+1))` of a value within 2^-50 (towards zero) of the cell centre `w/2^30` is the cell index -/
theorem coord_spec (x : F64) (w : Int) (hx : Near x w) (hw : OddW w) :
    stToIJ (F64.half * (x + F64.one)) = (w + 1073741823) / 2 := by
  obtain ⟨xf, xs, xl, xu⟩ := hx
  obtain ⟨of1, os, oa⟩ := one_facts
  obtain ⟨hf, hs, ha, hz⟩ := half_facts
  have hR : ∀ c, c < 2 ^ 53 → F64Faithful.Repr (c * 2 ^ 1022) := fun c hc => ⟨c, 1022, rfl, hc⟩
  obtain ⟨m, hm, hm2⟩ : ∃ m : Nat, w = 2 * (m:Int) + 1 - 1073741824 ∧ m < 1073741824 := by
    unfold OddW at hw
    exact ⟨((w + 1073741823) / 2).toNat, by omega, by omega⟩
  have hres : (w + 1073741823) / 2 = (m : Int) := by omega
  rw [hres]
  have t1 : toInt F64.one = ((2 ^ 52 * 2 ^ 1022 : Nat) : Int) := by rw [toInt_eq_amag, os, oa]; rfl
  have tx := toInt_eq_amag x
  rw [xs] at tx
  obtain ⟨gf0, gt0⟩ := ijToSTMin_fin_toInt m (by omega)
  obtain ⟨gf1, gt1⟩ := ijToSTMin_fin_toInt (m + 1) (by omega)
  rw [pow1044_int] at gt0 gt1
  have t2 := toInt_two
  rw [pow1075_nat] at t2
  have hK : 0 < (2:Nat) ^ 1022 := Nat.two_pow_pos _
  have key1 := add_spec x F64.one xf of1
  rw [t1] at key1
  have key2 := mul_spec F64.half (x + F64.one) hf
  rw [ha, pow1074] at key2
  rw [pow1074] at key1
  generalize (2:Nat) ^ 1022 = K at *
  generalize hY : m * K = Y at *
  have hY2 : Y < 2 ^ 30 * K := by rw [← hY]; exact Nat.mul_lt_mul_of_pos_right hm2 hK
  have eZ : (w.natAbs : Int) * (K : Int) = if w < 0 then (2 ^ 30 * K - 2 * Y - K : Int) else (2 * Y + K - 2 ^ 30 * K : Int) := by
    have hYi : (m : Int) * (K : Int) = (Y : Int) := by exact_mod_cast hY
    split
    · rename_i h
      have : (w.natAbs : Int) = 1073741824 - 2 * (m:Int) - 1 := by omega
      rw [this, ← hYi]; ring
    · rename_i h
      have : (w.natAbs : Int) = 2 * (m:Int) + 1 - 1073741824 := by omega
      rw [this, ← hYi]; ring
  generalize hZ : w.natAbs * K = Z at *
  have e1 : w.natAbs * (2 ^ 22 * K) = 2 ^ 22 * Z := by rw [← hZ]; ring
  rw [e1] at xl xu
  have hZi : (w.natAbs : Int) * (K : Int) = (Z : Int) := by exact_mod_cast hZ
  rw [hZi] at eZ
  -- the sum x + 1
  have hSb : (2 ^ 22 * (2 * Y + K) : Int) - 4 * K ≤ toInt x + ((2 ^ 52 * K : Nat) : Int) ∧
      toInt x + ((2 ^ 52 * K : Nat) : Int) ≤ (2 ^ 22 * (2 * Y + K) : Int) + 4 * K := by
    rw [tx]
    by_cases hneg : w < 0
    · rw [if_pos hneg] at eZ
      rw [decide_eq_true hneg]
      simp only [if_true]
      push_cast
      omega
    · rw [if_neg hneg] at eZ
      rw [decide_eq_false hneg]
      simp only [Bool.false_eq_true, if_false]
      push_cast
      omega
  generalize hS : toInt x + ((2 ^ 52 * K : Nat) : Int) = S at *
  have e3 : (2 ^ 22 * (2 * m + 1) - 4) * K = 2 ^ 22 * (2 * Y + K) - 4 * K := by
    rw [Nat.sub_mul, ← hY]; congr 1; ring
  have e4 : (2 ^ 22 * (2 * m + 1) + 4) * K = 2 ^ 22 * (2 * Y + K) + 4 * K := by
    rw [← hY]; ring
  obtain ⟨a1, a2, a3, a4⟩ := key1 (by omega) (by
    have : 2 ^ 51 * (2 ^ 52 * K) = 2 ^ 103 * K := by ring
    rw [this]; omega)
  have al := a3 _ (hR (2 ^ 22 * (2 * m + 1) - 4) (by omega)) (by rw [e3]; omega)
  have au := a4 _ (hR (2 ^ 22 * (2 * m + 1) + 4) (by omega)) (by rw [e4]; omega)
  rw [e3] at al
  rw [e4] at au
  have a2' : (x + F64.one).signBit = false := by rw [a2]; exact decide_eq_false (by omega)
  have rz : (x + F64.one).isZero = false := isZero_of_amag_pos (by omega)
  generalize hA1 : amag (x + F64.one) = A1 at *
  -- the product 0.5 · (x + 1)
  have e5 : (2 ^ 21 * (2 * m + 1) - 2) * K = 2 ^ 21 * (2 * Y + K) - 2 * K := by
    rw [Nat.sub_mul, ← hY]; congr 1; ring
  have e6 : (2 ^ 21 * (2 * m + 1) + 2) * K = 2 ^ 21 * (2 * Y + K) + 2 * K := by
    rw [← hY]; ring
  obtain ⟨b1, b2, b3, b4⟩ := key2 a1 hz rz (by
    have h1 : 2 ^ 51 * K * A1 = (2 ^ 51 * A1) * K := by ring
    have h2 : 2 ^ 51 * (2 ^ 52 * K * (2 ^ 52 * K)) = (2 ^ 155 * K) * K := by ring
    rw [h1, h2]
    exact Nat.mul_lt_mul_of_pos_right (by omega) hK)
  have bl := b3 _ (hR (2 ^ 21 * (2 * m + 1) - 2) (by omega)) (by
    rw [e5]
    have h1 : (2 ^ 21 * (2 * Y + K) - 2 * K) * (2 ^ 52 * K) = (2 ^ 52 * (2 ^ 21 * (2 * Y + K) - 2 * K)) * K := by ring
    have h2 : 2 ^ 51 * K * A1 = (2 ^ 51 * A1) * K := by ring
    rw [h1, h2]
    exact Nat.mul_le_mul_right _ (by omega))
  have bu := b4 _ (hR (2 ^ 21 * (2 * m + 1) + 2) (by omega)) (by
    rw [e6]
    have h1 : (2 ^ 21 * (2 * Y + K) + 2 * K) * (2 ^ 52 * K) = (2 ^ 52 * (2 ^ 21 * (2 * Y + K) + 2 * K)) * K := by ring
    have h2 : 2 ^ 51 * K * A1 = (2 ^ 51 * A1) * K := by ring
    rw [h1, h2]
    exact Nat.mul_le_mul_right _ (by omega))
  rw [e5] at bl
  rw [e6] at bu
  have b2' : (F64.half * (x + F64.one)).signBit = false := by rw [b2, hs, a2']; rfl
  have ts := toInt_eq_amag (F64.half * (x + F64.one))
  rw [b2'] at ts
  simp only [Bool.false_eq_true, if_false] at ts
  generalize F64.half * (x + F64.one) = sv at *
  have hfin : sv.isFinite = true := isFinite_of_fin b1
  have hle2 : F64.le sv F64.two = true := by
    rw [le_iff b1 Fin_two, ts, t2]; push_cast; omega
  have hYi : (m : Int) * ((2 ^ 22 * K : Nat) : Int) = ((2 ^ 22 * Y : Nat) : Int) := by
    rw [← hY]; push_cast; ring
  have hYi1 : ((m + 1 : Nat) : Int) * ((2 ^ 22 * K : Nat) : Int) = ((2 ^ 22 * Y + 2 ^ 22 * K : Nat) : Int) := by
    rw [← hY]; push_cast; ring
  rw [hYi] at gt0
  rw [hYi1] at gt1
  have c0 : F64.le (ijToSTMin (m : Int)) sv = true := by
    rw [le_iff gf0 b1, gt0, ts]; push_cast; omega
  have c1 : F64.lt sv (ijToSTMin ((m + 1 : Nat) : Int)) = true := by
    rw [lt_iff b1 gf1, gt1, ts]; push_cast; omega
  have hrange := stToIJ_range sv
  by_cases hm0 : m = 0
  · subst hm0
    have := (stToIJ_lt_iff sv hfin hle2 1 (by omega) (by omega)).2 c1
    omega
  · by_cases hmM : m = 1073741823
    · subst hmM
      have := (stToIJ_ge_iff_of_le_two sv hfin hle2 1073741823 (by omega) (by omega)).2 c0
      omega
    · exact (stToIJ_eq_iff sv hfin hle2 m (by omega) (by omega)).2 ⟨c0, c1⟩

/-! ### the face computation `xyzToFaceUV (faceUVToXYZ f u v)` -/

theorem wrapIJ_eq (f : Nat) (i j : Int) : wrapIJ f i j =
    ((xyzToFaceUV (faceUVToXYZ f (uc (clampInt i (-1) 1073741824)) (uc (clampInt j (-1) 1073741824)))).1,
     (stToIJ (F64.half * ((xyzToFaceUV (faceUVToXYZ f (uc (clampInt i (-1) 1073741824))
        (uc (clampInt j (-1) 1073741824)))).2.1 + F64.one))).toNat,
     (stToIJ (F64.half * ((xyzToFaceUV (faceUVToXYZ f (uc (clampInt i (-1) 1073741824))
        (uc (clampInt j (-1) 1073741824)))).2.2 + F64.one))).toNat) := rfl

theorem neg_def (x : F64) : -x = F64.neg x := rfl

/-- comparisons of a cell-centre value with 1 and nextafter(1,2) -/
theorem cmp_facts {a : F64} {w : Int} (ha : Exact a w) (hw : OddW w) :
    F64.gt (F64.abs F64.one) (F64.abs a) = true ∧ F64.gt (F64.abs a) (F64.abs F64.one) = false ∧
    F64.gt (F64.abs limit) (F64.abs a) = true ∧ F64.gt (F64.abs a) (F64.abs limit) = false := by
  obtain ⟨of1, _, oa⟩ := one_facts
  obtain ⟨lf, _, la⟩ := limit_facts
  obtain ⟨af, _, aa⟩ := ha
  have hwb : w.natAbs < 2 ^ 30 := by unfold OddW at hw; omega
  have hK : 0 < (2:Nat) ^ 1022 := Nat.two_pow_pos _
  rw [gt_abs _ _ of1 af, gt_abs _ _ af of1, gt_abs _ _ lf af, gt_abs _ _ af lf, oa, la, aa]
  generalize (2:Nat) ^ 1022 = K at *
  have h : w.natAbs * (2 ^ 22 * K) < 2 ^ 52 * K := by
    have : w.natAbs * (2 ^ 22 * K) = (w.natAbs * 2 ^ 22) * K := by ring
    rw [this]; exact Nat.mul_lt_mul_of_pos_right (by omega) hK
  refine ⟨decide_eq_true h, decide_eq_false (by omega), decide_eq_true (by omega), decide_eq_false (by omega)⟩

theorem const_cmp : F64.gt (F64.abs limit) (F64.abs F64.one) = true ∧
    F64.gt (F64.abs F64.one) (F64.abs limit) = false ∧
    F64.lt F64.one (F64.zero false) = false ∧ F64.lt (F64.neg F64.one) (F64.zero false) = true ∧
    F64.lt limit (F64.zero false) = false ∧ F64.lt (F64.neg limit) (F64.zero false) = true := by
  decide +kernel

/-- the four constant coordinates ±1 / ±nextafter(1,2) land in the first resp. last cell -/
theorem const_coord :
    stToIJ (F64.half * (F64.neg F64.one / limit + F64.one)) = 0 ∧
    stToIJ (F64.half * (F64.one / limit + F64.one)) = 1073741823 ∧
    stToIJ (F64.half * (F64.neg F64.one / F64.neg limit + F64.one)) = 1073741823 ∧
    stToIJ (F64.half * (F64.one / F64.neg limit + F64.one)) = 0 := by
  decide +kernel

theorem coord_div (a c : F64) (w : Int) (ha : Exact a w) (hw : OddW w)
    (hc : F64Order.Fin c) (hca : amag c = 2 ^ 52 * 2 ^ 1022 ∨ amag c = (2 ^ 52 + 1) * 2 ^ 1022) :
    stToIJ (F64.half * (a / c + F64.one)) = ((if c.signBit then -w else w) + 1073741823) / 2 := by
  apply coord_spec _ _ (near_div a c w ha hw hc hca)
  split
  · exact oddW_neg hw
  · exact hw

theorem divisor_facts :
    (F64Order.Fin F64.one ∧ amag F64.one = 2 ^ 52 * 2 ^ 1022 ∧ F64.one.signBit = false) ∧
    (F64Order.Fin (F64.neg F64.one) ∧ amag (F64.neg F64.one) = 2 ^ 52 * 2 ^ 1022 ∧ (F64.neg F64.one).signBit = true) ∧
    (F64Order.Fin limit ∧ amag limit = (2 ^ 52 + 1) * 2 ^ 1022 ∧ limit.signBit = false) ∧
    (F64Order.Fin (F64.neg limit) ∧ amag (F64.neg limit) = (2 ^ 52 + 1) * 2 ^ 1022 ∧ (F64.neg limit).signBit = true) := by
  decide +kernel

/-- all eight ways a cell-centre value `a = w/2^30` is divided in `validFaceXYZToUV` -/
theorem coord_facts (a : F64) (w : Int) (ha : Exact a w) (hw : OddW w) :
    stToIJ (F64.half * (a / F64.one + F64.one)) = (w + 1073741823) / 2 ∧
    stToIJ (F64.half * (a / F64.neg F64.one + F64.one)) = (-w + 1073741823) / 2 ∧
    stToIJ (F64.half * (a / limit + F64.one)) = (w + 1073741823) / 2 ∧
    stToIJ (F64.half * (a / F64.neg limit + F64.one)) = (-w + 1073741823) / 2 ∧
    stToIJ (F64.half * (F64.neg a / F64.one + F64.one)) = (-w + 1073741823) / 2 ∧
    stToIJ (F64.half * (F64.neg a / F64.neg F64.one + F64.one)) = (w + 1073741823) / 2 ∧
    stToIJ (F64.half * (F64.neg a / limit + F64.one)) = (-w + 1073741823) / 2 ∧
    stToIJ (F64.half * (F64.neg a / F64.neg limit + F64.one)) = (w + 1073741823) / 2 := by
  obtain ⟨⟨p1, p2, p3⟩, ⟨q1, q2, q3⟩, ⟨r1, r2, r3⟩, ⟨s1, s2, s3⟩⟩ := divisor_facts
  have hn := ha.neg (oddW_ne hw)
  have hwn := oddW_neg hw
  have k1 := coord_div a _ w ha hw p1 (Or.inl p2)
  have k2 := coord_div a _ w ha hw q1 (Or.inl q2)
  have k3 := coord_div a _ w ha hw r1 (Or.inr r2)
  have k4 := coord_div a _ w ha hw s1 (Or.inr s2)
  have k5 := coord_div _ _ (-w) hn hwn p1 (Or.inl p2)
  have k6 := coord_div _ _ (-w) hn hwn q1 (Or.inl q2)
  have k7 := coord_div _ _ (-w) hn hwn r1 (Or.inr r2)
  have k8 := coord_div _ _ (-w) hn hwn s1 (Or.inr s2)
  rw [p3] at k1 k5
  rw [q3] at k2 k6
  rw [r3] at k3 k7
  rw [s3] at k4 k8
  simp only [Bool.false_eq_true, if_false, if_true, Int.neg_neg] at k1 k2 k3 k4 k5 k6 k7 k8
  exact ⟨k1, k2, k3, k4, k5, k6, k7, k8⟩

end S2Proofs.WrapFloat
