/-
  S2Proofs.C16Occw — the remaining hypothesis `OccwSym` of the collinear branch (S2Proofs.C16Kernel), reduced to primitive
  decidable facts through the UNCONDITIONAL soundness of the float filters of `RobustSign` (C02: `triageSign_sound_normLe`,
  `stableSign_sound_normLe`: `RobustSign` = exact + symbolic decision on finite points with squared norm ≤ 1 + 2^-16):

    the four vertices have squared norm ≤ 1 + 2^-16 (`NormLe`; implied by `UnitPt`),  and
    none of the five exact determinants  det(b0,n,a1), det(a0,n,b0), det(a1,n,a0), det(b1,n,a1), det(a0,n,b1)  vanishes
    (n = the rounded normalised exact normal of edge a)                                    ⟹  OccwSym a0 a1 b0 b1.

  That the rounded normals `±n` themselves satisfy `NormLe` is PROVED (S2Proofs.C16Normalize.toVector_normLe, error analysis of
  `Vector.Normalize`).  A vanishing determinant means two of the vertices are PARALLEL as exact vectors; then `RobustSign` is decided
  by the symbolic perturbation, which is not odd in the normal — that is the counterexample `occwSym_necessary` of
  Properties/C16_Sym.lean.
-/
import S2Proofs.C16Kernel
import S2Proofs.C16Normalize
import S2Proofs.Properties.C02_StableError

set_option linter.unusedSimpArgs false
set_option linter.unusedVariables false

namespace S2Proofs.C16K
open S2 S2.Exact S2.EdgeNum S2.Pred S2Proofs.F64Order S2Proofs.F64Sym S2Proofs.F64Sym2 S2Proofs.PredLemmas
open S2Proofs.C02Err S2Proofs.FloatErr

theorem toInt_of_Z {x y : F64} (h : Z x y) (hx : Fin x) : toInt x = toInt y := by
  rcases Z_iff.mp h with rfl | ⟨h1, h2⟩ | ⟨h1, _⟩
  · rfl
  · rw [(S2Proofs.EdgeNumLemmas.isZero_fin h1).2, (S2Proofs.EdgeNumLemmas.isZero_fin h2).2]
  · rw [isNaN_false hx] at h1; cases h1

/-- a vector that is the negation (up to zero signs) of another one has the negated exact vector -/
theorem ofV3_of_R3 {u' u : V3} (h : R3 u' u) (hu' : Fin3 u') : ofV3 u' = (ofV3 u).neg := by
  unfold ofV3 IV3.neg
  simp only [IV3.mk.injEq]
  refine ⟨?_, ?_, ?_⟩
  · rw [toInt_of_Z h.1 hu'.1]; exact S2Proofs.F64Sym2.toInt_neg _
  · rw [toInt_of_Z h.2.1 hu'.2.1]; exact S2Proofs.F64Sym2.toInt_neg _
  · rw [toInt_of_Z h.2.2 hu'.2.2]; exact S2Proofs.F64Sym2.toInt_neg _

theorem det3_neg_mid (a n c : IV3) : det3 a n.neg c = - det3 a n c := by
  simp only [det3, IV3.dot, IV3.cross, IV3.neg]; ring

/-- `RobustSign` IS the exact + symbolic decision on finite points with squared norm ≤ 1 + 2^-16 (both float filters are sound
    there; no lower bound on the norms is needed) -/
theorem robustSign_exact_normLe (a b c : V3) (ha : NormLe a) (hb : NormLe b) (hc : NormLe c) :
    robustSign a b c = exactDecision a b c :=
  S2Proofs.C02.robustSign_given_error_bounds a b c ha.1 hb.1 hc.1
    (S2Proofs.C02Err.triageSign_sound_normLe a b c ha hb hc) (S2Proofs.C02StableErr.stableSign_sound_normLe a b c ha hb hc)

/-- `RobustSign(x, −n, y) = RobustSign(y, n, x)` for such points in general position -/
theorem robustSign_rev {x y n n' : V3} (hx : NormLe x) (hy : NormLe y) (hn : NormLe n) (hn' : NormLe n')
    (hR : R3 n' n) (hdet : det3 (ofV3 x) (ofV3 n) (ofV3 y) ≠ 0) : robustSign x n' y = robustSign y n x := by
  rw [robustSign_exact_normLe x n' y hx hn' hy, robustSign_exact_normLe y n x hy hn hx]
  have e1 : detSign x n' y = sgn (- det3 (ofV3 x) (ofV3 n) (ofV3 y)) := by
    unfold detSign; rw [ofV3_of_R3 hR hn'.1, det3_neg_mid]
  have e2 : detSign y n x = sgn (- det3 (ofV3 x) (ofV3 n) (ofV3 y)) := by
    unfold detSign; rw [det3_swap13]
  have hne : sgn (- det3 (ofV3 x) (ofV3 n) (ofV3 y)) ≠ 0 := by
    rw [Ne, sgn_eq_zero]; omega
  rw [S2Proofs.C02.exactDecision_of_det_ne x n' y hx.1 hn'.1 hy.1 (by rw [e1]; exact hne),
    S2Proofs.C02.exactDecision_of_det_ne y n x hy.1 hn.1 hx.1 (by rw [e2]; exact hne), e1, e2]

/-- `OrderedCCW(a1, b, a0, −n) = OrderedCCW(a0, b, a1, n)` for unit-ish points in general position -/
theorem orderedCCW_rev {a0 a1 b n n' : V3} (h0 : NormLe a0) (h1 : NormLe a1) (hb : NormLe b) (hn : NormLe n)
    (hn' : NormLe n') (hR : R3 n' n)
    (d1 : det3 (ofV3 b) (ofV3 n) (ofV3 a1) ≠ 0) (d2 : det3 (ofV3 a0) (ofV3 n) (ofV3 b) ≠ 0)
    (d3 : det3 (ofV3 a1) (ofV3 n) (ofV3 a0) ≠ 0) :
    orderedCCW a1 b a0 n' = orderedCCW a0 b a1 n := by
  unfold orderedCCW orderedCCWWith
  rw [robustSign_rev hb h1 hn hn' hR d1, robustSign_rev h0 hb hn hn' hR d2, robustSign_rev h1 h0 hn hn' hR d3]
  dsimp only
  rw [Nat.add_comm (if (robustSign a1 n b != -1) = true then 1 else 0)]

/-- **`OccwSym` from primitive facts**: vertices with squared norm ≤ 1 + 2^-16, no two of the vertices involved parallel
    (five exact determinants against the rounded normal are non-zero) -/
theorem occwSym_of_exact {a0 a1 b0 b1 : V3} (h0 : NormLe a0) (h1 : NormLe a1) (hb0 : NormLe b0) (hb1 : NormLe b1)
    (d1 : det3 (ofV3 b0) (ofV3 (nrmV a0 a1)) (ofV3 a1) ≠ 0) (d2 : det3 (ofV3 a0) (ofV3 (nrmV a0 a1)) (ofV3 b0) ≠ 0)
    (d3 : det3 (ofV3 a1) (ofV3 (nrmV a0 a1)) (ofV3 a0) ≠ 0)
    (d4 : det3 (ofV3 b1) (ofV3 (nrmV a0 a1)) (ofV3 a1) ≠ 0) (d5 : det3 (ofV3 a0) (ofV3 (nrmV a0 a1)) (ofV3 b1) ≠ 0) :
    OccwSym a0 a1 b0 b1 := by
  have hR : R3 (nrmV a1 a0) (nrmV a0 a1) := toVector_R3 _ _ (nrm_rev a0 a1)
  have hn : NormLe (nrmV a0 a1) := S2Proofs.C16N.toVector_normLe _ _
  have hn' : NormLe (nrmV a1 a0) := S2Proofs.C16N.toVector_normLe _ _
  exact ⟨orderedCCW_rev h0 h1 hb0 hn hn' hR d1 d2 d3, orderedCCW_rev h0 h1 hb1 hn hn' hR d4 d5 d3⟩

/-- a `UnitPt` (norm in `1 ± 2·dblEpsilon`) is unit-ish (squared norm in `1 ± 2^-16`) -/
theorem unitish_of_unitPt {p : V3} (h : S2Proofs.C16.UnitPt p) : Unitish p := by
  obtain ⟨hf, hlo, hhi⟩ := h
  refine ⟨hf, ?_⟩
  have hS : (0 : Int) ≤ (scale : Int) ^ 2 := sq_nonneg _
  show |(ofV3 p).norm2 - (scale : ℤ) ^ 2| * 2 ^ 16 ≤ (scale : ℤ) ^ 2
  generalize (ofV3 p).norm2 = N at *
  generalize ((scale : Nat) : Int) ^ 2 = S at *
  have c1 : ((10 : Int) ^ 31 + 4440892098500626) ^ 2 * 2 ^ 16 ≤ 10 ^ 62 * (2 ^ 16 + 1) := by norm_num
  have c2 : (10 : Int) ^ 62 * (2 ^ 16 - 1) ≤ ((10 : Int) ^ 31 - 4440892098500626) ^ 2 * 2 ^ 16 := by norm_num
  have u1 : N * 10 ^ 62 * 2 ^ 16 ≤ 10 ^ 62 * (2 ^ 16 + 1) * S := by
    calc N * 10 ^ 62 * 2 ^ 16 ≤ ((10 ^ 31 + 4440892098500626 : Int) ^ 2 * S) * 2 ^ 16 :=
          Int.mul_le_mul_of_nonneg_right hhi (by norm_num)
      _ = ((10 ^ 31 + 4440892098500626 : Int) ^ 2 * 2 ^ 16) * S := by ring
      _ ≤ 10 ^ 62 * (2 ^ 16 + 1) * S := Int.mul_le_mul_of_nonneg_right c1 hS
  have u2 : 10 ^ 62 * (2 ^ 16 - 1) * S ≤ N * 10 ^ 62 * 2 ^ 16 := by
    calc 10 ^ 62 * (2 ^ 16 - 1) * S ≤ ((10 ^ 31 - 4440892098500626 : Int) ^ 2 * 2 ^ 16) * S :=
          Int.mul_le_mul_of_nonneg_right c2 hS
      _ = ((10 ^ 31 - 4440892098500626 : Int) ^ 2 * S) * 2 ^ 16 := by ring
      _ ≤ N * 10 ^ 62 * 2 ^ 16 := Int.mul_le_mul_of_nonneg_right hlo (by norm_num)
  have v1 : N * 2 ^ 16 ≤ (2 ^ 16 + 1) * S := by
    have : (N * 2 ^ 16) * 10 ^ 62 ≤ ((2 ^ 16 + 1) * S) * 10 ^ 62 := by linarith
    exact Int.le_of_mul_le_mul_right this (by norm_num)
  have v2 : (2 ^ 16 - 1) * S ≤ N * 2 ^ 16 := by
    have : ((2 ^ 16 - 1) * S) * 10 ^ 62 ≤ (N * 2 ^ 16) * 10 ^ 62 := by linarith
    exact Int.le_of_mul_le_mul_right this (by norm_num)
  rcases abs_cases (N - S) with ⟨h, _⟩ | ⟨h, _⟩ <;> rw [h] <;> linarith

end S2Proofs.C16K
