/-
  S2Proofs.CellIDLemmas — bridge from the bit-level model `S2.CellID` (UInt64 words, the
  Go expressions verbatim) to arithmetic on `Nat`.

  `IsCell x k` says that the word `x` is a cell id of level `k` (face < 6, and the low
  `61-2k` bits are `1 0…0`).  For such words every method of the model is characterised
  by an arithmetic formula on `x.toNat`; all later reasoning (C01, C11, C05, C06, C08)
  is then linear arithmetic after a case split on the level.
-/
import S2.CellID
import S2Proofs.BitLemmas
import Mathlib.Tactic.IntervalCases
open S2 S2.CellID
namespace S2Proofs

/-- close arithmetic goals whose exponents became literals after `interval_cases` -/
macro "cell_omega" : tactic =>
  `(tactic| (simp only [Nat.reducePow, Nat.reduceMul, Nat.reduceSub, Nat.reduceAdd, Nat.reduceDiv] at * <;> omega))

/-- `x` is (the word of) a cell at level `k`. -/
structure IsCell (x : CellID) (k : Nat) : Prop where
  k_le : k ≤ 30
  face_lt : x.toNat < 6 * 2^61
  low : x.toNat % 2^(61 - 2*k) = 2^(60 - 2*k)

theorem one_toNat : (1:UInt64).toNat = 1 := rfl
theorem zero_toNat : (0:UInt64).toNat = 0 := rfl

theorem IsCell.ne_zero {x : CellID} {k : Nat} (h : IsCell x k) : x.toNat ≠ 0 := by
  obtain ⟨hk, hf, hlow⟩ := h
  intro h0; rw [h0] at hlow; simp at hlow
  have := Nat.two_pow_pos (60 - 2*k); omega

theorem IsCell.unique {x : CellID} {k j : Nat} (h : IsCell x k) (h' : IsCell x j) : k = j := by
  obtain ⟨hk, _, hlow⟩ := h
  obtain ⟨hj, _, hlow'⟩ := h'
  interval_cases k <;> interval_cases j <;> first | rfl | (exfalso; cell_omega)

theorem lsb_toNat (x : CellID) (hx : x.toNat ≠ 0) :
    (lsb x).toNat = x.toNat &&& (2^64 - x.toNat) := by
  unfold lsb
  rw [UInt64.toNat_and, UInt64.toNat_sub]
  have := x.toNat_lt
  have e : (2 ^ 64 - x.toNat + (0:UInt64).toNat) % 2^64 = 2^64 - x.toNat := by
    rw [zero_toNat]; omega
  rw [e]

theorem IsCell.lsb_eq {x : CellID} {k : Nat} (h : IsCell x k) : (lsb x).toNat = 2^(60 - 2*k) := by
  have hx := h.ne_zero
  obtain ⟨hk, hf, hlow⟩ := h
  rw [lsb_toNat x hx]
  have e1 : 61 - 2*k = (60 - 2*k) + 1 := by omega
  have hdm := Nat.div_add_mod x.toNat (2^(61 - 2*k))
  rw [hlow, e1, Nat.pow_succ] at hdm
  have e : x.toNat = (2 * (x.toNat / (2^(60-2*k) * 2)) + 1) * 2^(60-2*k) := by
    have : (2 * (x.toNat / (2^(60-2*k) * 2)) + 1) * 2^(60-2*k)
        = 2^(60-2*k) * 2 * (x.toNat / (2^(60-2*k) * 2)) + 2^(60-2*k) := by ring
    omega
  have hlt := x.toNat_lt
  rw [e] at hlt ⊢
  exact lsbNat _ _ hlt

theorem lsbForLevel_toNat (j : Nat) (hj : j ≤ 30) : (lsbForLevel j).toNat = 2^(60 - 2*j) := by
  interval_cases j <;> rfl

theorem IsCell.rangeMin_eq {x : CellID} {k : Nat} (h : IsCell x k) :
    (rangeMin x).toNat = x.toNat - 2^(60 - 2*k) + 1 := by
  have hl := h.lsb_eq
  obtain ⟨hk, hf, hlow⟩ := h
  unfold CellID.rangeMin
  rw [UInt64.toNat_sub, UInt64.toNat_sub, hl, one_toNat]
  have := x.toNat_lt
  interval_cases k <;> cell_omega

theorem IsCell.rangeMax_eq {x : CellID} {k : Nat} (h : IsCell x k) :
    (rangeMax x).toNat = x.toNat + 2^(60 - 2*k) - 1 := by
  have hl := h.lsb_eq
  obtain ⟨hk, hf, hlow⟩ := h
  unfold CellID.rangeMax
  rw [UInt64.toNat_add, UInt64.toNat_sub, hl, one_toNat]
  have := x.toNat_lt
  interval_cases k <;> cell_omega

/-- `Parent(level)` on any word: clear the low bits and set the level bit. -/
theorem parent_toNat (x : CellID) (j : Nat) (hj : j ≤ 30) :
    (parent x j).toNat = x.toNat - x.toNat % 2^(61 - 2*j) + 2^(60 - 2*j) := by
  unfold parent
  simp only []
  rw [UInt64.toNat_or, UInt64.toNat_and, UInt64.toNat_sub, lsbForLevel_toNat j hj, zero_toNat]
  have hx := x.toNat_lt
  have hp : 2^(60 - 2*j) ≤ 2^60 := Nat.pow_le_pow_right (by omega) (by omega)
  have hpos := Nat.two_pow_pos (60 - 2*j)
  have e : (2 ^ 64 - 2 ^ (60 - 2 * j) + 0) % 2 ^ 64 = 2^64 - 2^(60 - 2*j) := by omega
  rw [e, and_neg_pow _ _ hx (by omega)]
  have e2 : x.toNat - x.toNat % 2^(60 - 2*j) = (x.toNat / 2^(60 - 2*j)) * 2^(60 - 2*j) := by
    have := Nat.div_add_mod x.toNat (2^(60 - 2*j))
    rw [Nat.mul_comm] at this; omega
  rw [e2, or_pow_of_div]
  have e3 : 60 - 2*j + 1 = 61 - 2*j := by omega
  rw [e3]
  have := Nat.div_add_mod x.toNat (2^(61 - 2*j))
  rw [Nat.mul_comm] at this; omega

theorem IsCell.parent_isCell {x : CellID} {k j : Nat} (h : IsCell x k) (hj : j ≤ k) :
    IsCell (parent x j) j := by
  obtain ⟨hk, hf, hlow⟩ := h
  have hj30 : j ≤ 30 := by omega
  refine ⟨hj30, ?_, ?_⟩ <;> rw [parent_toNat x j hj30]
  · interval_cases j <;> cell_omega
  · interval_cases j <;> cell_omega

theorem shiftRight1_toNat (x : UInt64) : (x >>> 1).toNat = x.toNat / 2 := by
  rw [UInt64.toNat_shiftRight]; rw [one_toNat]; simp [Nat.shiftRight_eq_div_pow]

theorem and1_ne_zero (x : UInt64) : (x &&& 1 != 0) = decide (x.toNat % 2 = 1) := by
  have h : (x &&& 1).toNat = x.toNat % 2 := by
    rw [UInt64.toNat_and, one_toNat]
    have := Nat.and_two_pow_sub_one_eq_mod x.toNat 1
    rw [show (1:Nat) = 2^1 - 1 from rfl]; exact this
  by_cases hx : x.toNat % 2 = 1
  · have : x &&& 1 ≠ 0 := by
      intro h0; rw [h0, zero_toNat] at h; omega
    simp [hx, this]
  · have : x &&& 1 = 0 := by
      apply UInt64.toNat_inj.mp; rw [h, zero_toNat]; omega
    simp [hx, this]

theorem trailingZeros_go (n : Nat) : ∀ (fuel acc a : Nat) (x : UInt64), n < fuel →
    x.toNat = (2*a+1) * 2^n → trailingZeros.go fuel acc x = acc + n := by
  induction n with
  | zero =>
    intro fuel acc a x hf hx
    rcases fuel with _ | fuel
    · omega
    · unfold trailingZeros.go
      rw [and1_ne_zero]
      have : x.toNat % 2 = 1 := by rw [hx]; omega
      simp [this]
  | succ n ih =>
    intro fuel acc a x hf hx
    rcases fuel with _ | fuel
    · omega
    · unfold trailingZeros.go
      rw [and1_ne_zero]
      have h2 : x.toNat = 2 * ((2*a+1) * 2^n) := by rw [hx, Nat.pow_succ]; ring
      have : ¬ x.toNat % 2 = 1 := by omega
      simp only [this, decide_false, Bool.false_eq_true, ↓reduceIte]
      have := ih fuel (acc+1) a (x >>> 1) (by omega) (by rw [shiftRight1_toNat]; omega)
      rw [this]; omega

theorem IsCell.level_eq {x : CellID} {k : Nat} (h : IsCell x k) : level x = k := by
  obtain ⟨hk, hf, hlow⟩ := h
  have e1 : 61 - 2*k = (60 - 2*k) + 1 := by omega
  have hdm := Nat.div_add_mod x.toNat (2^(61 - 2*k))
  rw [hlow, e1, Nat.pow_succ] at hdm
  have e : x.toNat = (2 * (x.toNat / (2^(60-2*k) * 2)) + 1) * 2^(60-2*k) := by
    have : (2 * (x.toNat / (2^(60-2*k) * 2)) + 1) * 2^(60-2*k)
        = 2^(60-2*k) * 2 * (x.toNat / (2^(60-2*k) * 2)) + 2^(60-2*k) := by ring
    omega
  have := trailingZeros_go (60 - 2*k) 64 0 _ x (by omega) e
  unfold CellID.level trailingZeros
  rw [this]
  simp only [maxLevel, Nat.zero_add, Nat.shiftRight_eq_div_pow]
  omega

theorem face_toNat (x : CellID) : face x = x.toNat / 2^61 := by
  unfold face
  rw [UInt64.toNat_shiftRight]
  have : (61 : UInt64).toNat = 61 := rfl
  rw [this]; simp [Nat.shiftRight_eq_div_pow]

theorem IsCell.face_lt6 {x : CellID} {k : Nat} (h : IsCell x k) : face x < 6 := by
  rw [face_toNat]; have := h.face_lt; omega

theorem contains_iff (a b : CellID) :
    contains a b = true ↔ (rangeMin a).toNat ≤ b.toNat ∧ b.toNat ≤ (rangeMax a).toNat := by
  unfold contains
  simp [UInt64.le_iff_toNat_le]

theorem intersects_iff (a b : CellID) :
    intersects a b = true ↔
      (rangeMin b).toNat ≤ (rangeMax a).toNat ∧ (rangeMin a).toNat ≤ (rangeMax b).toNat := by
  unfold intersects
  simp [UInt64.le_iff_toNat_le, GE.ge]


/-! ### validity -/

/-- every non-zero word is an odd multiple of a power of two -/
theorem exists_odd_mul_pow (x : Nat) (hx : x ≠ 0) : ∃ a n, x = (2*a+1) * 2^n := by
  induction x using Nat.strongRecOn with
  | _ x ih =>
    by_cases hodd : x % 2 = 1
    · exact ⟨x / 2, 0, by omega⟩
    · obtain ⟨a, n, h⟩ := ih (x / 2) (by omega) (by omega)
      refine ⟨a, n + 1, ?_⟩
      have : x = 2 * (x / 2) := by omega
      rw [this, h, Nat.pow_succ]; ring

theorem pow_and_mask (n : Nat) (hn : n < 64) :
    ((2^n &&& 0x1555555555555555 : Nat) ≠ 0) ↔ (n % 2 = 0 ∧ n ≤ 60) := by
  interval_cases n <;> decide

theorem isValid_iff (x : CellID) : isValid x = true ↔ ∃ k, IsCell x k := by
  unfold isValid
  rw [Bool.and_eq_true, decide_eq_true_eq, face_toNat]
  simp only [numFaces]
  constructor
  · rintro ⟨hf, hl⟩
    have hx : x.toNat ≠ 0 := by
      intro h0
      have : x = 0 := UInt64.toNat_inj.mp (by rw [h0, zero_toNat])
      subst this
      revert hl; decide
    obtain ⟨a, n, hxa⟩ := exists_odd_mul_pow x.toNat hx
    have hlt := x.toNat_lt
    have hn : n < 64 := by
      by_cases hn : n < 64
      · exact hn
      · exfalso
        have : 2^64 ≤ 2^n := Nat.pow_le_pow_right (by omega) (by omega)
        have : 2^n ≤ (2*a+1)*2^n := Nat.le_mul_of_pos_left _ (by omega)
        omega
    have hlsb : (lsb x).toNat = 2^n := by
      rw [lsb_toNat x hx, hxa]; rw [hxa] at hlt; exact lsbNat _ _ hlt
    have hm : (2^n &&& 0x1555555555555555 : Nat) ≠ 0 := by
      intro h0
      have : lsb x &&& 0x1555555555555555 = 0 := by
        apply UInt64.toNat_inj.mp
        rw [UInt64.toNat_and, hlsb, zero_toNat]
        exact h0
      rw [this] at hl; simp at hl
    obtain ⟨heven, h60⟩ := (pow_and_mask n hn).mp hm
    refine ⟨30 - n / 2, by omega, by omega, ?_⟩
    have e1 : 61 - 2 * (30 - n/2) = n + 1 := by omega
    have e2 : 60 - 2 * (30 - n/2) = n := by omega
    rw [e1, e2, hxa, Nat.pow_succ]
    have : (2*a+1) * 2^n = 2^n * 2 * a + 2^n := by ring
    rw [this, Nat.mul_add_mod]
    exact Nat.mod_eq_of_lt (by have := Nat.two_pow_pos n; omega)
  · rintro ⟨k, h⟩
    refine ⟨by have := h.face_lt; omega, ?_⟩
    have hl := h.lsb_eq
    have hk := h.k_le
    have hm : (2^(60 - 2*k) &&& 0x1555555555555555 : Nat) ≠ 0 :=
      (pow_and_mask (60 - 2*k) (by omega)).mpr ⟨by omega, by omega⟩
    have : lsb x &&& 0x1555555555555555 ≠ 0 := by
      intro h0
      have := congrArg UInt64.toNat h0
      rw [UInt64.toNat_and, hl, zero_toNat] at this
      exact hm this
    simp [this]

/-! ### children, immediate parent, curve successors -/

theorem shiftRight_lit_toNat (x : UInt64) (s : Nat) (hs : s < 64) :
    (x >>> UInt64.ofNat s).toNat = x.toNat / 2^s := by
  rw [UInt64.toNat_shiftRight]
  have : (UInt64.ofNat s).toNat = s := by
    rw [UInt64.toNat_ofNat']; omega
  rw [this, Nat.mod_eq_of_lt hs, Nat.shiftRight_eq_div_pow]

theorem IsCell.child_toNat {x : CellID} {k t : Nat} (h : IsCell x k) (hk : k < 30) (ht : t < 4) :
    (child x t).toNat = x.toNat - 2^(60 - 2*k) + (2*t+1) * 2^(58 - 2*k) := by
  have hl := h.lsb_eq
  obtain ⟨_, hf, hlow⟩ := h
  have hx := x.toNat_lt
  have h2 : (lsb x >>> 2).toNat = 2^(58 - 2*k) := by
    have := shiftRight_lit_toNat (lsb x) 2 (by omega)
    rw [show (UInt64.ofNat 2 : UInt64) = 2 from rfl] at this
    rw [this, hl]
    interval_cases k <;> simp only [Nat.reducePow, Nat.reduceMul, Nat.reduceSub, Nat.reduceDiv]
  have h1 : (lsb x >>> 1).toNat = 2^(59 - 2*k) := by
    rw [shiftRight1_toNat, hl]
    interval_cases k <;> simp only [Nat.reducePow, Nat.reduceMul, Nat.reduceSub, Nat.reduceDiv]
  unfold child children
  simp only []
  have ht' : t = 0 ∨ t = 1 ∨ t = 2 ∨ t = 3 := by omega
  rcases ht' with rfl | rfl | rfl | rfl <;>
    simp only [UInt64.toNat_add, UInt64.toNat_sub, hl, h1, h2] <;>
    interval_cases k <;> cell_omega

theorem IsCell.child_isCell {x : CellID} {k t : Nat} (h : IsCell x k) (hk : k < 30) (ht : t < 4) :
    IsCell (child x t) (k+1) := by
  have e := h.child_toNat hk ht
  obtain ⟨_, hf, hlow⟩ := h
  refine ⟨by omega, ?_, ?_⟩ <;> rw [e]
  · have ht' : t = 0 ∨ t = 1 ∨ t = 2 ∨ t = 3 := by omega
    rcases ht' with rfl | rfl | rfl | rfl <;> interval_cases k <;> cell_omega
  · have ht' : t = 0 ∨ t = 1 ∨ t = 2 ∨ t = 3 := by omega
    rcases ht' with rfl | rfl | rfl | rfl <;> interval_cases k <;> cell_omega

theorem IsCell.immediateParent_eq {x : CellID} {k : Nat} (h : IsCell x k) (hk : 0 < k) :
    immediateParent x = parent x (k - 1) := by
  have hl := h.lsb_eq
  have hk30 := h.k_le
  have e : lsb x <<< 2 = lsbForLevel (k - 1) := by
    apply UInt64.toNat_inj.mp
    rw [lsbForLevel_toNat _ (by omega), UInt64.toNat_shiftLeft, hl]
    have : (2:UInt64).toNat = 2 := rfl
    rw [this, Nat.shiftLeft_eq]
    interval_cases k <;> simp only [Nat.reducePow, Nat.reduceMul, Nat.reduceSub, Nat.reduceMod]
  unfold CellID.immediateParent parent
  simp only [e]

theorem IsCell.isFace_eq {x : CellID} {k : Nat} (h : IsCell x k) : isFace x = decide (k = 0) := by
  obtain ⟨hk, hf, hlow⟩ := h
  have hm : (x &&& (lsbForLevel 0 - 1)).toNat = x.toNat % 2^60 := by
    rw [UInt64.toNat_and]
    have : (lsbForLevel 0 - 1).toNat = 2^60 - 1 := rfl
    rw [this, Nat.and_two_pow_sub_one_eq_mod]
  unfold CellID.isFace
  by_cases hk0 : k = 0
  · subst hk0
    have : x &&& (lsbForLevel 0 - 1) = 0 := by
      apply UInt64.toNat_inj.mp; rw [hm, zero_toNat]; cell_omega
    simp [this]
  · have : x &&& (lsbForLevel 0 - 1) ≠ 0 := by
      intro h0
      have := congrArg UInt64.toNat h0
      rw [hm, zero_toNat] at this
      have hk1 : 1 ≤ k := by omega
      interval_cases k <;> cell_omega
    simp [this, hk0]

theorem IsCell.next_toNat {x : CellID} {k : Nat} (h : IsCell x k) :
    (next x).toNat = (x.toNat + 2^(61 - 2*k)) % 2^64 := by
  have hl := h.lsb_eq
  have hk := h.k_le
  unfold CellID.next
  rw [UInt64.toNat_add, UInt64.toNat_shiftLeft, hl, one_toNat, Nat.shiftLeft_eq]
  interval_cases k <;> simp only [Nat.reducePow, Nat.reduceMul, Nat.reduceSub, Nat.reduceMod]

theorem IsCell.prev_toNat {x : CellID} {k : Nat} (h : IsCell x k) :
    (prev x).toNat = (2^64 - 2^(61 - 2*k) + x.toNat) % 2^64 := by
  have hl := h.lsb_eq
  have hk := h.k_le
  unfold CellID.prev
  rw [UInt64.toNat_sub, UInt64.toNat_shiftLeft, hl, one_toNat, Nat.shiftLeft_eq]
  interval_cases k <;> simp only [Nat.reducePow, Nat.reduceMul, Nat.reduceSub, Nat.reduceMod]

/-! ### the laminar structure: two cells are nested or disjoint -/

theorem IsCell.rangeMin_le {x : CellID} {k : Nat} (h : IsCell x k) :
    (rangeMin x).toNat ≤ x.toNat ∧ x.toNat ≤ (rangeMax x).toNat := by
  rw [h.rangeMin_eq, h.rangeMax_eq]
  obtain ⟨hk, hf, hlow⟩ := h
  interval_cases k <;> cell_omega

theorem mod_ne_zero_of_finer (y n m : Nat) (h : n ≤ m) (hy : y % 2^n ≠ 0) : y % 2^m ≠ 0 := by
  intro h0
  have := Nat.mod_mod_of_dvd y (Nat.pow_dvd_pow 2 h)
  rw [h0] at this; simp at this; exact hy this.symm

theorem mod_add_le (Y n m : Nat) (h : n ≤ m) (hY : Y % 2^n = 0) : Y % 2^m + 2^n ≤ 2^m := by
  have h1 : Y % 2^m % 2^n = 0 := by rw [Nat.mod_mod_of_dvd Y (Nat.pow_dvd_pow 2 h)]; exact hY
  obtain ⟨t, ht⟩ := Nat.dvd_of_mod_eq_zero h1
  have hlt : Y % 2^m < 2^m := Nat.mod_lt _ (Nat.two_pow_pos m)
  have e : (2:Nat)^m = 2^n * 2^(m-n) := by rw [← Nat.pow_add]; congr 1; omega
  rw [ht, e] at hlt ⊢
  have : t < 2^(m-n) := Nat.lt_of_mul_lt_mul_left hlt
  calc 2^n * t + 2^n = 2^n * (t+1) := by ring
    _ ≤ 2^n * 2^(m-n) := Nat.mul_le_mul_left _ this

theorem mod_zero_of_coarser (Y m n : Nat) (h : m ≤ n) (hY : Y % 2^n = 0) : Y % 2^m = 0 := by
  have := Nat.mod_mod_of_dvd Y (Nat.pow_dvd_pow 2 h)
  rw [hY] at this; simp at this; exact this.symm

/-- facts about a cell `y` of level `j` relative to the grid of a coarser-or-equal level `k ≤ j` -/
theorem IsCell.finer_facts {y : CellID} {j : Nat} (hy : IsCell y j) (k : Nat) (hkj : k ≤ j) :
    2^(60 - 2*j) ≤ y.toNat ∧ y.toNat % 2^(61 - 2*k) ≠ 0 ∧
      (y.toNat - 2^(60 - 2*j)) % 2^(61 - 2*k) + 2 * 2^(60 - 2*j) ≤ 2^(61 - 2*k) := by
  obtain ⟨hj, hf, hlow⟩ := hy
  have hpos := Nat.two_pow_pos (60 - 2*j)
  have e1 : 61 - 2*j = (60 - 2*j) + 1 := by omega
  have hle : 2^(60 - 2*j) ≤ y.toNat := by
    have := Nat.mod_le y.toNat (2^(61 - 2*j)); omega
  refine ⟨hle, ?_, ?_⟩
  · exact mod_ne_zero_of_finer _ (61 - 2*j) _ (by omega) (by omega)
  · have hY : (y.toNat - 2^(60 - 2*j)) % 2^(61 - 2*j) = 0 := by
      have := Nat.div_add_mod y.toNat (2^(61 - 2*j))
      rw [hlow] at this
      have e : y.toNat - 2^(60 - 2*j) = 2^(61 - 2*j) * (y.toNat / 2^(61 - 2*j)) := by omega
      rw [e]; exact Nat.mul_mod_right _ _
    have := mod_add_le _ (61 - 2*j) (61 - 2*k) (by omega) hY
    rw [e1, Nat.pow_succ] at this
    rw [e1] at *
    omega

/-- a strictly coarser cell id is a multiple of the finer grid step -/
theorem IsCell.coarser_facts {y : CellID} {j : Nat} (hy : IsCell y j) (k : Nat) (hjk : j < k) (hk : k ≤ 30) :
    y.toNat % 2^(61 - 2*k) = 0 := by
  obtain ⟨hj, hf, hlow⟩ := hy
  have hY : (y.toNat - 2^(60 - 2*j)) % 2^(61 - 2*j) = 0 := by
    have := Nat.div_add_mod y.toNat (2^(61 - 2*j))
    rw [hlow] at this
    have e : y.toNat - 2^(60 - 2*j) = 2^(61 - 2*j) * (y.toNat / 2^(61 - 2*j)) := by omega
    rw [e]; exact Nat.mul_mod_right _ _
  have h1 := mod_zero_of_coarser _ (61 - 2*k) (61 - 2*j) (by omega) hY
  have h2 : 2^(60 - 2*j) % 2^(61 - 2*k) = 0 :=
    Nat.mod_eq_zero_of_dvd (Nat.pow_dvd_pow 2 (by omega))
  have hle : 2^(60 - 2*j) ≤ y.toNat := by
    have := Nat.mod_le y.toNat (2^(61 - 2*j)); omega
  have e : y.toNat = (y.toNat - 2^(60 - 2*j)) + 2^(60 - 2*j) := by omega
  rw [e, Nat.add_mod, h1, h2]; simp

/-- containment of cells ⇔ the descendant's ancestor at the container's level is the container -/
theorem IsCell.contains_iff_parent {x y : CellID} {k j : Nat} (hx : IsCell x k) (hy : IsCell y j) :
    contains x y = true ↔ k ≤ j ∧ parent y k = x := by
  rw [contains_iff, hx.rangeMin_eq, hx.rangeMax_eq, ← UInt64.toNat_inj, parent_toNat y k hx.k_le]
  by_cases hkj : k ≤ j
  · obtain ⟨hb, hne, hadd⟩ := hy.finer_facts k hkj
    obtain ⟨hk, hf, hlow⟩ := hx
    have hyl := y.toNat_lt
    interval_cases k <;> cell_omega
  · have hz := hy.coarser_facts k (by omega) hx.k_le
    obtain ⟨hk, hf, hlow⟩ := hx
    interval_cases k <;> cell_omega

/-- two cells are nested or have disjoint leaf ranges -/
theorem IsCell.nested_or_disjoint {x y : CellID} {k j : Nat} (hx : IsCell x k) (hy : IsCell y j) :
    contains x y = true ∨ contains y x = true ∨
      (rangeMax x).toNat < (rangeMin y).toNat ∨ (rangeMax y).toNat < (rangeMin x).toNat := by
  rw [contains_iff, contains_iff, hx.rangeMin_eq, hx.rangeMax_eq, hy.rangeMin_eq, hy.rangeMax_eq]
  by_cases hkj : k ≤ j
  · obtain ⟨hb, hne, hadd⟩ := hy.finer_facts k hkj
    obtain ⟨hk, hf, hlow⟩ := hx
    have hpos := Nat.two_pow_pos (60 - 2*j)
    interval_cases k <;> cell_omega
  · obtain ⟨hb, hne, hadd⟩ := hx.finer_facts j (by omega)
    obtain ⟨hj, hf, hlow⟩ := hy
    have hpos := Nat.two_pow_pos (60 - 2*k)
    interval_cases j <;> cell_omega

end S2Proofs
