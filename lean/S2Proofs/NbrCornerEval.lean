/-
  S2Proofs.NbrCornerEval — two closed kernel evaluations of the model `allNeighbors` (soft-float wrap and Hilbert
  lookup tables included) at cube corners; the right-hand sides are the lists returned by Go's
  `CellID.AllNeighbors` for the same inputs (reproduced against /repo, see DELIVER of package c01nbr).
  ONE `decide +kernel` so that the kernel builds the two 1024-entry lookup tables only once (≈ 3 min).
-/
import S2.STUV
open S2 S2.CellID S2.Hilbert S2.STUV
namespace S2Proofs.C01W

set_option maxRecDepth 100000 in
/-- cell 0/00 (level 2, square (0,0) of face 0: a cube corner) at level 3: 12 entries, entry 0 = entry 2 (= 5/333);
    the face cell 0/ at level 0: 8 entries, only 4 distinct cells (faces 5, 2, 4, 1; the opposite face 3 is absent) -/
theorem corner_eval :
    allNeighbors 0x0100000000000000 3 =
      [13817043656772681728, 13312640498507186176, 13817043656772681728, 522417556774977536, 10754595910160744448,
       162129586585337856, 13781014859753717760, 486388759756013568, 10718567113141780480, 270215977642229760,
       10610480722084888576, 306244774661193728] ∧
    allNeighbors 0x1000000000000000 0 =
      [12682136550675316736, 12682136550675316736, 12682136550675316736, 5764607523034234880,
       10376293541461622784, 3458764513820540928, 5764607523034234880, 5764607523034234880] := by
  decide +kernel

end S2Proofs.C01W
