/-
  S2Proofs.SiblingLemmas — bit-level characterisation of `CellUnion.areSiblings`.

  For a valid cell `d` of level `k ≥ 1` the mask used by `areSiblings` clears exactly the
  two child-position bits `s, s+1` (`s = 61 - 2k`), so `x & mask = d & mask` says that `x`
  is one of the four children of `d`'s parent; the XOR test then pins down the position of `d`.
-/
import S2.CellUnion
import S2Proofs.CellIDLemmas
open S2 S2.CellID S2.CellUnion
namespace S2Proofs

/-! ### pure `Nat` bit facts (exponent `s` symbolic) -/

/-- AND with the mask that clears bits `s` and `s+1` of a 64-bit word. -/
theorem and_clear2 (x s : Nat) (hx : x < 2^64) (hs : s + 2 ≤ 64) :
    x &&& (2^64 - 1 - 3 * 2^s) = (x / 2^(s+2)) * 2^(s+2) + x % 2^s := by
  have hps := Nat.two_pow_pos s
  have e4 : (2:Nat)^(s+2) = 4 * 2^s := by rw [Nat.pow_add]; omega
  have hle : (2:Nat)^(s+2) ≤ 2^64 := Nat.pow_le_pow_right (by omega) hs
  have hlt : 3 * 2^s < 2^64 := by omega
  have e1 : 2^64 - 1 - 3 * 2^s = 2^64 - (3 * 2^s + 1) := by omega
  have hr : x % 2^s < 2^(s+2) := by
    have := Nat.mod_lt x hps; omega
  have e2 : (x / 2^(s+2)) * 2^(s+2) + x % 2^s = 2^(s+2) * (x / 2^(s+2)) + x % 2^s := by
    rw [Nat.mul_comm]
  rw [e1, e2]
  apply Nat.eq_of_testBit_eq
  intro i
  rw [Nat.testBit_and, Nat.testBit_two_pow_sub_succ hlt, Nat.testBit_mul_two_pow,
      show (3:Nat) = 2^2 - 1 from rfl, Nat.testBit_two_pow_sub_one,
      Nat.testBit_two_pow_mul_add _ hr, Nat.testBit_mod_two_pow, Nat.testBit_div_two_pow]
  by_cases h1 : i < s
  · have h2 : i < s + 2 := by omega
    have h3 : i < 64 := by omega
    have h4 : ¬ s ≤ i := by omega
    simp [h1, h2, h3, h4]
  · by_cases h2 : i < s + 2
    · have h4 : s ≤ i := by omega
      have h5 : i - s < 2 := by omega
      simp [h1, h2, h4, h5]
    · have h4 : s ≤ i := by omega
      have h5 : ¬ i - s < 2 := by omega
      have h6 : i - (s + 2) + (s + 2) = i := by omega
      rw [h6]
      by_cases h3 : i < 64
      · simp [h2, h3, h4, h5]
      · have : x.testBit i = false := by
          apply Nat.testBit_lt_two_pow
          have : 2^64 ≤ 2^i := Nat.pow_le_pow_right (by omega) (by omega)
          omega
        simp [this]

/-- the bits of a word assembled from a prefix `D`, a 2-bit digit `t` and a suffix `L` -/
theorem testBit_compose (D t L s i : Nat) (ht : t < 4) (hL : L < 2^s) :
    (D * 2^(s+2) + t * 2^s + L).testBit i =
      if i < s then L.testBit i else if i < s + 2 then t.testBit (i - s) else D.testBit (i - s - 2) := by
  have e4 : (2:Nat)^(s+2) = 2^s * 2^2 := by rw [Nat.pow_add]
  have e : D * 2^(s+2) + t * 2^s + L = 2^s * (2^2 * D + t) + L := by rw [e4]; ring
  have ht' : t < 2^2 := ht
  rw [e, Nat.testBit_two_pow_mul_add _ hL]
  by_cases h1 : i < s
  · simp [h1]
  · rw [Nat.testBit_two_pow_mul_add _ ht']
    by_cases h2 : i < s + 2
    · have : i - s < 2 := by omega
      simp [h1, h2, this]
    · have : ¬ i - s < 2 := by omega
      simp [h1, h2, this]

/-- XOR of three words that agree outside the 2-bit digit -/
theorem xor3_compose (D ta tb tc L s : Nat) (hta : ta < 4) (htb : tb < 4) (htc : tc < 4)
    (hL : L < 2^s) :
    (D * 2^(s+2) + ta * 2^s + L) ^^^ (D * 2^(s+2) + tb * 2^s + L) ^^^ (D * 2^(s+2) + tc * 2^s + L)
      = D * 2^(s+2) + (ta ^^^ tb ^^^ tc) * 2^s + L := by
  have hx : ta ^^^ tb ^^^ tc < 4 :=
    Nat.xor_lt_two_pow (n := 2) (Nat.xor_lt_two_pow (n := 2) hta htb) htc
  apply Nat.eq_of_testBit_eq
  intro i
  rw [Nat.testBit_xor, Nat.testBit_xor, testBit_compose _ _ _ _ _ hta hL,
      testBit_compose _ _ _ _ _ htb hL, testBit_compose _ _ _ _ _ htc hL,
      testBit_compose _ _ _ _ _ hx hL]
  by_cases h1 : i < s
  · simp only [h1, if_true]
    cases L.testBit i <;> rfl
  · by_cases h2 : i < s + 2
    · simp only [h1, h2, if_true, if_false]
      rw [Nat.testBit_xor, Nat.testBit_xor]
    · simp only [h1, h2, if_false]
      cases D.testBit (i - s - 2) <;> rfl

/-- arithmetic decomposition: a word with prefix `D` (above bit `s+2`) and suffix `L` (below bit `s`) -/
theorem decomp_of_div_mod (x D L s : Nat) (h1 : x / 2^(s+2) = D) (h2 : x % 2^s = L) :
    ∃ t, t < 4 ∧ x = D * 2^(s+2) + t * 2^s + L := by
  refine ⟨x / 2^s % 4, Nat.mod_lt _ (by omega), ?_⟩
  have e4 : (2:Nat)^(s+2) = 2^s * 4 := by rw [Nat.pow_add]
  have hq : x / 2^s / 4 = D := by rw [Nat.div_div_eq_div_mul, ← e4]; exact h1
  have h3 := Nat.div_add_mod x (2^s)
  have h4 := Nat.div_add_mod (x / 2^s) 4
  rw [hq] at h4
  rw [h2] at h3
  calc x = 2^s * (x / 2^s) + L := h3.symm
    _ = 2^s * (4 * D + x / 2^s % 4) + L := by rw [h4]
    _ = D * 2^(s+2) + (x / 2^s % 4) * 2^s + L := by rw [e4]; ring

theorem div_mod_of_decomp (x D t L s : Nat) (ht : t < 4) (hL : L < 2^s)
    (h : x = D * 2^(s+2) + t * 2^s + L) : x / 2^(s+2) = D ∧ x % 2^s = L := by
  have e4 : (2:Nat)^(s+2) = 2^s * 4 := by rw [Nat.pow_add]
  have hps := Nat.two_pow_pos s
  constructor
  · have e : x = 2^(s+2) * D + (t * 2^s + L) := by rw [h]; ring
    have hlt : t * 2^s + L < 2^(s+2) := by
      have : t * 2^s ≤ 3 * 2^s := Nat.mul_le_mul_right _ (by omega)
      omega
    rw [e, Nat.mul_add_div (Nat.two_pow_pos _), Nat.div_eq_of_lt hlt]; rfl
  · have e : x = 2^s * (4 * D + t) + L := by rw [h, e4]; ring
    rw [e, Nat.mul_add_mod, Nat.mod_eq_of_lt hL]

/-! ### the UInt64 side -/

/-- the mask computed by `areSiblings` -/
def sibMask (d : CellID) : UInt64 :=
  let mask := lsb d <<< 1
  ~~~(mask + (mask <<< 1))

theorem areSiblings_eq (a b c d : CellID) :
    areSiblings a b c d = true ↔
      (a ^^^ b ^^^ c = d ∧ a &&& sibMask d = d &&& sibMask d ∧ b &&& sibMask d = d &&& sibMask d ∧
        c &&& sibMask d = d &&& sibMask d ∧ isFace d = false) := by
  unfold areSiblings sibMask
  by_cases h : a ^^^ b ^^^ c = d
  · simp [h, and_assoc]
  · simp [h]

theorem IsCell.sibMask_toNat {d : CellID} {k : Nat} (hd : IsCell d k) :
    (sibMask d).toNat = 2^64 - 1 - 3 * 2^(61 - 2*k) := by
  have hl := hd.lsb_eq
  have hk := hd.k_le
  have h1 : (lsb d <<< 1).toNat = 2^(61 - 2*k) := by
    rw [UInt64.toNat_shiftLeft, hl, one_toNat, Nat.shiftLeft_eq]
    interval_cases k <;> rfl
  have h2 : ((lsb d <<< 1) <<< 1).toNat = 2^(62 - 2*k) := by
    rw [UInt64.toNat_shiftLeft, h1, one_toNat, Nat.shiftLeft_eq]
    interval_cases k <;> rfl
  unfold sibMask
  simp only []
  rw [UInt64.toNat_not, UInt64.toNat_add, h1, h2]
  interval_cases k <;> rfl

/-- `toNat` of the children of the parent of `d`, in the prefix/digit/suffix shape -/
theorem IsCell.child_parent_toNat {d : CellID} {k t : Nat} (hd : IsCell d k) (hk : 1 ≤ k)
    (ht : t < 4) :
    (child (parent d (k-1)) t).toNat =
      d.toNat / 2^((61 - 2*k) + 2) * 2^((61 - 2*k) + 2) + t * 2^(61 - 2*k) + 2^(60 - 2*k) := by
  have hP : IsCell (parent d (k-1)) (k-1) := hd.parent_isCell (by omega)
  have hk30 := hd.k_le
  rw [hP.child_toNat (by omega) ht, parent_toNat _ _ (by omega)]
  interval_cases k <;> cell_omega

theorem mul_add_cancel (A B P r r' : Nat) (hr : r < P) (hr' : r' < P)
    (h : A * P + r = B * P + r') : A = B ∧ r = r' := by
  have hP : 0 < P := by omega
  have hA : (P * A + r) / P = A := by
    rw [Nat.mul_add_div hP, Nat.div_eq_of_lt hr, Nat.add_zero]
  have hB : (P * B + r') / P = B := by
    rw [Nat.mul_add_div hP, Nat.div_eq_of_lt hr', Nat.add_zero]
  have hAB : A = B := by
    rw [← hA, ← hB, Nat.mul_comm P A, Nat.mul_comm P B, h]
  subst hAB
  exact ⟨rfl, by omega⟩

/-- `x & mask = d & mask` says that `x` is one of the four children of the parent of `d` -/
theorem IsCell.sibMask_eq_iff {d : CellID} {k : Nat} (hd : IsCell d k) (hk : 1 ≤ k) (x : CellID) :
    x &&& sibMask d = d &&& sibMask d ↔ ∃ t, t < 4 ∧ x = child (parent d (k-1)) t := by
  have hk30 := hd.k_le
  have hs : (61 - 2*k) + 2 ≤ 64 := by omega
  have hL : 2^(60 - 2*k) < 2^(61 - 2*k) := Nat.pow_lt_pow_right (by omega) (by omega)
  have hL2 : 2^(61 - 2*k) < 2^((61 - 2*k) + 2) := Nat.pow_lt_pow_right (by omega) (by omega)
  rw [← UInt64.toNat_inj, UInt64.toNat_and, UInt64.toNat_and, hd.sibMask_toNat,
      and_clear2 _ _ x.toNat_lt hs, and_clear2 _ _ d.toNat_lt hs, hd.low]
  constructor
  · intro h
    have hr : x.toNat % 2^(61 - 2*k) < 2^((61 - 2*k) + 2) := by
      have := Nat.mod_lt x.toNat (Nat.two_pow_pos (61 - 2*k)); omega
    obtain ⟨h1, h2⟩ := mul_add_cancel _ _ _ _ _ hr (by omega) h
    obtain ⟨t, ht, hx⟩ := decomp_of_div_mod _ _ _ _ h1 h2
    refine ⟨t, ht, ?_⟩
    rw [← UInt64.toNat_inj, hd.child_parent_toNat hk ht]
    exact hx
  · rintro ⟨t, ht, hx⟩
    have hx' := congrArg UInt64.toNat hx
    rw [hd.child_parent_toNat hk ht] at hx'
    obtain ⟨h1, h2⟩ := div_mod_of_decomp _ _ _ _ _ ht hL hx'
    rw [h1, h2]

/-- bit-level characterisation of `areSiblings` when the last argument is a valid cell of level k -/
theorem areSiblings_iff {a b c d : CellID} {k : Nat} (hd : IsCell d k) :
    areSiblings a b c d = true ↔
      1 ≤ k ∧ ∃ ta tb tc td : Nat, ta < 4 ∧ tb < 4 ∧ tc < 4 ∧ td < 4 ∧
        a = child (parent d (k-1)) ta ∧ b = child (parent d (k-1)) tb ∧
        c = child (parent d (k-1)) tc ∧ d = child (parent d (k-1)) td ∧ ta ^^^ tb ^^^ tc = td := by
  rw [areSiblings_eq, hd.isFace_eq]
  have hk30 := hd.k_le
  have hL : 2^(60 - 2*k) < 2^(61 - 2*k) := Nat.pow_lt_pow_right (by omega) (by omega)
  have hps := Nat.two_pow_pos (61 - 2*k)
  constructor
  · rintro ⟨hx, ha, hb, hc, hf⟩
    have hk : 1 ≤ k := by
      rcases Nat.eq_zero_or_pos k with h0 | h0
      · subst h0; simp at hf
      · exact h0
    obtain ⟨ta, hta, ea⟩ := (hd.sibMask_eq_iff hk a).mp ha
    obtain ⟨tb, htb, eb⟩ := (hd.sibMask_eq_iff hk b).mp hb
    obtain ⟨tc, htc, ec⟩ := (hd.sibMask_eq_iff hk c).mp hc
    obtain ⟨td, htd, ed⟩ := (hd.sibMask_eq_iff hk d).mp rfl
    refine ⟨hk, ta, tb, tc, td, hta, htb, htc, htd, ea, eb, ec, ed, ?_⟩
    have hx' := congrArg UInt64.toNat hx
    have ea' := congrArg UInt64.toNat ea
    have eb' := congrArg UInt64.toNat eb
    have ec' := congrArg UInt64.toNat ec
    have ed' := congrArg UInt64.toNat ed
    rw [hd.child_parent_toNat hk hta] at ea'
    rw [hd.child_parent_toNat hk htb] at eb'
    rw [hd.child_parent_toNat hk htc] at ec'
    rw [hd.child_parent_toNat hk htd] at ed'
    rw [UInt64.toNat_xor, UInt64.toNat_xor, ea', eb', ec', xor3_compose _ _ _ _ _ _ hta htb htc hL] at hx'
    have h := hx'.trans ed'
    exact Nat.eq_of_mul_eq_mul_right hps (Nat.add_left_cancel (Nat.add_right_cancel h))
  · rintro ⟨hk, ta, tb, tc, td, hta, htb, htc, htd, ea, eb, ec, ed, hxor⟩
    refine ⟨?_, (hd.sibMask_eq_iff hk a).mpr ⟨ta, hta, ea⟩, (hd.sibMask_eq_iff hk b).mpr ⟨tb, htb, eb⟩,
      (hd.sibMask_eq_iff hk c).mpr ⟨tc, htc, ec⟩, ?_⟩
    · have ea' := congrArg UInt64.toNat ea
      have eb' := congrArg UInt64.toNat eb
      have ec' := congrArg UInt64.toNat ec
      have ed' := congrArg UInt64.toNat ed
      rw [hd.child_parent_toNat hk hta] at ea'
      rw [hd.child_parent_toNat hk htb] at eb'
      rw [hd.child_parent_toNat hk htc] at ec'
      rw [hd.child_parent_toNat hk htd] at ed'
      rw [← UInt64.toNat_inj, UInt64.toNat_xor, UInt64.toNat_xor, ea', eb', ec',
        xor3_compose _ _ _ _ _ _ hta htb htc hL, hxor]
      exact ed'.symm
    · have : k ≠ 0 := by omega
      simp [this]

theorem IsCell.parent_child {p : CellID} {j t : Nat} (hp : IsCell p j) (hj : j < 30) (ht : t < 4) :
    parent (child p t) j = p := by
  rw [← UInt64.toNat_inj, parent_toNat _ _ (by omega), hp.child_toNat hj ht]
  obtain ⟨_, hf, hlow⟩ := hp
  have ht' : t = 0 ∨ t = 1 ∨ t = 2 ∨ t = 3 := by omega
  rcases ht' with rfl | rfl | rfl | rfl <;> interval_cases j <;> cell_omega

/-- four children in curve order are siblings -/
theorem areSiblings_children {p : CellID} {j : Nat} (hp : IsCell p j) (hj : j < 30) :
    areSiblings (child p 0) (child p 1) (child p 2) (child p 3) = true := by
  have hd : IsCell (child p 3) (j+1) := hp.child_isCell hj (by omega)
  rw [areSiblings_iff hd]
  refine ⟨by omega, 0, 1, 2, 3, by omega, by omega, by omega, by omega, ?_⟩
  rw [Nat.add_sub_cancel, hp.parent_child hj (by omega)]
  exact ⟨rfl, rfl, rfl, rfl, by decide⟩

/-- siblings that are strictly increasing as ids are the four children in order -/
theorem areSiblings_sorted {a b c d : CellID} {k : Nat} (hd : IsCell d k)
    (h : areSiblings a b c d = true) (hab : a.toNat < b.toNat) (hbc : b.toNat < c.toNat) (hcd : c.toNat < d.toNat) :
    1 ≤ k ∧ a = child (parent d (k-1)) 0 ∧ b = child (parent d (k-1)) 1 ∧
      c = child (parent d (k-1)) 2 ∧ d = child (parent d (k-1)) 3 := by
  obtain ⟨hk, ta, tb, tc, td, hta, htb, htc, htd, ea, eb, ec, ed, hxor⟩ := (areSiblings_iff hd).mp h
  have ea' := congrArg UInt64.toNat ea
  have eb' := congrArg UInt64.toNat eb
  have ec' := congrArg UInt64.toNat ec
  have ed' := congrArg UInt64.toNat ed
  rw [hd.child_parent_toNat hk hta] at ea'
  rw [hd.child_parent_toNat hk htb] at eb'
  rw [hd.child_parent_toNat hk htc] at ec'
  rw [hd.child_parent_toNat hk htd] at ed'
  have mono : ∀ {x y : CellID} {u v : Nat},
      x.toNat = d.toNat / 2^((61 - 2*k) + 2) * 2^((61 - 2*k) + 2) + u * 2^(61 - 2*k) + 2^(60 - 2*k) →
      y.toNat = d.toNat / 2^((61 - 2*k) + 2) * 2^((61 - 2*k) + 2) + v * 2^(61 - 2*k) + 2^(60 - 2*k) →
      x.toNat < y.toNat → u < v := by
    intro x y u v hx hy hlt
    rw [hx, hy] at hlt
    exact Nat.lt_of_mul_lt_mul_right (Nat.lt_of_add_lt_add_left (Nat.lt_of_add_lt_add_right hlt))
  have h1 := mono ea' eb' hab
  have h2 := mono eb' ec' hbc
  have h3 := mono ec' ed' hcd
  have e0 : ta = 0 := by omega
  have e1 : tb = 1 := by omega
  have e2 : tc = 2 := by omega
  have e3 : td = 3 := by omega
  subst e0 e1 e2 e3
  exact ⟨hk, ea, eb, ec, ed⟩

end S2Proofs
