/-
  Soft-float facts needed by S2Proofs.Properties.C17 (signed zeros, x − x, 0·y, totality of ≤ away from NaN).
  All statements are about the bit-exact model `S2.F64`; no sampling.
-/
import Mathlib.Tactic.Ring
import Mathlib.Tactic.Linarith
import S2Proofs.F64Order
import S2.EdgeNum

namespace S2Proofs.EdgeNumLemmas
open S2 S2.Exact S2Proofs.F64Order S2.EdgeNum

/-! ### the fields of a float as arithmetic on the bit pattern -/


theorem xor63 (n : Nat) (h : n < 2^64) :
    n ^^^ 2^63 = if n < 2^63 then n + 2^63 else n - 2^63 := by
  split
  · rename_i h1
    apply Nat.eq_of_testBit_eq
    intro i
    rw [Nat.testBit_xor, Nat.testBit_two_pow, Nat.add_comm]
    rcases Nat.lt_trichotomy i 63 with hi | hi | hi
    · rw [Nat.testBit_two_pow_add_gt hi]; have hne : ¬ (63 = i) := by omega
      simp [hne]
    · subst hi; rw [Nat.testBit_two_pow_add_eq]; simp [Nat.testBit_lt_two_pow h1]
    · have : 2^63 + n < 2^i := by
        have : 2^64 ≤ 2^i := Nat.pow_le_pow_right (by norm_num) (by omega)
        omega
      rw [Nat.testBit_lt_two_pow this, Nat.testBit_lt_two_pow (by omega)]
      simp; omega
  · rename_i h1
    have h2 : n = 2^63 + (n - 2^63) := by omega
    generalize n - 2^63 = m at h2
    subst h2
    have hm : m < 2^63 := by omega
    apply Nat.eq_of_testBit_eq
    intro i
    rw [Nat.testBit_xor, Nat.testBit_two_pow]
    rcases Nat.lt_trichotomy i 63 with hi | hi | hi
    · rw [Nat.testBit_two_pow_add_gt hi]; have hne : ¬ (63 = i) := by omega
      simp [hne]
    · subst hi; rw [Nat.testBit_two_pow_add_eq]; simp [Nat.testBit_lt_two_pow hm]
    · have : 2^63 + m < 2^i := by
        have : 2^64 ≤ 2^i := Nat.pow_le_pow_right (by norm_num) (by omega)
        omega
      rw [Nat.testBit_lt_two_pow this, Nat.testBit_lt_two_pow (by omega)]
      simp; omega

theorem expField_nat (x : F64) : x.expField = x.bits.toNat / 2^52 % 2^11 := by
  unfold F64.expField
  rw [UInt64.toNat_and, UInt64.toNat_shiftRight]
  have : (0x7FF : UInt64).toNat = 2^11 - 1 := by decide
  rw [this, Nat.and_two_pow_sub_one_eq_mod, Nat.shiftRight_eq_div_pow]
  rfl

theorem fracField_nat (x : F64) : x.fracField = x.bits.toNat % 2^52 := by
  unfold F64.fracField
  rw [UInt64.toNat_and]
  have : (0xFFFFFFFFFFFFF : UInt64).toNat = 2^52 - 1 := by decide
  rw [this, Nat.and_two_pow_sub_one_eq_mod]

theorem signBit_nat (x : F64) : x.signBit = decide (2^63 ≤ x.bits.toNat) := by
  unfold F64.signBit
  have h := x.bits.toNat_lt
  have e : (x.bits >>> 63).toNat = x.bits.toNat / 2^63 := by
    rw [UInt64.toNat_shiftRight, Nat.shiftRight_eq_div_pow]; rfl
  by_cases hc : 2^63 ≤ x.bits.toNat
  · simp only [hc, decide_true]
    rw [bne_iff_ne]
    intro h0
    have := congrArg UInt64.toNat h0
    rw [e] at this
    simp at this
    omega
  · simp only [hc, decide_false]
    rw [bne_eq_false_iff_eq]
    apply UInt64.toNat_inj.mp
    rw [e]; simp; omega

theorem neg_bits_nat (x : F64) : (F64.neg x).bits.toNat =
    if x.bits.toNat < 2^63 then x.bits.toNat + 2^63 else x.bits.toNat - 2^63 := by
  unfold F64.neg
  simp only [UInt64.toNat_xor]
  have : (0x8000000000000000 : UInt64).toNat = 2^63 := by decide
  rw [this]
  exact xor63 _ x.bits.toNat_lt

theorem expField_neg (x : F64) : (F64.neg x).expField = x.expField := by
  rw [expField_nat, expField_nat, neg_bits_nat]
  have := x.bits.toNat_lt
  split <;> omega

theorem fracField_neg (x : F64) : (F64.neg x).fracField = x.fracField := by
  rw [fracField_nat, fracField_nat, neg_bits_nat]
  have := x.bits.toNat_lt
  split <;> omega

theorem signBit_neg (x : F64) : (F64.neg x).signBit = !x.signBit := by
  rw [signBit_nat, signBit_nat, neg_bits_nat]
  have := x.bits.toNat_lt
  by_cases h : x.bits.toNat < 2 ^ 63
  · rw [if_pos h]
    have h1 : 2 ^ 63 ≤ x.bits.toNat + 2 ^ 63 := by omega
    have h2 : ¬ 2 ^ 63 ≤ x.bits.toNat := by omega
    rw [decide_eq_true h1, decide_eq_false h2]; rfl
  · rw [if_neg h]
    have h1 : ¬ 2 ^ 63 ≤ x.bits.toNat - 2 ^ 63 := by omega
    have h2 : 2 ^ 63 ≤ x.bits.toNat := by omega
    rw [decide_eq_false h1, decide_eq_true h2]; rfl

theorem isNaN_neg (x : F64) : (F64.neg x).isNaN = x.isNaN := by
  unfold F64.isNaN; rw [expField_neg, fracField_neg]
theorem isInf_neg (x : F64) : (F64.neg x).isInf = x.isInf := by
  unfold F64.isInf; rw [expField_neg, fracField_neg]
theorem isZero_neg (x : F64) : (F64.neg x).isZero = x.isZero := by
  unfold F64.isZero; rw [expField_neg, fracField_neg]
theorem mant_neg (x : F64) : (F64.neg x).mant = x.mant := by
  unfold F64.mant; rw [expField_neg, fracField_neg]
theorem expo_neg (x : F64) : (F64.neg x).expo = x.expo := by
  unfold F64.expo; rw [expField_neg]

theorem toIntAt_neg (x : F64) (e : Int) : (F64.neg x).toIntAt e = -x.toIntAt e := by
  unfold F64.toIntAt
  rw [mant_neg, expo_neg, signBit_neg]
  cases x.signBit <;> simp

/-! ### signed zeros -/

theorem zero_facts (s : Bool) :
    (F64.zero s).isNaN = false ∧ (F64.zero s).isInf = false ∧ (F64.zero s).isZero = true ∧
      (F64.zero s).signBit = s := by
  cases s <;> decide

theorem fin_zero (s : Bool) : Fin (F64.zero s) := by cases s <;> decide

/-- **x − x = +0** for every finite x (round-to-nearest: an exact cancellation gives +0, and (±0) − (±0) = +0). -/
theorem sub_self {x : F64} (hx : Fin x) : F64.sub x x = F64.zero false := by
  unfold F64.sub F64.add
  simp only [isNaN_neg, isInf_neg, isZero_neg, signBit_neg, isNaN_false hx, isInf_false hx, Bool.or_self,
    Bool.false_eq_true, if_false, Bool.and_self, toIntAt_neg]
  by_cases hz : x.isZero = true
  · rw [if_pos hz]; cases x.signBit <;> rfl
  · rw [if_neg hz]
    simp

/-- (±0)·y = ±0 for finite y, with the XOR of the signs -/
theorem zero_mul {y : F64} (s : Bool) (hy : Fin y) : F64.mul (F64.zero s) y = F64.zero (s != y.signBit) := by
  obtain ⟨h1, h2, h3, h4⟩ := zero_facts s
  unfold F64.mul
  simp only [h1, h2, h3, h4, isNaN_false hy, isInf_false hy, Bool.or_self, Bool.false_eq_true, if_false,
    Bool.true_or, if_true]

/-- (±0) + (±0) = ±0 (−0 only for (−0) + (−0)) -/
theorem zero_add_zero (s t : Bool) : F64.add (F64.zero s) (F64.zero t) = F64.zero (s && t) := by
  cases s <;> cases t <;> decide +kernel

/-- a zero is finite and its exact value is 0 -/
theorem isZero_fin {z : F64} (h : z.isZero = true) : Fin z ∧ toInt z = 0 := by
  unfold F64.isZero at h
  simp only [Bool.and_eq_true, beq_iff_eq] at h
  refine ⟨by unfold F64Order.Fin; omega, ?_⟩
  unfold toInt F64.toIntAt F64.mant
  simp [h.1, h.2]

theorem le_zero_of_isZero {z : F64} (h : z.isZero = true) : F64.le fz z = true ∧ F64.le z fz = true := by
  obtain ⟨hf, hv⟩ := isZero_fin h
  have h0 : Fin fz ∧ toInt fz = 0 := by decide +kernel
  exact ⟨(le_iff h0.1 hf).mpr (by rw [hv, h0.2]), (le_iff hf h0.1).mpr (by rw [hv, h0.2])⟩

/-! ### vectors -/

theorem sub_self3 {a : V3} (ha : Fin3 a) : a.sub a = zero3 := by
  obtain ⟨h1, h2, h3⟩ := ha
  show V3.mk (F64.sub a.x a.x) (F64.sub a.y a.y) (F64.sub a.z a.z) = _
  rw [sub_self h1, sub_self h2, sub_self h3]; rfl

/-- 0·c is a (signed) zero for every finite vector c -/
theorem zero3_dot {c : V3} (hc : Fin3 c) : ∃ s, zero3.dot c = F64.zero s := by
  obtain ⟨h1, h2, h3⟩ := hc
  show ∃ s, F64.add (F64.add (F64.mul (F64.zero false) c.x) (F64.mul (F64.zero false) c.y))
    (F64.mul (F64.zero false) c.z) = F64.zero s
  rw [zero_mul false h1, zero_mul false h2, zero_mul false h3, zero_add_zero, zero_add_zero]
  exact ⟨_, rfl⟩

theorem zero3_norm2 : zero3.norm2 = F64.zero false := by decide +kernel

/-! ### comparisons away from NaN -/

/-- `t ≥ 0 ∨ t ≤ 0` for every non-NaN t (also ±Inf) -/
theorem ge_or_le_zero {t : F64} (h : t.isNaN = false) : (F64.ge t fz || F64.le t fz) = true := by
  by_cases hf : Fin t
  · have h0 : Fin fz ∧ toInt fz = 0 := by decide +kernel
    rw [Bool.or_eq_true]
    unfold F64.ge
    rw [le_iff h0.1 hf, le_iff hf h0.1]
    omega
  · have hinf : t.isInf = true := by
      unfold F64Order.Fin at hf
      unfold F64.isNaN at h
      unfold F64.isInf
      simp only [ne_eq, Decidable.not_not] at hf
      simp only [hf, beq_self_eq_true, Bool.true_and, bne_eq_false_iff_eq] at h
      simp [hf, h]
    have hz : fz.isNaN = false ∧ fz.isInf = false := by decide +kernel
    unfold F64.ge F64.le F64.cmp
    simp only [h, hz.1, hz.2, hinf, Bool.or_false, Bool.or_true, Bool.false_eq_true, if_false, if_true,
      Bool.and_false, Bool.and_true, Bool.or_self]
    cases t.signBit <;> simp

/-- a finite float whose exact value is 0 is a zero -/
theorem isZero_of_toInt {t : F64} (h : toInt t = 0) : t.isZero = true := by
  unfold toInt F64.toIntAt at h
  have hp : (2 : Int) ^ (t.expo - (-1074)).toNat ≠ 0 := by positivity
  have hm : (t.mant : Int) = 0 := by
    simp only at h
    split at h
    · have := neg_eq_zero.mp h
      exact (mul_eq_zero.mp this).resolve_right hp
    · exact (mul_eq_zero.mp h).resolve_right hp
  have hm' : t.mant = 0 := by exact_mod_cast hm
  unfold F64.mant at hm'
  unfold F64.isZero
  by_cases he : t.expField = 0
  · simp [he] at hm' ⊢; exact hm'
  · have : (t.expField == 0) = false := by simp [he]
    rw [this] at hm'
    simp at hm'

theorem isInf_of_not_fin {t : F64} (h : t.isNaN = false) (hf : ¬ Fin t) : t.isInf = true := by
  unfold F64Order.Fin at hf
  unfold F64.isNaN at h
  unfold F64.isInf
  simp only [ne_eq, Decidable.not_not] at hf
  simp only [hf, beq_self_eq_true, Bool.true_and, bne_eq_false_iff_eq] at h
  simp [hf, h]

/-- comparison of an infinity with +0 -/
theorem lt_inf_zero {t : F64} (h : t.isNaN = false) (hinf : t.isInf = true) :
    F64.lt t fz = t.signBit ∧ F64.lt fz t = !t.signBit := by
  have hz : fz.isNaN = false ∧ fz.isInf = false := by decide +kernel
  unfold F64.lt F64.cmp
  simp only [h, hz.1, hz.2, hinf, Bool.or_false, Bool.or_true, Bool.false_eq_true, if_false, if_true,
    Bool.and_false, Bool.and_true, Bool.or_self]
  cases t.signBit <;> simp

/-- a non-NaN float is negative, positive, or a zero -/
theorem zero_trichotomy {t : F64} (h : t.isNaN = false) :
    F64.lt t fz = true ∨ F64.lt fz t = true ∨ t.isZero = true := by
  by_cases hf : Fin t
  · have h0 : Fin fz ∧ toInt fz = 0 := by decide +kernel
    rw [lt_iff hf h0.1, lt_iff h0.1 hf, h0.2]
    rcases lt_trichotomy (toInt t) 0 with hh | hh | hh
    · exact Or.inl hh
    · exact Or.inr (Or.inr (isZero_of_toInt hh))
    · exact Or.inr (Or.inl hh)
  · obtain ⟨h1, h2⟩ := lt_inf_zero h (isInf_of_not_fin h hf)
    rw [h1, h2]
    cases t.signBit <;> simp

/-- `math.Min(+0, y)` is a zero unless y is NaN or negative -/
theorem fmin_zero_left {y : F64} (hn : y.isNaN = false) (hl : F64.lt y fz = false) :
    (F64.fmin (F64.zero false) y).isZero = true := by
  obtain ⟨z1, z2, z3, z4⟩ := zero_facts false
  have hneg : (y.isInf && y.signBit) = false := by
    by_cases hi : y.isInf = true
    · have := (lt_inf_zero hn hi).1
      rw [hl] at this
      simp [← this]
    · simp [hi]
  unfold F64.fmin
  simp only [z1, z2, z3, z4, hn, hneg, Bool.false_and, Bool.or_self, Bool.false_eq_true, if_false, Bool.true_and]
  by_cases hz : y.isZero = true
  · simp [hz]
  · simp only [hz]
    by_cases hlt : F64.lt (F64.zero false) y = true
    · simp [hlt, z3]
    · exfalso
      rcases zero_trichotomy hn with h | h | h
      · rw [hl] at h; cases h
      · exact hlt h
      · exact hz h

/-- `math.Min(x, +0)` is a zero unless x is NaN or negative -/
theorem fmin_zero_right {x : F64} (hn : x.isNaN = false) (hl : F64.lt x fz = false) :
    (F64.fmin x (F64.zero false)).isZero = true := by
  obtain ⟨z1, z2, z3, z4⟩ := zero_facts false
  have hneg : (x.isInf && x.signBit) = false := by
    by_cases hi : x.isInf = true
    · have := (lt_inf_zero hn hi).1
      rw [hl] at this
      simp [← this]
    · simp [hi]
  have hl' : F64.lt x (F64.zero false) = false := hl
  unfold F64.fmin
  simp only [z1, z2, z3, z4, hn, hneg, hl', Bool.false_and, Bool.or_self, Bool.false_eq_true, if_false, Bool.and_true]
  by_cases hz : x.isZero = true
  · simp only [hz, if_true]
    split
    · exact hz
    · exact z3
  · simp only [hz]; exact z3

/-- the clamp `ChordAngleFromSquaredLength` leaves a zero untouched (`±0 > 4` is false) -/
theorem chordFromLen2_zero {z : F64} (h : z.isZero = true) : chordFromLen2 z = z := by
  obtain ⟨hf, hv⟩ := isZero_fin h
  have h4 : Fin f4 ∧ 0 < toInt f4 := by decide +kernel
  have hgt : F64.gt z f4 = false := by
    cases hc : F64.gt z f4
    · rfl
    · have := (gt_iff hf h4.1).mp hc
      omega
  unfold chordFromLen2
  simp [hgt]

/-- the clamp never returns a value above 4 (a NaN passes through: `NaN > 4` is false) -/
theorem chordFromLen2_le_four (y : F64) : F64.gt (chordFromLen2 y) f4 = false := by
  unfold chordFromLen2
  by_cases h : F64.gt y f4 = true
  · rw [if_pos h]; decide +kernel
  · rw [if_neg h]; simpa using h

end S2Proofs.EdgeNumLemmas
