/-
  Sign-symmetry lemmas for the soft-float `S2.F64`: negation only flips the sign bit,
  rounding commutes with negation, multiplication / addition are commutative on the
  relevant domains, and `|y - x|² = |x - y|²` holds bit for bit.
-/
import Mathlib.Tactic.Ring
import Mathlib.Tactic.Linarith
import S2Proofs.F64Order
import S2Proofs.Codec.F64Exact

set_option linter.unusedSimpArgs false

namespace S2Proofs.F64Sym
open S2 S2Proofs.F64Order S2Proofs.Codec

/-! ### A. field lemmas of `neg` -/

theorem nat_xor_hi (c : Nat) (hlt : c < 2 ^ 63) :
    (2 ^ 63 + c) ^^^ 2 ^ 63 = c ∧ c ^^^ 2 ^ 63 = 2 ^ 63 + c := by
  have h1 : 2 ^ 63 + c = 2 ^ 63 * 1 ||| c := by
    rw [← Nat.two_pow_add_eq_or_of_lt hlt, Nat.mul_one]
  rw [h1]
  constructor <;>
  · apply Nat.eq_of_testBit_eq; intro i
    simp only [Nat.testBit_xor, Nat.testBit_or, Nat.testBit_two_pow, Nat.mul_one]
    by_cases hi : 63 = i
    · subst hi; simp [Nat.testBit_lt_two_pow hlt]
    · simp [hi]

/-- flipping the top bit, on the value of the word -/
theorem xor_toNat (b : UInt64) : (b ^^^ 0x8000000000000000).toNat =
    if b.toNat < 2 ^ 63 then b.toNat + 2 ^ 63 else b.toNat - 2 ^ 63 := by
  rw [UInt64.toNat_xor]
  have h : (0x8000000000000000 : UInt64).toNat = 2 ^ 63 := by decide
  rw [h]
  have hb := b.toNat_lt
  split
  · rename_i hlt
    rw [(nat_xor_hi _ hlt).2]; omega
  · rename_i hge
    have : b.toNat = 2 ^ 63 + (b.toNat - 2 ^ 63) := by omega
    have hlt : b.toNat - 2 ^ 63 < 2 ^ 63 := by omega
    rw [this, (nat_xor_hi _ hlt).1]; omega

theorem neg_neg (x : F64) : F64.neg (F64.neg x) = x := by
  cases x with | mk b =>
  simp only [F64.neg, UInt64.xor_assoc, UInt64.xor_self, UInt64.xor_zero]

theorem expField_eq (x : F64) : x.expField = x.bits.toNat / 2 ^ 52 % 2 ^ 11 := by
  unfold F64.expField
  rw [UInt64.toNat_and, UInt64.toNat_shiftRight]
  have h52 : (52 : UInt64).toNat % 64 = 52 := by decide
  have h7 : (0x7FF : UInt64).toNat = 2 ^ 11 - 1 := by decide
  rw [h52, h7, Nat.and_two_pow_sub_one_eq_mod, Nat.shiftRight_eq_div_pow]

theorem fracField_eq (x : F64) : x.fracField = x.bits.toNat % 2 ^ 52 := by
  unfold F64.fracField
  rw [UInt64.toNat_and]
  have h7 : (0xFFFFFFFFFFFFF : UInt64).toNat = 2 ^ 52 - 1 := by decide
  rw [h7, Nat.and_two_pow_sub_one_eq_mod]

theorem signBit_eq (x : F64) : x.signBit = decide (2 ^ 63 ≤ x.bits.toNat) := by
  unfold F64.signBit
  have hb := x.bits.toNat_lt
  have h63 : (63 : UInt64).toNat % 64 = 63 := by decide
  have h0 : (0 : UInt64).toNat = 0 := by decide
  have hs : (x.bits >>> 63).toNat = x.bits.toNat / 2 ^ 63 := by
    rw [UInt64.toNat_shiftRight, h63, Nat.shiftRight_eq_div_pow]
  by_cases h : 2 ^ 63 ≤ x.bits.toNat
  · have : (x.bits >>> 63) ≠ 0 := by
      intro hc; rw [← UInt64.toNat_inj, hs, h0] at hc; omega
    rw [decide_eq_true h]; simp [this]
  · have : (x.bits >>> 63) = 0 := by
      rw [← UInt64.toNat_inj, hs, h0]; omega
    rw [decide_eq_false h, this]; rfl

theorem expField_neg (x : F64) : (F64.neg x).expField = x.expField := by
  rw [expField_eq, expField_eq]
  show (x.bits ^^^ 0x8000000000000000).toNat / 2 ^ 52 % 2 ^ 11 = _
  rw [xor_toNat]
  have hb := x.bits.toNat_lt
  split <;> omega

theorem fracField_neg (x : F64) : (F64.neg x).fracField = x.fracField := by
  rw [fracField_eq, fracField_eq]
  show (x.bits ^^^ 0x8000000000000000).toNat % 2 ^ 52 = _
  rw [xor_toNat]
  have hb := x.bits.toNat_lt
  split <;> omega

theorem signBit_neg (x : F64) : (F64.neg x).signBit = !x.signBit := by
  rw [signBit_eq, signBit_eq]
  show decide (2 ^ 63 ≤ (x.bits ^^^ 0x8000000000000000).toNat) = _
  rw [xor_toNat]
  have hb := x.bits.toNat_lt
  by_cases h : x.bits.toNat < 2 ^ 63
  · rw [if_pos h]
    have h1 : 2 ^ 63 ≤ x.bits.toNat + 2 ^ 63 := by omega
    have h2 : ¬ 2 ^ 63 ≤ x.bits.toNat := by omega
    rw [decide_eq_true h1, decide_eq_false h2]; rfl
  · rw [if_neg h]
    have h1 : ¬ 2 ^ 63 ≤ x.bits.toNat - 2 ^ 63 := by omega
    have h2 : 2 ^ 63 ≤ x.bits.toNat := by omega
    rw [decide_eq_true h2, decide_eq_false h1]; rfl

theorem mant_neg (x : F64) : (F64.neg x).mant = x.mant := by
  unfold F64.mant; rw [expField_neg, fracField_neg]

theorem expo_neg (x : F64) : (F64.neg x).expo = x.expo := by
  unfold F64.expo; rw [expField_neg]

theorem isNaN_neg (x : F64) : (F64.neg x).isNaN = x.isNaN := by
  unfold F64.isNaN; rw [expField_neg, fracField_neg]

theorem isInf_neg (x : F64) : (F64.neg x).isInf = x.isInf := by
  unfold F64.isInf; rw [expField_neg, fracField_neg]

theorem isZero_neg (x : F64) : (F64.neg x).isZero = x.isZero := by
  unfold F64.isZero; rw [expField_neg, fracField_neg]

theorem isFinite_neg' (x : F64) : (F64.neg x).isFinite = x.isFinite := by
  unfold F64.isFinite; rw [expField_neg]

theorem isFinite_neg (x : F64) : F64Order.Fin (F64.neg x) ↔ F64Order.Fin x := by
  unfold F64Order.Fin; rw [expField_neg]

theorem toIntAt_neg (x : F64) (e : Int) : (F64.neg x).toIntAt e = - x.toIntAt e := by
  unfold F64.toIntAt
  rw [mant_neg, expo_neg, signBit_neg]
  cases x.signBit <;> simp

/-! ### B. rounding commutes with negation -/

theorem zero_neg (s : Bool) : F64.zero (!s) = F64.neg (F64.zero s) := by
  cases s <;> decide

theorem inf_neg (s : Bool) : F64.inf (!s) = F64.neg (F64.inf s) := by
  cases s <;> decide

/-- attaching the opposite sign to a 63-bit payload = flipping the top bit -/
theorem signOr_neg (s : Bool) (A : UInt64) (hA : A.toNat < 2 ^ 63) :
    (⟨(if (!s) = true then (0x8000000000000000 : UInt64) else 0) ||| A⟩ : F64) =
      F64.neg ⟨(if s = true then (0x8000000000000000 : UInt64) else 0) ||| A⟩ := by
  have hH : (0x8000000000000000 : UInt64).toNat = 2 ^ 63 * 1 := by decide
  have h0 : (0 : UInt64).toNat = 0 := by decide
  have e1 : ((0x8000000000000000 : UInt64) ||| A).toNat = 2 ^ 63 + A.toNat := by
    rw [UInt64.toNat_or, hH, ← Nat.two_pow_add_eq_or_of_lt hA]; omega
  have e0 : ((0 : UInt64) ||| A).toNat = A.toNat := by
    rw [UInt64.toNat_or, h0, Nat.zero_or]
  unfold F64.neg
  congr 1
  rw [← UInt64.toNat_inj, xor_toNat]
  cases s
  · simp only [Bool.not_false, if_true, Bool.false_eq_true, if_false, e0, e1, if_pos hA]; omega
  · simp only [Bool.not_true, if_true, Bool.false_eq_true, if_false, e0, e1]
    rw [if_neg (by omega)]; omega

theorem quotF_lt (n d : Nat) (e : Int) (he : (n.log2 : Int) - (d.log2 : Int) - 53 ≤ e) :
    (quotF n d e).1 < 2 ^ 54 := by
  rcases Nat.eq_zero_or_pos d with hd | hd
  · subst hd; unfold quotF; split <;> simp
  have hn : n < 2 ^ (n.log2 + 1) := Nat.lt_log2_self
  have hd2 : 2 ^ d.log2 ≤ d := Nat.log2_self_le (by omega)
  unfold quotF
  split
  · rename_i h0
    simp only
    have hpos : 0 < d * 2 ^ e.toNat := Nat.mul_pos hd (Nat.two_pow_pos _)
    rw [Nat.div_lt_iff_lt_mul hpos]
    have h1 : n.log2 + 1 ≤ 54 + d.log2 + e.toNat := by omega
    calc n < 2 ^ (n.log2 + 1) := hn
      _ ≤ 2 ^ (54 + d.log2 + e.toNat) := Nat.pow_le_pow_right (by norm_num) h1
      _ = 2 ^ 54 * (2 ^ d.log2 * 2 ^ e.toNat) := by rw [pow_add, pow_add, Nat.mul_assoc]
      _ ≤ 2 ^ 54 * (d * 2 ^ e.toNat) := Nat.mul_le_mul_left _ (Nat.mul_le_mul_right _ hd2)
  · rename_i h0
    simp only
    rw [Nat.div_lt_iff_lt_mul hd]
    have h1 : n.log2 + 1 + (-e).toNat ≤ 54 + d.log2 := by omega
    calc n * 2 ^ (-e).toNat < 2 ^ (n.log2 + 1) * 2 ^ (-e).toNat :=
          Nat.mul_lt_mul_of_pos_right hn (Nat.two_pow_pos _)
      _ = 2 ^ (n.log2 + 1 + (-e).toNat) := by rw [← pow_add]
      _ ≤ 2 ^ (54 + d.log2) := Nat.pow_le_pow_right (by norm_num) h1
      _ = 2 ^ 54 * 2 ^ d.log2 := by rw [pow_add]
      _ ≤ 2 ^ 54 * d := Nat.mul_le_mul_left _ hd2

theorem adjE_ge (n d : Nat) (e0 : Int) : e0 ≤ adjE n d e0 := by
  unfold adjE
  simp only
  split <;> [skip; split] <;> omega

theorem finTail_neg (s : Bool) (q : Nat) (e : Int) (hq : q < 2 ^ 55) :
    (if q < 2 ^ 52 then
        (⟨(if (!s) = true then (0x8000000000000000 : UInt64) else 0) ||| UInt64.ofNat q⟩ : F64)
      else if e + 1075 ≥ 2047 then F64.inf (!s)
      else ⟨(if (!s) = true then (0x8000000000000000 : UInt64) else 0) |||
              (UInt64.ofNat (e + 1075).toNat <<< 52) ||| UInt64.ofNat (q - 2 ^ 52)⟩) =
    F64.neg (if q < 2 ^ 52 then
        (⟨(if s = true then (0x8000000000000000 : UInt64) else 0) ||| UInt64.ofNat q⟩ : F64)
      else if e + 1075 ≥ 2047 then F64.inf s
      else ⟨(if s = true then (0x8000000000000000 : UInt64) else 0) |||
              (UInt64.ofNat (e + 1075).toNat <<< 52) ||| UInt64.ofNat (q - 2 ^ 52)⟩) := by
  split
  · rename_i hq
    apply signOr_neg
    rw [UInt64.toNat_ofNat']
    exact lt_of_le_of_lt (Nat.mod_le _ _) (lt_trans hq (by norm_num))
  · rename_i hq2
    split
    · exact inf_neg s
    · rename_i hbe
      rw [UInt64.or_assoc, UInt64.or_assoc]
      apply signOr_neg
      rw [UInt64.toNat_or]
      apply Nat.or_lt_two_pow
      · rw [UInt64.toNat_shiftLeft, UInt64.toNat_ofNat']
        have h52 : (52 : UInt64).toNat % 64 = 52 := by decide
        rw [h52, Nat.shiftLeft_eq]
        omega
      · rw [UInt64.toNat_ofNat']
        omega

theorem finR_neg (s : Bool) (e : Int) (qrd : Nat × Nat × Nat) (hq : qrd.1 < 2 ^ 54) :
    finR (!s) e qrd = F64.neg (finR s e qrd) := by
  obtain ⟨q, r, den⟩ := qrd
  simp only at hq
  unfold finR
  simp only
  have key : ∀ q1 : Nat, q1 < 2 ^ 55 →
      (if (if q1 ≥ 2 ^ 53 then (q1 / 2, e + 1) else (q1, e)).1 < 2 ^ 52 then
        (⟨(if (!s) = true then (0x8000000000000000 : UInt64) else 0) |||
            UInt64.ofNat (if q1 ≥ 2 ^ 53 then (q1 / 2, e + 1) else (q1, e)).1⟩ : F64)
      else if (if q1 ≥ 2 ^ 53 then (q1 / 2, e + 1) else (q1, e)).2 + 1075 ≥ 2047 then F64.inf (!s)
      else ⟨(if (!s) = true then (0x8000000000000000 : UInt64) else 0) |||
              (UInt64.ofNat ((if q1 ≥ 2 ^ 53 then (q1 / 2, e + 1) else (q1, e)).2 + 1075).toNat <<< 52) |||
              UInt64.ofNat ((if q1 ≥ 2 ^ 53 then (q1 / 2, e + 1) else (q1, e)).1 - 2 ^ 52)⟩) =
      F64.neg (if (if q1 ≥ 2 ^ 53 then (q1 / 2, e + 1) else (q1, e)).1 < 2 ^ 52 then
        (⟨(if s = true then (0x8000000000000000 : UInt64) else 0) |||
            UInt64.ofNat (if q1 ≥ 2 ^ 53 then (q1 / 2, e + 1) else (q1, e)).1⟩ : F64)
      else if (if q1 ≥ 2 ^ 53 then (q1 / 2, e + 1) else (q1, e)).2 + 1075 ≥ 2047 then F64.inf s
      else ⟨(if s = true then (0x8000000000000000 : UInt64) else 0) |||
              (UInt64.ofNat ((if q1 ≥ 2 ^ 53 then (q1 / 2, e + 1) else (q1, e)).2 + 1075).toNat <<< 52) |||
              UInt64.ofNat ((if q1 ≥ 2 ^ 53 then (q1 / 2, e + 1) else (q1, e)).1 - 2 ^ 52)⟩) := by
    intro q1 h1
    by_cases hc : q1 ≥ 2 ^ 53
    · rw [if_pos hc]; exact finTail_neg s (q1 / 2) (e + 1) (by omega)
    · rw [if_neg hc]; exact finTail_neg s q1 e h1
  split
  · exact key (q + 1) (by omega)
  · exact key q (by omega)

theorem roundNE_neg (s : Bool) (n d : Nat) :
    F64.roundNE (!s) n d = F64.neg (F64.roundNE s n d) := by
  rw [roundNE_eq, roundNE_eq]
  split
  · exact zero_neg s
  · apply finR_neg
    apply quotF_lt
    have := adjE_ge n d ((n.log2 : Int) - (d.log2 : Int) - 1 - 52)
    split <;> omega

theorem roundDyadic_neg (s : Bool) (m : Nat) (e : Int) :
    F64.roundDyadic (!s) m e = F64.neg (F64.roundDyadic s m e) := by
  unfold F64.roundDyadic
  split <;> exact roundNE_neg s _ _

/-! ### C. multiplication -/

theorem mul_neg_neg (x y : F64) : F64.mul (F64.neg x) (F64.neg y) = F64.mul x y := by
  unfold F64.mul
  simp only [isNaN_neg, isInf_neg, isZero_neg, mant_neg, expo_neg, signBit_neg]
  have : ((!x.signBit) != (!y.signBit)) = (x.signBit != y.signBit) := by
    cases x.signBit <;> cases y.signBit <;> rfl
  rw [this]

theorem mul_comm (x y : F64) : F64.mul x y = F64.mul y x := by
  unfold F64.mul
  simp only [Bool.or_comm y.isNaN, Bool.or_comm y.isInf, Bool.or_comm y.isZero,
    Nat.mul_comm y.mant, Int.add_comm y.expo, bne_comm (a := y.signBit)]

/-- negating one factor negates the product, except where the product is the (sign-less) NaN -/
theorem mul_neg_left (x y : F64) (hx : x.isNaN = false) (hy : y.isNaN = false)
    (h1 : ¬ (x.isZero = true ∧ y.isInf = true)) (h2 : ¬ (x.isInf = true ∧ y.isZero = true)) :
    F64.mul (F64.neg x) y = F64.neg (F64.mul x y) := by
  unfold F64.mul
  simp only [isNaN_neg, isInf_neg, isZero_neg, mant_neg, expo_neg, signBit_neg, hx, hy,
    Bool.or_self, Bool.false_eq_true, if_false]
  have hs : ((!x.signBit) != y.signBit) = !(x.signBit != y.signBit) := by
    cases x.signBit <;> cases y.signBit <;> rfl
  rw [hs]
  have ezi : ∀ z : F64, z.isZero = true → z.isInf = true → False := by
    intro z hz hi
    simp only [F64.isZero, F64.isInf, Bool.and_eq_true, beq_iff_eq] at hz hi
    omega
  by_cases hi : (x.isInf || y.isInf) = true
  · rw [if_pos hi, if_pos hi]
    have hz : (x.isZero || y.isZero) = false := by
      rcases Bool.or_eq_true _ _ ▸ hi with hi | hi
      · cases hxz : x.isZero
        · cases hyz : y.isZero
          · rfl
          · exact absurd ⟨hi, hyz⟩ h2
        · exact (ezi x hxz hi).elim
      · cases hyz : y.isZero
        · cases hxz : x.isZero
          · rfl
          · exact absurd ⟨hxz, hi⟩ h1
        · exact (ezi y hyz hi).elim
    simp only [hz, Bool.false_eq_true, if_false]
    exact inf_neg _
  · rw [if_neg hi, if_neg hi]
    split
    · exact zero_neg _
    · exact roundDyadic_neg _ _ _

example : ∃ x y : F64, x.isNaN = false ∧ y.isNaN = false ∧ ¬ (x.isZero = true ∧ y.isInf = true) ∧
    ¬ (x.isInf = true ∧ y.isZero = true) ∧ F64.mul (F64.neg x) y = F64.neg (F64.mul x y) :=
  ⟨F64.three, F64.half, by decide +kernel⟩

theorem mul_neg_right (x y : F64) (hx : x.isNaN = false) (hy : y.isNaN = false)
    (h1 : ¬ (x.isZero = true ∧ y.isInf = true)) (h2 : ¬ (x.isInf = true ∧ y.isZero = true)) :
    F64.mul x (F64.neg y) = F64.neg (F64.mul x y) := by
  rw [mul_comm x (F64.neg y), mul_comm x y]
  exact mul_neg_left y x hy hx (fun h => h2 ⟨h.2, h.1⟩) (fun h => h1 ⟨h.2, h.1⟩)

example : ∃ x y : F64, x.isNaN = false ∧ y.isNaN = false ∧ ¬ (x.isZero = true ∧ y.isInf = true) ∧
    ¬ (x.isInf = true ∧ y.isZero = true) ∧ F64.mul x (F64.neg y) = F64.neg (F64.mul x y) :=
  ⟨F64.inf true, F64.half, by decide +kernel⟩

/-! ### D. addition is commutative on finite values -/

theorem add_comm {x y : F64} (hx : F64Order.Fin x) (hy : F64Order.Fin y) :
    F64.add x y = F64.add y x := by
  unfold F64.add
  simp only [isNaN_false hx, isNaN_false hy, isInf_false hx, isInf_false hy, Bool.or_self,
    Bool.false_eq_true, if_false, Bool.and_comm y.isZero, Bool.and_comm y.signBit,
    Int.min_comm y.expo, Int.add_comm (y.toIntAt _)]

example : ∃ x y : F64, F64Order.Fin x ∧ F64Order.Fin y ∧ F64.add x y = F64.add y x :=
  ⟨F64.three, F64.neg F64.half, by decide +kernel⟩

/-! ### E. swapping the operands of a subtraction -/

theorem sub_swap {x y : F64} (hx : F64Order.Fin x) (hy : F64Order.Fin y) :
    F64.sub y x = F64.neg (F64.sub x y) ∨
      (F64.sub y x = F64.zero false ∧ F64.sub x y = F64.zero false) := by
  have hnx := (isFinite_neg x).mpr hx
  have hny := (isFinite_neg y).mpr hy
  unfold F64.sub F64.add
  simp only [isNaN_false hx, isNaN_false hy, isInf_false hx, isInf_false hy, isNaN_false hnx,
    isNaN_false hny, isInf_false hnx, isInf_false hny, Bool.or_self, Bool.false_eq_true, if_false,
    isZero_neg, signBit_neg, expo_neg, toIntAt_neg]
  by_cases hz : (x.isZero && y.isZero) = true
  · rw [if_pos hz, if_pos (by rw [Bool.and_comm]; exact hz)]
    cases x.signBit <;> cases y.signBit <;> decide
  · rw [if_neg hz, if_neg (by rw [Bool.and_comm]; exact hz), Int.min_comm y.expo x.expo]
    generalize x.toIntAt (min x.expo y.expo) = a
    generalize y.toIntAt (min x.expo y.expo) = b
    by_cases h0 : a + -b = 0
    · right
      have h0' : b + -a = 0 := by omega
      simp [h0, h0']
    · left
      have h0' : b + -a ≠ 0 := by omega
      have e1 : (b + -a == 0) = false := by simpa using h0'
      have e2 : (a + -b == 0) = false := by simpa using h0
      simp only [e1, e2, Bool.false_eq_true, if_false]
      have hn : (b + -a).natAbs = (a + -b).natAbs := by omega
      have hs : decide (b + -a < 0) = !decide (a + -b < 0) := by
        by_cases hlt : a + -b < 0
        · have : ¬ (b + -a < 0) := by omega
          simp [hlt, this]
        · have : b + -a < 0 := by omega
          simp [hlt, this]
      rw [hn, hs]
      exact roundDyadic_neg _ _ _

example : ∃ x y : F64, F64Order.Fin x ∧ F64Order.Fin y ∧ F64.sub y x = F64.neg (F64.sub x y) :=
  ⟨F64.three, F64.half, by decide +kernel⟩

/-- the second alternative of `sub_swap` does occur (equal operands) -/
example : ∃ x y : F64, F64Order.Fin x ∧ F64Order.Fin y ∧
    F64.sub y x = F64.zero false ∧ F64.sub x y = F64.zero false ∧
    F64.sub y x ≠ F64.neg (F64.sub x y) :=
  ⟨F64.three, F64.three, by decide +kernel⟩

theorem mul_self_neg (a : F64) : F64.mul (F64.neg a) (F64.neg a) = F64.mul a a :=
  mul_neg_neg a a

theorem sq_sub_swap {x y : F64} (hx : F64Order.Fin x) (hy : F64Order.Fin y) :
    F64.mul (F64.sub y x) (F64.sub y x) = F64.mul (F64.sub x y) (F64.sub x y) := by
  rcases sub_swap hx hy with h | ⟨h1, h2⟩
  · rw [h, mul_neg_neg]
  · rw [h1, h2]

example : ∃ x y : F64, F64Order.Fin x ∧ F64Order.Fin y ∧
    F64.mul (F64.sub y x) (F64.sub y x) = F64.mul (F64.sub x y) (F64.sub x y) :=
  ⟨F64.three, F64.half, by decide +kernel⟩

/-! ### F. vectors -/

theorem norm2_sub_swap {v w : V3} (hv : Fin3 v) (hw : Fin3 w) :
    (w.sub v).norm2 = (v.sub w).norm2 := by
  obtain ⟨hv1, hv2, hv3⟩ := hv
  obtain ⟨hw1, hw2, hw3⟩ := hw
  unfold V3.norm2 V3.dot V3.sub
  show F64.add (F64.add (F64.mul (F64.sub w.x v.x) (F64.sub w.x v.x))
        (F64.mul (F64.sub w.y v.y) (F64.sub w.y v.y))) (F64.mul (F64.sub w.z v.z) (F64.sub w.z v.z)) =
      F64.add (F64.add (F64.mul (F64.sub v.x w.x) (F64.sub v.x w.x))
        (F64.mul (F64.sub v.y w.y) (F64.sub v.y w.y))) (F64.mul (F64.sub v.z w.z) (F64.sub v.z w.z))
  rw [sq_sub_swap hv1 hw1, sq_sub_swap hv2 hw2, sq_sub_swap hv3 hw3]

theorem v3add_comm {v w : V3} (hv : Fin3 v) (hw : Fin3 w) : v.add w = w.add v := by
  obtain ⟨hv1, hv2, hv3⟩ := hv
  obtain ⟨hw1, hw2, hw3⟩ := hw
  unfold V3.add
  show V3.mk (F64.add v.x w.x) (F64.add v.y w.y) (F64.add v.z w.z) =
    V3.mk (F64.add w.x v.x) (F64.add w.y v.y) (F64.add w.z v.z)
  rw [add_comm hv1 hw1, add_comm hv2 hw2, add_comm hv3 hw3]

example : ∃ v w : V3, Fin3 v ∧ Fin3 w ∧ (w.sub v).norm2 = (v.sub w).norm2 ∧ v.add w = w.add v :=
  ⟨⟨F64.three, F64.half, F64.neg F64.one⟩, ⟨F64.one, F64.zero true, F64.four⟩, by decide +kernel⟩

end S2Proofs.F64Sym
