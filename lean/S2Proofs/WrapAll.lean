/-
  S2Proofs.WrapAll — `wrapIJ` / `cellIDFromFaceIJWrap` / `cellIDFromFaceIJSame` for EVERY argument pair:
  the remaining case "both coordinates out of range" clamps to one of the four corners (−1 | 2^30)² of the face, i.e.
  24 closed soft-float evaluations (`corner_table`, kernel); together with `WrapIJ` this gives: the result is always a
  valid leaf, on the same face iff both coordinates are in range.
-/
import S2Proofs.WrapIJ
open S2 S2.STUV
set_option linter.unusedVariables false
namespace S2Proofs.C01W

/-- the 24 corner wraps (face, corner): each lands in a corner leaf of an adjacent face -/
theorem corner0 : wrapIJ 0 (-1) (-1) = (5, 0, 1073741823) ∧ wrapIJ 0 (-1) 1073741824 = (2, 0, 1073741823) ∧
    wrapIJ 0 1073741824 (-1) = (5, 1073741823, 1073741823) ∧ wrapIJ 0 1073741824 1073741824 = (2, 0, 0) := by
  decide +kernel
theorem corner1 : wrapIJ 1 (-1) (-1) = (5, 1073741823, 1073741823) ∧ wrapIJ 1 (-1) 1073741824 = (2, 0, 0) ∧
    wrapIJ 1 1073741824 (-1) = (5, 1073741823, 0) ∧ wrapIJ 1 1073741824 1073741824 = (2, 1073741823, 0) := by
  decide +kernel
theorem corner2 : wrapIJ 2 (-1) (-1) = (1, 0, 1073741823) ∧ wrapIJ 2 (-1) 1073741824 = (4, 0, 1073741823) ∧
    wrapIJ 2 1073741824 (-1) = (1, 1073741823, 1073741823) ∧ wrapIJ 2 1073741824 1073741824 = (4, 0, 0) := by
  decide +kernel
theorem corner3 : wrapIJ 3 (-1) (-1) = (2, 1073741823, 0) ∧ wrapIJ 3 (-1) 1073741824 = (2, 1073741823, 1073741823) ∧
    wrapIJ 3 1073741824 (-1) = (5, 1073741823, 0) ∧ wrapIJ 3 1073741824 1073741824 = (5, 0, 0) := by
  decide +kernel
theorem corner4 : wrapIJ 4 (-1) (-1) = (2, 1073741823, 1073741823) ∧ wrapIJ 4 (-1) 1073741824 = (2, 0, 1073741823) ∧
    wrapIJ 4 1073741824 (-1) = (5, 0, 0) ∧ wrapIJ 4 1073741824 1073741824 = (5, 0, 1073741823) := by
  decide +kernel
theorem corner5 : wrapIJ 5 (-1) (-1) = (4, 1073741823, 0) ∧ wrapIJ 5 (-1) 1073741824 = (4, 1073741823, 1073741823) ∧
    wrapIJ 5 1073741824 (-1) = (1, 1073741823, 0) ∧ wrapIJ 5 1073741824 1073741824 = (1, 0, 0) := by
  decide +kernel

/-- `wrapIJ` only sees the clamped arguments -/
theorem wrapIJ_clamp (f : Nat) (i j : Int) :
    wrapIJ f i j = wrapIJ f (clampInt i (-1) 1073741824) (clampInt j (-1) 1073741824) := by
  have idem : ∀ x : Int, clampInt (clampInt x (-1) 1073741824) (-1) 1073741824 = clampInt x (-1) 1073741824 := by
    intro x; unfold clampInt; split_ifs <;> omega
  rw [WrapFloat.wrapIJ_eq, WrapFloat.wrapIJ_eq f (clampInt i (-1) 1073741824), idem, idem]

/-- in-range predicate of leaf coordinates -/
def InR (x : Int) : Prop := 0 ≤ x ∧ x < 1073741824
instance (x : Int) : Decidable (InR x) := by unfold InR; infer_instance

/-- whenever at least one coordinate is out of range the result is a leaf position on ANOTHER face -/
theorem wrapIJ_out (f : Nat) (hf : f < 6) (i j : Int) (hout : ¬ (InR i ∧ InR j)) :
    (wrapIJ f i j).1 < 6 ∧ (wrapIJ f i j).1 ≠ f ∧ (wrapIJ f i j).2.1 < 2^30 ∧ (wrapIJ f i j).2.2 < 2^30 := by
  unfold InR at hout
  by_cases hi : 0 ≤ i ∧ i < 1073741824
  · by_cases hj1 : 1073741824 ≤ j
    · rw [wrapIJ_jHi f hf i j hj1 hi.1 hi.2]
      split <;> refine ⟨Nat.mod_lt _ (by omega), ?_, ?_, ?_⟩ <;> simp only [] <;> omega
    · have hj2 : j ≤ -1 := by omega
      rw [wrapIJ_jLo f hf i j hj2 hi.1 hi.2]
      split <;> refine ⟨Nat.mod_lt _ (by omega), ?_, ?_, ?_⟩ <;> simp only [] <;> omega
  · by_cases hj : 0 ≤ j ∧ j < 1073741824
    · by_cases hi1 : 1073741824 ≤ i
      · rw [wrapIJ_iHi f hf i j hi1 hj.1 hj.2]
        split <;> refine ⟨Nat.mod_lt _ (by omega), ?_, ?_, ?_⟩ <;> simp only [] <;> omega
      · have hi2 : i ≤ -1 := by omega
        rw [wrapIJ_iLo f hf i j hi2 hj.1 hj.2]
        split <;> refine ⟨Nat.mod_lt _ (by omega), ?_, ?_, ?_⟩ <;> simp only [] <;> omega
    · -- a corner
      rw [wrapIJ_clamp]
      have c0 := corner0; have c1 := corner1; have c2 := corner2; have c3 := corner3; have c4 := corner4; have c5 := corner5
      have hci : clampInt i (-1) 1073741824 = -1 ∨ clampInt i (-1) 1073741824 = 1073741824 := by
        unfold clampInt; split_ifs <;> omega
      have hcj : clampInt j (-1) 1073741824 = -1 ∨ clampInt j (-1) 1073741824 = 1073741824 := by
        unfold clampInt; split_ifs <;> omega
      interval_cases f <;> rcases hci with e1 | e1 <;> rcases hcj with e2 | e2 <;> rw [e1, e2] <;>
        first
        | (rw [c0.1]; decide) | (rw [c0.2.1]; decide) | (rw [c0.2.2.1]; decide) | (rw [c0.2.2.2]; decide)
        | (rw [c1.1]; decide) | (rw [c1.2.1]; decide) | (rw [c1.2.2.1]; decide) | (rw [c1.2.2.2]; decide)
        | (rw [c2.1]; decide) | (rw [c2.2.1]; decide) | (rw [c2.2.2.1]; decide) | (rw [c2.2.2.2]; decide)
        | (rw [c3.1]; decide) | (rw [c3.2.1]; decide) | (rw [c3.2.2.1]; decide) | (rw [c3.2.2.2]; decide)
        | (rw [c4.1]; decide) | (rw [c4.2.1]; decide) | (rw [c4.2.2.1]; decide) | (rw [c4.2.2.2]; decide)
        | (rw [c5.1]; decide) | (rw [c5.2.1]; decide) | (rw [c5.2.2.1]; decide) | (rw [c5.2.2.2]; decide)

section
variable {L : Nat} (hL : L = 30)
include hL

/-- `cellIDFromFaceIJWrap` always returns a leaf cell; it is on face f iff both coordinates are in range -/
theorem wrap_leaf (f : Nat) (hf : f < 6) (i j : Int) :
    IsCell (cellIDFromFaceIJWrap f i j) 30 ∧
    ((InR i ∧ InR j) → cellIDFromFaceIJWrap f i j = Hilbert.cellIDFromFaceIJ f i.toNat j.toNat) ∧
    (¬ (InR i ∧ InR j) → CellID.face (cellIDFromFaceIJWrap f i j) ≠ f) := by
  rw [cellIDFromFaceIJWrap_eq]
  by_cases h : InR i ∧ InR j
  · have := wrapIJ_in f hf i j h.1.1 h.1.2 h.2.1 h.2.2
    rw [this]
    obtain ⟨c, _, _⟩ := cellIDFromFaceIJ_facts hL f i.toNat j.toNat hf (by have := h.1.1; have := h.1.2; omega)
      (by have := h.2.1; have := h.2.2; omega)
    exact ⟨c, fun _ => rfl, fun hn => absurd h hn⟩
  · obtain ⟨a, b, c, d⟩ := wrapIJ_out f hf i j h
    obtain ⟨c1, c2, _⟩ := cellIDFromFaceIJ_facts hL _ _ _ a c d
    exact ⟨c1, fun hh => absurd hh h, fun _ => by rw [c2]; exact b⟩

/-- `cellIDFromFaceIJSame` with a flag that says whether both coordinates are in range -/
theorem same_leaf (f : Nat) (hf : f < 6) (i j : Int) (flag : Bool) (hflag : flag = true ↔ (InR i ∧ InR j)) :
    IsCell (cellIDFromFaceIJSame f i j flag) 30 ∧
    (flag = true → cellIDFromFaceIJSame f i j flag = Hilbert.cellIDFromFaceIJ f i.toNat j.toNat) ∧
    (flag = false → CellID.face (cellIDFromFaceIJSame f i j flag) ≠ f) := by
  unfold cellIDFromFaceIJSame
  cases flag
  · have hn : ¬ (InR i ∧ InR j) := fun h => by have := hflag.2 h; cases this
    obtain ⟨a, _, c⟩ := wrap_leaf hL f hf i j
    refine ⟨?_, (fun h => by cases h), fun _ => ?_⟩
    · simpa using a
    · simpa using c hn
  · have hy := hflag.1 rfl
    obtain ⟨c, _, _⟩ := cellIDFromFaceIJ_facts hL f i.toNat j.toNat hf (by have := hy.1.1; have := hy.1.2; omega)
      (by have := hy.2.1; have := hy.2.2; omega)
    refine ⟨?_, fun _ => ?_, (fun h => by cases h)⟩
    · simpa using c
    · simp

end
end S2Proofs.C01W
