/-
  Helper lemmas for property C02 (orientation and distance predicates).
-/
import Mathlib.Tactic.Ring
import Mathlib.Tactic.Linarith
import Mathlib.Tactic.Positivity
import Mathlib.Data.Real.Basic
import S2.Exact
import S2.Pred

set_option linter.unusedTactic false
set_option linter.unreachableTactic false

namespace S2Proofs.PredLemmas
open S2 S2.Exact S2.Pred

/-! ### sign -/

theorem sgn_neg (x : Int) : sgn (-x) = -sgn x := by simp [sgn]
theorem sgn_eq_zero {x : Int} : sgn x = 0 ↔ x = 0 := by simp [sgn, Int.sign_eq_zero_iff_zero]
theorem sgn_pos {x : Int} (h : 0 < x) : sgn x = 1 := by simp [sgn, Int.sign_eq_one_iff_pos, h]
theorem sgn_neg' {x : Int} (h : x < 0) : sgn x = -1 := by simp [sgn, Int.sign_eq_neg_one_iff_neg, h]
theorem sgn_cases (x : Int) : (x < 0 ∧ sgn x = -1) ∨ (x = 0 ∧ sgn x = 0) ∨ (0 < x ∧ sgn x = 1) := by
  rcases lt_trichotomy x 0 with h | h | h
  · exact Or.inl ⟨h, sgn_neg' h⟩
  · subst h; exact Or.inr (Or.inl ⟨rfl, rfl⟩)
  · exact Or.inr (Or.inr ⟨h, sgn_pos h⟩)
theorem sgn_ne_zero {x : Int} (h : x ≠ 0) : sgn x = 1 ∨ sgn x = -1 := by
  rcases sgn_cases x with ⟨_, h'⟩ | ⟨h', _⟩ | ⟨_, h'⟩
  · exact Or.inr h'
  · exact absurd h' h
  · exact Or.inl h'

/-! ### determinant under permutations of the rows -/

theorem det3_swap12 (a b c : IV3) : det3 b a c = -det3 a b c := by
  simp only [det3, IV3.dot, IV3.cross]; ring
theorem det3_swap23 (a b c : IV3) : det3 a c b = -det3 a b c := by
  simp only [det3, IV3.dot, IV3.cross]; ring
theorem det3_swap13 (a b c : IV3) : det3 c b a = -det3 a b c := by
  simp only [det3, IV3.dot, IV3.cross]; ring
theorem det3_rot (a b c : IV3) : det3 b c a = det3 a b c := by
  simp only [det3, IV3.dot, IV3.cross]; ring

/-! ### the three compare-exchange steps -/

/-- flip the permutation sign of a `sort3` result -/
def neg4 {α : Type} (t : α × α × α × Int) : α × α × α × Int := (t.1, t.2.1, t.2.2.1, -t.2.2.2)

/-- a strict total order given as a Boolean "greater than" -/
structure StrictTotal {α : Type} (gt : α → α → Bool) : Prop where
  asymm : ∀ a b, gt a b = true → gt b a = false
  total : ∀ a b, a ≠ b → gt a b = false → gt b a = true
  trans : ∀ a b c, gt a b = true → gt b c = true → gt a c = true

theorem sort3_sign {α : Type} (gt : α → α → Bool) (a b c : α) :
    (sort3 gt a b c).2.2.2 = 1 ∨ (sort3 gt a b c).2.2.2 = -1 := by
  unfold sort3
  cases h1 : gt a b <;> cases h2 : gt b c <;> cases h3 : gt a c <;> cases h4 : gt b a <;>
    cases h5 : gt c a <;> cases h6 : gt c b <;> simp [*]

section
variable {α : Type} {gt : α → α → Bool} (H : StrictTotal gt)
include H

theorem sort3_rot {a b c : α} (hab : a ≠ b) (hbc : b ≠ c) (hac : a ≠ c) :
    sort3 gt b c a = sort3 gt a b c := by
  have irr : ∀ x, gt x x = false := fun x => by
    cases h : gt x x with
    | false => rfl
    | true => have := H.asymm x x h; simp [h] at this
  cases h1 : gt a b <;> cases h2 : gt b c <;> cases h3 : gt a c <;>
  (try (have h1' := H.total a b hab h1)) <;> (try (have h1' := H.asymm a b h1)) <;>
  (try (have h2' := H.total b c hbc h2)) <;> (try (have h2' := H.asymm b c h2)) <;>
  (try (have h3' := H.total a c hac h3)) <;> (try (have h3' := H.asymm a c h3)) <;>
  first
  | (simp [sort3, *]; done)
  | (exfalso; have := H.trans _ _ _ h1 h2; simp_all)
  | (exfalso; have := H.trans _ _ _ h2' h1'; simp_all)

theorem sort3_swap12 {a b c : α} (hab : a ≠ b) (hbc : b ≠ c) (hac : a ≠ c) :
    sort3 gt b a c = neg4 (sort3 gt a b c) := by
  cases h1 : gt a b <;> cases h2 : gt b c <;> cases h3 : gt a c <;>
  (try (have h1' := H.total a b hab h1)) <;> (try (have h1' := H.asymm a b h1)) <;>
  (try (have h2' := H.total b c hbc h2)) <;> (try (have h2' := H.asymm b c h2)) <;>
  (try (have h3' := H.total a c hac h3)) <;> (try (have h3' := H.asymm a c h3)) <;>
  first
  | (simp [sort3, neg4, *]; done)
  | (exfalso; have := H.trans _ _ _ h1 h2; simp_all)
  | (exfalso; have := H.trans _ _ _ h2' h1'; simp_all)

theorem sort3_swap23 {a b c : α} (hab : a ≠ b) (hbc : b ≠ c) (hac : a ≠ c) :
    sort3 gt a c b = neg4 (sort3 gt a b c) := by
  cases h1 : gt a b <;> cases h2 : gt b c <;> cases h3 : gt a c <;>
  (try (have h1' := H.total a b hab h1)) <;> (try (have h1' := H.asymm a b h1)) <;>
  (try (have h2' := H.total b c hbc h2)) <;> (try (have h2' := H.asymm b c h2)) <;>
  (try (have h3' := H.total a c hac h3)) <;> (try (have h3' := H.asymm a c h3)) <;>
  first
  | (simp [sort3, neg4, *]; done)
  | (exfalso; have := H.trans _ _ _ h1 h2; simp_all)
  | (exfalso; have := H.trans _ _ _ h2' h1'; simp_all)
end

/-! ### the exact lexicographic order on integer vectors -/

/-- the comparison used by `exactSignI` -/
def gtI (u v : IV3) : Bool := decide (IV3.cmp u v > 0)

theorem cmp_gt_iff (u v : IV3) : IV3.cmp u v > 0 ↔
    v.x < u.x ∨ (v.x = u.x ∧ (v.y < u.y ∨ (v.y = u.y ∧ v.z < u.z))) := by
  unfold IV3.cmp; split_ifs <;> omega

theorem cmp_eq_neg_one_iff (u v : IV3) : IV3.cmp u v = -1 ↔
    u.x < v.x ∨ (u.x = v.x ∧ (u.y < v.y ∨ (u.y = v.y ∧ u.z < v.z))) := by
  unfold IV3.cmp; split_ifs <;> simp <;> omega

theorem cmp_eq_one_iff (u v : IV3) : IV3.cmp u v = 1 ↔
    v.x < u.x ∨ (v.x = u.x ∧ (v.y < u.y ∨ (v.y = u.y ∧ v.z < u.z))) := by
  unfold IV3.cmp; split_ifs <;> simp <;> omega

theorem iv3_eq_iff (u v : IV3) : u = v ↔ u.x = v.x ∧ u.y = v.y ∧ u.z = v.z := by
  cases u; cases v; simp

theorem gtI_strictTotal : StrictTotal gtI where
  asymm a b h := by
    simp only [gtI, decide_eq_true_eq, decide_eq_false_iff_not, cmp_gt_iff] at *; omega
  total a b hne h := by
    simp only [gtI, decide_eq_true_eq, decide_eq_false_iff_not, cmp_gt_iff, ne_eq, iv3_eq_iff] at *; omega
  trans a b c h1 h2 := by
    simp only [gtI, decide_eq_true_eq, cmp_gt_iff] at *; omega

/-! ### exactSign -/

theorem det3_rot2 (a b c : IV3) : det3 c a b = det3 a b c := by
  simp only [det3, IV3.dot, IV3.cross]; ring

/-- each exchange of `sort3` negates the determinant: permSign · sign(det sorted) = sign(det) -/
theorem sort3_det (gt : IV3 → IV3 → Bool) (a b c : IV3) :
    (sort3 gt a b c).2.2.2 * sgn (det3 (sort3 gt a b c).1 (sort3 gt a b c).2.1 (sort3 gt a b c).2.2.1)
      = sgn (det3 a b c) := by
  unfold sort3
  cases h1 : gt a b <;> cases h2 : gt b c <;> cases h3 : gt a c <;> cases h4 : gt b a <;>
    cases h5 : gt c a <;> cases h6 : gt c b <;>
    simp [*, det3_swap12 a b c, det3_swap23 a b c, det3_swap13 a b c, det3_rot a b c, det3_rot2 a b c, sgn_neg]

theorem exactSignI_eq (a b c : IV3) (p : Bool) :
    exactSignI a b c p = (sort3 gtI a b c).2.2.2 *
      exactSignSorted (sort3 gtI a b c).1 (sort3 gtI a b c).2.1 (sort3 gtI a b c).2.2.1 p := rfl

theorem exactSignSorted_of_det_ne {a b c : IV3} (p : Bool) (h : det3 a b c ≠ 0) :
    exactSignSorted a b c p = sgn (det3 a b c) := by
  have : sgn (a.dot (b.cross c)) ≠ 0 := fun h' => h (sgn_eq_zero.mp h')
  simp [exactSignSorted, det3, this]

theorem exactSignSorted_of_det_eq {a b c : IV3} (h : det3 a b c = 0) :
    exactSignSorted a b c true = symbolicallyPerturbedSign a b c (b.cross c) := by
  have : sgn (a.dot (b.cross c)) = 0 := sgn_eq_zero.mpr h
  simp [exactSignSorted, this]

theorem ite_ne {c : Prop} [Decidable c] {x y : Int} (hx : c → x ≠ 0) (hy : ¬c → y ≠ 0) :
    (if c then x else y) ≠ 0 := by split <;> simp_all

/-- the symbolic perturbation never answers 0 -/
theorem sps_ne_zero (a b c bxc : IV3) : symbolicallyPerturbedSign a b c bxc ≠ 0 := by
  unfold symbolicallyPerturbedSign
  repeat' (refine ite_ne (fun h => ?_) (fun _ => ?_))
  all_goals first
    | exact mt sgn_eq_zero.mp ‹_›
    | exact neg_ne_zero.mpr (mt sgn_eq_zero.mp ‹_›)
    | exact one_ne_zero

theorem exactSignSorted_true_ne_zero (a b c : IV3) : exactSignSorted a b c true ≠ 0 := by
  by_cases h : det3 a b c = 0
  · rw [exactSignSorted_of_det_eq h]; exact sps_ne_zero _ _ _ _
  · rw [exactSignSorted_of_det_ne true h]; exact fun h' => h (sgn_eq_zero.mp h')

theorem exactSignI_true_ne_zero (a b c : IV3) : exactSignI a b c true ≠ 0 := by
  rw [exactSignI_eq]
  have h2 := exactSignSorted_true_ne_zero (sort3 gtI a b c).1 (sort3 gtI a b c).2.1 (sort3 gtI a b c).2.2.1
  rcases sort3_sign gtI a b c with h | h <;> rw [h] <;> simpa using h2

/-! ### "the lowest-order non-zero coefficient decides the sign for small ε" -/

/-- sign of a real number as an integer -/
noncomputable def rsgn (x : ℝ) : ℤ := if 0 < x then 1 else if x < 0 then -1 else 0

theorem rsgn_of_pos {x : ℝ} (h : 0 < x) : rsgn x = 1 := by simp [rsgn, h]
theorem rsgn_of_neg {x : ℝ} (h : x < 0) : rsgn x = -1 := by
  have : ¬ (0 < x) := not_lt.mpr h.le
  simp [rsgn, h, this]
theorem rsgn_zero : rsgn 0 = 0 := by simp [rsgn]
theorem rsgn_pos_mul {p x : ℝ} (hp : 0 < p) : rsgn (p * x) = rsgn x := by
  rcases lt_trichotomy x 0 with h | h | h
  · rw [rsgn_of_neg h, rsgn_of_neg (mul_neg_of_pos_of_neg hp h)]
  · subst h; simp
  · rw [rsgn_of_pos h, rsgn_of_pos (mul_pos hp h)]

/-- sparse polynomial in nested (Horner) form: the entry `(g, c)` contributes `c·ε^e` where the
    exponent `e` is the previous exponent + 1 + g (the first exponent is g) -/
noncomputable def evalS : List (ℕ × ℤ) → ℝ → ℝ
  | [], _ => 0
  | (g, c) :: r, ε => ε ^ g * ((c : ℝ) + ε * evalS r ε)

/-- the lowest-order non-zero coefficient (0 if there is none) -/
def lead : List (ℕ × ℤ) → ℤ
  | [] => 0
  | (_, c) :: r => if c ≠ 0 then c else lead r

/-- the same for a plain list of coefficients -/
def leadL : List ℤ → ℤ
  | [] => 0
  | c :: r => if c ≠ 0 then c else leadL r

noncomputable def bound : List (ℕ × ℤ) → ℝ
  | [] => 0
  | (_, c) :: r => |(c : ℝ)| + bound r

theorem bound_nonneg : ∀ l, 0 ≤ bound l
  | [] => le_refl _
  | (_, c) :: r => by
    have := bound_nonneg r
    have := abs_nonneg (c : ℝ)
    simp only [bound]; linarith

theorem abs_evalS_le (ε : ℝ) (h0 : 0 < ε) (h1 : ε ≤ 1) : ∀ l, |evalS l ε| ≤ bound l
  | [] => by simp [evalS, bound]
  | (g, c) :: r => by
    have ih := abs_evalS_le ε h0 h1 r
    have hb := bound_nonneg r
    have hp : 0 ≤ ε ^ g := pow_nonneg h0.le g
    have hp1 : ε ^ g ≤ 1 := pow_le_one₀ h0.le h1
    have h2 : |(c : ℝ) + ε * evalS r ε| ≤ |(c : ℝ)| + bound r := by
      have h3 : |ε * evalS r ε| ≤ bound r := by
        rw [abs_mul, abs_of_pos h0]
        calc ε * |evalS r ε| ≤ 1 * |evalS r ε| := mul_le_mul_of_nonneg_right h1 (abs_nonneg _)
          _ = |evalS r ε| := one_mul _
          _ ≤ bound r := ih
      exact (abs_add_le _ _).trans (by linarith)
    have h4 : 0 ≤ |(c : ℝ)| + bound r := by have := abs_nonneg (c : ℝ); linarith
    simp only [evalS, bound]
    rw [abs_mul, abs_of_nonneg hp]
    calc ε ^ g * |(c : ℝ) + ε * evalS r ε| ≤ 1 * (|(c : ℝ)| + bound r) :=
          mul_le_mul hp1 h2 (abs_nonneg _) zero_le_one
      _ = |(c : ℝ)| + bound r := one_mul _

/-- For all sufficiently small ε > 0 the sign of the polynomial is the sign of its lowest-order
    non-zero coefficient. -/
theorem evalS_sign : ∀ l : List (ℕ × ℤ), ∃ ε₀ : ℝ, 0 < ε₀ ∧ ∀ ε, 0 < ε → ε < ε₀ →
    rsgn (evalS l ε) = sgn (lead l)
  | [] => ⟨1, one_pos, fun ε _ _ => by simp [evalS, lead, rsgn_zero, sgn]⟩
  | (g, c) :: r => by
    obtain ⟨ε₁, hε₁, H⟩ := evalS_sign r
    by_cases hc : c = 0
    · refine ⟨ε₁, hε₁, fun ε h0 h1 => ?_⟩
      have hp : 0 < ε ^ g * ε := mul_pos (pow_pos h0 g) h0
      have : evalS ((g, c) :: r) ε = (ε ^ g * ε) * evalS r ε := by
        simp only [evalS, hc, Int.cast_zero, zero_add]; ring
      rw [this, rsgn_pos_mul hp, H ε h0 h1]
      simp [lead, hc]
    · have hcR : (c : ℝ) ≠ 0 := Int.cast_ne_zero.mpr hc
      have hb := bound_nonneg r
      have hb1 : 0 < bound r + 1 := by linarith
      have hac : 0 < |(c : ℝ)| := abs_pos.mpr hcR
      refine ⟨min 1 (|(c : ℝ)| / (bound r + 1)), lt_min one_pos (div_pos hac hb1), fun ε h0 h1 => ?_⟩
      have hε1 : ε ≤ 1 := (lt_of_lt_of_le h1 (min_le_left _ _)).le
      have hε2 : ε < |(c : ℝ)| / (bound r + 1) := lt_of_lt_of_le h1 (min_le_right _ _)
      have hε3 : ε * (bound r + 1) < |(c : ℝ)| := (lt_div_iff₀ hb1).mp hε2
      have hE := abs_evalS_le ε h0 hε1 r
      have hsmall : |ε * evalS r ε| < |(c : ℝ)| := by
        rw [abs_mul, abs_of_pos h0]
        have : ε * |evalS r ε| ≤ ε * bound r := mul_le_mul_of_nonneg_left hE h0.le
        nlinarith
      have hp : 0 < ε ^ g := pow_pos h0 g
      have hlead : lead ((g, c) :: r) = c := by simp [lead, hc]
      simp only [evalS]
      rw [rsgn_pos_mul hp, hlead]
      rcases lt_or_gt_of_ne hc with hneg | hpos
      · have hcneg : (c : ℝ) < 0 := Int.cast_lt_zero.mpr hneg
        rw [abs_of_neg hcneg] at hsmall
        have := (abs_lt.mp hsmall).2
        rw [sgn_neg' hneg, rsgn_of_neg (by linarith)]
      · have hcpos : (0 : ℝ) < c := Int.cast_pos.mpr hpos
        rw [abs_of_pos hcpos] at hsmall
        have := (abs_lt.mp hsmall).1
        rw [sgn_pos hpos, rsgn_of_pos (by linarith)]

/-! ### the perturbed determinant of simulation of simplicity -/

/-- real 3×3 determinant a · (b × c) -/
def detR (a b c : ℝ × ℝ × ℝ) : ℝ :=
  a.1 * (b.2.1 * c.2.2 - b.2.2 * c.2.1) + (a.2.1 * (b.2.2 * c.1 - b.1 * c.2.2)
    + a.2.2 * (b.1 * c.2.1 - b.2.1 * c.1))

/-- the point `v` with its X, Y, Z coordinates perturbed by ε^ex, ε^ey, ε^ez -/
def perturb (v : IV3) (ε : ℝ) (ex ey ez : ℕ) : ℝ × ℝ × ℝ :=
  ((v.x : ℝ) + ε ^ ex, (v.y : ℝ) + ε ^ ey, (v.z : ℝ) + ε ^ ez)

/-- det(a+da, b+db, c+dc) with  da.Z,da.Y,da.X, db.Z,db.Y,db.X, dc.Z,dc.Y,dc.X = ε^1,ε^2,ε^4,…,ε^256 -/
def pertDet (a b c : IV3) (ε : ℝ) : ℝ :=
  detR (perturb a ε 4 2 1) (perturb b ε 32 16 8) (perturb c ε 256 128 64)

/-- coefficients of ε^0, ε^1, ε^2, ε^4, ε^8, ε^10, ε^12, ε^16, ε^17, ε^20, ε^32, ε^33, ε^34, ε^64, ε^66,
    ε^68, ε^80, ε^84 of the perturbed determinant -/
def sosHead (a b c : IV3) : List (ℕ × ℤ) :=
  [(0, det3 a b c), (0, b.x * c.y - b.y * c.x), (0, b.z * c.x - b.x * c.z), (1, b.y * c.z - b.z * c.y),
   (3, c.x * a.y - c.y * a.x), (1, c.x), (1, -c.y), (3, c.z * a.x - c.x * a.z), (0, -c.x), (2, c.z),
   (11, c.y * a.z - c.z * a.y), (0, c.y), (0, -c.z), (29, a.x * b.y - a.y * b.x), (1, -b.x), (1, b.y),
   (11, a.x), (3, 1)]

/-- coefficients of ε^96, ε^98, ε^128, ε^129, ε^132, ε^136, ε^140, ε^160, ε^161, ε^256, ε^257, ε^258,
    ε^264, ε^266, ε^272, ε^273 -/
def sosTail (a b : IV3) : List (ℕ × ℤ) :=
  [(11, -a.y), (1, -1), (29, a.z * b.x - a.x * b.z), (0, b.x), (2, -b.z), (3, -a.x), (3, -1), (19, a.z),
   (0, 1), (94, a.y * b.z - a.z * b.y), (0, -b.y), (0, b.z), (5, a.y), (1, 1), (5, -a.z), (0, -1)]

/-- all 34 monomials of the perturbed determinant in increasing order of the exponent of ε -/
def sosCoeffs (a b c : IV3) : List (ℕ × ℤ) := sosHead a b c ++ sosTail a b

/-- the polynomial expansion of the perturbed determinant (a ring identity) -/
theorem pertDet_expansion (a b c : IV3) (ε : ℝ) : pertDet a b c ε = evalS (sosCoeffs a b c) ε := by
  simp only [pertDet, detR, perturb, sosCoeffs, sosHead, sosTail, List.cons_append, List.nil_append,
    evalS, det3, IV3.dot, IV3.cross]
  push_cast
  ring

/-- The tests that `symbolicallyPerturbedSign` omits (coefficients of ε^17, ε^32, ε^33, ε^34) are forced
    to zero by the earlier tests, and the cascade stops at the constant coefficient +1 of ε^84. -/
theorem lead_skip_abstract (d z1 z2 z3 p4 cx cy p7 cz p32 q64 bx by' ax : ℤ) (T : List (ℕ × ℤ))
    (hd : d = 0) (h32 : cy = 0 → cz = 0 → p32 = 0) :
    lead ([(0,d),(0,z1),(0,z2),(1,z3),(3,p4),(1,cx),(1,-cy),(3,p7),(0,-cx),(2,cz),(11,p32),(0,cy),(0,-cz),
           (29,q64),(1,-bx),(1,by'),(11,ax),(3,1)] ++ T)
      = leadL [z1,z2,z3,p4,cx,-cy,p7,cz,q64,-bx,by',ax,1] := by
  subst hd
  simp only [lead, leadL, List.cons_append]
  by_cases h1 : z1 = 0 <;> [skip; simp [h1]]
  by_cases h2 : z2 = 0 <;> [skip; simp [h1, h2]]
  by_cases h3 : z3 = 0 <;> [skip; simp [h1, h2, h3]]
  by_cases h4 : p4 = 0 <;> [skip; simp [h1, h2, h3, h4]]
  by_cases h5 : cx = 0 <;> [skip; simp [h1, h2, h3, h4, h5]]
  by_cases h6 : cy = 0 <;> [skip; simp [h1, h2, h3, h4, h5, h6]]
  by_cases h7 : p7 = 0 <;> [skip; simp [h1, h2, h3, h4, h5, h6, h7]]
  by_cases h8 : cz = 0 <;> [skip; simp [h1, h2, h3, h4, h5, h6, h7, h8]]
  have h9 := h32 h6 h8
  simp [h1, h2, h3, h4, h5, h6, h7, h8, h9]

/-- the thirteen tests of `symbolicallyPerturbedSign`, in the order of the code -/
def spsTests (a b c : IV3) : List ℤ :=
  [b.x * c.y - b.y * c.x, b.z * c.x - b.x * c.z, b.y * c.z - b.z * c.y, c.x * a.y - c.y * a.x, c.x, -c.y,
   c.z * a.x - c.x * a.z, c.z, a.x * b.y - a.y * b.x, -b.x, b.y, a.x, 1]

theorem sps_eq_leadL (a b c : IV3) :
    symbolicallyPerturbedSign a b c (b.cross c) = sgn (leadL (spsTests a b c)) := by
  have h1 : sgn 1 = 1 := rfl
  have h2 : ((1 : ℤ) = 0) = False := by decide
  simp only [symbolicallyPerturbedSign, spsTests, leadL, IV3.cross, apply_ite sgn, sgn_neg, neg_ne_zero, h1,
    ne_eq, h2, not_false_eq_true, if_true]

theorem lead_sosCoeffs_of_det_eq {a b c : IV3} (h : det3 a b c = 0) :
    lead (sosCoeffs a b c) = leadL (spsTests a b c) := by
  unfold sosCoeffs sosHead spsTests
  exact lead_skip_abstract _ _ _ _ _ _ _ _ _ _ _ _ _ _ _ h (fun h1 h2 => by simp [h1, h2])

theorem lead_sosCoeffs_of_det_ne {a b c : IV3} (h : det3 a b c ≠ 0) :
    lead (sosCoeffs a b c) = det3 a b c := by
  simp [sosCoeffs, sosHead, lead, h]

/-- the lowest-order non-zero coefficient of the perturbed determinant has the sign computed by the
    exact stage of `exactSign` (exact determinant, else the symbolic cascade) -/
theorem sgn_lead_sosCoeffs (a b c : IV3) :
    sgn (lead (sosCoeffs a b c)) = exactSignSorted a b c true := by
  by_cases h : det3 a b c = 0
  · rw [lead_sosCoeffs_of_det_eq h, exactSignSorted_of_det_eq h, sps_eq_leadL]
  · rw [lead_sosCoeffs_of_det_ne h, exactSignSorted_of_det_ne true h]

/-! ### distances -/

theorem rsgn_neg_mul {p x : ℝ} (hp : p < 0) : rsgn (p * x) = -rsgn x := by
  rcases lt_trichotomy x 0 with h | h | h
  · rw [rsgn_of_neg h, rsgn_of_pos (mul_pos_of_neg_of_neg hp h)]; rfl
  · subst h; simp [rsgn_zero]
  · rw [rsgn_of_pos h, rsgn_of_neg (mul_neg_of_neg_of_pos hp h)]

theorem sgn_eq_rsgn_cast (z : ℤ) : sgn z = rsgn (z : ℝ) := by
  rcases sgn_cases z with ⟨h, h'⟩ | ⟨h, h'⟩ | ⟨h, h'⟩
  · rw [h', rsgn_of_neg (Int.cast_lt_zero.mpr h)]
  · subst h; simp [sgn, rsgn_zero]
  · rw [h', rsgn_of_pos (Int.cast_pos.mpr h)]

theorem rsgn_div_pos {x d : ℝ} (hd : 0 < d) : rsgn (x / d) = rsgn x := by
  rw [div_eq_inv_mul]; exact rsgn_pos_mul (inv_pos.mpr hd)

/-- The squared comparison with sign handling used by `exactCompareDistances` / `exactCompareDistance`
    decides the sign of `Q/nb − P/na` for positive `na`, `nb` with squares `A`, `B`. -/
theorem cos_compare_real (P Q na nb A B : ℝ) (hna : 0 < na) (hnb : 0 < nb) (hA : na ^ 2 = A) (hB : nb ^ 2 = B) :
    (if rsgn P ≠ rsgn Q then (if rsgn P > rsgn Q then (-1 : ℤ) else 1)
      else rsgn P * rsgn (Q * Q * A - P * P * B)) = rsgn (Q / nb - P / na) := by
  have hdiv : Q / nb - P / na = (Q * na - P * nb) / (na * nb) := by
    rw [div_sub_div _ _ hnb.ne' hna.ne']
    congr 1 <;> ring
  rw [hdiv, rsgn_div_pos (mul_pos hna hnb)]
  have hfac : Q * Q * A - P * P * B = (Q * na + P * nb) * (Q * na - P * nb) := by
    rw [← hA, ← hB]; ring
  rcases lt_trichotomy P 0 with hP | hP | hP <;> rcases lt_trichotomy Q 0 with hQ | hQ | hQ
  · -- both negative
    have hS : Q * na + P * nb < 0 := by nlinarith [mul_pos_of_neg_of_neg hP hQ, mul_neg_of_neg_of_pos hQ hna, mul_neg_of_neg_of_pos hP hnb]
    rw [rsgn_of_neg hP, rsgn_of_neg hQ, hfac, rsgn_neg_mul hS]; simp
  · subst hQ
    have : 0 < 0 * na - P * nb := by nlinarith [mul_neg_of_neg_of_pos hP hnb]
    rw [rsgn_of_neg hP, rsgn_zero, rsgn_of_pos this]; simp
  · have : 0 < Q * na - P * nb := by nlinarith [mul_neg_of_neg_of_pos hP hnb, mul_pos hQ hna]
    rw [rsgn_of_neg hP, rsgn_of_pos hQ, rsgn_of_pos this]; simp
  · subst hP
    have : 0 * nb = (0 : ℝ) := zero_mul _
    have : Q * na - 0 * nb < 0 := by nlinarith [mul_neg_of_neg_of_pos hQ hna]
    rw [rsgn_zero, rsgn_of_neg hQ, rsgn_of_neg this]; simp
  · subst hP; subst hQ
    simp [rsgn_zero]
  · subst hP
    have : 0 < Q * na - 0 * nb := by nlinarith [mul_pos hQ hna]
    rw [rsgn_zero, rsgn_of_pos hQ, rsgn_of_pos this]; simp
  · have : Q * na - P * nb < 0 := by nlinarith [mul_neg_of_neg_of_pos hQ hna, mul_pos hP hnb]
    rw [rsgn_of_pos hP, rsgn_of_neg hQ, rsgn_of_neg this]; simp
  · subst hQ
    have : 0 * na - P * nb < 0 := by nlinarith [mul_pos hP hnb]
    rw [rsgn_of_pos hP, rsgn_zero, rsgn_of_neg this]; simp
  · -- both positive
    have hS : 0 < Q * na + P * nb := by nlinarith [mul_pos hQ hna, mul_pos hP hnb]
    rw [rsgn_of_pos hP, rsgn_of_pos hQ, hfac, rsgn_pos_mul hS]; simp

theorem cmp_antisymm (a b : IV3) : IV3.cmp b a = -IV3.cmp a b := by
  unfold IV3.cmp; split_ifs <;> omega

theorem cmp_eq_zero_iff (a b : IV3) : IV3.cmp a b = 0 ↔ a = b := by
  rw [iv3_eq_iff]; unfold IV3.cmp; split_ifs <;> simp <;> omega

theorem cmp_values (a b : IV3) : IV3.cmp a b = -1 ∨ IV3.cmp a b = 0 ∨ IV3.cmp a b = 1 := by
  unfold IV3.cmp; split_ifs <;> simp

theorem symbolicI_antisymm (a b : IV3) :
    symbolicCompareDistancesI b a = -symbolicCompareDistancesI a b := by
  unfold symbolicCompareDistancesI
  rw [cmp_antisymm a b]
  rcases cmp_values a b with h | h | h <;> rw [h] <;> decide

theorem symbolicI_eq_zero_iff (a b : IV3) : symbolicCompareDistancesI a b = 0 ↔ a = b := by
  rw [← cmp_eq_zero_iff]
  unfold symbolicCompareDistancesI
  rcases cmp_values a b with h | h | h <;> rw [h] <;> decide

theorem exactCompareDistances_antisymm (x a b : IV3) :
    exactCompareDistances x b a = -exactCompareDistances x a b := by
  unfold exactCompareDistances
  have hring : x.dot a * x.dot a * b.norm2 - x.dot b * x.dot b * a.norm2
      = -(x.dot b * x.dot b * a.norm2 - x.dot a * x.dot a * b.norm2) := by ring
  simp only [hring, sgn_neg]
  rcases sgn_cases (x.dot a) with ⟨_, h1⟩ | ⟨_, h1⟩ | ⟨_, h1⟩ <;>
  rcases sgn_cases (x.dot b) with ⟨_, h2⟩ | ⟨_, h2⟩ | ⟨_, h2⟩ <;>
  simp [h1, h2]

theorem det3_eq_zero_of_eq {a b c : IV3} (h : a = b ∨ b = c ∨ c = a) : det3 a b c = 0 := by
  rcases h with h | h | h <;> subst h <;> simp only [det3, IV3.dot, IV3.cross] <;> ring

end S2Proofs.PredLemmas
