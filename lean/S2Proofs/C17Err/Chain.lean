/-
  C17Err.Chain — float chains used by the point–edge distance (s2/edge_distances.go):

    * `norm2_sub_spec`   `fl(|x − a|²)` = `(x.sub a).norm2` for finite float vectors with coordinates in [−2,2]:
                         finite and within `κ·|x−a|² + 4e` of the exact squared distance of the float coordinates,
                         κ = (1+u)⁵ − 1  (u = 2^-53, e = 2^-1075);
    * value lemmas for `F64.fmin`, `F64.abs`, the comparisons, and `chordFromLen2` (the clamp to 4).

  All statements are about the bit-exact soft-float `S2.F64`; the rounding facts come from the PROVED standard
  model `FloatErr.stdModel`.
-/
import S2.EdgeNum
import S2Proofs.FloatErr.Ops
import S2Proofs.FloatErr.Stable
import S2Proofs.FloatErr.DotProd
import S2Proofs.F64Carrier
import S2Proofs.F64Round

set_option linter.unusedSimpArgs false
set_option linter.unusedVariables false

namespace S2Proofs.C17Err
open S2 S2.Exact S2.EdgeNum S2Proofs.F64Order S2Proofs.FloatErr

/-! ### exact quantities of float vectors -/

/-- exact squared norm of a float vector -/
noncomputable def n2 (p : V3) : ℝ := val p.x * val p.x + val p.y * val p.y + val p.z * val p.z

/-- exact dot product of two float vectors -/
noncomputable def dotR (p q : V3) : ℝ := val p.x * val q.x + val p.y * val q.y + val p.z * val q.z

/-- exact squared distance of two float vectors -/
noncomputable def dist2 (p q : V3) : ℝ :=
  (val p.x - val q.x) * (val p.x - val q.x) + (val p.y - val q.y) * (val p.y - val q.y)
    + (val p.z - val q.z) * (val p.z - val q.z)

theorem dist2_nonneg (p q : V3) : 0 ≤ dist2 p q := by
  unfold dist2
  have := mul_self_nonneg (val p.x - val q.x)
  have := mul_self_nonneg (val p.y - val q.y)
  have := mul_self_nonneg (val p.z - val q.z)
  linarith

theorem n2_nonneg (p : V3) : 0 ≤ n2 p := by
  unfold n2
  have := mul_self_nonneg (val p.x)
  have := mul_self_nonneg (val p.y)
  have := mul_self_nonneg (val p.z)
  linarith

theorem dist2_expand (p q : V3) : dist2 p q = n2 p + n2 q - 2 * dotR p q := by
  unfold dist2 n2 dotR; ring

theorem dist2_comm (p q : V3) : dist2 p q = dist2 q p := by unfold dist2; ring

/-- coordinates in [−2, 2] -/
def Coord2 (p : V3) : Prop := |val p.x| ≤ 2 ∧ |val p.y| ≤ 2 ∧ |val p.z| ≤ 2

theorem coord2_of_n2 {p : V3} (h : n2 p ≤ 4) : Coord2 p := by
  unfold n2 at h
  refine ⟨abs_le_of_sq_sum_le (m := 4) (y := val p.y) (z := val p.z) (by nlinarith) le_rfl,
          abs_le_of_sq_sum_le (m := 4) (y := val p.x) (z := val p.z) (by nlinarith) le_rfl,
          abs_le_of_sq_sum_le (m := 4) (y := val p.x) (z := val p.y) (by nlinarith) le_rfl⟩

/-! ### signs: a rounded non-negative quantity is non-negative -/

theorem val_cast (x : F64) : val x = ((F64Round.val x : ℚ) : ℝ) := by
  unfold val F64Round.val F64Round.U
  push_cast
  rfl

theorem round_nonneg {r : F64} {Q : ℚ} (h : F64Round.IsRound r Q) (hQ : 0 ≤ Q) (hf : Fin r) : 0 ≤ val r := by
  have hz : Fin (F64.zero false) ∧ toInt (F64.zero false) = 0 := by decide
  have h0 : F64Round.IsRound (F64.zero false) (F64Round.val (F64.zero false)) := F64Round.isRound_self hz.1
  have hv : F64Round.val (F64.zero false) = 0 := by unfold F64Round.val; rw [hz.2]; simp
  rw [hv] at h0
  have := F64Round.IsRound.mono h0 h hQ
  rw [le_iff hz.1 hf, hz.2] at this
  unfold val
  exact div_nonneg (by exact_mod_cast this) (by positivity)

theorem mul_self_val_nonneg {x : F64} (hx : Fin x) (hf : Fin (x * x)) : 0 ≤ val (x * x) :=
  round_nonneg (F64Round.isRound_mul hx hx) (mul_self_nonneg _) hf

theorem add_val_nonneg {x y : F64} (hx : Fin x) (hy : Fin y) (h0x : 0 ≤ val x) (h0y : 0 ≤ val y)
    (hf : Fin (x + y)) : 0 ≤ val (x + y) := by
  apply round_nonneg (F64Round.isRound_add hx hy) _ hf
  have h1 : (0 : ℝ) ≤ ((F64Round.val x : ℚ) : ℝ) := by rw [← val_cast]; exact h0x
  have h2 : (0 : ℝ) ≤ ((F64Round.val y : ℚ) : ℝ) := by rw [← val_cast]; exact h0y
  have h1' : (0 : ℚ) ≤ F64Round.val x := by exact_mod_cast h1
  have h2' : (0 : ℚ) ≤ F64Round.val y := by exact_mod_cast h2
  linarith

/-- the float squared norm is never negative -/
theorem norm2_val_nonneg (v : V3) (hv : Fin3 v) (m : |val v.x| ≤ 5 ∧ |val v.y| ≤ 5 ∧ |val v.z| ≤ 5) :
    0 ≤ val v.norm2 := by
  obtain ⟨h1, h2, h3⟩ := hv
  obtain ⟨m1, m2, m3⟩ := m
  have p1 : |val v.x * val v.x| ≤ 25 := by have := abs_mul_le_of m1 m1; linarith
  have p2 : |val v.y * val v.y| ≤ 25 := by have := abs_mul_le_of m2 m2; linarith
  have p3 : |val v.z * val v.z| ≤ 25 := by have := abs_mul_le_of m3 m3; linarith
  obtain ⟨fq1, _, gq1⟩ := mul_step stdModel h1 h1 p1 (by norm_num)
  obtain ⟨fq2, _, gq2⟩ := mul_step stdModel h2 h2 p2 (by norm_num)
  obtain ⟨fq3, _, gq3⟩ := mul_step stdModel h3 h3 p3 (by norm_num)
  have ms : |val (v.x * v.x) + val (v.y * v.y)| ≤ 102 := by
    have := abs_add_le (val (v.x * v.x)) (val (v.y * v.y)); linarith
  obtain ⟨fs, _, gs⟩ := add_step stdModel fq1 fq2 ms (by norm_num)
  have md : |val (v.x * v.x + v.y * v.y) + val (v.z * v.z)| ≤ 256 := by
    have := abs_add_le (val (v.x * v.x + v.y * v.y)) (val (v.z * v.z)); linarith
  obtain ⟨fd, _, _⟩ := add_step stdModel fs fq3 md (by norm_num)
  have n1 := mul_self_val_nonneg h1 fq1
  have n2 := mul_self_val_nonneg h2 fq2
  have n3 := mul_self_val_nonneg h3 fq3
  have n12 := add_val_nonneg fq1 fq2 n1 n2 fs
  exact add_val_nonneg fs fq3 n12 n3 fd

/-! ### the relative error of `fl(|x−a|²)` -/

/-- `κ = (1+u)²·(1+ρ) − 1 = (1+u)⁵ − 1 ≈ 5u` -/
noncomputable def kap : ℝ := (1 + uR) ^ 2 * (1 + rhoU uR) - 1

theorem kap_eq : kap = (1 + uR) ^ 5 - 1 := by
  unfold kap rhoU fU gU; ring

theorem kap_nonneg : 0 ≤ kap := by
  rw [kap_eq]
  have h : (1 : ℝ) ≤ (1 + uR) ^ 5 := one_le_pow₀ (by have := uR_nonneg; linarith)
  linarith

theorem kap_le : kap ≤ 5 * uR + 11 * uR ^ 2 := by
  rw [kap_eq]; unfold uR; norm_num

theorem kap_le' : kap ≤ 1 / 2 ^ 50 := by
  rw [kap_eq]; unfold uR; norm_num

/-- squaring a rounded value -/
theorem sq_rnd {u w t : ℝ} (hu : 0 ≤ u) (h : Rnd u 0 w t) : |t * t - w * w| ≤ (2 * u + u ^ 2) * (w * w) := by
  unfold Rnd at h
  rw [add_zero] at h
  have e : t * t - w * w = (t - w) * (t + w) := by ring
  rw [e, abs_mul]
  have h2 : |t + w| ≤ (2 + u) * |w| := by
    have e2 : t + w = (t - w) + 2 * w := by ring
    rw [e2]
    have := abs_add_le (t - w) (2 * w)
    rw [abs_mul, abs_of_pos (by norm_num : (0 : ℝ) < 2)] at this
    linarith
  have h3 : |t - w| * |t + w| ≤ (u * |w|) * ((2 + u) * |w|) :=
    mul_le_mul h h2 (abs_nonneg _) (mul_nonneg hu (abs_nonneg _))
  have e3 : (u * |w|) * ((2 + u) * |w|) = (2 * u + u ^ 2) * (|w| * |w|) := by ring
  rw [e3, abs_mul_abs_self] at h3
  exact h3

/-- **`fl(|x − a|²)`**: finite, and within `κ·|x−a|² + 4e` of the exact squared distance. -/
theorem norm2_sub_spec (x a : V3) (hx : Fin3 x) (ha : Fin3 a) (cx : Coord2 x) (ca : Coord2 a) :
    Fin (x.sub a).norm2 ∧ 0 ≤ val (x.sub a).norm2 ∧
    |val (x.sub a).norm2 - dist2 x a| ≤ kap * dist2 x a + 4 * eR := by
  obtain ⟨fx1, fx2, fx3⟩ := hx
  obtain ⟨fa1, fa2, fa3⟩ := ha
  obtain ⟨mx1, mx2, mx3⟩ := cx
  obtain ⟨ma1, ma2, ma3⟩ := ca
  obtain ⟨ft1, rt1, bt1⟩ := sub_step5 stdModel fx1 fa1 mx1 ma1
  obtain ⟨ft2, rt2, bt2⟩ := sub_step5 stdModel fx2 fa2 mx2 ma2
  obtain ⟨ft3, rt3, bt3⟩ := sub_step5 stdModel fx3 fa3 mx3 ma3
  have hn := norm2_step stdModel (x.sub a) ⟨ft1, ft2, ft3⟩ ⟨bt1, bt2, bt3⟩
  obtain ⟨fn, herr, hT0, _⟩ := hn
  refine ⟨fn, norm2_val_nonneg (x.sub a) ⟨ft1, ft2, ft3⟩ ⟨bt1, bt2, bt3⟩, ?_⟩
  have hu := uR_nonneg
  have s1 := sq_rnd hu rt1
  have s2 := sq_rnd hu rt2
  have s3 := sq_rnd hu rt3
  set T := val (x.sub a).x * val (x.sub a).x + val (x.sub a).y * val (x.sub a).y
    + val (x.sub a).z * val (x.sub a).z with hT
  have q1 := mul_self_nonneg (val x.x - val a.x)
  have q2 := mul_self_nonneg (val x.y - val a.y)
  have q3 := mul_self_nonneg (val x.z - val a.z)
  have hTd : |T - dist2 x a| ≤ (2 * uR + uR ^ 2) * dist2 x a := by
    have e : T - dist2 x a
        = (val (x.sub a).x * val (x.sub a).x - (val x.x - val a.x) * (val x.x - val a.x))
        + (val (x.sub a).y * val (x.sub a).y - (val x.y - val a.y) * (val x.y - val a.y))
        + (val (x.sub a).z * val (x.sub a).z - (val x.z - val a.z) * (val x.z - val a.z)) := by
      rw [hT]; unfold dist2; ring
    rw [e]
    have := abs_add_three
      (val (x.sub a).x * val (x.sub a).x - (val x.x - val a.x) * (val x.x - val a.x))
      (val (x.sub a).y * val (x.sub a).y - (val x.y - val a.y) * (val x.y - val a.y))
      (val (x.sub a).z * val (x.sub a).z - (val x.z - val a.z) * (val x.z - val a.z))
    have e2 : (2 * uR + uR ^ 2) * dist2 x a
        = (2 * uR + uR ^ 2) * ((val x.x - val a.x) * (val x.x - val a.x))
        + (2 * uR + uR ^ 2) * ((val x.y - val a.y) * (val x.y - val a.y))
        + (2 * uR + uR ^ 2) * ((val x.z - val a.z) * (val x.z - val a.z)) := by
      unfold dist2; ring
    rw [e2]
    have t1 : V3.sub x a = ⟨x.x - a.x, x.y - a.y, x.z - a.z⟩ := rfl
    simp only [t1] at this s1 s2 s3 ⊢
    linarith
  have hd0 := dist2_nonneg x a
  have hρ : 0 ≤ rhoU uR := rhoU_nn
  have hTle : T ≤ (1 + (2 * uR + uR ^ 2)) * dist2 x a := by
    have := abs_le.mp hTd
    linarith
  have h1 : |val (x.sub a).norm2 - dist2 x a| ≤ |val (x.sub a).norm2 - T| + |T - dist2 x a| :=
    abs_sub_le _ _ _
  have h2 : rhoU uR * T ≤ rhoU uR * ((1 + (2 * uR + uR ^ 2)) * dist2 x a) :=
    mul_le_mul_of_nonneg_left hTle hρ
  have e3 : kap * dist2 x a
      = rhoU uR * ((1 + (2 * uR + uR ^ 2)) * dist2 x a) + (2 * uR + uR ^ 2) * dist2 x a := by
    unfold kap; ring
  linarith


/-! ### value lemmas for comparisons, `fmin`, `abs`, the clamp -/

theorem val_le_iff {x y : F64} : val x ≤ val y ↔ toInt x ≤ toInt y := by
  unfold val
  rw [div_le_div_iff_of_pos_right (by positivity)]
  exact Int.cast_le

theorem lt_val {x y : F64} (hx : Fin x) (hy : Fin y) : F64.lt x y = true ↔ val x < val y := by
  rw [lt_iff hx hy, FloatErr.val_lt_iff]

theorem le_val {x y : F64} (hx : Fin x) (hy : Fin y) : F64.le x y = true ↔ val x ≤ val y := by
  rw [le_iff hx hy, val_le_iff]

theorem gt_val {x y : F64} (hx : Fin x) (hy : Fin y) : F64.gt x y = true ↔ val y < val x := by
  unfold F64.gt; exact lt_val hy hx

theorem ge_val {x y : F64} (hx : Fin x) (hy : Fin y) : F64.ge x y = true ↔ val y ≤ val x := by
  unfold F64.ge; exact le_val hy hx

theorem val_abs {x : F64} (hx : Fin x) : Fin (F64.abs x) ∧ val (F64.abs x) = |val x| := by
  obtain ⟨hf, hv⟩ := abs_spec x hx
  refine ⟨hf, ?_⟩
  unfold val
  rw [hv, abs_div, abs_of_pos (by positivity : (0 : ℝ) < 2 ^ 1074)]
  push_cast
  rfl

/-- `math.Min` of two finite floats -/
theorem val_fmin {x y : F64} (hx : Fin x) (hy : Fin y) :
    Fin (F64.fmin x y) ∧ val (F64.fmin x y) = min (val x) (val y) := by
  obtain ⟨hor, hk⟩ := F64Carrier.fmin_spec (F64Carrier.nn_of_fin hx) (F64Carrier.nn_of_fin hy)
  have hf : Fin (F64.fmin x y) := by rcases hor with h | h <;> rw [h] <;> assumption
  refine ⟨hf, ?_⟩
  rw [F64Carrier.key_fin hf, F64Carrier.key_fin hx, F64Carrier.key_fin hy] at hk
  unfold val
  rw [hk]
  rcases le_total (toInt x) (toInt y) with h | h
  · have h' : ((toInt x : ℤ) : ℝ) / 2 ^ 1074 ≤ (toInt y : ℝ) / 2 ^ 1074 := by
      rw [div_le_div_iff_of_pos_right (by positivity)]; exact_mod_cast h
    rw [min_eq_left h, min_eq_left h']
  · have h' : ((toInt y : ℤ) : ℝ) / 2 ^ 1074 ≤ (toInt x : ℝ) / 2 ^ 1074 := by
      rw [div_le_div_iff_of_pos_right (by positivity)]; exact_mod_cast h
    rw [min_eq_right h, min_eq_right h']

/-- `math.Max` of two finite floats -/
theorem val_fmax {x y : F64} (hx : Fin x) (hy : Fin y) :
    Fin (F64.fmax x y) ∧ val (F64.fmax x y) = max (val x) (val y) := by
  obtain ⟨hor, hk⟩ := F64Carrier.fmax_spec (F64Carrier.nn_of_fin hx) (F64Carrier.nn_of_fin hy)
  have hf : Fin (F64.fmax x y) := by rcases hor with h | h <;> rw [h] <;> assumption
  refine ⟨hf, ?_⟩
  rw [F64Carrier.key_fin hf, F64Carrier.key_fin hx, F64Carrier.key_fin hy] at hk
  unfold val
  rw [hk]
  rcases le_total (toInt x) (toInt y) with h | h
  · have h' : ((toInt x : ℤ) : ℝ) / 2 ^ 1074 ≤ (toInt y : ℝ) / 2 ^ 1074 := by
      rw [div_le_div_iff_of_pos_right (by positivity)]; exact_mod_cast h
    rw [max_eq_right h, max_eq_right h']
  · have h' : ((toInt y : ℤ) : ℝ) / 2 ^ 1074 ≤ (toInt x : ℝ) / 2 ^ 1074 := by
      rw [div_le_div_iff_of_pos_right (by positivity)]; exact_mod_cast h
    rw [max_eq_left h, max_eq_left h']

theorem f4_facts : Fin f4 ∧ val f4 = 4 := by
  have h : Fin f4 ∧ toInt f4 = 4 * 2 ^ 1074 := by decide +kernel
  refine ⟨h.1, ?_⟩
  unfold val; rw [h.2]; push_cast; field_simp

/-- `s1.ChordAngleFromSquaredLength`: the clamp to 4 -/
theorem val_chordFromLen2 {y : F64} (hy : Fin y) :
    Fin (chordFromLen2 y) ∧ val (chordFromLen2 y) = min (val y) 4 := by
  obtain ⟨f4f, f4v⟩ := f4_facts
  unfold chordFromLen2
  by_cases h : F64.gt y f4 = true
  · rw [if_pos h]
    have := (gt_val hy f4f).mp h
    rw [f4v] at this
    exact ⟨f4f, by rw [f4v, min_eq_right this.le]⟩
  · rw [if_neg h]
    have : ¬ (val f4 < val y) := fun hc => h ((gt_val hy f4f).mpr hc)
    rw [f4v] at this
    exact ⟨hy, by rw [min_eq_left (not_lt.mp this)]⟩

end S2Proofs.C17Err
