/-
  C17Err.TrueDist — the EXACT squared chord distance from the direction of a float point `x` to the great-circle arc
  between the directions of two float points `a`, `b`, as a closed form, and the proof that it is the minimum over
  the arc:

      trueDist2 x a b =  2 − 2·|n×x| / (|n|·|x|)                       if x lies in the open wedge of the edge (n = a×b)
                         min( chord²(X,A), chord²(X,B) )                otherwise

      trueDist2_le        ∀ P on the arc :  trueDist2 x a b ≤ chord²(X, P)
      trueDist2_attained  ∃ P on the arc :  chord²(X, P) = trueDist2 x a b
-/
import S2Proofs.C17Err.Geom
import S2Proofs.C17Err.Vertex

set_option linter.unusedSimpArgs false
set_option linter.unusedVariables false

namespace S2Proofs.C17Err
open S2 S2.Exact S2Proofs.F64Order S2Proofs.FloatErr R3

/-- the exact real vector of a float vector -/
noncomputable def vecR (p : V3) : R3 := ⟨val p.x, val p.y, val p.z⟩

theorem vecR_n2 (p : V3) : (vecR p).n2 = n2 p := rfl
theorem vecR_dot (p q : V3) : (vecR p).dot (vecR q) = dotR p q := rfl
theorem vecR_len (p : V3) : (vecR p).len = len p := rfl

/-- `x` lies in the open wedge of the edge `ab` -/
def InWedge (x a b : V3) : Prop := InWedgeR (vecR x) (vecR a) (vecR b)

/-- squared chord from the direction of `x` to a unit vector `P` -/
noncomputable def dirChordP (x : V3) (P : R3) : ℝ := 2 - 2 * ((vecR x).dot P / len x)

/-- squared chord from the direction of `x` to the great circle through `a`, `b` -/
noncomputable def gcDist2 (x a b : V3) : ℝ :=
  2 - 2 * ((((vecR a).cross (vecR b)).cross (vecR x)).len / (((vecR a).cross (vecR b)).len * len x))

open Classical in
/-- **the exact squared chord distance from the direction of `x` to the arc `ab`** -/
noncomputable def trueDist2 (x a b : V3) : ℝ :=
  if InWedge x a b then gcDist2 x a b else min (dirChord2 x a) (dirChord2 x b)

theorem dirChord2_eq (x a : V3) (ha : 0 < len a) :
    dirChord2 x a = dirChordP x (comb (1 / len a) (vecR a) 0 (vecR a)) := by
  unfold dirChord2 dirChordP
  rw [dot_comb, vecR_dot]
  field_simp
  ring

/-- the normalised endpoint is on the arc -/
theorem onArc_left (a b : V3) (ha : 0 < len a) : OnArc (vecR a) (vecR b) (comb (1 / len a) (vecR a) 0 (vecR a)) := by
  refine ⟨1 / len a, 0, by positivity, le_refl _, ?_, ?_⟩
  · unfold comb; simp
  · rw [comb_n2, vecR_n2, ← len_sq]
    field_simp; ring

theorem onArc_right (a b : V3) (hb : 0 < len b) : OnArc (vecR a) (vecR b) (comb (1 / len b) (vecR b) 0 (vecR b)) := by
  refine ⟨0, 1 / len b, le_refl _, by positivity, ?_, ?_⟩
  · unfold comb; simp
  · rw [comb_n2, vecR_n2, ← len_sq]
    field_simp; ring

/-- every arc point is perpendicular to `n = a×b` -/
theorem onArc_perp {a b P : R3} (h : OnArc a b P) : P.dot (a.cross b) = 0 := by
  obtain ⟨s, t, _, _, rfl, _⟩ := h
  unfold comb dot cross; ring

/-- **lower bound**: no point of the arc is nearer than `trueDist2` -/
theorem trueDist2_le {x a b : V3} (hx : 0 < len x) (ha : 0 < len a) (hb : 0 < len b)
    {P : R3} (hP : OnArc (vecR a) (vecR b) P) : trueDist2 x a b ≤ dirChordP x P := by
  unfold trueDist2
  split_ifs with hw
  · -- wedge: the great-circle bound
    obtain ⟨hn, _⟩ := wedge_nondeg hw
    have hnl : 0 < ((vecR a).cross (vecR b)).len := by unfold R3.len; exact Real.sqrt_pos.mpr hn
    obtain ⟨s, t, hs, ht, hPe, hP1⟩ := hP
    have hperp := onArc_perp ⟨s, t, hs, ht, hPe, hP1⟩
    have h := gc_lower (vecR x) ((vecR a).cross (vecR b)) P hP1 hperp
    unfold gcDist2 dirChordP
    have h2 : (vecR x).dot P / len x
        ≤ (((vecR a).cross (vecR b)).cross (vecR x)).len / (((vecR a).cross (vecR b)).len * len x) := by
      rw [div_le_div_iff₀ hx (mul_pos hnl hx)]
      nlinarith
    linarith
  · -- outside the wedge: an endpoint
    obtain ⟨s, t, hs, ht, hPe, hP1⟩ := hP
    set A := comb (1 / len a) (vecR a) 0 (vecR a) with hA
    set B := comb (1 / len b) (vecR b) 0 (vecR b) with hB
    have hA1 : A.n2 = 1 := (onArc_left a b ha).choose_spec.choose_spec.2.2.2
    have hB1 : B.n2 = 1 := (onArc_right a b hb).choose_spec.choose_spec.2.2.2
    have hPAB : OnArc A B P := by
      refine ⟨s * len a, t * len b, mul_nonneg hs ha.le, mul_nonneg ht hb.le, ?_, hP1⟩
      rw [hPe, hA, hB]
      unfold comb
      simp only [R3.mk.injEq]
      have ha0 : len a ≠ 0 := ha.ne'
      have hb0 : len b ≠ 0 := hb.ne'
      refine ⟨by field_simp; ring, by field_simp; ring, by field_simp; ring⟩
    have hnw : ¬ (0 < (vecR x).dot B - A.dot B * (vecR x).dot A ∧ 0 < (vecR x).dot A - A.dot B * (vecR x).dot B) := by
      intro hc
      apply hw
      obtain ⟨c1, c2⟩ := hc
      have eA : (vecR x).dot A = dotR x a / len a := by rw [hA, dot_comb, vecR_dot]; field_simp; ring
      have eB : (vecR x).dot B = dotR x b / len b := by rw [hB, dot_comb, vecR_dot]; field_simp; ring
      have eAB : A.dot B = dotR a b / (len a * len b) := by
        rw [hA, hB]; unfold comb dot dotR vecR; field_simp; ring
      rw [eA, eB, eAB] at c1 c2
      have ha0 : len a ≠ 0 := ha.ne'
      have hb0 : len b ≠ 0 := hb.ne'
      constructor
      · rw [wedge_dot_a, vecR_dot, vecR_dot, vecR_dot, vecR_n2, ← len_sq]
        have e : dotR x b / len b - dotR a b / (len a * len b) * (dotR x a / len a)
            = (dotR x b * (len a * len a) - dotR x a * dotR a b) / (len a * len a * len b) := by
          field_simp
        rw [e] at c1
        have hpos : 0 < len a * len a * len b := mul_pos (mul_pos ha ha) hb
        exact (div_pos_iff_of_pos_right hpos).mp c1
      · rw [wedge_dot_b, vecR_dot, vecR_dot, vecR_dot, vecR_n2, ← len_sq]
        have e : dotR x a / len a - dotR a b / (len a * len b) * (dotR x b / len b)
            = (dotR x a * (len b * len b) - dotR x b * dotR a b) / (len a * len b * len b) := by
          field_simp
        rw [e] at c2
        have hpos : 0 < len a * len b * len b := mul_pos (mul_pos ha hb) hb
        have := (div_pos_iff_of_pos_right hpos).mp c2
        linarith
    have hmax := arc_unit hA1 hB1 hPAB hnw
    rw [dirChord2_eq x a ha, dirChord2_eq x b hb]
    unfold dirChordP
    rw [← hA, ← hB]
    have h1 : (vecR x).dot P / len x ≤ max ((vecR x).dot A) ((vecR x).dot B) / len x :=
      div_le_div_of_nonneg_right hmax hx.le
    rcases le_total ((vecR x).dot A) ((vecR x).dot B) with h | h
    · rw [max_eq_right h] at h1
      have : (vecR x).dot A / len x ≤ (vecR x).dot B / len x := div_le_div_of_nonneg_right h hx.le
      rw [min_eq_right (by linarith)]
      linarith
    · rw [max_eq_left h] at h1
      have : (vecR x).dot B / len x ≤ (vecR x).dot A / len x := div_le_div_of_nonneg_right h hx.le
      rw [min_eq_left (by linarith)]
      linarith

/-- **attained**: some point of the arc realises `trueDist2` -/
theorem trueDist2_attained {x a b : V3} (hx : 0 < len x) (ha : 0 < len a) (hb : 0 < len b) :
    ∃ P, OnArc (vecR a) (vecR b) P ∧ dirChordP x P = trueDist2 x a b := by
  unfold trueDist2
  split_ifs with hw
  · obtain ⟨P, hP, hPe⟩ := wedge_attained hw
    obtain ⟨hn, _⟩ := wedge_nondeg hw
    have hnl : 0 < ((vecR a).cross (vecR b)).len := by unfold R3.len; exact Real.sqrt_pos.mpr hn
    refine ⟨P, hP, ?_⟩
    unfold dirChordP gcDist2
    rw [← hPe]
    have : (vecR x).dot P / len x
        = (vecR x).dot P * ((vecR a).cross (vecR b)).len / (((vecR a).cross (vecR b)).len * len x) := by
      field_simp
    rw [this]
  · rcases le_total (dirChord2 x a) (dirChord2 x b) with h | h
    · exact ⟨_, onArc_left a b ha, by rw [min_eq_left h, dirChord2_eq x a ha]⟩
    · exact ⟨_, onArc_right a b hb, by rw [min_eq_right h, dirChord2_eq x b hb]⟩

/-- `trueDist2` is never above either endpoint chord -/
theorem trueDist2_le_endpoints {x a b : V3} (hx : 0 < len x) (ha : 0 < len a) (hb : 0 < len b) :
    trueDist2 x a b ≤ min (dirChord2 x a) (dirChord2 x b) := by
  apply le_min
  · rw [dirChord2_eq x a ha]; exact trueDist2_le hx ha hb (onArc_left a b ha)
  · rw [dirChord2_eq x b hb]; exact trueDist2_le hx ha hb (onArc_right a b hb)

/-- **in the wedge both planar acute-angle inequalities hold** (the hypotheses of `prefilter_pass`) -/
theorem wedge_planar {x a b : V3} (hx : 0 < len x) (ha : 0 < len a) (hb : 0 < len b) (hw : InWedge x a b) :
    dirChord2 x a ≤ dirChord2 x b + dirChord2 a b ∧ dirChord2 x b ≤ dirChord2 x a + dirChord2 a b := by
  obtain ⟨w1, w2⟩ := hw
  rw [wedge_dot_a, vecR_dot, vecR_dot, vecR_dot, vecR_n2, ← len_sq] at w1
  rw [wedge_dot_b, vecR_dot, vecR_dot, vecR_dot, vecR_n2, ← len_sq] at w2
  have hxb := (abs_le.mp (abs_dotR_le x b)).2
  have hxa := (abs_le.mp (abs_dotR_le x a)).2
  have hab := (abs_le.mp (abs_dotR_le a b)).2
  constructor
  · unfold dirChord2
    exact planar_core hx ha hb hxb hab w2
  · unfold dirChord2
    have hba : dotR a b ≤ len b * len a := by rw [mul_comm]; exact hab
    have w1' : dotR x a * dotR a b - dotR x b * (len a * len a) < 0 := by linarith
    have := planar_core (xa := dotR x b) (xb := dotR x a) (ab := dotR a b) hx hb ha hxa hba w1'
    have e : 2 * dotR a b / (len b * len a) = 2 * dotR a b / (len a * len b) := by rw [mul_comm (len b)]
    rw [e] at this
    exact this

end S2Proofs.C17Err
