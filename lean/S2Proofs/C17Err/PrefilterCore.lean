/-
  C17Err.PrefilterCore — real-analysis core of the conservative planar acute-angle test of `interiorDist`:

        reject  ⇔  |fl(XA²) − fl(XB²)|  ≥  fl( fl(AB²) + maxError ),
        maxError = fl( fl( 4.75·dblEpsilon · fl(fl(XA²+XB²)+AB²) ) + 8·dblEpsilon² ).

  If the TRUE squared chords of the directions satisfy the planar acute-angle inequality `DA ≤ DB + DAB`
  (which holds whenever X lies in the wedge of the edge), and the three points are within `δ ≤ δ0` of unit length,
  then the float test cannot reject on the `A` side:  `(fa − fb)(1+u) < (fab + M)(1−u)` for every admissible
  rounding of the float quantities (pure ℝ; `c1 = 9.5u`, `c2 = 32u²(1−u)` are the exact values of the two
  float constants of the code).
-/
import S2Proofs.C17Err.Vertex

set_option linter.unusedSimpArgs false
set_option linter.unusedVariables false

namespace S2Proofs.C17Err
open S2Proofs.FloatErr

/-- `4.75·dblEpsilon` as a float: exactly `9.5·u` -/
noncomputable def pc1 : ℝ := 19 / 2 * uR
/-- `8·dblEpsilon²` as a float: exactly `32·u²·(1−u)` -/
noncomputable def pc2 : ℝ := 32 * uR ^ 2 * (1 - uR)

/-- the guaranteed part of the float slack `maxError`, given the float sum `F = fa + fb + fab` -/
noncomputable def slackLow (F : ℝ) : ℝ := ((pc1 * F * (1 - uR) ^ 3 - eR) + pc2) * (1 - uR)

theorem sq_le_mul_of {δ s t : ℝ} (h0 : δ ≤ 1) (hs : 1 - δ ≤ s) (ht : 1 - δ ≤ t) : (1 - δ) ^ 2 ≤ s * t := by
  calc (1 - δ) ^ 2 = (1 - δ) * (1 - δ) := by ring
    _ ≤ s * t := mul_le_mul hs ht (by linarith) (by linarith)

/-- normalisation part: the exact squared distances of the float coordinates inherit the planar inequality up
    to `8δ0² + δ0(1+δ0)(1+3δ0)·(da+db+dab)` -/
theorem planar_perturb {δ sx sa sb DA DB DAB da db dab : ℝ}
    (hδ0 : 0 ≤ δ) (hδ : δ ≤ delta0)
    (hsx : |sx - 1| ≤ δ) (hsa : |sa - 1| ≤ δ) (hsb : |sb - 1| ≤ δ)
    (hDA : 0 ≤ DA) (hDB : 0 ≤ DB) (hDAB : 0 ≤ DAB)
    (hW : DA ≤ DB + DAB)
    (hda : da = (sx - sa) ^ 2 + sx * sa * DA) (hdb : db = (sx - sb) ^ 2 + sx * sb * DB)
    (hdab : dab = (sa - sb) ^ 2 + sa * sb * DAB) :
    0 ≤ da ∧ 0 ≤ db ∧ 0 ≤ dab ∧
    da - db - dab ≤ 8 * delta0 ^ 2 + delta0 * (1 + delta0) * (1 + 3 * delta0) * (da + db + dab) := by
  have hδ1 := delta0_le
  have hδs : δ ≤ 1 / 2 ^ 52 := le_trans hδ hδ1
  obtain ⟨x1, x2⟩ := abs_le.mp hsx
  obtain ⟨a1, a2⟩ := abs_le.mp hsa
  obtain ⟨b1, b2⟩ := abs_le.mp hsb
  -- differences of the norms
  have dxb : |sx - sb| ≤ 2 * δ := by
    have e : sx - sb = (sx - 1) - (sb - 1) := by ring
    rw [e]; have := abs_sub (sx - 1) (sb - 1); linarith
  have dba : |sb - sa| ≤ 2 * δ := by
    have e : sb - sa = (sb - 1) - (sa - 1) := by ring
    rw [e]; have := abs_sub (sb - 1) (sa - 1); linarith
  have dab' : |sa - sb| ≤ 2 * δ := by rw [abs_sub_comm]; exact dba
  -- term 1 : 2(sx−sb)(sb−sa) ≤ 8δ²
  have t1 : 2 * ((sx - sb) * (sb - sa)) ≤ 8 * δ ^ 2 := by
    have h := abs_mul_le_of dxb dba
    have := le_abs_self ((sx - sb) * (sb - sa))
    linarith
  -- term 2 : sx(sa−sb)·DB ≤ (1+δ)·2δ·DB
  have hsxp : 0 ≤ sx := by linarith
  have hsap : 0 ≤ sa := by linarith
  have t2 : sx * (sa - sb) * DB ≤ (1 + δ) * (2 * δ) * DB := by
    have h1 : sx * (sa - sb) ≤ (1 + δ) * (2 * δ) := by
      have h2 : sa - sb ≤ 2 * δ := (abs_le.mp dab').2
      have h3 : sx * (sa - sb) ≤ sx * (2 * δ) := mul_le_mul_of_nonneg_left h2 hsxp
      have h4 : sx * (2 * δ) ≤ (1 + δ) * (2 * δ) := mul_le_mul_of_nonneg_right (by linarith) (by linarith)
      linarith
    exact mul_le_mul_of_nonneg_right h1 hDB
  have t3 : sa * (sx - sb) * DAB ≤ (1 + δ) * (2 * δ) * DAB := by
    have h1 : sa * (sx - sb) ≤ (1 + δ) * (2 * δ) := by
      have h2 : sx - sb ≤ 2 * δ := (abs_le.mp dxb).2
      have h3 : sa * (sx - sb) ≤ sa * (2 * δ) := mul_le_mul_of_nonneg_left h2 hsap
      have h4 : sa * (2 * δ) ≤ (1 + δ) * (2 * δ) := mul_le_mul_of_nonneg_right (by linarith) (by linarith)
      linarith
    exact mul_le_mul_of_nonneg_right h1 hDAB
  -- the gap
  have hG0 : 0 ≤ DB + DAB - DA := by linarith
  have hδ1' : δ ≤ 1 := le_trans hδs (by norm_num)
  have hss : (1 - δ) ^ 2 ≤ sx * sa := sq_le_mul_of hδ1' (by linarith) (by linarith)
  have t4 : (1 - δ) ^ 2 * (DB + DAB - DA) ≤ sx * sa * (DB + DAB - DA) := mul_le_mul_of_nonneg_right hss hG0
  have hS0 : 0 ≤ DA + DB + DAB := by linarith
  have key : da - db - dab
      = 2 * ((sx - sb) * (sb - sa)) + sx * (sa - sb) * DB + sa * (sx - sb) * DAB
        - sx * sa * (DB + DAB - DA) := by
    rw [hda, hdb, hdab]; ring
  have hgapcoef : (1 + δ) * δ ≤ (1 - δ) ^ 2 := by linarith
  have hmain1 : da - db - dab ≤ 8 * δ ^ 2 + δ * (1 + δ) * (DA + DB + DAB) := by
    have e1 : (1 + δ) * (2 * δ) * DB + (1 + δ) * (2 * δ) * DAB
        = δ * (1 + δ) * ((DA + DB + DAB) + (DB + DAB - DA)) := by ring
    have h5 : (1 + δ) * δ * (DB + DAB - DA) ≤ (1 - δ) ^ 2 * (DB + DAB - DA) :=
      mul_le_mul_of_nonneg_right hgapcoef hG0
    rw [key]
    linarith
  -- S ≤ (1+3δ0)·S'
  have hsa' : (1 - δ) ^ 2 ≤ sx * sb := sq_le_mul_of hδ1' (by linarith) (by linarith)
  have hsb' : (1 - δ) ^ 2 ≤ sa * sb := sq_le_mul_of hδ1' (by linarith) (by linarith)
  have q1 : 0 ≤ (sx - sa) ^ 2 := sq_nonneg _
  have q2 : 0 ≤ (sx - sb) ^ 2 := sq_nonneg _
  have q3 : 0 ≤ (sa - sb) ^ 2 := sq_nonneg _
  have hda0 : (1 - δ) ^ 2 * DA ≤ da := by
    have := mul_le_mul_of_nonneg_right hss hDA; rw [hda]; linarith
  have hdb0 : (1 - δ) ^ 2 * DB ≤ db := by
    have := mul_le_mul_of_nonneg_right hsa' hDB; rw [hdb]; linarith
  have hdab0 : (1 - δ) ^ 2 * DAB ≤ dab := by
    have := mul_le_mul_of_nonneg_right hsb' hDAB; rw [hdab]; linarith
  have hS'S : (1 - δ) ^ 2 * (DA + DB + DAB) ≤ da + db + dab := by linarith
  have hda00 : 0 ≤ da := le_trans (mul_nonneg (sq_nonneg _) hDA) hda0
  have hdb00 : 0 ≤ db := le_trans (mul_nonneg (sq_nonneg _) hDB) hdb0
  have hdab00 : 0 ≤ dab := le_trans (mul_nonneg (sq_nonneg _) hDAB) hdab0
  have hS'0 : 0 ≤ da + db + dab := by linarith
  have hone : 1 ≤ (1 - δ) ^ 2 * (1 + 3 * delta0) := by
    have h1 : (1 - delta0) ^ 2 ≤ (1 - δ) ^ 2 := by
      apply pow_le_pow_left₀ (by linarith) (by linarith)
    have h2 : 1 ≤ (1 - delta0) ^ 2 * (1 + 3 * delta0) := by unfold delta0; norm_num
    have h3 : (1 - delta0) ^ 2 * (1 + 3 * delta0) ≤ (1 - δ) ^ 2 * (1 + 3 * delta0) :=
      mul_le_mul_of_nonneg_right h1 (by linarith [delta0_nonneg])
    linarith
  have hSS' : DA + DB + DAB ≤ (1 + 3 * delta0) * (da + db + dab) := by
    have h1 : (DA + DB + DAB) * 1 ≤ (DA + DB + DAB) * ((1 - δ) ^ 2 * (1 + 3 * delta0)) :=
      mul_le_mul_of_nonneg_left hone hS0
    have h2 : (1 - δ) ^ 2 * (DA + DB + DAB) * (1 + 3 * delta0) ≤ (da + db + dab) * (1 + 3 * delta0) :=
      mul_le_mul_of_nonneg_right hS'S (by linarith [delta0_nonneg])
    linarith
  have h2 : δ ^ 2 ≤ delta0 ^ 2 := pow_le_pow_left₀ hδ0 hδ 2
  have hδcoef : δ * (1 + δ) ≤ delta0 * (1 + delta0) := by linarith
  refine ⟨hda00, hdb00, hdab00, ?_⟩
  have h1 : δ * (1 + δ) * (DA + DB + DAB) ≤ delta0 * (1 + delta0) * ((1 + 3 * delta0) * (da + db + dab)) :=
    mul_le_mul hδcoef hSS' hS0 (by have := delta0_nonneg; positivity)
  linarith

/-- rounding part: from the perturbed planar inequality of the exact squared distances to the float test -/
theorem prefilter_round {da db dab fa fb fab : ℝ}
    (hda00 : 0 ≤ da) (hdb00 : 0 ≤ db) (hdab00 : 0 ≤ dab)
    (hmain2 : da - db - dab ≤ 8 * delta0 ^ 2 + delta0 * (1 + delta0) * (1 + 3 * delta0) * (da + db + dab))
    (hfa : |fa - da| ≤ kap * da + 4 * eR) (hfb : |fb - db| ≤ kap * db + 4 * eR)
    (hfab : |fab - dab| ≤ kap * dab + 4 * eR) (nfb : 0 ≤ fb) :
    (fa - fb) * (1 + uR) < (fab + slackLow (fa + fb + fab)) * (1 - uR) := by
  have hκ := kap_nonneg
  have he := eR_le250
  have he0 := eR_nonneg
  have hS'0 : 0 ≤ da + db + dab := by linarith
  obtain ⟨fa1, fa2⟩ := abs_le.mp hfa
  obtain ⟨fb1, fb2⟩ := abs_le.mp hfb
  obtain ⟨fab1, fab2⟩ := abs_le.mp hfab
  have hFlo : (1 - kap) * (da + db + dab) - 12 * eR ≤ fa + fb + fab := by linarith
  have hFhi : fa + fb + fab ≤ (1 + kap) * (da + db + dab) + 12 * eR := by linarith
  have hdiff : fa - fb - fab ≤ (da - db - dab) + kap * (da + db + dab) + 12 * eR := by linarith
  -- left side
  have hu := uR_nonneg
  have hL : (fa - fb) * (1 + uR) - fab * (1 - uR) ≤ (fa - fb - fab) + uR * (fa + fb + fab) := by
    have := mul_nonneg hu nfb
    linarith
  have hL2 : (fa - fb) * (1 + uR) - fab * (1 - uR)
      ≤ 8 * delta0 ^ 2 + (delta0 * (1 + delta0) * (1 + 3 * delta0) + kap + uR * (1 + kap)) * (da + db + dab)
        + (12 + 12 * uR) * eR := by
    have h1 : uR * (fa + fb + fab) ≤ uR * ((1 + kap) * (da + db + dab) + 12 * eR) :=
      mul_le_mul_of_nonneg_left hFhi hu
    linarith
  -- right side
  have hu1 : (0 : ℝ) ≤ 1 - uR := by unfold uR; norm_num
  have hpc1 : 0 ≤ pc1 := by unfold pc1; exact mul_nonneg (by norm_num) uR_nonneg
  have hR : ((pc1 * ((1 - kap) * (da + db + dab) - 12 * eR) * (1 - uR) ^ 3 - eR) + pc2) * (1 - uR) * (1 - uR)
      ≤ slackLow (fa + fb + fab) * (1 - uR) := by
    unfold slackLow
    have h1 : pc1 * ((1 - kap) * (da + db + dab) - 12 * eR) ≤ pc1 * (fa + fb + fab) :=
      mul_le_mul_of_nonneg_left hFlo hpc1
    have h2 : pc1 * ((1 - kap) * (da + db + dab) - 12 * eR) * (1 - uR) ^ 3 ≤ pc1 * (fa + fb + fab) * (1 - uR) ^ 3 :=
      mul_le_mul_of_nonneg_right h1 (by positivity)
    have h3 : (pc1 * ((1 - kap) * (da + db + dab) - 12 * eR) * (1 - uR) ^ 3 - eR) + pc2
        ≤ (pc1 * (fa + fb + fab) * (1 - uR) ^ 3 - eR) + pc2 := by
      linarith
    exact mul_le_mul_of_nonneg_right (mul_le_mul_of_nonneg_right h3 hu1) hu1
  -- coefficient and constant comparisons
  have hcoef : delta0 * (1 + delta0) * (1 + 3 * delta0) + kap + uR * (1 + kap)
      ≤ pc1 * (1 - kap) * (1 - uR) ^ 3 * (1 - uR) * (1 - uR) := by
    have hk : kap ≤ 5 * uR + 11 * uR ^ 2 := kap_le
    have h1 : delta0 * (1 + delta0) * (1 + 3 * delta0) + (5 * uR + 11 * uR ^ 2) + uR * (1 + (5 * uR + 11 * uR ^ 2))
        ≤ pc1 * (1 - (5 * uR + 11 * uR ^ 2)) * (1 - uR) ^ 3 * (1 - uR) * (1 - uR) := by
      unfold pc1 delta0 uR; norm_num
    have h2 : pc1 * (1 - (5 * uR + 11 * uR ^ 2)) * (1 - uR) ^ 3 * (1 - uR) * (1 - uR)
        ≤ pc1 * (1 - kap) * (1 - uR) ^ 3 * (1 - uR) * (1 - uR) := by
      have : pc1 * (1 - (5 * uR + 11 * uR ^ 2)) ≤ pc1 * (1 - kap) :=
        mul_le_mul_of_nonneg_left (by linarith) hpc1
      exact mul_le_mul_of_nonneg_right (mul_le_mul_of_nonneg_right
        (mul_le_mul_of_nonneg_right this (by positivity)) hu1) hu1
    have := mul_le_mul_of_nonneg_left hk hu
    linarith
  have hconst : 8 * delta0 ^ 2 + (12 + 12 * uR) * eR
      < ((pc1 * (-(12 * eR)) * (1 - uR) ^ 3 - eR) + pc2) * (1 - uR) * (1 - uR) := by
    have h1 : 8 * delta0 ^ 2 + (12 + 12 * uR) * (1 / 2 ^ 250)
        < ((pc1 * (-(12 * (1 / 2 ^ 250))) * (1 - uR) ^ 3 - 1 / 2 ^ 250) + pc2) * (1 - uR) * (1 - uR) := by
      unfold pc1 pc2 delta0 uR; norm_num
    have h2 : (12 + 12 * uR) * eR ≤ (12 + 12 * uR) * (1 / 2 ^ 250) :=
      mul_le_mul_of_nonneg_left he (by linarith)
    have h3 : ((pc1 * (-(12 * (1 / 2 ^ 250))) * (1 - uR) ^ 3 - 1 / 2 ^ 250) + pc2) * (1 - uR) * (1 - uR)
        ≤ ((pc1 * (-(12 * eR)) * (1 - uR) ^ 3 - eR) + pc2) * (1 - uR) * (1 - uR) := by
      apply mul_le_mul_of_nonneg_right _ hu1
      apply mul_le_mul_of_nonneg_right _ hu1
      have : pc1 * (-(12 * (1 / 2 ^ 250))) * (1 - uR) ^ 3 ≤ pc1 * (-(12 * eR)) * (1 - uR) ^ 3 := by
        apply mul_le_mul_of_nonneg_right _ (by positivity)
        apply mul_le_mul_of_nonneg_left _ hpc1
        linarith
      linarith
    linarith
  have hsplit : ((pc1 * ((1 - kap) * (da + db + dab) - 12 * eR) * (1 - uR) ^ 3 - eR) + pc2) * (1 - uR) * (1 - uR)
      = pc1 * (1 - kap) * (1 - uR) ^ 3 * (1 - uR) * (1 - uR) * (da + db + dab)
        + ((pc1 * (-(12 * eR)) * (1 - uR) ^ 3 - eR) + pc2) * (1 - uR) * (1 - uR) := by ring
  have hcS := mul_le_mul_of_nonneg_right hcoef hS'0
  have e : (fab + slackLow (fa + fb + fab)) * (1 - uR) = fab * (1 - uR) + slackLow (fa + fb + fab) * (1 - uR) := by ring
  rw [e]
  linarith

end S2Proofs.C17Err
