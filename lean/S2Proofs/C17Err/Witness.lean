/-
  C17Err.Witness — FINDING: `MaxPointError` (hence `minUpdateDistanceMaxError`) is NOT an upper bound of the error
  of the vertex distance for OUTPUTS OF `Normalize`.

      v = (3ea5baa702fea83e, 3fe1ca3a26234dfc, 3f3a7092ff079dca)      x = Normalize(v),  |x| − 1 = 2.76·2^-53
      w = (bfe1e9d3c4c09b7c, bf24f701ae9ed18f, 3e8796ae33ea9e76)      a = Normalize(w),  |a| − 1 = 2.92·2^-53

      ChordAngleBetweenPoints(x, a) = UpdateMinDistance(x, a, a, ∞) = 0x4000012cd46cc8c3 = 2.000573787278968
      true squared chord of the directions                          = 2.00057378727896582835…
      error = 19.13·2^-53     >     MaxPointError = minUpdateDistanceMaxError = 0x3ce201526ef1aa25 = 18.005·2^-53

  The documented derivation of `MaxPointError` allows a relative error `2·dblEpsilon` "because the lengths of the input
  points may differ from 1 by up to 2·dblEpsilon each"; two points that are each too long by `δ` give `2δ`, and
  `Normalize` produces `δ` up to ≈ 3.2·2^-53 = 1.6·dblEpsilon (measured), so `2δ > 2·dblEpsilon`.  Everything
  below is checked by the kernel in exact integer arithmetic (`decide +kernel`), the real square roots are enclosed by
  rationals.
-/
import S2Proofs.C17Err.Vertex

set_option linter.unusedSimpArgs false
set_option linter.unusedVariables false

namespace S2Proofs.C17Err
open S2 S2.Exact S2.EdgeNum S2Proofs.F64Order S2Proofs.FloatErr

def wV : V3 := ⟨⟨0x3ea5baa702fea83e⟩, ⟨0x3fe1ca3a26234dfc⟩, ⟨0x3f3a7092ff079dca⟩⟩
def wW : V3 := ⟨⟨0xbfe1e9d3c4c09b7c⟩, ⟨0xbf24f701ae9ed18f⟩, ⟨0x3e8796ae33ea9e76⟩⟩
/-- `Normalize(v)` -/
def wX : V3 := wV.normalize
/-- `Normalize(w)` -/
def wA : V3 := wW.normalize
/-- the chord computed by `DistanceFromSegment(x, a, a)` -/
def wD : F64 := distanceFromSegmentChord wX wA wA

/-- integer squared norm / dot product at scale `2^1074` -/
def n2Z (p : V3) : Int := toInt p.x * toInt p.x + toInt p.y * toInt p.y + toInt p.z * toInt p.z
def dotZ (p q : V3) : Int := toInt p.x * toInt q.x + toInt p.y * toInt q.y + toInt p.z * toInt q.z

/-- the kernel-checked facts about the witness -/
theorem witness_facts :
    wX = ⟨⟨0x3eb38af5deaa5141⟩, ⟨0x3fefffff72a2393c⟩, ⟨0x3f47c78c1467cffd⟩⟩ ∧
    wA = ⟨⟨0xbfefffffea15a880⟩, ⟨0xbf32b9bd23f5385a⟩, ⟨0x3e9511ab4536ebad⟩⟩ ∧
    wD = ⟨0x4000012cd46cc8c3⟩ ∧
    minUpdateDistanceMaxError wD = ⟨0x3ce201526ef1aa25⟩ ∧ maxPointError wD = ⟨0x3ce201526ef1aa25⟩ ∧
    Fin3 wX ∧ Fin3 wA ∧ Fin wD ∧ Fin (maxPointError wD) ∧
    (2 ^ 60 + 352) ^ 2 * ((2 : Int) ^ 1074) ^ 2 ≤ n2Z wX * 2 ^ 120 ∧
    (2 ^ 60 + 373) ^ 2 * ((2 : Int) ^ 1074) ^ 2 ≤ n2Z wA * 2 ^ 120 ∧
    dotZ wX wA < 0 ∧
    2 * (-(dotZ wX wA)) * 2 ^ 120
      < (toInt wD - 2 * 2 ^ 1074 - toInt (maxPointError wD)) * 2 ^ 1074 * ((2 ^ 60 + 352) * (2 ^ 60 + 373)) := by
  decide +kernel

theorem n2_int (p : V3) : n2 p = (n2Z p : ℝ) / (2 ^ 1074) ^ 2 := by
  unfold n2 n2Z val; push_cast; field_simp

theorem dotR_int (p q : V3) : dotR p q = (dotZ p q : ℝ) / (2 ^ 1074) ^ 2 := by
  unfold dotR dotZ val; push_cast; field_simp

/-- a rational lower bound of the exact norm -/
theorem len_ge_of_int {p : V3} {k : ℤ} (hk : 0 ≤ k)
    (h : (2 ^ 60 + k) ^ 2 * ((2 : Int) ^ 1074) ^ 2 ≤ n2Z p * 2 ^ 120) :
    ((2 : ℝ) ^ 60 + k) / 2 ^ 60 ≤ len p := by
  unfold len
  apply Real.le_sqrt_of_sq_le
  rw [n2_int, div_pow, div_le_div_iff₀ (by positivity) (by positivity)]
  have h' : (((2 ^ 60 + k) ^ 2 * ((2 : Int) ^ 1074) ^ 2 : ℤ) : ℝ) ≤ ((n2Z p * 2 ^ 120 : ℤ) : ℝ) := Int.cast_le.mpr h
  push_cast at h'
  have e : ((2 : ℝ) ^ 60) ^ 2 = 2 ^ 120 := by rw [← pow_mul]
  rw [e]
  linarith

/-- **the error of the witness exceeds the library's bound** -/
theorem witness_exceeds :
    val (maxPointError wD) < val wD - dirChord2 wX wA := by
  obtain ⟨_, _, _, _, _, _, _, _, _, i1, i2, i3, i4⟩ := witness_facts
  have hx := len_ge_of_int (k := 352) (by norm_num) i1
  have ha := len_ge_of_int (k := 373) (by norm_num) i2
  set sx : ℝ := ((2 : ℝ) ^ 60 + (352 : ℤ)) / 2 ^ 60 with hsx
  set sa : ℝ := ((2 : ℝ) ^ 60 + (373 : ℤ)) / 2 ^ 60 with hsa
  have hsx0 : 0 < sx := by rw [hsx]; positivity
  have hsa0 : 0 < sa := by rw [hsa]; positivity
  have hlx : 0 < len wX := lt_of_lt_of_le hsx0 hx
  have hla : 0 < len wA := lt_of_lt_of_le hsa0 ha
  have hprod : sx * sa ≤ len wX * len wA := mul_le_mul hx ha hsa0.le hlx.le
  -- −dotR > 0
  have hdot : dotR wX wA = (dotZ wX wA : ℝ) / (2 ^ 1074) ^ 2 := dotR_int wX wA
  have hneg : (0 : ℝ) < -(dotZ wX wA : ℝ) := by
    have : ((dotZ wX wA : ℤ) : ℝ) < ((0 : ℤ) : ℝ) := Int.cast_lt.mpr i3
    push_cast at this; linarith
  set N : ℝ := -(dotZ wX wA : ℝ) with hN
  have hS : (0 : ℝ) < (2 ^ 1074) ^ 2 := by positivity
  -- dirChord2 ≤ 2 + 2·(N/S²)/(sx·sa)
  have hchord : dirChord2 wX wA ≤ 2 + 2 * (N / (2 ^ 1074) ^ 2) / (sx * sa) := by
    unfold dirChord2
    rw [hdot]
    have e : 2 - 2 * ((dotZ wX wA : ℝ) / (2 ^ 1074) ^ 2) / (len wX * len wA)
        = 2 + 2 * (N / (2 ^ 1074) ^ 2) / (len wX * len wA) := by rw [hN]; ring
    rw [e]
    have hnum : 0 ≤ 2 * (N / (2 ^ 1074) ^ 2) := by positivity
    have := div_le_div_of_nonneg_left hnum (mul_pos hsx0 hsa0) hprod
    linarith
  -- the integer inequality in reals
  have h4 : ((2 * (-(dotZ wX wA)) * 2 ^ 120 : ℤ) : ℝ)
      < (((toInt wD - 2 * 2 ^ 1074 - toInt (maxPointError wD)) * 2 ^ 1074 * ((2 ^ 60 + 352) * (2 ^ 60 + 373)) : ℤ) : ℝ) :=
    Int.cast_lt.mpr i4
  push_cast at h4
  -- val wD − 2 − val mpe > 2 (N/S²)/(sx sa)
  have hmain : 2 * (N / (2 ^ 1074) ^ 2) / (sx * sa) < val wD - 2 - val (maxPointError wD) := by
    unfold val
    rw [div_lt_iff₀ (mul_pos hsx0 hsa0)]
    have e1 : sx * sa = ((2 : ℝ) ^ 60 + 352) * ((2 : ℝ) ^ 60 + 373) / 2 ^ 120 := by
      rw [hsx, hsa]; push_cast
      rw [div_mul_div_comm, ← pow_add]
    rw [e1]
    have e2 : ((toInt wD : ℝ) / 2 ^ 1074 - 2 - (toInt (maxPointError wD) : ℝ) / 2 ^ 1074)
          * (((2 : ℝ) ^ 60 + 352) * ((2 : ℝ) ^ 60 + 373) / 2 ^ 120)
        = ((toInt wD : ℝ) - 2 * 2 ^ 1074 - (toInt (maxPointError wD) : ℝ)) * 2 ^ 1074
            * (((2 : ℝ) ^ 60 + 352) * ((2 : ℝ) ^ 60 + 373)) / ((2 ^ 1074) ^ 2 * 2 ^ 120) := by
      field_simp
    rw [e2, lt_div_iff₀ (by positivity)]
    have e3 : 2 * (N / (2 ^ 1074) ^ 2) * ((2 ^ 1074) ^ 2 * 2 ^ 120) = 2 * N * 2 ^ 120 := by field_simp
    rw [e3, hN]
    linarith
  linarith

end S2Proofs.C17Err
