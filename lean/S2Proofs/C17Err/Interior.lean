/-
  C17Err.Interior — **the interior value of `interiorDist` meets the documented bound.**

      interiorVal x a b = fl( fl( fl(xDotC²) / c2 ) + fl( qr² ) )

  For float points `x, a, b` within `δ0 = 2^-52 − 2^-80` of unit length and a non-degenerate edge (`EdgeOK`):

      | interiorVal x a b − gcDist2 x a b |  ≤  docInterior( gcDist2 x a b / 2 )

  where `gcDist2` is the exact squared chord from the direction of `x` to the great circle through `a`, `b` and
  `docInterior` is `minUpdateInteriorDistanceMaxError` in exact arithmetic, evaluated at the TRUE distance.
-/
import S2Proofs.C17Err.InteriorChain
import S2Proofs.FloatErr3.Normalize

set_option linter.unusedSimpArgs false
set_option linter.unusedVariables false

namespace S2Proofs.C17Err
open S2 S2.Exact S2.EdgeNum S2Proofs.F64Order S2Proofs.FloatErr R3

/-! ### the computed normal against the exact one -/

theorem dir_theta {c C X : R3} (hLC : 1 / 2 ^ 34 ≤ C.len) (hLC3 : C.len ≤ 5 / 2) (hX : 0 < X.len)
    (hvec : (R3.sub c C).n2 ≤ (etaC * C.len) ^ 2) :
    1 / 2 ^ 35 ≤ c.len ∧ c.len ≤ 3 ∧
    2 - 2 * ((c.cross X).len / (X.len * c.len) * ((C.cross X).len / (X.len * C.len))
          + X.dot c / (X.len * c.len) * (X.dot C / (X.len * C.len)))
      ≤ (etaC * (1 + etaC)) ^ 2 := by
  have hη0 := etaC_pos.le
  have hηθ := etaC_theta
  have hθl := theta0_le
  have hη : etaC ≤ 1 / 2 ^ 40 := by
    have h1 : etaC ≤ etaC * (1 + etaC) := by nlinarith
    have h2 : (44642 : ℝ) / 10000 * uR ≤ 1 / 2 ^ 40 := by unfold uR; norm_num
    linarith
  have hLCpos : 0 < C.len := lt_of_lt_of_le (by positivity) hLC
  -- |Lc − LC| ≤ η·LC
  have hsub : (R3.sub c C).len ≤ etaC * C.len := by
    show Real.sqrt (R3.sub c C).n2 ≤ etaC * C.len
    exact (Real.sqrt_le_left (mul_nonneg hη0 (R3.len_nonneg C))).mpr hvec
  have hdiff := len_sub_le c C
  have hd : |c.len - C.len| ≤ etaC * C.len := le_trans hdiff hsub
  obtain ⟨d1, d2⟩ := abs_le.mp hd
  have hclo : (1 - etaC) * C.len ≤ c.len := by linarith
  have hchi : c.len ≤ (1 + etaC) * C.len := by linarith
  have hc21 : 1 / 2 ^ 35 ≤ c.len := by
    have h1 : (1 - 1 / 2 ^ 40) * (1 / 2 ^ 34) ≤ (1 - etaC) * C.len :=
      mul_le_mul (by linarith) hLC (by positivity) (by linarith)
    have h2 : (1 : ℝ) / 2 ^ 35 ≤ (1 - 1 / 2 ^ 40) * (1 / 2 ^ 34) := by norm_num
    linarith
  have hc3 : c.len ≤ 3 := by
    have h1 : (1 + etaC) * C.len ≤ (1 + 1 / 2 ^ 40) * (5 / 2) :=
      mul_le_mul (by linarith) hLC3 hLCpos.le (by norm_num)
    have h2 : (1 + 1 / 2 ^ 40 : ℝ) * (5 / 2) ≤ 3 := by norm_num
    linarith
  refine ⟨hc21, hc3, ?_⟩
  have hcpos : 0 < c.len := lt_of_lt_of_le (by positivity) hc21
  have hdd := dir_delta c C X
  rw [← R3.len_sq X] at hdd
  -- divide by Lc·LC·lx²
  set lx := X.len with hlx
  set Lc := c.len with hLc
  set LC := C.len with hLCd
  have hden : 0 < Lc * LC * (lx * lx) := mul_pos (mul_pos hcpos hLCpos) (mul_pos hX hX)
  have e1 : 2 - 2 * ((c.cross X).len / (lx * Lc) * ((C.cross X).len / (lx * LC))
          + X.dot c / (lx * Lc) * (X.dot C / (lx * LC)))
      = (2 * (Lc * LC * (lx * lx)) - 2 * ((c.cross X).len * (C.cross X).len + c.dot X * C.dot X))
        / (Lc * LC * (lx * lx)) := by
    rw [R3.dot_comm X c, R3.dot_comm X C]
    field_simp
  rw [e1, div_le_iff₀ hden]
  -- RHS: (η(1+η))²·Lc·LC·lx² ≥ η²LC²·lx²
  have h1 : (etaC * LC) ^ 2 * (lx * lx) ≤ (etaC * (1 + etaC)) ^ 2 * (Lc * LC * (lx * lx)) := by
    have h2 : LC ≤ (1 + etaC) ^ 2 * Lc := by
      have h3 : (1 + etaC) ^ 2 * ((1 - etaC) * LC) ≤ (1 + etaC) ^ 2 * Lc :=
        mul_le_mul_of_nonneg_left hclo (by positivity)
      have h4 : 1 ≤ (1 + etaC) ^ 2 * (1 - etaC) := by
        have e9 : (1 + etaC) ^ 2 * (1 - etaC) - 1 = etaC * (1 - etaC - etaC ^ 2) := by ring
        have h8 : 0 ≤ 1 - etaC - etaC ^ 2 := by nlinarith
        have := mul_nonneg hη0 h8
        linarith
      have h5 : LC * 1 ≤ LC * ((1 + etaC) ^ 2 * (1 - etaC)) := mul_le_mul_of_nonneg_left h4 hLCpos.le
      nlinarith
    have h6 : etaC ^ 2 * LC * (LC * (lx * lx)) ≤ etaC ^ 2 * LC * ((1 + etaC) ^ 2 * Lc * (lx * lx)) := by
      apply mul_le_mul_of_nonneg_left _ (by positivity)
      exact mul_le_mul_of_nonneg_right h2 (mul_self_nonneg lx)
    have e2 : (etaC * LC) ^ 2 * (lx * lx) = etaC ^ 2 * LC * (LC * (lx * lx)) := by ring
    have e3 : (etaC * (1 + etaC)) ^ 2 * (Lc * LC * (lx * lx)) = etaC ^ 2 * LC * ((1 + etaC) ^ 2 * Lc * (lx * lx)) := by ring
    rw [e2, e3]; exact h6
  have h7 : (R3.sub c C).n2 * (lx * lx) ≤ (etaC * LC) ^ 2 * (lx * lx) :=
    mul_le_mul_of_nonneg_right hvec (mul_self_nonneg lx)
  have e4 : 2 * (Lc * LC * (lx * lx)) = 2 * (Lc * LC * (lx * lx)) := rfl
  linarith

/-- a vector with doubled components has doubled length -/
theorem len_double {v w : R3} (hx : v.x = 2 * w.x) (hy : v.y = 2 * w.y) (hz : v.z = 2 * w.z) : v.len = 2 * w.len := by
  have h : v.n2 = (2 * w.len) * (2 * w.len) := by
    have := R3.len_sq w
    unfold R3.n2 R3.dot at this ⊢
    rw [hx, hy, hz]; nlinarith
  unfold R3.len
  rw [h]
  exact Real.sqrt_mul_self (mul_nonneg (by norm_num) (R3.len_nonneg w))


/-! ### the model value -/

/-- the value computed by the interior branch of `interiorDist` -/
def interiorVal (x a b : V3) : F64 :=
  let c := pointCross a b
  let c2 := c.norm2
  let xDotC := x.dot c
  let xDotC2 := xDotC * xDotC
  let cx := c.cross x
  let qr := f1 - F64.sqrt (cx.norm2 / c2)
  (xDotC2 / c2) + (qr * qr)

theorem zero3_facts : Fin3 zero3 ∧ vecR zero3 = ⟨0, 0, 0⟩ := by
  have h : Fin fz ∧ toInt fz = 0 := by decide
  have hv : val fz = 0 := by unfold val; rw [h.2]; simp
  refine ⟨⟨h.1, h.1, h.1⟩, ?_⟩
  unfold vecR zero3
  simp only [hv]

/-- the threshold of the repaired `PointCross` (D60): finite, and at most `2^-95` (it is ≈ 2^-95.7) -/
theorem pcThr_facts : Fin pointCrossMinNorm2 ∧ toInt pointCrossMinNorm2 ≤ 2 ^ 979 := by decide +kernel

theorem pcThr_val_le : val pointCrossMinNorm2 ≤ 1 / 2 ^ 95 := by
  have h : ((toInt pointCrossMinNorm2 : ℤ) : ℝ) ≤ 2 ^ 979 := by exact_mod_cast pcThr_facts.2
  unfold val
  rw [div_le_div_iff₀ (by positivity) (by positivity)]
  calc ((toInt pointCrossMinNorm2 : ℤ) : ℝ) * 2 ^ 95 ≤ 2 ^ 979 * 2 ^ 95 := mul_le_mul_of_nonneg_right h (by positivity)
    _ = 1 * 2 ^ 1074 := by rw [one_mul, ← pow_add]

/-- THE BRIDGE for the float-error proofs (repair D60): a finite float vector whose exact squared length is at least `2^-94`
    (and at most `2^960`) passes the threshold test of `PointCross` -/
theorem ge_thr_of_n2 (v : V3) (hv : Fin3 v) (hlo : 1 / 2 ^ 94 ≤ (vecR v).n2) (hhi : (vecR v).n2 ≤ 2 ^ 960) :
    F64.ge v.norm2 pointCrossMinNorm2 = true := by
  have e : FE3.n2R v = (vecR v).n2 := by unfold FE3.n2R vecR R3.n2 R3.dot; ring
  have hlo' : 1 / 2 ^ 960 ≤ FE3.n2R v := by
    rw [e]; refine le_trans ?_ hlo
    exact one_div_le_one_div_of_le (by positivity) (pow_le_pow_right₀ (by norm_num) (by norm_num))
  obtain ⟨fn, hn⟩ := FE3.NormAux.norm2_float v hv hlo' (by rw [e]; exact hhi)
  rw [ge_val fn pcThr_facts.1]
  rw [e] at hn
  have h1 := (abs_le.mp hn).1
  have hu : 3 * uR + 4 * uR ^ 2 ≤ 1 / 2 := by unfold uR; norm_num
  have hpos : (0 : ℝ) ≤ (vecR v).n2 := le_trans (by positivity) hlo
  have h2 : (1 : ℝ) / 2 ^ 95 ≤ 1 / 2 * (vecR v).n2 := by
    have : (1 : ℝ) / 2 ^ 95 = 1 / 2 * (1 / 2 ^ 94) := by norm_num
    rw [this]; exact mul_le_mul_of_nonneg_left hlo (by norm_num)
  have h3 : (3 * uR + 4 * uR ^ 2) * (vecR v).n2 ≤ 1 / 2 * (vecR v).n2 := mul_le_mul_of_nonneg_right hu hpos
  have := pcThr_val_le
  linarith

/-- for a non-degenerate edge (`EdgeOK`: |2a×b|² ≥ 2^-68) the repaired `PointCross` returns the float formula: its float
    squared norm (≥ 2^-71) is far above `pointCrossMinNorm2` (≈ 2^-95.7), the exact fallback is not taken -/
theorem pointCross_eq {δ : ℝ} (hδ0 : 0 ≤ δ) (hδ : δ ≤ delta0) {a b : V3} (ha : UnitWithin δ a) (hb : UnitWithin δ b)
    (hE : EdgeOK a b) : pointCross a b = pcRaw a b := by
  obtain ⟨fc, mc, hvec⟩ := pcRaw_spec hδ0 hδ ha hb hE
  apply pointCross_eq_float_of_ge
  show F64.ge (pcRaw a b).norm2 pointCrossMinNorm2 = true
  have hLC : 1 / 2 ^ 34 ≤ (vC a b).len := by
    unfold EdgeOK at hE
    unfold R3.len
    apply Real.le_sqrt_of_sq_le
    have e : ((1 : ℝ) / 2 ^ 34) ^ 2 = 1 / 2 ^ 68 := by rw [div_pow, one_pow, ← pow_mul]
    rw [e]; exact hE
  have hpos : 0 < (vC a b).len := lt_of_lt_of_le (by positivity) hLC
  have hη : etaC ≤ 1 / 2 := by
    have h1 := etaC_theta; have h2 := theta0_le; have h0 := etaC_pos
    have h3 : etaC ≤ etaC * (1 + etaC) := by nlinarith
    have h4 : (44642 : ℝ) / 10000 * uR ≤ 1 / 2 := by unfold uR; norm_num
    linarith
  -- |pcRaw| ≥ |C| − |pcRaw − C| ≥ |C|/2
  have hd : (R3.sub (vecR (pcRaw a b)) (vC a b)).len ≤ 1 / 2 * (vC a b).len := by
    have h1 : (R3.sub (vecR (pcRaw a b)) (vC a b)).len ≤ etaC * (vC a b).len := by
      unfold R3.len at *
      apply Real.sqrt_le_iff.mpr
      exact ⟨mul_nonneg etaC_pos.le (Real.sqrt_nonneg _), hvec⟩
    exact le_trans h1 (mul_le_mul_of_nonneg_right hη hpos.le)
  have htri : (vC a b).len ≤ (vecR (pcRaw a b)).len + (R3.sub (vecR (pcRaw a b)) (vC a b)).len := by
    have h := (abs_le.mp (len_sub_le (vecR (pcRaw a b)) (vC a b))).1
    linarith
  have hlen : 1 / 2 ^ 35 ≤ (vecR (pcRaw a b)).len := by
    have : (1 : ℝ) / 2 ^ 35 = 1 / 2 * (1 / 2 ^ 34) := by norm_num
    rw [this]; linarith
  have hn2 : 1 / 2 ^ 94 ≤ (vecR (pcRaw a b)).n2 := by
    rw [← R3.len_sq]
    have h70 : (1 : ℝ) / 2 ^ 70 = 1 / 2 ^ 35 * (1 / 2 ^ 35) := by norm_num
    have h94 : (1 : ℝ) / 2 ^ 94 ≤ 1 / 2 ^ 70 :=
      one_div_le_one_div_of_le (by positivity) (pow_le_pow_right₀ (by norm_num) (by norm_num))
    have := mul_le_mul hlen hlen (by positivity) (R3.len_nonneg _)
    linarith
  have hhi : (vecR (pcRaw a b)).n2 ≤ 2 ^ 960 := by
    obtain ⟨m1, m2, m3⟩ := mc
    have q1 : val (pcRaw a b).x ^ 2 ≤ 25 := by nlinarith [abs_le.mp m1]
    have q2 : val (pcRaw a b).y ^ 2 ≤ 25 := by nlinarith [abs_le.mp m2]
    have q3 : val (pcRaw a b).z ^ 2 ≤ 25 := by nlinarith [abs_le.mp m3]
    have e : (vecR (pcRaw a b)).n2 = val (pcRaw a b).x ^ 2 + val (pcRaw a b).y ^ 2 + val (pcRaw a b).z ^ 2 := by
      unfold vecR R3.n2 R3.dot; ring
    have hb : (75 : ℝ) ≤ 2 ^ 960 := by
      calc (75 : ℝ) ≤ 2 ^ 7 := by norm_num
        _ ≤ 2 ^ 960 := pow_le_pow_right₀ (by norm_num) (by norm_num)
    rw [e]; refine le_trans ?_ hb; linarith
  exact ge_thr_of_n2 _ fc hn2 hhi


/-- sine² + cosine² of the latitude of `X` w.r.t. the normal `c` -/
theorem unit_pair (c X : R3) (hc : 0 < c.len) (hX : 0 < X.len) :
    (X.dot c / (X.len * c.len)) ^ 2 + ((c.cross X).len / (X.len * c.len)) ^ 2 = 1 := by
  have hl := lagrange c X
  have h1 : (c.cross X).len * (c.cross X).len = (c.len * c.len) * (X.len * X.len) - c.dot X * c.dot X := by
    rw [R3.len_sq, R3.len_sq, R3.len_sq]; exact hl
  have hden : X.len * c.len ≠ 0 := (mul_pos hX hc).ne'
  rw [R3.dot_comm X c, div_pow, div_pow, ← add_div, div_eq_one_iff_eq (pow_ne_zero 2 hden)]
  nlinarith

/-- `gcDist2` in terms of `C = 2·(a×b)` -/
theorem gc_eq (x a b : V3) (hlx : 0 < len x) (hn : 0 < (vC a b).len) :
    gcDist2 x a b = 2 - 2 * (((vC a b).cross (vecR x)).len / (len x * (vC a b).len)) := by
  obtain ⟨c1, c2, c3⟩ := vC_two a b
  have hL1 : (vC a b).len = 2 * ((vecR a).cross (vecR b)).len := len_double c1 c2 c3
  have hL2 : ((vC a b).cross (vecR x)).len = 2 * (((vecR a).cross (vecR b)).cross (vecR x)).len := by
    apply len_double
    · show (vC a b).y * (vecR x).z - (vC a b).z * (vecR x).y
          = 2 * (((vecR a).cross (vecR b)).y * (vecR x).z - ((vecR a).cross (vecR b)).z * (vecR x).y)
      rw [c2, c3]; ring
    · show (vC a b).z * (vecR x).x - (vC a b).x * (vecR x).z
          = 2 * (((vecR a).cross (vecR b)).z * (vecR x).x - ((vecR a).cross (vecR b)).x * (vecR x).z)
      rw [c1, c3]; ring
    · show (vC a b).x * (vecR x).y - (vC a b).y * (vecR x).x
          = 2 * (((vecR a).cross (vecR b)).x * (vecR x).y - ((vecR a).cross (vecR b)).y * (vecR x).x)
      rw [c1, c2]; ring
  have hn' : 0 < ((vecR a).cross (vecR b)).len := by rw [hL1] at hn; linarith
  unfold gcDist2
  rw [hL2, hL1]
  have h1 : len x ≠ 0 := hlx.ne'
  have h2 : ((vecR a).cross (vecR b)).len ≠ 0 := hn'.ne'
  field_simp

theorem unit_ab {σ ρ : ℝ} (hunit : σ ^ 2 + ρ ^ 2 = 1) (hρ0 : 0 ≤ ρ) :
    ρ ≤ 1 ∧ |σ| ^ 2 = (1 - ρ) * (2 - (1 - ρ)) := by
  have hρ1 : ρ ≤ 1 := by nlinarith [sq_nonneg σ]
  refine ⟨hρ1, ?_⟩
  rw [sq_abs]; nlinarith

theorem sum30 {lx σc ρc T1 T2 : ℝ} (hlx0 : 0 < lx) (hlx : lx ≤ 1 + 1 / 2 ^ 52) (hunitc : σc ^ 2 + ρc ^ 2 = 1)
    (hρc0 : 0 ≤ ρc) (hT1 : |T1 - (lx * σc) * (lx * σc)| ≤ e1Bound |σc|)
    (hT2 : |T2 - (1 - lx * ρc) * (1 - lx * ρc)| ≤ e2Bound ρc |1 - lx * ρc|) : |T1 + T2| ≤ 2 ^ 30 := by
  -- crude: each term is within its (small) bound of a number ≤ 4
  have hA : |σc| ≤ 1 := by
    have : σc ^ 2 ≤ 1 := by nlinarith [sq_nonneg ρc]
    exact abs_le_one_iff_mul_self_le_one.mpr (by nlinarith)
  have hρc1 : ρc ≤ 1 := by nlinarith [sq_nonneg σc]
  have b1 : e1Bound |σc| ≤ 1 := by
    unfold e1Bound
    have hu := uR_nonneg
    have h0 := abs_nonneg σc
    have hs : |σc| ^ 2 ≤ 1 := by nlinarith
    have t1 : (3 + 1 / 2 ^ 38) * |σc| + (8 + 1 / 2 ^ 20) * |σc| ^ 2 ≤ 12 := by nlinarith
    have t2 : uR * ((3 + 1 / 2 ^ 38) * |σc| + (8 + 1 / 2 ^ 20) * |σc| ^ 2) ≤ uR * 12 := mul_le_mul_of_nonneg_left t1 hu
    have t3 : 52 * uR ^ 2 * |σc| ≤ 52 * uR ^ 2 * 1 := mul_le_mul_of_nonneg_left hA (by positivity)
    have t4 : uR * 12 + 52 * uR ^ 2 * 1 + 7 * uR ^ 2 ≤ 1 := by unfold uR; norm_num
    linarith
  have hβ2 : |1 - lx * ρc| ≤ 2 := by
    have h2 : lx * ρc ≤ (1 + 1 / 2 ^ 52) * 1 := mul_le_mul hlx hρc1 hρc0 (by norm_num)
    have h3 : 0 ≤ lx * ρc := mul_nonneg hlx0.le hρc0
    rw [abs_le]; constructor <;> linarith
  have b2 : e2Bound ρc |1 - lx * ρc| ≤ 1 := by
    unfold e2Bound
    have hu := uR_nonneg
    have h0 := abs_nonneg (1 - lx * ρc)
    have hρβ : ρc * |1 - lx * ρc| ≤ 1 * 2 := mul_le_mul hρc1 hβ2 h0 (by norm_num)
    have hβsq : |1 - lx * ρc| ^ 2 ≤ 4 := by nlinarith
    have t1 : (11 + 1 / 2 ^ 16) * (ρc * |1 - lx * ρc|) + 23094014 / 10000000 * |1 - lx * ρc|
        + (3 + 1 / 2 ^ 40) * |1 - lx * ρc| ^ 2 ≤ 40 := by nlinarith
    have t2 := mul_le_mul_of_nonneg_left t1 hu
    have t3 : 160 * uR ^ 2 * |1 - lx * ρc| ≤ 160 * uR ^ 2 * 2 := mul_le_mul_of_nonneg_left hβ2 (by positivity)
    have t4 : uR * 40 + 160 * uR ^ 2 * 2 + 45 * uR ^ 2 ≤ 1 := by unfold uR; norm_num
    linarith
  have c1 : |T1| ≤ 3 := by
    have h1 := abs_sub_abs_le_abs_sub T1 ((lx * σc) * (lx * σc))
    have h2 : |(lx * σc) * (lx * σc)| ≤ 2 := by
      rw [abs_mul_self]
      have : |lx * σc| ≤ (1 + 1 / 2 ^ 52) * 1 := by
        rw [abs_mul, abs_of_pos hlx0]; exact mul_le_mul hlx hA (abs_nonneg _) (by norm_num)
      have h3 := abs_mul_le_of this this
      rw [abs_mul_self] at h3
      have : ((1 + 1 / 2 ^ 52) * 1 : ℝ) * ((1 + 1 / 2 ^ 52) * 1) ≤ 2 := by norm_num
      linarith
    linarith
  have c2 : |T2| ≤ 5 := by
    have h1 := abs_sub_abs_le_abs_sub T2 ((1 - lx * ρc) * (1 - lx * ρc))
    have h2 : |(1 - lx * ρc) * (1 - lx * ρc)| ≤ 4 := by
      have := abs_mul_le_of hβ2 hβ2; linarith
    linarith
  have := abs_add_le T1 T2
  have : (8 : ℝ) ≤ 2 ^ 30 := by norm_num
  linarith

/-- `|lx − 1| ≤ δ0`, `0 < lx ≤ 1 + 2^-52` -/
theorem unit_len {δ : ℝ} (hδ0 : 0 ≤ δ) (hδ : δ ≤ delta0) {x : V3} (hx : UnitWithin δ x) :
    |len x - 1| ≤ delta0 ∧ 0 < len x ∧ len x ≤ 1 + 1 / 2 ^ 52 := by
  have hδ1 : δ ≤ 1 := le_trans hδ (le_trans delta0_le (by norm_num))
  obtain ⟨l1, l2⟩ := hx.len_bounds hδ0 hδ1
  have h52 := delta0_le
  have hd1 : delta0 ≤ 1 / 2 := le_trans h52 (by norm_num)
  refine ⟨abs_le.mpr ⟨by linarith, by linarith⟩, by linarith, by linarith⟩

/-- **The interior value meets the documented bound (evaluated at the true distance).** -/
theorem interior_value {δ : ℝ} (hδ0 : 0 ≤ δ) (hδ : δ ≤ delta0) {x a b : V3}
    (hx : UnitWithin δ x) (ha : UnitWithin δ a) (hb : UnitWithin δ b) (hE : EdgeOK a b) :
    Fin (interiorVal x a b) ∧
    |val (interiorVal x a b) - gcDist2 x a b| ≤ docInterior (gcDist2 x a b / 2) := by
  have hδ1 : δ ≤ 1 := le_trans hδ (le_trans delta0_le (by norm_num))
  obtain ⟨hlxd, hlx0, hlx⟩ := unit_len hδ0 hδ hx
  obtain ⟨fc, mc, hvec⟩ := pcRaw_spec hδ0 hδ ha hb hE
  have hpc := pointCross_eq hδ0 hδ ha hb hE
  have hLC : 1 / 2 ^ 34 ≤ (vC a b).len := by
    unfold EdgeOK at hE
    unfold R3.len
    apply Real.le_sqrt_of_sq_le
    have e : ((1 : ℝ) / 2 ^ 34) ^ 2 = 1 / 2 ^ 68 := by rw [div_pow, one_pow, ← pow_mul]
    rw [e]; exact hE
  have hLC3 := vC_len_le hδ0 hδ ha hb
  have hXlen : 0 < (vecR x).len := by rw [vecR_len]; exact hlx0
  obtain ⟨hLc, hLc3, hΔ⟩ := dir_theta hLC hLC3 hXlen hvec
  rw [vecR_len] at hΔ
  -- the two terms
  obtain ⟨fT1, hT1⟩ := t1_chain x (pcRaw a b) hx.1 (hx.coord2 hδ0 hδ1) hlx0 hlx fc mc hLc
  obtain ⟨fT2, hT2⟩ := t2_chain x (pcRaw a b) hx.1 (hx.coord2 hδ0 hδ1) hlx0 hlx fc mc hLc hLc3
  -- scalars
  set c := pcRaw a b with hcd
  set lx := len x with hlxdef
  set Lc := (vecR c).len with hLcd
  set LC := (vC a b).len with hLCd
  have hLcpos : 0 < Lc := lt_of_lt_of_le (by positivity) hLc
  have hLCpos : 0 < LC := lt_of_lt_of_le (by positivity) hLC
  set σc := (vecR x).dot (vecR c) / (lx * Lc) with hσc
  set ρc := ((vecR c).cross (vecR x)).len / (lx * Lc) with hρc
  set σ := (vecR x).dot (vC a b) / (lx * LC) with hσ
  set ρ := ((vC a b).cross (vecR x)).len / (lx * LC) with hρ
  have hρc0 : 0 ≤ ρc := div_nonneg (R3.len_nonneg _) (mul_pos hlx0 hLcpos).le
  have hρ0 : 0 ≤ ρ := div_nonneg (R3.len_nonneg _) (mul_pos hlx0 hLCpos).le
  have hunitc : σc ^ 2 + ρc ^ 2 = 1 := by
    have := unit_pair (vecR c) (vecR x) hLcpos hXlen
    rw [vecR_len] at this; exact this
  have hunit : σ ^ 2 + ρ ^ 2 = 1 := by
    have := unit_pair (vC a b) (vecR x) hLCpos hXlen
    rw [vecR_len] at this; exact this
  -- the sum
  set T1 := val ((x.dot c * x.dot c) / c.norm2) with hT1d
  set T2 := val ((f1 - F64.sqrt ((c.cross x).norm2 / c.norm2)) * (f1 - F64.sqrt ((c.cross x).norm2 / c.norm2))) with hT2d
  have hθ0 : 0 ≤ etaC * (1 + etaC) := mul_nonneg etaC_pos.le (by have := etaC_pos; linarith)
  have hsum30 : |T1 + T2| ≤ 2 ^ 30 := sum30 hlx0 hlx hunitc hρc0 hT1 hT2
  obtain ⟨fd, rd, _⟩ := add_step stdModel fT1 fT2 hsum30 (le_refl _)
  -- unfold the model value
  have hval : interiorVal x a b = (x.dot c * x.dot c) / c.norm2
      + (f1 - F64.sqrt ((c.cross x).norm2 / c.norm2)) * (f1 - F64.sqrt ((c.cross x).norm2 / c.norm2)) := by
    unfold interiorVal
    rw [hpc]
  rw [hval]
  refine ⟨fd, ?_⟩
  have hscal := interior_scalar hlxd hunitc hρc0 hunit hρ0 hθ0 etaC_theta hΔ hT1 hT2 rd
  -- identify the true distance
  have hgc : gcDist2 x a b = 2 - 2 * ρ := gc_eq x a b hlx0 hLCpos
  rw [hgc]
  have hb : (2 - 2 * ρ) / 2 = 1 - ρ := by ring
  rw [hb]
  obtain ⟨hρ1, hab⟩ := unit_ab hunit hρ0
  exact le_trans hscal (proved_le_doc (abs_nonneg σ) (sub_nonneg.mpr hρ1) (by linarith only [hρ0]) hab)

end S2Proofs.C17Err
