/-
  C17Err.InteriorChain — the float operations of the interior branch of `interiorDist`, step by step, in
  standard-model form.  `c` is the computed normal (`pcRaw a b`), `x` the query point.
-/
import S2Proofs.C17Err.PointCross

set_option linter.unusedSimpArgs false
set_option linter.unusedVariables false

namespace S2Proofs.C17Err
open S2 S2.Exact S2.EdgeNum S2Proofs.F64Order S2Proofs.FloatErr R3

/-- coordinates in [−5, 5] -/
def Coord5 (p : V3) : Prop := |val p.x| ≤ 5 ∧ |val p.y| ≤ 5 ∧ |val p.z| ≤ 5

/-! ### the dot product `x · c` -/

theorem dot_chain (x c : V3) (hx : Fin3 x) (hc : Fin3 c) (mx : Coord2 x) (mc : Coord5 c) :
    Fin (x.dot c) ∧ |val (x.dot c)| ≤ 213 ∧
    |val (x.dot c) - (vecR x).dot (vecR c)|
      ≤ fU uR * |(vecR x).dot (vecR c)|
        + gU uR * (|val x.x * val c.x| + |val x.y * val c.y| + |val x.z * val c.z|) + hU uR * eR := by
  obtain ⟨ha1, ha2, ha3⟩ := hx
  obtain ⟨hb1, hb2, hb3⟩ := hc
  obtain ⟨ma1, ma2, ma3⟩ := mx
  obtain ⟨mb1, mb2, mb3⟩ := mc
  have m1 : |val x.x * val c.x| ≤ 10 := by have := abs_mul_le_of ma1 mb1; linarith
  have m2 : |val x.y * val c.y| ≤ 10 := by have := abs_mul_le_of ma2 mb2; linarith
  have m3 : |val x.z * val c.z| ≤ 10 := by have := abs_mul_le_of ma3 mb3; linarith
  obtain ⟨fq1, rq1, gq1⟩ := mul_step stdModel ha1 hb1 m1 (by norm_num)
  obtain ⟨fq2, rq2, gq2⟩ := mul_step stdModel ha2 hb2 m2 (by norm_num)
  obtain ⟨fq3, rq3, gq3⟩ := mul_step stdModel ha3 hb3 m3 (by norm_num)
  have ms : |val (x.x * c.x) + val (x.y * c.y)| ≤ 42 := by
    have := abs_add_le (val (x.x * c.x)) (val (x.y * c.y)); linarith
  obtain ⟨fs, rs, gs⟩ := add_step stdModel fq1 fq2 ms (by norm_num)
  have md : |val (x.x * c.x + x.y * c.y) + val (x.z * c.z)| ≤ 106 := by
    have := abs_add_le (val (x.x * c.x + x.y * c.y)) (val (x.z * c.z)); linarith
  obtain ⟨fd, rd, gd⟩ := add_step stdModel fs fq3 md (by norm_num)
  refine ⟨fd, ?_, ?_⟩
  · show |val (x.x * c.x + x.y * c.y + x.z * c.z)| ≤ 213
    linarith
  · have := dot3 uR_nonneg eR_nonneg rq1 rq2 rq3 rs rd
    unfold fU gU hU
    exact this

/-- `Σ|x_i c_i| ≤ |x|·|c|` -/
theorem abs_sum_le_len (x c : V3) :
    |val x.x * val c.x| + |val x.y * val c.y| + |val x.z * val c.z| ≤ len x * (vecR c).len := by
  have h := R3.abs_dot_le (⟨|val x.x|, |val x.y|, |val x.z|⟩ : R3) ⟨|val c.x|, |val c.y|, |val c.z|⟩
  have e1 : (⟨|val x.x|, |val x.y|, |val x.z|⟩ : R3).len = len x := by
    unfold R3.len R3.n2 R3.dot len n2
    simp only [abs_mul_abs_self]
  have e2 : (⟨|val c.x|, |val c.y|, |val c.z|⟩ : R3).len = (vecR c).len := by
    unfold R3.len R3.n2 R3.dot vecR
    simp only [abs_mul_abs_self]
  rw [e1, e2] at h
  have e3 : (⟨|val x.x|, |val x.y|, |val x.z|⟩ : R3).dot ⟨|val c.x|, |val c.y|, |val c.z|⟩
      = |val x.x * val c.x| + |val x.y * val c.y| + |val x.z * val c.z| := by
    unfold R3.dot; simp only [abs_mul]
  rw [e3] at h
  exact le_trans (le_abs_self _) h

/-! ### the cross product `c × x` -/

theorem cross_chain (c x : V3) (hc : Fin3 c) (hx : Fin3 x) (mc : Coord5 c) (mx : Coord2 x) :
    Fin3 (c.cross x) ∧
    (R3.sub (vecR (c.cross x)) ((vecR c).cross (vecR x))).n2
      ≤ (uR * ((vecR c).cross (vecR x)).len + uR * (1 + uR) * (2 / r3 * ((vecR c).len * len x))
          + 2 * (2 * (1 + uR) * eR)) ^ 2 := by
  obtain ⟨hc1, hc2, hc3⟩ := hc
  obtain ⟨hx1, hx2, hx3⟩ := hx
  obtain ⟨mc1, mc2, mc3⟩ := mc
  obtain ⟨mx1, mx2, mx3⟩ := mx
  have x5 : ∀ {t : ℝ}, |t| ≤ 2 → |t| ≤ 5 := fun h => by linarith
  obtain ⟨f1, _, r23, r32, rx1⟩ := cross_step5 stdModel hc2 hx3 hc3 hx2 mc2 (x5 mx3) mc3 (x5 mx2)
  obtain ⟨f2, _, r31, r13, rx2⟩ := cross_step5 stdModel hc3 hx1 hc1 hx3 mc3 (x5 mx1) mc1 (x5 mx3)
  obtain ⟨f3, _, r12, r21, rx3⟩ := cross_step5 stdModel hc1 hx2 hc2 hx1 mc1 (x5 mx2) mc2 (x5 mx1)
  have hu := uR_nonneg
  have he := eR_nonneg
  have c1 := cross_comp hu r23 r32 rx1
  have c2 := cross_comp hu r31 r13 rx2
  have c3 := cross_comp hu r12 r21 rx3
  refine ⟨⟨f1, f2, f3⟩, ?_⟩
  set X := (vecR c).cross (vecR x) with hX
  have hXsq : X.x ^ 2 + X.y ^ 2 + X.z ^ 2 ≤ X.len ^ 2 := by rw [n2_sq, sq, R3.len_sq]
  have hcsq : (vecR c).x ^ 2 + (vecR c).y ^ 2 + (vecR c).z ^ 2 ≤ (vecR c).len ^ 2 := by
    rw [n2_sq, sq, R3.len_sq]
  have hxsq : (vecR x).x ^ 2 + (vecR x).y ^ 2 + (vecR x).z ^ 2 ≤ (len x) ^ 2 := by
    rw [n2_sq, sq, ← vecR_len, R3.len_sq]
  have hvec := cross_err_vec (u := uR) (k := uR * (1 + uR)) (g := 2 * (1 + uR) * eR) hu
    (mul_nonneg hu (by linarith)) (mul_nonneg (mul_nonneg (by norm_num) (by linarith)) he)
    (R3.len_nonneg X) (R3.len_nonneg _) (len_nonneg x) hXsq hcsq hxsq
    (c1 := val (c.cross x).x) (c2 := val (c.cross x).y) (c3 := val (c.cross x).z)
    (X1 := X.x) (X2 := X.y) (X3 := X.z) c1 c2 c3
  have e : (R3.sub (vecR (c.cross x)) X).n2
      = (val (c.cross x).x - X.x) ^ 2 + (val (c.cross x).y - X.y) ^ 2 + (val (c.cross x).z - X.z) ^ 2 := by
    unfold R3.sub R3.n2 R3.dot vecR; ring
  rw [e]
  exact hvec


/-! ### common facts about `c2 = fl(|c|²)` -/

/-- the tiny absolute term used throughout: `2^76·e = 2^-999` -/
noncomputable def tinyT : ℝ := 2 ^ 76 * eR

theorem tinyT_nonneg : 0 ≤ tinyT := by unfold tinyT; have := eR_nonneg; positivity
theorem eR_le_tinyT : eR ≤ tinyT := by
  unfold tinyT; have := eR_nonneg
  have : (1 : ℝ) ≤ 2 ^ 76 := by norm_num
  nlinarith
theorem tinyT_le : tinyT ≤ tinyR := by
  unfold tinyT tinyR eR
  rw [mul_one_div, div_le_div_iff₀ (by positivity) (by positivity), one_mul, ← pow_add]
  exact pow_le_pow_right₀ (by norm_num) (by norm_num)

theorem tinyR_le_half : tinyR ≤ 1 / 2 := by
  unfold tinyR
  have h : (2 : ℝ) ^ 1 ≤ 2 ^ 900 := pow_le_pow_right₀ (by norm_num) (by norm_num)
  rw [pow_one] at h
  exact one_div_le_one_div_of_le (by norm_num) h

theorem vecR_n2' (c : V3) : val c.x * val c.x + val c.y * val c.y + val c.z * val c.z = (vecR c).n2 := rfl

/-- `c2 = fl(|c|²)` relative to `Lc² ≥ 2^-42` -/
theorem c2_chain (c : V3) (hc : Fin3 c) (mc : Coord5 c) (hLc : 1 / 2 ^ 35 ≤ (vecR c).len) :
    Fin c.norm2 ∧ 0 < val c.norm2 ∧
    |val c.norm2 / ((vecR c).len * (vecR c).len) - 1| ≤ rhoU uR + tinyT ∧
    rhoU uR + tinyT ≤ (3 + 1 / 2 ^ 40) * uR := by
  obtain ⟨fn, herr, hS0, _⟩ := norm2_step stdModel c hc mc
  rw [vecR_n2', ← R3.len_sq] at herr
  set Lc := (vecR c).len with hLcd
  have hLcpos : 0 < Lc := lt_of_lt_of_le (by positivity) hLc
  have hL2 : 1 / 2 ^ 70 ≤ Lc * Lc := by
    have := mul_le_mul hLc hLc (by positivity) hLcpos.le
    have e : (1 : ℝ) / 2 ^ 35 * (1 / 2 ^ 35) = 1 / 2 ^ 70 := by rw [div_mul_div_comm, one_mul, ← pow_add]
    linarith
  have hL2pos : 0 < Lc * Lc := mul_pos hLcpos hLcpos
  have he := eR_nonneg
  have hρ := rhoU_le
  have hρ0 : 0 ≤ rhoU uR := rhoU_nn
  -- 4e ≤ tinyT·Lc²
  have h4e : 4 * eR ≤ tinyT * (Lc * Lc) := by
    unfold tinyT
    have : (2 : ℝ) ^ 76 * eR * (1 / 2 ^ 70) ≤ 2 ^ 76 * eR * (Lc * Lc) :=
      mul_le_mul_of_nonneg_left hL2 (by positivity)
    have e : (2 : ℝ) ^ 76 * eR * (1 / 2 ^ 70) = 64 * eR := by
      rw [show (2 : ℝ) ^ 76 = 64 * 2 ^ 70 by norm_num]; field_simp
    have : 4 * eR ≤ 64 * eR := mul_le_mul_of_nonneg_right (by norm_num) he
    linarith
  have htl : tinyT ≤ 1 / 2 ^ 200 * uR := by
    have := tinyT_le
    have : tinyR ≤ 1 / 2 ^ 200 * uR := by
      have := tinyR_le
      have : uR ^ 2 ≤ uR := by unfold uR; norm_num
      nlinarith
    linarith
  have hg : rhoU uR + tinyT ≤ (3 + 1 / 2 ^ 40) * uR := by
    have : (3 + 1 / 2 ^ 50) * uR + 1 / 2 ^ 200 * uR ≤ (3 + 1 / 2 ^ 40) * uR := by
      have := uR_nonneg; nlinarith
    linarith
  have hw : |val c.norm2 / (Lc * Lc) - 1| ≤ rhoU uR + tinyT := by
    have e : val c.norm2 / (Lc * Lc) - 1 = (val c.norm2 - Lc * Lc) / (Lc * Lc) := by field_simp
    rw [e, abs_div, abs_of_pos hL2pos, div_le_iff₀ hL2pos]
    have : (rhoU uR + tinyT) * (Lc * Lc) = rhoU uR * (Lc * Lc) + tinyT * (Lc * Lc) := by ring
    linarith
  refine ⟨fn, ?_, hw, hg⟩
  have hsmall : rhoU uR + tinyT ≤ 1 / 2 := le_trans hg (by unfold uR; norm_num)
  have := (abs_le.mp hw).1
  have h2 : 1 / 2 ≤ val c.norm2 / (Lc * Lc) := by linarith
  have h3 : 0 < val c.norm2 / (Lc * Lc) := by linarith
  exact (div_pos_iff_of_pos_right hL2pos).mp h3


/-! ### the term `T1 = fl( fl(xd·xd) / c2 )` -/

theorem hU_le : hU uR ≤ 4 := by unfold hU uR; norm_num

theorem t1_chain (x c : V3) (hx : Fin3 x) (mx : Coord2 x) (hlx0 : 0 < len x) (hlx : len x ≤ 1 + 1 / 2 ^ 52)
    (hc : Fin3 c) (mc : Coord5 c) (hLc : 1 / 2 ^ 35 ≤ (vecR c).len) :
    Fin ((x.dot c * x.dot c) / c.norm2) ∧
    |val ((x.dot c * x.dot c) / c.norm2)
        - (len x * ((vecR x).dot (vecR c) / (len x * (vecR c).len)))
          * (len x * ((vecR x).dot (vecR c) / (len x * (vecR c).len)))|
      ≤ e1Bound |(vecR x).dot (vecR c) / (len x * (vecR c).len)| := by
  obtain ⟨fd, bd, herr⟩ := dot_chain x c hx hc mx mc
  have hSig := abs_sum_le_len x c
  obtain ⟨fc2, c2pos, hw, hg⟩ := c2_chain c hc mc hLc
  set lx := len x with hlxd
  set Lc := (vecR c).len with hLcd
  set Xc := (vecR x).dot (vecR c) with hXc
  set xd := val (x.dot c) with hxd
  have hLcpos : 0 < Lc := lt_of_lt_of_le (by positivity) hLc
  have hLcinv : 1 / Lc ≤ 2 ^ 35 := by
    rw [div_le_iff₀ hLcpos]
    have := mul_le_mul_of_nonneg_left hLc (by positivity : (0:ℝ) ≤ 2 ^ 35)
    have e : (2 : ℝ) ^ 35 * (1 / 2 ^ 35) = 1 := by field_simp
    linarith
  have hu := uR_nonneg
  have he := eR_nonneg
  set σc := Xc / (lx * Lc) with hσc
  have hXcσ : Xc = lx * Lc * σc := by rw [hσc]; field_simp
  have hXabs : |Xc| ≤ lx * Lc := by
    have := R3.abs_dot_le (vecR x) (vecR c); rw [vecR_len] at this; exact this
  have hσ1 : |σc| ≤ 1 := by
    rw [hσc, abs_div, abs_of_pos (mul_pos hlx0 hLcpos), div_le_one (mul_pos hlx0 hLcpos)]; exact hXabs
  -- s and its error
  set es := lx * (fU uR * |σc| + gU uR) + tinyT with hes
  have hes0 : 0 ≤ es := by
    rw [hes]
    have := mul_nonneg hlx0.le (add_nonneg (mul_nonneg fU_nonneg (abs_nonneg σc)) gU_nonneg)
    have := tinyT_nonneg; linarith
  have hs : |xd / Lc - lx * σc| ≤ es := by
    have e1 : xd / Lc - lx * σc = (xd - Xc) / Lc := by rw [hXcσ]; field_simp
    rw [e1, abs_div, abs_of_pos hLcpos, div_le_iff₀ hLcpos]
    have h1 : fU uR * |Xc| = fU uR * (lx * |σc|) * Lc := by
      rw [hXcσ, abs_mul, abs_mul, abs_of_pos hlx0, abs_of_pos hLcpos]; ring
    have h2 : gU uR * (|val x.x * val c.x| + |val x.y * val c.y| + |val x.z * val c.z|) ≤ gU uR * (lx * Lc) :=
      mul_le_mul_of_nonneg_left hSig gU_nonneg
    have h3 : hU uR * eR ≤ tinyT * Lc := by
      unfold tinyT
      have h4 : hU uR * eR ≤ 4 * eR := mul_le_mul_of_nonneg_right hU_le he
      have h5 : (2 : ℝ) ^ 76 * eR * (1 / 2 ^ 35) ≤ 2 ^ 76 * eR * Lc := mul_le_mul_of_nonneg_left hLc (mul_nonneg (by norm_num) he)
      have e2 : (2 : ℝ) ^ 76 * eR * (1 / 2 ^ 35) = 2 ^ 41 * eR := by
        rw [show (2 : ℝ) ^ 76 = 2 ^ 41 * 2 ^ 35 by rw [← pow_add]]; field_simp
      have : 4 * eR ≤ 2 ^ 41 * eR := mul_le_mul_of_nonneg_right (by norm_num) he
      linarith
    have e3 : es * Lc = fU uR * (lx * |σc|) * Lc + gU uR * (lx * Lc) + tinyT * Lc := by rw [hes]; ring
    rw [e3]; linarith
  -- xd2
  have mxd : |xd * xd| ≤ 45369 := by
    have := abs_mul_le_of bd bd; linarith
  obtain ⟨fxd2, rxd2, _⟩ := mul_step stdModel fd fd mxd (by norm_num)
  set xd2 := val (x.dot c * x.dot c) with hxd2
  have hL2pos : 0 < Lc * Lc := mul_pos hLcpos hLcpos
  have hL2inv : eR / (Lc * Lc) ≤ tinyT := by
    rw [div_le_iff₀ hL2pos]
    unfold tinyT
    have h1 : (1 : ℝ) / 2 ^ 70 ≤ Lc * Lc := by
      have := mul_le_mul hLc hLc (by positivity) hLcpos.le
      have e : (1 : ℝ) / 2 ^ 35 * (1 / 2 ^ 35) = 1 / 2 ^ 70 := by rw [div_mul_div_comm, one_mul, ← pow_add]
      linarith
    have h2 : (2 : ℝ) ^ 76 * eR * (1 / 2 ^ 70) ≤ 2 ^ 76 * eR * (Lc * Lc) := mul_le_mul_of_nonneg_left h1 (mul_nonneg (by norm_num) he)
    have e2 : (2 : ℝ) ^ 76 * eR * (1 / 2 ^ 70) = 64 * eR := by
      rw [show (2 : ℝ) ^ 76 = 64 * 2 ^ 70 by norm_num]; field_simp
    have h64 : eR ≤ 64 * eR := by linarith
    linarith
  have hp2 : |xd2 / (Lc * Lc) - xd / Lc * (xd / Lc)| ≤ uR * (xd / Lc * (xd / Lc)) + tinyT := by
    unfold Rnd at rxd2
    have e1 : xd2 / (Lc * Lc) - xd / Lc * (xd / Lc) = (xd2 - xd * xd) / (Lc * Lc) := by field_simp
    have e2 : xd / Lc * (xd / Lc) = xd * xd / (Lc * Lc) := by field_simp
    rw [e1, e2, abs_div, abs_of_pos hL2pos]
    have h0 : 0 ≤ xd * xd := mul_self_nonneg _
    rw [abs_of_nonneg h0] at rxd2
    have h1 : |xd2 - xd * xd| / (Lc * Lc) ≤ (uR * (xd * xd) + eR) / (Lc * Lc) :=
      div_le_div_of_nonneg_right rxd2 hL2pos.le
    have e3 : (uR * (xd * xd) + eR) / (Lc * Lc) = uR * (xd * xd / (Lc * Lc)) + eR / (Lc * Lc) := by field_simp
    linarith
  -- the quotient is moderate
  have hgq : rhoU uR + tinyT ≤ 1 / 4 := le_trans hg (by unfold uR; norm_num)
  have hg0 : 0 ≤ rhoU uR + tinyT := add_nonneg rhoU_nn tinyT_nonneg
  have hes4 : es ≤ 1 := by
    rw [hes]
    have h1 : fU uR * |σc| + gU uR ≤ (3 / 2 + 1 / 2 ^ 50) * uR * 2 := by
      have := mul_le_mul fU_le hσ1 (abs_nonneg _) (mul_nonneg (by norm_num) hu)
      have := gU_le; linarith
    have h2 : lx * (fU uR * |σc| + gU uR) ≤ (1 + 1 / 2 ^ 52) * ((3 / 2 + 1 / 2 ^ 50) * uR * 2) :=
      mul_le_mul hlx h1 (add_nonneg (mul_nonneg fU_nonneg (abs_nonneg _)) gU_nonneg) (by norm_num)
    have h3 : (1 + 1 / 2 ^ 52) * ((3 / 2 + 1 / 2 ^ 50) * uR * 2) ≤ 1 / 2 := by unfold uR; norm_num
    have h4 : tinyT ≤ 1 / 2 := le_trans tinyT_le tinyR_le_half
    linarith
  have hsabs : |xd / Lc| ≤ 3 := by
    have h1 := abs_sub_abs_le_abs_sub (xd / Lc) (lx * σc)
    have h2 : |lx * σc| ≤ (1 + 1 / 2 ^ 52) * 1 := by
      rw [abs_mul, abs_of_pos hlx0]; exact mul_le_mul hlx hσ1 (abs_nonneg _) (by norm_num)
    linarith
  have hss : xd / Lc * (xd / Lc) ≤ 9 := by
    have := abs_mul_le_of hsabs hsabs
    rw [abs_mul_self] at this; linarith
  have hss0 : 0 ≤ xd / Lc * (xd / Lc) := mul_self_nonneg _
  have hp2abs : |xd2 / (Lc * Lc)| ≤ 19 := by
    have h1 := abs_sub_abs_le_abs_sub (xd2 / (Lc * Lc)) (xd / Lc * (xd / Lc))
    rw [abs_of_nonneg hss0] at h1
    have h2 : uR * (xd / Lc * (xd / Lc)) ≤ 1 * 9 := mul_le_mul uR_le_one hss hss0 (by norm_num)
    have h4 : tinyT ≤ 1 := le_trans tinyT_le (le_trans tinyR_le_half (by norm_num))
    linarith
  set w := val c.norm2 / (Lc * Lc) with hwd
  have hwlo : 3 / 4 ≤ w := by have := (abs_le.mp hw).1; linarith
  have hquot : xd2 / val c.norm2 = xd2 / (Lc * Lc) / w := by
    rw [hwd]; field_simp
  have hqabs : |xd2 / val c.norm2| ≤ 2 ^ 30 := by
    rw [hquot, abs_div, abs_of_pos (by linarith : 0 < w), div_le_iff₀ (by linarith : 0 < w)]
    have : (19 : ℝ) ≤ 2 ^ 30 * (3 / 4) := by norm_num
    have : (2 : ℝ) ^ 30 * (3 / 4) ≤ 2 ^ 30 * w := mul_le_mul_of_nonneg_left hwlo (by positivity)
    linarith
  obtain ⟨fT1, rT1⟩ := div_step fxd2 fc2 c2pos.ne' hqabs
  rw [hquot] at rT1
  refine ⟨fT1, ?_⟩
  have hcore := t1_core hu uR_le_one he hg0 hgq eR_le_tinyT hs hp2 hw rT1
  have hlxσ : |lx * σc| = lx * |σc| := by rw [abs_mul, abs_of_pos hlx0]
  rw [hlxσ] at hcore
  have hsimple := e1_simple (abs_nonneg σc) (le_trans hσ1 (by norm_num)) hlx0.le hlx hg0 hg tinyT_nonneg tinyT_le
    hes0 (le_of_eq hes)
  unfold e1Bound
  exact le_trans hcore hsimple


/-! ### the term `T2 = fl(qr·qr)` -/

theorem val_f1 : Fin f1 ∧ val f1 = 1 := by
  have h : Fin f1 ∧ toInt f1 = 2 ^ 1074 := by decide +kernel
  refine ⟨h.1, ?_⟩
  unfold val; rw [h.2]; push_cast; field_simp

theorem isZero_of_val_zero {x : F64} (h : val x = 0) : x.isZero = true := by
  cases hz : x.isZero
  · exfalso
    have hm := mant_pos hz
    rw [val_mant] at h
    have h1 : (0 : ℝ) < (x.mant : ℝ) := by exact_mod_cast hm
    have h2 := tw_pos x.expo
    have h3 : sg x.signBit ≠ 0 := by unfold sg; cases x.signBit <;> simp
    have : sg x.signBit * (x.mant : ℝ) * tw x.expo ≠ 0 :=
      mul_ne_zero (mul_ne_zero h3 h1.ne') h2.ne'
    exact this h
  · rfl

/-- the float square root with relative error `u`, including the argument `±0` -/
theorem sqrt_step {x : F64} (hx : Fin x) (h0 : 0 ≤ val x) (hle : val x ≤ 2 ^ 30) :
    Fin (F64.sqrt x) ∧ |val (F64.sqrt x) - Real.sqrt (val x)| ≤ uR * Real.sqrt (val x) := by
  rcases h0.lt_or_eq with hpos | hz
  · obtain ⟨hf, _, herr⟩ := sqrt_rel hx hpos hle
    exact ⟨hf, herr⟩
  · have hzero := isZero_of_val_zero hz.symm
    have hs := (F64Round.sqrt_special x).2.1 (isNaN_false hx) hzero
    rw [hs, ← hz]
    simp [hx]

/-- reverse triangle inequality for `R3.len` -/
theorem len_sub_le (u v : R3) : |u.len - v.len| ≤ (R3.sub u v).len := by
  have h1 := R3.abs_dot_le u v
  have hd := sub_n2 u v
  have h0 := R3.len_nonneg (R3.sub u v)
  apply abs_le_of_sq_le_sq' _ h0 |>.elim (fun a b => abs_le.mpr ⟨a, b⟩)
  rw [sq, sq, R3.len_sq, hd, ← R3.len_sq u, ← R3.len_sq v]
  have := (abs_le.mp h1).2
  nlinarith

theorem comp_le_len (v : R3) : |v.x| ≤ v.len ∧ |v.y| ≤ v.len ∧ |v.z| ≤ v.len := by
  have h := R3.len_sq v
  have h0 := R3.len_nonneg v
  unfold R3.n2 R3.dot at h
  have q1 := mul_self_nonneg v.x; have q2 := mul_self_nonneg v.y; have q3 := mul_self_nonneg v.z
  refine ⟨abs_le_of_sq_le_sq' (by nlinarith) h0 |>.elim (fun a b => abs_le.mpr ⟨a, b⟩),
          abs_le_of_sq_le_sq' (by nlinarith) h0 |>.elim (fun a b => abs_le.mpr ⟨a, b⟩),
          abs_le_of_sq_le_sq' (by nlinarith) h0 |>.elim (fun a b => abs_le.mpr ⟨a, b⟩)⟩

/-- `τ = 2^-498` -/
noncomputable def tauT : ℝ := 1 / 2 ^ 498

theorem tauT_facts : 0 ≤ tauT ∧ 3 * tinyT ≤ tauT * tauT ∧ tauT ≤ uR ^ 2 := by
  unfold tauT tinyT eR uR
  refine ⟨by positivity, ?_, ?_⟩
  · have e1 : (1 : ℝ) / 2 ^ 498 * (1 / 2 ^ 498) = 1 / 2 ^ 996 := by rw [div_mul_div_comm, one_mul, ← pow_add]
    have e2 : (3 : ℝ) * (2 ^ 76 * (1 / 2 ^ 1075)) ≤ 2 ^ 78 * (1 / 2 ^ 1075) := by
      have : (0 : ℝ) ≤ 1 / 2 ^ 1075 := by positivity
      nlinarith
    have e3 : (2 : ℝ) ^ 78 * (1 / 2 ^ 1075) = 1 / 2 ^ 997 := by
      rw [mul_one_div, div_eq_div_iff (by positivity) (by positivity), one_mul, ← pow_add]
    have e4 : (1 : ℝ) / 2 ^ 997 ≤ 1 / 2 ^ 996 :=
      one_div_le_one_div_of_le (by positivity) (pow_le_pow_right₀ (by norm_num) (by norm_num))
    rw [e1]; linarith
  · rw [div_pow, one_pow, ← pow_mul]
    exact one_div_le_one_div_of_le (by positivity) (pow_le_pow_right₀ (by norm_num) (by norm_num))


theorem g8_le : 2 * (2 * (1 + uR) * eR) ≤ 8 * eR := by
  have h1 : uR ≤ 1 := uR_le_one
  have h2 := eR_nonneg
  nlinarith

theorem g8_div_le {Lc : ℝ} (hLc : 1 / 2 ^ 35 ≤ Lc) : 2 * (2 * (1 + uR) * eR) / Lc ≤ tinyT := by
  have hLcpos : 0 < Lc := lt_of_lt_of_le (by positivity) hLc
  have he := eR_nonneg
  rw [div_le_iff₀ hLcpos]
  unfold tinyT
  have h5 : (2 : ℝ) ^ 76 * eR * (1 / 2 ^ 35) ≤ 2 ^ 76 * eR * Lc := mul_le_mul_of_nonneg_left hLc (mul_nonneg (by norm_num) he)
  have e2 : (2 : ℝ) ^ 76 * eR * (1 / 2 ^ 35) = 2 ^ 41 * eR := by
    rw [show (2 : ℝ) ^ 76 = 2 ^ 41 * 2 ^ 35 by rw [← pow_add]]; field_simp
  have h6 := g8_le
  have : 8 * eR ≤ 2 ^ 41 * eR := mul_le_mul_of_nonneg_right (by norm_num) he
  linarith

theorem four_e_div_le {Lc : ℝ} (hLc : 1 / 2 ^ 35 ≤ Lc) : 4 * eR / (Lc * Lc) ≤ tinyT := by
  have hLcpos : 0 < Lc := lt_of_lt_of_le (by positivity) hLc
  have he := eR_nonneg
  rw [div_le_iff₀ (mul_pos hLcpos hLcpos)]
  unfold tinyT
  have h1 : (1 : ℝ) / 2 ^ 70 ≤ Lc * Lc := by
    have := mul_le_mul hLc hLc (by positivity) hLcpos.le
    have e : (1 : ℝ) / 2 ^ 35 * (1 / 2 ^ 35) = 1 / 2 ^ 70 := by rw [div_mul_div_comm, one_mul, ← pow_add]
    linarith
  have h2 : (2 : ℝ) ^ 76 * eR * (1 / 2 ^ 70) ≤ 2 ^ 76 * eR * (Lc * Lc) := mul_le_mul_of_nonneg_left h1 (mul_nonneg (by norm_num) he)
  have e2 : (2 : ℝ) ^ 76 * eR * (1 / 2 ^ 70) = 64 * eR := by
    rw [show (2 : ℝ) ^ 76 = 64 * 2 ^ 70 by norm_num]; field_simp
  have h64 : 4 * eR ≤ 64 * eR := mul_le_mul_of_nonneg_right (by norm_num) he
  linarith

theorem tinyT_le_quarter : tinyT ≤ 1 / 4 := by
  have h5 : tinyR ≤ 1 / 2 ^ 200 * uR ^ 2 := tinyR_le
  have h6 : (1 : ℝ) / 2 ^ 200 * uR ^ 2 ≤ 1 / 4 := by unfold uR; norm_num
  linarith [tinyT_le]

/-- the bound of the error vector of `fl(c × x)` is small -/
theorem B_small {Lx Lc lx : ℝ} (hLx0 : 0 ≤ Lx) (hLx : Lx ≤ 4) (hLc0 : 0 ≤ Lc) (hLc3 : Lc ≤ 3) (hlx0 : 0 ≤ lx)
    (hlx : lx ≤ 1 + 1 / 2 ^ 52) :
    0 ≤ uR * Lx + uR * (1 + uR) * (2 / r3 * (Lc * lx)) + 2 * (2 * (1 + uR) * eR) ∧
    uR * Lx + uR * (1 + uR) * (2 / r3 * (Lc * lx)) + 2 * (2 * (1 + uR) * eR) ≤ 1 / 2 := by
  have hu := uR_nonneg
  have he := eR_nonneg
  have h23 : 0 ≤ 2 / r3 := div_nonneg (by norm_num) r3_pos.le
  have t1 : 0 ≤ uR * Lx := mul_nonneg hu hLx0
  have t2 : 0 ≤ uR * (1 + uR) * (2 / r3 * (Lc * lx)) :=
    mul_nonneg (mul_nonneg hu (by linarith)) (mul_nonneg h23 (mul_nonneg hLc0 hlx0))
  have t3 : 0 ≤ 2 * (2 * (1 + uR) * eR) := mul_nonneg (by norm_num) (mul_nonneg (mul_nonneg (by norm_num) (by linarith)) he)
  refine ⟨by linarith, ?_⟩
  have a1 : uR * Lx ≤ uR * 4 := mul_le_mul_of_nonneg_left hLx hu
  have a2 : 2 / r3 * (Lc * lx) ≤ 11547006 / 10000000 * (3 * (1 + 1 / 2 ^ 52)) :=
    mul_le_mul two_div_r3_le (mul_le_mul hLc3 hlx hlx0 (by norm_num)) (mul_nonneg hLc0 hlx0) (by norm_num)
  have a3 : uR * (1 + uR) * (2 / r3 * (Lc * lx)) ≤ uR * (1 + uR) * (11547006 / 10000000 * (3 * (1 + 1 / 2 ^ 52))) :=
    mul_le_mul_of_nonneg_left a2 (mul_nonneg hu (by linarith))
  have a4 := g8_le
  have a5 : eR ≤ 1 / 2 ^ 250 := eR_le250
  have a6 : uR * 4 + uR * (1 + uR) * (11547006 / 10000000 * (3 * (1 + 1 / 2 ^ 52))) + 8 * (1 / 2 ^ 250) ≤ 1 / 2 := by
    unfold uR; norm_num
  linarith

/-- `em ≤ 1/2` -/
theorem em_small {lx ρc : ℝ} (hlx0 : 0 ≤ lx) (hlx : lx ≤ 1 + 1 / 2 ^ 52) (hρ0 : 0 ≤ ρc) (hρ1 : ρc ≤ 1) :
    uR * (lx * ρc) + (1 + uR) * uR * (2 / r3) * lx + tinyT ≤ 1 / 2 := by
  have hu := uR_nonneg
  have h2 : lx * ρc ≤ (1 + 1 / 2 ^ 52) * 1 := mul_le_mul hlx hρ1 hρ0 (by norm_num)
  have a1 : uR * (lx * ρc) ≤ uR * ((1 + 1 / 2 ^ 52) * 1) := mul_le_mul_of_nonneg_left h2 hu
  have a2 : (1 + uR) * uR * (2 / r3) * lx ≤ (1 + uR) * uR * (11547006 / 10000000) * (1 + 1 / 2 ^ 52) :=
    mul_le_mul (mul_le_mul_of_nonneg_left two_div_r3_le (mul_nonneg (by linarith) hu)) hlx hlx0
      (mul_nonneg (mul_nonneg (by linarith) hu) (by norm_num))
  have a3 := tinyT_le_quarter
  have a4 : uR * ((1 + 1 / 2 ^ 52) * 1) + (1 + uR) * uR * (11547006 / 10000000) * (1 + 1 / 2 ^ 52) ≤ 1 / 4 := by
    unfold uR; norm_num
  linarith

/-- the float vector `fl(c × x)` : finite, coordinates ≤ 5, and its normalised length `m = |cx|/Lc` -/
theorem cx_chain (x c : V3) (hx : Fin3 x) (mx : Coord2 x) (hlx0 : 0 < len x) (hlx : len x ≤ 1 + 1 / 2 ^ 52)
    (hc : Fin3 c) (mc : Coord5 c) (hLc : 1 / 2 ^ 35 ≤ (vecR c).len) (hLc3 : (vecR c).len ≤ 3) :
    Fin3 (c.cross x) ∧ Coord5 (c.cross x) ∧
    0 ≤ ((vecR c).cross (vecR x)).len / (len x * (vecR c).len) ∧
    ((vecR c).cross (vecR x)).len / (len x * (vecR c).len) ≤ 1 ∧
    |(vecR (c.cross x)).len / (vecR c).len
        - len x * (((vecR c).cross (vecR x)).len / (len x * (vecR c).len))|
      ≤ uR * (len x * (((vecR c).cross (vecR x)).len / (len x * (vecR c).len)))
        + (1 + uR) * uR * (2 / r3) * len x + tinyT := by
  obtain ⟨fcx, hvec⟩ := cross_chain c x hc hx mc mx
  set lx := len x with hlxd
  set Lc := (vecR c).len with hLcd
  set Lx := ((vecR c).cross (vecR x)).len with hLxd
  set cxL := (vecR (c.cross x)).len with hcxL
  have hLcpos : 0 < Lc := lt_of_lt_of_le (by positivity) hLc
  have hLx0 : 0 ≤ Lx := R3.len_nonneg _
  have hLxle : Lx ≤ lx * Lc := by
    have hl := lagrange (vecR c) (vecR x)
    have h1 : Lx * Lx ≤ (lx * Lc) * (lx * Lc) := by
      rw [hLxd, R3.len_sq, hl, ← R3.len_sq (vecR c), vecR_n2, ← len_sq]
      have := mul_self_nonneg ((vecR c).dot (vecR x))
      nlinarith
    exact abs_le_of_sq_le_sq' (by nlinarith) (mul_nonneg hlx0.le hLcpos.le) |>.2
  have hρ0 : 0 ≤ Lx / (lx * Lc) := div_nonneg hLx0 (mul_pos hlx0 hLcpos).le
  have hρ1 : Lx / (lx * Lc) ≤ 1 := by rw [div_le_one (mul_pos hlx0 hLcpos)]; exact hLxle
  have hLxρ : Lx = lx * Lc * (Lx / (lx * Lc)) := by field_simp
  have hLx4 : Lx ≤ 4 := by
    have : lx * Lc ≤ (1 + 1 / 2 ^ 52) * 3 := mul_le_mul hlx hLc3 hLcpos.le (by norm_num)
    linarith
  obtain ⟨hB0, hBhalf⟩ := B_small hLx0 hLx4 hLcpos.le hLc3 hlx0.le hlx
  have hdiff : |cxL - Lx| ≤ uR * Lx + uR * (1 + uR) * (2 / r3 * (Lc * lx)) + 2 * (2 * (1 + uR) * eR) := by
    have h1 := len_sub_le (vecR (c.cross x)) ((vecR c).cross (vecR x))
    have h2 : (R3.sub (vecR (c.cross x)) ((vecR c).cross (vecR x))).len
        ≤ uR * Lx + uR * (1 + uR) * (2 / r3 * (Lc * lx)) + 2 * (2 * (1 + uR) * eR) := by
      unfold R3.len
      rw [Real.sqrt_le_left hB0]
      exact hvec
    linarith
  have hcxLle : cxL ≤ 5 := by
    have h1 := (abs_le.mp hdiff).2
    linarith
  have mcx : Coord5 (c.cross x) := by
    obtain ⟨c1, c2, c3⟩ := comp_le_len (vecR (c.cross x))
    exact ⟨le_trans c1 hcxLle, le_trans c2 hcxLle, le_trans c3 hcxLle⟩
  refine ⟨fcx, mcx, hρ0, hρ1, ?_⟩
  have hg := g8_div_le hLc
  have e1 : cxL / Lc - lx * (Lx / (lx * Lc)) = (cxL - Lx) / Lc := by field_simp
  rw [e1, abs_div, abs_of_pos hLcpos]
  have h1 : |cxL - Lx| / Lc ≤ (uR * Lx + uR * (1 + uR) * (2 / r3 * (Lc * lx)) + 2 * (2 * (1 + uR) * eR)) / Lc :=
    div_le_div_of_nonneg_right hdiff hLcpos.le
  have e2 : (uR * Lx + uR * (1 + uR) * (2 / r3 * (Lc * lx)) + 2 * (2 * (1 + uR) * eR)) / Lc
      = uR * (lx * (Lx / (lx * Lc))) + (1 + uR) * uR * (2 / r3) * lx + 2 * (2 * (1 + uR) * eR) / Lc := by
    field_simp
  linarith


/-- the computed `q = fl(√ fl(W/c2))` against `lx·ρc` -/
theorem q_chain (x c : V3) (hx : Fin3 x) (mx : Coord2 x) (hlx0 : 0 < len x) (hlx : len x ≤ 1 + 1 / 2 ^ 52)
    (hc : Fin3 c) (mc : Coord5 c) (hLc : 1 / 2 ^ 35 ≤ (vecR c).len) (hLc3 : (vecR c).len ≤ 3) :
    Fin (F64.sqrt ((c.cross x).norm2 / c.norm2)) ∧
    |val (F64.sqrt ((c.cross x).norm2 / c.norm2))
        - len x * (((vecR c).cross (vecR x)).len / (len x * (vecR c).len))|
      ≤ uR * ((11 / 2 + 1 / 2 ^ 17) * (((vecR c).cross (vecR x)).len / (len x * (vecR c).len))
          + 11547007 / 10000000) + 31 * uR ^ 2 := by
  obtain ⟨fcx, mcx, hρ0, hρ1, hme⟩ := cx_chain x c hx mx hlx0 hlx hc mc hLc hLc3
  obtain ⟨fc2, c2pos, hw, hg⟩ := c2_chain c hc mc hLc
  obtain ⟨hτ0, hτ3, hτu⟩ := tauT_facts
  set lx := len x with hlxd
  set Lc := (vecR c).len with hLcd
  set ρc := ((vecR c).cross (vecR x)).len / (lx * Lc) with hρc
  set m := (vecR (c.cross x)).len / Lc with hm
  have hLcpos : 0 < Lc := lt_of_lt_of_le (by positivity) hLc
  have hL2pos : 0 < Lc * Lc := mul_pos hLcpos hLcpos
  have hu := uR_nonneg
  have he := eR_nonneg
  have hm0 : 0 ≤ m := div_nonneg (R3.len_nonneg _) hLcpos.le
  have hemhalf := em_small hlx0.le hlx hρ0 hρ1
  have hmle : m ≤ 2 := by
    have h1 := (abs_le.mp hme).2
    have h2 : lx * ρc ≤ (1 + 1 / 2 ^ 52) * 1 := mul_le_mul hlx hρ1 hρ0 (by norm_num)
    linarith only [h1, h2, hemhalf]
  -- W
  obtain ⟨fW, hWerr, _, _⟩ := norm2_step stdModel (c.cross x) fcx mcx
  have hW0 := norm2_val_nonneg (c.cross x) fcx mcx
  rw [vecR_n2', ← R3.len_sq] at hWerr
  set W := val (c.cross x).norm2 with hWd
  have hL2inv := four_e_div_le hLc
  have hpW : |W / (Lc * Lc) - m * m| ≤ rhoU uR * (m * m) + tinyT := by
    have e1 : W / (Lc * Lc) - m * m = (W - (vecR (c.cross x)).len * (vecR (c.cross x)).len) / (Lc * Lc) := by
      rw [hm]; field_simp
    have e2 : m * m = (vecR (c.cross x)).len * (vecR (c.cross x)).len / (Lc * Lc) := by rw [hm]; field_simp
    rw [e1, e2, abs_div, abs_of_pos hL2pos]
    have h1 : |W - (vecR (c.cross x)).len * (vecR (c.cross x)).len| / (Lc * Lc)
        ≤ (rhoU uR * ((vecR (c.cross x)).len * (vecR (c.cross x)).len) + 4 * eR) / (Lc * Lc) :=
      div_le_div_of_nonneg_right hWerr hL2pos.le
    have e3 : (rhoU uR * ((vecR (c.cross x)).len * (vecR (c.cross x)).len) + 4 * eR) / (Lc * Lc)
        = rhoU uR * ((vecR (c.cross x)).len * (vecR (c.cross x)).len / (Lc * Lc)) + 4 * eR / (Lc * Lc) := by
      field_simp
    linarith only [h1, e3, hL2inv]
  have hpW0 : 0 ≤ W / (Lc * Lc) := div_nonneg hW0 hL2pos.le
  -- the quotient
  set w := val c.norm2 / (Lc * Lc) with hwd
  have hgq : rhoU uR + tinyT ≤ 1 / 4 := le_trans hg (by unfold uR; norm_num)
  have hwlo : 3 / 4 ≤ w := by
    have := (abs_le.mp hw).1
    linarith only [this, hgq]
  have hwpos : 0 < w := by linarith only [hwlo]
  have hquot : W / val c.norm2 = W / (Lc * Lc) / w := by rw [hwd]; field_simp
  have hmm : m * m ≤ 4 := by nlinarith only [hm0, hmle]
  have hpWle : W / (Lc * Lc) ≤ 9 := by
    have h1 := (abs_le.mp hpW).2
    have h2 : rhoU uR * (m * m) ≤ 1 * 4 :=
      mul_le_mul (le_trans rhoU_le (by unfold uR; norm_num)) hmm (mul_self_nonneg m) (by norm_num)
    have h3 := tinyT_le_quarter
    linarith only [h1, h2, h3, hmm]
  have hqabs : |W / val c.norm2| ≤ 2 ^ 30 := by
    rw [hquot, abs_div, abs_of_pos hwpos, abs_of_nonneg hpW0, div_le_iff₀ hwpos]
    have h1 : (2 : ℝ) ^ 30 * (3 / 4) ≤ 2 ^ 30 * w := mul_le_mul_of_nonneg_left hwlo (by positivity)
    have h2 : (9 : ℝ) ≤ 2 ^ 30 * (3 / 4) := by norm_num
    linarith only [h1, h2, hpWle]
  obtain ⟨fR, rR⟩ := div_step fW fc2 c2pos.ne' hqabs
  have hRr0 : 0 ≤ val ((c.cross x).norm2 / c.norm2) := by
    have hz : c.norm2.isZero = false := isZero_false_of_val_ne c2pos.ne'
    apply round_nonneg (F64Round.isRound_div fW fc2 hz) _ fR
    have h1 : (0 : ℝ) ≤ ((F64Round.val (c.cross x).norm2 : ℚ) : ℝ) := by rw [← val_cast]; exact hW0
    have h2 : (0 : ℝ) < ((F64Round.val c.norm2 : ℚ) : ℝ) := by rw [← val_cast]; exact c2pos
    have h1' : (0 : ℚ) ≤ F64Round.val (c.cross x).norm2 := by exact_mod_cast h1
    have h2' : (0 : ℚ) < F64Round.val c.norm2 := by exact_mod_cast h2
    exact div_nonneg h1' h2'.le
  rw [hquot] at rR
  set Rr := val ((c.cross x).norm2 / c.norm2) with hRr
  have hg0 : 0 ≤ rhoU uR + tinyT := add_nonneg rhoU_nn tinyT_nonneg
  have hg8 : rhoU uR + tinyT ≤ 1 / 8 := le_trans hg (by unfold uR; norm_num)
  have hr4 : rhoU uR ≤ 1 / 4 := le_trans rhoU_le (by unfold uR; norm_num)
  obtain ⟨hlo, hhi⟩ := rr_bounds (τ := tauT) hu (by unfold uR; norm_num) he rhoU_nn hr4 hg0 hg8 eR_le_tinyT hτ3
    hpW0 hpW hw rR
  have hr40 : rhoU uR ≤ (3 + 1 / 2 ^ 40) * uR := by
    have h1 := rhoU_le
    have h2 : (3 + 1 / 2 ^ 50) * uR ≤ (3 + 1 / 2 ^ 40) * uR := mul_le_mul_of_nonneg_right (by norm_num) hu
    linarith only [h1, h2]
  obtain ⟨hx0, hxle⟩ := relR_le rhoU_nn hr40 hg0 hg
  set xr := relR uR (rhoU uR) (rhoU uR + tinyT) with hxr
  have hxhalf : xr ≤ 1 / 2 := le_trans hxle (by unfold uR; norm_num)
  have hRrle : Rr ≤ 2 ^ 30 := by
    have h1 : m * m * (1 + xr) ≤ 4 * 2 := mul_le_mul hmm (by linarith only [hxhalf]) (by linarith only [hx0]) (by norm_num)
    have h2 : tauT * tauT ≤ 1 := by
      have : tauT ≤ 1 := le_trans hτu (by unfold uR; norm_num)
      nlinarith only [this, hτ0]
    have h3 : (9 : ℝ) ≤ 2 ^ 30 := by norm_num
    linarith only [h1, h2, h3, hhi]
  obtain ⟨fq, hq⟩ := sqrt_step fR hRr0 hRrle
  have hqm := q_vs_m hu hm0 hx0 hxhalf hτ0 hRr0 hlo hhi hq
  exact ⟨fq, eq_simple hρ0 hρ1 hlx0.le hlx hm0 hme (le_refl _) tinyT_nonneg tinyT_le hx0 hxle hτ0 hτu hqm⟩

/-- `T2 = fl(qr·qr)`, `qr = fl(1 − q)` -/
theorem t2_chain (x c : V3) (hx : Fin3 x) (mx : Coord2 x) (hlx0 : 0 < len x) (hlx : len x ≤ 1 + 1 / 2 ^ 52)
    (hc : Fin3 c) (mc : Coord5 c) (hLc : 1 / 2 ^ 35 ≤ (vecR c).len) (hLc3 : (vecR c).len ≤ 3) :
    Fin ((f1 - F64.sqrt ((c.cross x).norm2 / c.norm2)) * (f1 - F64.sqrt ((c.cross x).norm2 / c.norm2))) ∧
    |val ((f1 - F64.sqrt ((c.cross x).norm2 / c.norm2)) * (f1 - F64.sqrt ((c.cross x).norm2 / c.norm2)))
        - (1 - len x * (((vecR c).cross (vecR x)).len / (len x * (vecR c).len)))
          * (1 - len x * (((vecR c).cross (vecR x)).len / (len x * (vecR c).len)))|
      ≤ e2Bound (((vecR c).cross (vecR x)).len / (len x * (vecR c).len))
          |1 - len x * (((vecR c).cross (vecR x)).len / (len x * (vecR c).len))| := by
  obtain ⟨_, _, hρ0, hρ1, _⟩ := cx_chain x c hx mx hlx0 hlx hc mc hLc hLc3
  obtain ⟨fq, heqs⟩ := q_chain x c hx mx hlx0 hlx hc mc hLc hLc3
  set lx := len x with hlxd
  set ρc := ((vecR c).cross (vecR x)).len / (lx * (vecR c).len) with hρc
  set q := val (F64.sqrt ((c.cross x).norm2 / c.norm2)) with hqd
  have hu := uR_nonneg
  have he := eR_nonneg
  obtain ⟨ff1, vf1⟩ := val_f1
  have hlxρ : lx * ρc ≤ (1 + 1 / 2 ^ 52) * 1 := mul_le_mul hlx hρ1 hρ0 (by norm_num)
  have hlxρ0 : 0 ≤ lx * ρc := mul_nonneg hlx0.le hρ0
  have heq1 : uR * ((11 / 2 + 1 / 2 ^ 17) * ρc + 11547007 / 10000000) + 31 * uR ^ 2 ≤ 1 := by
    have a1 : (11 / 2 + 1 / 2 ^ 17) * ρc ≤ (11 / 2 + 1 / 2 ^ 17) * 1 := mul_le_mul_of_nonneg_left hρ1 (by norm_num)
    have a2 : uR * ((11 / 2 + 1 / 2 ^ 17) * ρc + 11547007 / 10000000) ≤ uR * ((11 / 2 + 1 / 2 ^ 17) * 1 + 11547007 / 10000000) :=
      mul_le_mul_of_nonneg_left (by linarith only [a1]) hu
    have a3 : uR * ((11 / 2 + 1 / 2 ^ 17) * 1 + 11547007 / 10000000) + 31 * uR ^ 2 ≤ 1 := by unfold uR; norm_num
    linarith only [a2, a3]
  have hq4 : |q| ≤ 4 := by
    have h1 := abs_sub_abs_le_abs_sub q (lx * ρc)
    rw [abs_of_nonneg hlxρ0] at h1
    linarith only [h1, heqs, heq1, hlxρ]
  have msub : |val f1 - q| ≤ 5 := by
    rw [vf1]; have := abs_sub 1 q; rw [abs_one] at this; linarith only [this, hq4]
  obtain ⟨fqr, rqr, bqr⟩ := sub_step stdModel ff1 fq msub (by norm_num)
  rw [vf1] at rqr
  have mqr : |val (f1 - F64.sqrt ((c.cross x).norm2 / c.norm2)) * val (f1 - F64.sqrt ((c.cross x).norm2 / c.norm2))| ≤ 121 := by
    have := abs_mul_le_of bqr bqr; linarith only [this]
  obtain ⟨fT2, rT2, _⟩ := mul_step stdModel fqr fqr mqr (by norm_num)
  refine ⟨fT2, ?_⟩
  have hcore := t2_core hu he heqs rqr rT2
  have hβ1 : |1 - lx * ρc| ≤ 2 := by
    rw [abs_le]; constructor <;> linarith only [hlxρ, hlxρ0]
  have heq0 : 0 ≤ uR * ((11 / 2 + 1 / 2 ^ 17) * ρc + 11547007 / 10000000) + 31 * uR ^ 2 :=
    le_trans (abs_nonneg _) heqs
  have hsimple := e2_simple hρ0 hρ1 (abs_nonneg (1 - lx * ρc)) hβ1 he (le_trans eR_le_tinyT tinyT_le) heq0 (le_refl _)
  unfold e2Bound
  exact le_trans hcore hsimple

end S2Proofs.C17Err
