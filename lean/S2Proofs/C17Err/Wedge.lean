/-
  C17Err.Wedge — the exact wedge test of `interiorDist`

        (a − x)·(c × x) < 0   ∧   (b − x)·(c × x) > 0          (c = PointCross(a, b))

  evaluated in floats.  With the exact `C = 2·a×b`:  `(a−x)·(C×x) = −x·(C×a)`, so the exact signs are those of the wedge.
  `wedge_term` : the float value of one test is within `12u·|p−x|·|C|·|x| + tiny` of the exact value; hence the float
  test decides the exact wedge whenever both exact values exceed that margin (`WedgeMargin`).
-/
import S2Proofs.C17Err.Interior
import S2Proofs.C17Err.Prefilter

set_option linter.unusedSimpArgs false
set_option linter.unusedVariables false

namespace S2Proofs.C17Err
open S2 S2.Exact S2.EdgeNum S2Proofs.F64Order S2Proofs.FloatErr R3

/-! ### vector algebra -/

theorem dot_sub_left (u v w : R3) : (R3.sub u v).dot w = u.dot w - v.dot w := by unfold R3.sub R3.dot; ring
theorem dot_sub_right (w u v : R3) : w.dot (R3.sub u v) = w.dot u - w.dot v := by unfold R3.sub R3.dot; ring
theorem cross_sub_left (u v w : R3) : (R3.sub u v).cross w = R3.sub (u.cross w) (v.cross w) := by
  unfold R3.sub R3.cross; simp only [R3.mk.injEq]; refine ⟨by ring, by ring, by ring⟩

theorem cross_len_le (u v : R3) : (u.cross v).len ≤ u.len * v.len := by
  have hl := lagrange u v
  have h0 : 0 ≤ u.len * v.len := mul_nonneg (R3.len_nonneg u) (R3.len_nonneg v)
  have hsq : (u.cross v).len * (u.cross v).len ≤ (u.len * v.len) * (u.len * v.len) := by
    rw [R3.len_sq, hl]
    have e : (u.len * v.len) * (u.len * v.len) = (u.len * u.len) * (v.len * v.len) := by ring
    rw [e, R3.len_sq, R3.len_sq]
    have := mul_self_nonneg (u.dot v)
    linarith
  exact abs_le_of_sq_le_sq' (by nlinarith) h0 |>.2

theorem len_le_of_n2 {v : R3} {B : ℝ} (hB : 0 ≤ B) (h : v.n2 ≤ B ^ 2) : v.len ≤ B :=
  (Real.sqrt_le_left hB).mpr h

/-- general float dot product (coordinates ≤ 5 on both sides) -/
theorem dot_chain5 (s c : V3) (hs : Fin3 s) (hc : Fin3 c) (ms : Coord5 s) (mc : Coord5 c) :
    Fin (s.dot c) ∧
    |val (s.dot c) - (vecR s).dot (vecR c)|
      ≤ (fU uR + gU uR) * ((vecR s).len * (vecR c).len) + hU uR * eR := by
  obtain ⟨ha1, ha2, ha3⟩ := hs
  obtain ⟨hb1, hb2, hb3⟩ := hc
  obtain ⟨ma1, ma2, ma3⟩ := ms
  obtain ⟨mb1, mb2, mb3⟩ := mc
  have m1 : |val s.x * val c.x| ≤ 25 := by have := abs_mul_le_of ma1 mb1; linarith
  have m2 : |val s.y * val c.y| ≤ 25 := by have := abs_mul_le_of ma2 mb2; linarith
  have m3 : |val s.z * val c.z| ≤ 25 := by have := abs_mul_le_of ma3 mb3; linarith
  obtain ⟨fq1, rq1, gq1⟩ := mul_step stdModel ha1 hb1 m1 (by norm_num)
  obtain ⟨fq2, rq2, gq2⟩ := mul_step stdModel ha2 hb2 m2 (by norm_num)
  obtain ⟨fq3, rq3, gq3⟩ := mul_step stdModel ha3 hb3 m3 (by norm_num)
  have ms' : |val (s.x * c.x) + val (s.y * c.y)| ≤ 102 := by
    have := abs_add_le (val (s.x * c.x)) (val (s.y * c.y)); linarith
  obtain ⟨fs, rs, gs⟩ := add_step stdModel fq1 fq2 ms' (by norm_num)
  have md : |val (s.x * c.x + s.y * c.y) + val (s.z * c.z)| ≤ 256 := by
    have := abs_add_le (val (s.x * c.x + s.y * c.y)) (val (s.z * c.z)); linarith
  obtain ⟨fd, rd, gd⟩ := add_step stdModel fs fq3 md (by norm_num)
  refine ⟨fd, ?_⟩
  have h := dot3 uR_nonneg eR_nonneg rq1 rq2 rq3 rs rd
  have hcs := R3.abs_dot_le (vecR s) (vecR c)
  have hsum : |val s.x * val c.x| + |val s.y * val c.y| + |val s.z * val c.z| ≤ (vecR s).len * (vecR c).len := by
    have := abs_sum_le_len s c
    rw [← vecR_len] at this; exact this
  have e : (vecR s).dot (vecR c) = val s.x * val c.x + val s.y * val c.y + val s.z * val c.z := rfl
  rw [e] at hcs ⊢
  have hf := fU_nonneg; have hg := gU_nonneg
  have a1 := mul_le_mul_of_nonneg_left hcs hf
  have a2 := mul_le_mul_of_nonneg_left hsum hg
  have e2 : uR * (3 / 2 + uR / 2) = fU uR := rfl
  have e3 : uR * (1 + uR) * (3 / 2 + uR) = gU uR := rfl
  have e4 : (1 + uR) * (3 + 2 * uR) = hU uR := rfl
  rw [e2, e3, e4] at h
  show |val (s.x * c.x + s.y * c.y + s.z * c.z) - _| ≤ _
  linarith

/-! ### scalar bookkeeping -/

/-- the error-vector bound of `fl(c × x)` in terms of `Lc·lx` -/
theorem Bv_le {Lx Lc lx : ℝ} (hLx : Lx ≤ Lc * lx) (hLc0 : 0 ≤ Lc) (hlx0 : 0 ≤ lx) :
    uR * Lx + uR * (1 + uR) * (2 / r3 * (Lc * lx)) + 2 * (2 * (1 + uR) * eR) ≤ 22 / 10 * uR * (Lc * lx) + 8 * eR := by
  have hu := uR_nonneg
  have a1 : uR * Lx ≤ uR * (Lc * lx) := mul_le_mul_of_nonneg_left hLx hu
  have a2 : 2 / r3 * (Lc * lx) ≤ 11547006 / 10000000 * (Lc * lx) :=
    mul_le_mul_of_nonneg_right two_div_r3_le (mul_nonneg hLc0 hlx0)
  have a3 : uR * (1 + uR) * (2 / r3 * (Lc * lx)) ≤ uR * (1 + uR) * (11547006 / 10000000 * (Lc * lx)) :=
    mul_le_mul_of_nonneg_left a2 (mul_nonneg hu (by linarith))
  have a4 := g8_le
  have c1 : uR * (1 + uR) * (11547006 / 10000000) ≤ 12 / 10 * uR := by unfold uR; norm_num
  have a5 := mul_le_mul_of_nonneg_right c1 (mul_nonneg hLc0 hlx0)
  have e : uR * (1 + uR) * (11547006 / 10000000 * (Lc * lx)) = uR * (1 + uR) * (11547006 / 10000000) * (Lc * lx) := by ring
  have e2 : 22 / 10 * uR * (Lc * lx) = uR * (Lc * lx) + 12 / 10 * uR * (Lc * lx) := by ring
  linarith

theorem etaC_le_u : etaC ≤ 45 / 10 * uR := by
  have h1 := etaC_theta; have h2 := theta0_le; have h0 := etaC_pos
  have h3 : etaC ≤ etaC * (1 + etaC) := by nlinarith
  linarith

theorem etaC_le_40 : etaC ≤ 1 / 2 ^ 40 := by
  have h := etaC_le_u
  have h4 : (45 : ℝ) / 10 * uR ≤ 1 / 2 ^ 40 := by unfold uR; norm_num
  linarith

/-- the final collection of the error terms of one wedge test -/
theorem wedge_scalar {Ld P Lclx sL cxL Bv η val' exact' : ℝ} (hLd0 : 0 ≤ Ld) (hLd3 : Ld ≤ 3) (hP0 : 0 ≤ P) (hP3 : P ≤ 3)
    (hLclx : Lclx ≤ (1 + 1 / 2 ^ 40) * P) (hLclx0 : 0 ≤ Lclx)
    (hsL0 : 0 ≤ sL) (hsL : sL ≤ (1 + uR) * Ld) (hcx0 : 0 ≤ cxL) (hcxL : cxL ≤ Lclx + Bv)
    (hBv0 : 0 ≤ Bv) (hBv : Bv ≤ 22 / 10 * uR * Lclx + 8 * eR) (hη0 : 0 ≤ η) (hη : η ≤ 45 / 10 * uR)
    (htot : |val' - exact'| ≤ (fU uR + gU uR) * (sL * cxL) + hU uR * eR + (uR * Ld * cxL + Ld * Bv + Ld * (η * P))) :
    |val' - exact'| ≤ 12 * uR * (Ld * P) + tinyR := by
  have hu := uR_nonneg
  have he := eR_nonneg
  have hBv3 : Bv ≤ 23 / 10 * uR * P + 8 * eR := by
    have h1 : 22 / 10 * uR * Lclx ≤ 22 / 10 * uR * ((1 + 1 / 2 ^ 40) * P) :=
      mul_le_mul_of_nonneg_left hLclx (mul_nonneg (by norm_num) hu)
    have c2 : (22 / 10 * (1 + 1 / 2 ^ 40) : ℝ) ≤ 23 / 10 := by norm_num
    have h2 := mul_le_mul_of_nonneg_right c2 (mul_nonneg hu hP0)
    have e : 22 / 10 * uR * ((1 + 1 / 2 ^ 40) * P) = 22 / 10 * (1 + 1 / 2 ^ 40) * (uR * P) := by ring
    have e2 : 23 / 10 * uR * P = 23 / 10 * (uR * P) := by ring
    linarith
  have hcxL2 : cxL ≤ (1 + 1 / 2 ^ 30) * P + 8 * eR := by
    have c3 : 23 / 10 * uR ≤ 1 / 2 ^ 40 := by unfold uR; norm_num
    have h1 := mul_le_mul_of_nonneg_right c3 hP0
    have e : (1 + 1 / 2 ^ 30 : ℝ) * P = P + 1 / 2 ^ 30 * P := by ring
    have h2 : (1 : ℝ) / 2 ^ 40 * P + 1 / 2 ^ 40 * P ≤ 1 / 2 ^ 30 * P := by nlinarith
    linarith
  have p1 : sL * cxL ≤ ((1 + uR) * Ld) * ((1 + 1 / 2 ^ 30) * P + 8 * eR) :=
    mul_le_mul hsL hcxL2 hcx0 (mul_nonneg (by linarith) hLd0)
  have p2 : uR * Ld * cxL ≤ uR * Ld * ((1 + 1 / 2 ^ 30) * P + 8 * eR) :=
    mul_le_mul_of_nonneg_left hcxL2 (mul_nonneg hu hLd0)
  have p3 : Ld * Bv ≤ Ld * (23 / 10 * uR * P + 8 * eR) := mul_le_mul_of_nonneg_left hBv3 hLd0
  have p4 : Ld * (η * P) ≤ Ld * (45 / 10 * uR * P) :=
    mul_le_mul_of_nonneg_left (mul_le_mul_of_nonneg_right hη hP0) hLd0
  have hfg : fU uR + gU uR ≤ (3 + 1 / 2 ^ 40) * uR := by
    have h1 := rhoU_le
    unfold rhoU at h1
    have h2 : (3 + 1 / 2 ^ 50) * uR ≤ (3 + 1 / 2 ^ 40) * uR := mul_le_mul_of_nonneg_right (by norm_num) hu
    linarith
  have p5 : (fU uR + gU uR) * (sL * cxL)
      ≤ (3 + 1 / 2 ^ 40) * uR * (((1 + uR) * Ld) * ((1 + 1 / 2 ^ 30) * P + 8 * eR)) :=
    mul_le_mul hfg p1 (mul_nonneg hsL0 hcx0) (mul_nonneg (by norm_num) hu)
  have hLdP0 : 0 ≤ Ld * P := mul_nonneg hLd0 hP0
  have hhU := hU_le
  have htiny : 40 * eR ≤ tinyR := by
    have h1 : 40 * eR ≤ tinyT := by
      unfold tinyT
      have : (40 : ℝ) ≤ 2 ^ 76 := by norm_num
      nlinarith
    linarith [tinyT_le]
  have c4 : (3 + 1 / 2 ^ 40) * ((1 + uR) * (1 + 1 / 2 ^ 30)) + (1 + 1 / 2 ^ 30) + 23 / 10 + 45 / 10 ≤ 12 := by
    unfold uR; norm_num
  have e1 : (3 + 1 / 2 ^ 40) * uR * (((1 + uR) * Ld) * ((1 + 1 / 2 ^ 30) * P + 8 * eR))
      = (3 + 1 / 2 ^ 40) * ((1 + uR) * (1 + 1 / 2 ^ 30)) * (uR * (Ld * P))
        + (3 + 1 / 2 ^ 40) * uR * (1 + uR) * 8 * (Ld * eR) := by ring
  have e2 : uR * Ld * ((1 + 1 / 2 ^ 30) * P + 8 * eR) = (1 + 1 / 2 ^ 30) * (uR * (Ld * P)) + 8 * uR * (Ld * eR) := by ring
  have e3 : Ld * (23 / 10 * uR * P + 8 * eR) = 23 / 10 * (uR * (Ld * P)) + 8 * (Ld * eR) := by ring
  have e4 : Ld * (45 / 10 * uR * P) = 45 / 10 * (uR * (Ld * P)) := by ring
  have hLde : Ld * eR ≤ 3 * eR := mul_le_mul_of_nonneg_right hLd3 he
  have hLde0 : 0 ≤ Ld * eR := mul_nonneg hLd0 he
  have huLP : 0 ≤ uR * (Ld * P) := mul_nonneg hu hLdP0
  have m1 := mul_le_mul_of_nonneg_right c4 huLP
  have k1 : (3 + 1 / 2 ^ 40) * uR * (1 + uR) * 8 ≤ 1 := by unfold uR; norm_num
  have k2 : 8 * uR ≤ 1 := by unfold uR; norm_num
  have m2 := mul_le_mul_of_nonneg_right k1 hLde0
  have m3 := mul_le_mul_of_nonneg_right k2 hLde0
  have m4 : hU uR * eR ≤ 4 * eR := mul_le_mul_of_nonneg_right hhU he
  have efin : 12 * uR * (Ld * P) = 12 * (uR * (Ld * P)) := by ring
  rw [efin]
  linarith

/-! ### one wedge term -/

/-- the float value of `(p − x)·(c × x)` against the exact `(p − x)·(C × x)` -/
theorem wedge_term {δ : ℝ} (hδ0 : 0 ≤ δ) (hδ : δ ≤ delta0) {x p : V3} (hx : UnitWithin δ x) (hp : UnitWithin δ p)
    {c : V3} (fc : Fin3 c) (mc : Coord5 c) {C : R3} (hLC : 1 / 2 ^ 34 ≤ C.len) (hLC3 : C.len ≤ 5 / 2)
    (hvec : (R3.sub (vecR c) C).n2 ≤ (etaC * C.len) ^ 2) :
    Fin ((p.sub x).dot (c.cross x)) ∧
    |val ((p.sub x).dot (c.cross x)) - (vD x p).dot (C.cross (vecR x))|
      ≤ 12 * uR * ((vD x p).len * (C.len * len x)) + tinyR := by
  have hδ1 : δ ≤ 1 := le_trans hδ (le_trans delta0_le (by norm_num))
  obtain ⟨_, hlx0, hlx⟩ := unit_len hδ0 hδ hx
  have hXlen : 0 < (vecR x).len := by rw [vecR_len]; exact hlx0
  obtain ⟨hLc, hLc3, _⟩ := dir_theta hLC hLC3 hXlen hvec
  -- the float vectors
  obtain ⟨fx1, fx2, fx3⟩ := hx.1
  obtain ⟨fp1, fp2, fp3⟩ := hp.1
  obtain ⟨mx1, mx2, mx3⟩ := hx.coord2 hδ0 hδ1
  obtain ⟨mp1, mp2, mp3⟩ := hp.coord2 hδ0 hδ1
  obtain ⟨fs1, rs1, bs1⟩ := sub_step5 stdModel fp1 fx1 mp1 mx1
  obtain ⟨fs2, rs2, bs2⟩ := sub_step5 stdModel fp2 fx2 mp2 mx2
  obtain ⟨fs3, rs3, bs3⟩ := sub_step5 stdModel fp3 fx3 mp3 mx3
  obtain ⟨fcx, mcx, _, _, _⟩ := cx_chain x c hx.1 (hx.coord2 hδ0 hδ1) hlx0 hlx fc mc hLc hLc3
  obtain ⟨_, hcxvec⟩ := cross_chain c x fc hx.1 mc (hx.coord2 hδ0 hδ1)
  obtain ⟨fd, hdot⟩ := dot_chain5 (p.sub x) (c.cross x) ⟨fs1, fs2, fs3⟩ fcx ⟨bs1, bs2, bs3⟩ mcx
  refine ⟨fd, ?_⟩
  -- names
  set sR := vecR (p.sub x) with hsR
  set dR := vD x p with hdR
  set cxR := vecR (c.cross x) with hcxR
  set cR := vecR c with hcR
  set X := vecR x with hX
  set lx := len x with hlxd
  set Lc := cR.len with hLcd
  set LC := C.len with hLCd
  set Ld := dR.len with hLdd
  have hu := uR_nonneg
  have he := eR_nonneg
  have hLd0 : 0 ≤ Ld := R3.len_nonneg _
  have hLCpos : 0 < LC := lt_of_lt_of_le (by positivity) hLC
  have hLcpos : 0 < Lc := lt_of_lt_of_le (by positivity) hLc
  -- |sR − dR| ≤ u·|dR|
  have hsd : (R3.sub sR dR).len ≤ uR * Ld := by
    apply len_le_of_n2 (mul_nonneg hu hLd0)
    have e : (R3.sub sR dR).n2 = (val (p.sub x).x - dR.x) ^ 2 + (val (p.sub x).y - dR.y) ^ 2 + (val (p.sub x).z - dR.z) ^ 2 := by
      unfold R3.sub R3.n2 R3.dot; rw [hsR]; unfold vecR; ring
    rw [e]
    unfold Rnd at rs1 rs2 rs3
    rw [add_zero] at rs1 rs2 rs3
    have h := sq_sum_le (d1 := val (p.sub x).x - dR.x) (d2 := val (p.sub x).y - dR.y) (d3 := val (p.sub x).z - dR.z)
      (m1 := uR * |dR.x|) (m2 := uR * |dR.y|) (m3 := uR * |dR.z|) rs1 rs2 rs3
    have e2 : (uR * |dR.x|) ^ 2 + (uR * |dR.y|) ^ 2 + (uR * |dR.z|) ^ 2 = uR ^ 2 * dR.n2 := by
      rw [mul_pow, mul_pow, mul_pow, sq_abs, sq_abs, sq_abs, ← n2_sq]; ring
    rw [e2] at h
    have e3 : (uR * Ld) ^ 2 = uR ^ 2 * dR.n2 := by rw [mul_pow, sq Ld, R3.len_sq]
    rw [e3]; exact h
  have hsL : sR.len ≤ (1 + uR) * Ld := by
    have := len_sub_le sR dR
    have := (abs_le.mp this).2
    linarith
  -- |cxR − cR×X| ≤ B
  have hLx : (cR.cross X).len ≤ Lc * lx := by
    have := cross_len_le cR X; rw [vecR_len] at this; exact this
  set Bv := uR * (cR.cross X).len + uR * (1 + uR) * (2 / r3 * (Lc * lx)) + 2 * (2 * (1 + uR) * eR) with hBv
  have hB0 : 0 ≤ Bv := by
    rw [hBv]
    have h23 : 0 ≤ 2 / r3 := div_nonneg (by norm_num) r3_pos.le
    have t1 : 0 ≤ uR * (cR.cross X).len := mul_nonneg hu (R3.len_nonneg _)
    have t2 : 0 ≤ uR * (1 + uR) * (2 / r3 * (Lc * lx)) :=
      mul_nonneg (mul_nonneg hu (by linarith)) (mul_nonneg h23 (mul_nonneg hLcpos.le hlx0.le))
    have t3 : 0 ≤ 2 * (2 * (1 + uR) * eR) := mul_nonneg (by norm_num) (mul_nonneg (mul_nonneg (by norm_num) (by linarith)) he)
    linarith
  have hcxd : (R3.sub cxR (cR.cross X)).len ≤ Bv := len_le_of_n2 hB0 hcxvec
  have hBv2 : Bv ≤ 22 / 10 * uR * (Lc * lx) + 8 * eR := Bv_le hLx hLcpos.le hlx0.le
  have hcC : (R3.sub cR C).len ≤ etaC * LC := len_le_of_n2 (mul_nonneg etaC_pos.le hLCpos.le) hvec
  have hLcLC : Lc ≤ (1 + 1 / 2 ^ 40) * LC := by
    have h1 := len_sub_le cR C
    have h2 := (abs_le.mp h1).2
    have h3 : etaC * LC ≤ 1 / 2 ^ 40 * LC := mul_le_mul_of_nonneg_right etaC_le_40 hLCpos.le
    linarith only [h2, h3, hcC]
  have hcxL : cxR.len ≤ Lc * lx + Bv := by
    have h1 := len_sub_le cxR (cR.cross X)
    have h2 := (abs_le.mp h1).2
    linarith only [h2, hcxd, hLx]
  -- decomposition
  have hdec : sR.dot cxR - dR.dot (C.cross X)
      = (R3.sub sR dR).dot cxR + dR.dot (R3.sub cxR (cR.cross X)) + dR.dot ((R3.sub cR C).cross X) := by
    rw [dot_sub_left, dot_sub_right, cross_sub_left, dot_sub_right]; ring
  have t1 := R3.abs_dot_le (R3.sub sR dR) cxR
  have t2 := R3.abs_dot_le dR (R3.sub cxR (cR.cross X))
  have t3 := R3.abs_dot_le dR ((R3.sub cR C).cross X)
  have t3' : ((R3.sub cR C).cross X).len ≤ etaC * LC * lx := by
    have := cross_len_le (R3.sub cR C) X
    rw [vecR_len] at this
    have h2 : (R3.sub cR C).len * lx ≤ etaC * LC * lx := mul_le_mul_of_nonneg_right hcC hlx0.le
    linarith
  have hmid : |sR.dot cxR - dR.dot (C.cross X)| ≤ uR * Ld * cxR.len + Ld * Bv + Ld * (etaC * LC * lx) := by
    rw [hdec]
    have h1 := abs_add_three ((R3.sub sR dR).dot cxR) (dR.dot (R3.sub cxR (cR.cross X))) (dR.dot ((R3.sub cR C).cross X))
    have a1 : (R3.sub sR dR).len * cxR.len ≤ uR * Ld * cxR.len := mul_le_mul_of_nonneg_right hsd (R3.len_nonneg _)
    have a2 : dR.len * (R3.sub cxR (cR.cross X)).len ≤ Ld * Bv := mul_le_mul_of_nonneg_left hcxd hLd0
    have a3 : dR.len * ((R3.sub cR C).cross X).len ≤ Ld * (etaC * LC * lx) := mul_le_mul_of_nonneg_left t3' hLd0
    linarith
  have htot : |val ((p.sub x).dot (c.cross x)) - dR.dot (C.cross X)|
      ≤ (fU uR + gU uR) * (sR.len * cxR.len) + hU uR * eR + (uR * Ld * cxR.len + Ld * Bv + Ld * (etaC * LC * lx)) := by
    have := abs_sub_le (val ((p.sub x).dot (c.cross x))) (sR.dot cxR) (dR.dot (C.cross X))
    linarith
  have hP : Lc * lx ≤ (1 + 1 / 2 ^ 40) * (LC * lx) := by
    have := mul_le_mul_of_nonneg_right hLcLC hlx0.le; linarith only [this]
  have hP0 : 0 ≤ LC * lx := mul_nonneg hLCpos.le hlx0.le
  have hPle : LC * lx ≤ 3 := by
    have h1 : LC * lx ≤ 5 / 2 * (1 + 1 / 2 ^ 52) := mul_le_mul hLC3 hlx hlx0.le (by norm_num)
    have h2 : (5 / 2 : ℝ) * (1 + 1 / 2 ^ 52) ≤ 3 := by norm_num
    linarith only [h1, h2]
  have hLd3 : Ld ≤ 3 := by
    have h5 := dist2_le_five hδ0 (le_trans hδ delta0_le) hx hp
    have e : dR.n2 = dist2 x p := by
      rw [hdR]; unfold vD R3.n2 R3.dot dist2; ring
    apply len_le_of_n2 (by norm_num)
    rw [e]; linarith only [h5]
  have htot' : |val ((p.sub x).dot (c.cross x)) - dR.dot (C.cross X)|
      ≤ (fU uR + gU uR) * (sR.len * cxR.len) + hU uR * eR
        + (uR * Ld * cxR.len + Ld * Bv + Ld * (etaC * (LC * lx))) := by
    have e : etaC * LC * lx = etaC * (LC * lx) := by ring
    rw [← e]; exact htot
  exact wedge_scalar hLd0 hLd3 hP0 hPle hP (mul_nonneg hLcpos.le hlx0.le) (R3.len_nonneg _) hsL (R3.len_nonneg _)
    hcxL hB0 hBv2 etaC_pos.le etaC_le_u htot'

end S2Proofs.C17Err
