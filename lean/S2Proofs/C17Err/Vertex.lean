/-
  C17Err.Vertex — the VERTEX case of the point–edge distance:

      dist = ChordAngleFromSquaredLength( min( fl|x−a|², fl|x−b|² ) )

  For finite float points whose exact norms are within `δ ≤ δ0 = 2^-52 − 2^-80` of 1 (`UnitWithin`), the result is
  finite and within `k1·D + k2` of the true squared chord `D = min(chord²(X,A), chord²(X,B))` between the
  DIRECTIONS X = x/|x|, A = a/|a|, B = b/|b|, where `k1 = 9u − 2^-28·u`, `k2 = 16.001·u²` (u = 2^-53), and this is
  at most the float value `ChordAngle.MaxPointError()` of the RESULT (`4.5·dblEpsilon·d + 16·dblEpsilon²` as evaluated
  by the s1 package at run time, with its truncated decimal `dblEpsilon = 2.220446049e-16`).
-/
import Mathlib.Analysis.Real.Sqrt
import S2Proofs.C17Err.Chain

set_option linter.unusedSimpArgs false
set_option linter.unusedVariables false

namespace S2Proofs.C17Err
open S2 S2.Exact S2.EdgeNum S2Proofs.F64Order S2Proofs.FloatErr

/-! ### unit-ish points, directions, true chords -/

/-- `p` is finite and its exact Euclidean norm is within `δ` of 1: `(1−δ)² ≤ |p|² ≤ (1+δ)²` -/
def UnitWithin (δ : ℝ) (p : V3) : Prop := Fin3 p ∧ (1 - δ) ^ 2 ≤ n2 p ∧ n2 p ≤ (1 + δ) ^ 2

/-- exact Euclidean norm of a float vector -/
noncomputable def len (p : V3) : ℝ := Real.sqrt (n2 p)

/-- TRUE squared chord between the directions `p/|p|` and `q/|q|` : `2 − 2·(p·q)/(|p||q|)` -/
noncomputable def dirChord2 (p q : V3) : ℝ := 2 - 2 * dotR p q / (len p * len q)

theorem dirChord2_comm (p q : V3) : dirChord2 p q = dirChord2 q p := by
  unfold dirChord2 dotR; ring

theorem len_sq (p : V3) : len p * len p = n2 p := Real.mul_self_sqrt (n2_nonneg p)

theorem len_nonneg (p : V3) : 0 ≤ len p := Real.sqrt_nonneg _

theorem UnitWithin.len_bounds {δ : ℝ} {p : V3} (hδ0 : 0 ≤ δ) (hδ1 : δ ≤ 1) (h : UnitWithin δ p) :
    1 - δ ≤ len p ∧ len p ≤ 1 + δ := by
  obtain ⟨_, lo, hi⟩ := h
  unfold len
  constructor
  · apply Real.le_sqrt_of_sq_le; exact lo
  · rw [Real.sqrt_le_left (by linarith)]; exact hi

theorem UnitWithin.coord2 {δ : ℝ} {p : V3} (hδ0 : 0 ≤ δ) (hδ1 : δ ≤ 1) (h : UnitWithin δ p) : Coord2 p := by
  apply coord2_of_n2
  have := h.2.2
  nlinarith

/-- Cauchy–Schwarz for float vectors -/
theorem dotR_sq_le (p q : V3) : dotR p q * dotR p q ≤ n2 p * n2 q := by
  unfold dotR n2
  nlinarith [sq_nonneg (val p.x * val q.y - val p.y * val q.x), sq_nonneg (val p.y * val q.z - val p.z * val q.y),
    sq_nonneg (val p.z * val q.x - val p.x * val q.z)]

theorem abs_dotR_le (p q : V3) : |dotR p q| ≤ len p * len q := by
  have h := dotR_sq_le p q
  have hl : 0 ≤ len p * len q := mul_nonneg (len_nonneg p) (len_nonneg q)
  apply abs_le_of_sq_le_sq' _ hl |>.elim (fun a b => abs_le.mpr ⟨a, b⟩)
  have e : (len p * len q) ^ 2 = n2 p * n2 q := by
    have := len_sq p; have := len_sq q
    calc (len p * len q) ^ 2 = (len p * len p) * (len q * len q) := by ring
      _ = n2 p * n2 q := by rw [len_sq, len_sq]
  rw [e]; nlinarith

theorem dirChord2_bounds {p q : V3} (hp : 0 < len p) (hq : 0 < len q) :
    0 ≤ dirChord2 p q ∧ dirChord2 p q ≤ 4 := by
  have h := abs_le.mp (abs_dotR_le p q)
  have hpq : 0 < len p * len q := mul_pos hp hq
  unfold dirChord2
  have h1 : dotR p q / (len p * len q) ≤ 1 := by rw [div_le_one hpq]; exact h.2
  have h2 : -1 ≤ dotR p q / (len p * len q) := by rw [le_div_iff₀ hpq]; linarith
  have e : 2 * dotR p q / (len p * len q) = 2 * (dotR p q / (len p * len q)) := by ring
  rw [e]
  constructor <;> linarith

/-- the exact squared distance of the float coordinates in terms of the true chord of the directions -/
theorem dist2_dir {p q : V3} (hp : 0 < len p) (hq : 0 < len q) :
    dist2 p q = (len p - len q) ^ 2 + len p * len q * dirChord2 p q := by
  have hpq : len p * len q ≠ 0 := (mul_pos hp hq).ne'
  rw [dist2_expand, ← len_sq p, ← len_sq q]
  unfold dirChord2
  field_simp
  ring

/-! ### real-analysis core -/

/-- the admissible norm error: `δ0 = 2^-52 − 2^-80` (just below `dblEpsilon = 2u`) -/
noncomputable def delta0 : ℝ := 1 / 2 ^ 52 - 1 / 2 ^ 80

/-- relative part of the proved bound: `k1 = 9u − 2^-28·u` -/
noncomputable def k1 : ℝ := 9 * uR - uR / 2 ^ 28
/-- absolute part of the proved bound: `k2 = 16.001·u²` -/
noncomputable def k2 : ℝ := 16001 / 1000 * uR ^ 2

theorem delta0_nonneg : 0 ≤ delta0 := by unfold delta0; norm_num
theorem delta0_le : delta0 ≤ 1 / 2 ^ 52 := by unfold delta0; norm_num
theorem k1_nonneg : 0 ≤ k1 := by unfold k1 uR; norm_num
theorem k2_nonneg : 0 ≤ k2 := by unfold k2 uR; norm_num
theorem k1_lt : k1 < 1 / 2 ^ 49 := by unfold k1 uR; norm_num

theorem eR_le250 : eR ≤ 1 / 2 ^ 250 := by
  unfold eR
  exact one_div_le_one_div_of_le (by positivity) (pow_le_pow_right₀ (by norm_num) (by norm_num))

/-- one vertex: computed `r` (before the clamp) against the true chord `D` -/
theorem vertex_core {δ sx sa D d r : ℝ} (hδ0 : 0 ≤ δ) (hδ : δ ≤ delta0)
    (hsx : |sx - 1| ≤ δ) (hsa : |sa - 1| ≤ δ) (hD0 : 0 ≤ D) (hD4 : D ≤ 4)
    (hd : d = (sx - sa) ^ 2 + sx * sa * D) (hr : |r - d| ≤ kap * d + 4 * eR) :
    |min r 4 - D| ≤ k1 * D + k2 := by
  have hκ := kap_nonneg
  have hκ' := kap_le
  have he := eR_le250
  have he0 := eR_nonneg
  have hδ1 := delta0_le
  obtain ⟨x1, x2⟩ := abs_le.mp hsx
  obtain ⟨a1, a2⟩ := abs_le.mp hsa
  -- (sx − sa)² ≤ 4δ²
  have hq : (sx - sa) ^ 2 ≤ 4 * δ ^ 2 := by
    have h1 : |sx - sa| ≤ 2 * δ := by
      have e : sx - sa = (sx - 1) - (sa - 1) := by ring
      rw [e]; have := abs_sub (sx - 1) (sa - 1); linarith
    have := sq_le_sq' (by have := abs_le.mp h1; linarith) (abs_le.mp h1).2
    nlinarith
  have hq0 : 0 ≤ (sx - sa) ^ 2 := sq_nonneg _
  -- |sx·sa − 1| ≤ 2δ + δ²
  have hp : |sx * sa - 1| ≤ 2 * δ + δ ^ 2 := by
    rw [abs_le]; constructor <;> nlinarith
  obtain ⟨p1, p2⟩ := abs_le.mp hp
  -- |d − D| and d
  have hdD : |d - D| ≤ 4 * δ ^ 2 + (2 * δ + δ ^ 2) * D := by
    rw [hd, abs_le]; constructor <;> nlinarith
  have hdle : d ≤ 4 * δ ^ 2 + (1 + 2 * δ + δ ^ 2) * D := by
    have := (abs_le.mp hdD).2; nlinarith
  have hδs : δ ≤ 1 / 2 ^ 52 := le_trans hδ hδ1
  have hδsmall : 2 * δ + δ ^ 2 ≤ 1 := by nlinarith
  have hss : 0 ≤ sx * sa := by linarith
  have hd0 : 0 ≤ d := by rw [hd]; have := mul_nonneg hss hD0; linarith
  have hrD : |r - D| ≤ (kap * (1 + 2 * δ + δ ^ 2) + (2 * δ + δ ^ 2)) * D + ((1 + kap) * (4 * δ ^ 2) + 4 * eR) := by
    have h1 : |r - D| ≤ |r - d| + |d - D| := abs_sub_le _ _ _
    have h2 : kap * d ≤ kap * (4 * δ ^ 2 + (1 + 2 * δ + δ ^ 2) * D) := mul_le_mul_of_nonneg_left hdle hκ
    nlinarith
  -- numeric bounds of the two coefficients
  have hδsq : δ ^ 2 ≤ delta0 ^ 2 := pow_le_pow_left₀ hδ0 hδ 2
  have hc1 : kap * (1 + 2 * δ + δ ^ 2) + (2 * δ + δ ^ 2) ≤ k1 := by
    have h1 : 1 + 2 * δ + δ ^ 2 ≤ 1 + 2 * delta0 + delta0 ^ 2 := by linarith
    have h2 : kap * (1 + 2 * δ + δ ^ 2) ≤ (5 * uR + 11 * uR ^ 2) * (1 + 2 * delta0 + delta0 ^ 2) :=
      mul_le_mul hκ' h1 (by positivity) (by unfold uR; norm_num)
    have h3 : (5 * uR + 11 * uR ^ 2) * (1 + 2 * delta0 + delta0 ^ 2) + (2 * delta0 + delta0 ^ 2) ≤ k1 := by
      unfold k1 delta0 uR; norm_num
    linarith
  have hc2 : (1 + kap) * (4 * δ ^ 2) + 4 * eR ≤ k2 := by
    have h1 : (1 + kap) * (4 * δ ^ 2) ≤ (1 + (5 * uR + 11 * uR ^ 2)) * (4 * delta0 ^ 2) :=
      mul_le_mul (by linarith) (by linarith) (by positivity) (by unfold uR; norm_num)
    have h3 : (1 + (5 * uR + 11 * uR ^ 2)) * (4 * delta0 ^ 2) + 4 * (1 / 2 ^ 250) ≤ k2 := by
      unfold k2 delta0 uR; norm_num
    linarith
  have hfin : |r - D| ≤ k1 * D + k2 := by
    have := mul_le_mul_of_nonneg_right hc1 hD0
    linarith
  -- the clamp
  rcases le_total r 4 with h | h
  · rw [min_eq_left h]; exact hfin
  · rw [min_eq_right h]
    obtain ⟨_, u2⟩ := abs_le.mp hfin
    rw [abs_le]; constructor <;> linarith

/-- the minimum over the two endpoints -/
theorem min_core {ra rb DA DB : ℝ} (hA : |ra - DA| ≤ k1 * DA + k2) (hB : |rb - DB| ≤ k1 * DB + k2) :
    |min ra rb - min DA DB| ≤ k1 * min DA DB + k2 := by
  have hk := k1_nonneg
  have hk1 : k1 < 1 := lt_trans k1_lt (by norm_num)
  obtain ⟨a1, a2⟩ := abs_le.mp hA
  obtain ⟨b1, b2⟩ := abs_le.mp hB
  rw [abs_le]
  rcases le_total DA DB with hD | hD
  · rw [min_eq_left hD]
    constructor
    · rcases le_total ra rb with h | h
      · rw [min_eq_left h]; linarith
      · rw [min_eq_right h]
        have : (1 - k1) * DA ≤ (1 - k1) * DB := mul_le_mul_of_nonneg_left hD (by linarith)
        nlinarith
    · have := min_le_left ra rb; linarith
  · rw [min_eq_right hD]
    constructor
    · rcases le_total ra rb with h | h
      · rw [min_eq_left h]
        have : (1 - k1) * DB ≤ (1 - k1) * DA := mul_le_mul_of_nonneg_left hD (by linarith)
        nlinarith
      · rw [min_eq_right h]; linarith
    · have := min_le_right ra rb; linarith

/-! ### `MaxPointError` of the result, as a float -/

theorem mpC_facts : Fin mpC1 ∧ val mpC1 = 5066549580220651 / 2 ^ 102 ∧
    Fin mpC2 ∧ val mpC2 = 9007199252710212 / 2 ^ 153 := by
  have h : Fin mpC1 ∧ toInt mpC1 = 5066549580220651 * 2 ^ 972 ∧
      Fin mpC2 ∧ toInt mpC2 = 9007199252710212 * 2 ^ 921 := by decide +kernel
  obtain ⟨f1, v1, f2, v2⟩ := h
  refine ⟨f1, ?_, f2, ?_⟩
  · unfold val; rw [v1]; push_cast
    have e : (2 : ℝ) ^ 1074 = 2 ^ 972 * 2 ^ 102 := by rw [← pow_add]
    rw [e]; field_simp
  · unfold val; rw [v2]; push_cast
    have e : (2 : ℝ) ^ 1074 = 2 ^ 921 * 2 ^ 153 := by rw [← pow_add]
    rw [e]; field_simp

/-- lower bound of the float `MaxPointError(c)` for a finite chord `0 ≤ c ≤ 4` -/
theorem maxPointError_ge {c : F64} (hc : Fin c) (h0 : 0 ≤ val c) (h4 : val c ≤ 4) :
    Fin (maxPointError c) ∧
    (val mpC1 * val c * (1 - uR) - eR + val mpC2) * (1 - uR) ≤ val (maxPointError c) := by
  obtain ⟨f1, v1, f2, v2⟩ := mpC_facts
  have hu := uR_nonneg
  have hu1 : uR ≤ 1 / 2 := by unfold uR; norm_num
  have hc1 : 0 ≤ val mpC1 := by rw [v1]; positivity
  have hc1' : val mpC1 ≤ 1 := by rw [v1]; norm_num
  have hc2 : 0 ≤ val mpC2 := by rw [v2]; positivity
  have hc2' : val mpC2 ≤ 1 := by rw [v2]; norm_num
  have m1 : |val mpC1 * val c| ≤ 4 := by
    rw [abs_of_nonneg (mul_nonneg hc1 h0)]; nlinarith
  obtain ⟨ft, rt, bt⟩ := mul_step stdModel f1 hc m1 (by norm_num)
  have m2 : |val (mpC1 * c) + val mpC2| ≤ 10 := by
    have := abs_add_le (val (mpC1 * c)) (val mpC2)
    rw [abs_of_nonneg hc2] at this; linarith
  obtain ⟨fs, rs, _⟩ := add_step stdModel ft f2 m2 (by norm_num)
  refine ⟨fs, ?_⟩
  unfold Rnd at rt rs
  rw [abs_of_nonneg (mul_nonneg hc1 h0)] at rt
  obtain ⟨t1, _⟩ := abs_le.mp rt
  have ht : val mpC1 * val c * (1 - uR) - eR ≤ val (mpC1 * c) := by linarith
  -- the sum is positive
  have he := eR_le250
  have hpos : 0 ≤ val (mpC1 * c) + val mpC2 := by
    have : (1 : ℝ) / 2 ^ 250 ≤ val mpC2 := by rw [v2]; norm_num
    have : 0 ≤ val mpC1 * val c * (1 - uR) := mul_nonneg (mul_nonneg hc1 h0) (by linarith)
    linarith
  rw [abs_of_nonneg hpos, add_zero] at rs
  obtain ⟨s1, _⟩ := abs_le.mp rs
  show _ ≤ val (mpC1 * c + mpC2)
  have : (val mpC1 * val c * (1 - uR) - eR + val mpC2) * (1 - uR) ≤ (val (mpC1 * c) + val mpC2) * (1 - uR) :=
    mul_le_mul_of_nonneg_right (by linarith) (by linarith)
  linarith

/-- conversion: a bound `k1·D + k2` in the TRUE chord is below `MaxPointError` of the COMPUTED chord -/
theorem bound_le_maxPointError {c : F64} (hc : Fin c) (h0 : 0 ≤ val c) (h4 : val c ≤ 4) {D : ℝ}
    (hD0 : 0 ≤ D) (hD4 : D ≤ 4) (h : |val c - D| ≤ k1 * D + k2) :
    Fin (maxPointError c) ∧ k1 * D + k2 ≤ val (maxPointError c) := by
  obtain ⟨hf, hge⟩ := maxPointError_ge hc h0 h4
  refine ⟨hf, le_trans ?_ hge⟩
  obtain ⟨f1, v1, f2, v2⟩ := mpC_facts
  rw [v1, v2]
  have he := eR_le250
  have hk := k1_nonneg
  have hk2 := k2_nonneg
  obtain ⟨l1, _⟩ := abs_le.mp h
  -- D ≤ c + k1 D + k2, twice
  have hD : D ≤ val c + k1 * D + k2 := by linarith
  have hkD : k1 * D ≤ k1 * (val c + k1 * D + k2) := mul_le_mul_of_nonneg_left hD hk
  have hkkD : k1 * (k1 * D) ≤ k1 * (k1 * (val c + k1 * 4 + k2)) := by
    apply mul_le_mul_of_nonneg_left _ hk
    apply mul_le_mul_of_nonneg_left _ hk
    nlinarith
  -- k1 D + k2 ≤ (k1 + k1²)·c + (4k1³ + k1²k2 + k1k2 + k2)
  have hmain : k1 * D + k2 ≤ (k1 + k1 ^ 2) * val c + (4 * k1 ^ 3 + k1 ^ 2 * k2 + k1 * k2 + k2) := by
    nlinarith
  have hcoef : k1 + k1 ^ 2 ≤ 5066549580220651 / 2 ^ 102 * (1 - uR) * (1 - uR) := by
    unfold k1 uR; norm_num
  have hconst : 4 * k1 ^ 3 + k1 ^ 2 * k2 + k1 * k2 + k2
      ≤ (9007199252710212 / 2 ^ 153 - 1 / 2 ^ 250) * (1 - uR) := by
    unfold k1 k2 uR; norm_num
  have h1 := mul_le_mul_of_nonneg_right hcoef h0
  have hu1 : (0 : ℝ) ≤ 1 - uR := by unfold uR; norm_num
  have h2 : (9007199252710212 / 2 ^ 153 - 1 / 2 ^ 250) * (1 - uR) ≤ (9007199252710212 / 2 ^ 153 - eR) * (1 - uR) :=
    mul_le_mul_of_nonneg_right (by linarith) hu1
  have e : (5066549580220651 / 2 ^ 102 * val c * (1 - uR) - eR + 9007199252710212 / 2 ^ 153) * (1 - uR)
      = 5066549580220651 / 2 ^ 102 * (1 - uR) * (1 - uR) * val c + (9007199252710212 / 2 ^ 153 - eR) * (1 - uR) := by
    ring
  rw [e]
  linarith

/-! ### the vertex distance -/

/-- the raw vertex value of `updateMinDistance`: `ChordAngleFromSquaredLength(min(|x−a|², |x−b|²))` -/
def vertexDist (x a b : V3) : F64 := chordFromLen2 (F64.fmin (x.sub a).norm2 (x.sub b).norm2)

/-- one endpoint, in reals: `min(fl|x−a|², 4)` against the true chord of the directions -/
theorem vertex_one {δ : ℝ} (hδ0 : 0 ≤ δ) (hδ : δ ≤ delta0) {x a : V3} (hx : UnitWithin δ x) (ha : UnitWithin δ a) :
    Fin (x.sub a).norm2 ∧ 0 ≤ val (x.sub a).norm2 ∧ 0 ≤ dirChord2 x a ∧ dirChord2 x a ≤ 4 ∧
    |min (val (x.sub a).norm2) 4 - dirChord2 x a| ≤ k1 * dirChord2 x a + k2 := by
  have hδ1 : δ ≤ 1 := le_trans hδ (le_trans delta0_le (by norm_num))
  have hδh : δ ≤ 1 / 2 := le_trans hδ (le_trans delta0_le (by norm_num))
  obtain ⟨lx1, lx2⟩ := hx.len_bounds hδ0 hδ1
  obtain ⟨la1, la2⟩ := ha.len_bounds hδ0 hδ1
  have px : 0 < len x := by linarith
  have pa : 0 < len a := by linarith
  obtain ⟨fn, nn, herr⟩ := norm2_sub_spec x a hx.1 ha.1 (hx.coord2 hδ0 hδ1) (ha.coord2 hδ0 hδ1)
  obtain ⟨d0, d4⟩ := dirChord2_bounds px pa
  refine ⟨fn, nn, d0, d4, ?_⟩
  exact vertex_core hδ0 hδ (abs_le.mpr ⟨by linarith, by linarith⟩) (abs_le.mpr ⟨by linarith, by linarith⟩)
    d0 d4 (dist2_dir px pa) herr

/-- **VERTEX CASE.**  For points within `δ ≤ δ0` of unit length the vertex value is finite, lies in [0, 4], and is
    within `k1·D + k2 ≤ MaxPointError(result)` of the true squared chord `D` from the direction of `x` to the nearer
    of the directions of `a`, `b`. -/
theorem vertexDist_spec {δ : ℝ} (hδ0 : 0 ≤ δ) (hδ : δ ≤ delta0) {x a b : V3}
    (hx : UnitWithin δ x) (ha : UnitWithin δ a) (hb : UnitWithin δ b) :
    Fin (vertexDist x a b) ∧ val (vertexDist x a b) ≤ 4 ∧
    |val (vertexDist x a b) - min (dirChord2 x a) (dirChord2 x b)|
      ≤ k1 * min (dirChord2 x a) (dirChord2 x b) + k2 ∧
    Fin (maxPointError (vertexDist x a b)) ∧
    k1 * min (dirChord2 x a) (dirChord2 x b) + k2 ≤ val (maxPointError (vertexDist x a b)) := by
  obtain ⟨fa, na, a0, a4, ea⟩ := vertex_one hδ0 hδ hx ha
  obtain ⟨fb, nb, b0, b4, eb⟩ := vertex_one hδ0 hδ hx hb
  obtain ⟨fm, vm⟩ := val_fmin fa fb
  obtain ⟨fc, vc⟩ := val_chordFromLen2 fm
  have hv : val (vertexDist x a b) = min (min (val (x.sub a).norm2) 4) (min (val (x.sub b).norm2) 4) := by
    unfold vertexDist
    rw [vc, vm, min_min_min_comm, min_self]
  have hmin := min_core ea eb
  rw [← hv] at hmin
  have hD0 : 0 ≤ min (dirChord2 x a) (dirChord2 x b) := le_min a0 b0
  have hD4 : min (dirChord2 x a) (dirChord2 x b) ≤ 4 := le_trans (min_le_left _ _) a4
  have hle4 : val (vertexDist x a b) ≤ 4 := by
    rw [hv]; exact le_trans (min_le_left _ _) (min_le_right _ _)
  have hge0 : 0 ≤ val (vertexDist x a b) := by
    rw [hv]; exact le_min (le_min na (by norm_num)) (le_min nb (by norm_num))
  obtain ⟨hfm, hbm⟩ := bound_le_maxPointError fc hge0 hle4 hD0 hD4 hmin
  exact ⟨fc, hle4, hmin, hfm, hbm⟩

end S2Proofs.C17Err
