/-
  C17Err.Gap — how far apart the two candidate answers (endpoint / great circle) are when the exact wedge test value
  of a side is small:  with  α = cos∠(X,A),  ρ = cos(latitude of X over the plane of the edge),
  τ = X̂·(n̂×Â) = −exactA/(|x||C||a|) :

        ρ² = α² + τ² ,      chord²(X,A) − gcDist2 = 2(ρ − α) ≤ 2τ²/ρ      (α ≥ 0, ρ > 0).
-/
import S2Proofs.C17Err.Wedge

set_option linter.unusedSimpArgs false
set_option linter.unusedVariables false

namespace S2Proofs.C17Err
open S2 S2.Exact S2.EdgeNum S2Proofs.F64Order S2Proofs.FloatErr R3

/-- orthogonal decomposition of `X` along `A`, `n×A`, `n` for `n = A×B` (all scaled, no square roots) -/
theorem basis_identity (X A B : R3) :
    X.n2 * (A.cross B).n2 * A.n2
      = (X.dot A) ^ 2 * (A.cross B).n2 + (X.dot ((A.cross B).cross A)) ^ 2 + (X.dot (A.cross B)) ^ 2 * A.n2 := by
  unfold R3.n2 R3.dot R3.cross; ring

/-- `(ρ − α)(ρ + α) = τ²` in scaled form: with `n = A×B`,
    `|n×X|²·|A|² = (X·A)²·|n|² + (X·(n×A))²` -/
theorem rho_alpha_tau (X A B : R3) :
    ((A.cross B).cross X).n2 * A.n2 = (X.dot A) ^ 2 * (A.cross B).n2 + (X.dot ((A.cross B).cross A)) ^ 2 := by
  have h := basis_identity X A B
  have hl := lagrange (A.cross B) X
  rw [hl, R3.dot_comm (A.cross B) X]
  nlinarith

/-- scalar core: `ρ² = α² + τ²`, `0 ≤ α`, `0 < ρ`  ⇒  `ρ − α ≤ τ²/ρ` -/
theorem rho_minus_alpha {ρ α τ : ℝ} (h : ρ ^ 2 = α ^ 2 + τ ^ 2) (hα : 0 ≤ α) (hρ : 0 < ρ) :
    ρ - α ≤ τ ^ 2 / ρ := by
  rw [le_div_iff₀ hρ]
  have h1 : (ρ - α) * (ρ + α) = τ ^ 2 := by nlinarith
  have h2 : 0 ≤ ρ - α := by
    by_contra hc
    have hc := not_le.mp hc
    have : ρ ^ 2 < α ^ 2 := by nlinarith
    nlinarith [sq_nonneg τ]
  nlinarith

/-- **the gap on the A side**: `chord²(X,A) − gcDist2 ≤ 2τ²/ρ` with `τ = exactA/(|x|·|C|·|a|)`, when `x·a ≥ 0` and
    `x` is not at the pole of the edge -/
theorem gap_le (x a b : V3) (hx : 0 < len x) (ha : 0 < len a) (hn : 0 < ((vecR a).cross (vecR b)).len)
    (hdot : 0 ≤ dotR x a) (hρ : 0 < (((vecR a).cross (vecR b)).cross (vecR x)).len) :
    dirChord2 x a - gcDist2 x a b
      ≤ 2 * ((vecR x).dot (((vecR a).cross (vecR b)).cross (vecR a))
              / (len x * ((vecR a).cross (vecR b)).len * len a)) ^ 2
          / ((((vecR a).cross (vecR b)).cross (vecR x)).len / (((vecR a).cross (vecR b)).len * len x)) := by
  set n := (vecR a).cross (vecR b) with hnd
  set ρ := (n.cross (vecR x)).len / (n.len * len x) with hρd
  set α := dotR x a / (len x * len a) with hαd
  set τ := (vecR x).dot (n.cross (vecR a)) / (len x * n.len * len a) with hτd
  have hρpos : 0 < ρ := div_pos hρ (mul_pos hn hx)
  have hα0 : 0 ≤ α := div_nonneg hdot (mul_pos hx ha).le
  have hkey : ρ ^ 2 = α ^ 2 + τ ^ 2 := by
    have h := rho_alpha_tau (vecR x) (vecR a) (vecR b)
    rw [← hnd] at h
    rw [hρd, hαd, hτd, div_pow, div_pow, div_pow]
    have e1 : (n.cross (vecR x)).len ^ 2 = (n.cross (vecR x)).n2 := by rw [sq, R3.len_sq]
    have e2 : (n.len * len x) ^ 2 = n.n2 * n2 x := by
      rw [mul_pow, sq, sq, R3.len_sq, len_sq]
    have e3 : (len x * len a) ^ 2 = n2 x * n2 a := by rw [mul_pow, sq, sq, len_sq, len_sq]
    have e4 : (len x * n.len * len a) ^ 2 = n2 x * n.n2 * n2 a := by
      rw [mul_pow, mul_pow, sq, sq, sq, len_sq, R3.len_sq, len_sq]
    rw [e1, e2, e3, e4]
    have hnx : 0 < n2 x := by rw [← len_sq]; exact mul_pos hx hx
    have hna : 0 < n2 a := by rw [← len_sq]; exact mul_pos ha ha
    have hnn : 0 < n.n2 := by rw [← R3.len_sq]; exact mul_pos hn hn
    have hA : (vecR a).n2 = n2 a := rfl
    have hD : (vecR x).dot (vecR a) = dotR x a := rfl
    rw [hA, hD] at h
    field_simp
    nlinarith
  have hgap : dirChord2 x a - gcDist2 x a b = 2 * (ρ - α) := by
    unfold dirChord2 gcDist2
    rw [← hnd]
    rw [hρd, hαd]; ring
  rw [hgap]
  have := rho_minus_alpha hkey hα0 hρpos
  have e : 2 * τ ^ 2 / ρ = 2 * (τ ^ 2 / ρ) := by ring
  rw [e]; linarith

end S2Proofs.C17Err
