/-
  C17Err.Ops2 — two more float operations in standard-model form (over ℝ), derived from the correct-rounding
  theorems of `S2Proofs.F64Round`:

    * `div_step`   `Fin (x / y) ∧ |fl(x/y) − x/y| ≤ u·|x/y| + e`     (finite operands, `y ≠ 0`, `|x/y| ≤ 2^30`)
    * `sqrt_rel`   `Fin (√x) ∧ |fl(√x) − √x| ≤ u·√x`                  (finite `x > 0`, `x ≤ 2^30`)

  `sqrt_rel` uses that the soft-float square root is a NEAREST float (`F64Round.sqrt_spec`) and that every positive
  rational has a float within relative error `u` (`IsRound.rel_err` for `roundNE`); the irrational root is reached
  by density of ℚ.
-/
import Mathlib.Analysis.Real.Sqrt
import Mathlib.Topology.Order.Basic
import S2Proofs.C17Err.Chain

set_option linter.unusedSimpArgs false
set_option linter.unusedVariables false

namespace S2Proofs.C17Err
open S2 S2.Exact S2Proofs.F64Order S2Proofs.FloatErr

theorem isZero_false_of_val_ne {x : F64} (h : val x ≠ 0) : x.isZero = false := by
  cases hz : x.isZero
  · rfl
  · exact absurd (val_of_isZero hz) h

/-! ### division -/

theorem big30Q : (2 : ℚ) ^ 30 < 2 ^ 1024 - 2 ^ 970 := by
  have e1 : (2 : ℚ) ^ 1024 = 2 ^ 970 * 2 ^ 54 := by rw [← pow_add]
  have e2 : (2 : ℚ) ^ 970 = 2 ^ 30 * 2 ^ 940 := by rw [← pow_add]
  have p1 : (1 : ℚ) ≤ 2 ^ 940 := one_le_pow₀ (by norm_num)
  have p2 : (0 : ℚ) < 2 ^ 30 := by positivity
  have p3 : (2 : ℚ) ≤ 2 ^ 54 - 1 := by norm_num
  have e3 : (2 : ℚ) ^ 1024 - 2 ^ 970 = 2 ^ 30 * 2 ^ 940 * (2 ^ 54 - 1) := by rw [e1, e2]; ring
  rw [e3]
  generalize (2 : ℚ) ^ 30 = P at p2 ⊢
  generalize (2 : ℚ) ^ 940 = Q' at p1 ⊢
  generalize (2 : ℚ) ^ 54 - 1 = R at p3 ⊢
  have h1 : P * 1 * 2 ≤ P * Q' * R :=
    mul_le_mul (mul_le_mul_of_nonneg_left p1 p2.le) p3 (by norm_num) (by positivity)
  linarith


theorem div_step {x y : F64} (hx : Fin x) (hy : Fin y) (hy0 : val y ≠ 0) (hq : |val x / val y| ≤ 2 ^ 30) :
    Fin (x / y) ∧ Rnd uR eR (val x / val y) (val (x / y)) := by
  have hz : y.isZero = false := isZero_false_of_val_ne hy0
  have hR := F64Round.isRound_div hx hy hz
  set Q : ℚ := F64Round.val x / F64Round.val y with hQ
  have hQr : ((Q : ℚ) : ℝ) = val x / val y := by
    rw [hQ]; push_cast; rw [← val_cast, ← val_cast]
  have hq' : |Q| ≤ 2 ^ 30 := by
    have : ((|Q| : ℚ) : ℝ) ≤ (((2 : ℚ) ^ 30 : ℚ) : ℝ) := by
      rw [Rat.cast_abs, hQr]; push_cast; exact hq
    exact_mod_cast this
  have hbig := big30Q
  have hfin : Fin (F64.div x y) := hR.fin_of_lt (lt_of_le_of_lt hq' hbig)
  refine ⟨hfin, ?_⟩
  have herrQ : |F64Round.val (F64.div x y) - Q| ≤ |Q| / 2 ^ 53 + 1 / 2 ^ 1075 := by
    rcases lt_or_ge |Q| (1 / 2 ^ 1021) with h | h
    · have := hR.abs_err h
      have : (0 : ℚ) ≤ |Q| / 2 ^ 53 := by positivity
      linarith
    · have h2 : (1 : ℚ) / 2 ^ 1022 ≤ |Q| :=
        le_trans (one_div_le_one_div_of_le (by positivity) (pow_le_pow_right₀ (by norm_num) (by norm_num))) h
      have := hR.rel_err hfin h2
      have : (0 : ℚ) ≤ 1 / 2 ^ 1075 := by positivity
      linarith
  have hR' : ((|F64Round.val (F64.div x y) - Q| : ℚ) : ℝ) ≤ ((|Q| / 2 ^ 53 + 1 / 2 ^ 1075 : ℚ) : ℝ) :=
    Rat.cast_le.mpr herrQ
  rw [Rat.cast_abs] at hR'
  push_cast at hR'
  rw [← val_cast, hQr] at hR'
  show |val (F64.div x y) - val x / val y| ≤ uR * |val x / val y| + eR
  unfold uR eR
  have e : |val x / val y| / 2 ^ 53 = 1 / 2 ^ 53 * |val x / val y| := by ring
  linarith

/-! ### square root -/

theorem val_pos_ge {x : F64} (h : 0 < val x) : 1 / 2 ^ 1074 ≤ val x := by
  unfold val at h ⊢
  have hp : (0 : ℝ) < 2 ^ 1074 := by positivity
  have : (0 : ℝ) < (toInt x : ℝ) := by
    rcases div_pos_iff.mp h with ⟨h1, _⟩ | ⟨_, h2⟩
    · exact h1
    · exact absurd h2 (not_lt.mpr hp.le)
  have h1 : (1 : ℤ) ≤ toInt x := by
    have : (0 : ℤ) < toInt x := by exact_mod_cast this
    omega
  rw [div_le_div_iff_of_pos_right hp]
  exact_mod_cast h1

theorem sqrt_rel {x : F64} (hx : Fin x) (hpos : 0 < val x) (hle : val x ≤ 2 ^ 30) :
    Fin (F64.sqrt x) ∧ 0 ≤ val (F64.sqrt x) ∧
    |val (F64.sqrt x) - Real.sqrt (val x)| ≤ uR * Real.sqrt (val x) := by
  have hz : x.isZero = false := isZero_false_of_val_ne hpos.ne'
  have hsb : x.signBit = false := by
    cases h : x.signBit
    · rfl
    · rw [val_mant, h] at hpos
      have : (0 : ℝ) ≤ (x.mant : ℝ) * tw x.expo := mul_nonneg (by positivity) (tw_pos _).le
      unfold sg at hpos
      simp only [if_true] at hpos
      linarith
  obtain ⟨hf, hr0Q, hall⟩ := F64Round.sqrt_spec hx hsb hz
  set r := F64.sqrt x with hr
  set R := Real.sqrt (val x) with hR
  have hRpos : 0 < R := Real.sqrt_pos.mpr hpos
  have hRsq : R * R = val x := Real.mul_self_sqrt hpos.le
  have hr0 : 0 ≤ val r := by
    rw [val_cast]; exact_mod_cast hr0Q
  -- nearest among the non-negative floats
  have near : ∀ y : F64, 0 ≤ val y → |val r - R| ≤ |val y - R| := by
    intro y hy
    have hyQ : (0 : ℚ) ≤ F64Round.val y := by
      have : (0 : ℝ) ≤ ((F64Round.val y : ℚ) : ℝ) := by rw [← val_cast]; exact hy
      exact_mod_cast this
    obtain ⟨h1, h2⟩ := hall y hyQ
    rcases lt_trichotomy (val y) (val r) with hlt | heq | hgt
    · have hltQ : F64Round.val y < F64Round.val r := by
        have : ((F64Round.val y : ℚ) : ℝ) < ((F64Round.val r : ℚ) : ℝ) := by rw [← val_cast, ← val_cast]; exact hlt
        exact_mod_cast this
      have hm := h1 hltQ
      have hmR : ((val y + val r) / 2) ^ 2 ≤ val x := by
        have : ((((F64Round.val y + F64Round.val r) / 2) ^ 2 : ℚ) : ℝ) ≤ ((F64Round.val x : ℚ) : ℝ) :=
          Rat.cast_le.mpr hm
        push_cast at this
        rw [← val_cast, ← val_cast, ← val_cast] at this
        exact this
      have hmid : (val y + val r) / 2 ≤ R := by
        rw [hR]; apply Real.le_sqrt_of_sq_le; exact hmR
      rw [abs_le]; constructor
      · have : val y - R ≤ val r - R := by linarith
        have := neg_abs_le (val y - R)
        rcases le_total (val y) R with hh | hh
        · rw [abs_of_nonpos (by linarith)]; linarith
        · rw [abs_of_nonneg (by linarith)]; linarith
      · rcases le_total (val y) R with hh | hh
        · rw [abs_of_nonpos (by linarith)]; linarith
        · rw [abs_of_nonneg (by linarith)]; linarith
    · rw [heq]
    · have hgtQ : F64Round.val r < F64Round.val y := by
        have : ((F64Round.val r : ℚ) : ℝ) < ((F64Round.val y : ℚ) : ℝ) := by rw [← val_cast, ← val_cast]; exact hgt
        exact_mod_cast this
      have hm := h2 hgtQ
      have hmR : val x ≤ ((val y + val r) / 2) ^ 2 := by
        have : ((F64Round.val x : ℚ) : ℝ) ≤ ((((F64Round.val y + F64Round.val r) / 2) ^ 2 : ℚ) : ℝ) :=
          Rat.cast_le.mpr hm
        push_cast at this
        rw [← val_cast, ← val_cast, ← val_cast] at this
        exact this
      have hmid : R ≤ (val y + val r) / 2 := by
        rw [hR]
        rw [Real.sqrt_le_left (by linarith)]
        exact hmR
      rw [abs_le]; constructor
      · rcases le_total (val y) R with hh | hh
        · rw [abs_of_nonpos (by linarith)]; linarith
        · rw [abs_of_nonneg (by linarith)]; linarith
      · rcases le_total (val y) R with hh | hh
        · rw [abs_of_nonpos (by linarith)]; linarith
        · rw [abs_of_nonneg (by linarith)]; linarith
  refine ⟨hf, hr0, ?_⟩
  -- a float within relative error u of any positive rational below R
  have hxlo := val_pos_ge hpos
  have hRlo : 1 / 2 ^ 537 ≤ R := by
    rw [hR]; apply Real.le_sqrt_of_sq_le
    have e : ((1 : ℝ) / 2 ^ 537) ^ 2 = 1 / 2 ^ 1074 := by
      rw [div_pow, one_pow, ← pow_mul]
    rw [e]; exact hxlo
  have hRhi : R ≤ 2 ^ 15 := by
    rw [hR, Real.sqrt_le_left (by positivity)]
    calc val x ≤ 2 ^ 30 := hle
      _ = (2 ^ 15) ^ 2 := by rw [← pow_mul]
  apply le_of_forall_pos_le_add
  intro ε hε
  obtain ⟨Q, hQ1, hQ2⟩ := exists_rat_btwn (show max (R - ε) (R / 2) < R by
    apply max_lt <;> linarith)
  have hQlo : R - ε < (Q : ℝ) := lt_of_le_of_lt (le_max_left _ _) hQ1
  have hQhalf : R / 2 < (Q : ℝ) := lt_of_le_of_lt (le_max_right _ _) hQ1
  have hQpos : (0 : ℝ) < Q := by linarith
  have hQposQ : (0 : ℚ) < Q := by exact_mod_cast hQpos
  set n := Q.num.toNat with hn
  have hnum : (0 : ℤ) < Q.num := Rat.num_pos.mpr hQposQ
  have hnq : ((n : ℕ) : ℚ) / (Q.den : ℚ) = Q := by
    have : ((n : ℕ) : ℤ) = Q.num := by rw [hn]; exact Int.toNat_of_nonneg hnum.le
    have h2 : ((n : ℕ) : ℚ) = (Q.num : ℚ) := by exact_mod_cast this
    rw [h2]; exact Rat.num_div_den Q
  have hyR := F64Round.isRound_roundNE false n Q.den Q.den_pos
  have hsg : F64Round.sgnQ false * (n : ℚ) / (Q.den : ℚ) = Q := by
    unfold F64Round.sgnQ; simp only [Bool.false_eq_true, if_false, one_mul]; exact hnq
  rw [hsg] at hyR
  set y := F64.roundNE false n Q.den with hy
  have hQabs : |Q| = Q := abs_of_pos hQposQ
  have hQhiQ : Q < 2 ^ 1024 - 2 ^ 970 := by
    have h1 : (Q : ℝ) < 2 ^ 15 := lt_of_lt_of_le hQ2 hRhi
    have h2 : (Q : ℚ) < 2 ^ 15 := by
      have : ((Q : ℚ) : ℝ) < (((2 : ℚ) ^ 15 : ℚ) : ℝ) := by push_cast; exact h1
      exact_mod_cast this
    exact lt_trans h2 (lt_trans (by norm_num : (2 : ℚ) ^ 15 < 2 ^ 30) big30Q)
  have hyf : Fin y := hyR.fin_of_lt (by rw [hQabs]; exact hQhiQ)
  have hQloQ : (1 : ℚ) / 2 ^ 1022 ≤ |Q| := by
    rw [hQabs]
    have h1 : (1 : ℝ) / 2 ^ 538 < (Q : ℝ) := by
      have e : (1 : ℝ) / 2 ^ 538 = (1 / 2 ^ 537) / 2 := by
        rw [div_div, ← pow_succ]
      rw [e]
      have : (1 / 2 ^ 537 : ℝ) / 2 ≤ R / 2 := by linarith
      linarith
    have h2 : (1 : ℝ) / 2 ^ 1022 ≤ 1 / 2 ^ 538 :=
      one_div_le_one_div_of_le (by positivity) (pow_le_pow_right₀ (by norm_num) (by norm_num))
    have h3 : (((1 : ℚ) / 2 ^ 1022 : ℚ) : ℝ) ≤ ((Q : ℚ) : ℝ) := by push_cast; linarith
    exact_mod_cast h3
  have hrel := hyR.rel_err hyf hQloQ
  rw [hQabs] at hrel
  have hrelR : |val y - (Q : ℝ)| ≤ (Q : ℝ) / 2 ^ 53 := by
    have : ((|F64Round.val y - Q| : ℚ) : ℝ) ≤ ((Q / 2 ^ 53 : ℚ) : ℝ) := Rat.cast_le.mpr hrel
    rw [Rat.cast_abs] at this
    push_cast at this
    rw [← val_cast] at this
    exact this
  have hy0 : 0 ≤ val y := round_nonneg hyR hQposQ.le hyf
  have h1 := near y hy0
  have h2 : |val y - R| ≤ |val y - (Q : ℝ)| + |(Q : ℝ) - R| := abs_sub_le _ _ _
  have h3 : |(Q : ℝ) - R| ≤ ε := by
    rw [abs_le]; constructor <;> linarith
  have h4 : (Q : ℝ) / 2 ^ 53 ≤ uR * R := by
    unfold uR
    have hQR : (Q : ℝ) ≤ R := hQ2.le
    have e : (Q : ℝ) / 2 ^ 53 = 1 / 2 ^ 53 * (Q : ℝ) := by ring
    rw [e]
    exact mul_le_mul_of_nonneg_left hQR (by positivity)
  linarith

end S2Proofs.C17Err
