/-
  C17Err.Prefilter — the conservative planar acute-angle test of `interiorDist` NEVER rejects a query point whose
  direction satisfies the two planar acute-angle inequalities (in particular: every point of the wedge of the edge),
  for float points within `δ ≤ δ0 = 2^-52 − 2^-80` of unit length.  Float glue for `PrefilterCore`.
-/
import S2Proofs.C17Err.PrefilterCore

set_option linter.unusedSimpArgs false
set_option linter.unusedVariables false

namespace S2Proofs.C17Err
open S2 S2.Exact S2.EdgeNum S2Proofs.F64Order S2Proofs.FloatErr

/-- the test of `interiorDist` : `|xa2 − xb2| ≥ ab2 + maxError` -/
def prefilterRejects (x a b : V3) : Bool :=
  let xa2 := (x.sub a).norm2
  let xb2 := (x.sub b).norm2
  let ab2 := (a.sub b).norm2
  let maxError := idC1 * (xa2 + xb2 + ab2) + idC2
  F64.ge (xa2 - xb2).abs (ab2 + maxError)

theorem idC_facts : Fin idC1 ∧ val idC1 = pc1 ∧ Fin idC2 ∧ val idC2 = pc2 := by
  have h : Fin idC1 ∧ toInt idC1 = 5348024557502464 * 2 ^ 972 ∧
      Fin idC2 ∧ toInt idC2 = 9007199254740991 * 2 ^ 920 := by decide +kernel
  obtain ⟨f1, v1, f2, v2⟩ := h
  refine ⟨f1, ?_, f2, ?_⟩
  · unfold val pc1 uR; rw [v1]; push_cast
    have e : (2 : ℝ) ^ 1074 = 2 ^ 972 * 2 ^ 102 := by rw [← pow_add]
    rw [e]
    have e2 : (5348024557502464 : ℝ) = 19 / 2 * 2 ^ 49 := by norm_num
    have e3 : (2 : ℝ) ^ 102 = 2 ^ 49 * 2 ^ 53 := by rw [← pow_add]
    rw [e2, e3]; field_simp
  · unfold val pc2 uR; rw [v2]; push_cast
    have e : (2 : ℝ) ^ 1074 = 2 ^ 920 * 2 ^ 154 := by rw [← pow_add]
    rw [e]
    have e2 : (9007199254740991 : ℝ) = 2 ^ 53 - 1 := by norm_num
    have e3 : (2 : ℝ) ^ 154 = 2 ^ 48 * (2 ^ 53) ^ 2 := by rw [← pow_mul, ← pow_add]
    rw [e2, e3]; field_simp; ring

/-- size of the exact squared distance of two unit-ish float vectors -/
theorem dist2_le_five {δ : ℝ} (hδ0 : 0 ≤ δ) (hδ : δ ≤ 1 / 2 ^ 52) {p q : V3}
    (hp : UnitWithin δ p) (hq : UnitWithin δ q) : dist2 p q ≤ 5 := by
  have hδ1 : δ ≤ 1 := le_trans hδ (by norm_num)
  obtain ⟨_, lp⟩ := hp.len_bounds hδ0 hδ1
  obtain ⟨_, lq⟩ := hq.len_bounds hδ0 hδ1
  have h := (abs_le.mp (abs_dotR_le p q)).1
  rw [dist2_expand, ← len_sq p, ← len_sq q]
  have e : len p * len p + len q * len q - 2 * dotR p q ≤ (len p + len q) ^ 2 := by nlinarith
  have h2 : (len p + len q) ^ 2 ≤ (2 + 2 * δ) ^ 2 :=
    pow_le_pow_left₀ (add_nonneg (len_nonneg p) (len_nonneg q)) (by linarith) 2
  have h3 : (2 + 2 * δ) ^ 2 ≤ 5 := by nlinarith
  linarith

/-- facts about `fl(|p−q|²)` for unit-ish points, packaged for the chains below -/
theorem norm2_sub_unit {δ : ℝ} (hδ0 : 0 ≤ δ) (hδ : δ ≤ delta0) {p q : V3}
    (hp : UnitWithin δ p) (hq : UnitWithin δ q) :
    Fin (p.sub q).norm2 ∧ 0 ≤ val (p.sub q).norm2 ∧ val (p.sub q).norm2 ≤ 6 ∧
    |val (p.sub q).norm2 - dist2 p q| ≤ kap * dist2 p q + 4 * eR := by
  have hδs : δ ≤ 1 / 2 ^ 52 := le_trans hδ delta0_le
  have hδ1 : δ ≤ 1 := le_trans hδs (by norm_num)
  obtain ⟨fn, nn, herr⟩ := norm2_sub_spec p q hp.1 hq.1 (hp.coord2 hδ0 hδ1) (hq.coord2 hδ0 hδ1)
  refine ⟨fn, nn, ?_, herr⟩
  have h5 := dist2_le_five hδ0 hδs hp hq
  have h0 := dist2_nonneg p q
  have hk := kap_le'
  have he := eR_le250
  have := (abs_le.mp herr).2
  have h1 : kap * dist2 p q ≤ 1 / 2 ^ 50 * 5 := mul_le_mul hk h5 h0 (by norm_num)
  have h2 : (1 : ℝ) / 2 ^ 250 ≤ 1 / 2 ^ 50 :=
    one_div_le_one_div_of_le (by positivity) (pow_le_pow_right₀ (by norm_num) (by norm_num))
  linarith

theorem low2 {A B u : ℝ} (hB : 0 ≤ B) (hu : 0 ≤ u) (hu1 : 0 ≤ 1 - u) :
    (A + B) * (1 - u) ^ 2 ≤ (A * (1 - u) + B) * (1 - u) := by
  have h : 0 ≤ B * u * (1 - u) := mul_nonneg (mul_nonneg hB hu) hu1
  have e : (A * (1 - u) + B) * (1 - u) - (A + B) * (1 - u) ^ 2 = B * u * (1 - u) := by ring
  linarith

/-- **The planar test never rejects a point that satisfies the two planar acute-angle inequalities.** -/
theorem prefilter_pass {δ : ℝ} (hδ0 : 0 ≤ δ) (hδ : δ ≤ delta0) {x a b : V3}
    (hx : UnitWithin δ x) (ha : UnitWithin δ a) (hb : UnitWithin δ b)
    (hA : dirChord2 x a ≤ dirChord2 x b + dirChord2 a b)
    (hB : dirChord2 x b ≤ dirChord2 x a + dirChord2 a b) :
    prefilterRejects x a b = false := by
  have hδs : δ ≤ 1 / 2 ^ 52 := le_trans hδ delta0_le
  have hδ1 : δ ≤ 1 := le_trans hδs (by norm_num)
  obtain ⟨lx1, lx2⟩ := hx.len_bounds hδ0 hδ1
  obtain ⟨la1, la2⟩ := ha.len_bounds hδ0 hδ1
  obtain ⟨lb1, lb2⟩ := hb.len_bounds hδ0 hδ1
  have px : 0 < len x := by linarith
  have pa : 0 < len a := by linarith
  have pb : 0 < len b := by linarith
  have sx : |len x - 1| ≤ δ := abs_le.mpr ⟨by linarith, by linarith⟩
  have sa : |len a - 1| ≤ δ := abs_le.mpr ⟨by linarith, by linarith⟩
  have sb : |len b - 1| ≤ δ := abs_le.mpr ⟨by linarith, by linarith⟩
  obtain ⟨DA0, _⟩ := dirChord2_bounds px pa
  obtain ⟨DB0, _⟩ := dirChord2_bounds px pb
  obtain ⟨DAB0, _⟩ := dirChord2_bounds pa pb
  obtain ⟨ffa, nfa, bfa, efa⟩ := norm2_sub_unit hδ0 hδ hx ha
  obtain ⟨ffb, nfb, bfb, efb⟩ := norm2_sub_unit hδ0 hδ hx hb
  obtain ⟨ffab, nfab, bfab, efab⟩ := norm2_sub_unit hδ0 hδ ha hb
  set fa := val (x.sub a).norm2 with hfa
  set fb := val (x.sub b).norm2 with hfb
  set fab := val (a.sub b).norm2 with hfab
  -- the two sides in exact arithmetic
  have hdab' : dist2 a b = (len b - len a) ^ 2 + len b * len a * dirChord2 a b := by
    rw [dist2_dir pa pb]; ring
  obtain ⟨p1, p2, p3, pm⟩ := planar_perturb hδ0 hδ sx sa sb DA0 DB0 DAB0 hA
    (dist2_dir px pa) (dist2_dir px pb) (dist2_dir pa pb)
  obtain ⟨_, _, _, pm'⟩ := planar_perturb hδ0 hδ sx sb sa DB0 DA0 DAB0 hB
    (dist2_dir px pb) (dist2_dir px pa) hdab'
  have sideA := prefilter_round p1 p2 p3 pm efa efb efab nfb
  have sideB := prefilter_round p2 p1 p3 pm' efb efa efab nfa
  have ecomm : fb + fa + fab = fa + fb + fab := by ring
  rw [ecomm] at sideB
  -- the float chain of the right-hand side
  obtain ⟨fc1, vc1, fc2, vc2⟩ := idC_facts
  have hu := uR_nonneg
  have hu1 : (0 : ℝ) ≤ 1 - uR := by unfold uR; norm_num
  have m1 : |fa + fb| ≤ 12 := by rw [abs_of_nonneg (by linarith)]; linarith
  obtain ⟨fs1, rs1, bs1⟩ := add_step stdModel ffa ffb m1 (by norm_num)
  unfold Rnd at rs1
  rw [abs_of_nonneg (by linarith : 0 ≤ fa + fb), add_zero] at rs1
  have ls1 : (fa + fb) * (1 - uR) ≤ val ((x.sub a).norm2 + (x.sub b).norm2) := by
    have := (abs_le.mp rs1).1; linarith
  have ns1 : 0 ≤ val ((x.sub a).norm2 + (x.sub b).norm2) :=
    le_trans (mul_nonneg (by linarith) hu1) ls1
  have m2 : |val ((x.sub a).norm2 + (x.sub b).norm2) + fab| ≤ 31 := by
    rw [abs_of_nonneg (by linarith)]
    have := le_abs_self (val ((x.sub a).norm2 + (x.sub b).norm2)); linarith
  obtain ⟨fs2, rs2, bs2⟩ := add_step stdModel fs1 ffab m2 (by norm_num)
  unfold Rnd at rs2
  rw [abs_of_nonneg (by linarith : 0 ≤ val ((x.sub a).norm2 + (x.sub b).norm2) + fab), add_zero] at rs2
  set s2 := val ((x.sub a).norm2 + (x.sub b).norm2 + (a.sub b).norm2) with hs2
  have ls2 : (fa + fb + fab) * (1 - uR) ^ 2 ≤ s2 := by
    have h1 := (abs_le.mp rs2).1
    have h2 : (val ((x.sub a).norm2 + (x.sub b).norm2) + fab) * (1 - uR) ≤ s2 := by linarith
    have h3 : ((fa + fb) * (1 - uR) + fab) * (1 - uR) ≤ (val ((x.sub a).norm2 + (x.sub b).norm2) + fab) * (1 - uR) :=
      mul_le_mul_of_nonneg_right (by linarith) hu1
    have h4 : (fa + fb + fab) * (1 - uR) ^ 2 ≤ ((fa + fb) * (1 - uR) + fab) * (1 - uR) :=
      low2 nfab hu hu1
    linarith
  have ns2 : 0 ≤ s2 := le_trans (mul_nonneg (by linarith) (by positivity)) ls2
  have hpc1 : 0 ≤ pc1 := by unfold pc1; exact mul_nonneg (by norm_num) uR_nonneg
  have hpc1' : pc1 ≤ 1 := by unfold pc1 uR; norm_num
  have hpc2 : 0 ≤ pc2 := by unfold pc2; exact mul_nonneg (mul_nonneg (by norm_num) (sq_nonneg _)) hu1
  have hpc2' : pc2 ≤ 1 := by unfold pc2 uR; norm_num
  have m3 : |val idC1 * s2| ≤ 63 := by
    rw [vc1, abs_of_nonneg (mul_nonneg hpc1 ns2)]
    have h63 : s2 ≤ 63 := by have := le_abs_self s2; linarith
    have := mul_le_mul hpc1' h63 ns2 (by norm_num : (0 : ℝ) ≤ 1)
    linarith
  obtain ⟨fP, rP, bP⟩ := mul_step stdModel fc1 fs2 m3 (by norm_num)
  unfold Rnd at rP
  rw [vc1, abs_of_nonneg (mul_nonneg hpc1 ns2)] at rP
  have lP : pc1 * s2 * (1 - uR) - eR ≤ val (idC1 * ((x.sub a).norm2 + (x.sub b).norm2 + (a.sub b).norm2)) := by
    have := (abs_le.mp rP).1; linarith
  set P := val (idC1 * ((x.sub a).norm2 + (x.sub b).norm2 + (a.sub b).norm2)) with hP
  have he := eR_le250
  have hpc2lo : (1 : ℝ) / 2 ^ 250 ≤ pc2 := by unfold pc2 uR; norm_num
  have nPc : 0 ≤ P + val idC2 := by
    rw [vc2]
    have : 0 ≤ pc1 * s2 * (1 - uR) := mul_nonneg (mul_nonneg hpc1 ns2) hu1
    linarith
  have m4 : |P + val idC2| ≤ 128 := by
    rw [abs_of_nonneg nPc, vc2]
    have := le_abs_self P; linarith
  obtain ⟨fM, rM, bM⟩ := add_step stdModel fP fc2 m4 (by norm_num)
  unfold Rnd at rM
  rw [abs_of_nonneg nPc, add_zero, vc2] at rM
  set M := val (idC1 * ((x.sub a).norm2 + (x.sub b).norm2 + (a.sub b).norm2) + idC2) with hM
  have lM : (P + pc2) * (1 - uR) ≤ M := by have := (abs_le.mp rM).1; linarith
  have nM : 0 ≤ M := le_trans (mul_nonneg (by rw [vc2] at nPc; exact nPc) hu1) lM
  have lM2 : slackLow (fa + fb + fab) ≤ M := by
    unfold slackLow
    have h1 : pc1 * (fa + fb + fab) * (1 - uR) ^ 3 ≤ pc1 * s2 * (1 - uR) := by
      have h2 : pc1 * ((fa + fb + fab) * (1 - uR) ^ 2) ≤ pc1 * s2 := mul_le_mul_of_nonneg_left ls2 hpc1
      have h3 := mul_le_mul_of_nonneg_right h2 hu1
      have e : pc1 * (fa + fb + fab) * (1 - uR) ^ 3 = pc1 * ((fa + fb + fab) * (1 - uR) ^ 2) * (1 - uR) := by ring
      rw [e]; exact h3
    have h4 : (pc1 * (fa + fb + fab) * (1 - uR) ^ 3 - eR + pc2) * (1 - uR) ≤ (P + pc2) * (1 - uR) :=
      mul_le_mul_of_nonneg_right (by linarith) hu1
    linarith
  have m5 : |fab + M| ≤ 263 := by
    rw [abs_of_nonneg (by linarith)]
    have := le_abs_self M
    have : |M| ≤ 2 * 128 + 1 := bM
    linarith
  obtain ⟨fR, rR, _⟩ := add_step stdModel ffab fM m5 (by norm_num)
  unfold Rnd at rR
  rw [abs_of_nonneg (by linarith : 0 ≤ fab + M), add_zero] at rR
  have lR : (fab + slackLow (fa + fb + fab)) * (1 - uR)
      ≤ val ((a.sub b).norm2 + (idC1 * ((x.sub a).norm2 + (x.sub b).norm2 + (a.sub b).norm2) + idC2)) := by
    have h1 := (abs_le.mp rR).1
    have h2 : (fab + slackLow (fa + fb + fab)) * (1 - uR) ≤ (fab + M) * (1 - uR) :=
      mul_le_mul_of_nonneg_right (by linarith) hu1
    linarith
  -- the left-hand side
  have m6 : |fa - fb| ≤ 12 := by
    rw [abs_le]; constructor <;> linarith
  obtain ⟨fD, rD, _⟩ := sub_step stdModel ffa ffb m6 (by norm_num)
  unfold Rnd at rD
  rw [add_zero] at rD
  obtain ⟨fA, vA⟩ := val_abs fD
  have hD : |val ((x.sub a).norm2 - (x.sub b).norm2)| ≤ |fa - fb| * (1 + uR) := by
    have := abs_sub_abs_le_abs_sub (val ((x.sub a).norm2 - (x.sub b).norm2)) (fa - fb)
    linarith
  have hlt : |fa - fb| * (1 + uR) < (fab + slackLow (fa + fb + fab)) * (1 - uR) := by
    rcases le_total 0 (fa - fb) with h | h
    · rw [abs_of_nonneg h]; exact sideA
    · rw [abs_of_nonpos h]
      have e : -(fa - fb) = fb - fa := by ring
      rw [e]; exact sideB
  -- conclusion
  unfold prefilterRejects
  simp only []
  cases hge : F64.ge (F64.abs ((x.sub a).norm2 - (x.sub b).norm2))
      ((a.sub b).norm2 + (idC1 * ((x.sub a).norm2 + (x.sub b).norm2 + (a.sub b).norm2) + idC2))
  · rfl
  · exfalso
    have := (ge_val fA fR).mp hge
    rw [vA] at this
    linarith

end S2Proofs.C17Err
