/-
  C17Err.VertexWide — the vertex distance on the WHOLE documented range of `Normalize`
  (`|‖p‖ − 1| ≤ 2·dblEpsilon`, here `δ ≤ 2·δ0 = 2^-51 − 2^-79`):

      | vertexDist x a b − min(chord²(X,A), chord²(X,B)) |  ≤  (13u − 2^-27·u)·D + 64.01·u²      (u = 2^-53)

  i.e. `6.5·dblEpsilon·D + 16.0025·dblEpsilon²` — the bound that `MaxPointError` would have to return
  (`4.5·dblEpsilon` → `6.5·dblEpsilon`) to cover every output of `Normalize` (cf. `C17Err.Witness`).
-/
import S2Proofs.C17Err.Vertex

set_option linter.unusedSimpArgs false
set_option linter.unusedVariables false

namespace S2Proofs.C17Err
open S2 S2.Exact S2.EdgeNum S2Proofs.F64Order S2Proofs.FloatErr

noncomputable def k1w : ℝ := 13 * uR - uR / 2 ^ 27
noncomputable def k2w : ℝ := 6401 / 100 * uR ^ 2

theorem k1w_nonneg : 0 ≤ k1w := by unfold k1w uR; norm_num
theorem k1w_lt : k1w < 1 / 2 ^ 49 := by unfold k1w uR; norm_num

theorem vertex_core_wide {δ sx sa D d r : ℝ} (hδ0 : 0 ≤ δ) (hδ : δ ≤ 2 * delta0)
    (hsx : |sx - 1| ≤ δ) (hsa : |sa - 1| ≤ δ) (hD0 : 0 ≤ D) (hD4 : D ≤ 4)
    (hd : d = (sx - sa) ^ 2 + sx * sa * D) (hr : |r - d| ≤ kap * d + 4 * eR) :
    |min r 4 - D| ≤ k1w * D + k2w := by
  have hκ := kap_nonneg
  have hκ' := kap_le
  have he := eR_le250
  have he0 := eR_nonneg
  have hδ1 : 2 * delta0 ≤ 1 / 2 ^ 51 := by unfold delta0; norm_num
  have hd0n := delta0_nonneg
  obtain ⟨x1, x2⟩ := abs_le.mp hsx
  obtain ⟨a1, a2⟩ := abs_le.mp hsa
  have hq : (sx - sa) ^ 2 ≤ 4 * δ ^ 2 := by
    have h1 : |sx - sa| ≤ 2 * δ := by
      have e : sx - sa = (sx - 1) - (sa - 1) := by ring
      rw [e]; have := abs_sub (sx - 1) (sa - 1); linarith
    have := sq_le_sq' (by have := abs_le.mp h1; linarith) (abs_le.mp h1).2
    nlinarith
  have hq0 : 0 ≤ (sx - sa) ^ 2 := sq_nonneg _
  have hp : |sx * sa - 1| ≤ 2 * δ + δ ^ 2 := by
    rw [abs_le]; constructor <;> nlinarith
  obtain ⟨p1, p2⟩ := abs_le.mp hp
  have hdD : |d - D| ≤ 4 * δ ^ 2 + (2 * δ + δ ^ 2) * D := by
    rw [hd, abs_le]; constructor <;> nlinarith
  have hdle : d ≤ 4 * δ ^ 2 + (1 + 2 * δ + δ ^ 2) * D := by
    have := (abs_le.mp hdD).2; nlinarith
  have hδs : δ ≤ 1 / 2 ^ 51 := le_trans hδ hδ1
  have hδsmall : 2 * δ + δ ^ 2 ≤ 1 := by nlinarith
  have hss : 0 ≤ sx * sa := by linarith
  have hd0 : 0 ≤ d := by rw [hd]; have := mul_nonneg hss hD0; linarith
  have hrD : |r - D| ≤ (kap * (1 + 2 * δ + δ ^ 2) + (2 * δ + δ ^ 2)) * D + ((1 + kap) * (4 * δ ^ 2) + 4 * eR) := by
    have h1 : |r - D| ≤ |r - d| + |d - D| := abs_sub_le _ _ _
    have h2 : kap * d ≤ kap * (4 * δ ^ 2 + (1 + 2 * δ + δ ^ 2) * D) := mul_le_mul_of_nonneg_left hdle hκ
    nlinarith
  have hδsq : δ ^ 2 ≤ (2 * delta0) ^ 2 := pow_le_pow_left₀ hδ0 hδ 2
  have hc1 : kap * (1 + 2 * δ + δ ^ 2) + (2 * δ + δ ^ 2) ≤ k1w := by
    have h1 : 1 + 2 * δ + δ ^ 2 ≤ 1 + 2 * (2 * delta0) + (2 * delta0) ^ 2 := by linarith
    have h2 : kap * (1 + 2 * δ + δ ^ 2) ≤ (5 * uR + 11 * uR ^ 2) * (1 + 2 * (2 * delta0) + (2 * delta0) ^ 2) :=
      mul_le_mul hκ' h1 (by positivity) (by unfold uR; norm_num)
    have h3 : (5 * uR + 11 * uR ^ 2) * (1 + 2 * (2 * delta0) + (2 * delta0) ^ 2) + (2 * (2 * delta0) + (2 * delta0) ^ 2) ≤ k1w := by
      unfold k1w delta0 uR; norm_num
    linarith
  have hc2 : (1 + kap) * (4 * δ ^ 2) + 4 * eR ≤ k2w := by
    have h1 : (1 + kap) * (4 * δ ^ 2) ≤ (1 + (5 * uR + 11 * uR ^ 2)) * (4 * (2 * delta0) ^ 2) :=
      mul_le_mul (by linarith) (by linarith) (by positivity) (by unfold uR; norm_num)
    have h3 : (1 + (5 * uR + 11 * uR ^ 2)) * (4 * (2 * delta0) ^ 2) + 4 * (1 / 2 ^ 250) ≤ k2w := by
      unfold k2w delta0 uR; norm_num
    linarith
  have hfin : |r - D| ≤ k1w * D + k2w := by
    have := mul_le_mul_of_nonneg_right hc1 hD0
    linarith
  rcases le_total r 4 with h | h
  · rw [min_eq_left h]; exact hfin
  · rw [min_eq_right h]
    obtain ⟨_, u2⟩ := abs_le.mp hfin
    rw [abs_le]; constructor <;> linarith

theorem min_core_wide {ra rb DA DB : ℝ} (hA : |ra - DA| ≤ k1w * DA + k2w) (hB : |rb - DB| ≤ k1w * DB + k2w) :
    |min ra rb - min DA DB| ≤ k1w * min DA DB + k2w := by
  have hk := k1w_nonneg
  have hk1 : k1w < 1 := lt_trans k1w_lt (by norm_num)
  obtain ⟨a1, a2⟩ := abs_le.mp hA
  obtain ⟨b1, b2⟩ := abs_le.mp hB
  rw [abs_le]
  rcases le_total DA DB with hD | hD
  · rw [min_eq_left hD]
    constructor
    · rcases le_total ra rb with h | h
      · rw [min_eq_left h]; linarith
      · rw [min_eq_right h]
        have : (1 - k1w) * DA ≤ (1 - k1w) * DB := mul_le_mul_of_nonneg_left hD (by linarith)
        nlinarith
    · have := min_le_left ra rb; linarith
  · rw [min_eq_right hD]
    constructor
    · rcases le_total ra rb with h | h
      · rw [min_eq_left h]
        have : (1 - k1w) * DB ≤ (1 - k1w) * DA := mul_le_mul_of_nonneg_left hD (by linarith)
        nlinarith
      · rw [min_eq_right h]; linarith
    · have := min_le_right ra rb; linarith

/-- **the vertex distance on the whole documented range of `Normalize`** -/
theorem vertexDist_wide {δ : ℝ} (hδ0 : 0 ≤ δ) (hδ : δ ≤ 2 * delta0) {x a b : V3}
    (hx : UnitWithin δ x) (ha : UnitWithin δ a) (hb : UnitWithin δ b) :
    Fin (vertexDist x a b) ∧
    |val (vertexDist x a b) - min (dirChord2 x a) (dirChord2 x b)|
      ≤ k1w * min (dirChord2 x a) (dirChord2 x b) + k2w := by
  have hδ1 : δ ≤ 1 := le_trans hδ (by have := delta0_le; linarith [show (1:ℝ)/2^52 ≤ 1/2 by norm_num])
  have one : ∀ {p : V3}, UnitWithin δ p → Fin (x.sub p).norm2 ∧
      |min (val (x.sub p).norm2) 4 - dirChord2 x p| ≤ k1w * dirChord2 x p + k2w := by
    intro p hp
    obtain ⟨lx1, lx2⟩ := hx.len_bounds hδ0 hδ1
    obtain ⟨la1, la2⟩ := hp.len_bounds hδ0 hδ1
    have hδh : δ ≤ 1 / 2 := le_trans hδ (by have := delta0_le; linarith [show (1:ℝ)/2^52 ≤ 1/4 by norm_num])
    have px : 0 < len x := by linarith
    have pa : 0 < len p := by linarith
    obtain ⟨fn, nn, herr⟩ := norm2_sub_spec x p hx.1 hp.1 (hx.coord2 hδ0 hδ1) (hp.coord2 hδ0 hδ1)
    obtain ⟨d0, d4⟩ := dirChord2_bounds px pa
    exact ⟨fn, vertex_core_wide hδ0 hδ (abs_le.mpr ⟨by linarith, by linarith⟩) (abs_le.mpr ⟨by linarith, by linarith⟩)
      d0 d4 (dist2_dir px pa) herr⟩
  obtain ⟨fa, ea⟩ := one ha
  obtain ⟨fb, eb⟩ := one hb
  obtain ⟨fm, vm⟩ := val_fmin fa fb
  obtain ⟨fc, vc⟩ := val_chordFromLen2 fm
  have hv : val (vertexDist x a b) = min (min (val (x.sub a).norm2) 4) (min (val (x.sub b).norm2) 4) := by
    unfold vertexDist
    rw [vc, vm, min_min_min_comm, min_self]
  have hmin := min_core_wide ea eb
  rw [← hv] at hmin
  exact ⟨fc, hmin⟩

end S2Proofs.C17Err
