/-
  C17Err.ScalarFinal — from the step-wise bounds of `ScalarCore` to simple polynomial bounds with numeric
  coefficients (u = 2^-53), the change of normal, and the comparison with the DOCUMENTED bound

      docInterior b = ((2.5 + 2√3 + 8.5a)·a + (2 + 2√3/3 + 6.5(1−b))·b + (23 + 16/√3)·ε)·ε ,   a = √(b(2−b)), ε = 2^-52.
-/
import S2Proofs.C17Err.ScalarCore
import S2Proofs.C17Err.VecCore
import S2Proofs.C17Err.Vertex

set_option linter.unusedSimpArgs false
set_option linter.unusedVariables false

namespace S2Proofs.C17Err
open S2Proofs.FloatErr

/-! ### numeric facts about the rounding constants -/

theorem uR_pos : 0 < uR := by unfold uR; positivity
theorem uR_small : uR ≤ 1 / 2 ^ 53 := by unfold uR; exact le_refl _

theorem fU_le : fU uR ≤ (3 / 2 + 1 / 2 ^ 50) * uR := by unfold fU uR; norm_num
theorem gU_le : gU uR ≤ (3 / 2 + 1 / 2 ^ 50) * uR := by unfold gU uR; norm_num
theorem fU_nonneg : 0 ≤ fU uR := by unfold fU; have := uR_nonneg; positivity
theorem gU_nonneg : 0 ≤ gU uR := by unfold gU; have := uR_nonneg; positivity
theorem rhoU_le : rhoU uR ≤ (3 + 1 / 2 ^ 50) * uR := by unfold rhoU fU gU uR; norm_num

/-- the tiny absolute terms (underflow) are below `2^-900` -/
noncomputable def tinyR : ℝ := 1 / 2 ^ 900

theorem tinyR_pos : 0 < tinyR := by unfold tinyR; positivity
theorem tinyR_le : tinyR ≤ 1 / 2 ^ 200 * uR ^ 2 := by
  unfold tinyR uR
  have e : (1 : ℝ) / 2 ^ 200 * (1 / 2 ^ 53) ^ 2 = 1 / 2 ^ 306 := by
    rw [div_pow, one_pow, ← pow_mul]
    rw [div_mul_div_comm, one_mul, ← pow_add]
  rw [e]
  exact one_div_le_one_div_of_le (by positivity) (pow_le_pow_right₀ (by norm_num) (by norm_num))

theorem relT1_le {g : ℝ} (hg0 : 0 ≤ g) (hg : g ≤ (3 + 1 / 2 ^ 40) * uR) :
    relT1 uR g ≤ (5 + 1 / 2 ^ 30) * uR := by
  have hu := uR_nonneg
  have hg1 : g ≤ 1 / 2 ^ 50 := le_trans hg (by unfold uR; norm_num)
  have h1 : g * (1 + 2 * g) ≤ (3 + 1 / 2 ^ 40) * uR * (1 + 2 * (1 / 2 ^ 50)) :=
    mul_le_mul hg (by linarith) (by linarith) (mul_nonneg (by norm_num) hu)
  have h0 : 0 ≤ g * (1 + 2 * g) := mul_nonneg hg0 (by linarith)
  unfold relT1
  set G := g * (1 + 2 * g) with hG
  have hGle : G ≤ (3 + 1 / 2 ^ 39) * uR := by
    have : (3 + 1 / 2 ^ 40) * uR * (1 + 2 * (1 / 2 ^ 50)) ≤ (3 + 1 / 2 ^ 39) * uR := by
      unfold uR; norm_num
    linarith
  have h2 : uR * (1 + G) + G ≤ (4 + 1 / 2 ^ 38) * uR := by
    have : uR * G ≤ uR * ((3 + 1 / 2 ^ 39) * uR) := mul_le_mul_of_nonneg_left hGle hu
    have : uR * ((3 + 1 / 2 ^ 39) * uR) ≤ 1 / 2 ^ 50 * uR := by unfold uR; norm_num
    nlinarith
  have h3 : (1 + uR) * (uR * (1 + G) + G) ≤ (1 + uR) * ((4 + 1 / 2 ^ 38) * uR) :=
    mul_le_mul_of_nonneg_left h2 (by linarith)
  have h4 : (1 + uR) * ((4 + 1 / 2 ^ 38) * uR) + uR ≤ (5 + 1 / 2 ^ 30) * uR := by unfold uR; norm_num
  linarith

theorem relT1_nonneg {g : ℝ} (hg0 : 0 ≤ g) : 0 ≤ relT1 uR g := by
  unfold relT1
  have hu := uR_nonneg
  have h0 : 0 ≤ g * (1 + 2 * g) := mul_nonneg hg0 (by linarith)
  have h1 : 0 ≤ uR * (1 + g * (1 + 2 * g)) + g * (1 + 2 * g) := add_nonneg (mul_nonneg hu (by linarith)) h0
  have := mul_nonneg (by linarith : (0 : ℝ) ≤ 1 + uR) h1
  linarith

/-! ### stage A : the term `T1` -/

/-- `E1 ≤ u·(3(1+2^-38)·A + 8.000001·A²) + 52·u²·A + 7·u²` -/
theorem e1_simple {A lx es g t : ℝ} (hA0 : 0 ≤ A) (hA1 : A ≤ 1 + 1 / 2 ^ 40) (hlx0 : 0 ≤ lx) (hlx : lx ≤ 1 + 1 / 2 ^ 52)
    (hg0 : 0 ≤ g) (hg : g ≤ (3 + 1 / 2 ^ 40) * uR) (ht0 : 0 ≤ t) (ht : t ≤ tinyR)
    (hes0 : 0 ≤ es) (hes : es ≤ lx * (fU uR * A + gU uR) + t) :
    relT1 uR g * ((lx * A + es) * (lx * A + es)) + 5 * t + es * (2 * (lx * A) + es)
      ≤ uR * ((3 + 1 / 2 ^ 38) * A + (8 + 1 / 2 ^ 20) * A ^ 2) + 52 * uR ^ 2 * A + 7 * uR ^ 2 := by
  have hu := uR_nonneg
  have hup := uR_pos
  have hr := relT1_le hg0 hg
  have hr0 := relT1_nonneg (g := g) hg0
  have htt := le_trans ht tinyR_le
  -- es ≤ k·u·(A+1),  k = 3/2 + 2^-48
  have hes2 : es ≤ (3 / 2 + 1 / 2 ^ 48) * uR * (A + 1) := by
    have h1 : fU uR * A + gU uR ≤ (3 / 2 + 1 / 2 ^ 50) * uR * (A + 1) := by
      have := mul_le_mul_of_nonneg_right fU_le hA0
      have := gU_le
      nlinarith
    have h2 : lx * (fU uR * A + gU uR) ≤ (1 + 1 / 2 ^ 52) * ((3 / 2 + 1 / 2 ^ 50) * uR * (A + 1)) :=
      mul_le_mul hlx h1 (add_nonneg (mul_nonneg fU_nonneg hA0) gU_nonneg) (by norm_num)
    have h3 : (1 + 1 / 2 ^ 52) * ((3 / 2 + 1 / 2 ^ 50) * uR * (A + 1)) + 1 / 2 ^ 200 * uR ^ 2
        ≤ (3 / 2 + 1 / 2 ^ 48) * uR * (A + 1) := by
      have hA : 1 ≤ A + 1 := by linarith
      have h4 : 1 / 2 ^ 200 * uR ^ 2 ≤ 1 / 2 ^ 200 * uR * (A + 1) := by
        have : uR ^ 2 ≤ uR * 1 := by unfold uR; norm_num
        nlinarith
      have h5 : ((1 + 1 / 2 ^ 52) * (3 / 2 + 1 / 2 ^ 50) + 1 / 2 ^ 200) ≤ (3 / 2 + 1 / 2 ^ 48 : ℝ) := by norm_num
      have h6 := mul_le_mul_of_nonneg_right h5 (mul_nonneg hu (by linarith) : 0 ≤ uR * (A + 1))
      nlinarith
    linarith
  have hes3 : es ≤ 4 * uR := by
    have : (3 / 2 + 1 / 2 ^ 48) * uR * (A + 1) ≤ (3 / 2 + 1 / 2 ^ 48) * uR * (2 + 1 / 2 ^ 40) :=
      mul_le_mul_of_nonneg_left (by linarith) (mul_nonneg (by norm_num) hu)
    nlinarith
  -- X := lx·A
  have hX0 : 0 ≤ lx * A := mul_nonneg hlx0 hA0
  have hX : lx * A ≤ (1 + 1 / 2 ^ 52) * A := mul_le_mul_of_nonneg_right hlx hA0
  have hX2 : lx * A ≤ 2 := by nlinarith
  -- (X + es)² ≤ (1+2^-50)A² + 9uA + 16u²
  have hsq : (lx * A + es) * (lx * A + es) ≤ (1 + 1 / 2 ^ 50) * A ^ 2 + 9 * uR * A + 16 * uR ^ 2 := by
    have h1 : (lx * A + es) ≤ (1 + 1 / 2 ^ 52) * A + 4 * uR := by linarith
    have h2 : (lx * A + es) * (lx * A + es) ≤ ((1 + 1 / 2 ^ 52) * A + 4 * uR) * ((1 + 1 / 2 ^ 52) * A + 4 * uR) :=
      mul_le_mul h1 h1 (add_nonneg hX0 hes0) (add_nonneg (mul_nonneg (by norm_num) hA0) (mul_nonneg (by norm_num) hu))
    have h3 : ((1 + 1 / 2 ^ 52) * A + 4 * uR) * ((1 + 1 / 2 ^ 52) * A + 4 * uR)
        = (1 + 1 / 2 ^ 52) ^ 2 * A ^ 2 + 8 * (1 + 1 / 2 ^ 52) * uR * A + 16 * uR ^ 2 := by ring
    have h4 : (1 + 1 / 2 ^ 52 : ℝ) ^ 2 ≤ 1 + 1 / 2 ^ 50 := by norm_num
    have h5 : (8 * (1 + 1 / 2 ^ 52) : ℝ) ≤ 9 := by norm_num
    have := mul_le_mul_of_nonneg_right h4 (sq_nonneg A)
    have := mul_le_mul_of_nonneg_right h5 (mul_nonneg hu hA0)
    nlinarith
  have hsq0 : 0 ≤ (lx * A + es) * (lx * A + es) := mul_self_nonneg _
  have hterm1 : relT1 uR g * ((lx * A + es) * (lx * A + es))
      ≤ (5 + 1 / 2 ^ 30) * uR * ((1 + 1 / 2 ^ 50) * A ^ 2 + 9 * uR * A + 16 * uR ^ 2) :=
    mul_le_mul hr hsq hsq0 (mul_nonneg (by norm_num) hu)
  -- es·(2X + es) ≤ k u (A+1)·(2(1+2^-52)A + 4u)
  have hterm2 : es * (2 * (lx * A) + es)
      ≤ (3 / 2 + 1 / 2 ^ 48) * uR * (A + 1) * (2 * ((1 + 1 / 2 ^ 52) * A) + 4 * uR) :=
    mul_le_mul hes2 (by linarith) (by linarith) (mul_nonneg (mul_nonneg (by norm_num) hu) (by linarith))
  -- collect: everything is a polynomial in A with numeric coefficients
  have hA2 : A ^ 2 ≤ (1 + 1 / 2 ^ 40) * A := by nlinarith
  have e1 : (5 + 1 / 2 ^ 30) * uR * ((1 + 1 / 2 ^ 50) * A ^ 2 + 9 * uR * A + 16 * uR ^ 2)
      = (5 + 1 / 2 ^ 30) * (1 + 1 / 2 ^ 50) * (uR * A ^ 2) + (5 + 1 / 2 ^ 30) * 9 * (uR ^ 2 * A)
        + (5 + 1 / 2 ^ 30) * 16 * uR ^ 3 := by ring
  have e2 : (3 / 2 + 1 / 2 ^ 48) * uR * (A + 1) * (2 * ((1 + 1 / 2 ^ 52) * A) + 4 * uR)
      = (3 / 2 + 1 / 2 ^ 48) * 2 * (1 + 1 / 2 ^ 52) * (uR * A ^ 2)
        + (3 / 2 + 1 / 2 ^ 48) * 2 * (1 + 1 / 2 ^ 52) * (uR * A)
        + (3 / 2 + 1 / 2 ^ 48) * 4 * (uR ^ 2 * A) + (3 / 2 + 1 / 2 ^ 48) * 4 * uR ^ 2 := by ring
  have c1 : ((5 + 1 / 2 ^ 30) * (1 + 1 / 2 ^ 50) + (3 / 2 + 1 / 2 ^ 48) * 2 * (1 + 1 / 2 ^ 52) : ℝ) ≤ 8 + 1 / 2 ^ 20 := by
    norm_num
  have c2 : ((3 / 2 + 1 / 2 ^ 48) * 2 * (1 + 1 / 2 ^ 52) : ℝ) ≤ 3 + 1 / 2 ^ 38 := by norm_num
  have c3 : ((5 + 1 / 2 ^ 30) * 9 + (3 / 2 + 1 / 2 ^ 48) * 4 : ℝ) ≤ 52 := by norm_num
  have hu3 : uR ^ 3 ≤ 1 / 2 ^ 50 * uR ^ 2 := by unfold uR; norm_num
  have m1 := mul_le_mul_of_nonneg_right c1 (mul_nonneg hu (sq_nonneg A))
  have m2 := mul_le_mul_of_nonneg_right c2 (mul_nonneg hu hA0)
  have m3 := mul_le_mul_of_nonneg_right c3 (mul_nonneg (sq_nonneg uR) hA0)
  have huu : 0 ≤ uR ^ 2 := sq_nonneg _
  nlinarith


/-! ### stage B : the term `T2` -/

theorem relT2_le : relT2 uR ≤ (3 + 1 / 2 ^ 40) * uR := by unfold relT2 uR; norm_num
theorem relT2_nonneg : 0 ≤ relT2 uR := by unfold relT2 uR; norm_num

theorem relR_le {r g : ℝ} (hr0 : 0 ≤ r) (hr : r ≤ (3 + 1 / 2 ^ 40) * uR) (hg0 : 0 ≤ g) (hg : g ≤ (3 + 1 / 2 ^ 40) * uR) :
    0 ≤ relR uR r g ∧ relR uR r g ≤ (7 + 1 / 2 ^ 30) * uR := by
  have hu := uR_nonneg
  have hg1 : g ≤ 1 / 2 ^ 50 := le_trans hg (by unfold uR; norm_num)
  have hr1 : r ≤ 1 / 2 ^ 50 := le_trans hr (by unfold uR; norm_num)
  have h0 : 0 ≤ g * (1 + 2 * g) := mul_nonneg hg0 (by linarith)
  have h1 : g * (1 + 2 * g) ≤ (3 + 1 / 2 ^ 40) * uR * (1 + 2 * (1 / 2 ^ 50)) :=
    mul_le_mul hg (by linarith) (by linarith) (mul_nonneg (by norm_num) hu)
  have hGle : g * (1 + 2 * g) ≤ (3 + 1 / 2 ^ 39) * uR := by
    have : (3 + 1 / 2 ^ 40) * uR * (1 + 2 * (1 / 2 ^ 50)) ≤ (3 + 1 / 2 ^ 39) * uR := by unfold uR; norm_num
    linarith
  unfold relR
  set G := g * (1 + 2 * g) with hG
  constructor
  · have h2 : 1 ≤ (1 + r) * (1 + G) := by nlinarith
    have h3 : (1 + r) * (1 + G) * 1 ≤ (1 + r) * (1 + G) * (1 + uR) :=
      mul_le_mul_of_nonneg_left (by linarith) (by linarith)
    linarith
  · have h2 : (1 + r) * (1 + G) ≤ (1 + (3 + 1 / 2 ^ 40) * uR) * (1 + (3 + 1 / 2 ^ 39) * uR) :=
      mul_le_mul (by linarith) (by linarith) (by linarith) (by nlinarith)
    have h3 : (1 + r) * (1 + G) * (1 + uR) ≤ (1 + (3 + 1 / 2 ^ 40) * uR) * (1 + (3 + 1 / 2 ^ 39) * uR) * (1 + uR) :=
      mul_le_mul_of_nonneg_right h2 (by linarith)
    have h4 : (1 + (3 + 1 / 2 ^ 40) * uR) * (1 + (3 + 1 / 2 ^ 39) * uR) * (1 + uR) - 1 ≤ (7 + 1 / 2 ^ 30) * uR := by
      unfold uR; norm_num
    linarith

/-- `2/√3 ≤ 1.1547006` -/
theorem two_div_r3_le : 2 / r3 ≤ 11547006 / 10000000 := by
  have := r3_lo; have hp := r3_pos
  rw [div_le_iff₀ hp]
  nlinarith

/-- the computed `q` against `lx·ρc` -/
theorem eq_simple {ρc lx m em x τ t q : ℝ} (hρ0 : 0 ≤ ρc) (hρ1 : ρc ≤ 1) (hlx0 : 0 ≤ lx) (hlx : lx ≤ 1 + 1 / 2 ^ 52)
    (hm : 0 ≤ m) (hme : |m - lx * ρc| ≤ em)
    (hem : em ≤ uR * (lx * ρc) + (1 + uR) * uR * (2 / r3) * lx + t) (ht0 : 0 ≤ t) (ht : t ≤ tinyR)
    (hx0 : 0 ≤ x) (hx : x ≤ (7 + 1 / 2 ^ 30) * uR) (hτ0 : 0 ≤ τ) (hτ : τ ≤ uR ^ 2)
    (hq : |q - m| ≤ (1 + uR) * (m * (x / 2 + x ^ 2) + τ) + uR * m) :
    |q - lx * ρc| ≤ uR * ((11 / 2 + 1 / 2 ^ 17) * ρc + 11547007 / 10000000) + 31 * uR ^ 2 := by
  have hu := uR_nonneg
  have htt := le_trans ht tinyR_le
  have h23 := two_div_r3_le
  have h23p : 0 ≤ 2 / r3 := div_nonneg (by norm_num) r3_pos.le
  have hX0 : 0 ≤ lx * ρc := mul_nonneg hlx0 hρ0
  have hX1 : lx * ρc ≤ (1 + 1 / 2 ^ 52) * ρc := mul_le_mul_of_nonneg_right hlx hρ0
  -- em ≤ (1+2^-52)·u·ρc + 1.15470065·u
  have hem2 : em ≤ (1 + 1 / 2 ^ 52) * (uR * ρc) + 115470065 / 100000000 * uR := by
    have h1 : uR * (lx * ρc) ≤ uR * ((1 + 1 / 2 ^ 52) * ρc) := mul_le_mul_of_nonneg_left hX1 hu
    have h2 : (1 + uR) * uR * (2 / r3) * lx ≤ (1 + uR) * uR * (11547006 / 10000000) * (1 + 1 / 2 ^ 52) :=
      mul_le_mul (mul_le_mul_of_nonneg_left h23 (mul_nonneg (by linarith) hu)) hlx hlx0
        (mul_nonneg (mul_nonneg (by linarith) hu) (by norm_num))
    have h3 : (1 + uR) * uR * (11547006 / 10000000) * (1 + 1 / 2 ^ 52) + 1 / 2 ^ 200 * uR ^ 2
        ≤ 115470065 / 100000000 * uR := by unfold uR; norm_num
    linarith
  have hem0 : 0 ≤ em := le_trans (abs_nonneg _) hme
  -- m ≤ ρc + 6u
  have hm2 : m ≤ ρc + 6 * uR := by
    have := (abs_le.mp hme).2
    have h1 : (1 + 1 / 2 ^ 52) * ρc ≤ ρc + 1 / 2 ^ 52 := by nlinarith
    have h2 : (1 + 1 / 2 ^ 52) * (uR * ρc) ≤ 2 * uR := by
      have : uR * ρc ≤ uR * 1 := mul_le_mul_of_nonneg_left hρ1 hu
      nlinarith
    have h3 : (1 : ℝ) / 2 ^ 52 = 2 * uR := by unfold uR; norm_num
    linarith
  -- x/2 + x² ≤ (3.5 + 2^-29)u + 50u² ≤ (3.5+2^-20)u
  have hxx : x / 2 + x ^ 2 ≤ (7 / 2 + 1 / 2 ^ 20) * uR := by
    have h1 : x ^ 2 ≤ ((7 + 1 / 2 ^ 30) * uR) ^ 2 := pow_le_pow_left₀ hx0 hx 2
    have h2 : ((7 + 1 / 2 ^ 30) * uR) ^ 2 ≤ 1 / 2 ^ 40 * uR := by unfold uR; norm_num
    linarith
  have hxx0 : 0 ≤ x / 2 + x ^ 2 := add_nonneg (by linarith) (sq_nonneg x)
  -- dq
  have hdq : (1 + uR) * (m * (x / 2 + x ^ 2) + τ) + uR * m ≤ (9 / 2 + 1 / 2 ^ 18) * uR * ρc + 29 * uR ^ 2 := by
    have h1 : m * (x / 2 + x ^ 2) ≤ (ρc + 6 * uR) * ((7 / 2 + 1 / 2 ^ 20) * uR) :=
      mul_le_mul hm2 hxx hxx0 (by nlinarith)
    have h2 : (1 + uR) * (m * (x / 2 + x ^ 2) + τ) ≤ (1 + uR) * ((ρc + 6 * uR) * ((7 / 2 + 1 / 2 ^ 20) * uR) + uR ^ 2) :=
      mul_le_mul_of_nonneg_left (by linarith) (by linarith)
    have h3 : uR * m ≤ uR * (ρc + 6 * uR) := mul_le_mul_of_nonneg_left hm2 hu
    have e : (1 + uR) * ((ρc + 6 * uR) * ((7 / 2 + 1 / 2 ^ 20) * uR) + uR ^ 2) + uR * (ρc + 6 * uR)
        = ((1 + uR) * (7 / 2 + 1 / 2 ^ 20) + 1) * (uR * ρc)
          + ((1 + uR) * (6 * (7 / 2 + 1 / 2 ^ 20) + 1) + 6) * uR ^ 2 := by ring
    have c1 : (1 + uR) * (7 / 2 + 1 / 2 ^ 20) + 1 ≤ 9 / 2 + 1 / 2 ^ 18 := by unfold uR; norm_num
    have c2 : (1 + uR) * (6 * (7 / 2 + 1 / 2 ^ 20) + 1) + 6 ≤ 29 := by unfold uR; norm_num
    have m1 := mul_le_mul_of_nonneg_right c1 (mul_nonneg hu hρ0)
    have m2 := mul_le_mul_of_nonneg_right c2 (sq_nonneg uR)
    nlinarith
  have h1 : |q - lx * ρc| ≤ |q - m| + |m - lx * ρc| := abs_sub_le _ _ _
  have c3 : (9 / 2 + 1 / 2 ^ 18 : ℝ) + (1 + 1 / 2 ^ 52) ≤ 11 / 2 + 1 / 2 ^ 17 := by norm_num
  have m3 := mul_le_mul_of_nonneg_right c3 (mul_nonneg hu hρ0)
  nlinarith

/-- `E2 ≤ u·((11+2^-16)·ρc·β + 2.3094014·β + (3+2^-40)·β²) + 160·u²·β + 45·u²` -/
theorem e2_simple {ρc β eq e : ℝ} (hρ0 : 0 ≤ ρc) (hρ1 : ρc ≤ 1) (hβ0 : 0 ≤ β) (hβ1 : β ≤ 2)
    (he0 : 0 ≤ e) (he : e ≤ tinyR) (heq0 : 0 ≤ eq)
    (heq : eq ≤ uR * ((11 / 2 + 1 / 2 ^ 17) * ρc + 11547007 / 10000000) + 31 * uR ^ 2) :
    relT2 uR * ((β + eq) * (β + eq)) + e + eq * (2 * β + eq)
      ≤ uR * ((11 + 1 / 2 ^ 16) * (ρc * β) + 23094014 / 10000000 * β + (3 + 1 / 2 ^ 40) * β ^ 2)
        + 160 * uR ^ 2 * β + 45 * uR ^ 2 := by
  have hu := uR_nonneg
  have hee := le_trans he tinyR_le
  have hr := relT2_le
  have hr0 := relT2_nonneg
  -- eq ≤ 6.66 u
  have heq2 : eq ≤ 666 / 100 * uR := by
    have h1 : (11 / 2 + 1 / 2 ^ 17) * ρc ≤ (11 / 2 + 1 / 2 ^ 17) * 1 := mul_le_mul_of_nonneg_left hρ1 (by norm_num)
    have h2 : uR * ((11 / 2 + 1 / 2 ^ 17) * ρc + 11547007 / 10000000) ≤ uR * ((11 / 2 + 1 / 2 ^ 17) * 1 + 11547007 / 10000000) :=
      mul_le_mul_of_nonneg_left (by linarith) hu
    have h3 : uR * ((11 / 2 + 1 / 2 ^ 17) * 1 + 11547007 / 10000000) + 31 * uR ^ 2 ≤ 666 / 100 * uR := by
      unfold uR; norm_num
    linarith
  have heqsq : eq * eq ≤ (666 / 100 * uR) * (666 / 100 * uR) := mul_le_mul heq2 heq2 heq0 (mul_nonneg (by norm_num) hu)
  -- (β+eq)² ≤ β² + 13.32 u β + 44.4u²
  have hsq : (β + eq) * (β + eq) ≤ β ^ 2 + 1332 / 100 * uR * β + 444 / 10 * uR ^ 2 := by
    have h1 : β * eq ≤ β * (666 / 100 * uR) := mul_le_mul_of_nonneg_left heq2 hβ0
    nlinarith
  have hsq0 : 0 ≤ (β + eq) * (β + eq) := mul_self_nonneg _
  have hterm1 : relT2 uR * ((β + eq) * (β + eq))
      ≤ (3 + 1 / 2 ^ 40) * uR * (β ^ 2 + 1332 / 100 * uR * β + 444 / 10 * uR ^ 2) :=
    mul_le_mul hr hsq hsq0 (mul_nonneg (by norm_num) hu)
  have hterm2 : eq * (2 * β) ≤ (uR * ((11 / 2 + 1 / 2 ^ 17) * ρc + 11547007 / 10000000) + 31 * uR ^ 2) * (2 * β) :=
    mul_le_mul_of_nonneg_right heq (by linarith)
  have e1 : (3 + 1 / 2 ^ 40) * uR * (β ^ 2 + 1332 / 100 * uR * β + 444 / 10 * uR ^ 2)
      = (3 + 1 / 2 ^ 40) * (uR * β ^ 2) + (3 + 1 / 2 ^ 40) * (1332 / 100) * (uR ^ 2 * β)
        + (3 + 1 / 2 ^ 40) * (444 / 10) * uR ^ 3 := by ring
  have e2 : (uR * ((11 / 2 + 1 / 2 ^ 17) * ρc + 11547007 / 10000000) + 31 * uR ^ 2) * (2 * β)
      = (11 + 1 / 2 ^ 16) * (uR * (ρc * β)) + 23094014 / 10000000 * (uR * β) + 62 * (uR ^ 2 * β) := by ring
  have hu3 : uR ^ 3 ≤ 1 / 2 ^ 50 * uR ^ 2 := by unfold uR; norm_num
  have c1 : ((3 + 1 / 2 ^ 40) * (1332 / 100) + 62 : ℝ) ≤ 160 := by norm_num
  have m1 := mul_le_mul_of_nonneg_right c1 (mul_nonneg (sq_nonneg uR) hβ0)
  have e3 : eq * (2 * β + eq) = eq * (2 * β) + eq * eq := by ring
  have c2 : (666 / 100 * uR) * (666 / 100 * uR) = 443556 / 10000 * uR ^ 2 := by ring
  have huu : 0 ≤ uR ^ 2 := sq_nonneg _
  nlinarith


/-! ### stage C : from the computed normal `c` to the true normal -/

/-- the bound for the angle between the computed and the exact normal: `(1+2√3)(1+2^-31)·u` -/
noncomputable def theta0 : ℝ := (1 + 2 * r3) * (1 + 1 / 2 ^ 31) * uR

theorem theta0_pos : 0 < theta0 := by
  unfold theta0
  have := r3_pos; have := uR_pos
  positivity

theorem theta0_le : theta0 ≤ 44642 / 10000 * uR := by
  unfold theta0
  have h := r3_hi
  have hu := uR_nonneg
  have : (1 + 2 * r3) * (1 + 1 / 2 ^ 31) ≤ 44642 / 10000 := by nlinarith
  exact mul_le_mul_of_nonneg_right this hu

theorem theta0_sq_le : theta0 ^ 2 ≤ 1993 / 100 * uR ^ 2 := by
  have h := theta0_le
  have h0 := theta0_pos.le
  have : theta0 ^ 2 ≤ (44642 / 10000 * uR) ^ 2 := pow_le_pow_left₀ h0 h 2
  nlinarith [sq_nonneg uR]

/-- `E1` in terms of the TRUE `a = |σ|` -/
theorem e1_in_a {a A : ℝ} (ha0 : 0 ≤ a) (ha1 : a ≤ 1) (hA0 : 0 ≤ A) (hA : A ≤ a + theta0) :
    uR * ((3 + 1 / 2 ^ 38) * A + (8 + 1 / 2 ^ 20) * A ^ 2) + 52 * uR ^ 2 * A + 7 * uR ^ 2
      ≤ uR * ((3 + 1 / 2 ^ 38) * a + (8 + 1 / 2 ^ 20) * a ^ 2) + 124 * uR ^ 2 * a + 205 / 10 * uR ^ 2 := by
  have hu := uR_nonneg
  have ht := theta0_le
  have ht0 := theta0_pos.le
  have ht2 := theta0_sq_le
  have hA2 : A ^ 2 ≤ a ^ 2 + 2 * a * theta0 + theta0 ^ 2 := by nlinarith
  have h1 : (8 + 1 / 2 ^ 20) * A ^ 2 ≤ (8 + 1 / 2 ^ 20) * (a ^ 2 + 2 * a * theta0 + theta0 ^ 2) :=
    mul_le_mul_of_nonneg_left hA2 (by norm_num)
  have h2 : (3 + 1 / 2 ^ 38) * A ≤ (3 + 1 / 2 ^ 38) * (a + theta0) := mul_le_mul_of_nonneg_left hA (by norm_num)
  have h3 : uR * ((3 + 1 / 2 ^ 38) * A + (8 + 1 / 2 ^ 20) * A ^ 2)
      ≤ uR * ((3 + 1 / 2 ^ 38) * (a + theta0) + (8 + 1 / 2 ^ 20) * (a ^ 2 + 2 * a * theta0 + theta0 ^ 2)) :=
    mul_le_mul_of_nonneg_left (by linarith) hu
  have h4 : 52 * uR ^ 2 * A ≤ 52 * uR ^ 2 * (a + theta0) := mul_le_mul_of_nonneg_left hA (by positivity)
  -- products with theta0
  have p1 : uR * theta0 ≤ 44642 / 10000 * uR ^ 2 := by nlinarith
  have p2 : uR * (a * theta0) ≤ 44642 / 10000 * (uR ^ 2 * a) := by
    have : a * theta0 ≤ a * (44642 / 10000 * uR) := mul_le_mul_of_nonneg_left ht ha0
    nlinarith
  have p3 : uR * theta0 ^ 2 ≤ 1 / 2 ^ 40 * uR ^ 2 := by
    have : uR * theta0 ^ 2 ≤ uR * (1993 / 100 * uR ^ 2) := mul_le_mul_of_nonneg_left ht2 hu
    have : uR * (1993 / 100 * uR ^ 2) ≤ 1 / 2 ^ 40 * uR ^ 2 := by unfold uR; norm_num
    linarith
  have p4 : uR ^ 2 * theta0 ≤ 1 / 2 ^ 40 * uR ^ 2 := by
    have : uR ^ 2 * theta0 ≤ uR ^ 2 * (44642 / 10000 * uR) := mul_le_mul_of_nonneg_left ht (sq_nonneg _)
    have : uR ^ 2 * (44642 / 10000 * uR) ≤ 1 / 2 ^ 40 * uR ^ 2 := by unfold uR; norm_num
    linarith
  have e1 : uR * ((3 + 1 / 2 ^ 38) * (a + theta0) + (8 + 1 / 2 ^ 20) * (a ^ 2 + 2 * a * theta0 + theta0 ^ 2))
      = uR * ((3 + 1 / 2 ^ 38) * a + (8 + 1 / 2 ^ 20) * a ^ 2) + (3 + 1 / 2 ^ 38) * (uR * theta0)
        + (8 + 1 / 2 ^ 20) * 2 * (uR * (a * theta0)) + (8 + 1 / 2 ^ 20) * (uR * theta0 ^ 2) := by ring
  have e2 : 52 * uR ^ 2 * (a + theta0) = 52 * (uR ^ 2 * a) + 52 * (uR ^ 2 * theta0) := by ring
  have hua : 0 ≤ uR ^ 2 * a := mul_nonneg (sq_nonneg _) ha0
  have huu : 0 ≤ uR ^ 2 := sq_nonneg _
  nlinarith


/-- `E2` in terms of the TRUE `b = 1 − ρ` (and `a`) -/
theorem e2_in_b {a b ρc β dρ : ℝ} (ha0 : 0 ≤ a) (ha1 : a ≤ 1) (hb0 : 0 ≤ b) (hb1 : b ≤ 1)
    (hρ0 : 0 ≤ ρc) (hρ1 : ρc ≤ 1) (hd0 : 0 ≤ dρ) (hρc : ρc ≤ (1 - b) + dρ)
    (hd : dρ ≤ 44642 / 10000 * uR * a + 10 * uR ^ 2)
    (hβ0 : 0 ≤ β) (hβ : β ≤ b + dρ + 20001 / 10000 * uR) :
    uR * ((11 + 1 / 2 ^ 16) * (ρc * β) + 23094014 / 10000000 * β + (3 + 1 / 2 ^ 40) * β ^ 2)
        + 160 * uR ^ 2 * β + 45 * uR ^ 2
      ≤ uR * ((11 + 1 / 2 ^ 16) * ((1 - b) * b) + 23094014 / 10000000 * b + (3 + 1 / 2 ^ 40) * b ^ 2)
        + 109 * uR ^ 2 * a + 200 * uR ^ 2 * b + 717 / 10 * uR ^ 2 := by
  have hu := uR_nonneg
  have huu : 0 ≤ uR ^ 2 := sq_nonneg _
  set ζ := dρ + 20001 / 10000 * uR with hζ
  have hζ0 : 0 ≤ ζ := by rw [hζ]; have := mul_nonneg (by norm_num : (0:ℝ) ≤ 20001 / 10000) hu; linarith
  -- D := 4.4642·u·a + 10u²
  have hua : uR * a ≤ uR := by nlinarith
  have hdU : dρ ≤ 447 / 100 * uR := by
    have : 10 * uR ^ 2 ≤ 1 / 2 ^ 40 * uR := by unfold uR; norm_num
    nlinarith
  have hζU : ζ ≤ 648 / 100 * uR := by rw [hζ]; linarith
  -- ρc β ≤ (1−b) b + dρ + ζ
  have hρβ : ρc * β ≤ (1 - b) * b + dρ + ζ := by
    have h1 : ρc * β ≤ ρc * (b + ζ) := mul_le_mul_of_nonneg_left (by rw [hζ]; linarith) hρ0
    have h2 : ρc * b ≤ ((1 - b) + dρ) * b := mul_le_mul_of_nonneg_right hρc hb0
    have h3 : ρc * ζ ≤ 1 * ζ := mul_le_mul_of_nonneg_right hρ1 hζ0
    have h4 : dρ * b ≤ dρ * 1 := mul_le_mul_of_nonneg_left hb1 hd0
    nlinarith
  have hβ' : β ≤ b + ζ := by rw [hζ]; linarith
  have hβ2 : β ^ 2 ≤ b ^ 2 + 2 * b * ζ + ζ ^ 2 := by nlinarith
  have hζ2 : ζ ^ 2 ≤ 42 * uR ^ 2 := by
    have : ζ ^ 2 ≤ (648 / 100 * uR) ^ 2 := pow_le_pow_left₀ hζ0 hζU 2
    nlinarith
  have hbζ : b * ζ ≤ 648 / 100 * (uR * b) := by
    have := mul_le_mul_of_nonneg_left hζU hb0; linarith
  -- first-order part
  have h1 : uR * ((11 + 1 / 2 ^ 16) * (ρc * β) + 23094014 / 10000000 * β + (3 + 1 / 2 ^ 40) * β ^ 2)
      ≤ uR * ((11 + 1 / 2 ^ 16) * ((1 - b) * b + dρ + ζ) + 23094014 / 10000000 * (b + ζ)
          + (3 + 1 / 2 ^ 40) * (b ^ 2 + 2 * b * ζ + ζ ^ 2)) := by
    apply mul_le_mul_of_nonneg_left _ hu
    have a1 := mul_le_mul_of_nonneg_left hρβ (by norm_num : (0:ℝ) ≤ 11 + 1 / 2 ^ 16)
    have a2 := mul_le_mul_of_nonneg_left hβ' (by norm_num : (0:ℝ) ≤ 23094014 / 10000000)
    have a3 := mul_le_mul_of_nonneg_left hβ2 (by norm_num : (0:ℝ) ≤ 3 + 1 / 2 ^ 40)
    linarith
  have h2 : 160 * uR ^ 2 * β ≤ 160 * uR ^ 2 * (b + ζ) := mul_le_mul_of_nonneg_left hβ' (by positivity)
  -- second-order pieces
  have q1 : uR * dρ ≤ 44642 / 10000 * (uR ^ 2 * a) + 10 * uR ^ 3 := by
    have := mul_le_mul_of_nonneg_left hd hu; nlinarith
  have q2 : uR * ζ ≤ 44642 / 10000 * (uR ^ 2 * a) + 20001 / 10000 * uR ^ 2 + 10 * uR ^ 3 := by
    rw [hζ]; nlinarith
  have q3 : uR * (b * ζ) ≤ 648 / 100 * (uR ^ 2 * b) := by
    have := mul_le_mul_of_nonneg_left hbζ hu; nlinarith
  have q4 : uR * ζ ^ 2 ≤ 1 / 2 ^ 40 * uR ^ 2 := by
    have : uR * ζ ^ 2 ≤ uR * (42 * uR ^ 2) := mul_le_mul_of_nonneg_left hζ2 hu
    have : uR * (42 * uR ^ 2) ≤ 1 / 2 ^ 40 * uR ^ 2 := by unfold uR; norm_num
    linarith
  have q5 : uR ^ 2 * ζ ≤ 1 / 2 ^ 40 * uR ^ 2 := by
    have : uR ^ 2 * ζ ≤ uR ^ 2 * (648 / 100 * uR) := mul_le_mul_of_nonneg_left hζU huu
    have : uR ^ 2 * (648 / 100 * uR) ≤ 1 / 2 ^ 40 * uR ^ 2 := by unfold uR; norm_num
    linarith
  have hu3 : uR ^ 3 ≤ 1 / 2 ^ 50 * uR ^ 2 := by unfold uR; norm_num
  have e1 : uR * ((11 + 1 / 2 ^ 16) * ((1 - b) * b + dρ + ζ) + 23094014 / 10000000 * (b + ζ)
          + (3 + 1 / 2 ^ 40) * (b ^ 2 + 2 * b * ζ + ζ ^ 2))
      = uR * ((11 + 1 / 2 ^ 16) * ((1 - b) * b) + 23094014 / 10000000 * b + (3 + 1 / 2 ^ 40) * b ^ 2)
        + (11 + 1 / 2 ^ 16) * (uR * dρ) + ((11 + 1 / 2 ^ 16) + 23094014 / 10000000) * (uR * ζ)
        + (3 + 1 / 2 ^ 40) * 2 * (uR * (b * ζ)) + (3 + 1 / 2 ^ 40) * (uR * ζ ^ 2) := by ring
  have e2 : 160 * uR ^ 2 * (b + ζ) = 160 * (uR ^ 2 * b) + 160 * (uR ^ 2 * ζ) := by ring
  have hua2 : 0 ≤ uR ^ 2 * a := mul_nonneg huu ha0
  have hub2 : 0 ≤ uR ^ 2 * b := mul_nonneg huu hb0
  nlinarith


/-! ### stage D : comparison with the documented bound -/

/-- the documented bound `minUpdateInteriorDistanceMaxError` as a function of `b = dist/2`, in exact arithmetic
    (`dblEpsilon = 2u`, `√3` exact) -/
noncomputable def docInterior (b : ℝ) : ℝ :=
  ((5 / 2 + 2 * r3 + 17 / 2 * Real.sqrt (b * (2 - b))) * Real.sqrt (b * (2 - b))
    + (2 + 2 * r3 / 3 + 13 / 2 * (1 - b)) * b + (23 + 16 / r3) * (2 * uR)) * (2 * uR)

/-- the bound that the analysis yields, as a polynomial in `a = √(b(2−b))` and `b` -/
noncomputable def provedInterior (a b : ℝ) : ℝ :=
  uR * ((3 + 1 / 2 ^ 38 + 2 * ((1 + 2 * r3) * (1 + 1 / 2 ^ 31))) * a + (8 + 1 / 2 ^ 20) * a ^ 2
      + (11 + 1 / 2 ^ 16) * ((1 - b) * b) + 83096 / 10000 * b + (3 + 1 / 2 ^ 40) * b ^ 2)
    + 263 * uR ^ 2 * a + 233 * uR ^ 2 * b + 1163 / 10 * uR ^ 2

theorem sixteen_div_r3_ge : 92376 / 10000 ≤ 16 / r3 := by
  have := r3_hi; have hp := r3_pos
  rw [le_div_iff₀ hp]
  nlinarith

theorem proved_le_doc {a b : ℝ} (ha0 : 0 ≤ a) (hb0 : 0 ≤ b) (hb1 : b ≤ 1) (hab : a ^ 2 = b * (2 - b)) :
    provedInterior a b ≤ docInterior b := by
  have hsq : Real.sqrt (b * (2 - b)) = a := by
    rw [← hab]; exact Real.sqrt_sq ha0
  unfold docInterior provedInterior
  rw [hsq]
  have hu := uR_nonneg
  have hup := uR_pos
  have huu : 0 ≤ uR ^ 2 := sq_nonneg _
  have hlo := r3_lo
  have hhi := r3_hi
  have h16 := sixteen_div_r3_ge
  -- K·a ≤ K²/4 + 2b
  set K : ℝ := 1 / 2 ^ 38 + 2 * ((1 + 2 * r3) * (1 / 2 ^ 31)) + 263 * uR with hK
  have hK0 : 0 ≤ K := by rw [hK]; have := r3_pos; positivity
  have hK1 : K ≤ 1 / 2 ^ 27 := by
    rw [hK]
    have : 263 * uR ≤ 1 / 2 ^ 44 := by unfold uR; norm_num
    nlinarith
  have hKa : K * a ≤ K ^ 2 / 4 + 2 * b := by
    have h1 : 0 ≤ (a - K / 2) ^ 2 := sq_nonneg _
    have h2 : a ^ 2 ≤ 2 * b := by rw [hab]; nlinarith
    nlinarith
  have hK2 : K ^ 2 / 4 ≤ 1 / 2 ^ 3 * uR := by
    have : K ^ 2 ≤ (1 / 2 ^ 27) ^ 2 := pow_le_pow_left₀ hK0 hK1 2
    have : ((1 : ℝ) / 2 ^ 27) ^ 2 / 4 ≤ 1 / 2 ^ 3 * uR := by unfold uR; norm_num
    linarith
  have hbb : b ^ 2 ≤ b := by nlinarith
  -- everything in monomials  u·a, u·a², u·b, u·b², u²
  have e1 : uR * (K * a) ≤ uR * (K ^ 2 / 4 + 2 * b) := mul_le_mul_of_nonneg_left hKa hu
  have hub : 0 ≤ uR * b := mul_nonneg hu hb0
  have hubb : uR * b ^ 2 ≤ uR * b := mul_le_mul_of_nonneg_left hbb hu
  have huub : uR ^ 2 * b ≤ 1 / 2 ^ 53 * (uR * b) := by
    have : uR ^ 2 * b = uR * (uR * b) := by ring
    rw [this]
    exact mul_le_mul_of_nonneg_right uR_small hub
  have hr3b : 23094010 / 10000000 * (uR * b) ≤ 4 * r3 / 3 * (uR * b) :=
    mul_le_mul_of_nonneg_right (by linarith) hub
  have h16u : 92376 / 10000 * uR ^ 2 ≤ 16 / r3 * uR ^ 2 := mul_le_mul_of_nonneg_right h16 huu
  have hKu : uR * (K ^ 2 / 4) ≤ 1 / 2 ^ 3 * uR ^ 2 := by
    have := mul_le_mul_of_nonneg_left hK2 hu
    nlinarith
  have ha2 : uR * a ^ 2 = uR * (2 * b) - uR * b ^ 2 := by rw [hab]; ring
  -- expand both sides
  have eL : uR * ((3 + 1 / 2 ^ 38 + 2 * ((1 + 2 * r3) * (1 + 1 / 2 ^ 31))) * a + (8 + 1 / 2 ^ 20) * a ^ 2
      + (11 + 1 / 2 ^ 16) * ((1 - b) * b) + 83096 / 10000 * b + (3 + 1 / 2 ^ 40) * b ^ 2)
    + 263 * uR ^ 2 * a + 233 * uR ^ 2 * b + 1163 / 10 * uR ^ 2
      = (5 + 4 * r3) * (uR * a) + uR * (K * a) + (8 + 1 / 2 ^ 20) * (uR * a ^ 2)
        + (11 + 1 / 2 ^ 16) * (uR * b) - (11 + 1 / 2 ^ 16) * (uR * b ^ 2) + 83096 / 10000 * (uR * b)
        + (3 + 1 / 2 ^ 40) * (uR * b ^ 2) + 233 * (uR ^ 2 * b) + 1163 / 10 * uR ^ 2 := by
    rw [hK]; ring
  have eR : ((5 / 2 + 2 * r3 + 17 / 2 * a) * a + (2 + 2 * r3 / 3 + 13 / 2 * (1 - b)) * b + (23 + 16 / r3) * (2 * uR)) * (2 * uR)
      = (5 + 4 * r3) * (uR * a) + 17 * (uR * a ^ 2) + 4 * (uR * b) + 4 * r3 / 3 * (uR * b)
        + 13 * (uR * b) - 13 * (uR * b ^ 2) + 92 * uR ^ 2 + 4 * (16 / r3 * uR ^ 2) := by ring
  rw [eL, eR, ha2]
  nlinarith


/-! ### stage E : assembly -/

/-- the simplified bound of `T1` (output of `t1_core` + `e1_simple`) -/
noncomputable def e1Bound (A : ℝ) : ℝ :=
  uR * ((3 + 1 / 2 ^ 38) * A + (8 + 1 / 2 ^ 20) * A ^ 2) + 52 * uR ^ 2 * A + 7 * uR ^ 2

/-- the simplified bound of `T2` (output of `t2_core` + `e2_simple`) -/
noncomputable def e2Bound (ρc β : ℝ) : ℝ :=
  uR * ((11 + 1 / 2 ^ 16) * (ρc * β) + 23094014 / 10000000 * β + (3 + 1 / 2 ^ 40) * β ^ 2)
    + 160 * uR ^ 2 * β + 45 * uR ^ 2

theorem delta0_le_2u : delta0 ≤ 2 * uR := by unfold delta0 uR; norm_num

/-- the polynomial bookkeeping behind `interior_scalar` -/
theorem collect_final {a b dρ dist G Gc' : ℝ} (ha0 : 0 ≤ a) (ha1 : a ≤ 1) (hb0 : 0 ≤ b) (hb1 : b ≤ 1)
    (haa : a ^ 2 = b * (2 - b)) (hd0 : 0 ≤ dρ)
    (hdρa : dρ ≤ 44642 / 10000 * uR * a + 10 * uR ^ 2) (hdir : 2 * dρ ≤ 2 * theta0 * a + 20 * uR ^ 2)
    (hdist : |dist - Gc'| ≤ (1 + uR) *
        ((uR * ((3 + 1 / 2 ^ 38) * a + (8 + 1 / 2 ^ 20) * a ^ 2) + 124 * uR ^ 2 * a + 205 / 10 * uR ^ 2)
        + (uR * ((11 + 1 / 2 ^ 16) * ((1 - b) * b) + 23094014 / 10000000 * b + (3 + 1 / 2 ^ 40) * b ^ 2)
            + 109 * uR ^ 2 * a + 200 * uR ^ 2 * b + 717 / 10 * uR ^ 2)) + uR * Gc')
    (hGc'le : Gc' ≤ 4 * uR ^ 2 + 2 * (1 + 2 * uR) * (b + dρ))
    (hGG : |Gc' - G| ≤ 4 * uR ^ 2 + 2 * (2 * uR) * (b + dρ) + 2 * dρ) :
    |dist - G| ≤ provedInterior a b := by
  have hu := uR_nonneg
  have huu : 0 ≤ uR ^ 2 := sq_nonneg _
  have htot : |dist - G| ≤ |dist - Gc'| + |Gc' - G| := abs_sub_le _ _ _
  set E1a := uR * ((3 + 1 / 2 ^ 38) * a + (8 + 1 / 2 ^ 20) * a ^ 2) + 124 * uR ^ 2 * a + 205 / 10 * uR ^ 2 with hE1a
  set E2b := uR * ((11 + 1 / 2 ^ 16) * ((1 - b) * b) + 23094014 / 10000000 * b + (3 + 1 / 2 ^ 40) * b ^ 2)
        + 109 * uR ^ 2 * a + 200 * uR ^ 2 * b + 717 / 10 * uR ^ 2 with hE2b
  have hbb : b ^ 2 ≤ b := by nlinarith
  have h1bb : (1 - b) * b ≤ b := by nlinarith
  have haa2 : a ^ 2 ≤ 2 * b := by rw [haa]; nlinarith
  have hu3 : uR ^ 3 ≤ 1 / 2 ^ 50 * uR ^ 2 := by unfold uR; norm_num
  have hu30 : 0 ≤ uR ^ 3 := by have := uR_nonneg; positivity
  have hua2 : 0 ≤ uR ^ 2 * a := mul_nonneg huu ha0
  have hub2 : 0 ≤ uR ^ 2 * b := mul_nonneg huu hb0
  have hub : 0 ≤ uR * b := mul_nonneg hu hb0
  have huE : uR * (E1a + E2b) ≤ 301 / 100 * (uR ^ 2 * a) + 325 / 10 * (uR ^ 2 * b) + 1 / 2 ^ 30 * uR ^ 2 := by
    have e : uR * (E1a + E2b)
        = (3 + 1 / 2 ^ 38) * (uR ^ 2 * a) + (8 + 1 / 2 ^ 20) * (uR ^ 2 * a ^ 2)
          + (11 + 1 / 2 ^ 16) * (uR ^ 2 * ((1 - b) * b)) + 23094014 / 10000000 * (uR ^ 2 * b)
          + (3 + 1 / 2 ^ 40) * (uR ^ 2 * b ^ 2) + 233 * (uR ^ 3 * a) + 200 * (uR ^ 3 * b) + 922 / 10 * uR ^ 3 := by
      rw [hE1a, hE2b]; ring
    rw [e]
    have m1 : uR ^ 2 * a ^ 2 ≤ uR ^ 2 * (2 * b) := mul_le_mul_of_nonneg_left haa2 huu
    have m2 : uR ^ 2 * ((1 - b) * b) ≤ uR ^ 2 * b := mul_le_mul_of_nonneg_left h1bb huu
    have m3 : uR ^ 2 * b ^ 2 ≤ uR ^ 2 * b := mul_le_mul_of_nonneg_left hbb huu
    have m4 : uR ^ 3 * a ≤ uR ^ 3 := mul_le_of_le_one_right hu30 ha1
    have m5 : uR ^ 3 * b ≤ uR ^ 3 := mul_le_of_le_one_right hu30 hb1
    linarith
  have hudρ : uR * dρ ≤ 44642 / 10000 * (uR ^ 2 * a) + 10 * uR ^ 3 := by
    have := mul_le_mul_of_nonneg_left hdρa hu
    have e : uR * (44642 / 10000 * uR * a + 10 * uR ^ 2) = 44642 / 10000 * (uR ^ 2 * a) + 10 * uR ^ 3 := by ring
    linarith
  have huGc : uR * Gc' ≤ uR * (4 * uR ^ 2 + 2 * (1 + 2 * uR) * (b + dρ)) := mul_le_mul_of_nonneg_left hGc'le hu
  have huub : uR ^ 2 * b ≤ 1 / 2 ^ 53 * (uR * b) := by
    have : uR ^ 2 * b = uR * (uR * b) := by ring
    rw [this]; exact mul_le_mul_of_nonneg_right uR_small hub
  have hudρ2 : uR ^ 2 * dρ ≤ 1 / 2 ^ 40 * uR ^ 2 := by
    have : dρ ≤ 1 / 2 ^ 40 := by
      have : 44642 / 10000 * uR * a ≤ 44642 / 10000 * uR * 1 := mul_le_mul_of_nonneg_left ha1 (mul_nonneg (by norm_num) hu)
      have : 44642 / 10000 * uR * 1 + 10 * uR ^ 2 ≤ 1 / 2 ^ 40 := by unfold uR; norm_num
      linarith
    have h2 := mul_le_mul_of_nonneg_left this huu
    linarith
  unfold provedInterior
  have eθ : uR * ((1 + 2 * r3) * (1 + 1 / 2 ^ 31)) = theta0 := by unfold theta0; ring
  have eP : uR * ((3 + 1 / 2 ^ 38 + 2 * ((1 + 2 * r3) * (1 + 1 / 2 ^ 31))) * a + (8 + 1 / 2 ^ 20) * a ^ 2
      + (11 + 1 / 2 ^ 16) * ((1 - b) * b) + 83096 / 10000 * b + (3 + 1 / 2 ^ 40) * b ^ 2)
      = (E1a - 124 * uR ^ 2 * a - 205 / 10 * uR ^ 2) + 2 * theta0 * a
        + (E2b - 109 * uR ^ 2 * a - 200 * uR ^ 2 * b - 717 / 10 * uR ^ 2)
        + (83096 / 10000 - 23094014 / 10000000) * (uR * b) := by
    rw [hE1a, hE2b, ← eθ]; ring
  rw [eP]
  -- remaining: all linear in the monomials
  have eG : uR * (4 * uR ^ 2 + 2 * (1 + 2 * uR) * (b + dρ))
      = 4 * uR ^ 3 + 2 * (uR * b) + 2 * (uR * dρ) + 4 * (uR ^ 2 * b) + 4 * (uR ^ 2 * dρ) := by ring
  have e4 : 2 * (2 * uR) * (b + dρ) = 4 * (uR * b) + 4 * (uR * dρ) := by ring
  have e5 : (1 + uR) * (E1a + E2b) = (E1a + E2b) + uR * (E1a + E2b) := by ring
  rw [eG] at huGc
  rw [e4] at hGG
  rw [e5] at hdist
  linarith

theorem sum_step {u T1 T2 x1 x2 E1 E2 dist : ℝ} (hu : 0 ≤ u) (h1 : |T1 - x1| ≤ E1) (h2 : |T2 - x2| ≤ E2)
    (h0 : 0 ≤ x1 + x2) (hd : Rnd u 0 (T1 + T2) dist) :
    |dist - (x1 + x2)| ≤ (1 + u) * (E1 + E2) + u * (x1 + x2) := by
  have hsum : |T1 + T2 - (x1 + x2)| ≤ E1 + E2 := by
    have e : T1 + T2 - (x1 + x2) = (T1 - x1) + (T2 - x2) := by ring
    rw [e]
    have := abs_add_le (T1 - x1) (T2 - x2)
    linarith
  unfold Rnd at hd
  rw [add_zero] at hd
  have hsumabs : |T1 + T2| ≤ (x1 + x2) + (E1 + E2) := by
    have := abs_sub_abs_le_abs_sub (T1 + T2) (x1 + x2)
    rw [abs_of_nonneg h0] at this; linarith
  have h3 : |dist - (x1 + x2)| ≤ |dist - (T1 + T2)| + |T1 + T2 - (x1 + x2)| := abs_sub_le _ _ _
  have h4 : u * |T1 + T2| ≤ u * ((x1 + x2) + (E1 + E2)) := mul_le_mul_of_nonneg_left hsumabs hu
  have e5 : (1 + u) * (E1 + E2) + u * (x1 + x2) = u * ((x1 + x2) + (E1 + E2)) + (E1 + E2) := by ring
  linarith

theorem gg_step {lx ρc ρ b dρ : ℝ} (hlx : |lx - 1| ≤ delta0) (hbc0 : 0 ≤ 1 - ρc) (hbc : 1 - ρc ≤ b + dρ)
    (hρρ : |ρ - ρc| ≤ dρ) :
    |((lx - 1) ^ 2 + 2 * lx * (1 - ρc)) - (2 - 2 * ρ)| ≤ 4 * uR ^ 2 + 2 * (2 * uR) * (b + dρ) + 2 * dρ ∧
    (lx - 1) ^ 2 + 2 * lx * (1 - ρc) ≤ 4 * uR ^ 2 + 2 * (1 + 2 * uR) * (b + dρ) := by
  have hu := uR_nonneg
  have hδ := delta0_le_2u
  have hδ0 := delta0_nonneg
  obtain ⟨l1, l2⟩ := abs_le.mp hlx
  have hlxsq : (lx - 1) ^ 2 ≤ delta0 ^ 2 := by
    have := sq_le_sq' l1 l2
    linarith
  have hδsq : delta0 ^ 2 ≤ 4 * uR ^ 2 := by
    have := pow_le_pow_left₀ hδ0 hδ 2
    have e : (2 * uR) ^ 2 = 4 * uR ^ 2 := by ring
    linarith
  have hbd0 : 0 ≤ b + dρ := le_trans hbc0 hbc
  constructor
  · have e : ((lx - 1) ^ 2 + 2 * lx * (1 - ρc)) - (2 - 2 * ρ)
        = (lx - 1) ^ 2 + 2 * (lx - 1) * (1 - ρc) + 2 * (ρ - ρc) := by ring
    rw [e]
    have h3 := abs_add_three ((lx - 1) ^ 2) (2 * (lx - 1) * (1 - ρc)) (2 * (ρ - ρc))
    have h4 : |(lx - 1) ^ 2| ≤ 4 * uR ^ 2 := by rw [abs_of_nonneg (sq_nonneg _)]; linarith
    have h5 : |2 * (lx - 1) * (1 - ρc)| ≤ 2 * (2 * uR) * (b + dρ) := by
      rw [abs_mul, abs_mul, abs_of_nonneg hbc0, abs_of_pos (by norm_num : (0:ℝ) < 2)]
      have : |lx - 1| ≤ 2 * uR := le_trans hlx hδ
      exact mul_le_mul (mul_le_mul_of_nonneg_left this (by norm_num)) hbc hbc0
        (mul_nonneg (by norm_num) (mul_nonneg (by norm_num) hu))
    have h6 : |2 * (ρ - ρc)| ≤ 2 * dρ := by
      rw [abs_mul, abs_of_pos (by norm_num : (0:ℝ) < 2)]; linarith
    linarith
  · have : 2 * lx * (1 - ρc) ≤ 2 * (1 + 2 * uR) * (b + dρ) :=
      mul_le_mul (by linarith) hbc hbc0 (mul_nonneg (by norm_num) (by linarith))
    linarith

theorem gc_identity {lx σc ρc : ℝ} (hc : σc ^ 2 + ρc ^ 2 = 1) :
    (lx * σc) * (lx * σc) + (1 - lx * ρc) * (1 - lx * ρc) = (lx - 1) ^ 2 + 2 * lx * (1 - ρc) := by
  have e : (lx * σc) * (lx * σc) + (1 - lx * ρc) * (1 - lx * ρc) - ((lx - 1) ^ 2 + 2 * lx * (1 - ρc))
      = lx ^ 2 * (σc ^ 2 + ρc ^ 2 - 1) := by ring
  rw [hc] at e
  linarith

/-- **Scalar summary of the interior formula.**  `σc, ρc` = sine / cosine of the latitude of `x` w.r.t. the COMPUTED
    normal `c`, `σ, ρ` w.r.t. the TRUE normal, `θ` bounds the chord between the two unit normals; then the computed
    `dist = fl(T1 + T2)` is within `provedInterior |σ| (1−ρ)` of the true squared chord `2 − 2ρ` to the great circle. -/
theorem interior_scalar {lx σc ρc σ ρ θ T1 T2 dist : ℝ}
    (hlx : |lx - 1| ≤ delta0)
    (hc : σc ^ 2 + ρc ^ 2 = 1) (hρc : 0 ≤ ρc) (h1 : σ ^ 2 + ρ ^ 2 = 1) (hρ : 0 ≤ ρ)
    (hθ0 : 0 ≤ θ) (hθ : θ ≤ theta0) (hΔ : 2 - 2 * (ρc * ρ + σc * σ) ≤ θ ^ 2)
    (hT1 : |T1 - (lx * σc) * (lx * σc)| ≤ e1Bound |σc|)
    (hT2 : |T2 - (1 - lx * ρc) * (1 - lx * ρc)| ≤ e2Bound ρc |1 - lx * ρc|)
    (hd : Rnd uR 0 (T1 + T2) dist) :
    |dist - (2 - 2 * ρ)| ≤ provedInterior |σ| (1 - ρ) := by
  have hu := uR_nonneg
  have huu : 0 ≤ uR ^ 2 := sq_nonneg _
  have hδ := delta0_le_2u
  have hδ0 := delta0_nonneg
  have ht0 := theta0_pos.le
  have htl := theta0_le
  have ht2 := theta0_sq_le
  obtain ⟨l1, l2⟩ := abs_le.mp hlx
  have hlx0 : 0 ≤ lx := by have : delta0 ≤ 1 := le_trans delta0_le (by norm_num); linarith
  set a := |σ| with ha
  set b := 1 - ρ with hb
  have ha0 : 0 ≤ a := abs_nonneg _
  have hρ1 : ρ ≤ 1 := by nlinarith [sq_nonneg σ]
  have hρc1 : ρc ≤ 1 := by nlinarith [sq_nonneg σc]
  have hb0 : 0 ≤ b := by rw [hb]; linarith
  have hb1 : b ≤ 1 := by rw [hb]; linarith
  have haa : a ^ 2 = b * (2 - b) := by rw [ha, sq_abs, hb]; nlinarith
  have ha1 : a ≤ 1 := by
    have : a ^ 2 ≤ 1 := by rw [ha, sq_abs]; nlinarith [sq_nonneg ρ]
    nlinarith
  -- change of normal
  have hθh : θ ≤ 1 / 2 := le_trans hθ (le_trans htl (by unfold uR; norm_num))
  obtain ⟨dσ, dρ2⟩ := dir_change hc h1 hθ0 hθh hΔ
  set A := |σc| with hA
  have hA0 : 0 ≤ A := abs_nonneg _
  have hAa : A ≤ a + theta0 := by
    have := abs_sub_abs_le_abs_sub σc σ
    rw [hA, ha]; linarith
  set dρ := |ρc - ρ| with hdρ
  have hd0 : 0 ≤ dρ := abs_nonneg _
  -- 2dρ ≤ 2θ0·a + 20u²
  have hdir : 2 * dρ ≤ 2 * theta0 * a + 20 * uR ^ 2 := by
    have h2 : θ * (a + A) * (1 + θ ^ 2) ≤ theta0 * (2 * a + theta0) * (1 + theta0 ^ 2) := by
      have i1 : θ * (a + A) ≤ theta0 * (2 * a + theta0) :=
        mul_le_mul hθ (by linarith) (by linarith) ht0
      have i2 : 1 + θ ^ 2 ≤ 1 + theta0 ^ 2 := by
        have := pow_le_pow_left₀ hθ0 hθ 2; linarith
      exact mul_le_mul i1 i2 (by positivity) (by positivity)
    have h3 : theta0 * (2 * a + theta0) * (1 + theta0 ^ 2) ≤ 2 * theta0 * a + 20 * uR ^ 2 := by
      -- θ0² ≤ 19.93u², θ0³(2a+θ0) tiny
      have i1 : theta0 * (2 * a + theta0) ≤ 14 * uR := by
        have : theta0 * (2 * a + theta0) ≤ (44642 / 10000 * uR) * (2 * 1 + 1) :=
          mul_le_mul htl (by have : theta0 ≤ 1 := le_trans htl (by unfold uR; norm_num); linarith) (by linarith)
            (mul_nonneg (by norm_num) hu)
        linarith
      have i2 : theta0 * (2 * a + theta0) * theta0 ^ 2 ≤ 14 * uR * (1993 / 100 * uR ^ 2) :=
        mul_le_mul i1 ht2 (sq_nonneg _) (mul_nonneg (by norm_num) hu)
      have i3 : 14 * uR * (1993 / 100 * uR ^ 2) ≤ 1 / 2 ^ 40 * uR ^ 2 := by unfold uR; norm_num
      nlinarith
    rw [hdρ]; rw [ha, hA] at h2; linarith
  have hdρa : dρ ≤ 44642 / 10000 * uR * a + 10 * uR ^ 2 := by
    have : theta0 * a ≤ 44642 / 10000 * uR * a := mul_le_mul_of_nonneg_right htl ha0
    linarith
  have hρcρ : ρc ≤ (1 - b) + dρ := by
    have := (abs_le.mp (le_refl dρ)).2
    have h3 := le_abs_self (ρc - ρ)
    rw [hb]; linarith
  -- β
  set β := |1 - lx * ρc| with hβ
  have hβ0 : 0 ≤ β := abs_nonneg _
  have hβb : β ≤ b + dρ + 20001 / 10000 * uR := by
    have e1 : 1 - lx * ρc = (1 - ρc) - (lx - 1) * ρc := by ring
    have h3 : |1 - lx * ρc| ≤ |1 - ρc| + |(lx - 1) * ρc| := by
      rw [e1]; exact abs_sub _ _
    have h4 : |(lx - 1) * ρc| ≤ delta0 := by
      rw [abs_mul, abs_of_nonneg hρc]
      calc |lx - 1| * ρc ≤ delta0 * 1 := mul_le_mul hlx hρc1 hρc hδ0
        _ = delta0 := mul_one _
    have h5 : |1 - ρc| = 1 - ρc := abs_of_nonneg (by linarith)
    have h6 : ρ - ρc ≤ dρ := by rw [hdρ, abs_sub_comm]; exact le_abs_self _
    rw [hβ, hb]
    have : (2 : ℝ) * uR ≤ 20001 / 10000 * uR := mul_le_mul_of_nonneg_right (by norm_num) hu
    linarith
  -- E1, E2 in a, b
  have hE1 := e1_in_a ha0 ha1 hA0 hAa
  have hE2 := e2_in_b ha0 ha1 hb0 hb1 hρc hρc1 hd0 hρcρ hdρa hβ0 hβb
  unfold e1Bound at hT1
  unfold e2Bound at hT2
  set E1a := uR * ((3 + 1 / 2 ^ 38) * a + (8 + 1 / 2 ^ 20) * a ^ 2) + 124 * uR ^ 2 * a + 205 / 10 * uR ^ 2 with hE1a
  set E2b := uR * ((11 + 1 / 2 ^ 16) * ((1 - b) * b) + 23094014 / 10000000 * b + (3 + 1 / 2 ^ 40) * b ^ 2)
        + 109 * uR ^ 2 * a + 200 * uR ^ 2 * b + 717 / 10 * uR ^ 2 with hE2b
  have hT1' : |T1 - (lx * σc) * (lx * σc)| ≤ E1a := le_trans hT1 hE1
  have hT2' : |T2 - (1 - lx * ρc) * (1 - lx * ρc)| ≤ E2b := le_trans hT2 hE2
  -- the exact value of the formula at the rounded inputs
  have hGid := gc_identity (lx := lx) hc
  have hG0 : 0 ≤ (lx * σc) * (lx * σc) + (1 - lx * ρc) * (1 - lx * ρc) :=
    add_nonneg (mul_self_nonneg _) (mul_self_nonneg _)
  have hdist := sum_step hu hT1' hT2' hG0 hd
  rw [hGid] at hdist
  have hbc : 1 - ρc ≤ b + dρ := by
    have h6 : ρ - ρc ≤ dρ := by rw [hdρ, abs_sub_comm]; exact le_abs_self _
    rw [hb]; linarith only [h6]
  have hbc0 : 0 ≤ 1 - ρc := sub_nonneg.mpr hρc1
  have hρρ : |ρ - ρc| ≤ dρ := by rw [hdρ, abs_sub_comm]
  obtain ⟨hGG, hGc'le⟩ := gg_step hlx hbc0 hbc hρρ
  exact collect_final ha0 ha1 hb0 hb1 haa hd0 hdρa hdir hdist hGc'le hGG

end S2Proofs.C17Err
