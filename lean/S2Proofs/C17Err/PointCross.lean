/-
  C17Err.PointCross — the float `Point.PointCross(a, b) = fl( fl(a+b) × fl(b−a) )` against the exact
  `C = (a+b) × (b−a) = 2·(a × b)`:

      |c − C| ≤ η·|C| ,   η = u + (1+u)((1+u)³−1)·(2/√3)·(1+2^-32) + tiny  ≈ (1 + 2√3)·u

  for float points within `δ0` of unit length whose edge is not degenerate (`EdgeOK : |C|² ≥ 2^-68`, i.e. the edge
  is longer than ≈ 3·10^-11 rad and not within ≈ 3·10^-11 rad of antipodal).  In particular the degenerate branch
  (`ortho`) of `PointCross` is not taken.
-/
import S2Proofs.C17Err.VecCore
import S2Proofs.C17Err.TrueDist
import S2Proofs.C17Err.Ops2
import S2Proofs.C17Err.ScalarFinal

set_option linter.unusedSimpArgs false
set_option linter.unusedVariables false

namespace S2Proofs.C17Err
open S2 S2.Exact S2.EdgeNum S2Proofs.F64Order S2Proofs.FloatErr R3

/-! ### one component, tight -/

/-- `(1+u)·((1+u)³ − 1) ≈ 3u` -/
noncomputable def kk (u : ℝ) : ℝ := (1 + u) * ((1 + u) ^ 3 - 1)

theorem prod_pert {u A D X Y : ℝ} (hu : 0 ≤ u) (rX : Rnd u 0 A X) (rY : Rnd u 0 D Y) :
    |X * Y - A * D| ≤ (2 * u + u ^ 2) * |A * D| := by
  unfold Rnd at rX rY
  rw [add_zero] at rX rY
  have e : X * Y - A * D = (X - A) * D + A * (Y - D) + (X - A) * (Y - D) := by ring
  rw [e]
  have h := abs_add_three ((X - A) * D) (A * (Y - D)) ((X - A) * (Y - D))
  rw [abs_mul, abs_mul, abs_mul] at h
  have h1 : |X - A| * |D| ≤ u * |A| * |D| := mul_le_mul_of_nonneg_right rX (abs_nonneg _)
  have h2 : |A| * |Y - D| ≤ |A| * (u * |D|) := mul_le_mul_of_nonneg_left rY (abs_nonneg _)
  have h3 : |X - A| * |Y - D| ≤ (u * |A|) * (u * |D|) :=
    mul_le_mul rX rY (abs_nonneg _) (mul_nonneg hu (abs_nonneg _))
  rw [abs_mul]
  nlinarith

theorem comp_tight {u e A1 A2 D1 D2 X1 X2 Y1 Y2 p p' x : ℝ} (hu : 0 ≤ u) (he : 0 ≤ e)
    (rX1 : Rnd u 0 A1 X1) (rX2 : Rnd u 0 A2 X2) (rY1 : Rnd u 0 D1 Y1) (rY2 : Rnd u 0 D2 Y2)
    (rp : Rnd u e (X1 * Y2) p) (rp' : Rnd u e (X2 * Y1) p') (rx : Rnd u 0 (p - p') x) :
    |x - (A1 * D2 - A2 * D1)|
      ≤ u * |A1 * D2 - A2 * D1| + kk u * (|A1 * D2| + |A2 * D1|) + 2 * (1 + u) * e := by
  have t1 := prod_pert hu rX1 rY2
  have t2 := prod_pert hu rX2 rY1
  unfold Rnd at rp rp' rx
  rw [add_zero] at rx
  set κ := (1 + u) ^ 3 - 1 with hκ
  have hκe : κ = 3 * u + 3 * u ^ 2 + u ^ 3 := by rw [hκ]; ring
  -- |X1Y2| ≤ (1+u)²|A1D2|
  have m1 : |X1 * Y2| ≤ (1 + (2 * u + u ^ 2)) * |A1 * D2| := by
    have := abs_sub_abs_le_abs_sub (X1 * Y2) (A1 * D2); linarith
  have m2 : |X2 * Y1| ≤ (1 + (2 * u + u ^ 2)) * |A2 * D1| := by
    have := abs_sub_abs_le_abs_sub (X2 * Y1) (A2 * D1); linarith
  have q1 : |p - A1 * D2| ≤ κ * |A1 * D2| + e := by
    have h1 : |p - A1 * D2| ≤ |p - X1 * Y2| + |X1 * Y2 - A1 * D2| := abs_sub_le _ _ _
    have h2 : u * |X1 * Y2| ≤ u * ((1 + (2 * u + u ^ 2)) * |A1 * D2|) := mul_le_mul_of_nonneg_left m1 hu
    have e1 : κ * |A1 * D2| = u * ((1 + (2 * u + u ^ 2)) * |A1 * D2|) + (2 * u + u ^ 2) * |A1 * D2| := by
      rw [hκe]; ring
    linarith
  have q2 : |p' - A2 * D1| ≤ κ * |A2 * D1| + e := by
    have h1 : |p' - A2 * D1| ≤ |p' - X2 * Y1| + |X2 * Y1 - A2 * D1| := abs_sub_le _ _ _
    have h2 : u * |X2 * Y1| ≤ u * ((1 + (2 * u + u ^ 2)) * |A2 * D1|) := mul_le_mul_of_nonneg_left m2 hu
    have e1 : κ * |A2 * D1| = u * ((1 + (2 * u + u ^ 2)) * |A2 * D1|) + (2 * u + u ^ 2) * |A2 * D1| := by
      rw [hκe]; ring
    linarith
  have q3 : |(p - p') - (A1 * D2 - A2 * D1)| ≤ κ * (|A1 * D2| + |A2 * D1|) + 2 * e := by
    have e1 : (p - p') - (A1 * D2 - A2 * D1) = (p - A1 * D2) - (p' - A2 * D1) := by ring
    rw [e1]
    have := abs_sub (p - A1 * D2) (p' - A2 * D1)
    linarith
  have q4 : |p - p'| ≤ |A1 * D2 - A2 * D1| + (κ * (|A1 * D2| + |A2 * D1|) + 2 * e) := by
    have := abs_sub_abs_le_abs_sub (p - p') (A1 * D2 - A2 * D1); linarith
  have q5 : u * |p - p'| ≤ u * (|A1 * D2 - A2 * D1| + (κ * (|A1 * D2| + |A2 * D1|) + 2 * e)) :=
    mul_le_mul_of_nonneg_left q4 hu
  have h : |x - (A1 * D2 - A2 * D1)| ≤ |x - (p - p')| + |(p - p') - (A1 * D2 - A2 * D1)| := abs_sub_le _ _ _
  have e2 : kk u * (|A1 * D2| + |A2 * D1|) = u * (κ * (|A1 * D2| + |A2 * D1|)) + κ * (|A1 * D2| + |A2 * D1|) := by
    unfold kk; rw [← hκ]; ring
  have e3 : u * (|A1 * D2 - A2 * D1| + (κ * (|A1 * D2| + |A2 * D1|) + 2 * e))
      = u * |A1 * D2 - A2 * D1| + u * (κ * (|A1 * D2| + |A2 * D1|)) + 2 * u * e := by ring
  linarith

/-! ### exact vectors -/

/-- exact `a + b`, `b − a`, `C = (a+b) × (b−a)` -/
noncomputable def vS (a b : V3) : R3 := ⟨val a.x + val b.x, val a.y + val b.y, val a.z + val b.z⟩
noncomputable def vD (a b : V3) : R3 := ⟨val b.x - val a.x, val b.y - val a.y, val b.z - val a.z⟩
noncomputable def vC (a b : V3) : R3 := (vS a b).cross (vD a b)

theorem vC_two (a b : V3) :
    (vC a b).x = 2 * ((vecR a).cross (vecR b)).x ∧ (vC a b).y = 2 * ((vecR a).cross (vecR b)).y ∧
    (vC a b).z = 2 * ((vecR a).cross (vecR b)).z := by
  unfold vC vS vD R3.cross vecR
  refine ⟨by ring, by ring, by ring⟩

theorem vSD_dot (a b : V3) : (vS a b).dot (vD a b) = n2 b - n2 a := by
  unfold vS vD R3.dot n2; ring

/-- the edge is not degenerate: `|2·a×b|² ≥ 2^-68` -/
def EdgeOK (a b : V3) : Prop := 1 / 2 ^ 68 ≤ (vC a b).n2

/-- `|a+b|·|b−a| ≤ |C|·(1 + 2^-32)` -/
theorem lsld_le {δ : ℝ} (hδ0 : 0 ≤ δ) (hδ : δ ≤ delta0) {a b : V3} (ha : UnitWithin δ a) (hb : UnitWithin δ b)
    (hE : EdgeOK a b) : (vS a b).len * (vD a b).len ≤ (vC a b).len * (1 + 1 / 2 ^ 32) := by
  have hl := lagrange (vS a b) (vD a b)
  rw [vSD_dot] at hl
  have hδs : δ ≤ 1 / 2 ^ 52 := le_trans hδ delta0_le
  -- |n2 b − n2 a| ≤ 4δ ≤ 2^-50
  have hd : (n2 b - n2 a) * (n2 b - n2 a) ≤ 1 / 2 ^ 100 := by
    have h1 : |n2 b - n2 a| ≤ 1 / 2 ^ 50 := by
      obtain ⟨_, a1, a2⟩ := ha
      obtain ⟨_, b1, b2⟩ := hb
      rw [abs_le]; constructor <;> nlinarith
    have := abs_mul_le_of h1 h1
    rw [abs_mul_self] at this
    have e : (1 : ℝ) / 2 ^ 50 * (1 / 2 ^ 50) = 1 / 2 ^ 100 := by
      rw [div_mul_div_comm, one_mul, ← pow_add]
    linarith
  unfold EdgeOK at hE
  have hC : (vC a b).n2 = (vS a b).n2 * (vD a b).n2 - (n2 b - n2 a) * (n2 b - n2 a) := hl
  set LC := (vC a b).len with hLC
  have hLC0 : 0 ≤ LC := R3.len_nonneg _
  have hLCsq : LC * LC = (vC a b).n2 := R3.len_sq _
  have hprod : ((vS a b).len * (vD a b).len) ^ 2 = (vS a b).n2 * (vD a b).n2 := by
    calc ((vS a b).len * (vD a b).len) ^ 2 = ((vS a b).len * (vS a b).len) * ((vD a b).len * (vD a b).len) := by ring
      _ = (vS a b).n2 * (vD a b).n2 := by rw [R3.len_sq, R3.len_sq]
  have h100 : (1 : ℝ) / 2 ^ 100 = 1 / 2 ^ 32 * (1 / 2 ^ 68) := by
    rw [div_mul_div_comm, one_mul, ← pow_add]
  have hsq : ((vS a b).len * (vD a b).len) ^ 2 ≤ (LC * (1 + 1 / 2 ^ 32)) ^ 2 := by
    rw [hprod]
    have h1 : (vS a b).n2 * (vD a b).n2 ≤ LC * LC + 1 / 2 ^ 32 * (LC * LC) := by
      rw [hLCsq, hC]
      have : (1 : ℝ) / 2 ^ 32 * (1 / 2 ^ 68) ≤ 1 / 2 ^ 32 * ((vS a b).n2 * (vD a b).n2 - (n2 b - n2 a) * (n2 b - n2 a)) := by
        rw [← hC]; exact mul_le_mul_of_nonneg_left hE (by positivity)
      linarith
    nlinarith [mul_nonneg hLC0 hLC0]
  exact (abs_le_of_sq_le_sq' hsq (by positivity)).2


/-! ### the float vector -/

/-- relative error bound of the computed normal: `η ≈ (1 + 2√3)·u` -/
noncomputable def etaC : ℝ := uR + kk uR * (2 / r3) * (1 + 1 / 2 ^ 32) + 1 / 2 ^ 800

theorem kk_nonneg : 0 ≤ kk uR := by unfold kk uR; norm_num
theorem kk_le : kk uR ≤ (3 + 1 / 2 ^ 50) * uR := by unfold kk uR; norm_num

theorem two_div_r3 : 2 / r3 = 2 * r3 / 3 := by
  have h := r3_sq; have hp := r3_pos.ne'
  field_simp
  nlinarith

theorem etaC_pos : 0 < etaC := by
  unfold etaC
  have h1 := uR_pos; have h2 := kk_nonneg; have h3 := r3_pos
  positivity

/-- `η·(1+η) ≤ θ0` -/
theorem etaC_theta : etaC * (1 + etaC) ≤ theta0 := by
  have h3 := r3_hi; have h3l := r3_lo; have hr := r3_pos
  have hu := uR_nonneg
  have hk := kk_le
  have hk0 := kk_nonneg
  -- η ≤ (1+2√3)·u·(1+2^-48)
  have h1 : etaC ≤ (1 + 2 * r3) * (1 + 1 / 2 ^ 32 + 1 / 2 ^ 48) * uR := by
    unfold etaC
    rw [two_div_r3]
    have hr3 : 0 ≤ 2 * r3 / 3 := by linarith
    have a1 : kk uR * (2 * r3 / 3) ≤ (3 + 1 / 2 ^ 50) * uR * (2 * r3 / 3) :=
      mul_le_mul_of_nonneg_right hk hr3
    have a2 : kk uR * (2 * r3 / 3) * (1 + 1 / 2 ^ 32) ≤ (3 + 1 / 2 ^ 50) * uR * (2 * r3 / 3) * (1 + 1 / 2 ^ 32) :=
      mul_le_mul_of_nonneg_right a1 (by norm_num)
    have a3 : (1 : ℝ) / 2 ^ 800 ≤ 1 / 2 ^ 100 * uR := by
      unfold uR
      rw [div_mul_div_comm, one_mul, ← pow_add]
      exact one_div_le_one_div_of_le (by positivity) (pow_le_pow_right₀ (by norm_num) (by norm_num))
    have e : (3 + 1 / 2 ^ 50) * uR * (2 * r3 / 3) * (1 + 1 / 2 ^ 32)
        = (3 + 1 / 2 ^ 50) * (1 + 1 / 2 ^ 32) * (2 / 3) * (r3 * uR) := by ring
    have c1 : ((3 + 1 / 2 ^ 50) * (1 + 1 / 2 ^ 32) * (2 / 3) : ℝ) ≤ 2 * (1 + 1 / 2 ^ 32 + 1 / 2 ^ 49) := by norm_num
    have hru : 0 ≤ r3 * uR := mul_nonneg hr.le hu
    have m1 := mul_le_mul_of_nonneg_right c1 hru
    have e2 : (1 + 2 * r3) * (1 + 1 / 2 ^ 32 + 1 / 2 ^ 48) * uR
        = (1 + 1 / 2 ^ 32 + 1 / 2 ^ 48) * uR + 2 * (1 + 1 / 2 ^ 32 + 1 / 2 ^ 48) * (r3 * uR) := by ring
    have hup : (0:ℝ) ≤ 1 / 2 ^ 48 * uR := mul_nonneg (by norm_num) hu
    nlinarith
  have hθ : (1 + 2 * r3) * (1 + 1 / 2 ^ 32 + 1 / 2 ^ 48) * uR ≤ 5 * uR := by
    have : (1 + 2 * r3) * (1 + 1 / 2 ^ 32 + 1 / 2 ^ 48) ≤ 5 := by nlinarith
    exact mul_le_mul_of_nonneg_right this hu
  have h2 : 1 + etaC ≤ 1 + 1 / 2 ^ 50 := by
    have : 5 * uR ≤ 1 / 2 ^ 50 := by unfold uR; norm_num
    linarith
  have h0 := etaC_pos.le
  have h4 : etaC * (1 + etaC) ≤ (1 + 2 * r3) * (1 + 1 / 2 ^ 32 + 1 / 2 ^ 48) * uR * (1 + 1 / 2 ^ 50) :=
    mul_le_mul h1 h2 (by linarith) (mul_nonneg (mul_nonneg (by linarith) (by norm_num)) hu)
  unfold theta0
  have c2 : ((1 + 1 / 2 ^ 32 + 1 / 2 ^ 48) * (1 + 1 / 2 ^ 50) : ℝ) ≤ 1 + 1 / 2 ^ 31 := by norm_num
  have hpos : 0 ≤ (1 + 2 * r3) * uR := mul_nonneg (by linarith) hu
  have := mul_le_mul_of_nonneg_left c2 hpos
  nlinarith

/-- `|C| ≤ 5/2` for unit-ish endpoints -/
theorem vC_len_le {δ : ℝ} (hδ0 : 0 ≤ δ) (hδ : δ ≤ delta0) {a b : V3} (ha : UnitWithin δ a) (hb : UnitWithin δ b) :
    (vC a b).len ≤ 5 / 2 := by
  have hδs : δ ≤ 1 / 2 ^ 52 := le_trans hδ delta0_le
  have h1 : (vC a b).n2 ≤ (5 / 2) ^ 2 := by
    have hl := lagrange (vS a b) (vD a b)
    have hS : (vS a b).n2 + (vD a b).n2 = 2 * (n2 a + n2 b) := by unfold vS vD R3.n2 R3.dot n2; ring
    have hna := ha.2.2; have hnb := hb.2.2
    have hS0 := R3.n2_nonneg (vS a b); have hD0 := R3.n2_nonneg (vD a b)
    have hq := mul_self_nonneg ((vS a b).dot (vD a b))
    have hd2 : (1 + δ) ^ 2 ≤ 101 / 100 := by nlinarith
    have hsum : (vS a b).n2 + (vD a b).n2 ≤ 404 / 100 := by linarith
    have hC : (vC a b).n2 ≤ (vS a b).n2 * (vD a b).n2 := by unfold vC; rw [hl]; linarith
    nlinarith [sq_nonneg ((vS a b).n2 - (vD a b).n2)]
  unfold R3.len
  rw [Real.sqrt_le_left (by norm_num)]
  exact h1

theorem coord_from_vec {t n η L : ℝ} (hη0 : 0 ≤ η) (hη1 : η ≤ 1) (hL0 : 0 ≤ L) (hL : L ≤ 5 / 2)
    (h1 : (t - n) ^ 2 ≤ (η * L) ^ 2) (h2 : n ^ 2 ≤ L ^ 2) : |t| ≤ 5 := by
  have a1 := abs_le_of_sq_le_sq' h1 (mul_nonneg hη0 hL0)
  have a2 := abs_le_of_sq_le_sq' h2 hL0
  have : η * L ≤ L := by nlinarith
  rw [abs_le]; constructor <;> linarith [a1.1, a1.2, a2.1, a2.2]

theorem etaC_le_one : etaC ≤ 1 := by
  have h1 := etaC_theta
  have h5 := theta0_le
  have hp := etaC_pos
  have : etaC ≤ etaC * (1 + etaC) := by nlinarith
  have : (44642 : ℝ) / 10000 * uR ≤ 1 := by unfold uR; norm_num
  linarith

theorem tiny_g_le {LC : ℝ} (hLClo : 1 / 2 ^ 34 ≤ LC) : 2 * (2 * (1 + uR) * eR) ≤ 1 / 2 ^ 800 * LC := by
  have e1 : eR ≤ 1 / 2 ^ 900 := by
    unfold eR
    exact one_div_le_one_div_of_le (by positivity) (pow_le_pow_right₀ (by norm_num) (by norm_num))
  have e2 : (1 : ℝ) / 2 ^ 834 = 1 / 2 ^ 800 * (1 / 2 ^ 34) := by
    rw [div_mul_div_comm, one_mul, ← pow_add]
  have e3 : (1 : ℝ) / 2 ^ 800 * (1 / 2 ^ 34) ≤ 1 / 2 ^ 800 * LC := mul_le_mul_of_nonneg_left hLClo (by positivity)
  have e4 : 2 * (2 * (1 + uR) * eR) ≤ 8 * eR := by
    have h1 : uR ≤ 1 := uR_le_one
    have h2 := eR_nonneg
    nlinarith
  have e5 : 8 * ((1 : ℝ) / 2 ^ 900) ≤ 1 / 2 ^ 834 := by
    have : (8 : ℝ) * (1 / 2 ^ 900) = 1 / 2 ^ 897 := by
      rw [show (8 : ℝ) = 2 ^ 3 by norm_num, ← mul_div_assoc, mul_one, div_eq_div_iff (by positivity) (by positivity),
        one_mul, ← pow_add]
    rw [this]
    exact one_div_le_one_div_of_le (by positivity) (pow_le_pow_right₀ (by norm_num) (by norm_num))
  linarith

/-- the raw float cross product of `PointCross` -/
def pcRaw (a b : V3) : V3 := (a.add b).cross (b.sub a)

theorem n2_sq (v : R3) : v.x ^ 2 + v.y ^ 2 + v.z ^ 2 = v.n2 := by unfold R3.n2 R3.dot; ring

theorem pcRaw_spec {δ : ℝ} (hδ0 : 0 ≤ δ) (hδ : δ ≤ delta0) {a b : V3} (ha : UnitWithin δ a) (hb : UnitWithin δ b)
    (hE : EdgeOK a b) :
    Fin3 (pcRaw a b) ∧
    (|val (pcRaw a b).x| ≤ 5 ∧ |val (pcRaw a b).y| ≤ 5 ∧ |val (pcRaw a b).z| ≤ 5) ∧
    (R3.sub (vecR (pcRaw a b)) (vC a b)).n2 ≤ (etaC * (vC a b).len) ^ 2 := by
  have hδ1 : δ ≤ 1 := le_trans hδ (le_trans delta0_le (by norm_num))
  obtain ⟨fa1, fa2, fa3⟩ := ha.1
  obtain ⟨fb1, fb2, fb3⟩ := hb.1
  obtain ⟨ma1, ma2, ma3⟩ := ha.coord2 hδ0 hδ1
  obtain ⟨mb1, mb2, mb3⟩ := hb.coord2 hδ0 hδ1
  have add5 : ∀ {x y : F64}, Fin x → Fin y → |val x| ≤ 2 → |val y| ≤ 2 →
      Fin (x + y) ∧ Rnd uR 0 (val x + val y) (val (x + y)) ∧ |val (x + y)| ≤ 5 := by
    intro x y hx hy mx my
    have m : |val x + val y| ≤ 4 := by have := abs_add_le (val x) (val y); linarith
    obtain ⟨f, r, _⟩ := add_step stdModel hx hy m (by norm_num)
    refine ⟨f, r, ?_⟩
    have h1 := r.abs_le
    have h2 : uR * |val x + val y| ≤ 1 / 4 * 4 := mul_le_mul uR_le_quarter m (abs_nonneg _) (by norm_num)
    linarith
  obtain ⟨fX1, rX1, bX1⟩ := add5 fa1 fb1 ma1 mb1
  obtain ⟨fX2, rX2, bX2⟩ := add5 fa2 fb2 ma2 mb2
  obtain ⟨fX3, rX3, bX3⟩ := add5 fa3 fb3 ma3 mb3
  obtain ⟨fY1, rY1, bY1⟩ := sub_step5 stdModel fb1 fa1 mb1 ma1
  obtain ⟨fY2, rY2, bY2⟩ := sub_step5 stdModel fb2 fa2 mb2 ma2
  obtain ⟨fY3, rY3, bY3⟩ := sub_step5 stdModel fb3 fa3 mb3 ma3
  obtain ⟨fx1, gx1, r23, r32, rx1⟩ := cross_step5 stdModel fX2 fY3 fX3 fY2 bX2 bY3 bX3 bY2
  obtain ⟨fx2, gx2, r31, r13, rx2⟩ := cross_step5 stdModel fX3 fY1 fX1 fY3 bX3 bY1 bX1 bY3
  obtain ⟨fx3, gx3, r12, r21, rx3⟩ := cross_step5 stdModel fX1 fY2 fX2 fY1 bX1 bY2 bX2 bY1
  have hu := uR_nonneg
  have he := eR_nonneg
  have c1 := comp_tight hu he rX2 rX3 rY2 rY3 r23 r32 rx1
  have c2 := comp_tight hu he rX3 rX1 rY3 rY1 r31 r13 rx2
  have c3 := comp_tight hu he rX1 rX2 rY1 rY2 r12 r21 rx3
  -- the vector bound
  set LC := (vC a b).len with hLC
  have hLC0 : 0 ≤ LC := R3.len_nonneg _
  have hLCsq : LC * LC = (vC a b).n2 := R3.len_sq _
  have hXsq : (vC a b).x ^ 2 + (vC a b).y ^ 2 + (vC a b).z ^ 2 ≤ LC ^ 2 := by
    rw [n2_sq, sq, hLCsq]
  have hSsq : (vS a b).x ^ 2 + (vS a b).y ^ 2 + (vS a b).z ^ 2 ≤ (vS a b).len ^ 2 := by
    rw [n2_sq, sq, R3.len_sq]
  have hDsq : (vD a b).x ^ 2 + (vD a b).y ^ 2 + (vD a b).z ^ 2 ≤ (vD a b).len ^ 2 := by
    rw [n2_sq, sq, R3.len_sq]
  have hvec := cross_err_vec (u := uR) (k := kk uR) (g := 2 * (1 + uR) * eR) hu kk_nonneg
    (mul_nonneg (mul_nonneg (by norm_num) (by linarith)) he) hLC0 (R3.len_nonneg _) (R3.len_nonneg _) hXsq hSsq hDsq
    (c1 := val (pcRaw a b).x) (c2 := val (pcRaw a b).y) (c3 := val (pcRaw a b).z) c1 c2 c3
  have hls := lsld_le hδ0 hδ ha hb hE
  -- LC ≥ 2^-20
  have hLClo : 1 / 2 ^ 34 ≤ LC := by
    unfold EdgeOK at hE
    rw [hLC]; unfold R3.len
    apply Real.le_sqrt_of_sq_le
    have e : ((1 : ℝ) / 2 ^ 34) ^ 2 = 1 / 2 ^ 68 := by rw [div_pow, one_pow, ← pow_mul]
    rw [e]; exact hE
  have hLCpos : 0 < LC := lt_of_lt_of_le (by positivity) hLClo
  have hbound : uR * LC + kk uR * (2 / r3 * ((vS a b).len * (vD a b).len)) + 2 * (2 * (1 + uR) * eR)
      ≤ etaC * LC := by
    unfold etaC
    have h23 : 0 ≤ 2 / r3 := div_nonneg (by norm_num) r3_pos.le
    have h1 : kk uR * (2 / r3 * ((vS a b).len * (vD a b).len)) ≤ kk uR * (2 / r3 * (LC * (1 + 1 / 2 ^ 32))) :=
      mul_le_mul_of_nonneg_left (mul_le_mul_of_nonneg_left hls h23) kk_nonneg
    have h2 := tiny_g_le hLClo
    have e : (uR + kk uR * (2 / r3) * (1 + 1 / 2 ^ 32) + 1 / 2 ^ 800) * LC
        = uR * LC + kk uR * (2 / r3 * (LC * (1 + 1 / 2 ^ 32))) + 1 / 2 ^ 800 * LC := by ring
    rw [e]; linarith
  have hb0 : 0 ≤ uR * LC + kk uR * (2 / r3 * ((vS a b).len * (vD a b).len)) + 2 * (2 * (1 + uR) * eR) := by
    have h23 : 0 ≤ 2 / r3 := div_nonneg (by norm_num) r3_pos.le
    have l1 := R3.len_nonneg (vS a b); have l2 := R3.len_nonneg (vD a b)
    have k0 := kk_nonneg
    have t1 : 0 ≤ uR * LC := mul_nonneg hu hLC0
    have t2 : 0 ≤ kk uR * (2 / r3 * ((vS a b).len * (vD a b).len)) := mul_nonneg k0 (mul_nonneg h23 (mul_nonneg l1 l2))
    have t3 : 0 ≤ 2 * (2 * (1 + uR) * eR) := mul_nonneg (by norm_num) (mul_nonneg (mul_nonneg (by norm_num) (by linarith)) he)
    linarith
  have hfin : (R3.sub (vecR (pcRaw a b)) (vC a b)).n2 ≤ (etaC * LC) ^ 2 := by
    have e : (R3.sub (vecR (pcRaw a b)) (vC a b)).n2
        = (val (pcRaw a b).x - (vC a b).x) ^ 2 + (val (pcRaw a b).y - (vC a b).y) ^ 2
          + (val (pcRaw a b).z - (vC a b).z) ^ 2 := by
      unfold R3.sub R3.n2 R3.dot vecR; ring
    rw [e]
    exact le_trans hvec (pow_le_pow_left₀ hb0 hbound 2)
  have hLC3 := vC_len_le hδ0 hδ ha hb
  rw [← hLC] at hLC3
  have hterm : ∀ {p q r : ℝ}, 0 ≤ q → 0 ≤ r → p ≤ p + q + r := by intro p q r hq hr; linarith
  have hfin' := hfin
  have e : (R3.sub (vecR (pcRaw a b)) (vC a b)).n2
      = (val (pcRaw a b).x - (vC a b).x) ^ 2 + (val (pcRaw a b).y - (vC a b).y) ^ 2
        + (val (pcRaw a b).z - (vC a b).z) ^ 2 := by
    unfold R3.sub R3.n2 R3.dot vecR; ring
  rw [e] at hfin'
  have q1 := sq_nonneg (val (pcRaw a b).x - (vC a b).x)
  have q2 := sq_nonneg (val (pcRaw a b).y - (vC a b).y)
  have q3 := sq_nonneg (val (pcRaw a b).z - (vC a b).z)
  have p1 := sq_nonneg (vC a b).x
  have p2 := sq_nonneg (vC a b).y
  have p3 := sq_nonneg (vC a b).z
  have hη0 := etaC_pos.le
  have hη1 := etaC_le_one
  have hs1 : (val (pcRaw a b).x - (vC a b).x) ^ 2 ≤ (etaC * LC) ^ 2 := by linarith only [hfin', q2, q3]
  have hs2 : (val (pcRaw a b).y - (vC a b).y) ^ 2 ≤ (etaC * LC) ^ 2 := by linarith only [hfin', q1, q3]
  have hs3 : (val (pcRaw a b).z - (vC a b).z) ^ 2 ≤ (etaC * LC) ^ 2 := by linarith only [hfin', q1, q2]
  have hn1 : (vC a b).x ^ 2 ≤ LC ^ 2 := by linarith only [hXsq, p2, p3]
  have hn2 : (vC a b).y ^ 2 ≤ LC ^ 2 := by linarith only [hXsq, p1, p3]
  have hn3 : (vC a b).z ^ 2 ≤ LC ^ 2 := by linarith only [hXsq, p1, p2]
  exact ⟨⟨fx1, fx2, fx3⟩, ⟨coord_from_vec hη0 hη1 hLC0 hLC3 hs1 hn1, coord_from_vec hη0 hη1 hLC0 hLC3 hs2 hn2,
    coord_from_vec hη0 hη1 hLC0 hLC3 hs3 hn3⟩, hfin⟩

end S2Proofs.C17Err
