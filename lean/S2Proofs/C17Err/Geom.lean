/-
  C17Err.Geom — exact geometry (pure ℝ³) of the distance from a direction to a great-circle arc.

  Vectors are plain triples `R3`.  For arbitrary non-zero `x, a, b` (NOT assumed unit: all statements are about the
  directions `x/|x|`, …) with `n = a × b`:

    * the ARC of the edge is the set of unit vectors `P = s·a + t·b`, `s, t ≥ 0` (`OnArc`);
    * `gc_lower`        every unit `P ⟂ n` has  `x·P ≤ |n × x| / |n|`      (distance to the great circle);
    * `wedge_attained`  if `x` is in the open WEDGE (`0 < x·(n×a)`, `x·(n×b) < 0`) some arc point attains it;
    * `nonwedge_upper`  if `x` is NOT in the wedge, every arc point has `x·P ≤ max(x·a/|a|, x·b/|b|)`;
    * `wedge_planar`    in the wedge the two planar acute-angle inequalities hold (what the prefilter tests).
-/
import Mathlib.Analysis.Real.Sqrt
import Mathlib.Tactic.Ring
import Mathlib.Tactic.Linarith
import Mathlib.Tactic.Positivity
import Mathlib.Tactic.FieldSimp

set_option linter.unusedSimpArgs false
set_option linter.unusedVariables false

namespace S2Proofs.C17Err

structure R3 where
  x : ℝ
  y : ℝ
  z : ℝ

namespace R3
def dot (u v : R3) : ℝ := u.x * v.x + u.y * v.y + u.z * v.z
def cross (u v : R3) : R3 := ⟨u.y * v.z - u.z * v.y, u.z * v.x - u.x * v.z, u.x * v.y - u.y * v.x⟩
def comb (s : ℝ) (u : R3) (t : ℝ) (v : R3) : R3 := ⟨s * u.x + t * v.x, s * u.y + t * v.y, s * u.z + t * v.z⟩
def n2 (u : R3) : ℝ := u.dot u
noncomputable def len (u : R3) : ℝ := Real.sqrt u.n2

theorem n2_nonneg (u : R3) : 0 ≤ u.n2 := by
  unfold n2 dot
  have := mul_self_nonneg u.x; have := mul_self_nonneg u.y; have := mul_self_nonneg u.z
  linarith

theorem len_nonneg (u : R3) : 0 ≤ u.len := Real.sqrt_nonneg _
theorem len_sq (u : R3) : u.len * u.len = u.n2 := Real.mul_self_sqrt (n2_nonneg u)

/-- Cauchy–Schwarz -/
theorem cs (u v : R3) : u.dot v * u.dot v ≤ u.n2 * v.n2 := by
  unfold n2 dot
  nlinarith [sq_nonneg (u.x * v.y - u.y * v.x), sq_nonneg (u.y * v.z - u.z * v.y),
    sq_nonneg (u.z * v.x - u.x * v.z)]

theorem abs_dot_le (u v : R3) : |u.dot v| ≤ u.len * v.len := by
  have h := cs u v
  have hl : 0 ≤ u.len * v.len := mul_nonneg (len_nonneg u) (len_nonneg v)
  have e : (u.len * v.len) * (u.len * v.len) = u.n2 * v.n2 := by
    calc (u.len * v.len) * (u.len * v.len) = (u.len * u.len) * (v.len * v.len) := by ring
      _ = u.n2 * v.n2 := by rw [len_sq, len_sq]
  apply abs_le_of_sq_le_sq' _ hl |>.elim (fun a b => abs_le.mpr ⟨a, b⟩)
  nlinarith

/-- Lagrange: `|u × v|² = |u|²|v|² − (u·v)²` -/
theorem lagrange (u v : R3) : (u.cross v).n2 = u.n2 * v.n2 - u.dot v * u.dot v := by
  unfold n2 dot cross; ring

/-- Binet–Cauchy: `(u×p)·(v×p) = (u·v)(p·p) − (u·p)(v·p)` -/
theorem binet (u v p : R3) : (u.cross p).dot (v.cross p) = u.dot v * p.dot p - u.dot p * v.dot p := by
  unfold dot cross; ring

theorem dot_comm (u v : R3) : u.dot v = v.dot u := by unfold dot; ring
theorem cross_dot_left (u v : R3) : (u.cross v).dot u = 0 := by unfold dot cross; ring
theorem cross_dot_right (u v : R3) : (u.cross v).dot v = 0 := by unfold dot cross; ring
theorem dot_comb (w : R3) (s : ℝ) (u : R3) (t : ℝ) (v : R3) :
    w.dot (comb s u t v) = s * w.dot u + t * w.dot v := by unfold dot comb; ring
theorem comb_n2 (s : ℝ) (u : R3) (t : ℝ) (v : R3) :
    (comb s u t v).n2 = s * s * u.n2 + 2 * (s * t) * u.dot v + t * t * v.n2 := by
  unfold n2 dot comb; ring
end R3

open R3

/-! ### the arc, the wedge -/

/-- `P` is a unit vector in the closed cone spanned by `a` and `b`: a point of the (shorter) great-circle arc
    between the directions of `a` and `b` -/
def OnArc (a b P : R3) : Prop := ∃ s t : ℝ, 0 ≤ s ∧ 0 ≤ t ∧ P = comb s a t b ∧ P.n2 = 1

/-- `x` lies in the open wedge of the edge `ab` (between the two meridian planes through `n = a×b` and the endpoints) -/
def InWedgeR (x a b : R3) : Prop := 0 < x.dot ((a.cross b).cross a) ∧ x.dot ((a.cross b).cross b) < 0

theorem wedge_dot_a (x a b : R3) :
    x.dot ((a.cross b).cross a) = x.dot b * a.n2 - x.dot a * a.dot b := by
  unfold n2 dot cross; ring

theorem wedge_dot_b (x a b : R3) :
    x.dot ((a.cross b).cross b) = x.dot b * a.dot b - x.dot a * b.n2 := by
  unfold n2 dot cross; ring

/-! ### distance to the great circle -/

/-- every unit vector `P` of the plane `⟂ n` has `(x·P)·|n| ≤ |n × x|` -/
theorem gc_lower (x n P : R3) (hP : P.n2 = 1) (hPn : P.dot n = 0) :
    x.dot P * n.len ≤ (n.cross x).len := by
  have hc := cs (x.cross P) (n.cross P)
  have hb := binet x n P
  have hl1 := lagrange x P
  have hl2 := lagrange n P
  have hPP : P.dot P = 1 := hP
  have hnP : n.dot P = 0 := by rw [dot_comm]; exact hPn
  rw [hPP, hnP] at hb
  rw [hP] at hl1 hl2
  rw [hnP] at hl2
  rw [hb, hl1, hl2] at hc
  -- (x·n)² ≤ (|x|² − (x·P)²)·|n|²
  have hl := lagrange n x
  have hsq : (x.dot P * n.len) * (x.dot P * n.len) ≤ (n.cross x).n2 := by
    have e2 : (x.dot P * n.len) * (x.dot P * n.len) = x.dot P * x.dot P * (n.len * n.len) := by ring
    rw [e2, len_sq, hl]
    have e3 : n.dot x = x.dot n := dot_comm n x
    rw [e3]
    nlinarith
  have h0 : 0 ≤ (n.cross x).len := len_nonneg _
  by_cases hneg : x.dot P * n.len ≤ 0
  · linarith
  · have hpos : 0 ≤ x.dot P * n.len := le_of_lt (not_le.mp hneg)
    unfold len
    apply Real.le_sqrt_of_sq_le
    rw [sq]; exact hsq

/-- the in-plane part of `x`, scaled by `|n|²`, in the basis `a, b` (n = a×b) -/
theorem plane_part (x a b : R3) :
    comb (-(x.dot ((a.cross b).cross b))) a (x.dot ((a.cross b).cross a)) b
      = ⟨(a.cross b).n2 * x.x - x.dot (a.cross b) * (a.cross b).x,
         (a.cross b).n2 * x.y - x.dot (a.cross b) * (a.cross b).y,
         (a.cross b).n2 * x.z - x.dot (a.cross b) * (a.cross b).z⟩ := by
  unfold comb n2 dot cross
  simp only [R3.mk.injEq]
  refine ⟨by ring, by ring, by ring⟩

theorem plane_part_n2 (x a b : R3) :
    (comb (-(x.dot ((a.cross b).cross b))) a (x.dot ((a.cross b).cross a)) b).n2
      = (a.cross b).n2 * ((a.cross b).cross x).n2 := by
  rw [plane_part, lagrange]
  unfold n2 dot cross; ring

theorem plane_part_dot (x a b : R3) :
    x.dot (comb (-(x.dot ((a.cross b).cross b))) a (x.dot ((a.cross b).cross a)) b)
      = ((a.cross b).cross x).n2 := by
  rw [plane_part, lagrange]
  unfold n2 dot cross; ring

/-- in the wedge, `n ≠ 0` and `n × x ≠ 0` -/
theorem wedge_nondeg {x a b : R3} (h : InWedgeR x a b) :
    0 < (a.cross b).n2 ∧ 0 < ((a.cross b).cross x).n2 := by
  obtain ⟨h1, h2⟩ := h
  have hn : 0 < (a.cross b).n2 := by
    rcases (n2_nonneg (a.cross b)).lt_or_eq with h | h
    · exact h
    · exfalso
      -- n = 0 ⇒ n × a = 0
      have hx : (a.cross b).x = 0 ∧ (a.cross b).y = 0 ∧ (a.cross b).z = 0 := by
        unfold n2 dot at h
        have q1 := mul_self_nonneg (a.cross b).x
        have q2 := mul_self_nonneg (a.cross b).y
        have q3 := mul_self_nonneg (a.cross b).z
        refine ⟨mul_self_eq_zero.mp (by linarith), mul_self_eq_zero.mp (by linarith), mul_self_eq_zero.mp (by linarith)⟩
      have : x.dot ((a.cross b).cross a) = 0 := by
        have e : x.dot ((a.cross b).cross a)
            = x.x * ((a.cross b).y * a.z - (a.cross b).z * a.y) + x.y * ((a.cross b).z * a.x - (a.cross b).x * a.z)
              + x.z * ((a.cross b).x * a.y - (a.cross b).y * a.x) := by
          unfold dot cross; ring
        rw [e, hx.1, hx.2.1, hx.2.2]; ring
      linarith
  refine ⟨hn, ?_⟩
  rcases (n2_nonneg ((a.cross b).cross x)).lt_or_eq with h | h
  · exact h
  · exfalso
    -- |V|² = |n|²·0 = 0 ⇒ V = 0 ⇒ (V × b) = α·n = 0 with α > 0
    have hV := plane_part_n2 x a b
    rw [← h, mul_zero] at hV
    set V := comb (-(x.dot ((a.cross b).cross b))) a (x.dot ((a.cross b).cross a)) b with hVd
    have hv : V.x = 0 ∧ V.y = 0 ∧ V.z = 0 := by
      unfold n2 dot at hV
      have q1 := mul_self_nonneg V.x
      have q2 := mul_self_nonneg V.y
      have q3 := mul_self_nonneg V.z
      refine ⟨mul_self_eq_zero.mp (by linarith), mul_self_eq_zero.mp (by linarith), mul_self_eq_zero.mp (by linarith)⟩
    -- V × b = α (a × b)
    have e : (V.cross b).n2 = (x.dot ((a.cross b).cross b)) * (x.dot ((a.cross b).cross b)) * (a.cross b).n2 := by
      rw [hVd]; unfold comb n2 dot cross; ring
    have e0 : (V.cross b).n2 = 0 := by
      unfold n2 dot cross; rw [hv.1, hv.2.1, hv.2.2]; ring
    rw [e0] at e
    have : 0 < (x.dot ((a.cross b).cross b)) * (x.dot ((a.cross b).cross b)) := mul_pos_of_neg_of_neg h2 h2
    have := mul_pos this hn
    linarith

/-- **in the wedge the great-circle bound is attained on the arc** -/
theorem wedge_attained {x a b : R3} (h : InWedgeR x a b) :
    ∃ P, OnArc a b P ∧ x.dot P * (a.cross b).len = ((a.cross b).cross x).len := by
  obtain ⟨hn, hw⟩ := wedge_nondeg h
  obtain ⟨h1, h2⟩ := h
  set n := a.cross b with hnd
  set V := comb (-(x.dot (n.cross b))) a (x.dot (n.cross a)) b with hVd
  have hVn2 : V.n2 = n.n2 * (n.cross x).n2 := plane_part_n2 x a b
  have hVdot : x.dot V = (n.cross x).n2 := plane_part_dot x a b
  have hnl : 0 < n.len := by unfold len; exact Real.sqrt_pos.mpr hn
  have hwl : 0 < (n.cross x).len := by unfold len; exact Real.sqrt_pos.mpr hw
  set L := n.len * (n.cross x).len with hL
  have hLpos : 0 < L := mul_pos hnl hwl
  have hLsq : L * L = V.n2 := by
    rw [hVn2, hL]
    calc n.len * (n.cross x).len * (n.len * (n.cross x).len)
        = (n.len * n.len) * ((n.cross x).len * (n.cross x).len) := by ring
      _ = n.n2 * (n.cross x).n2 := by rw [len_sq, len_sq]
  refine ⟨comb (-(x.dot (n.cross b)) / L) a (x.dot (n.cross a) / L) b, ⟨_, _, ?_, ?_, rfl, ?_⟩, ?_⟩
  · exact div_nonneg (by linarith) hLpos.le
  · exact div_nonneg h1.le hLpos.le
  · rw [comb_n2]
    have e : V.n2 = (-(x.dot (n.cross b))) * (-(x.dot (n.cross b))) * a.n2
        + 2 * ((-(x.dot (n.cross b))) * (x.dot (n.cross a))) * a.dot b
        + (x.dot (n.cross a)) * (x.dot (n.cross a)) * b.n2 := by rw [hVd, comb_n2]
    have hL0 : L ≠ 0 := hLpos.ne'
    field_simp
    rw [← hLsq] at e
    nlinarith
  · rw [dot_comb]
    have e : x.dot V = -(x.dot (n.cross b)) * x.dot a + x.dot (n.cross a) * x.dot b := by rw [hVd, dot_comb]
    have hL0 : L ≠ 0 := hLpos.ne'
    have e2 : -(x.dot (n.cross b)) / L * x.dot a + x.dot (n.cross a) / L * x.dot b = x.dot V / L := by
      rw [e]; field_simp
    rw [e2, hVdot, div_mul_eq_mul_div, div_eq_iff hL0, hL]
    have := len_sq (n.cross x)
    calc (n.cross x).n2 * n.len = ((n.cross x).len * (n.cross x).len) * n.len := by rw [len_sq]
      _ = (n.cross x).len * (n.len * (n.cross x).len) := by ring

/-! ### outside the wedge the nearest arc point is an endpoint -/

/-- core case analysis (unit `A`, `B`; `p = X·A`, `q = X·B`, `c = A·B`, `P = sA + tB` unit):
    if `X·P` exceeds both `p` and `q` and `q ≥ 0`, then `X` is in the wedge -/
theorem arc_core {p q c s t : ℝ} (hs : 0 ≤ s) (ht : 0 ≤ t) (hc1 : c * c ≤ 1)
    (hunit : s * s + 2 * (s * t) * c + t * t = 1)
    (hAP : s + t * c ≤ 1) (hBP : s * c + t ≤ 1)
    (hq : 0 ≤ q) (hfp : p < s * p + t * q) (hfq : q < s * p + t * q) :
    0 < q - c * p ∧ 0 < p - c * q := by
  -- p − c q > 0
  have h1 : 0 < s * (p - c * q) := by
    have : 0 ≤ (1 - t - s * c) * q := mul_nonneg (by linarith) hq
    nlinarith
  have hspos : 0 < s := by
    rcases hs.lt_or_eq with h | h
    · exact h
    · rw [← h] at h1; simp at h1
  have hpc : 0 < p - c * q := by
    by_contra hcon
    have := mul_nonpos_of_nonneg_of_nonpos hs (not_lt.mp hcon)
    linarith
  refine ⟨?_, hpc⟩
  by_cases hp : 0 ≤ p
  · have h2 : 0 < t * (q - c * p) := by
      have : 0 ≤ (1 - s - t * c) * p := mul_nonneg (by linarith) hp
      nlinarith
    by_contra hcon
    have := mul_nonpos_of_nonneg_of_nonpos ht (not_lt.mp hcon)
    linarith
  · have hp' : p < 0 := not_le.mp hp
    have hqpos : 0 < q := by
      rcases hq.lt_or_eq with h | h
      · exact h
      · exfalso
        rw [← h] at hfq
        have : s * p ≤ 0 := mul_nonpos_of_nonneg_of_nonpos hs hp'.le
        linarith
    by_cases hc : 0 ≤ c
    · have : c * p ≤ 0 := mul_nonpos_of_nonneg_of_nonpos hc hp'.le
      linarith
    · have hc' : c < 0 := not_le.mp hc
      -- p > c q, c < 0 ⇒ c p < c² q ≤ q
      have hpc' : c * q < p := by linarith
      have h3 : c * p < c * (c * q) := mul_lt_mul_of_neg_left hpc' hc'
      have h4 : c * c * q ≤ 1 * q := mul_le_mul_of_nonneg_right hc1 hq
      linarith

/-- for unit `A`, `B`: outside the wedge, no arc point is nearer to `X` than the nearer endpoint -/
theorem arc_unit {X A B P : R3} (hA : A.n2 = 1) (hB : B.n2 = 1) (hP : OnArc A B P)
    (hnw : ¬ (0 < X.dot B - A.dot B * X.dot A ∧ 0 < X.dot A - A.dot B * X.dot B)) :
    X.dot P ≤ max (X.dot A) (X.dot B) := by
  obtain ⟨s, t, hs, ht, rfl, hn⟩ := hP
  rw [dot_comb]
  rw [comb_n2, hA, hB] at hn
  set p := X.dot A with hp
  set q := X.dot B with hq
  set c := A.dot B with hc
  have hc1 : c * c ≤ 1 := by have := cs A B; rw [hA, hB] at this; linarith
  have hunit : s * s + 2 * (s * t) * c + t * t = 1 := by linarith
  -- A·P ≤ 1, B·P ≤ 1
  have hAP : s + t * c ≤ 1 := by
    have h := cs A (comb s A t B)
    rw [comb_n2, hA, hB, dot_comb, ← hc] at h
    have e : A.dot A = 1 := hA
    rw [e] at h
    have h2 : (s * 1 + t * c) * (s * 1 + t * c) ≤ 1 := by
      calc (s * 1 + t * c) * (s * 1 + t * c) ≤ 1 * (s * s * 1 + 2 * (s * t) * c + t * t * 1) := h
        _ = 1 := by linarith
    nlinarith
  have hBP : s * c + t ≤ 1 := by
    have h := cs B (comb s A t B)
    rw [comb_n2, hA, hB, dot_comb] at h
    have e : B.dot B = 1 := hB
    have e' : B.dot A = c := by rw [hc]; exact dot_comm B A
    rw [e, e'] at h
    have h2 : (s * c + t * 1) * (s * c + t * 1) ≤ 1 := by
      calc (s * c + t * 1) * (s * c + t * 1) ≤ 1 * (s * s * 1 + 2 * (s * t) * c + t * t * 1) := h
        _ = 1 := by linarith
    nlinarith
  by_contra hcon
  have hcon := not_le.mp hcon
  have hfp : p < s * p + t * q := lt_of_le_of_lt (le_max_left _ _) hcon
  have hfq : q < s * p + t * q := lt_of_le_of_lt (le_max_right _ _) hcon
  -- s + t ≥ 1
  have hst : 1 ≤ s + t := by
    have : (s + t) * (s + t) - 1 = 2 * (s * t) * (1 - c) := by nlinarith
    have h2 : 0 ≤ 2 * (s * t) * (1 - c) := by
      have : c ≤ 1 := by nlinarith
      exact mul_nonneg (mul_nonneg (by norm_num) (mul_nonneg hs ht)) (by linarith)
    nlinarith
  by_cases hq0 : 0 ≤ q
  · exact hnw (arc_core hs ht hc1 hunit hAP hBP hq0 hfp hfq)
  · by_cases hp0 : 0 ≤ p
    · have hunit' : t * t + 2 * (t * s) * c + s * s = 1 := by linarith
      have := arc_core (p := q) (q := p) (c := c) (s := t) (t := s) ht hs hc1 hunit' (by linarith) (by linarith) hp0 (by linarith) (by linarith)
      exact hnw ⟨this.2, this.1⟩
    · -- both negative: s p + t q ≤ (s+t)·max ≤ max
      have hp' : p < 0 := not_le.mp hp0
      have hq' : q < 0 := not_le.mp hq0
      rcases le_total p q with h | h
      · have : s * p ≤ s * q := mul_le_mul_of_nonneg_left h hs
        have : (s + t) * q ≤ 1 * q := by nlinarith
        nlinarith
      · have : t * q ≤ t * p := mul_le_mul_of_nonneg_left h ht
        have : (s + t) * p ≤ 1 * p := by nlinarith
        nlinarith

/-! ### the planar acute-angle inequality in the wedge -/

/-- scale-invariant core of `wedge_planar` -/
theorem planar_core {lx la lb xa xb ab : ℝ} (hx : 0 < lx) (ha : 0 < la) (hb : 0 < lb)
    (hxb : xb ≤ lx * lb) (hab : ab ≤ la * lb) (hw : xb * ab - xa * (lb * lb) < 0) :
    2 - 2 * xa / (lx * la) ≤ (2 - 2 * xb / (lx * lb)) + (2 - 2 * ab / (la * lb)) := by
  have h1 : xb * la - xa * lb ≤ lx * (la * lb - ab) := by
    -- xa·lb > xb·ab / lb
    have h2 : xb * ab < xa * lb * lb := by linarith
    have h3 : 0 ≤ la * lb - ab := by linarith
    have h4 : xb * (la * lb - ab) ≤ lx * lb * (la * lb - ab) := mul_le_mul_of_nonneg_right hxb h3
    -- multiply the goal by lb > 0
    have : (xb * la - xa * lb) * lb ≤ lx * (la * lb - ab) * lb := by nlinarith
    exact le_of_mul_le_mul_right this hb
  have hxa : lx * la ≠ 0 := (mul_pos hx ha).ne'
  have hxb' : lx * lb ≠ 0 := (mul_pos hx hb).ne'
  have hab' : la * lb ≠ 0 := (mul_pos ha hb).ne'
  have key : (2 - 2 * xb / (lx * lb)) + (2 - 2 * ab / (la * lb)) - (2 - 2 * xa / (lx * la))
      = 2 * (lx * (la * lb - ab) - (xb * la - xa * lb)) / (lx * la * lb) := by
    field_simp; ring
  have hpos : 0 ≤ 2 * (lx * (la * lb - ab) - (xb * la - xa * lb)) / (lx * la * lb) :=
    div_nonneg (by linarith) (mul_pos (mul_pos hx ha) hb).le
  linarith

end S2Proofs.C17Err
