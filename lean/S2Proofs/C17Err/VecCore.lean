/-
  C17Err.VecCore — vector-level real lemmas for the error analysis of `interiorDist` (pure ℝ):

    * `mink`          Minkowski's inequality for triples, with given bounds of the two norms;
    * `mnorm`         `Σ_i (|s_j d_k| + |s_k d_j|)² ≤ (4/3)·|s|²·|d|²`   (the constant `2/√3` of the cross product);
    * `cross_err_vec` componentwise rounding bounds of a float cross product ⇒ bound of the error VECTOR;
    * `dir_delta`     the chord between the "latitude" unit vectors (ρ, σ) of `x` w.r.t. two normals `c`, `C`
                      is at most the chord between the two normals, itself at most `|c − C| / √(|c||C|)`;
    * `dir_change`    consequence for `ρ` (cosine of the latitude): `2|ρ_c − ρ| ≤ θ(|σ|+|σ_c|)(1+θ²)`.
-/
import S2Proofs.C17Err.Geom

set_option linter.unusedSimpArgs false
set_option linter.unusedVariables false

namespace S2Proofs.C17Err
open R3

/-! ### Minkowski -/

theorem cs3 (a1 a2 a3 b1 b2 b3 : ℝ) :
    (a1 * b1 + a2 * b2 + a3 * b3) ^ 2 ≤ (a1 ^ 2 + a2 ^ 2 + a3 ^ 2) * (b1 ^ 2 + b2 ^ 2 + b3 ^ 2) := by
  nlinarith [sq_nonneg (a1 * b2 - a2 * b1), sq_nonneg (a2 * b3 - a3 * b2), sq_nonneg (a3 * b1 - a1 * b3)]

theorem mink {a1 a2 a3 b1 b2 b3 A B : ℝ} (hA : 0 ≤ A) (hB : 0 ≤ B)
    (ha : a1 ^ 2 + a2 ^ 2 + a3 ^ 2 ≤ A ^ 2) (hb : b1 ^ 2 + b2 ^ 2 + b3 ^ 2 ≤ B ^ 2) :
    (a1 + b1) ^ 2 + (a2 + b2) ^ 2 + (a3 + b3) ^ 2 ≤ (A + B) ^ 2 := by
  have h := cs3 a1 a2 a3 b1 b2 b3
  have ha0 : 0 ≤ a1 ^ 2 + a2 ^ 2 + a3 ^ 2 := by positivity
  have hb0 : 0 ≤ b1 ^ 2 + b2 ^ 2 + b3 ^ 2 := by positivity
  have h2 : (a1 * b1 + a2 * b2 + a3 * b3) ^ 2 ≤ (A * B) ^ 2 := by
    calc (a1 * b1 + a2 * b2 + a3 * b3) ^ 2 ≤ (a1 ^ 2 + a2 ^ 2 + a3 ^ 2) * (b1 ^ 2 + b2 ^ 2 + b3 ^ 2) := h
      _ ≤ A ^ 2 * B ^ 2 := mul_le_mul ha hb hb0 (by positivity)
      _ = (A * B) ^ 2 := by ring
  have h3 : a1 * b1 + a2 * b2 + a3 * b3 ≤ A * B :=
    (abs_le_of_sq_le_sq' h2 (mul_nonneg hA hB)).2
  nlinarith

/-- from componentwise bounds to the sum of squares -/
theorem sq_sum_le {d1 d2 d3 m1 m2 m3 : ℝ} (h1 : |d1| ≤ m1) (h2 : |d2| ≤ m2) (h3 : |d3| ≤ m3) :
    d1 ^ 2 + d2 ^ 2 + d3 ^ 2 ≤ m1 ^ 2 + m2 ^ 2 + m3 ^ 2 := by
  have e1 := sq_le_sq' (by have := abs_le.mp h1; linarith [abs_nonneg d1]) (le_trans (le_abs_self d1) h1)
  have e2 := sq_le_sq' (by have := abs_le.mp h2; linarith [abs_nonneg d2]) (le_trans (le_abs_self d2) h2)
  have e3 := sq_le_sq' (by have := abs_le.mp h3; linarith [abs_nonneg d3]) (le_trans (le_abs_self d3) h3)
  linarith

/-! ### the constant 2/√3 -/

theorem mnorm (s1 s2 s3 d1 d2 d3 : ℝ) :
    (|s2 * d3| + |s3 * d2|) ^ 2 + (|s3 * d1| + |s1 * d3|) ^ 2 + (|s1 * d2| + |s2 * d1|) ^ 2
      ≤ 4 / 3 * ((s1 ^ 2 + s2 ^ 2 + s3 ^ 2) * (d1 ^ 2 + d2 ^ 2 + d3 ^ 2)) := by
  -- p_i = |s_i|, r_i = |d_i|
  have e : ∀ x y : ℝ, |x * y| = |x| * |y| := abs_mul
  rw [e, e, e, e, e, e]
  have q1 : s1 ^ 2 = |s1| ^ 2 := (sq_abs s1).symm
  have q2 : s2 ^ 2 = |s2| ^ 2 := (sq_abs s2).symm
  have q3 : s3 ^ 2 = |s3| ^ 2 := (sq_abs s3).symm
  have r1 : d1 ^ 2 = |d1| ^ 2 := (sq_abs d1).symm
  have r2 : d2 ^ 2 = |d2| ^ 2 := (sq_abs d2).symm
  have r3 : d3 ^ 2 = |d3| ^ 2 := (sq_abs d3).symm
  rw [q1, q2, q3, r1, r2, r3]
  generalize |s1| = p1
  generalize |s2| = p2
  generalize |s3| = p3
  generalize |d1| = t1
  generalize |d2| = t2
  generalize |d3| = t3
  -- with w_i = p_i t_i :  LHS = |p|²|t|² + (Σw)² − 2Σw² ,  (Σw)² ≤ 3Σw² , (Σw)² ≤ |p|²|t|²
  have hcs := cs3 p1 p2 p3 t1 t2 t3
  have h3 : (p1 * t1 + p2 * t2 + p3 * t3) ^ 2 ≤ 3 * ((p1 * t1) ^ 2 + (p2 * t2) ^ 2 + (p3 * t3) ^ 2) := by
    nlinarith [sq_nonneg (p1 * t1 - p2 * t2), sq_nonneg (p2 * t2 - p3 * t3), sq_nonneg (p3 * t3 - p1 * t1)]
  have hid : (p2 * t3 + p3 * t2) ^ 2 + (p3 * t1 + p1 * t3) ^ 2 + (p1 * t2 + p2 * t1) ^ 2
      = (p1 ^ 2 + p2 ^ 2 + p3 ^ 2) * (t1 ^ 2 + t2 ^ 2 + t3 ^ 2) + (p1 * t1 + p2 * t2 + p3 * t3) ^ 2
        - 2 * ((p1 * t1) ^ 2 + (p2 * t2) ^ 2 + (p3 * t3) ^ 2) := by ring
  rw [hid]
  linarith

/-! ### error vector of a float cross product -/

/-- `√3` and the constant `2/√3` -/
noncomputable def r3 : ℝ := Real.sqrt 3

theorem r3_sq : r3 * r3 = 3 := Real.mul_self_sqrt (by norm_num)
theorem r3_pos : 0 < r3 := Real.sqrt_pos.mpr (by norm_num)
theorem r3_lo : 17320508 / 10000000 < r3 := by
  have h := r3_sq; have hp := r3_pos
  by_contra hc
  have hc := not_lt.mp hc
  have : r3 * r3 ≤ 17320508 / 10000000 * (17320508 / 10000000) := mul_le_mul hc hc hp.le (by norm_num)
  norm_num at this
  linarith
theorem r3_hi : r3 < 17320509 / 10000000 := by
  have h := r3_sq; have hp := r3_pos
  by_contra hc
  have hc := not_lt.mp hc
  have : 17320509 / 10000000 * (17320509 / 10000000) ≤ r3 * r3 := mul_le_mul hc hc (by norm_num) hp.le
  norm_num at this
  linarith

/-- If each component of `c` is within `u·|X_i| + k·M_i + g` of `X_i` (`M_i = |s_j d_k| + |s_k d_j|`), then
    `|c − X| ≤ u·|X| + k·(2/√3)·|s|·|d| + 2g`. -/
theorem cross_err_vec {u k g : ℝ} (hu : 0 ≤ u) (hk : 0 ≤ k) (hg : 0 ≤ g)
    {c1 c2 c3 X1 X2 X3 s1 s2 s3 d1 d2 d3 LX Ls Ld : ℝ}
    (hLX : 0 ≤ LX) (hLs : 0 ≤ Ls) (hLd : 0 ≤ Ld)
    (hX : X1 ^ 2 + X2 ^ 2 + X3 ^ 2 ≤ LX ^ 2) (hs : s1 ^ 2 + s2 ^ 2 + s3 ^ 2 ≤ Ls ^ 2)
    (hd : d1 ^ 2 + d2 ^ 2 + d3 ^ 2 ≤ Ld ^ 2)
    (b1 : |c1 - X1| ≤ u * |X1| + k * (|s2 * d3| + |s3 * d2|) + g)
    (b2 : |c2 - X2| ≤ u * |X2| + k * (|s3 * d1| + |s1 * d3|) + g)
    (b3 : |c3 - X3| ≤ u * |X3| + k * (|s1 * d2| + |s2 * d1|) + g) :
    (c1 - X1) ^ 2 + (c2 - X2) ^ 2 + (c3 - X3) ^ 2 ≤ (u * LX + k * (2 / r3 * (Ls * Ld)) + 2 * g) ^ 2 := by
  have h := sq_sum_le b1 b2 b3
  -- first block
  have hA : (u * |X1|) ^ 2 + (u * |X2|) ^ 2 + (u * |X3|) ^ 2 ≤ (u * LX) ^ 2 := by
    have e : (u * |X1|) ^ 2 + (u * |X2|) ^ 2 + (u * |X3|) ^ 2 = u ^ 2 * (X1 ^ 2 + X2 ^ 2 + X3 ^ 2) := by
      rw [mul_pow, mul_pow, mul_pow, sq_abs, sq_abs, sq_abs]; ring
    rw [e, mul_pow]
    exact mul_le_mul_of_nonneg_left hX (sq_nonneg u)
  -- second block
  have hM := mnorm s1 s2 s3 d1 d2 d3
  have hr := r3_sq
  have hrp := r3_pos
  have hB : (k * (|s2 * d3| + |s3 * d2|)) ^ 2 + (k * (|s3 * d1| + |s1 * d3|)) ^ 2 + (k * (|s1 * d2| + |s2 * d1|)) ^ 2
      ≤ (k * (2 / r3 * (Ls * Ld))) ^ 2 := by
    have e : (k * (|s2 * d3| + |s3 * d2|)) ^ 2 + (k * (|s3 * d1| + |s1 * d3|)) ^ 2 + (k * (|s1 * d2| + |s2 * d1|)) ^ 2
        = k ^ 2 * ((|s2 * d3| + |s3 * d2|) ^ 2 + (|s3 * d1| + |s1 * d3|) ^ 2 + (|s1 * d2| + |s2 * d1|) ^ 2) := by ring
    have e2 : (k * (2 / r3 * (Ls * Ld))) ^ 2 = k ^ 2 * (4 / 3 * (Ls ^ 2 * Ld ^ 2)) := by
      have : (2 / r3) ^ 2 = 4 / 3 := by
        rw [div_pow, sq r3, hr]; norm_num
      calc (k * (2 / r3 * (Ls * Ld))) ^ 2 = k ^ 2 * ((2 / r3) ^ 2 * (Ls ^ 2 * Ld ^ 2)) := by ring
        _ = k ^ 2 * (4 / 3 * (Ls ^ 2 * Ld ^ 2)) := by rw [this]
    rw [e, e2]
    apply mul_le_mul_of_nonneg_left _ (sq_nonneg k)
    have h1 : (s1 ^ 2 + s2 ^ 2 + s3 ^ 2) * (d1 ^ 2 + d2 ^ 2 + d3 ^ 2) ≤ Ls ^ 2 * Ld ^ 2 :=
      mul_le_mul hs hd (by positivity) (by positivity)
    linarith
  -- third block
  have hC : g ^ 2 + g ^ 2 + g ^ 2 ≤ (2 * g) ^ 2 := by
    have e : (2 * g) ^ 2 = 4 * g ^ 2 := by ring
    rw [e]; have := sq_nonneg g; linarith
  have hAB := mink (mul_nonneg hu hLX)
    (mul_nonneg hk (mul_nonneg (div_nonneg (by norm_num) hrp.le) (mul_nonneg hLs hLd))) hA hB
  have hABC := mink (add_nonneg (mul_nonneg hu hLX)
    (mul_nonneg hk (mul_nonneg (div_nonneg (by norm_num) hrp.le) (mul_nonneg hLs hLd)))) (by linarith : 0 ≤ 2 * g) hAB hC
  exact le_trans h hABC

/-! ### change of the normal -/

/-- vector difference -/
def R3.sub (u v : R3) : R3 := ⟨u.x - v.x, u.y - v.y, u.z - v.z⟩

theorem sub_n2 (u v : R3) : (R3.sub u v).n2 = u.n2 + v.n2 - 2 * u.dot v := by
  unfold R3.sub n2 dot; ring

/-- chord between the latitude vectors ≤ chord between the normals ≤ `|c−C|²/(|c||C|)` (all multiplied out):
    with `Lc = |c|`, `LC = |C|`, `lx = |X|`:
    `(2 − 2·((|c×X|·|C×X| + (c·X)(C·X)) / (Lc·LC·lx²)))·Lc·LC ≤ |c − C|²` -/
theorem dir_delta (c C X : R3) :
    2 * (c.len * C.len * X.n2) - 2 * ((c.cross X).len * (C.cross X).len + c.dot X * C.dot X)
      ≤ (R3.sub c C).n2 * X.n2 := by
  have hb := binet c C X
  have hcs := abs_dot_le (c.cross X) (C.cross X)
  have h1 : (c.cross X).dot (C.cross X) ≤ (c.cross X).len * (C.cross X).len := le_trans (le_abs_self _) hcs
  rw [hb] at h1
  -- c·C·|X|² ≤ |c×X||C×X| + (c·X)(C·X)
  have h2 : c.dot C * X.n2 ≤ (c.cross X).len * (C.cross X).len + c.dot X * C.dot X := by
    unfold n2; linarith
  -- |c−C|² = Lc² + LC² − 2 c·C ≥ 2 Lc LC − 2 c·C
  have h3 : 2 * (c.len * C.len) - 2 * c.dot C ≤ (R3.sub c C).n2 := by
    rw [sub_n2, ← len_sq c, ← len_sq C]
    nlinarith [sq_nonneg (c.len - C.len)]
  have hX := n2_nonneg X
  have h4 := mul_le_mul_of_nonneg_right h3 hX
  nlinarith

/-- scalar consequence for the latitude: `σ = sin`, `ρ = cos ≥ 0` -/
theorem dir_change {σc ρc σ ρ θ : ℝ} (h1 : σc ^ 2 + ρc ^ 2 = 1) (h2 : σ ^ 2 + ρ ^ 2 = 1)
    (hθ0 : 0 ≤ θ) (hθ1 : θ ≤ 1 / 2) (hΔ : 2 - 2 * (ρc * ρ + σc * σ) ≤ θ ^ 2) :
    |σc - σ| ≤ θ ∧ 2 * |ρc - ρ| ≤ θ * (|σ| + |σc|) * (1 + θ ^ 2) := by
  have hsum : (σc - σ) ^ 2 + (ρc - ρ) ^ 2 = 2 - 2 * (ρc * ρ + σc * σ) := by nlinarith
  have hΔ0 : 0 ≤ 2 - 2 * (ρc * ρ + σc * σ) := by rw [← hsum]; positivity
  constructor
  · apply abs_le_of_sq_le_sq' _ hθ0 |>.elim (fun a b => abs_le.mpr ⟨a, b⟩)
    nlinarith [sq_nonneg (ρc - ρ)]
  · set Δ := 2 - 2 * (ρc * ρ + σc * σ) with hΔd
    -- (ρc−ρ)²(4−Δ) = Δ(σc+σ)²
    have hkey : (ρc - ρ) ^ 2 * (4 - Δ) = Δ * (σc + σ) ^ 2 := by
      have e1 : (ρc - ρ) * (ρc + ρ) = -((σc - σ) * (σc + σ)) := by nlinarith
      have e2 : 4 - Δ = (ρc + ρ) ^ 2 + (σc + σ) ^ 2 := by rw [hΔd]; nlinarith
      rw [e2, ← hsum]
      have e3 : (ρc - ρ) ^ 2 * (ρc + ρ) ^ 2 = (σc - σ) ^ 2 * (σc + σ) ^ 2 := by
        have : ((ρc - ρ) * (ρc + ρ)) ^ 2 = ((σc - σ) * (σc + σ)) ^ 2 := by rw [e1]; ring
        nlinarith
      nlinarith
    have hs : (σc + σ) ^ 2 ≤ (|σ| + |σc|) ^ 2 := by
      have := abs_add_le σc σ
      have h0 := abs_nonneg (σc + σ)
      have : |σc + σ| ^ 2 ≤ (|σ| + |σc|) ^ 2 := pow_le_pow_left₀ h0 (by linarith) 2
      rwa [sq_abs] at this
    have h4pos : 0 < 4 - Δ := by nlinarith
    have hθ2 : θ ^ 2 ≤ 1 / 4 := by nlinarith
    -- 4(ρc−ρ)² (4−Δ) ≤ 4 θ² S² ≤ (1+θ²)²(4−Δ) θ² S²
    set S := |σ| + |σc| with hS
    have hS0 : 0 ≤ S := by rw [hS]; positivity
    have hfac : 4 ≤ (1 + θ ^ 2) ^ 2 * (4 - Δ) := by
      have : (1 + θ ^ 2) ^ 2 * (4 - θ ^ 2) ≤ (1 + θ ^ 2) ^ 2 * (4 - Δ) :=
        mul_le_mul_of_nonneg_left (by linarith) (by positivity)
      nlinarith [sq_nonneg θ, sq_nonneg (θ ^ 2)]
    have hm : (2 * |ρc - ρ|) ^ 2 * (4 - Δ) ≤ (θ * S * (1 + θ ^ 2)) ^ 2 * (4 - Δ) := by
      have e1 : (2 * |ρc - ρ|) ^ 2 * (4 - Δ) = 4 * ((ρc - ρ) ^ 2 * (4 - Δ)) := by
        rw [mul_pow, sq_abs]; ring
      rw [e1, hkey]
      have h5 : Δ * (σc + σ) ^ 2 ≤ θ ^ 2 * S ^ 2 := mul_le_mul hΔ hs (sq_nonneg _) (sq_nonneg _)
      have h6 : 4 * (θ ^ 2 * S ^ 2) ≤ (1 + θ ^ 2) ^ 2 * (4 - Δ) * (θ ^ 2 * S ^ 2) :=
        mul_le_mul_of_nonneg_right hfac (by positivity)
      have e2 : (θ * S * (1 + θ ^ 2)) ^ 2 * (4 - Δ) = (1 + θ ^ 2) ^ 2 * (4 - Δ) * (θ ^ 2 * S ^ 2) := by ring
      rw [e2]; linarith
    have hsq : (2 * |ρc - ρ|) ^ 2 ≤ (θ * S * (1 + θ ^ 2)) ^ 2 := le_of_mul_le_mul_right hm h4pos
    exact (abs_le_of_sq_le_sq' hsq (by positivity)).2

end S2Proofs.C17Err
