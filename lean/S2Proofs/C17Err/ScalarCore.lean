/-
  C17Err.ScalarCore — scalar real-analysis lemmas for the interior distance formula

        dist = fl( fl( fl(xd·xd) / c2 ) + fl( qr·qr ) ),   qr = fl(1 − fl(√ fl(W / c2))) ,

  xd = fl(x·c), c2 = fl(|c|²), W = fl(|fl(c×x)|²).  Pure ℝ; roundings enter as `Rnd u e`.
-/
import S2Proofs.FloatErr.RealCore
import Mathlib.Analysis.Real.Sqrt
import Mathlib.Tactic.FieldSimp

set_option linter.unusedSimpArgs false
set_option linter.unusedVariables false

namespace S2Proofs.C17Err
open S2Proofs.FloatErr

/-! ### small generic facts -/

theorem sq_diff_le {s t ε : ℝ} (h : |s - t| ≤ ε) : |s * s - t * t| ≤ ε * (2 * |t| + ε) := by
  have hε : 0 ≤ ε := le_trans (abs_nonneg _) h
  have e : s * s - t * t = (s - t) * (s + t) := by ring
  rw [e, abs_mul]
  have h2 : |s + t| ≤ 2 * |t| + ε := by
    have e2 : s + t = (s - t) + 2 * t := by ring
    rw [e2]
    have := abs_add_le (s - t) (2 * t)
    rw [abs_mul, abs_of_pos (by norm_num : (0 : ℝ) < 2)] at this
    linarith
  exact mul_le_mul h h2 (abs_nonneg _) hε

/-- dividing by a number within `g` of 1 -/
theorem quot_pert {p w g : ℝ} (hg0 : 0 ≤ g) (hg : g ≤ 1 / 4) (hw : |w - 1| ≤ g) :
    |p / w - p| ≤ |p| * (g * (1 + 2 * g)) := by
  obtain ⟨w1, w2⟩ := abs_le.mp hw
  have hwpos : 0 < w := by linarith
  have e : p / w - p = p * ((1 - w) / w) := by field_simp
  rw [e, abs_mul]
  apply mul_le_mul_of_nonneg_left _ (abs_nonneg _)
  rw [abs_div, abs_of_pos hwpos, div_le_iff₀ hwpos]
  have h1 : |1 - w| ≤ g := by rw [abs_sub_comm]; exact hw
  have h2 : g ≤ g * (1 + 2 * g) * w := by
    have : 1 ≤ (1 + 2 * g) * (1 - g) := by nlinarith
    have h3 : (1 + 2 * g) * (1 - g) ≤ (1 + 2 * g) * w := mul_le_mul_of_nonneg_left (by linarith) (by linarith)
    nlinarith
  linarith

theorem rnd_le {u e x y : ℝ} (h : Rnd u e x y) : |y - x| ≤ u * |x| + e := h

/-! ### the term `T1 = fl( fl(xd²) / c2 )` -/

/-- Relative error collected by `T1` against `s² = (xd/Lc)²`:
    `r1 = (1+u)·(u·(1+g') + g') + u`, `g' = g(1+2g)` where `|c2/Lc² − 1| ≤ g`. -/
noncomputable def relT1 (u g : ℝ) : ℝ := (1 + u) * (u * (1 + g * (1 + 2 * g)) + g * (1 + 2 * g)) + u

/-- `T1` against `s²`, `s = xd / Lc` : given `w = c2/Lc²` within `g` of 1 and `tiny ≥ e/Lc²` -/
theorem t1_vs_s {u e g tiny s p2 w T1 : ℝ} (hu : 0 ≤ u) (hu1 : u ≤ 1) (he : 0 ≤ e) (hg0 : 0 ≤ g) (hg : g ≤ 1 / 4)
    (htiny : e ≤ tiny)
    (hp2 : |p2 - s * s| ≤ u * (s * s) + tiny) (hw : |w - 1| ≤ g)
    (hT : Rnd u e (p2 / w) T1) :
    |T1 - s * s| ≤ relT1 u g * (s * s) + 5 * tiny := by
  have hss : 0 ≤ s * s := mul_self_nonneg s
  have hq := quot_pert (p := p2) hg0 hg hw
  set g' := g * (1 + 2 * g) with hg'
  have hg'0 : 0 ≤ g' := by rw [hg']; positivity
  have hg'1 : g' ≤ 1 := by rw [hg']; nlinarith
  -- |p2| ≤ (1+u) s² + tiny
  have hp2a : |p2| ≤ (1 + u) * (s * s) + tiny := by
    have := abs_sub_abs_le_abs_sub p2 (s * s)
    rw [abs_of_nonneg hss] at this
    linarith
  have htiny0 : 0 ≤ tiny := le_trans he htiny
  -- |p2/w| ≤ |p2| (1 + g')
  have hpw : |p2 / w| ≤ |p2| * (1 + g') := by
    have := abs_sub_abs_le_abs_sub (p2 / w) p2
    linarith
  unfold Rnd at hT
  have h1 : |T1 - s * s| ≤ |T1 - p2 / w| + |p2 / w - p2| + |p2 - s * s| := by
    have e1 : T1 - s * s = (T1 - p2 / w) + (p2 / w - p2) + (p2 - s * s) := by ring
    rw [e1]; exact abs_add_three _ _ _
  have h2 : u * |p2 / w| ≤ u * (|p2| * (1 + g')) := mul_le_mul_of_nonneg_left hpw hu
  have hA : |p2| * (u * (1 + g') + g') ≤ ((1 + u) * (s * s) + tiny) * (u * (1 + g') + g') :=
    mul_le_mul_of_nonneg_right hp2a (by positivity)
  have hB : tiny * (u * (1 + g') + g') ≤ tiny * 3 := by
    apply mul_le_mul_of_nonneg_left _ htiny0
    nlinarith
  have e2 : relT1 u g * (s * s) = (1 + u) * (s * s) * (u * (1 + g') + g') + u * (s * s) := by
    unfold relT1; rw [← hg']; ring
  have e3 : u * (|p2| * (1 + g')) + |p2| * g' = |p2| * (u * (1 + g') + g') := by ring
  have e4 : ((1 + u) * (s * s) + tiny) * (u * (1 + g') + g')
      = (1 + u) * (s * s) * (u * (1 + g') + g') + tiny * (u * (1 + g') + g') := by ring
  linarith

/-- **`T1` against `lx²σ²`** -/
theorem t1_core {u e g tiny es s lxs p2 w T1 : ℝ} (hu : 0 ≤ u) (hu1 : u ≤ 1) (he : 0 ≤ e)
    (hg0 : 0 ≤ g) (hg : g ≤ 1 / 4) (htiny : e ≤ tiny)
    (hs : |s - lxs| ≤ es)
    (hp2 : |p2 - s * s| ≤ u * (s * s) + tiny) (hw : |w - 1| ≤ g) (hT : Rnd u e (p2 / w) T1) :
    |T1 - lxs * lxs| ≤ relT1 u g * ((|lxs| + es) * (|lxs| + es)) + 5 * tiny + es * (2 * |lxs| + es) := by
  have h1 := t1_vs_s hu hu1 he hg0 hg htiny hp2 hw hT
  have h2 := sq_diff_le hs
  have hes : 0 ≤ es := le_trans (abs_nonneg _) hs
  have hsabs : |s| ≤ |lxs| + es := by
    have := abs_sub_abs_le_abs_sub s lxs; linarith
  have hss : s * s ≤ (|lxs| + es) * (|lxs| + es) := by
    have : s * s = |s| * |s| := (abs_mul_abs_self s).symm
    rw [this]
    exact mul_le_mul hsabs hsabs (abs_nonneg _) (by positivity)
  have hr : 0 ≤ relT1 u g := by unfold relT1; positivity
  have h3 : relT1 u g * (s * s) ≤ relT1 u g * ((|lxs| + es) * (|lxs| + es)) := mul_le_mul_of_nonneg_left hss hr
  have h4 : |T1 - lxs * lxs| ≤ |T1 - s * s| + |s * s - lxs * lxs| := abs_sub_le _ _ _
  linarith

/-! ### square roots -/

theorem sqrt_one_add_le {x : ℝ} (hx : 0 ≤ x) : Real.sqrt (1 + x) ≤ 1 + x / 2 := by
  rw [Real.sqrt_le_left (by linarith)]
  nlinarith

theorem le_sqrt_one_sub {x : ℝ} (hx : 0 ≤ x) (hx1 : x ≤ 1 / 2) : 1 - x / 2 - x ^ 2 ≤ Real.sqrt (1 - x) := by
  apply Real.le_sqrt_of_sq_le
  nlinarith [sq_nonneg x, mul_nonneg hx hx, mul_nonneg (mul_nonneg hx hx) hx]

/-- `√(m²·Θ + t)` for `Θ ∈ [1−x, 1+x]`, `|t| ≤ τ²` : within `m·(x/2 + x²) + τ` of `m` -/
theorem sqrt_pert {m x τ R : ℝ} (hm : 0 ≤ m) (hx : 0 ≤ x) (hx1 : x ≤ 1 / 2) (hτ : 0 ≤ τ)
    (hR0 : 0 ≤ R) (hlo : m * m * (1 - x) - τ * τ ≤ R) (hhi : R ≤ m * m * (1 + x) + τ * τ) :
    |Real.sqrt R - m| ≤ m * (x / 2 + x ^ 2) + τ := by
  rw [abs_le]
  constructor
  · -- lower bound
    have h1 := le_sqrt_one_sub hx hx1
    by_cases hc : m * (1 - x / 2 - x ^ 2) - τ ≤ 0
    · have := Real.sqrt_nonneg R; nlinarith
    · have hc := not_le.mp hc
      have h2 : m * (1 - x / 2 - x ^ 2) - τ ≤ Real.sqrt R := by
        apply Real.le_sqrt_of_sq_le
        -- (m f − τ)² ≤ m² f² − τ² ... use (mf − τ)² ≤ (mf)² − τ² when mf ≥ τ :  (mf−τ)² = m²f² − 2mfτ + τ² ≤ m²f² − τ² iff 2τ² ≤ 2 mfτ
        set f := 1 - x / 2 - x ^ 2 with hf
        have hf2 : f ^ 2 ≤ 1 - x := by
          have h3 : 0 ≤ f := by rw [hf]; nlinarith
          have := Real.sq_sqrt (by linarith : (0 : ℝ) ≤ 1 - x)
          have h4 : f ^ 2 ≤ Real.sqrt (1 - x) ^ 2 := pow_le_pow_left₀ h3 h1 2
          linarith
        have hmf : τ ≤ m * f := by linarith
        have h5 : (m * f - τ) ^ 2 ≤ (m * f) ^ 2 - τ * τ := by nlinarith
        have h6 : (m * f) ^ 2 ≤ m * m * (1 - x) := by
          have : (m * f) ^ 2 = m * m * f ^ 2 := by ring
          rw [this]; exact mul_le_mul_of_nonneg_left hf2 (mul_self_nonneg m)
        linarith
      nlinarith
  · have h1 := sqrt_one_add_le hx
    have h2 : Real.sqrt R ≤ m * (1 + x / 2) + τ := by
      rw [Real.sqrt_le_left (by positivity)]
      have h3 : Real.sqrt (1 + x) ^ 2 = 1 + x := Real.sq_sqrt (by linarith)
      have h4 : 1 + x ≤ (1 + x / 2) ^ 2 := by nlinarith
      have h5 : m * m * (1 + x) ≤ (m * (1 + x / 2)) ^ 2 := by
        have : (m * (1 + x / 2)) ^ 2 = m * m * (1 + x / 2) ^ 2 := by ring
        rw [this]; exact mul_le_mul_of_nonneg_left h4 (mul_self_nonneg m)
      have h6 : 0 ≤ m * (1 + x / 2) * τ := by positivity
      nlinarith
    nlinarith [sq_nonneg x, mul_nonneg hm (sq_nonneg x)]


/-! ### the term `T2 = fl(qr²)`, `qr = fl(1 − q)`, `q = fl(√Rr)`, `Rr = fl(W/c2)` -/

/-- relative spread of `Rr` around `m² = (|cx|/Lc)²` : `x = (1+r)(1+g')(1+u) − 1` -/
noncomputable def relR (u r g : ℝ) : ℝ := (1 + r) * (1 + g * (1 + 2 * g)) * (1 + u) - 1

/-- `Rr` in terms of `m²` -/
theorem rr_bounds {u e r g tiny τ m pW w Rr : ℝ} (hu : 0 ≤ u) (hu1 : u ≤ 1 / 4) (he : 0 ≤ e)
    (hr0 : 0 ≤ r) (hr1 : r ≤ 1 / 4) (hg0 : 0 ≤ g) (hg : g ≤ 1 / 8) (htiny : e ≤ tiny) (hτ : 3 * tiny ≤ τ * τ)
    (hpW0 : 0 ≤ pW) (hpW : |pW - m * m| ≤ r * (m * m) + tiny) (hw : |w - 1| ≤ g)
    (hR : Rnd u e (pW / w) Rr) :
    m * m * (1 - relR u r g) - τ * τ ≤ Rr ∧ Rr ≤ m * m * (1 + relR u r g) + τ * τ := by
  have hmm : 0 ≤ m * m := mul_self_nonneg m
  have hq := quot_pert (p := pW) hg0 (by linarith) hw
  set g' := g * (1 + 2 * g) with hg'
  have hg'0 : 0 ≤ g' := by rw [hg']; positivity
  have hg'1 : g' ≤ 1 / 4 := by rw [hg']; nlinarith
  rw [abs_of_nonneg hpW0] at hq
  obtain ⟨q1, q2⟩ := abs_le.mp hq
  obtain ⟨p1, p2⟩ := abs_le.mp hpW
  have htiny0 : 0 ≤ tiny := le_trans he htiny
  have hquot0 : 0 ≤ pW / w := by
    have : 0 ≤ pW * (1 - g') := mul_nonneg hpW0 (by linarith)
    linarith
  unfold Rnd at hR
  rw [abs_of_nonneg hquot0] at hR
  obtain ⟨r1, r2⟩ := abs_le.mp hR
  constructor
  · -- lower
    have h1 : pW * (1 - g') * (1 - u) - e ≤ Rr := by
      have : pW * (1 - g') * (1 - u) ≤ pW / w * (1 - u) :=
        mul_le_mul_of_nonneg_right (by linarith) (by linarith)
      linarith
    have hB0 : 0 ≤ (1 - g') * (1 - u) := mul_nonneg (by linarith) (by linarith)
    have hB1 : (1 - g') * (1 - u) ≤ 1 := by nlinarith
    have h2 : (m * m * (1 - r) - tiny) * ((1 - g') * (1 - u)) ≤ pW * ((1 - g') * (1 - u)) :=
      mul_le_mul_of_nonneg_right (by linarith) hB0
    have h3 : tiny * ((1 - g') * (1 - u)) ≤ tiny := by
      have := mul_le_mul_of_nonneg_left hB1 htiny0; linarith
    -- (1−r)(1−g')(1−u) ≥ 1 − x
    have h4 : 1 - relR u r g ≤ (1 - r) * ((1 - g') * (1 - u)) := by
      unfold relR; rw [← hg']
      have e : (1 - r) * ((1 - g') * (1 - u)) - (1 - ((1 + r) * (1 + g') * (1 + u) - 1))
          = 2 * (r * g' + r * u + g' * u) := by ring
      have : 0 ≤ 2 * (r * g' + r * u + g' * u) := by positivity
      linarith
    have h5 : m * m * (1 - relR u r g) ≤ m * m * ((1 - r) * ((1 - g') * (1 - u))) :=
      mul_le_mul_of_nonneg_left h4 hmm
    have e6 : (m * m * (1 - r) - tiny) * ((1 - g') * (1 - u))
        = m * m * ((1 - r) * ((1 - g') * (1 - u))) - tiny * ((1 - g') * (1 - u)) := by ring
    have e7 : pW * ((1 - g') * (1 - u)) = pW * (1 - g') * (1 - u) := by ring
    linarith
  · have h1 : Rr ≤ pW * (1 + g') * (1 + u) + e := by
      have : pW / w * (1 + u) ≤ pW * (1 + g') * (1 + u) :=
        mul_le_mul_of_nonneg_right (by linarith) (by linarith)
      linarith
    have hA0 : 0 ≤ (1 + g') * (1 + u) := by positivity
    have hA2 : (1 + g') * (1 + u) ≤ 2 := by nlinarith
    have h2 : pW * ((1 + g') * (1 + u)) ≤ (m * m * (1 + r) + tiny) * ((1 + g') * (1 + u)) :=
      mul_le_mul_of_nonneg_right (by linarith) hA0
    have h3 : tiny * ((1 + g') * (1 + u)) ≤ tiny * 2 := mul_le_mul_of_nonneg_left hA2 htiny0
    have e4 : m * m * (1 + relR u r g) = m * m * (1 + r) * ((1 + g') * (1 + u)) := by
      unfold relR; rw [← hg']; ring
    have e5 : (m * m * (1 + r) + tiny) * ((1 + g') * (1 + u))
        = m * m * (1 + r) * ((1 + g') * (1 + u)) + tiny * ((1 + g') * (1 + u)) := by ring
    have e6 : pW * ((1 + g') * (1 + u)) = pW * (1 + g') * (1 + u) := by ring
    linarith

/-- the computed square root `q` against `m` -/
theorem q_vs_m {u x τ m Rr q : ℝ} (hu : 0 ≤ u) (hm : 0 ≤ m) (hx : 0 ≤ x) (hx1 : x ≤ 1 / 2) (hτ : 0 ≤ τ)
    (hR0 : 0 ≤ Rr) (hlo : m * m * (1 - x) - τ * τ ≤ Rr) (hhi : Rr ≤ m * m * (1 + x) + τ * τ)
    (hq : |q - Real.sqrt Rr| ≤ u * Real.sqrt Rr) :
    |q - m| ≤ (1 + u) * (m * (x / 2 + x ^ 2) + τ) + u * m := by
  have h1 := sqrt_pert hm hx hx1 hτ hR0 hlo hhi
  have h2 : |q - m| ≤ |q - Real.sqrt Rr| + |Real.sqrt Rr - m| := abs_sub_le _ _ _
  have h3 : Real.sqrt Rr ≤ m + (m * (x / 2 + x ^ 2) + τ) := by
    have := (abs_le.mp h1).2; linarith
  have h4 : u * Real.sqrt Rr ≤ u * (m + (m * (x / 2 + x ^ 2) + τ)) := mul_le_mul_of_nonneg_left h3 hu
  have e : (1 + u) * (m * (x / 2 + x ^ 2) + τ) + u * m
      = u * (m + (m * (x / 2 + x ^ 2) + τ)) + (m * (x / 2 + x ^ 2) + τ) := by ring
  linarith

/-- relative error of `T2` against `(1−q)²` : `(1+u)³ − 1` -/
noncomputable def relT2 (u : ℝ) : ℝ := (1 + u) ^ 3 - 1

/-- **`T2` against `(1 − lxρ)²`** -/
theorem t2_core {u e eq q lxr qr T2 : ℝ} (hu : 0 ≤ u) (he : 0 ≤ e)
    (hq : |q - lxr| ≤ eq) (hqr : Rnd u 0 (1 - q) qr) (hT : Rnd u e (qr * qr) T2) :
    |T2 - (1 - lxr) * (1 - lxr)|
      ≤ relT2 u * ((|1 - lxr| + eq) * (|1 - lxr| + eq)) + e + eq * (2 * |1 - lxr| + eq) := by
  have heq : 0 ≤ eq := le_trans (abs_nonneg _) hq
  have hs : |(1 - q) - (1 - lxr)| ≤ eq := by
    have e1 : (1 - q) - (1 - lxr) = -(q - lxr) := by ring
    rw [e1, abs_neg]; exact hq
  have h1 := sq_diff_le hs
  have hqa : |1 - q| ≤ |1 - lxr| + eq := by
    have := abs_sub_abs_le_abs_sub (1 - q) (1 - lxr); linarith
  have hqq : (1 - q) * (1 - q) ≤ (|1 - lxr| + eq) * (|1 - lxr| + eq) := by
    rw [← abs_mul_abs_self (1 - q)]
    exact mul_le_mul hqa hqa (abs_nonneg _) (by positivity)
  -- qr² against (1−q)²
  have h2 : |qr * qr - (1 - q) * (1 - q)| ≤ (2 * u + u ^ 2) * ((1 - q) * (1 - q)) := by
    unfold Rnd at hqr; rw [add_zero] at hqr
    have := sq_diff_le hqr
    have e2 : u * |1 - q| * (2 * |1 - q| + u * |1 - q|) = (2 * u + u ^ 2) * (|1 - q| * |1 - q|) := by ring
    rw [e2, abs_mul_abs_self] at this
    exact this
  have h00 : 0 ≤ (1 - q) * (1 - q) := mul_self_nonneg _
  have h3 : |qr * qr| ≤ (1 + (2 * u + u ^ 2)) * ((1 - q) * (1 - q)) := by
    have := abs_sub_abs_le_abs_sub (qr * qr) ((1 - q) * (1 - q))
    rw [abs_of_nonneg h00] at this; linarith
  unfold Rnd at hT
  have h4 : |T2 - (1 - q) * (1 - q)| ≤ relT2 u * ((1 - q) * (1 - q)) + e := by
    have h5 : |T2 - (1 - q) * (1 - q)| ≤ |T2 - qr * qr| + |qr * qr - (1 - q) * (1 - q)| := abs_sub_le _ _ _
    have h6 : u * |qr * qr| ≤ u * ((1 + (2 * u + u ^ 2)) * ((1 - q) * (1 - q))) := mul_le_mul_of_nonneg_left h3 hu
    have e7 : relT2 u * ((1 - q) * (1 - q))
        = u * ((1 + (2 * u + u ^ 2)) * ((1 - q) * (1 - q))) + (2 * u + u ^ 2) * ((1 - q) * (1 - q)) := by
      unfold relT2; ring
    linarith
  have hr : 0 ≤ relT2 u := by
    unfold relT2
    have : (1 : ℝ) ≤ (1 + u) ^ 3 := one_le_pow₀ (by linarith)
    linarith
  have h7 : relT2 u * ((1 - q) * (1 - q)) ≤ relT2 u * ((|1 - lxr| + eq) * (|1 - lxr| + eq)) :=
    mul_le_mul_of_nonneg_left hqq hr
  have h8 : |T2 - (1 - lxr) * (1 - lxr)| ≤ |T2 - (1 - q) * (1 - q)| + |(1 - q) * (1 - q) - (1 - lxr) * (1 - lxr)| :=
    abs_sub_le _ _ _
  linarith

end S2Proofs.C17Err
