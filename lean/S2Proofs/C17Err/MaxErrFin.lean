/-
  C17Err.MaxErrFin — the library's `minUpdateDistanceMaxError(d) = max(minUpdateInteriorDistanceMaxError(d),
  d.MaxPointError())` is finite and at least `MaxPointError(d)` for every finite chord `0 ≤ d ≤ 4`
  (every float operation of `minUpdateInteriorDistanceMaxError` is followed through).
-/
import S2Proofs.C17Err.InteriorChain

set_option linter.unusedSimpArgs false
set_option linter.unusedVariables false

namespace S2Proofs.C17Err
open S2 S2.Exact S2.EdgeNum S2Proofs.F64Order S2Proofs.FloatErr

/-- finite float with `|value| ≤ 16` -/
def Small (x : F64) : Prop := Fin x ∧ |val x| ≤ 16

theorem small_of_int {x : F64} (hf : Fin x) (h : |toInt x| ≤ 16 * 2 ^ 1074) : Small x := by
  refine ⟨hf, ?_⟩
  unfold val
  rw [abs_div, abs_of_pos (by positivity : (0 : ℝ) < 2 ^ 1074), div_le_iff₀ (by positivity)]
  have : ((|toInt x| : ℤ) : ℝ) ≤ ((16 * 2 ^ 1074 : ℤ) : ℝ) := Int.cast_le.mpr h
  push_cast at this
  exact this

theorem consts_small : Small meK1 ∧ Small f8p5 ∧ Small meK2 ∧ Small f6p5 ∧ Small meK3 ∧ Small dblEpsilonF ∧
    Small f1 ∧ Small f2 ∧ Small fhalf ∧ Small fz := by
  have h : (Fin meK1 ∧ |toInt meK1| ≤ 16 * 2 ^ 1074) ∧ (Fin f8p5 ∧ |toInt f8p5| ≤ 16 * 2 ^ 1074) ∧
      (Fin meK2 ∧ |toInt meK2| ≤ 16 * 2 ^ 1074) ∧ (Fin f6p5 ∧ |toInt f6p5| ≤ 16 * 2 ^ 1074) ∧
      (Fin meK3 ∧ |toInt meK3| ≤ 16 * 2 ^ 1074) ∧ (Fin dblEpsilonF ∧ |toInt dblEpsilonF| ≤ 16 * 2 ^ 1074) ∧
      (Fin f1 ∧ |toInt f1| ≤ 16 * 2 ^ 1074) ∧ (Fin f2 ∧ |toInt f2| ≤ 16 * 2 ^ 1074) ∧
      (Fin fhalf ∧ |toInt fhalf| ≤ 16 * 2 ^ 1074) ∧ (Fin fz ∧ |toInt fz| ≤ 16 * 2 ^ 1074) := by decide +kernel
  obtain ⟨a1, a2, a3, a4, a5, a6, a7, a8, a9, a10⟩ := h
  exact ⟨small_of_int a1.1 a1.2, small_of_int a2.1 a2.2, small_of_int a3.1 a3.2, small_of_int a4.1 a4.2,
    small_of_int a5.1 a5.2, small_of_int a6.1 a6.2, small_of_int a7.1 a7.2, small_of_int a8.1 a8.2,
    small_of_int a9.1 a9.2, small_of_int a10.1 a10.2⟩

/-- generic steps that only track finiteness and a magnitude bound -/
theorem mul_fin {x y : F64} {X Y : ℝ} (hx : Fin x) (hy : Fin y) (bx : |val x| ≤ X) (by' : |val y| ≤ Y)
    (hXY : X * Y ≤ 2 ^ 29) : Fin (x * y) ∧ |val (x * y)| ≤ 2 * (X * Y) + 1 := by
  have m : |val x * val y| ≤ X * Y := abs_mul_le_of bx by'
  obtain ⟨f, _, b⟩ := mul_step stdModel hx hy m (le_trans hXY (by norm_num))
  exact ⟨f, b⟩

theorem add_fin {x y : F64} {X Y : ℝ} (hx : Fin x) (hy : Fin y) (bx : |val x| ≤ X) (by' : |val y| ≤ Y)
    (hXY : X + Y ≤ 2 ^ 29) : Fin (x + y) ∧ |val (x + y)| ≤ 2 * (X + Y) + 1 := by
  have m : |val x + val y| ≤ X + Y := le_trans (abs_add_le _ _) (by linarith)
  obtain ⟨f, _, b⟩ := add_step stdModel hx hy m (le_trans hXY (by norm_num))
  exact ⟨f, b⟩

theorem sub_fin {x y : F64} {X Y : ℝ} (hx : Fin x) (hy : Fin y) (bx : |val x| ≤ X) (by' : |val y| ≤ Y)
    (hXY : X + Y ≤ 2 ^ 29) : Fin (x - y) ∧ |val (x - y)| ≤ 2 * (X + Y) + 1 := by
  have m : |val x - val y| ≤ X + Y := le_trans (abs_sub _ _) (by linarith)
  obtain ⟨f, _, b⟩ := sub_step stdModel hx hy m (le_trans hXY (by norm_num))
  exact ⟨f, b⟩

/-- `minUpdateInteriorDistanceMaxError(d)` is finite for every finite chord `0 ≤ d ≤ 4` -/
theorem interiorMaxError_fin {d : F64} (hd : Fin d) (h0 : 0 ≤ val d) (h4 : val d ≤ 4) :
    Fin (minUpdateInteriorDistanceMaxError d) := by
  obtain ⟨k1, k85, k2, k65, k3, ke, s1, s2, sh, sz⟩ := consts_small
  unfold minUpdateInteriorDistanceMaxError
  by_cases hge : F64.ge d f2 = true
  · rw [if_pos hge]; exact sz.1
  · rw [if_neg hge]
    simp only []
    have bd : |val d| ≤ 4 := by rw [abs_of_nonneg h0]; exact h4
    -- b = min(1, 0.5·d)
    obtain ⟨fhd, bhd⟩ := mul_fin sh.1 hd sh.2 bd (by norm_num)
    have nhd : 0 ≤ val (fhalf * d) := by
      apply round_nonneg (F64Round.isRound_mul sh.1 hd) _ fhd
      have hh : (0 : ℝ) ≤ val fhalf := by
        have : Fin fhalf ∧ 0 ≤ toInt fhalf := by decide +kernel
        unfold val; exact div_nonneg (by exact_mod_cast this.2) (by positivity)
      have h1 : (0 : ℝ) ≤ ((F64Round.val fhalf : ℚ) : ℝ) := by rw [← val_cast]; exact hh
      have h2 : (0 : ℝ) ≤ ((F64Round.val d : ℚ) : ℝ) := by rw [← val_cast]; exact h0
      have h1' : (0 : ℚ) ≤ F64Round.val fhalf := by exact_mod_cast h1
      have h2' : (0 : ℚ) ≤ F64Round.val d := by exact_mod_cast h2
      exact mul_nonneg h1' h2'
    obtain ⟨fb, vb⟩ := val_fmin s1.1 fhd
    obtain ⟨ff1, vf1⟩ := val_f1
    set b := F64.fmin f1 (fhalf * d) with hb
    have hb0 : 0 ≤ val b := by rw [vb, vf1]; exact le_min (by norm_num) nhd
    have hb1 : val b ≤ 1 := by rw [vb, vf1]; exact min_le_left _ _
    have bb : |val b| ≤ 1 := by rw [abs_of_nonneg hb0]; exact hb1
    -- a = sqrt(b·(2−b))
    have v2 : val f2 = 2 := by
      have h : toInt f2 = 2 * 2 ^ 1074 := by decide +kernel
      unfold val; rw [h]; push_cast; field_simp
    obtain ⟨ft, bt⟩ := sub_fin s2.1 fb (X := 2) (by rw [v2]; norm_num) bb (by norm_num)
    have nt : 0 ≤ val (f2 - b) := by
      apply round_nonneg (F64Round.isRound_sub s2.1 fb) _ ft
      have h1 : ((F64Round.val f2 : ℚ) : ℝ) = 2 := by rw [← val_cast]; exact v2
      have h2 : ((F64Round.val b : ℚ) : ℝ) ≤ 1 := by rw [← val_cast]; exact hb1
      have h1' : F64Round.val f2 = 2 := by exact_mod_cast h1
      have h2' : F64Round.val b ≤ 1 := by exact_mod_cast h2
      linarith
    obtain ⟨fp, bp⟩ := mul_fin fb ft bb bt (by norm_num)
    have np : 0 ≤ val (b * (f2 - b)) := by
      apply round_nonneg (F64Round.isRound_mul fb ft) _ fp
      have h1 : (0 : ℝ) ≤ ((F64Round.val b : ℚ) : ℝ) := by rw [← val_cast]; exact hb0
      have h2 : (0 : ℝ) ≤ ((F64Round.val (f2 - b) : ℚ) : ℝ) := by rw [← val_cast]; exact nt
      have h1' : (0 : ℚ) ≤ F64Round.val b := by exact_mod_cast h1
      have h2' : (0 : ℚ) ≤ F64Round.val (f2 - b) := by exact_mod_cast h2
      exact mul_nonneg h1' h2'
    have hp30 : val (b * (f2 - b)) ≤ 2 ^ 30 := by
      have := le_abs_self (val (b * (f2 - b)))
      have : (2 : ℝ) * (1 * (2 * (2 + 1) + 1)) + 1 ≤ 2 ^ 30 := by norm_num
      linarith
    obtain ⟨fa, ha⟩ := sqrt_step fp np hp30
    set a := F64.sqrt (b * (f2 - b)) with hadef
    have ba : |val a| ≤ 8 := by
      have hs : Real.sqrt (val (b * (f2 - b))) ≤ 4 := by
        rw [Real.sqrt_le_left (by norm_num)]
        have := le_abs_self (val (b * (f2 - b)))
        linarith
      have hs0 := Real.sqrt_nonneg (val (b * (f2 - b)))
      have h1 := abs_sub_abs_le_abs_sub (val a) (Real.sqrt (val (b * (f2 - b))))
      rw [abs_of_nonneg hs0] at h1
      have : uR * Real.sqrt (val (b * (f2 - b))) ≤ 1 * 4 := mul_le_mul uR_le_one hs hs0 (by norm_num)
      linarith
    -- the polynomial
    obtain ⟨g1, c1⟩ := mul_fin k85.1 fa k85.2 ba (by norm_num)
    obtain ⟨g2, c2⟩ := add_fin k1.1 g1 k1.2 c1 (by norm_num)
    obtain ⟨g3, c3⟩ := mul_fin g2 fa c2 ba (by norm_num)
    obtain ⟨g4, c4⟩ := sub_fin s1.1 fb s1.2 bb (by norm_num)
    obtain ⟨g5, c5⟩ := mul_fin k65.1 g4 k65.2 c4 (by norm_num)
    obtain ⟨g6, c6⟩ := add_fin k2.1 g5 k2.2 c5 (by norm_num)
    obtain ⟨g7, c7⟩ := mul_fin g6 fb c6 bb (by norm_num)
    obtain ⟨g8, c8⟩ := add_fin g3 g7 c3 c7 (by norm_num)
    obtain ⟨g9, c9⟩ := add_fin g8 k3.1 c8 k3.2 (by norm_num)
    obtain ⟨g10, _⟩ := mul_fin g9 ke.1 c9 ke.2 (by norm_num)
    exact g10

/-- **`minUpdateDistanceMaxError(d) ≥ MaxPointError(d)`** for finite chords in [0, 4] -/
theorem maxError_ge_pointError {d : F64} (hd : Fin d) (h0 : 0 ≤ val d) (h4 : val d ≤ 4) :
    Fin (minUpdateDistanceMaxError d) ∧ val (maxPointError d) ≤ val (minUpdateDistanceMaxError d) := by
  have f1' := interiorMaxError_fin hd h0 h4
  obtain ⟨f2', _⟩ := maxPointError_ge hd h0 h4
  obtain ⟨ff, hv⟩ := val_fmax f1' f2'
  unfold minUpdateDistanceMaxError
  exact ⟨ff, by rw [hv]; exact le_max_right _ _⟩

end S2Proofs.C17Err
