/-
  S2Proofs.C10.ExactSign — the `SignLaws` of the monotone-chain hull (S2Proofs.C10.Hull) for the library's
  exact orientation sign `Pred.exactDecisionI` on 3-vectors, sorted around an `origin` as `ConvexHull()` does
  (`lt a b :⇔ RobustSign(origin, a, b) = +1`).

  The Knuth-type transitivity laws `t1 t2 t3` and the transitivity of the sort order are consequences of the
  three-term Grassmann–Plücker identity
        [x a b][x c d] − [x a c][x b d] + [x a d][x b c] = 0          ([· · ·] = 3×3 determinant)
  and sign bookkeeping.  They are proved here for point sets in GENERAL POSITION with respect to the origin
  (every determinant that the laws look at is non-zero, so the exact sign IS the determinant sign) that lie in an
  open half-space whose boundary plane contains the origin vector (`∃ w, ∀ p ∈ S, det(origin, w, p) > 0`; for
  `ConvexHull()` : `origin = centre.Ortho()`, `w = centre × origin`, i.e. all points within the open hemisphere
  around the cap centre).  The half-space condition is what makes "sorted around the origin" a transitive order;
  without it `lt` is cyclic (three points at 120° around the origin axis).
-/
import S2Proofs.C10.Hull
import S2Proofs.ExactSignLaws

namespace S2Proofs.C10L
open S2 S2.Exact S2.Pred S2Proofs.PredLemmas S2Proofs.ExactLaws

/-! ### the Grassmann–Plücker identity and its sign consequences -/

/-- three-term Grassmann–Plücker relation for five vectors of ℤ³ -/
theorem gp3 (x a b c d : IV3) :
    det3 x a b * det3 x c d - det3 x a c * det3 x b d + det3 x a d * det3 x b c = 0 := by
  simp only [det3, IV3.dot, IV3.cross]; ring

/-- transitivity of "sorted around `o`" inside an open half-space through `o` (normal side given by `w`) -/
theorem trans_gp (o w a b c : IV3) (ha : 0 < det3 o w a) (hb : 0 < det3 o w b) (hc : 0 < det3 o w c)
    (hab : 0 < det3 o a b) (hbc : 0 < det3 o b c) : 0 < det3 o a c := by
  have key := gp3 o w a b c
  have h1 := mul_pos ha hbc
  have h2 := mul_pos hc hab
  by_contra hn
  have : det3 o w b * det3 o a c ≤ 0 := mul_nonpos_of_nonneg_of_nonpos hb.le (not_lt.mp hn)
  linarith

/-- law `t1` on determinants (`hbd` is supplied by `trans_gp`) -/
theorem t1_gp (o a b c d : IV3) (hab : 0 < det3 o a b) (hbc : 0 < det3 o b c) (hbd : 0 < det3 o b d)
    (h1 : 0 < det3 a b c) (h2 : 0 < det3 b c d) : 0 < det3 a b d := by
  have key := gp3 b a c d o
  have e1 : det3 b a c = -det3 a b c := det3_swap12 a b c
  have e2 : det3 b d o = det3 o b d := det3_rot o b d
  have e3 : det3 b a d = -det3 a b d := det3_swap12 a b d
  have e4 : det3 b c o = det3 o b c := det3_rot o b c
  have e5 : det3 b a o = -det3 o a b := by rw [det3_swap12 a b o, ← det3_rot o a b]
  rw [e1, e2, e3, e4, e5] at key
  have p1 := mul_pos h1 hbd
  have p2 := mul_pos hab h2
  by_contra hn
  have : det3 a b d * det3 o b c ≤ 0 := mul_nonpos_of_nonpos_of_nonneg (not_lt.mp hn) hbc.le
  linarith

/-- law `t2` on determinants -/
theorem t2_gp (o p x y z : IV3) (hx : 0 < det3 o p x) (hy : 0 < det3 o p y) (hz : 0 < det3 o p z)
    (h1 : 0 < det3 p x y) (h2 : 0 < det3 p y z) : 0 < det3 p x z := by
  have key := gp3 p x y z o
  have e1 : det3 p z o = det3 o p z := det3_rot o p z
  have e2 : det3 p y o = det3 o p y := det3_rot o p y
  have e3 : det3 p x o = det3 o p x := det3_rot o p x
  rw [e1, e2, e3] at key
  have p1 := mul_pos h1 hz
  have p2 := mul_pos hx h2
  by_contra hn
  have : det3 p x z * det3 o p y ≤ 0 := mul_nonpos_of_nonpos_of_nonneg (not_lt.mp hn) hy.le
  linarith

/-- law `t3` on determinants -/
theorem t3_gp (o a b q p : IV3) (hab : 0 < det3 o a b) (hqb : 0 < det3 o q b) (hbp : 0 < det3 o b p)
    (h1 : 0 < det3 a b q) (h2 : 0 < det3 a b p) : 0 < det3 b p q := by
  have key := gp3 b a q p o
  have e1 : det3 b a q = -det3 a b q := det3_swap12 a b q
  have e2 : det3 b p o = det3 o b p := det3_rot o b p
  have e3 : det3 b a p = -det3 a b p := det3_swap12 a b p
  have e4 : det3 b q o = -det3 o q b := by rw [det3_rot o b q, det3_swap23 o q b]
  have e5 : det3 b a o = -det3 o a b := by rw [det3_swap12 a b o, ← det3_rot o a b]
  have e6 : det3 b q p = -det3 b p q := det3_swap23 b p q
  rw [e1, e2, e3, e4, e5, e6] at key
  have p1 := mul_pos h1 hbp
  have p2 := mul_pos h2 hqb
  by_contra hn
  have : det3 o a b * det3 b p q ≤ 0 := mul_nonpos_of_nonneg_of_nonpos hab.le (not_lt.mp hn)
  linarith

theorem det3_neg_first (o a b : IV3) : det3 o.neg a b = -det3 o a b := by
  simp only [det3, IV3.dot, IV3.cross, IV3.neg]; ring

theorem det3_neg_neg (o w p : IV3) : det3 o.neg w.neg p = det3 o w p := by
  simp only [det3, IV3.dot, IV3.cross, IV3.neg]; ring

/-! ### general position -/

/-- General position of the point set `S` with respect to the sort origin `o`, inside an open half-space:
    no three distinct points of `S` coplanar with 0, no two distinct points of `S` coplanar with `o` and 0,
    and all of `S` strictly on one side of a plane through `o`. -/
structure GenPos (o : IV3) (S : IV3 → Prop) : Prop where
  tri : ∀ a b c, S a → S b → S c → a ≠ b → b ≠ c → a ≠ c → det3 a b c ≠ 0
  org : ∀ a b, S a → S b → a ≠ b → det3 o a b ≠ 0
  half : ∃ w, ∀ p, S p → 0 < det3 o w p

section
variable {o : IV3} {S : IV3 → Prop}

theorem det_pos_of_sign (h : GenPos o S) {a b c : IV3} (ha : S a) (hb : S b) (hc : S c)
    (hs : exactDecisionI a b c = 1) : 0 < det3 a b c := by
  have hne : ¬ (a = b ∨ b = c ∨ c = a) := fun hh => by
    have := (EI_zero_iff a b c).2 hh; omega
  simp only [not_or] at hne
  exact (EI_eq_one_iff_of_det_ne a b c (h.tri a b c ha hb hc hne.1 hne.2.1 (Ne.symm hne.2.2))).1 hs

theorem det_pos_of_lt (h : GenPos o S) {a b : IV3} (ha : S a) (hb : S b)
    (hs : exactDecisionI o a b = 1) : 0 < det3 o a b := by
  have hne : a ≠ b := fun hh => by
    have := (EI_zero_iff o a b).2 (Or.inr (Or.inl hh)); omega
  exact (EI_eq_one_iff_of_det_ne o a b (h.org a b ha hb hne)).1 hs

theorem det_neg_of_gt (h : GenPos o S) {a b : IV3} (ha : S a) (hb : S b)
    (hs : exactDecisionI o b a = 1) : 0 < det3 o.neg a b := by
  have := det_pos_of_lt h hb ha hs
  have e := det3_swap23 o b a
  rw [det3_neg_first]; linarith

/-- **`SignLaws` for the exact sign**, points in general position sorted counter-clockwise around `o`. -/
theorem signLaws_exact_genPos (h : GenPos o S) :
    SignLaws (fun a b c : {p // S p} => exactDecisionI a.1 b.1 c.1)
      (fun a b => exactDecisionI o a.1 b.1 = 1) where
  irrefl a hl := by
    have := (EI_zero_iff o a.1 a.1).2 (Or.inr (Or.inl rfl)); omega
  trans a b c hab hbc := by
    obtain ⟨w, hw⟩ := h.half
    exact EI_eq_one_of_det_pos _ _ _ (trans_gp o w a.1 b.1 c.1 (hw _ a.2) (hw _ b.2) (hw _ c.2)
      (det_pos_of_lt h a.2 b.2 hab) (det_pos_of_lt h b.2 c.2 hbc))
  cyc a b c := (EI_rot a.1 b.1 c.1).symm
  anti a b c := EI_swap12 a.1 b.1 c.1
  nondeg a b c hab hbc hac :=
    EI_unit a.1 b.1 c.1 (fun e => hab (Subtype.ext e)) (fun e => hbc (Subtype.ext e))
      (fun e => hac (Subtype.ext e.symm))
  t1 a b c d hab hbc hcd h1 h2 := by
    obtain ⟨w, hw⟩ := h.half
    have pab := det_pos_of_lt h a.2 b.2 hab
    have pbc := det_pos_of_lt h b.2 c.2 hbc
    have pcd := det_pos_of_lt h c.2 d.2 hcd
    have pbd := trans_gp o w b.1 c.1 d.1 (hw _ b.2) (hw _ c.2) (hw _ d.2) pbc pcd
    exact EI_eq_one_of_det_pos _ _ _ (t1_gp o a.1 b.1 c.1 d.1 pab pbc pbd
      (det_pos_of_sign h a.2 b.2 c.2 h1) (det_pos_of_sign h b.2 c.2 d.2 h2))
  t2 p x y z hx hy hz h1 h2 :=
    EI_eq_one_of_det_pos _ _ _ (t2_gp o p.1 x.1 y.1 z.1 (det_pos_of_lt h p.2 x.2 hx)
      (det_pos_of_lt h p.2 y.2 hy) (det_pos_of_lt h p.2 z.2 hz)
      (det_pos_of_sign h p.2 x.2 y.2 h1) (det_pos_of_sign h p.2 y.2 z.2 h2))
  t3 a b q p hab hqb hbp _ h1 h2 :=
    EI_eq_one_of_det_pos _ _ _ (t3_gp o a.1 b.1 q.1 p.1 (det_pos_of_lt h a.2 b.2 hab)
      (det_pos_of_lt h q.2 b.2 hqb) (det_pos_of_lt h b.2 p.2 hbp)
      (det_pos_of_sign h a.2 b.2 q.2 h1) (det_pos_of_sign h a.2 b.2 p.2 h2))

/-- … and for the reversed sort order (the same laws with the origin `-o`). -/
theorem signLaws_exact_genPos_rev (h : GenPos o S) :
    SignLaws (fun a b c : {p // S p} => exactDecisionI a.1 b.1 c.1)
      (fun a b => exactDecisionI o b.1 a.1 = 1) where
  irrefl a hl := by
    have := (EI_zero_iff o a.1 a.1).2 (Or.inr (Or.inl rfl)); omega
  trans a b c hab hbc := (signLaws_exact_genPos h).trans c b a hbc hab
  cyc := (signLaws_exact_genPos h).cyc
  anti := (signLaws_exact_genPos h).anti
  nondeg := (signLaws_exact_genPos h).nondeg
  t1 a b c d hab hbc hcd h1 h2 := by
    obtain ⟨w, hw⟩ := h.half
    have hw' : ∀ p, S p → 0 < det3 o.neg w.neg p := fun p hp => by rw [det3_neg_neg]; exact hw p hp
    have pab := det_neg_of_gt h a.2 b.2 hab
    have pbc := det_neg_of_gt h b.2 c.2 hbc
    have pcd := det_neg_of_gt h c.2 d.2 hcd
    have pbd := trans_gp o.neg w.neg b.1 c.1 d.1 (hw' _ b.2) (hw' _ c.2) (hw' _ d.2) pbc pcd
    exact EI_eq_one_of_det_pos _ _ _ (t1_gp o.neg a.1 b.1 c.1 d.1 pab pbc pbd
      (det_pos_of_sign h a.2 b.2 c.2 h1) (det_pos_of_sign h b.2 c.2 d.2 h2))
  t2 p x y z hx hy hz h1 h2 :=
    EI_eq_one_of_det_pos _ _ _ (t2_gp o.neg p.1 x.1 y.1 z.1 (det_neg_of_gt h p.2 x.2 hx)
      (det_neg_of_gt h p.2 y.2 hy) (det_neg_of_gt h p.2 z.2 hz)
      (det_pos_of_sign h p.2 x.2 y.2 h1) (det_pos_of_sign h p.2 y.2 z.2 h2))
  t3 a b q p hab hqb hbp _ h1 h2 :=
    EI_eq_one_of_det_pos _ _ _ (t3_gp o.neg a.1 b.1 q.1 p.1 (det_neg_of_gt h a.2 b.2 hab)
      (det_neg_of_gt h q.2 b.2 hqb) (det_neg_of_gt h b.2 p.2 hbp)
      (det_pos_of_sign h a.2 b.2 q.2 h1) (det_pos_of_sign h a.2 b.2 p.2 h2))

end

end S2Proofs.C10L
