/-
  Property C10 (rectangle part) — the COMPOSITION logic of the bounding rectangles of golang/geo is sound:
  `s2.RectBounder` (fold over the vertex chain), `Loop.initBound` (pole logic), the bound handling of
  `Loop.Invert`, the polygon bound (union over the non-hole loops) and `ExpandForSubregions`.

  Model: `S2.Bounds` (section `rect`).  The numeric heart of `RectBounder.AddPoint` is abstract there
  (`EdgeBounder.edge`); what is assumed about it is the structure `EdgeSound` below (per-edge rectangles
  are valid and contain the points of their edge).  The geometric facts about loops (where the latitude
  extremum of the interior is attained, pole containment) enter as explicit, named hypotheses.
  "s1.Expanded keeps points" is float arithmetic and false for float64 in general (C19, findings 1 and 2),
  hence it enters as the explicit hypothesis `LngExpandKeeps` (satisfiable: `lngExpandKeeps_int`).

  Carrier: an arbitrary linear order with the laws `IvlLaws` (+ `IvlArithLaws` where `expanded` is used), as in C19.
-/
import S2.Bounds
import S2Proofs.Properties.C19

set_option linter.unusedSectionVars false
set_option linter.unusedVariables false
set_option linter.unnecessarySeqFocus false
set_option linter.unusedSimpArgs false

namespace S2Proofs.C10L
open S2 S2.IvlOps S2.Bounds S2Proofs S2Proofs.C19

variable {α : Type} [LinearOrder α] [IvlOps α] [IvlLaws α]
variable {P : Type}

/-! ## Generalities about lat-lng rectangles -/

/-- "`s1.Expanded(m)` keeps every point of a valid interval" — the float-arithmetic fact that is an explicit
    hypothesis throughout (C19: false for float64 in general, true for exact arithmetic). -/
def LngExpandKeeps (m : α) : Prop :=
  ∀ (i : S1 α) (p : α), i.isValid = true → ValidPt p → i.contains p = true → (i.expanded m).contains p = true

/-- a valid LatLng exists (used to call `ll_empty_full`) -/
theorem exists_valid_latlng : (⟨zero, pi⟩ : LatLng α).isValid = true := by
  have h1 := IvlLaws.negPi_lt_pi (α := α)
  have h3 := IvlLaws.zero_lt_one (α := α)
  have h4 := IvlLaws.zero_one_lat (α := α)
  rw [latlng_valid_iff]; unfold ValidPt
  exact ⟨h4.1, by order, by order, le_refl _⟩

theorem ll_full_valid : (LLRect.full : LLRect α).isValid = true :=
  (ll_empty_full _ exists_valid_latlng).2.1

theorem ll_full_contains (x : LatLng α) (hx : x.isValid = true) :
    (LLRect.full : LLRect α).containsLatLng x = true := (ll_empty_full x hx).2.2.2

/-- only valid LatLngs are members -/
theorem ll_valid_of_mem (r : LLRect α) (x : LatLng α) (h : r.containsLatLng x = true) : x.isValid = true := by
  rw [ll_mem_iff] at h; rw [latlng_valid_iff]; exact ⟨h.1, h.2.1, h.2.2.1⟩

/-- a rectangle with a member is not empty -/
theorem ll_nonempty_of_mem (r : LLRect α) (x : LatLng α) (h : r.containsLatLng x = true) : r.isEmpty = false := by
  rw [ll_mem_iff] at h
  unfold LLRect.isEmpty
  rw [← Bool.not_eq_true, r1_isEmpty_iff_no_points]
  intro hc; have := hc x.lat; simp [h.2.2.2.1] at this

theorem ll_empty_isEmpty : (LLRect.empty : LLRect α).isEmpty = true := r1_empty_isEmpty

theorem s1_full_isFull : (S1.full : S1 α).isFull = true := by
  rw [s1_isFull_iff]; exact ⟨rfl, rfl⟩

/-- a full longitude interval contains every point of the circle -/
theorem s1_isFull_contains (i : S1 α) (hf : i.isFull = true) (p : α) (hp : ValidPt p) : i.contains p = true := by
  obtain ⟨lo, hi⟩ := i
  rw [s1_isFull_iff] at hf
  obtain ⟨h1, h2⟩ := hf
  simp only at h1 h2
  subst h1; subst h2
  exact (s1_empty_full p hp).2.2.2

/-! ## (A) RectBounder: the fold over the vertex chain -/

/-- What is assumed about the abstract per-edge part of `RectBounder.AddPoint`; `onEdge a b p` = "p is a point of
    the closed edge a b". -/
structure EdgeSound (E : EdgeBounder P α) (onEdge : P → P → P → Prop) : Prop where
  /-- `LatLngFromPoint` returns a valid LatLng -/
  ll_valid : ∀ p, (E.ll p).isValid = true
  pad_nonneg : (zero : α) ≤ E.pad
  /-- the rectangle united into the bound is valid -/
  edge_valid : ∀ a b r, E.edge a b = some r → r.isValid = true
  /-- … and contains (the computed lat-lng of) every point of the edge -/
  edge_contains : ∀ a b r p, E.edge a b = some r → onEdge a b p → r.containsLatLng (E.ll p) = true
  /-- the endpoints are points of the edge -/
  left_on : ∀ a b, onEdge a b a
  right_on : ∀ a b, onEdge a b b

section A
variable {E : EdgeBounder P α} {onEdge : P → P → P → Prop}

/-- one `AddPoint` keeps the bound valid -/
theorem step_valid (hE : EdgeSound E onEdge) (st : RB P α) (b : P) (h : st.bound.isValid = true) :
    (RB.addPoint E st b).bound.isValid = true := by
  unfold RB.addPoint
  split
  · exact (ll_addPoint_contains _ h (E.ll b) (E.ll b) (hE.ll_valid b)).1
  · split
    · exact ll_full_valid
    · rename_i r hr; exact ll_union_valid _ _ h (hE.edge_valid _ _ _ hr)

/-- one `AddPoint` keeps every point of the bound -/
theorem step_mono (hE : EdgeSound E onEdge) (st : RB P α) (b : P) (h : st.bound.isValid = true) (x : LatLng α)
    (hx : st.bound.containsLatLng x = true) : (RB.addPoint E st b).bound.containsLatLng x = true := by
  unfold RB.addPoint
  split
  · exact (ll_addPoint_contains _ h (E.ll b) x (hE.ll_valid b)).2.2 hx
  · split
    · exact ll_full_contains x (ll_valid_of_mem _ _ hx)
    · rename_i r hr; exact ll_union_contains _ _ h (hE.edge_valid _ _ _ hr) x (Or.inl hx)

/-- after `AddPoint(b)` the bound contains `b` -/
theorem step_contains_new (hE : EdgeSound E onEdge) (st : RB P α) (b : P) (h : st.bound.isValid = true) :
    (RB.addPoint E st b).bound.containsLatLng (E.ll b) = true := by
  unfold RB.addPoint
  split
  · exact (ll_addPoint_contains _ h (E.ll b) (E.ll b) (hE.ll_valid b)).2.1
  · split
    · exact ll_full_contains _ (hE.ll_valid b)
    · rename_i r hr
      exact ll_union_contains _ _ h (hE.edge_valid _ _ _ hr) _
        (Or.inr (hE.edge_contains _ _ _ _ hr (hE.right_on _ _)))

/-- after `AddPoint(b)` the bound is not empty and the remembered vertex is `b` -/
theorem step_nonempty (hE : EdgeSound E onEdge) (st : RB P α) (b : P) (h : st.bound.isValid = true) :
    (RB.addPoint E st b).bound.isEmpty = false :=
  ll_nonempty_of_mem _ _ (step_contains_new hE st b h)

theorem step_a (st : RB P α) (b : P) : (RB.addPoint E st b).a = b := by
  unfold RB.addPoint
  split
  · rfl
  · split <;> rfl

/-- `AddPoint(b)` on a non-empty bound covers the whole edge from the remembered vertex to `b` -/
theorem step_edge (hE : EdgeSound E onEdge) (st : RB P α) (b p : P) (h : st.bound.isValid = true)
    (hne : st.bound.isEmpty = false) (hp : onEdge st.a b p) :
    (RB.addPoint E st b).bound.containsLatLng (E.ll p) = true := by
  unfold RB.addPoint
  simp only [hne, Bool.false_eq_true, if_false]
  split
  · exact ll_full_contains _ (hE.ll_valid p)
  · rename_i r hr
    exact ll_union_contains _ _ h (hE.edge_valid _ _ _ hr) _ (Or.inr (hE.edge_contains _ _ _ _ hr hp))

theorem fold_valid (hE : EdgeSound E onEdge) (vs : List P) :
    ∀ st : RB P α, st.bound.isValid = true → (vs.foldl (RB.addPoint E) st).bound.isValid = true := by
  induction vs with
  | nil => intro st h; exact h
  | cons v vs ih => intro st h; exact ih _ (step_valid hE st v h)

theorem fold_mono (hE : EdgeSound E onEdge) (vs : List P) (x : LatLng α) :
    ∀ st : RB P α, st.bound.isValid = true → st.bound.containsLatLng x = true →
      (vs.foldl (RB.addPoint E) st).bound.containsLatLng x = true := by
  induction vs with
  | nil => intro st _ h; exact h
  | cons v vs ih => intro st h hx; exact ih _ (step_valid hE st v h) (step_mono hE st v h x hx)

theorem fold_contains_vertex (hE : EdgeSound E onEdge) (vs : List P) (v : P) :
    ∀ st : RB P α, st.bound.isValid = true → v ∈ vs →
      (vs.foldl (RB.addPoint E) st).bound.containsLatLng (E.ll v) = true := by
  induction vs with
  | nil => intro st _ h; cases h
  | cons w vs ih =>
    intro st h hv
    rcases List.mem_cons.1 hv with rfl | hv
    · exact fold_mono hE vs _ _ (step_valid hE st v h) (step_contains_new hE st v h)
    · exact ih _ (step_valid hE st w h) hv

variable [Inhabited P]

theorem init_valid : (RB.init : RB P α).bound.isValid = true := ll_empty_valid

/-- A1: the running bound of the bounder is a valid rectangle after any chain. -/
theorem runChain_valid (hE : EdgeSound E onEdge) (vs : List P) : (runChain E vs).bound.isValid = true :=
  fold_valid hE vs _ init_valid

/-- A2: the running bound contains (the lat-lng of) every vertex fed to it. -/
theorem runChain_contains_vertex (hE : EdgeSound E onEdge) (vs : List P) (v : P) (hv : v ∈ vs) :
    (runChain E vs).bound.containsLatLng (E.ll v) = true :=
  fold_contains_vertex hE vs v _ init_valid hv

/-- A3: the running bound contains every point of every edge between consecutive vertices of the chain. -/
theorem runChain_contains_edge (hE : EdgeSound E onEdge) (vs : List P) (a b p : P)
    (hab : [a, b] <:+: vs) (hp : onEdge a b p) :
    (runChain E vs).bound.containsLatLng (E.ll p) = true := by
  obtain ⟨s, t, rfl⟩ := hab
  unfold runChain
  rw [List.foldl_append, List.foldl_append]
  have h1 : (s.foldl (RB.addPoint E) RB.init).bound.isValid = true := fold_valid hE s _ init_valid
  generalize s.foldl (RB.addPoint E) RB.init = st1 at h1
  apply fold_mono hE t _ _ (fold_valid hE [a, b] _ h1)
  show (RB.addPoint E (RB.addPoint E st1 a) b).bound.containsLatLng (E.ll p) = true
  apply step_edge hE _ b p (step_valid hE st1 a h1) (step_nonempty hE st1 a h1)
  rw [step_a]; exact hp

/-- the running bound of a non-empty chain is not empty -/
theorem runChain_nonempty (hE : EdgeSound E onEdge) (vs : List P) (hne : vs ≠ []) :
    (runChain E vs).bound.isEmpty = false := by
  obtain ⟨v, hv⟩ := List.exists_mem_of_ne_nil vs hne
  exact ll_nonempty_of_mem _ _ (runChain_contains_vertex hE vs v hv)

variable [IvlArithLaws α]

/-- `RectBound()` = `expanded(2ε, 0).PolarClosure()` of a valid running bound is valid -/
theorem rectBound_valid (st : RB P α) (h : st.bound.isValid = true) : (st.rectBound E).isValid = true :=
  (ll_polarClosure_contains _ (ll_expanded_valid _ h _) ⟨zero, zero⟩).1

/-- (kept from an earlier version of C19, where the longitude part was a hypothesis; C19 now proves the
    unconditional `ll_expanded_contains`) -/
theorem ll_expanded_contains_partial [IvlArithLaws α] (r : LLRect α) (hr : r.isValid = true) (m ll : LatLng α)
    (hm : (zero : α) ≤ m.lat)
    (hlng : ∀ p, ValidPt p → r.lng.contains p = true → (r.lng.expanded m.lng).contains p = true)
    (h : r.containsLatLng ll = true) : (r.expanded m).containsLatLng ll = true := by
  have h1 := IvlLaws.negPi_lt_pi (α := α)
  have hv := s1_expanded_valid r.lng ((ll_valid_iff r).1 hr).2.2.2.2.1 m.lng
  simp only [ll_mem_iff, ll_valid_iff] at h hr
  have e1 := r1_expanded_contains r.lat m.lat ll.lat hm h.2.2.2.1
  have e2 := hlng ll.lng h.2.2.1 h.2.2.2.2
  have n1 : (r.lat.expanded m.lat).isEmpty = false := by
    rw [← Bool.not_eq_true, r1_isEmpty_iff_no_points]; intro hc; have := hc ll.lat; simp [e1] at this
  have n2 : (r.lng.expanded m.lng).isEmpty = false := by
    rw [← Bool.not_eq_true, s1_isEmpty_iff_no_points _ hv]
    intro hc; have := hc ll.lng h.2.2.1; simp [e2] at this
  unfold LLRect.expanded
  simp only [n1, n2, Bool.or_self, Bool.false_eq_true, if_false, ll_mem_iff]
  refine ⟨h.1, h.2.1, h.2.2.1, ?_, e2⟩
  rw [r1_intersection_iff]
  refine ⟨e1, ?_⟩
  rw [r1_contains_iff]; exact ⟨h.1, h.2.1⟩

/-- `RectBound()` keeps every point of the running bound (given that the longitude expansion by 0 does). -/
theorem rectBound_contains (hE : EdgeSound E onEdge) (hk : LngExpandKeeps (zero : α)) (st : RB P α)
    (h : st.bound.isValid = true) (x : LatLng α) (hx : st.bound.containsLatLng x = true) :
    (st.rectBound E).containsLatLng x = true := by
  unfold RB.rectBound
  apply (ll_polarClosure_contains _ (ll_expanded_valid _ h _) x).2
  exact ll_expanded_contains_partial _ h ⟨E.pad, zero⟩ x hE.pad_nonneg
    (fun p hp hc => hk _ p ((ll_valid_iff _).1 h).2.2.2.2.1 hp hc) hx

/-- A4: `Polyline.RectBound()` is a valid rectangle. -/
theorem chainBound_valid (hE : EdgeSound E onEdge) (vs : List P) : (chainBound E vs).isValid = true :=
  rectBound_valid _ (runChain_valid hE vs)

/-- A4: everything in the running bound is in the final bound. -/
theorem chainBound_contains (hE : EdgeSound E onEdge) (hk : LngExpandKeeps (zero : α)) (vs : List P)
    (x : LatLng α) (hx : (runChain E vs).bound.containsLatLng x = true) :
    (chainBound E vs).containsLatLng x = true :=
  rectBound_contains hE hk _ (runChain_valid hE vs) x hx

/-- A4: the final bound contains every vertex. -/
theorem chainBound_contains_vertex (hE : EdgeSound E onEdge) (hk : LngExpandKeeps (zero : α)) (vs : List P)
    (v : P) (hv : v ∈ vs) : (chainBound E vs).containsLatLng (E.ll v) = true :=
  chainBound_contains hE hk vs _ (runChain_contains_vertex hE vs v hv)

/-- A4: the final bound contains every point of every edge of the chain. -/
theorem chainBound_contains_edge (hE : EdgeSound E onEdge) (hk : LngExpandKeeps (zero : α)) (vs : List P)
    (a b p : P) (hab : [a, b] <:+: vs) (hp : onEdge a b p) :
    (chainBound E vs).containsLatLng (E.ll p) = true :=
  chainBound_contains hE hk vs _ (runChain_contains_edge hE vs a b p hab hp)

end A

/-! ## (B) Loop.initBound, Invert, polygon -/

section B

/-- what `poleAdjust` computes, branch by branch -/
theorem poleAdjust_ff (b : LLRect α) : poleAdjust b false false = b := by
  simp [poleAdjust]

theorem poleAdjust_ft (b : LLRect α) :
    poleAdjust b false true = if b.lng.isFull then ⟨⟨negHalfPi, b.lat.hi⟩, b.lng⟩ else b := by
  simp [poleAdjust]

theorem poleAdjust_tf (b : LLRect α) : poleAdjust b true false = ⟨⟨b.lat.lo, halfPi⟩, S1.full⟩ := by
  simp [poleAdjust]

theorem poleAdjust_tt (b : LLRect α) : poleAdjust b true true = ⟨⟨negHalfPi, halfPi⟩, S1.full⟩ := by
  simp [poleAdjust, s1_full_isFull]

/-- B1 (stronger form, no non-emptiness needed for validity as such). -/
theorem poleAdjust_valid' (b : LLRect α) (hb : b.isValid = true) (cN cS : Bool) :
    (poleAdjust b cN cS).isValid = true := by
  have h1 := IvlLaws.negPi_lt_pi (α := α)
  have h2 := IvlLaws.negHalfPi_lt_halfPi (α := α)
  have hf := (s1_empty_full (α := α) pi ⟨le_of_lt h1, le_refl _⟩).2.1
  have hfe : (S1.full : S1 α).isEmpty = false := by
    rw [← Bool.not_eq_true, s1_isEmpty_iff]; simp only [S1.full]; grind
  have hbv := (ll_valid_iff b).1 hb
  cases cN <;> cases cS
  · rw [poleAdjust_ff]; exact hb
  · rw [poleAdjust_ft]
    split
    · rename_i hfull
      have hne : b.lng.isEmpty = false := by
        rw [s1_isFull_iff] at hfull
        rw [← Bool.not_eq_true, s1_isEmpty_iff]; grind
      rw [ll_valid_iff]
      refine ⟨le_refl _, le_of_lt h2, hbv.2.2.1, hbv.2.2.2.1, hbv.2.2.2.2.1, ?_⟩
      simp only [hne, Bool.false_eq_true, iff_false, r1_isEmpty_iff]
      exact not_lt.2 hbv.2.2.1
    · exact hb
  · rw [poleAdjust_tf, ll_valid_iff]
    refine ⟨hbv.1, hbv.2.1, le_of_lt h2, le_refl _, hf, ?_⟩
    simp only [hfe, Bool.false_eq_true, iff_false, r1_isEmpty_iff]
    exact not_lt.2 hbv.2.1
  · rw [poleAdjust_tt]; exact ll_full_valid

/-- B1: the pole adjustment of a valid non-empty bound is a valid rectangle.  (The guard `b.isEmpty = false`
    is what real code guarantees — a normal loop has ≥ 1 vertex; validity as such does not need it, see
    `poleAdjust_valid'`, but with `cN = true` and an EMPTY `b` the result `[1, π/2] × full` would be a
    non-empty rectangle made from the empty one.) -/
theorem poleAdjust_valid (b : LLRect α) (hb : b.isValid = true) (hne : b.isEmpty = false) (cN cS : Bool) :
    (poleAdjust b cN cS).isValid = true := poleAdjust_valid' b hb cN cS

/-- the pole adjustment only enlarges the bound -/
theorem poleAdjust_mono (b : LLRect α) (hb : b.isValid = true) (cN cS : Bool) (x : LatLng α)
    (hx : b.containsLatLng x = true) : (poleAdjust b cN cS).containsLatLng x = true := by
  have hxv := (latlng_valid_iff x).1 (ll_valid_of_mem _ _ hx)
  have hm := (ll_mem_iff _ _).1 hx
  have hl := (r1_contains_iff _ _).1 hm.2.2.2.1
  have hfc := (s1_empty_full x.lng hxv.2.2).2.2.2
  cases cN <;> cases cS
  · rw [poleAdjust_ff]; exact hx
  · rw [poleAdjust_ft]
    split
    · rw [ll_mem_iff, r1_contains_iff]
      exact ⟨hxv.1, hxv.2.1, hxv.2.2, ⟨hxv.1, hl.2⟩, hm.2.2.2.2⟩
    · exact hx
  · rw [poleAdjust_tf, ll_mem_iff, r1_contains_iff]
    exact ⟨hxv.1, hxv.2.1, hxv.2.2, ⟨hl.1, hxv.2.1⟩, hfc⟩
  · rw [poleAdjust_tt]; exact ll_full_contains x (ll_valid_of_mem _ _ hx)

theorem poleAdjust_nonempty (b : LLRect α) (hb : b.isValid = true) (hne : b.isEmpty = false) (cN cS : Bool) :
    (poleAdjust b cN cS).isEmpty = false := by
  have h2 := IvlLaws.negHalfPi_lt_halfPi (α := α)
  have hbv := (ll_valid_iff b).1 hb
  unfold LLRect.isEmpty at *
  rw [← Bool.not_eq_true, r1_isEmpty_iff] at *
  cases cN <;> cases cS
  · rw [poleAdjust_ff]; exact hne
  · rw [poleAdjust_ft]; split
    · exact not_lt.2 hbv.2.2.1
    · exact hne
  · rw [poleAdjust_tf]; exact not_lt.2 hbv.2.1
  · rw [poleAdjust_tt]; exact not_lt.2 (le_of_lt h2)

/-- B2: soundness of the pole logic of `Loop.initBound`.  `b` is the `RectBounder` result, `bdry` the points of
    the loop boundary, `inside` the points of the loop (interior); the four GEOMETRY hypotheses are the facts the
    code comments appeal to:
    * `hN` / `hS` — if the loop does not contain the north (south) pole, the maximum (minimum) latitude of the
      loop is attained on its boundary;
    * `hL` — if it contains neither pole, the longitudes of the loop lie in every arc that covers the
      longitudes of the boundary;
    * `hF` — if it contains only the south pole, the boundary winds around the axis, so the computed longitude
      bound is full (this is the case in which the code does NOT consult `cS` unless `lng` is full). -/
theorem poleAdjust_contains (b : LLRect α) (hb : b.isValid = true) (cN cS : Bool)
    (ll : P → LatLng α) (inside bdry : P → Prop)
    (hll : ∀ p, (ll p).isValid = true)
    (hbd : ∀ q, bdry q → b.containsLatLng (ll q) = true)
    (hN : cN = false → ∀ p, inside p → ∃ q, bdry q ∧ (ll p).lat ≤ (ll q).lat)
    (hS : cS = false → ∀ p, inside p → ∃ q, bdry q ∧ (ll q).lat ≤ (ll p).lat)
    (hL : cN = false → cS = false → ∀ p, inside p → ∀ I : S1 α, I.isValid = true →
            (∀ q, bdry q → I.contains (ll q).lng = true) → I.contains (ll p).lng = true)
    (hF : cN = false → cS = true → b.lng.isFull = true) :
    ∀ p, inside p → (poleAdjust b cN cS).containsLatLng (ll p) = true := by
  intro p hp
  have hv := (latlng_valid_iff (ll p)).1 (hll p)
  have hbv := (ll_valid_iff b).1 hb
  have hfc := (s1_empty_full (ll p).lng hv.2.2).2.2.2
  have hmem : ∀ q, bdry q → b.lat.lo ≤ (ll q).lat ∧ (ll q).lat ≤ b.lat.hi := fun q hq =>
    (r1_contains_iff _ _).1 ((ll_mem_iff _ _).1 (hbd q hq)).2.2.2.1
  cases cN <;> cases cS
  · -- no pole inside: the bounder result itself
    rw [poleAdjust_ff]
    obtain ⟨q1, hq1, hle1⟩ := hN rfl p hp
    obtain ⟨q2, hq2, hle2⟩ := hS rfl p hp
    have m1 := hmem q1 hq1
    have m2 := hmem q2 hq2
    have hl := hL rfl rfl p hp b.lng hbv.2.2.2.2.1 (fun q hq => ((ll_mem_iff _ _).1 (hbd q hq)).2.2.2.2)
    rw [ll_mem_iff, r1_contains_iff]
    exact ⟨hv.1, hv.2.1, hv.2.2, ⟨le_trans m2.1 hle2, le_trans hle1 m1.2⟩, hl⟩
  · -- only the south pole inside: lng is full, lat.lo := -π/2
    rw [poleAdjust_ft, hF rfl rfl]
    simp only [if_true]
    obtain ⟨q1, hq1, hle1⟩ := hN rfl p hp
    have m1 := hmem q1 hq1
    rw [ll_mem_iff, r1_contains_iff]
    exact ⟨hv.1, hv.2.1, hv.2.2, ⟨hv.1, le_trans hle1 m1.2⟩, s1_isFull_contains _ (hF rfl rfl) _ hv.2.2⟩
  · -- only the north pole inside: lng := full, lat.hi := π/2
    rw [poleAdjust_tf]
    obtain ⟨q2, hq2, hle2⟩ := hS rfl p hp
    have m2 := hmem q2 hq2
    rw [ll_mem_iff, r1_contains_iff]
    exact ⟨hv.1, hv.2.1, hv.2.2, ⟨le_trans m2.1 hle2, hv.2.1⟩, hfc⟩
  · -- both poles inside: the full rectangle
    rw [poleAdjust_tt]; exact ll_full_contains _ (hll p)

/-- the points of the edges of a vertex chain -/
def OnChain (onEdge : P → P → P → Prop) (vs : List P) (q : P) : Prop :=
  ∃ a b, [a, b] <:+: vs ∧ onEdge a b q

variable [Inhabited P] {E : EdgeBounder P α} {onEdge : P → P → P → Prop}

theorem loopBound_valid [IvlArithLaws α] (hE : EdgeSound E onEdge) (k : LoopKind) (vs : List P) (cN cS : Bool) :
    (loopBound E k vs cN cS).isValid = true := by
  cases k
  · exact ll_empty_valid
  · exact ll_full_valid
  · exact poleAdjust_valid' _ (chainBound_valid hE _) cN cS

/-- B3: `Loop.initBound` of a normal loop contains the boundary (all edges of the closed vertex chain, vertex 0
    fed twice) and — given the geometric facts `hN hS hL hF` of `poleAdjust_contains` about the loop — every
    point of the loop. -/
theorem loopBound_contains [IvlArithLaws α] (hE : EdgeSound E onEdge) (hk : LngExpandKeeps (zero : α))
    (vs : List P) (cN cS : Bool) (inside : P → Prop)
    (hN : cN = false → ∀ p, inside p →
      ∃ q, OnChain onEdge (closeChain vs) q ∧ (E.ll p).lat ≤ (E.ll q).lat)
    (hS : cS = false → ∀ p, inside p →
      ∃ q, OnChain onEdge (closeChain vs) q ∧ (E.ll q).lat ≤ (E.ll p).lat)
    (hL : cN = false → cS = false → ∀ p, inside p → ∀ I : S1 α, I.isValid = true →
      (∀ q, OnChain onEdge (closeChain vs) q → I.contains (E.ll q).lng = true) →
      I.contains (E.ll p).lng = true)
    (hF : cN = false → cS = true → (chainBound E (closeChain vs)).lng.isFull = true) :
    ∀ p, inside p ∨ OnChain onEdge (closeChain vs) p →
      (loopBound E .normal vs cN cS).containsLatLng (E.ll p) = true := by
  have hbd : ∀ q, OnChain onEdge (closeChain vs) q →
      (chainBound E (closeChain vs)).containsLatLng (E.ll q) = true := by
    rintro q ⟨a, b, hab, hq⟩
    exact chainBound_contains_edge hE hk _ a b q hab hq
  have hb := chainBound_valid hE (closeChain vs)
  intro p hp
  show (poleAdjust (chainBound E (closeChain vs)) cN cS).containsLatLng (E.ll p) = true
  rcases hp with hp | hp
  · exact poleAdjust_contains _ hb cN cS E.ll inside (OnChain onEdge (closeChain vs)) hE.ll_valid hbd
      hN hS hL hF p hp
  · exact poleAdjust_mono _ hb cN cS _ (hbd p hp)

/-- B3, vertices: the bound of a normal loop contains every vertex. -/
theorem loopBound_contains_vertex [IvlArithLaws α] (hE : EdgeSound E onEdge) (hk : LngExpandKeeps (zero : α))
    (vs : List P) (cN cS : Bool) (v : P) (hv : v ∈ vs) :
    (loopBound E .normal vs cN cS).containsLatLng (E.ll v) = true :=
  poleAdjust_mono _ (chainBound_valid hE _) cN cS _
    (chainBound_contains_vertex hE hk _ v (List.mem_append_left _ hv))

/-- B3, special loops: the empty loop has the empty bound — sound exactly when the loop has no points … -/
theorem loopBound_empty_contains (vs : List P) (cN cS : Bool) (inside : P → Prop) (hin : ∀ p, ¬ inside p) :
    ∀ p, inside p → (loopBound E .empty vs cN cS).containsLatLng (E.ll p) = true :=
  fun p hp => absurd hp (hin p)

theorem loopBound_empty_eq (vs : List P) (cN cS : Bool) : loopBound E .empty vs cN cS = LLRect.empty := rfl

/-- … and the full loop has the full bound, which contains every valid LatLng. -/
theorem loopBound_full_contains (vs : List P) (cN cS : Bool) (x : LatLng α) (hx : x.isValid = true) :
    (loopBound E .full vs cN cS).containsLatLng x = true := ll_full_contains x hx

/-- B4: the bound after `Loop.Invert()` is valid. -/
theorem invertBound_valid [IvlArithLaws α] (hE : EdgeSound E onEdge) (k : LoopKind) (vs : List P)
    (bound : LLRect α) (cN cS : Bool) : (invertBound E k vs bound cN cS).isValid = true := by
  unfold invertBound
  split
  · exact ll_full_valid
  · exact loopBound_valid hE _ _ cN cS

/-- B4: if the recomputed bound (`initBound` of the inverted loop) contains every point of the inverted loop, so
    does the bound installed by `Invert()` (whose shortcut branch installs the full rectangle). -/
theorem invertBound_contains (k : LoopKind) (vs : List P) (bound : LLRect α) (cN cS : Bool)
    (insideInv : P → Prop) (hll : ∀ p, insideInv p → (E.ll p).isValid = true)
    (hre : ∀ p, insideInv p → (loopBound E k.invert vs.reverse cN cS).containsLatLng (E.ll p) = true) :
    ∀ p, insideInv p → (invertBound E k vs bound cN cS).containsLatLng (E.ll p) = true := by
  intro p hp
  unfold invertBound
  split
  · exact ll_full_contains _ (hll p hp)
  · exact hre p hp

omit [Inhabited P] in
/-- accumulation step of the polygon bound -/
theorem polyFold_valid (loops : List (Bool × LLRect α)) (hv : ∀ l ∈ loops, l.2.isValid = true) :
    ∀ acc : LLRect α, acc.isValid = true →
      (loops.foldl (fun acc l => if l.1 then acc else acc.union l.2) acc).isValid = true := by
  induction loops with
  | nil => intro acc h; exact h
  | cons l ls ih =>
    intro acc h
    apply ih (fun l' hl' => hv l' (List.mem_cons_of_mem _ hl'))
    show (if l.1 = true then acc else acc.union l.2).isValid = true
    split
    · exact h
    · exact ll_union_valid _ _ h (hv l List.mem_cons_self)

omit [Inhabited P] in
theorem polyFold_mono (loops : List (Bool × LLRect α)) (hv : ∀ l ∈ loops, l.2.isValid = true) (x : LatLng α) :
    ∀ acc : LLRect α, acc.isValid = true → acc.containsLatLng x = true →
      (loops.foldl (fun acc l => if l.1 then acc else acc.union l.2) acc).containsLatLng x = true := by
  induction loops with
  | nil => intro acc _ h; exact h
  | cons l ls ih =>
    intro acc h hx
    have hv' : ∀ l' ∈ ls, l'.2.isValid = true := fun l' hl' => hv l' (List.mem_cons_of_mem _ hl')
    simp only [List.foldl_cons]
    split
    · exact ih hv' _ h hx
    · exact ih hv' _ (ll_union_valid _ _ h (hv l List.mem_cons_self))
        (ll_union_contains _ _ h (hv l List.mem_cons_self) x (Or.inl hx))

omit [Inhabited P] in
theorem polyFold_contains (loops : List (Bool × LLRect α)) (hv : ∀ l ∈ loops, l.2.isValid = true) (x : LatLng α)
    (r : LLRect α) (hr : (false, r) ∈ loops) (hx : r.containsLatLng x = true) :
    ∀ acc : LLRect α, acc.isValid = true →
      (loops.foldl (fun acc l => if l.1 then acc else acc.union l.2) acc).containsLatLng x = true := by
  induction loops with
  | nil => cases hr
  | cons l ls ih =>
    intro acc h
    have hv' : ∀ l' ∈ ls, l'.2.isValid = true := fun l' hl' => hv l' (List.mem_cons_of_mem _ hl')
    have hl := hv l List.mem_cons_self
    simp only [List.foldl_cons]
    rcases List.mem_cons.1 hr with rfl | hr'
    · simp only [Bool.false_eq_true, if_false]
      exact polyFold_mono ls hv' x _ (ll_union_valid _ _ h hl) (ll_union_contains _ _ h hl x (Or.inr hx))
    · split
      · exact ih hv' hr' _ h
      · exact ih hv' hr' _ (ll_union_valid _ _ h hl)

omit [Inhabited P] in
/-- B5: the polygon bound is a valid rectangle. -/
theorem polygonBound_valid (loops : List (Bool × LLRect α)) (hv : ∀ l ∈ loops, l.2.isValid = true) :
    (polygonBound loops).isValid = true := by
  unfold polygonBound
  split
  · exact hv _ List.mem_cons_self
  · exact polyFold_valid loops hv _ ll_empty_valid

omit [Inhabited P] in
/-- B5: the polygon bound contains the bound of every loop that is not a hole. -/
theorem polygonBound_contains (loops : List (Bool × LLRect α)) (hv : ∀ l ∈ loops, l.2.isValid = true)
    (r : LLRect α) (x : LatLng α) (hr : (false, r) ∈ loops) (hx : r.containsLatLng x = true) :
    (polygonBound loops).containsLatLng x = true := by
  unfold polygonBound
  split
  · rename_i h b
    have := List.mem_singleton.1 hr
    cases this
    exact hx
  · exact polyFold_contains loops hv x r hr hx _ ll_empty_valid

omit [Inhabited P] in
/-- B5, corollary: if every point of the polygon lies in some non-hole loop whose bound contains it, the polygon
    bound contains it. -/
theorem polygon_bound_sound (loops : List (Bool × LLRect α)) (hv : ∀ l ∈ loops, l.2.isValid = true)
    (ll : P → LatLng α) (insidePoly : P → Prop)
    (hshell : ∀ p, insidePoly p → ∃ r, (false, r) ∈ loops ∧ r.containsLatLng (ll p) = true) :
    ∀ p, insidePoly p → (polygonBound loops).containsLatLng (ll p) = true := by
  intro p hp
  obtain ⟨r, hr, hx⟩ := hshell p hp
  exact polygonBound_contains loops hv r _ hr hx

end B

/-! ## (C) ExpandForSubregions -/

section C
variable [IvlArithLaws α]

/-- C1: valid in, valid out. -/
theorem expandForSubregions_valid (O : SubOps α) (b : LLRect α) (hb : b.isValid = true) :
    (expandForSubregions O b).isValid = true := by
  unfold expandForSubregions
  split
  · exact hb
  · split
    · exact ll_full_valid
    · exact (ll_polarClosure_contains _ (ll_expanded_valid _ hb _) ⟨zero, zero⟩).1

/-- C2: `ExpandForSubregions` never loses a point of the bound itself (given that the two longitude expansions
    it may perform — by 0 and by π — keep points). -/
theorem expandForSubregions_contains (O : SubOps α) (b : LLRect α) (hb : b.isValid = true)
    (hlat : (zero : α) ≤ O.latExpansion) (hk0 : LngExpandKeeps (zero : α)) (hkpi : LngExpandKeeps (pi : α))
    (x : LatLng α) (hx : b.containsLatLng x = true) :
    (expandForSubregions O b).containsLatLng x = true := by
  have hlv := ((ll_valid_iff _).1 hb).2.2.2.2.1
  unfold expandForSubregions
  split
  · exact hx
  · split
    · exact ll_full_contains x (ll_valid_of_mem _ _ hx)
    · apply (ll_polarClosure_contains _ (ll_expanded_valid _ hb _) x).2
      apply ll_expanded_contains_partial _ hb _ x hlat _ hx
      intro p hp hc
      show (b.lng.expanded (if O.lngGapNonpos b = true then pi else zero)).contains p = true
      split
      · exact hkpi _ p hlv hp hc
      · exact hk0 _ p hlv hp hc

omit [IvlArithLaws α] in
/-- C3: the empty bound is returned unchanged. -/
theorem expandForSubregions_empty (O : SubOps α) (b : LLRect α) (he : b.isEmpty = true) :
    expandForSubregions O b = b := by
  unfold expandForSubregions; simp [he]

omit [IvlArithLaws α] in
/-- C3: a non-empty bound that may contain nearly antipodal points becomes the full rectangle. -/
theorem expandForSubregions_full_case (O : SubOps α) (b : LLRect α) (he : b.isEmpty = false)
    (ha : O.nearlyAntipodal b = true) : expandForSubregions O b = LLRect.full := by
  unfold expandForSubregions; simp [he, ha]

omit [IvlArithLaws α] in
/-- C3: the general branch -/
theorem expandForSubregions_general_case (O : SubOps α) (b : LLRect α) (he : b.isEmpty = false)
    (ha : O.nearlyAntipodal b = false) :
    expandForSubregions O b =
      (b.expanded ⟨O.latExpansion, if O.lngGapNonpos b then pi else zero⟩).polarClosure := by
  unfold expandForSubregions; simp [he, ha]

omit [IvlArithLaws α] in
/-- C4 — STATEMENT ONLY (not proved).  The documented purpose of `ExpandForSubregions`: "if `L` is a loop that
    does not contain either pole and `S` is a loop with `L.Contains(S)`, then
    `ExpandForSubregions(L.RectBound()).Contains(S.RectBound())`".
    `Loop`, `boundOf` (= the computed `RectBound`), `loopContains` and `containsPole` are abstract.
    Its truth depends on the float error constants of the real code (`9ε` latitude expansion, `2.5ε`, the
    thresholds `1.354e-15`, `1.687e-15`, `1.765e-15` of the nearly-antipodal test) together with the error
    analysis of `RectBounder`; it is SEARCHED by the oracle on the Go output, not proved here. -/
def expandForSubregions_covers_subloops_statement {Loop : Type} (O : SubOps α) (boundOf : Loop → LLRect α)
    (loopContains : Loop → Loop → Prop) (containsPole : Loop → Prop) : Prop :=
  ∀ L S : Loop, loopContains L S → ¬ containsPole L →
    (expandForSubregions O (boundOf L)).contains (boundOf S) = true

end C

/-! ## Non-vacuity: concrete instances of the hypotheses (carrier `Int`, π = 4, exact arithmetic) -/

section Examples
open S2.IvlInt

/-- `LngExpandKeeps` is satisfiable: it holds for every non-negative margin in exact arithmetic (C19). -/
theorem lngExpandKeeps_int (m : Int) (hm : 0 ≤ m) : LngExpandKeeps (m : Int) :=
  fun i p hi hp h => s1_expanded_contains i hi m p hm hp h

example : LngExpandKeeps (zero : Int) := lngExpandKeeps_int 0 (by decide)
example : LngExpandKeeps (pi : Int) := lngExpandKeeps_int 4 (by decide)

/-- points: a 3 × 3 grid, latitude `i - 1 ∈ {-1,0,1}`, longitude `2 (j - 1) ∈ {-2,0,2}` -/
abbrev P9 := Fin 3 × Fin 3
def ll9 (p : P9) : LatLng Int := ⟨(p.1.val : Int) - 1, 2 * ((p.2.val : Int) - 1)⟩

/-- a per-edge bounder: "nearly antipodal" (`none`) for two different points symmetric about the grid centre,
    otherwise the rectangle spanned by the two endpoints -/
def E9 : EdgeBounder P9 Int where
  ll := ll9
  edge := fun a b =>
    if a ≠ b ∧ a.1.val + b.1.val = 2 ∧ a.2.val + b.2.val = 2 then none
    else some ⟨⟨min (ll9 a).lat (ll9 b).lat, max (ll9 a).lat (ll9 b).lat⟩,
               ⟨min (ll9 a).lng (ll9 b).lng, max (ll9 a).lng (ll9 b).lng⟩⟩
  pad := 0

/-- "p is a point of the edge a b": the discrete edge consists of its two endpoints -/
def onEdge9 (a b p : P9) : Prop := p = a ∨ p = b

/-- the hypotheses of (A) are satisfiable -/
theorem edgeSound9 : EdgeSound E9 onEdge9 where
  ll_valid := by intro ⟨i, j⟩; revert i j; decide
  pad_nonneg := by decide
  edge_valid := by
    have key : ∀ i j k l : Fin 3, (E9.edge (i, j) (k, l)).all (fun r => r.isValid) = true := by decide
    intro ⟨i, j⟩ ⟨k, l⟩ r h
    have := key i j k l
    rw [h] at this; exact this
  edge_contains := by
    have key : ∀ i j k l : Fin 3, (E9.edge (i, j) (k, l)).all
        (fun r => r.containsLatLng (E9.ll (i, j)) && r.containsLatLng (E9.ll (k, l))) = true := by decide
    intro ⟨i, j⟩ ⟨k, l⟩ r p h hp
    have := key i j k l
    rw [h] at this
    simp only [Option.all_some, Bool.and_eq_true] at this
    rcases hp with rfl | rfl
    · exact this.1
    · exact this.2
  left_on := fun a b => Or.inl rfl
  right_on := fun a b => Or.inr rfl

-- (A): a chain with an ordinary edge, a repeated vertex and a "nearly antipodal" edge; its bounds
example : (runChain E9 [(0, 0), (1, 0), (1, 0), (1, 2)]).bound = LLRect.full ∧
    (runChain E9 [(0, 0), (1, 0), (2, 1)]).bound = ⟨⟨-1, 1⟩, ⟨-2, 0⟩⟩ ∧
    chainBound E9 [(0, 0), (1, 0), (2, 1)] = ⟨⟨-1, 1⟩, ⟨-2, 0⟩⟩ ∧
    chainBound E9 [(0, 0), (2, 0)] = ⟨⟨-1, 1⟩, ⟨-2, -2⟩⟩ ∧
    [((1 : Fin 3), (0 : Fin 3)), (2, 1)] <:+: [(0, 0), (1, 0), (2, 1)] := by
  refine ⟨by decide, by decide, by decide, by decide, ⟨[(0, 0)], [], rfl⟩⟩

example : (chainBound E9 [(0, 0), (1, 0), (2, 1)]).containsLatLng (E9.ll (2, 1)) = true :=
  chainBound_contains_edge edgeSound9 (lngExpandKeeps_int 0 (by decide)) _ (1, 0) (2, 1) (2, 1)
    ⟨[(0, 0)], [], rfl⟩ (Or.inr rfl)

-- (B2), no pole inside: boundary = the eight outer grid points, inside = the centre; `b` = their bound
example : ∀ p : P9, p = (1, 1) →
    (poleAdjust (⟨⟨-1, 1⟩, ⟨-2, 2⟩⟩ : LLRect Int) false false).containsLatLng (ll9 p) = true :=
  poleAdjust_contains (⟨⟨-1, 1⟩, ⟨-2, 2⟩⟩ : LLRect Int) (by decide) false false ll9
    (fun p => p = (1, 1)) (fun q => q ≠ (1, 1))
    (by intro ⟨i, j⟩; revert i j; decide)
    (by intro ⟨i, j⟩ _; revert i j; decide)
    (by rintro - p rfl; exact ⟨(2, 1), by decide, by decide⟩)
    (by rintro - p rfl; exact ⟨(0, 1), by decide, by decide⟩)
    (by rintro - - p rfl I _ h; exact h (0, 1) (by decide))
    (by intro _ h; cases h)

-- (B2), only the south pole inside: the boundary is the "equator" row i = 1, which winds around (lng full);
-- inside = the southern row i = 0
example : ∀ p : P9, p.1 = 0 →
    (poleAdjust (⟨⟨0, 0⟩, S1.full⟩ : LLRect Int) false true).containsLatLng (ll9 p) = true :=
  poleAdjust_contains (⟨⟨0, 0⟩, S1.full⟩ : LLRect Int) (by decide) false true ll9
    (fun p => p.1 = 0) (fun q => q.1 = 1)
    (by intro ⟨i, j⟩; revert i j; decide)
    (by intro ⟨i, j⟩; revert i j; decide)
    (by rintro - p hp; exact ⟨(1, 1), rfl, by obtain ⟨i, j⟩ := p; revert i j; decide⟩)
    (by intro h; cases h)
    (by intro _ h; cases h)
    (by intro _ _; decide)

-- (B3): the hypotheses of `loopBound_contains` for the diamond loop around the centre of the grid
-- (vertex latitudes -1, 0, 1, 0, longitudes 0, 2, 0, -2; the centre has latitude 0 and longitude 0)
example : ∀ p : P9, p = (1, 1) ∨ OnChain onEdge9 (closeChain [(0, 1), (1, 2), (2, 1), (1, 0)]) p →
    (loopBound E9 .normal [(0, 1), (1, 2), (2, 1), (1, 0)] false false).containsLatLng (E9.ll p) = true :=
  loopBound_contains edgeSound9 (lngExpandKeeps_int 0 (by decide)) _ false false (fun p => p = (1, 1))
    (by rintro - p rfl
        exact ⟨(2, 1), ⟨(1, 2), (2, 1), ⟨[(0, 1)], [(1, 0), (0, 1)], rfl⟩, Or.inr rfl⟩, by decide⟩)
    (by rintro - p rfl
        exact ⟨(0, 1), ⟨(0, 1), (1, 2), ⟨[], [(2, 1), (1, 0), (0, 1)], rfl⟩, Or.inl rfl⟩, by decide⟩)
    (by rintro - - p rfl I hI h
        exact h (0, 1) ⟨(0, 1), (1, 2), ⟨[], [(2, 1), (1, 0), (0, 1)], rfl⟩, Or.inl rfl⟩)
    (by intro _ h; cases h)

example : loopBound E9 .normal [(0, 1), (1, 2), (2, 1), (1, 0)] false false = ⟨⟨-1, 1⟩, ⟨-2, 2⟩⟩ ∧
    loopBound E9 .normal [(0, 1), (1, 2), (2, 1), (1, 0)] true false = ⟨⟨-1, 2⟩, S1.full⟩ ∧
    invertBound E9 .normal [(0, 1), (1, 2), (2, 1), (1, 0)] ⟨⟨-1, 1⟩, ⟨-2, 2⟩⟩ true true = LLRect.full ∧
    -- `cS` is not consulted when the computed longitude bound is not full (cf. hypothesis `hF`)
    invertBound E9 .normal [(0, 1), (1, 2), (2, 1), (1, 0)] ⟨⟨-1, 2⟩, S1.full⟩ false true
      = ⟨⟨-1, 1⟩, ⟨-2, 2⟩⟩ := by
  refine ⟨by decide, by decide, by decide, by decide⟩

-- (B5) / polygon: a shell, a hole and a second shell
example : polygonBound [(false, (⟨⟨-1, 0⟩, ⟨-2, 0⟩⟩ : LLRect Int)), (true, ⟨⟨-1, 0⟩, ⟨-1, 0⟩⟩),
      (false, ⟨⟨1, 2⟩, ⟨3, -3⟩⟩)] = ⟨⟨-1, 2⟩, ⟨3, 0⟩⟩ ∧
    polygonBound [(true, (⟨⟨-1, 0⟩, ⟨-2, 0⟩⟩ : LLRect Int))] = ⟨⟨-1, 0⟩, ⟨-2, 0⟩⟩ ∧
    (∀ l ∈ [(false, (⟨⟨-1, 0⟩, ⟨-2, 0⟩⟩ : LLRect Int)), (true, ⟨⟨-1, 0⟩, ⟨-1, 0⟩⟩),
      (false, ⟨⟨1, 2⟩, ⟨3, -3⟩⟩)], l.2.isValid = true) := by decide

-- (C): the three branches of `ExpandForSubregions` for a toy `SubOps`
def O9 : SubOps Int := ⟨fun b => decide (b.lat.lo ≤ -2 ∧ 2 ≤ b.lat.hi), fun b => decide (4 ≤ b.lng.length), 1⟩

example : expandForSubregions O9 (⟨⟨0, 1⟩, ⟨-1, 1⟩⟩ : LLRect Int) = ⟨⟨-1, 2⟩, S1.full⟩ ∧
    expandForSubregions O9 (⟨⟨0, 0⟩, ⟨-1, 1⟩⟩ : LLRect Int) = ⟨⟨-1, 1⟩, ⟨-1, 1⟩⟩ ∧
    expandForSubregions O9 (⟨⟨0, 0⟩, ⟨-2, 2⟩⟩ : LLRect Int) = ⟨⟨-1, 1⟩, S1.full⟩ ∧
    expandForSubregions O9 (⟨⟨-2, 2⟩, ⟨0, 1⟩⟩ : LLRect Int) = LLRect.full ∧
    expandForSubregions O9 (LLRect.empty : LLRect Int) = LLRect.empty ∧
    (zero : Int) ≤ O9.latExpansion := by decide

example (b : LLRect Int) (hb : b.isValid = true) (x : LatLng Int) (hx : b.containsLatLng x = true) :
    (expandForSubregions O9 b).containsLatLng x = true :=
  expandForSubregions_contains O9 b hb (by decide) (lngExpandKeeps_int 0 (by decide))
    (lngExpandKeeps_int 4 (by decide)) x hx

end Examples

end S2Proofs.C10L
