/-
  S2Proofs.C10.Hull — correctness of the monotone-chain convex hull model (`S2.Bounds`, section `hull`).
-/
import S2.Bounds
import Mathlib.Data.List.Basic
import Mathlib.Data.List.Infix
import Mathlib.Data.List.Nodup
import Mathlib.Tactic.Ring
import Mathlib.Tactic.Linarith

namespace S2Proofs.C10L
open S2.Bounds

section chain
variable {P : Type} (sgn : P → P → P → Int)

/-- the reversed stack after processing `pts` -/
def stk (pts : List P) : List P := pts.foldl (chainPush sgn) []

theorem monotoneChain_eq (pts : List P) : monotoneChain sgn pts = (stk sgn pts).reverse := rfl

/-! ### infix helpers -/

theorem pair_infix_cons {b a x : P} {l : List P} :
    [b, a] <:+: x :: l ↔ (b = x ∧ ∃ r, l = a :: r) ∨ [b, a] <:+: l := by
  rw [List.infix_cons_iff]
  constructor
  · rintro (h | h)
    · left
      obtain ⟨t, ht⟩ := h
      simp at ht
      obtain ⟨rfl, ht⟩ := ht
      exact ⟨rfl, t, ht.symm⟩
    · exact Or.inr h
  · rintro (⟨rfl, r, rfl⟩ | h)
    · left; exact ⟨r, by simp⟩
    · exact Or.inr h

theorem triple_infix_cons {c b a x : P} {l : List P} :
    [c, b, a] <:+: x :: l ↔ (c = x ∧ ∃ r, l = b :: a :: r) ∨ [c, b, a] <:+: l := by
  rw [List.infix_cons_iff]
  constructor
  · rintro (h | h)
    · left
      obtain ⟨t, ht⟩ := h
      simp at ht
      obtain ⟨rfl, ht⟩ := ht
      exact ⟨rfl, t, ht.symm⟩
    · exact Or.inr h
  · rintro (⟨rfl, r, rfl⟩ | h)
    · left; exact ⟨r, by simp⟩
    · exact Or.inr h

/-! ### facts about the pop loop -/

theorem chainPop_suffix (st : List P) (p : P) : chainPop sgn st p <:+ st := by
  induction st with
  | nil => simp [chainPop]
  | cons b tl ih =>
    cases tl with
    | nil => simp [chainPop]
    | cons a rest =>
      unfold chainPop
      split
      · exact ih.trans (List.suffix_cons _ _)
      · exact List.suffix_refl _

theorem chainPop_ne_nil {st : List P} (p : P) (h : st ≠ []) : chainPop sgn st p ≠ [] := by
  induction st with
  | nil => exact absurd rfl h
  | cons b tl ih =>
    cases tl with
    | nil => simp [chainPop]
    | cons a rest =>
      unfold chainPop
      split
      · exact ih (by simp)
      · simp

theorem chainPop_getLast? (st : List P) (p : P) : (chainPop sgn st p).getLast? = st.getLast? := by
  induction st with
  | nil => simp [chainPop]
  | cons b tl ih =>
    cases tl with
    | nil => simp [chainPop]
    | cons a rest =>
      unfold chainPop
      split
      · rw [ih]; simp [List.getLast?_cons_cons]
      · rfl

/-- the exit test of the pop loop -/
theorem chainPop_top (st : List P) (p : P) {b a : P} {rest : List P}
    (h : chainPop sgn st p = b :: a :: rest) : sgn a b p = 1 := by
  induction st with
  | nil => simp [chainPop] at h
  | cons b' tl ih =>
    cases tl with
    | nil => simp [chainPop] at h
    | cons a' rest' =>
      unfold chainPop at h
      split at h
      · exact ih h
      · rename_i hne
        simp at h
        obtain ⟨rfl, rfl, rfl⟩ := h
        simpa using hne

/-- either nothing was popped, or the last popped element `b` failed the test against the final top -/
theorem chainPop_witness (st : List P) (p : P) :
    chainPop sgn st p = st ∨
    ∃ b a rest, chainPop sgn st p = a :: rest ∧ (b :: a :: rest) <:+ st ∧ sgn a b p ≠ 1 := by
  induction st with
  | nil => left; simp [chainPop]
  | cons b tl ih =>
    cases tl with
    | nil => left; simp [chainPop]
    | cons a rest =>
      unfold chainPop
      split
      · rename_i hne
        right
        rcases ih with h | ⟨b', a', rest', h1, h2, h3⟩
        · exact ⟨b, a, rest, h, List.suffix_refl _, by simpa using hne⟩
        · exact ⟨b', a', rest', h1, h2.trans (List.suffix_cons _ _), h3⟩
      · left; rfl

/-! ### (1) the chain is a sublist of the input -/

theorem stk_foldl_sublist (pts done st : List P) (h : st.reverse.Sublist done) :
    (pts.foldl (chainPush sgn) st).reverse.Sublist (done ++ pts) := by
  induction pts generalizing done st with
  | nil => simpa using h
  | cons p pts ih =>
    have := ih (done ++ [p]) (chainPush sgn st p) (by
      simp only [chainPush, List.reverse_cons]
      exact List.Sublist.append ((chainPop_suffix sgn st p).sublist.reverse.trans h) (List.Sublist.refl _))
    simpa using this

theorem monotoneChain_sublist (pts : List P) : (monotoneChain sgn pts).Sublist pts := by
  have := stk_foldl_sublist sgn pts [] [] (by simp)
  simpa [monotoneChain] using this

/-! ### (2) every consecutive triple of the chain turns left -/

/-- every consecutive triple `[c, b, a]` of the reversed stack satisfies `sgn a b c = 1` -/
def StackCCW (st : List P) : Prop := ∀ c b a, [c, b, a] <:+: st → sgn a b c = 1

theorem stackCCW_push {st : List P} (p : P) (h : StackCCW sgn st) : StackCCW sgn (chainPush sgn st p) := by
  intro c b a hin
  rw [chainPush, triple_infix_cons] at hin
  rcases hin with ⟨rfl, r, hr⟩ | hin
  · exact chainPop_top sgn st c hr
  · exact h c b a (hin.trans (chainPop_suffix sgn st p).isInfix)

theorem stackCCW_foldl (pts st : List P) (h : StackCCW sgn st) :
    StackCCW sgn (pts.foldl (chainPush sgn) st) := by
  induction pts generalizing st with
  | nil => exact h
  | cons p pts ih => exact ih _ (stackCCW_push sgn p h)

theorem stackCCW_stk (pts : List P) : StackCCW sgn (stk sgn pts) :=
  stackCCW_foldl sgn pts [] (by intro c b a h; simp at h)

theorem monotoneChain_turns_left (pts : List P) :
    ∀ a b c, [a, b, c] <:+: monotoneChain sgn pts → sgn a b c = 1 := by
  intro a b c h
  rw [monotoneChain_eq, ← List.reverse_infix] at h
  simp at h
  exact stackCCW_stk sgn pts c b a h

/-! ### (3) first and last point -/

theorem stk_foldl_head_last (pts st : List P) (hp : pts ≠ []) :
    (pts.foldl (chainPush sgn) st).head? = pts.getLast? ∧
    (pts.foldl (chainPush sgn) st).getLast? = if st = [] then pts.head? else st.getLast? := by
  induction pts generalizing st with
  | nil => exact absurd rfl hp
  | cons p pts ih =>
    cases pts with
    | nil =>
      simp only [List.foldl, chainPush, List.head?_cons, List.getLast?_singleton, true_and]
      by_cases hst : st = []
      · subst hst; simp [chainPop]
      · simp only [hst, if_false]
        obtain ⟨x, l, hx⟩ := List.exists_cons_of_ne_nil (chainPop_ne_nil sgn p hst)
        rw [hx, List.getLast?_cons_cons, ← hx, chainPop_getLast?]
    | cons q pts =>
      have := ih (chainPush sgn st p) (by simp)
      simp only [List.foldl_cons] at this ⊢
      refine ⟨by rw [this.1]; simp [List.getLast?_cons_cons], ?_⟩
      rw [this.2]
      simp only [chainPush, List.cons_ne_nil, if_false]
      by_cases hst : st = []
      · subst hst; simp [chainPop]
      · simp only [hst, if_false]
        obtain ⟨x, l, hx⟩ := List.exists_cons_of_ne_nil (chainPop_ne_nil sgn p hst)
        rw [hx, List.getLast?_cons_cons, ← hx, chainPop_getLast?]

theorem monotoneChain_head_last (pts : List P) (hp : pts ≠ []) :
    (monotoneChain sgn pts).head? = pts.head? ∧ (monotoneChain sgn pts).getLast? = pts.getLast? := by
  have := stk_foldl_head_last sgn pts [] hp
  simp only [monotoneChain, List.head?_reverse, List.getLast?_reverse]
  exact ⟨by simpa using this.2, this.1⟩

end chain

/-! ### (4) every input point lies strictly left of every chain edge -/

/-- Orientation laws relative to the (strict) sort order `lt` of the input.  `t1`–`t3` are the
    instances of the transitivity rule (no. 5) of Knuth's CC systems with one point "at infinity" in the
    sort direction. -/
structure SignLaws {P : Type} (sgn : P → P → P → Int) (lt : P → P → Prop) : Prop where
  irrefl : ∀ a, ¬ lt a a
  trans : ∀ a b c, lt a b → lt b c → lt a c
  cyc  : ∀ a b c, sgn a b c = sgn b c a
  anti : ∀ a b c, sgn b a c = - sgn a b c
  nondeg : ∀ a b c, a ≠ b → b ≠ c → a ≠ c → sgn a b c = 1 ∨ sgn a b c = -1
  t1 : ∀ a b c d, lt a b → lt b c → lt c d → sgn a b c = 1 → sgn b c d = 1 → sgn a b d = 1
  t2 : ∀ o x y z, lt o x → lt o y → lt o z → sgn o x y = 1 → sgn o y z = 1 → sgn o x z = 1
  t3 : ∀ a b q p, lt a b → lt q b → lt b p → q ≠ a → sgn a b q = 1 → sgn a b p = 1 → sgn b p q = 1

section main
variable {P : Type} {sgn : P → P → P → Int} {lt : P → P → Prop}

theorem SignLaws.ne_of_lt (h : SignLaws sgn lt) {a b : P} (hab : lt a b) : a ≠ b := by
  rintro rfl; exact h.irrefl _ hab

/-- `sgn a c b = - sgn a b c` -/
theorem SignLaws.swap23 (h : SignLaws sgn lt) (a b c : P) : sgn a c b = - sgn a b c := by
  rw [h.cyc a c b, h.cyc c b a, h.anti]

theorem pairwise_trichotomy {l : List P} (hl : l.Pairwise lt) {a b : P} (ha : a ∈ l) (hb : b ∈ l)
    (hab : a ≠ b) : lt a b ∨ lt b a := by
  induction l with
  | nil => simp at ha
  | cons x l ih =>
    rw [List.pairwise_cons] at hl
    rcases List.mem_cons.1 ha with rfl | ha' <;> rcases List.mem_cons.1 hb with rfl | hb'
    · exact absurd rfl hab
    · exact Or.inl (hl.1 _ hb')
    · exact Or.inr (hl.1 _ ha')
    · exact ih hl.2 ha' hb'

/-- the invariant of the outer loop: `done` = processed prefix, `st` = reversed stack -/
structure Inv (sgn : P → P → P → Int) (done st : List P) : Prop where
  sub : st.reverse.Sublist done
  head : st.head? = done.getLast?
  last : st.getLast? = done.head?
  left : ∀ b a, [b, a] <:+: st → ∀ q ∈ done, q ≠ a → q ≠ b → sgn a b q = 1

theorem inv_nil : Inv sgn ([] : List P) [] :=
  ⟨by simp, rfl, rfl, by intro b a h; simp at h⟩

/-- (i) of the step: all remaining old edges keep the new point on their left -/
theorem old_edges_left (h : SignLaws sgn lt) (p : P) :
    ∀ st : List P, st.Pairwise (fun x y => lt y x) → (∀ x ∈ st, lt x p) →
      (∀ c b a, [c, b, a] <:+: st → sgn a b c = 1) →
      (∀ b a rest, st = b :: a :: rest → sgn a b p = 1) →
      ∀ b a, [b, a] <:+: st → sgn a b p = 1 := by
  intro st
  induction st with
  | nil => intro _ _ _ _ b a hin; simp at hin
  | cons c tl ih =>
    intro hpw hlt hccw htop b a hin
    rw [pair_infix_cons] at hin
    rcases hin with ⟨rfl, r, rfl⟩ | hin
    · exact htop _ _ _ rfl
    · rw [List.pairwise_cons] at hpw
      refine ih hpw.2 (fun x hx => hlt x (List.mem_cons_of_mem _ hx))
        (fun c' b' a' h' => hccw c' b' a' (h'.trans (List.suffix_cons _ _).isInfix)) ?_ b a hin
      rintro b' a' rest rfl
      have hb'c : lt b' c := hpw.1 b' (by simp)
      have ha'b' : lt a' b' := by
        have := hpw.2; rw [List.pairwise_cons] at this; exact this.1 a' (by simp)
      exact h.t1 a' b' c p ha'b' hb'c (hlt c (by simp))
        (hccw c b' a' ⟨[], rest, by simp⟩) (htop c b' (a' :: rest) rfl)

theorem getLast?_max {l : List P} (hl : l.Pairwise lt) {a : P}
    (ha : l.getLast? = some a) : ∀ q ∈ l, q = a ∨ lt q a := by
  obtain ⟨init, rfl⟩ : ∃ init, l = init ++ [a] := by
    rw [List.getLast?_eq_some_iff] at ha; exact ha
  intro q hq
  rw [List.pairwise_append] at hl
  rcases List.mem_append.1 hq with hq | hq
  · exact Or.inr (hl.2.2 q hq a (by simp))
  · left; simpa using hq

theorem head?_min {l : List P} (hl : l.Pairwise lt) {a : P}
    (ha : l.head? = some a) : ∀ q ∈ l, q = a ∨ lt a q := by
  cases l with
  | nil => simp at ha
  | cons x l =>
    simp at ha; subst ha
    intro q hq
    rw [List.pairwise_cons] at hl
    rcases List.mem_cons.1 hq with rfl | hq
    · exact Or.inl rfl
    · exact Or.inr (hl.1 q hq)

theorem inv_step (h : SignLaws sgn lt) {done st : List P} (p : P)
    (hs : (done ++ [p]).Pairwise lt) (inv : Inv sgn done st) :
    Inv sgn (done ++ [p]) (chainPush sgn st p) := by
  rw [List.pairwise_append] at hs
  obtain ⟨hdone, -, hltp⟩ := hs
  have hltp : ∀ q ∈ done, lt q p := fun q hq => hltp q hq p (by simp)
  -- the stack is strictly decreasing and consists of processed points
  have hst_pw : st.Pairwise (fun x y => lt y x) := by
    have := (hdone.sublist inv.sub)
    rwa [List.pairwise_reverse] at this
  have hst_mem : ∀ x ∈ st, x ∈ done := fun x hx => inv.sub.subset (by simpa using hx)
  have hsuf := chainPop_suffix sgn st p
  have hpop_pw : (chainPop sgn st p).Pairwise (fun x y => lt y x) := hst_pw.sublist hsuf.sublist
  have hpop_mem : ∀ x ∈ chainPop sgn st p, x ∈ done := fun x hx => hst_mem x (hsuf.subset hx)
  -- consecutive triples of the stack turn left
  have hccw : ∀ c b a, [c, b, a] <:+: chainPop sgn st p → sgn a b c = 1 := by
    intro c b a hin
    have hin' : [c, b, a] <:+: st := hin.trans hsuf.isInfix
    have hpw3 : [c, b, a].Pairwise (fun x y => lt y x) := hst_pw.sublist hin'.sublist
    simp at hpw3
    have hc : c ∈ done := hst_mem c (hin'.subset (by simp))
    exact inv.left b a ((show [b, a] <:+: [c, b, a] from ⟨[c], [], rfl⟩).trans hin') c hc
      (h.ne_of_lt hpw3.1.2).symm (h.ne_of_lt hpw3.1.1).symm
  refine ⟨?_, ?_, ?_, ?_⟩
  · simp only [chainPush, List.reverse_cons]
    exact List.Sublist.append (hsuf.sublist.reverse.trans inv.sub) (List.Sublist.refl _)
  · simp [chainPush]
  · by_cases hst : st = []
    · subst hst
      have hd : done = [] := by
        have := inv.head; simp at this
        exact List.getLast?_eq_none_iff.1 this.symm
      subst hd; simp [chainPush, chainPop]
    · obtain ⟨x, l, hx⟩ := List.exists_cons_of_ne_nil (chainPop_ne_nil sgn p hst)
      have hd : done ≠ [] := by
        rintro rfl
        have := inv.sub; simp at this; exact hst this
      rw [chainPush, hx, List.getLast?_cons_cons, ← hx, chainPop_getLast?, inv.last]
      obtain ⟨y, l', rfl⟩ := List.exists_cons_of_ne_nil hd
      simp
  · intro b a hin q hq hqa hqb
    rw [chainPush, pair_infix_cons] at hin
    rcases hin with ⟨rfl, rest, hrest⟩ | hin
    · -- the new edge a → p
      have hq : q ∈ done := by
        rcases List.mem_append.1 hq with hq | hq
        · exact hq
        · simp at hq; exact absurd hq hqb
      have ha : a ∈ done := hpop_mem a (by rw [hrest]; simp)
      have hap : lt a b := hltp a ha
      rcases pairwise_trichotomy hdone hq ha hqa with hlt | hlt
      · -- q below a: the stack has a second element
        have hlast : (chainPop sgn st b).getLast? = done.head? := by
          rw [chainPop_getLast?, inv.last]
        cases rest with
        | nil =>
          rw [hrest] at hlast
          simp at hlast
          rcases head?_min hdone hlast.symm q hq with rfl | h'
          · exact absurd rfl hqa
          · exact absurd (h.trans _ _ _ hlt h') (h.irrefl _)
        | cons a0 rest' =>
          have htest : sgn a0 a b = 1 := chainPop_top sgn st b hrest
          have ha0a : lt a0 a := by
            rw [hrest, List.pairwise_cons] at hpop_pw; exact hpop_pw.1 a0 (by simp)
          by_cases hq0 : q = a0
          · subst hq0; rw [← h.cyc]; exact htest
          · have : sgn a0 a q = 1 :=
              inv.left a a0 ((show [a, a0] <:+: chainPop sgn st b from ⟨[], rest', by simp [hrest]⟩).trans
                hsuf.isInfix) q hq hq0 hqa
            exact h.t3 a0 a q b ha0a hlt hap hq0 this htest
      · -- q above a: a pop happened
        rcases chainPop_witness sgn st b with heq | ⟨b', a', rest', h1, h2, h3⟩
        · exfalso
          have : st.head? = some a := by rw [← heq, hrest]; rfl
          rw [inv.head] at this
          rcases getLast?_max hdone this q hq with rfl | h'
          · exact hqa rfl
          · exact h.irrefl _ (h.trans _ _ _ hlt h')
        · rw [hrest] at h1
          simp at h1
          obtain ⟨rfl, rfl⟩ := h1
          have hb'mem : b' ∈ done := hst_mem b' (h2.subset (by simp))
          have hab' : lt a b' := by
            have := hst_pw.sublist h2.sublist
            rw [List.pairwise_cons] at this; exact this.1 a (by simp)
          have hb'p : lt b' b := hltp b' hb'mem
          have hneg : sgn a b' b = -1 := by
            rcases h.nondeg a b' b (h.ne_of_lt hab') (h.ne_of_lt hb'p) (h.ne_of_lt hap) with h' | h'
            · exact absurd h' h3
            · exact h'
          have hapb' : sgn a b b' = 1 := by rw [h.swap23, hneg]; rfl
          by_cases hqb' : q = b'
          · subst hqb'; exact hapb'
          · have : sgn a b' q = 1 :=
              inv.left b' a ((show [b', a] <:+: b' :: a :: rest from ⟨[], rest, by simp⟩).trans
                h2.isInfix) q hq hqa hqb'
            exact h.t2 a b b' q hap hab' hlt hapb' this
    · -- an old edge
      have hin' : [b, a] <:+: st := hin.trans hsuf.isInfix
      rcases List.mem_append.1 hq with hq | hq
      · exact inv.left b a hin' q hq hqa hqb
      · simp at hq; subst hq
        exact old_edges_left h q (chainPop sgn st q) hpop_pw (fun x hx => hltp x (hpop_mem x hx)) hccw
          (fun b a rest hr => chainPop_top sgn st q hr) b a hin

theorem inv_foldl (h : SignLaws sgn lt) (pts : List P) :
    ∀ done st : List P, (done ++ pts).Pairwise lt → Inv sgn done st →
      Inv sgn (done ++ pts) (pts.foldl (chainPush sgn) st) := by
  induction pts with
  | nil => intro done st _ inv; simpa using inv
  | cons p pts ih =>
    intro done st hs inv
    have hs' : ((done ++ [p]) ++ pts).Pairwise lt := by simpa using hs
    have := ih (done ++ [p]) (chainPush sgn st p) hs'
      (inv_step h p (hs'.sublist (List.sublist_append_left _ _)) inv)
    simpa using this

theorem inv_stk (h : SignLaws sgn lt) {pts : List P} (hs : pts.Pairwise lt) :
    Inv sgn pts (stk sgn pts) := by
  simpa [stk] using inv_foldl h pts [] [] (by simpa using hs) inv_nil

/-- THE MAIN THEOREM: every input point other than the endpoints of a chain edge lies strictly left
    of that edge. -/
theorem monotoneChain_all_left (h : SignLaws sgn lt) {pts : List P} (hs : pts.Pairwise lt) :
    ∀ a b, [a, b] <:+: monotoneChain sgn pts → ∀ p ∈ pts, p ≠ a → p ≠ b → sgn a b p = 1 := by
  intro a b hin p hp hpa hpb
  rw [monotoneChain_eq, ← List.reverse_infix] at hin
  simp at hin
  exact (inv_stk h hs).left b a hin p hp hpa hpb

/-- consecutive chain vertices are strictly increasing w.r.t. the sort order -/
theorem monotoneChain_pair_lt {pts : List P} (hs : pts.Pairwise lt) :
    ∀ a b, [a, b] <:+: monotoneChain sgn pts → lt a b := by
  intro a b hin
  have := hs.sublist ((hin.sublist).trans (monotoneChain_sublist sgn pts))
  simpa using this

end main

/-! ### (5) the full hull -/

section full
variable {P : Type} {sgn : P → P → P → Int} {lt : P → P → Prop}

/-- `(a, b)` is a cyclically consecutive pair of `vs`: consecutive in the list, or `a` is the last
    and `b` the first element -/
def CyclicPair (vs : List P) (a b : P) : Prop :=
  [a, b] <:+: vs ∨ (vs.getLast? = some a ∧ vs.head? = some b)

theorem pair_infix_glue {a b z : P} (s t : List P) (hin : [a, b] <:+: (s ++ [z]) ++ t) :
    [a, b] <:+: s ++ [z] ∨ [a, b] <:+: z :: t := by
  induction s with
  | nil => right; simpa using hin
  | cons x s ih =>
    simp only [List.cons_append] at hin
    rw [pair_infix_cons] at hin
    rcases hin with ⟨rfl, r, hr⟩ | hin
    · left
      cases s with
      | nil =>
        simp at hr
        exact ⟨[], [], by simp [hr.1]⟩
      | cons y s' =>
        simp at hr
        exact ⟨[], s' ++ [z], by simp [hr.1]⟩
    · rcases ih hin with h | h
      · left; exact h.trans (List.suffix_cons _ _).isInfix
      · right; exact h

theorem convexHullSorted_loop (sgn : P → P → P → Int) {pts : List P} (h3 : 3 ≤ pts.length) :
    convexHullSorted sgn pts =
      .loop ((monotoneChain sgn pts).dropLast ++ (monotoneChain sgn pts.reverse).dropLast) := by
  match pts, h3 with
  | _ :: _ :: _ :: _, _ => rfl

theorem first_lt_last {pts : List P} (hs : pts.Pairwise lt) (h2 : 2 ≤ pts.length) {f z : P}
    (hf : pts.head? = some f) (hz : pts.getLast? = some z) : lt f z := by
  match pts, h2 with
  | x :: y :: tl, _ =>
    simp at hf; subst hf
    rw [List.getLast?_cons_cons] at hz
    rw [List.pairwise_cons] at hs
    exact hs.1 z (List.mem_of_getLast? hz)

/-- every cyclic edge of the hull loop is an edge of the lower or of the upper chain -/
theorem cyclicPair_cases (hl : SignLaws sgn lt) {pts : List P} (hs : pts.Pairwise lt)
    (h2 : 2 ≤ pts.length) {a b : P}
    (hc : CyclicPair ((monotoneChain sgn pts).dropLast ++ (monotoneChain sgn pts.reverse).dropLast) a b) :
    [a, b] <:+: monotoneChain sgn pts ∨ [a, b] <:+: monotoneChain sgn pts.reverse := by
  have hne : pts ≠ [] := by rintro rfl; simp at h2
  obtain ⟨f, hf⟩ : ∃ f, pts.head? = some f := by
    cases pts with
    | nil => exact absurd rfl hne
    | cons x _ => exact ⟨x, rfl⟩
  obtain ⟨z, hz⟩ : ∃ z, pts.getLast? = some z := by
    cases h : pts.getLast? with
    | none => exact absurd (List.getLast?_eq_none_iff.1 h) hne
    | some z => exact ⟨z, rfl⟩
  have hfz : f ≠ z := hl.ne_of_lt (first_lt_last hs h2 hf hz)
  obtain ⟨hlh, hll⟩ := monotoneChain_head_last sgn pts hne
  obtain ⟨huh, hul⟩ := monotoneChain_head_last sgn pts.reverse (by simpa using hne)
  rw [hf] at hlh; rw [hz] at hll
  rw [List.head?_reverse, hz] at huh; rw [List.getLast?_reverse, hf] at hul
  generalize monotoneChain sgn pts = l at *
  generalize monotoneChain sgn pts.reverse = u at *
  have hl_eq : l.dropLast ++ [z] = l := List.dropLast_append_getLast? z (by simp [hll])
  have hu_eq : u.dropLast ++ [f] = u := List.dropLast_append_getLast? f (by simp [hul])
  obtain ⟨ut, hut⟩ : ∃ ut, u = z :: ut := by
    cases u with
    | nil => simp at huh
    | cons x ut => simp at huh; exact ⟨ut, by rw [huh]⟩
  -- the lower chain has at least two vertices
  have hvs_head : (l.dropLast ++ u.dropLast).head? = some f := by
    cases hd : l.dropLast with
    | nil =>
      rw [hd] at hl_eq; rw [← hl_eq] at hlh; simp at hlh; exact absurd hlh.symm hfz
    | cons x r =>
      rw [hd] at hl_eq; rw [← hl_eq] at hlh; simp at hlh; simp [hlh]
  have key : [a, b] <:+: (l.dropLast ++ u.dropLast) ++ [f] := by
    rcases hc with hc | ⟨hc1, hc2⟩
    · exact hc.trans (List.prefix_append _ _).isInfix
    · rw [hvs_head] at hc2
      simp at hc2; subst hc2
      have : (l.dropLast ++ u.dropLast).dropLast ++ [a] = l.dropLast ++ u.dropLast :=
        List.dropLast_append_getLast? a (by rw [hc1]; simp)
      rw [← this]
      exact ⟨(l.dropLast ++ u.dropLast).dropLast, [], by simp⟩
  have e : (l.dropLast ++ u.dropLast) ++ [f] = (l.dropLast ++ [z]) ++ ut := by
    rw [List.append_assoc, hu_eq, hut]; simp
  rw [e] at key
  rcases pair_infix_glue _ _ key with h | h
  · left; rwa [hl_eq] at h
  · right; rwa [← hut] at h

theorem hull_subset {pts vs : List P} (h3 : 3 ≤ pts.length)
    (hv : convexHullSorted sgn pts = .loop vs) : ∀ v ∈ vs, v ∈ pts := by
  rw [convexHullSorted_loop sgn h3] at hv
  injection hv with hv
  subst hv
  intro v hv
  rcases List.mem_append.1 hv with hv | hv
  · exact (monotoneChain_sublist sgn pts).subset ((List.dropLast_sublist _).subset hv)
  · simpa using (monotoneChain_sublist sgn pts.reverse).subset ((List.dropLast_sublist _).subset hv)

/-- every cyclic edge `(a, b)` of the hull loop has every other input point strictly on its left -/
theorem hull_all_left (hl : SignLaws sgn lt) (hu : SignLaws sgn (fun a b => lt b a)) {pts vs : List P} (hs : pts.Pairwise lt) (h3 : 3 ≤ pts.length)
    (hv : convexHullSorted sgn pts = .loop vs) :
    ∀ a b, CyclicPair vs a b → ∀ p ∈ pts, p ≠ a → p ≠ b → sgn a b p = 1 := by
  rw [convexHullSorted_loop sgn h3] at hv
  injection hv with hv
  subst hv
  intro a b hc p hp hpa hpb
  rcases cyclicPair_cases hl hs (by omega) hc with h | h
  · exact monotoneChain_all_left hl hs a b h p hp hpa hpb
  · exact monotoneChain_all_left hu (List.pairwise_reverse.2 hs) a b h p (by simpa using hp) hpa hpb

/-- the endpoints of a cyclic edge are distinct -/
theorem cyclicPair_ne (hl : SignLaws sgn lt) (hu : SignLaws sgn (fun a b => lt b a)) {pts vs : List P} (hs : pts.Pairwise lt) (h3 : 3 ≤ pts.length)
    (hv : convexHullSorted sgn pts = .loop vs) : ∀ a b, CyclicPair vs a b → a ≠ b := by
  rw [convexHullSorted_loop sgn h3] at hv
  injection hv with hv
  subst hv
  intro a b hc
  rcases cyclicPair_cases hl hs (by omega) hc with h | h
  · exact hl.ne_of_lt (monotoneChain_pair_lt hs a b h)
  · exact hu.ne_of_lt (monotoneChain_pair_lt (lt := fun a b => lt b a) (List.pairwise_reverse.2 hs) a b h)

theorem cyclicPair_mem {vs : List P} {a b : P} (hc : CyclicPair vs a b) : a ∈ vs ∧ b ∈ vs := by
  rcases hc with h | ⟨h1, h2⟩
  · exact ⟨h.subset (by simp), h.subset (by simp)⟩
  · exact ⟨List.mem_of_getLast? h1, List.mem_of_head? h2⟩

/-- the hull loop is strictly convex: every cyclically consecutive triple turns left -/
theorem hull_convex (hl : SignLaws sgn lt) (hu : SignLaws sgn (fun a b => lt b a)) {pts vs : List P} (hs : pts.Pairwise lt) (h3 : 3 ≤ pts.length)
    (hv : convexHullSorted sgn pts = .loop vs) :
    ∀ a b c, CyclicPair vs a b → CyclicPair vs b c → c ≠ a → sgn a b c = 1 := by
  intro a b c hab hbc hca
  exact hull_all_left hl hu hs h3 hv a b hab c
    (hull_subset h3 hv c (cyclicPair_mem hbc).2) hca
    (cyclicPair_ne hl hu hs h3 hv b c hbc).symm

theorem pair_infix_snoc {a b x : P} {l : List P} (h : [a, b] <:+: l ++ [x]) :
    [a, b] <:+: l ∨ (l.getLast? = some a ∧ b = x) := by
  rw [← List.reverse_infix] at h
  simp only [List.reverse_append, List.reverse_cons, List.reverse_nil, List.nil_append,
    List.singleton_append] at h
  rw [pair_infix_cons] at h
  rcases h with ⟨rfl, r, hr⟩ | h
  · right
    refine ⟨?_, rfl⟩
    rw [← List.head?_reverse, hr]; rfl
  · left
    rw [← List.reverse_infix]; simpa using h

theorem triple_infix_snoc {a b c y : P} {l : List P} (h : [a, b, c] <:+: l ++ [y]) :
    [a, b, c] <:+: l ∨ (l.getLast? = some b ∧ [a, b] <:+: l ∧ c = y) := by
  rw [← List.reverse_infix] at h
  simp only [List.reverse_append, List.reverse_cons, List.reverse_nil, List.nil_append,
    List.cons_append] at h
  rw [triple_infix_cons] at h
  rcases h with ⟨rfl, r, hr⟩ | h
  · right
    refine ⟨?_, ?_, rfl⟩
    · rw [← List.head?_reverse, hr]; rfl
    · rw [← List.reverse_infix, hr]
      exact ⟨[], r, by simp⟩
  · left
    rw [← List.reverse_infix]; simpa using h

/-- the literal formulation of "cyclically consecutive": windows of `vs ++ vs.take 1` -/
theorem cyclicPair_of_infix {vs : List P} {a b : P} (h : [a, b] <:+: vs ++ vs.take 1) :
    CyclicPair vs a b := by
  cases vs with
  | nil => simp at h
  | cons x t =>
    simp only [List.take_succ_cons, List.take_zero] at h
    rcases pair_infix_snoc h with h | ⟨h1, rfl⟩
    · exact Or.inl h
    · exact Or.inr ⟨h1, rfl⟩

/-- windows of length three of `vs ++ vs.take 2` -/
theorem cyclicPair_of_triple_infix {vs : List P} {a b c : P} (h : [a, b, c] <:+: vs ++ vs.take 2) :
    CyclicPair vs a b ∧ CyclicPair vs b c := by
  match vs, h with
  | [], h => simp at h
  | [x], h =>
    have := h.length_le
    simp at this
  | x :: y :: t, h =>
    simp only [List.take_succ_cons, List.take_zero] at h
    have e : x :: y :: t ++ [x, y] = (x :: y :: t ++ [x]) ++ [y] := by simp
    rw [e] at h
    rcases triple_infix_snoc h with h | ⟨h1, h2, rfl⟩
    · have hab : [a, b] <:+: x :: y :: t ++ [x] := (show [a, b] <:+: [a, b, c] from ⟨[], [c], rfl⟩).trans h
      have hbc : [b, c] <:+: x :: y :: t ++ [x] := (show [b, c] <:+: [a, b, c] from ⟨[a], [], rfl⟩).trans h
      constructor
      · rcases pair_infix_snoc hab with h' | ⟨h1, rfl⟩
        · exact Or.inl h'
        · exact Or.inr ⟨h1, rfl⟩
      · rcases pair_infix_snoc hbc with h' | ⟨h1, rfl⟩
        · exact Or.inl h'
        · exact Or.inr ⟨h1, rfl⟩
    · have hb : b = x := by
        have h1' : ((x :: c :: t) ++ [x]).getLast? = some b := h1
        rw [List.getLast?_append] at h1'
        simpa using h1'.symm
      subst hb
      constructor
      · rcases pair_infix_snoc h2 with h' | ⟨h1', _⟩
        · exact Or.inl h'
        · exact Or.inr ⟨h1', rfl⟩
      · exact Or.inl ⟨[], t, by simp⟩

/-- `hull_all_left` with the literal cyclic windows of `vs` -/
theorem hull_all_left_window (hl : SignLaws sgn lt) (hu : SignLaws sgn (fun a b => lt b a))
    {pts vs : List P} (hs : pts.Pairwise lt) (h3 : 3 ≤ pts.length)
    (hv : convexHullSorted sgn pts = .loop vs) :
    ∀ a b, [a, b] <:+: vs ++ vs.take 1 → ∀ p ∈ pts, p ≠ a → p ≠ b → sgn a b p = 1 :=
  fun a b h => hull_all_left hl hu hs h3 hv a b (cyclicPair_of_infix h)

/-- `hull_convex` with the literal cyclic windows of `vs` -/
theorem hull_convex_window (hl : SignLaws sgn lt) (hu : SignLaws sgn (fun a b => lt b a))
    {pts vs : List P} (hs : pts.Pairwise lt) (h3 : 3 ≤ pts.length)
    (hv : convexHullSorted sgn pts = .loop vs) :
    ∀ a b c, [a, b, c] <:+: vs ++ vs.take 2 → c ≠ a → sgn a b c = 1 :=
  fun a b c h hca =>
    hull_convex hl hu hs h3 hv a b c (cyclicPair_of_triple_infix h).1 (cyclicPair_of_triple_infix h).2 hca

end full

/-! ### (6) degenerate inputs, duplicate removal -/

section degenerate
variable {P : Type} (sgn : P → P → P → Int)

theorem convexHullSorted_nil : convexHullSorted sgn ([] : List P) = .empty := rfl
theorem convexHullSorted_single (p : P) : convexHullSorted sgn [p] = .single p := rfl
theorem convexHullSorted_pair (a b : P) : convexHullSorted sgn [a, b] = .edge a b := rfl

theorem convexHull_full (eq : P → P → Bool) (origin : P) (pts : List P) :
    convexHull sgn eq true origin pts = .full := rfl

theorem convexHull_notFull (eq : P → P → Bool) (origin : P) (pts : List P) :
    convexHull sgn eq false origin pts =
      convexHullSorted sgn (sortAround sgn origin (dedupBy eq pts)) := rfl

theorem dedupBy_foldl_spec (eq : P → P → Bool) (heq : ∀ a b, eq a b = true ↔ a = b) (pts : List P) :
    ∀ acc : List P, acc.Nodup →
      (pts.foldl (fun acc p => if acc.any (eq p) then acc else p :: acc) acc).Nodup ∧
      ∀ p, p ∈ pts.foldl (fun acc p => if acc.any (eq p) then acc else p :: acc) acc ↔ p ∈ acc ∨ p ∈ pts := by
  induction pts with
  | nil => intro acc h; simpa using h
  | cons x pts ih =>
    intro acc h
    have hany : acc.any (eq x) = true ↔ x ∈ acc := by
      simp [List.any_eq_true, heq]
    simp only [List.foldl_cons]
    by_cases hx : x ∈ acc
    · rw [if_pos (hany.2 hx)]
      refine ⟨(ih acc h).1, fun p => ?_⟩
      rw [(ih acc h).2 p, List.mem_cons]
      constructor
      · rintro (h' | h')
        · exact Or.inl h'
        · exact Or.inr (Or.inr h')
      · rintro (h' | rfl | h')
        · exact Or.inl h'
        · exact Or.inl hx
        · exact Or.inr h'
    · rw [if_neg (fun h' => hx (hany.1 h'))]
      have hnd : (x :: acc).Nodup := List.nodup_cons.2 ⟨hx, h⟩
      refine ⟨(ih _ hnd).1, fun p => ?_⟩
      rw [(ih _ hnd).2 p, List.mem_cons, List.mem_cons]
      tauto

theorem dedupBy_nodup (eq : P → P → Bool) (heq : ∀ a b, eq a b = true ↔ a = b) (pts : List P) :
    (dedupBy eq pts).Nodup := by
  rw [dedupBy, List.nodup_reverse]
  exact (dedupBy_foldl_spec eq heq pts [] List.nodup_nil).1

theorem mem_dedupBy (eq : P → P → Bool) (heq : ∀ a b, eq a b = true ↔ a = b) (pts : List P) :
    ∀ p, p ∈ dedupBy eq pts ↔ p ∈ pts := by
  intro p
  rw [dedupBy, List.mem_reverse, (dedupBy_foldl_spec eq heq pts [] List.nodup_nil).2 p]
  simp

end degenerate

/-! ### (7) non-vacuity: a concrete instance of all hypotheses -/

section instance7

/-- the planar orientation determinant -/
def det (a b c : Int × Int) : Int := (b.1 - a.1) * (c.2 - a.2) - (b.2 - a.2) * (c.1 - a.1)

/-- the plain (non-robust) orientation sign of integer points; `0` on collinear triples -/
def sgnZ (a b c : Int × Int) : Int := Int.sign (det a b c)

/-- seven integer points in general position, sorted lexicographically (two share `x = 3`) -/
def tbl7 : List (Int × Int) := [(0, 0), (1, 1), (2, -3), (3, 1), (3, 4), (5, -1), (7, 2)]

def pt7 (i : Fin 7) : Int × Int := tbl7.getD i.val (0, 0)

def sgn7 (i j k : Fin 7) : Int := sgnZ (pt7 i) (pt7 j) (pt7 k)

/-- the laws hold for the table, in the sort direction … -/
theorem signLaws7 : SignLaws sgn7 (fun i j : Fin 7 => i < j) where
  irrefl := by decide +kernel
  trans := by decide +kernel
  cyc := by decide +kernel
  anti := by decide +kernel
  nondeg := by decide +kernel
  t1 := by decide +kernel
  t2 := by decide +kernel
  t3 := by decide +kernel

/-- … and in the reverse direction (used for the upper chain) -/
theorem signLaws7_rev : SignLaws sgn7 (fun i j : Fin 7 => j < i) where
  irrefl := by decide +kernel
  trans := by decide +kernel
  cyc := by decide +kernel
  anti := by decide +kernel
  nondeg := by decide +kernel
  t1 := by decide +kernel
  t2 := by decide +kernel
  t3 := by decide +kernel

theorem sorted7 : (List.finRange 7).Pairwise (fun i j : Fin 7 => i < j) := by decide +kernel

/-- the table is sorted lexicographically, so `<` on indices is the lexicographic order of the points -/
example : ∀ i j : Fin 7, i < j ↔
    ((pt7 i).1 < (pt7 j).1 ∨ ((pt7 i).1 = (pt7 j).1 ∧ (pt7 i).2 < (pt7 j).2)) := by decide +kernel

/-- lower chain (the points 1, 3, 4 are popped) -/
example : monotoneChain sgn7 (List.finRange 7) = [0, 2, 5, 6] := by decide +kernel
/-- upper chain -/
example : monotoneChain sgn7 (List.finRange 7).reverse = [6, 4, 0] := by decide +kernel

theorem hull7 : convexHullSorted sgn7 (List.finRange 7) = .loop [0, 2, 5, 6, 4] := by
  rw [convexHullSorted_loop sgn7 (by decide)]
  exact congrArg Hull.loop (by decide +kernel)

/-- the general theorems apply to the instance -/
example : ∀ a b, CyclicPair [0, 2, 5, 6, 4] a b → ∀ p ∈ List.finRange 7, p ≠ a → p ≠ b → sgn7 a b p = 1 :=
  hull_all_left signLaws7 signLaws7_rev sorted7 (by decide) hull7

example : ∀ a b c, CyclicPair ([0, 2, 5, 6, 4] : List (Fin 7)) a b → CyclicPair [0, 2, 5, 6, 4] b c → c ≠ a →
    sgn7 a b c = 1 :=
  hull_convex signLaws7 signLaws7_rev sorted7 (by decide) hull7

/-- COLLINEAR input (plain determinant sign, `sgn = 0` possible): the middle collinear point `(1,0)`
    is popped, because the loop pops on `!= CounterClockwise` (not on `== Clockwise`). -/
example : monotoneChain sgnZ [(0, 0), (1, 0), (2, 0)] = [(0, 0), (2, 0)] := by decide +kernel

example : monotoneChain sgnZ [(0, 0), (1, 0), (1, 1), (2, 0)] = [(0, 0), (2, 0)] := by decide +kernel

/-- fully collinear input of ≥ 3 points: the "loop" degenerates to its two extreme points -/
example : convexHullSorted sgnZ [(0, 0), (1, 0), (2, 0)] = .loop [(0, 0), (2, 0)] := by
  rw [convexHullSorted_loop sgnZ (by decide)]
  exact congrArg Hull.loop (by decide +kernel)

end instance7

/-! ### (8) the laws hold for every set of integer points in general position -/

section general

/-- lexicographic order of integer points -/
def lexLt (a b : Int × Int) : Prop := a.1 < b.1 ∨ (a.1 = b.1 ∧ a.2 < b.2)

theorem t1_core (A1 A2 C1 C2 D1 D2 : Int) (hA : A1 < 0 ∨ (A1 = 0 ∧ A2 < 0))
    (hC : 0 < C1 ∨ (C1 = 0 ∧ 0 < C2)) (hCD : C1 < D1 ∨ (C1 = D1 ∧ C2 < D2))
    (h1 : 0 < C1 * A2 - C2 * A1) (h2 : 0 < C1 * D2 - C2 * D1) : 0 < D1 * A2 - D2 * A1 := by
  have key : C1 * (D1 * A2 - D2 * A1) = (-A1) * (C1 * D2 - C2 * D1) + D1 * (C1 * A2 - C2 * A1) := by ring
  rcases hC with hC | ⟨hC, hC2⟩
  · have hD1 : 0 < D1 := by omega
    have hA1 : 0 ≤ -A1 := by omega
    have hR : 0 < C1 * (D1 * A2 - D2 * A1) := by
      rw [key]
      have := mul_pos hD1 h1
      have := mul_nonneg hA1 h2.le
      linarith
    by_contra hX
    have := mul_nonneg hC.le (neg_nonneg.2 (not_lt.1 hX))
    linarith
  · subst hC
    have hD1 : 0 ≤ D1 := by omega
    have := mul_nonneg hC2.le hD1
    linarith

theorem t2_core (X1 X2 Y1 Y2 Z1 Z2 : Int) (hX : 0 < X1 ∨ (X1 = 0 ∧ 0 < X2))
    (hY : 0 < Y1 ∨ (Y1 = 0 ∧ 0 < Y2)) (hZ : 0 < Z1 ∨ (Z1 = 0 ∧ 0 < Z2))
    (h1 : 0 < X1 * Y2 - X2 * Y1) (h2 : 0 < Y1 * Z2 - Y2 * Z1) : 0 < X1 * Z2 - X2 * Z1 := by
  have key : Y1 * (X1 * Z2 - X2 * Z1) = X1 * (Y1 * Z2 - Y2 * Z1) + Z1 * (X1 * Y2 - X2 * Y1) := by ring
  rcases hY with hY | ⟨hY, hY2⟩
  · have hZ1 : 0 ≤ Z1 := by omega
    rcases hX with hX | ⟨hX, hX2⟩
    · have hR : 0 < Y1 * (X1 * Z2 - X2 * Z1) := by
        rw [key]
        have := mul_pos hX h2
        have := mul_nonneg hZ1 h1.le
        linarith
      by_contra hc
      have := mul_nonneg hY.le (neg_nonneg.2 (not_lt.1 hc))
      linarith
    · subst hX
      have := mul_pos hX2 hY
      linarith
  · subst hY
    have hZ1 : 0 ≤ Z1 := by omega
    have := mul_nonneg hY2.le hZ1
    linarith

theorem t3_core (A1 A2 Q1 Q2 P1 P2 : Int) (hA : A1 < 0 ∨ (A1 = 0 ∧ A2 < 0))
    (hQ : Q1 < 0 ∨ (Q1 = 0 ∧ Q2 < 0)) (hP : 0 < P1 ∨ (P1 = 0 ∧ 0 < P2))
    (h1 : 0 < Q1 * A2 - Q2 * A1) (h2 : 0 < P1 * A2 - P2 * A1) : 0 < P1 * Q2 - P2 * Q1 := by
  have key : (-A1) * (P1 * Q2 - P2 * Q1) = (-Q1) * (P1 * A2 - P2 * A1) + P1 * (Q1 * A2 - Q2 * A1) := by ring
  rcases hA with hA | ⟨hA, hA2⟩
  · have hR : 0 < (-A1) * (P1 * Q2 - P2 * Q1) := by
      rw [key]
      rcases hP with hP | ⟨hP, hP2⟩
      · have := mul_pos hP h1
        have := mul_nonneg (show 0 ≤ -Q1 by omega) h2.le
        linarith
      · subst hP
        rcases hQ with hQ | ⟨hQ, hQ2⟩
        · have := mul_pos (show 0 < -Q1 by omega) h2
          linarith
        · subst hQ
          have := mul_pos (neg_pos.2 hQ2) (neg_pos.2 hA)
          linarith
    by_contra hc
    have := mul_nonneg (show 0 ≤ -A1 by omega) (neg_nonneg.2 (not_lt.1 hc))
    linarith
  · subst hA
    have hP1 : 0 ≤ P1 := by omega
    have := mul_nonneg hP1 (show 0 ≤ -A2 by omega)
    linarith

theorem sgnZ_eq_one_iff (a b c : Int × Int) : sgnZ a b c = 1 ↔ 0 < det a b c := by
  unfold sgnZ; exact Int.sign_eq_one_iff_pos

theorem det_cyc (a b c : Int × Int) : det a b c = det b c a := by unfold det; ring
theorem det_anti (a b c : Int × Int) : det b a c = - det a b c := by unfold det; ring

theorem t1_pts (a b c d : Int × Int) (hab : lexLt a b) (hbc : lexLt b c) (hcd : lexLt c d)
    (h1 : 0 < det a b c) (h2 : 0 < det b c d) : 0 < det a b d := by
  unfold lexLt at hab hbc hcd
  unfold det at h1 h2 ⊢
  have := t1_core (a.1 - b.1) (a.2 - b.2) (c.1 - b.1) (c.2 - b.2) (d.1 - b.1) (d.2 - b.2)
    (by omega) (by omega) (by omega) (by linarith) (by linarith)
  linarith

theorem t2_pts (o x y z : Int × Int) (hx : lexLt o x) (hy : lexLt o y) (hz : lexLt o z)
    (h1 : 0 < det o x y) (h2 : 0 < det o y z) : 0 < det o x z := by
  unfold lexLt at hx hy hz
  unfold det at h1 h2 ⊢
  have := t2_core (x.1 - o.1) (x.2 - o.2) (y.1 - o.1) (y.2 - o.2) (z.1 - o.1) (z.2 - o.2)
    (by omega) (by omega) (by omega) (by linarith) (by linarith)
  linarith

theorem t3_pts (a b q p : Int × Int) (hab : lexLt a b) (hqb : lexLt q b) (hbp : lexLt b p)
    (h1 : 0 < det a b q) (h2 : 0 < det a b p) : 0 < det b p q := by
  unfold lexLt at hab hqb hbp
  unfold det at h1 h2 ⊢
  have := t3_core (a.1 - b.1) (a.2 - b.2) (q.1 - b.1) (q.2 - b.2) (p.1 - b.1) (p.2 - b.2)
    (by omega) (by omega) (by omega) (by linarith) (by linarith)
  linarith

/-- point reflection; preserves orientation and reverses the lexicographic order -/
def negPt (p : Int × Int) : Int × Int := (-p.1, -p.2)

theorem det_negPt (a b c : Int × Int) : det (negPt a) (negPt b) (negPt c) = det a b c := by
  unfold det negPt; ring

theorem lexLt_negPt (a b : Int × Int) : lexLt (negPt a) (negPt b) ↔ lexLt b a := by
  unfold lexLt negPt; constructor <;> intro h <;> simp only at h ⊢ <;> omega

theorem lexLt_irrefl (a : Int × Int) : ¬ lexLt a a := by unfold lexLt; omega
theorem lexLt_trans (a b c : Int × Int) (h1 : lexLt a b) (h2 : lexLt b c) : lexLt a c := by
  unfold lexLt at *; omega

/-- The laws hold for ANY set of integer points in general position (no three collinear), with the
    plain determinant sign and the lexicographic order … -/
theorem signLaws_genPos (S : Int × Int → Prop)
    (hS : ∀ a b c, S a → S b → S c → a ≠ b → b ≠ c → a ≠ c → det a b c ≠ 0) :
    SignLaws (fun a b c : {p // S p} => sgnZ a.1 b.1 c.1) (fun a b => lexLt a.1 b.1) where
  irrefl a := lexLt_irrefl a.1
  trans a b c := lexLt_trans a.1 b.1 c.1
  cyc a b c := by simp only [sgnZ, det_cyc a.1 b.1 c.1]
  anti a b c := by simp only [sgnZ, det_anti a.1 b.1 c.1, Int.sign_neg]
  nondeg a b c hab hbc hac := by
    have := hS a.1 b.1 c.1 a.2 b.2 c.2 (fun h => hab (Subtype.ext h)) (fun h => hbc (Subtype.ext h))
      (fun h => hac (Subtype.ext h))
    rcases lt_or_gt_of_ne this with h | h
    · right; exact Int.sign_eq_neg_one_iff_neg.2 h
    · left; exact Int.sign_eq_one_iff_pos.2 h
  t1 a b c d hab hbc hcd h1 h2 := by
    simp only [sgnZ_eq_one_iff] at *
    exact t1_pts _ _ _ _ hab hbc hcd h1 h2
  t2 o x y z hx hy hz h1 h2 := by
    simp only [sgnZ_eq_one_iff] at *
    exact t2_pts _ _ _ _ hx hy hz h1 h2
  t3 a b q p hab hqb hbp _ h1 h2 := by
    simp only [sgnZ_eq_one_iff] at *
    exact t3_pts _ _ _ _ hab hqb hbp h1 h2

/-- … and with the reversed order (by point reflection). -/
theorem signLaws_genPos_rev (S : Int × Int → Prop)
    (hS : ∀ a b c, S a → S b → S c → a ≠ b → b ≠ c → a ≠ c → det a b c ≠ 0) :
    SignLaws (fun a b c : {p // S p} => sgnZ a.1 b.1 c.1) (fun a b => lexLt b.1 a.1) where
  irrefl a := lexLt_irrefl a.1
  trans a b c h1 h2 := lexLt_trans c.1 b.1 a.1 h2 h1
  cyc := (signLaws_genPos S hS).cyc
  anti := (signLaws_genPos S hS).anti
  nondeg := (signLaws_genPos S hS).nondeg
  t1 a b c d hab hbc hcd h1 h2 := by
    simp only [sgnZ_eq_one_iff] at *
    rw [← det_negPt] at *
    rw [← lexLt_negPt] at hab hbc hcd
    exact t1_pts _ _ _ _ hab hbc hcd h1 h2
  t2 o x y z hx hy hz h1 h2 := by
    simp only [sgnZ_eq_one_iff] at *
    rw [← det_negPt] at *
    rw [← lexLt_negPt] at hx hy hz
    exact t2_pts _ _ _ _ hx hy hz h1 h2
  t3 a b q p hab hqb hbp _ h1 h2 := by
    simp only [sgnZ_eq_one_iff] at *
    rw [← det_negPt] at *
    rw [← lexLt_negPt] at hab hqb hbp
    exact t3_pts _ _ _ _ hab hqb hbp h1 h2

/-- The hull theorem for integer points in general position, sorted lexicographically: every input
    point other than the endpoints lies strictly left (positive determinant) of every cyclic hull edge. -/
theorem hull_all_left_int (S : Int × Int → Prop)
    (hS : ∀ a b c, S a → S b → S c → a ≠ b → b ≠ c → a ≠ c → det a b c ≠ 0)
    {pts vs : List {p // S p}} (hs : pts.Pairwise (fun a b => lexLt a.1 b.1)) (h3 : 3 ≤ pts.length)
    (hv : convexHullSorted (fun a b c : {p // S p} => sgnZ a.1 b.1 c.1) pts = .loop vs) :
    ∀ a b, CyclicPair vs a b → ∀ p ∈ pts, p ≠ a → p ≠ b → 0 < det a.1 b.1 p.1 := by
  intro a b hc p hp hpa hpb
  exact (sgnZ_eq_one_iff _ _ _).1
    (hull_all_left (signLaws_genPos S hS) (signLaws_genPos_rev S hS) hs h3 hv a b hc p hp hpa hpb)

end general

end S2Proofs.C10L
