/-
  S2Proofs.C06Clip.ShrinkIJ — the INTEGER / Hilbert-curve part of the contract of `PaddedCell.ShrinkToFit`
  (s2/paddedcell.go), theorem `shrinkIJCovers : ShrinkIJCovers`.

  * `prefixState_inj`    two cells of the same level and face with the same (I, J) prefix state are equal
  * `leaf_prefix`        prefix states of the leaf `cellIDFromFaceIJ f i j` are `(i / 2^(30-k), j / 2^(30-k))`
  * `parent_leaf_eq`     KEY LEMMA: a leaf whose (i, j) lies in the ij-square of a cell `x` of its face has `x` as ancestor
  * `leaf_in_cell`       … hence lies in the Hilbert range of `x`
  * `div_eq_of_xor_lt`   `a ^^^ b < 2^m → a / 2^m = b / 2^m`
  * `shrinkIJ_face`      value of `shrinkIJ` on a face cell
  * `shrinkIJCovers`
-/
import S2Proofs.C06Clip.Defs
import S2Proofs.C12.HilbertInverse

namespace S2Proofs.C06Clip
open S2 S2.CellID S2.Hilbert S2.PaddedCellM S2Proofs.C12H S2Proofs.C06PC S2Proofs.C06BuildH

/-! ### injectivity of the Hilbert prefix state -/

/-- for a fixed state, the (i, j) increments determine the digit -/
theorem stepSpec_inj (st : Nat × Nat × Nat) (d e : Nat) (ho : st.2.2 < 4) (hd : d < 4) (he : e < 4)
    (h1 : (stepSpec st d).1 = (stepSpec st e).1) (h2 : (stepSpec st d).2.1 = (stepSpec st e).2.1) : d = e := by
  obtain ⟨i, j, o⟩ := st
  simp only at ho
  interval_cases o <;> interval_cases d <;> interval_cases e <;>
    simp [stepSpec, posToIJ, posToOrientation] at h1 h2 ⊢

theorem prefix_div (x : CellID) (m k : Nat) (hmk : m ≤ k) :
    (prefixState x m).1 = (prefixState x k).1 / 2 ^ (k - m) ∧
    (prefixState x m).2.1 = (prefixState x k).2.1 / 2 ^ (k - m) := by
  obtain ⟨h1, h2, h3, h4⟩ := prefixState_mono x m k hmk
  exact ⟨(Nat.div_eq_of_lt_le h1 h2).symm, (Nat.div_eq_of_lt_le h3 h4).symm⟩

theorem div_step (n m : Nat) (hm : m < 30) :
    n / 2 ^ (61 - 2 * (m + 1)) = 4 * (n / 2 ^ (61 - 2 * m)) + n / 2 ^ (59 - 2 * m) % 4 := by
  have e1 : 61 - 2 * (m + 1) = 59 - 2 * m := by omega
  have e2 : 61 - 2 * m = (59 - 2 * m) + 2 := by omega
  rw [e1, e2, Nat.pow_add, ← Nat.div_div_eq_div_mul]
  omega

/-- the prefix states and the top bits of two words with the same face and the same (I, J) at level `k` agree up to
    level `k` -/
theorem prefix_agree (x y : CellID) (k : Nat) (hk : k ≤ 30) (hf : face x = face y)
    (hI : (prefixState x k).1 = (prefixState y k).1) (hJ : (prefixState x k).2.1 = (prefixState y k).2.1) :
    ∀ m, m ≤ k → prefixState x m = prefixState y m ∧ x.toNat / 2 ^ (61 - 2 * m) = y.toNat / 2 ^ (61 - 2 * m) := by
  intro m
  induction m with
  | zero =>
    intro _
    refine ⟨by rw [prefixState_zero, prefixState_zero, hf], ?_⟩
    rw [face_toNat, face_toNat] at hf
    exact hf
  | succ m ih =>
    intro hm
    obtain ⟨ihp, ihd⟩ := ih (by omega)
    have hx := prefix_div x (m + 1) k hm
    have hy := prefix_div y (m + 1) k hm
    have e1 : (prefixState x (m + 1)).1 = (prefixState y (m + 1)).1 := by rw [hx.1, hy.1, hI]
    have e2 : (prefixState x (m + 1)).2.1 = (prefixState y (m + 1)).2.1 := by rw [hx.2, hy.2, hJ]
    rw [prefixState_succ, prefixState_succ, ihp] at e1 e2
    have hd : digit x m = digit y m :=
      stepSpec_inj _ _ _ (prefixState_bounds y m).2.2 (digit_lt x m) (digit_lt y m) e1 e2
    refine ⟨by rw [prefixState_succ, prefixState_succ, ihp, hd], ?_⟩
    rw [div_step _ m (by omega), div_step _ m (by omega), ihd, ← S2Proofs.C12H.digit_eq, ← S2Proofs.C12H.digit_eq, hd]

/-- INJECTIVITY: two cells of the same level on the same face with the same ij-square are equal -/
theorem prefixState_inj {x y : CellID} {k : Nat} (hx : IsCell x k) (hy : IsCell y k) (hf : face x = face y)
    (hI : (prefixState x k).1 = (prefixState y k).1) (hJ : (prefixState x k).2.1 = (prefixState y k).2.1) :
    x = y := by
  obtain ⟨_, hd⟩ := prefix_agree x y k hx.k_le hf hI hJ k (Nat.le_refl _)
  apply UInt64.toNat_inj.mp
  have h1 := Nat.div_add_mod x.toNat (2 ^ (61 - 2 * k))
  have h2 := Nat.div_add_mod y.toNat (2 ^ (61 - 2 * k))
  rw [hx.low, hd] at h1
  rw [hy.low] at h2
  omega

/-! ### leaves built from (face, i, j) -/

/-- the leaf `(f, i, j)`: its face and all its prefix states -/
theorem leaf_prefix (f i j k : Nat) (hf : f < 6) (hi : i < 2 ^ 30) (hj : j < 2 ^ 30) (hk : k ≤ 30) :
    IsCell (cellIDFromFaceIJ f i j) 30 ∧ face (cellIDFromFaceIJ f i j) = f ∧
    (prefixState (cellIDFromFaceIJ f i j) k).1 = i / 2 ^ (30 - k) ∧
    (prefixState (cellIDFromFaceIJ f i j) k).2.1 = j / 2 ^ (30 - k) := by
  obtain ⟨hc, h1, h2, h3⟩ := hilbertBijection f i j hf (by simpa using hi) (by simpa using hj)
  rw [faceIJOrientation_cell hc] at h1 h2 h3
  simp only [Nat.sub_self, Nat.pow_zero, Nat.mul_one, if_true, Nat.add_zero] at h1 h2 h3
  obtain ⟨d1, d2⟩ := prefix_div (cellIDFromFaceIJ f i j) k 30 hk
  rw [h2] at d1
  rw [h3] at d2
  exact ⟨hc, h1, d1, d2⟩

/-- KEY LEMMA: a leaf of face `f` whose (i, j) lies in the ij-square of the cell `x` of face `f` has `x` as its
    level-`k` ancestor -/
theorem parent_leaf_eq {x : CellID} {k f i j : Nat} (hx : IsCell x k) (hfx : face x = f)
    (hi : i < 2 ^ 30) (hj : j < 2 ^ 30)
    (hI : i / 2 ^ (30 - k) = (prefixState x k).1) (hJ : j / 2 ^ (30 - k) = (prefixState x k).2.1) :
    parent (cellIDFromFaceIJ f i j) k = x := by
  have hf : f < 6 := by rw [← hfx]; exact hx.face_lt6
  have hk := hx.k_le
  obtain ⟨hc, hface, h1, h2⟩ := leaf_prefix f i j k hf hi hj hk
  have hp := prefixState_parent hc hk
  apply prefixState_inj (hc.parent_isCell hk) hx
  · rw [hc.parent_face hk, hface, hfx]
  · rw [hp, h1, hI]
  · rw [hp, h2, hJ]

/-- … hence the leaf lies in the Hilbert range of `x` -/
theorem leaf_in_cell {x : CellID} {k f i j : Nat} (hx : IsCell x k) (hfx : face x = f)
    (hib : i < 2 ^ 30) (hjb : j < 2 ^ 30)
    (hI : i / 2 ^ (30 - k) = (prefixState x k).1) (hJ : j / 2 ^ (30 - k) = (prefixState x k).2.1) :
    lo x ≤ (cellIDFromFaceIJ f i j).toNat ∧ (cellIDFromFaceIJ f i j).toNat ≤ hi x := by
  have hf : f < 6 := by rw [← hfx]; exact hx.face_lt6
  obtain ⟨hc, -, -, -⟩ := leaf_prefix f i j k hf hib hjb hx.k_le
  have hp := parent_leaf_eq hx hfx hib hjb hI hJ
  have hcont : contains x (cellIDFromFaceIJ f i j) = true := (hx.contains_iff_parent hc).2 ⟨hx.k_le, hp⟩
  exact (contains_iff _ _).1 hcont

/-- the ij-square form of the hypotheses -/
theorem leaf_in_cell' {x : CellID} {k f i j : Nat} (hx : IsCell x k) (hfx : face x = f)
    (hi1 : (fromCellID x).iLo ≤ i) (hi2 : i < (fromCellID x).iLo + 2 ^ (30 - k))
    (hj1 : (fromCellID x).jLo ≤ j) (hj2 : j < (fromCellID x).jLo + 2 ^ (30 - k)) :
    lo x ≤ (cellIDFromFaceIJ f i j).toNat ∧ (cellIDFromFaceIJ f i j).toNat ≤ hi x := by
  rw [fromCellID_eq hx] at hi1 hi2 hj1 hj2
  simp only at hi1 hi2 hj1 hj2
  obtain ⟨bI, bJ, _⟩ := prefixState_bounds x k
  have m1 := mul_pow_lt _ k hx.k_le bI
  have m2 := mul_pow_lt _ k hx.k_le bJ
  rw [Nat.add_mul, Nat.one_mul] at m1 m2
  have hi2' : i < ((prefixState x k).1 + 1) * 2 ^ (30 - k) := by rw [Nat.add_mul, Nat.one_mul]; exact hi2
  have hj2' : j < ((prefixState x k).2.1 + 1) * 2 ^ (30 - k) := by rw [Nat.add_mul, Nat.one_mul]; exact hj2
  exact leaf_in_cell hx hfx (by omega) (by omega) (Nat.div_eq_of_lt_le hi1 hi2') (Nat.div_eq_of_lt_le hj1 hj2')

/-! ### bit facts -/

theorem div_eq_of_xor_lt (a b m : Nat) (h : a ^^^ b < 2 ^ m) : a / 2 ^ m = b / 2 ^ m := by
  apply Nat.eq_of_testBit_eq
  intro i
  rw [Nat.testBit_div_two_pow, Nat.testBit_div_two_pow]
  have hlt : a ^^^ b < 2 ^ (i + m) :=
    Nat.lt_of_lt_of_le h (Nat.pow_le_pow_right (by omega) (by omega))
  have := Nat.testBit_lt_two_pow hlt
  rw [Nat.testBit_xor] at this
  revert this
  cases a.testBit (i + m) <;> cases b.testBit (i + m) <;> simp

/-- an integer between two integers with the same quotient has that quotient -/
theorem div_between (a b c n : Nat) (hab : a / n = b / n) (h1 : a ≤ c ∨ b ≤ c) (h2 : c ≤ a ∨ c ≤ b) :
    c / n = a / n := by
  have m1 : a ≤ c → a / n ≤ c / n := fun h => Nat.div_le_div_right h
  have m2 : b ≤ c → b / n ≤ c / n := fun h => Nat.div_le_div_right h
  have m3 : c ≤ a → c / n ≤ a / n := fun h => Nat.div_le_div_right h
  have m4 : c ≤ b → c / n ≤ b / n := fun h => Nat.div_le_div_right h
  rcases h1 with h1 | h1 <;> rcases h2 with h2 | h2 <;> omega

/-! ### `shrinkIJ` on a face cell -/

theorem shrinkIJ_face (f : Nat) (hf : f < 6) (xlo xhi ylo yhi : Nat)
    (hxl : xlo < 2 ^ 30) (hxh : xhi < 2 ^ 30) (hyl : ylo < 2 ^ 30) (hyh : yhi < 2 ^ 30) :
    shrinkIJ (fromCellID (fromFace f)) xlo xhi ylo yhi =
      if 30 - Nat.log2 (2 * ((xlo ^^^ xhi) ||| (ylo ^^^ yhi)) + 1) ≤ 0 then fromFace f
      else parent (cellIDFromFaceIJ f xlo ylo) (30 - Nat.log2 (2 * ((xlo ^^^ xhi) ||| (ylo ^^^ yhi)) + 1)) := by
  obtain ⟨h1, h2, h3⟩ := face_fromCellID f hf
  have hface : face (fromFace f) = f := (S2Proofs.C01.fromFace_spec f hf).2.2.2.1
  have hX : (xlo ^^^ xhi) ||| (ylo ^^^ yhi) < 2 ^ 30 :=
    Nat.or_lt_two_pow (Nat.xor_lt_two_pow hxl hxh) (Nat.xor_lt_two_pow hyl hyh)
  unfold shrinkIJ
  simp only [h1, h2, h3, fromCellID_id, hface, sizeIJ_eq, Nat.sub_zero, Nat.zero_add]
  have ei : (if 0 < xlo then xlo else 0) = xlo := by split <;> omega
  have ej : (if 0 < ylo then ylo else 0) = ylo := by split <;> omega
  have exi : (if 2 ^ 30 - 1 ≤ xhi then xlo ^^^ (2 ^ 30 - 1) else xlo ^^^ xhi) = xlo ^^^ xhi := by
    split
    · rw [show xhi = 2 ^ 30 - 1 by omega]
    · rfl
  have eyi : (if 2 ^ 30 - 1 ≤ yhi then ylo ^^^ (2 ^ 30 - 1) else ylo ^^^ yhi) = ylo ^^^ yhi := by
    split
    · rw [show yhi = 2 ^ 30 - 1 by omega]
    · rfl
  rw [ei, ej, exi, eyi]
  have em : msbPos (UInt64.ofNat ((((xlo ^^^ xhi) ||| (ylo ^^^ yhi)) <<< 1) + 1)) =
      Nat.log2 (2 * ((xlo ^^^ xhi) ||| (ylo ^^^ yhi)) + 1) := by
    unfold msbPos
    rw [UInt64.toNat_ofNat', Nat.shiftLeft_eq, Nat.pow_one, Nat.mul_comm]
    rw [Nat.mod_eq_of_lt (by omega)]
  rw [em]
  rfl

/-! ### the theorem -/

theorem face_of_range {x : CellID} {k f : Nat} (hx : IsCell x k) (hf : f < 6)
    (h1 : lo (fromFace f) ≤ lo x) (h2 : hi x ≤ hi (fromFace f)) : face x = f := by
  have hF := fromFace_isCell f hf
  have hle := hx.rangeMin_le
  have a := hF.rangeMin_eq
  have b := hF.rangeMax_eq
  have e := fromFace_toNat f hf
  rw [face_toNat]
  change (rangeMin (fromFace f)).toNat ≤ (rangeMin x).toNat at h1
  change (rangeMax x).toNat ≤ (rangeMax (fromFace f)).toNat at h2
  rw [a, e] at h1
  rw [b, e] at h2
  simp only [Nat.reducePow, Nat.reduceMul, Nat.reduceSub] at h1 h2 ⊢
  omega

theorem shrinkIJCovers : ShrinkIJCovers := by
  intro f hf xlo xhi ylo yhi hxl hxh hyl hyh x k hx hlo hhi hi1 hi2 hj1 hj2
  rw [shrinkIJ_face f hf xlo xhi ylo yhi hxl hxh hyl hyh]
  have hxr := hx.rangeMin_le
  split
  · -- the face cell itself
    show ¬ ((rangeMax x).toNat < lo (fromFace f) ∨ hi (fromFace f) < (rangeMin x).toNat)
    change lo (fromFace f) ≤ (rangeMin x).toNat at hlo
    change (rangeMax x).toNat ≤ hi (fromFace f) at hhi
    omega
  · rename_i hlvl
    generalize hX : (xlo ^^^ xhi) ||| (ylo ^^^ yhi) = X at hlvl ⊢
    have hXlt : X < 2 ^ 30 := by
      rw [← hX]; exact Nat.or_lt_two_pow (Nat.xor_lt_two_pow hxl hxh) (Nat.xor_lt_two_pow hyl hyh)
    generalize hm : Nat.log2 (2 * X + 1) = m at hlvl ⊢
    have hm29 : m ≤ 29 := by omega
    have hXm : X < 2 ^ m := by
      have := @Nat.lt_log2_self (2 * X + 1)
      rw [hm, Nat.pow_succ] at this
      omega
    have hxx : xlo ^^^ xhi < 2 ^ m := by
      have : xlo ^^^ xhi ≤ X := by rw [← hX]; exact Nat.left_le_or
      omega
    have hyy : ylo ^^^ yhi < 2 ^ m := by
      have : ylo ^^^ yhi ≤ X := by rw [← hX]; exact Nat.right_le_or
      omega
    have hxd := div_eq_of_xor_lt xlo xhi m hxx
    have hyd := div_eq_of_xor_lt ylo yhi m hyy
    have hface := face_of_range hx hf hlo hhi
    -- the common point (i*, j*)
    obtain ⟨I, hI⟩ : ∃ I, I = (fromCellID x).iLo := ⟨_, rfl⟩
    obtain ⟨J, hJ⟩ : ∃ J, J = (fromCellID x).jLo := ⟨_, rfl⟩
    rw [← hI] at hi1 hi2
    rw [← hJ] at hj1 hj2
    obtain ⟨i, ia, ib, ic, id⟩ : ∃ i, I ≤ i ∧ i < I + 2 ^ (30 - k) ∧ (xlo ≤ i ∨ xhi ≤ i) ∧ (i ≤ xlo ∨ i ≤ xhi) := by
      have := Nat.two_pow_pos (30 - k)
      by_cases h : xlo ≤ xhi
      · exact ⟨max I xlo, by omega, by omega, by omega, by omega⟩
      · exact ⟨xhi, by omega, by omega, by omega, by omega⟩
    obtain ⟨j, ja, jb, jc, jd⟩ : ∃ j, J ≤ j ∧ j < J + 2 ^ (30 - k) ∧ (ylo ≤ j ∨ yhi ≤ j) ∧ (j ≤ ylo ∨ j ≤ yhi) := by
      have := Nat.two_pow_pos (30 - k)
      by_cases h : ylo ≤ yhi
      · exact ⟨max J ylo, by omega, by omega, by omega, by omega⟩
      · exact ⟨yhi, by omega, by omega, by omega, by omega⟩
    have hi30 : i < 2 ^ 30 := by omega
    have hj30 : j < 2 ^ 30 := by omega
    rw [hI] at ia ib
    rw [hJ] at ja jb
    -- in the range of x
    obtain ⟨r1, r2⟩ := leaf_in_cell' hx hface ia ib ja jb
    -- in the range of R
    obtain ⟨hc, hLf, hL1, hL2⟩ := leaf_prefix f xlo ylo (30 - m) hf hxl hyl (by omega)
    have hR : IsCell (parent (cellIDFromFaceIJ f xlo ylo) (30 - m)) (30 - m) := hc.parent_isCell (by omega)
    have hRf : face (parent (cellIDFromFaceIJ f xlo ylo) (30 - m)) = f := by
      rw [hc.parent_face (by omega), hLf]
    have hRp := prefixState_parent hc (show 30 - m ≤ 30 by omega)
    have e30 : 30 - (30 - m) = m := by omega
    rw [e30] at hL1 hL2
    obtain ⟨s1, s2⟩ := leaf_in_cell (i := i) (j := j) hR hRf hi30 hj30
      (by rw [hRp, hL1, e30]; exact div_between xlo xhi i _ hxd ic id)
      (by rw [hRp, hL2, e30]; exact div_between ylo yhi j _ hyd jc jd)
    show ¬ ((rangeMax x).toNat < lo (parent (cellIDFromFaceIJ f xlo ylo) (30 - m)) ∨
      hi (parent (cellIDFromFaceIJ f xlo ylo) (30 - m)) < (rangeMin x).toNat)
    change (rangeMin x).toNat ≤ _ at r1
    change _ ≤ (rangeMax x).toNat at r2
    omega

/-- a concrete instance: face 1, the rectangle `[5,6] × [9,10]` shrinks to a level-26 cell -/
example : shrinkIJ (fromCellID (fromFace 1)) 5 6 9 10 = parent (cellIDFromFaceIJ 1 5 9) 28 := by
  rw [shrinkIJ_face 1 (by omega) 5 6 9 10 (by omega) (by omega) (by omega) (by omega)]
  have : Nat.log2 (2 * ((5 ^^^ 6) ||| (9 ^^^ 10)) + 1) = 2 := by decide
  rw [this]; rfl

/-- non-vacuity: the hypotheses of `ShrinkIJCovers` hold for the face cell itself -/
example : ¬ (hi (fromFace 1) < lo (shrinkIJ (fromCellID (fromFace 1)) 5 6 9 10) ∨
    hi (shrinkIJ (fromCellID (fromFace 1)) 5 6 9 10) < lo (fromFace 1)) := by
  obtain ⟨h1, h2, _⟩ := face_fromCellID 1 (by omega)
  exact shrinkIJCovers 1 (by omega) 5 6 9 10 (by omega) (by omega) (by omega) (by omega) (fromFace 1) 0
    (fromFace_isCell 1 (by omega)) (Nat.le_refl _) (Nat.le_refl _)
    (by rw [h1]; omega) (by rw [h1]; omega) (by rw [h2]; omega) (by rw [h2]; omega)

end S2Proofs.C06Clip

#print axioms S2Proofs.C06Clip.shrinkIJCovers
#print axioms S2Proofs.C06Clip.prefixState_inj
#print axioms S2Proofs.C06Clip.parent_leaf_eq
