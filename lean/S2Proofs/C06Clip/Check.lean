/-
  S2Proofs.C06Clip.Check — a decidable (Boolean) check that implies the hypothesis `FaceEdgeOK` of every face edge the
  builder creates for a concrete input, so that the remaining hypothesis of `build_I1_float` can be discharged by
  evaluation (`decide +kernel`) for concrete shapes.
-/
import S2Proofs.C06Clip.Defs
import S2Proofs.C12.STExact
import S2Proofs.C06.BuildTop

namespace S2Proofs.C06Clip
open S2 S2.CellID S2.Hilbert S2.PaddedCellM S2.IndexBuild S2Proofs.F64Order S2Proofs.C06BuildH S2.Exact

/-- finite and `|x| ≤ 1 + 2^-40`, on the exact integer value `toInt x = x · 2^1074` -/
def coordOKb (x : F64) : Bool := x.isFinite && decide ((toInt x).natAbs ≤ 2 ^ 1074 + 2 ^ 1034)

def faceEdgeOKb (fe : FaceEdge) : Bool :=
  coordOKb fe.a.1 && coordOKb fe.a.2 && coordOKb fe.b.1 && coordOKb fe.b.2

/-- all face edges `addShapeInternal` creates for `shapes` pass the check -/
def faceEdgesOKb (shapes : Array Shape) : Bool := (allFaceEdges shapes).all fun p => faceEdgeOKb p.2

set_option exponentiation.threshold 2100 in
theorem coordOK_of_b {x : F64} (h : coordOKb x = true) : CoordOK x := by
  unfold coordOKb at h
  simp only [Bool.and_eq_true, decide_eq_true_eq] at h
  obtain ⟨hf, hb⟩ := h
  refine ⟨S2Proofs.C12ST.fin_of_isFinite hf, ?_⟩
  have h1 : |rv x| = ((toInt x).natAbs : ℝ) / 2 ^ 1074 := by
    unfold rv S2Proofs.FloatErr.val
    rw [abs_div, abs_of_pos (show (0 : ℝ) < 2 ^ 1074 by positivity), Nat.cast_natAbs, Int.cast_abs]
  have h2 : ((toInt x).natAbs : ℝ) ≤ 2 ^ 1074 + 2 ^ 1034 := by exact_mod_cast hb
  rw [h1, div_le_iff₀ (by positivity)]
  have e : ((1 : ℝ) + 1 / 2 ^ 40) * 2 ^ 1074 = 2 ^ 1074 + 2 ^ 1034 := by
    rw [show (2 : ℝ) ^ 1074 = 2 ^ 40 * 2 ^ 1034 by rw [← pow_add]]; field_simp
  rw [e]; exact h2

theorem faceEdgeOK_of_b {fe : FaceEdge} (h : faceEdgeOKb fe = true) : FaceEdgeOK fe := by
  unfold faceEdgeOKb at h
  simp only [Bool.and_eq_true] at h
  obtain ⟨⟨⟨h1, h2⟩, h3⟩, h4⟩ := h
  exact ⟨coordOK_of_b h1, coordOK_of_b h2, coordOK_of_b h3, coordOK_of_b h4⟩

theorem faceEdgeOK_of_all {shapes : Array Shape} (h : faceEdgesOKb shapes = true) (f : Nat) (fe : FaceEdge)
    (hfe : fe ∈ faceEdgesOf (allFaceEdges shapes) f) : FaceEdgeOK fe := by
  obtain ⟨x, hx, rfl⟩ := faceEdgesOf_mem _ _ _ hfe
  unfold faceEdgesOKb at h
  exact faceEdgeOK_of_b (List.all_eq_true.mp h x hx)

end S2Proofs.C06Clip
