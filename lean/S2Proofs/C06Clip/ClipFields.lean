/-
  S2Proofs.C06Clip.ClipFields — the fields of `ClipSoundNG MeetsReal BoundOKR MR BR` (no hypothesis left), and `RootSound`.
-/
import S2Proofs.C06Clip.Regions

namespace S2Proofs.C06Clip
open S2 S2.CellID S2.Hilbert S2.PaddedCellM S2.IndexBuild S2Proofs.F64Order S2Proofs.C06BuildH S2.Exact

/-! ### regions of a child = whole-cell regions of the child cell -/

theorem child_idx {c : CellID} {k pos : Nat} (hc : IsCell c k) (hk : k < 30) (hpos : pos < 4) :
    kULo (child c pos) none = kULo c (some (childIJ (fromCellID c) pos).1) ∧
    kUHi (child c pos) none = kUHi c (some (childIJ (fromCellID c) pos).1) ∧
    kVLo (child c pos) none = kVLo c (some (childIJ (fromCellID c) pos).2) ∧
    kVHi (child c pos) none = kVHi c (some (childIJ (fromCellID c) pos).2) := by
  obtain ⟨hi, hj, hl, hI, hJ⟩ := cell_child hc hk hpos
  have fu := kU_facts hc hk none regIdx_none
  have fv := kV_facts hc hk none regIdx_none
  have hs : sizeIJ (k + 1) = 2 ^ (29 - k) := by
    rw [S2Proofs.C06PC.sizeIJ_eq, show 30 - (k + 1) = 29 - k by omega]
  have e1 : kULo (child c pos) none = (fromCellID (child c pos)).iLo := by simp [kULo, kLo]
  have e2 : kUHi (child c pos) none = (fromCellID (child c pos)).iLo + 2 ^ (29 - k) := by
    simp [kUHi, kHi, hl, hs]
  have e3 : kVLo (child c pos) none = (fromCellID (child c pos)).jLo := by simp [kVLo, kLo]
  have e4 : kVHi (child c pos) none = (fromCellID (child c pos)).jLo + 2 ^ (29 - k) := by
    simp [kVHi, kHi, hl, hs]
  rw [e1, e2, e3, e4, hI, hJ]
  generalize (childIJ (fromCellID c) pos).1 = i at hi ⊢
  generalize (childIJ (fromCellID c) pos).2 = j at hj ⊢
  have hi' : i = 0 ∨ i = 1 := by omega
  have hj' : j = 0 ∨ j = 1 := by omega
  rcases hi' with rfl | rfl <;> rcases hj' with rfl | rfl
  · rw [fu.2.2.1, fu.2.2.2.1, fv.2.2.1, fv.2.2.2.1]; omega
  · rw [fu.2.2.1, fu.2.2.2.1, fv.2.2.2.2.1, fv.2.2.2.2.2.1]; omega
  · rw [fu.2.2.2.2.1, fu.2.2.2.2.2.1, fv.2.2.1, fv.2.2.2.1]; omega
  · rw [fu.2.2.2.2.1, fu.2.2.2.2.2.1, fv.2.2.2.2.1, fv.2.2.2.2.2.1]; omega

/-! ### `Meets` -/

theorem meets_child_real (fe : FaceEdge) (c : CellID) (k pos : Nat) (hc : IsCell c k) (hk : k < 30) (hpos : pos < 4)
    (h : MeetsReal fe (child c pos)) : MeetsReal fe c := by
  obtain ⟨o1, o2, o3, o4⟩ := cellRect_order hc hk
  obtain ⟨r1, r2, r3, r4⟩ := cellRect_child hc hk hpos
  obtain ⟨t, h0, h1, a, b, c', d⟩ := h
  refine ⟨t, h0, h1, ?_, ?_, ?_, ?_⟩
  · rw [r1] at a; split at a <;> linarith
  · rw [r2] at b; split at b <;> linarith
  · rw [r3] at c'; split at c' <;> linarith
  · rw [r4] at d; split at d <;> linarith

theorem M_child_real (c : CellID) (k : Nat) (fe : FaceEdge) (pos : Nat) (hc : IsCell c k) (hk : k < 30) (hpos : pos < 4)
    (h : MeetsReal fe (child c pos)) :
    MR fe c (some (childIJ (fromCellID c) pos).1) (some (childIJ (fromCellID c) pos).2) := by
  obtain ⟨t, h0, h1, hr⟩ := (meetsReal_iff fe (child c pos)).1 h
  obtain ⟨e1, e2, e3, e4⟩ := child_idx hc hk hpos
  unfold InRegM at hr
  rw [e1, e2, e3, e4] at hr
  exact ⟨⟨k, hc, hk⟩, t, h0, h1, hr⟩

theorem M_mono_u_real (fe : FaceEdge) (c : CellID) (i : Nat) (j : Option Nat) (hi : i < 2) (_hj : RegIdx j)
    (h : MR fe c (some i) j) : MR fe c none j := by
  obtain ⟨⟨k, hc, hk⟩, t, h0, h1, a, b, c', d⟩ := h
  have f := kU_facts hc hk (some i) (regIdx_some hi)
  refine ⟨⟨k, hc, hk⟩, t, h0, h1, ?_, ?_, c', d⟩
  · have := UG_mono (k1 := kULo c none) (k2 := kULo c (some i)) (by rw [f.1]; exact f.2.2.2.2.2.2.1)
      f.2.2.2.2.2.2.2.2.2.2
    linarith
  · have := UG_mono (k1 := kUHi c (some i)) (k2 := kUHi c none) (by rw [f.2.1]; exact f.2.2.2.2.2.2.2.2.1)
      (by rw [f.2.1]; exact (axes hc hk).2.1)
    linarith

theorem M_mono_v_real (fe : FaceEdge) (c : CellID) (i : Option Nat) (j : Nat) (_hi : RegIdx i) (hj : j < 2)
    (h : MR fe c i (some j)) : MR fe c i none := by
  obtain ⟨⟨k, hc, hk⟩, t, h0, h1, a, b, c', d⟩ := h
  have f := kV_facts hc hk (some j) (regIdx_some hj)
  refine ⟨⟨k, hc, hk⟩, t, h0, h1, a, b, ?_, ?_⟩
  · have := UG_mono (k1 := kVLo c none) (k2 := kVLo c (some j)) (by rw [f.1]; exact f.2.2.2.2.2.2.1)
      f.2.2.2.2.2.2.2.2.2.2
    linarith
  · have := UG_mono (k1 := kVHi c (some j)) (k2 := kVHi c none) (by rw [f.2.1]; exact f.2.2.2.2.2.2.2.2.1)
      (by rw [f.2.1]; exact (axes hc hk).2.2)
    linarith

/-! ### `BoundOK` -/

theorem B_child_real (c : CellID) (k : Nat) (ce : ClippedEdge) (pos : Nat) (hc : IsCell c k) (hk : k < 30)
    (hpos : pos < 4)
    (h : BR ce c (some (childIJ (fromCellID c) pos).1) (some (childIJ (fromCellID c) pos).2)) :
    BoundOKR ce (child c pos) := by
  obtain ⟨e1, e2, e3, e4⟩ := child_idx hc hk hpos
  refine ⟨h.1, fun _ t h0 h1 hr => h.2 ⟨k, hc, hk⟩ t h0 h1 ?_⟩
  unfold InRegF at hr ⊢
  rw [e1, e2, e3, e4] at hr
  exact hr

/-- a smaller u-region -/
theorem BR_shrink_u {ce : ClippedEdge} {c : CellID} {i : Option Nat} (hi : RegIdx i) {j : Option Nat} (hj : RegIdx j)
    (h : BR ce c none j) : BR ce c i j := by
  refine ⟨h.1, fun nl t h0 h1 hr => h.2 nl t h0 h1 ?_⟩
  obtain ⟨k, hc, hk⟩ := nl
  have f := kU_facts hc hk i hi
  exact inRegF_mono hc hk hi regIdx_none hj hj (by rw [f.1]; exact f.2.2.2.2.2.2.1)
    (by rw [f.2.1]; exact f.2.2.2.2.2.2.2.2.1) (le_refl _) (le_refl _) hr

/-- a smaller v-region -/
theorem BR_shrink_v {ce : ClippedEdge} {c : CellID} {i : Option Nat} (hi : RegIdx i) {j : Option Nat} (hj : RegIdx j)
    (h : BR ce c i none) : BR ce c i j := by
  refine ⟨h.1, fun nl t h0 h1 hr => h.2 nl t h0 h1 ?_⟩
  obtain ⟨k, hc, hk⟩ := nl
  have f := kV_facts hc hk j hj
  exact inRegF_mono hc hk hi hi hj regIdx_none (le_refl _) (le_refl _) (by rw [f.1]; exact f.2.2.2.2.2.2.1)
    (by rw [f.2.1]; exact f.2.2.2.2.2.2.2.2.1) hr

/-! ### one clip call, region form -/

theorem clipU_gen {c : CellID} (ce : ClippedEdge) (i' : Option Nat) (hi' : RegIdx i') (uEnd : Nat)
    (hE : uEnd = 0 ∨ uEnd = 1) (x : F64) (hx : Fin x) (hx49 : 1 / 2 ^ 49 ≤ |rv x|) (hB : BR ce c none none)
    (hlo : uEnd = 1 → rv ce.bound.1.1 < rv x) (hhi : uEnd = 0 → rv x < rv ce.bound.1.2)
    (hs1 : uEnd = 1 → rv (padHiF (kUHi c i')) ≤ rv x) (hs0 : uEnd = 0 → rv x ≤ rv (padLoF (kULo c i'))) :
    BR (clipUBound ce uEnd x) c i' none := by
  have hB' : BR ce c i' none := BR_shrink_u hi' regIdx_none hB
  obtain ⟨hw, hin⟩ := hB'
  by_cases hchk : (if uEnd == 0 then F64.ge ce.bound.1.1 x else F64.le ce.bound.1.2 x) = true
  · have : clipUBound ce uEnd x = ce := by unfold clipUBound; rw [if_pos hchk]
    rw [this]; exact ⟨hw, hin⟩
  · have hlo' : rv ce.bound.1.1 < rv x := by
      rcases hE with rfl | rfl
      · simp only [beq_self_eq_true, if_true] at hchk
        by_contra hcon
        exact hchk ((ge_iff_rv hw.wu.1 hx).2 (not_lt.mp hcon))
      · exact hlo rfl
    have hhi' : rv x < rv ce.bound.1.2 := by
      rcases hE with rfl | rfl
      · exact hhi rfl
      · have : ((1 : Nat) == 0) = false := by decide
        simp only [this, Bool.false_eq_true, if_false] at hchk
        by_contra hcon
        exact hchk ((le_iff_rv hw.wu.2.1 hx).2 (not_lt.mp hcon))
    obtain ⟨hw', hs⟩ := clipUBound_sound ce hw uEnd hE x hx hx49 hlo' hhi'
    refine ⟨hw', fun nl t h0 h1 hr => ?_⟩
    rw [clipUBound_fe] at hr ⊢
    exact hs t h0 h1 (fun h => le_trans hr.2.1 (hs1 h)) (fun h => le_trans (hs0 h) hr.1) (hin nl t h0 h1 hr)

theorem clipV_gen {c : CellID} (ce : ClippedEdge) (i : Option Nat) (hi : RegIdx i) (j' : Option Nat) (hj' : RegIdx j')
    (vEnd : Nat) (hE : vEnd = 0 ∨ vEnd = 1) (x : F64) (hx : Fin x) (hx49 : 1 / 2 ^ 49 ≤ |rv x|) (hB : BR ce c i none)
    (hlo : vEnd = 1 → rv ce.bound.2.1 < rv x) (hhi : vEnd = 0 → rv x < rv ce.bound.2.2)
    (hs1 : vEnd = 1 → rv (padHiF (kVHi c j')) ≤ rv x) (hs0 : vEnd = 0 → rv x ≤ rv (padLoF (kVLo c j'))) :
    BR (clipVBound ce vEnd x) c i j' := by
  have hB' : BR ce c i j' := BR_shrink_v hi hj' hB
  obtain ⟨hw, hin⟩ := hB'
  by_cases hchk : (if vEnd == 0 then F64.ge ce.bound.2.1 x else F64.le ce.bound.2.2 x) = true
  · have : clipVBound ce vEnd x = ce := by unfold clipVBound; rw [if_pos hchk]
    rw [this]; exact ⟨hw, hin⟩
  · have hlo' : rv ce.bound.2.1 < rv x := by
      rcases hE with rfl | rfl
      · simp only [beq_self_eq_true, if_true] at hchk
        by_contra hcon
        exact hchk ((ge_iff_rv hw.wv.1 hx).2 (not_lt.mp hcon))
      · exact hlo rfl
    have hhi' : rv x < rv ce.bound.2.2 := by
      rcases hE with rfl | rfl
      · exact hhi rfl
      · have : ((1 : Nat) == 0) = false := by decide
        simp only [this, Bool.false_eq_true, if_false] at hchk
        by_contra hcon
        exact hchk ((le_iff_rv hw.wv.2.1 hx).2 (not_lt.mp hcon))
    obtain ⟨hw', hs⟩ := clipVBound_sound ce hw vEnd hE x hx hx49 hlo' hhi'
    refine ⟨hw', fun nl t h0 h1 hr => ?_⟩
    rw [clipVBound_fe] at hr ⊢
    exact hs t h0 h1 (fun h => le_trans hr.2.2.2 (hs1 h)) (fun h => le_trans (hs0 h) hr.2.2.1) (hin nl t h0 h1 hr)

/-- from a false comparison to a strict inequality of values -/
theorem lt_of_ge_false {a b : F64} (ha : Fin a) (hb : Fin b) (h : F64.ge a b = false) : rv a < rv b := by
  by_contra hcon
  rw [(ge_iff_rv ha hb).2 (not_lt.mp hcon)] at h; cases h

theorem lt_of_le_false {a b : F64} (ha : Fin a) (hb : Fin b) (h : F64.le a b = false) : rv b < rv a := by
  by_contra hcon
  rw [(le_iff_rv ha hb).2 (not_lt.mp hcon)] at h; cases h

/-! ### the `keep` comparisons: here the padding pays -/

/-- the arithmetic of `keep`: a bound end at or beyond the float padded line cannot be within `epsClip` of a point that
    is within `meetPad` of the unpadded line (upper side) -/
theorem keep_hi_arith {k : Nat} (hk : k ≤ 2 ^ 30) {b w : ℝ} (h1 : rv (padHiF k) ≤ b) (h2 : b - epsClip ≤ w)
    (h3 : w ≤ UG k + meetPad) : False := by
  obtain ⟨_, _, _, p2⟩ := padF_spec k hk
  have hb := budget
  have hms : meetPad = padR - clipSlack := rfl
  rw [abs_le] at p2
  linarith [p2.1]

theorem keep_lo_arith {k : Nat} (hk : k ≤ 2 ^ 30) {b w : ℝ} (h1 : b ≤ rv (padLoF k)) (h2 : w ≤ b + epsClip)
    (h3 : UG k - meetPad ≤ w) : False := by
  obtain ⟨_, _, p1, _⟩ := padF_spec k hk
  have hb := budget
  have hms : meetPad = padR - clipSlack := rfl
  rw [abs_le] at p1
  linarith [p1.2]

/-! ### the four clip calls of `edgeChildren` / `clipVAxis` -/

theorem ku_le {c : CellID} {k : Nat} (hc : IsCell c k) (hk : k < 30) :
    (fromCellID c).iLo + 2 ^ (29 - k) ≤ 2 ^ 30 ∧ (fromCellID c).jLo + 2 ^ (29 - k) ≤ 2 ^ 30 := by
  obtain ⟨_, bi, bj⟩ := axes hc hk
  omega

theorem clipU_hi_real (c : CellID) (k : Nat) (pre : Bool) (ce : ClippedEdge) (hc : IsCell c k) (hk : k < 30)
    (hpre : pre = true → k = 0) (hB : BR ce c none none)
    (_g1 : F64.le ce.bound.1.2 (middle (fromCellID c) cellPadding pre).1.1 = false)
    (g2 : F64.ge ce.bound.1.1 (middle (fromCellID c) cellPadding pre).1.2 = false) :
    BR (clipUBound ce 1 (middle (fromCellID c) cellPadding pre).1.2) c (some 0) none := by
  obtain ⟨⟨f11, f12, f21, f22⟩, e11, e12, e21, e22⟩ := middle_spec pre hc hk hpre
  have fu := kU_facts hc hk (some 0) (regIdx_some (by omega))
  exact clipU_gen ce (some 0) (regIdx_some (by omega)) 1 (Or.inr rfl) _ f12
    (by rw [e12]; exact (padF_abs_ge _ (ku_le hc hk).1).2) hB
    (fun _ => lt_of_ge_false hB.1.wu.1 f12 g2) (fun h => by cases h)
    (fun _ => by rw [fu.2.2.2.1, e12]) (fun h => by cases h)

theorem clipU_lo_real (c : CellID) (k : Nat) (pre : Bool) (ce : ClippedEdge) (hc : IsCell c k) (hk : k < 30)
    (hpre : pre = true → k = 0) (hB : BR ce c none none)
    (g1 : F64.le ce.bound.1.2 (middle (fromCellID c) cellPadding pre).1.1 = false)
    (_g2 : F64.ge ce.bound.1.1 (middle (fromCellID c) cellPadding pre).1.2 = false) :
    BR (clipUBound ce 0 (middle (fromCellID c) cellPadding pre).1.1) c (some 1) none := by
  obtain ⟨⟨f11, f12, f21, f22⟩, e11, e12, e21, e22⟩ := middle_spec pre hc hk hpre
  have fu := kU_facts hc hk (some 1) (regIdx_some (by omega))
  exact clipU_gen ce (some 1) (regIdx_some (by omega)) 0 (Or.inl rfl) _ f11
    (by rw [e11]; exact (padF_abs_ge _ (ku_le hc hk).1).1) hB
    (fun h => by cases h) (fun _ => lt_of_le_false hB.1.wu.2.1 f11 g1)
    (fun h => by cases h) (fun _ => by rw [fu.2.2.2.2.1, e11])

theorem clipV_hi_real (c : CellID) (k : Nat) (pre : Bool) (ce : ClippedEdge) (i : Option Nat) (hc : IsCell c k)
    (hk : k < 30) (hpre : pre = true → k = 0) (hi : RegIdx i) (hB : BR ce c i none)
    (_g1 : F64.le ce.bound.2.2 (middle (fromCellID c) cellPadding pre).2.1 = false)
    (g2 : F64.ge ce.bound.2.1 (middle (fromCellID c) cellPadding pre).2.2 = false) :
    BR (clipVBound ce 1 (middle (fromCellID c) cellPadding pre).2.2) c i (some 0) := by
  obtain ⟨⟨f11, f12, f21, f22⟩, e11, e12, e21, e22⟩ := middle_spec pre hc hk hpre
  have fv := kV_facts hc hk (some 0) (regIdx_some (by omega))
  exact clipV_gen ce i hi (some 0) (regIdx_some (by omega)) 1 (Or.inr rfl) _ f22
    (by rw [e22]; exact (padF_abs_ge _ (ku_le hc hk).2).2) hB
    (fun _ => lt_of_ge_false hB.1.wv.1 f22 g2) (fun h => by cases h)
    (fun _ => by rw [fv.2.2.2.1, e22]) (fun h => by cases h)

theorem clipV_lo_real (c : CellID) (k : Nat) (pre : Bool) (ce : ClippedEdge) (i : Option Nat) (hc : IsCell c k)
    (hk : k < 30) (hpre : pre = true → k = 0) (hi : RegIdx i) (hB : BR ce c i none)
    (g1 : F64.le ce.bound.2.2 (middle (fromCellID c) cellPadding pre).2.1 = false)
    (_g2 : F64.ge ce.bound.2.1 (middle (fromCellID c) cellPadding pre).2.2 = false) :
    BR (clipVBound ce 0 (middle (fromCellID c) cellPadding pre).2.1) c i (some 1) := by
  obtain ⟨⟨f11, f12, f21, f22⟩, e11, e12, e21, e22⟩ := middle_spec pre hc hk hpre
  have fv := kV_facts hc hk (some 1) (regIdx_some (by omega))
  exact clipV_gen ce i hi (some 1) (regIdx_some (by omega)) 0 (Or.inl rfl) _ f21
    (by rw [e21]; exact (padF_abs_ge _ (ku_le hc hk).2).1) hB
    (fun h => by cases h) (fun _ => lt_of_le_false hB.1.wv.2.1 f21 g1)
    (fun h => by cases h) (fun _ => by rw [fv.2.2.2.2.1, e21])

/-! ### the four comparisons -/

theorem keepU_lo_real (c : CellID) (k : Nat) (pre : Bool) (ce : ClippedEdge) (hc : IsCell c k) (hk : k < 30)
    (hpre : pre = true → k = 0) (hB : BR ce c none none) (hM : MR ce.fe c (some 0) none) :
    F64.ge ce.bound.1.1 (middle (fromCellID c) cellPadding pre).1.2 = false := by
  obtain ⟨⟨f11, f12, f21, f22⟩, e11, e12, e21, e22⟩ := middle_spec pre hc hk hpre
  have r0 : RegIdx (some 0) := regIdx_some (by omega)
  have fu := kU_facts hc hk (some 0) r0
  cases hg : F64.ge ce.bound.1.1 (middle (fromCellID c) cellPadding pre).1.2 with
  | false => rfl
  | true =>
    exfalso
    have h1 := (ge_iff_rv hB.1.wu.1 f12).1 hg
    obtain ⟨nl, t, h0, h1', hr⟩ := hM
    have hW := (BR_shrink_u r0 regIdx_none hB).2 nl t h0 h1' (inRegF_of_inRegM hc hk r0 regIdx_none hr)
    have h3 := hr.2.1
    rw [fu.2.2.2.1] at h3
    rw [e12] at h1
    exact keep_hi_arith (ku_le hc hk).1 h1 hW.1.1 h3

theorem keepU_hi_real (c : CellID) (k : Nat) (pre : Bool) (ce : ClippedEdge) (hc : IsCell c k) (hk : k < 30)
    (hpre : pre = true → k = 0) (hB : BR ce c none none) (hM : MR ce.fe c (some 1) none) :
    F64.le ce.bound.1.2 (middle (fromCellID c) cellPadding pre).1.1 = false := by
  obtain ⟨⟨f11, f12, f21, f22⟩, e11, e12, e21, e22⟩ := middle_spec pre hc hk hpre
  have r1 : RegIdx (some 1) := regIdx_some (by omega)
  have fu := kU_facts hc hk (some 1) r1
  cases hg : F64.le ce.bound.1.2 (middle (fromCellID c) cellPadding pre).1.1 with
  | false => rfl
  | true =>
    exfalso
    have h1 := (le_iff_rv hB.1.wu.2.1 f11).1 hg
    obtain ⟨nl, t, h0, h1', hr⟩ := hM
    have hW := (BR_shrink_u r1 regIdx_none hB).2 nl t h0 h1' (inRegF_of_inRegM hc hk r1 regIdx_none hr)
    have h3 := hr.1
    rw [fu.2.2.2.2.1] at h3
    rw [e11] at h1
    exact keep_lo_arith (ku_le hc hk).1 h1 hW.1.2 h3

theorem keepV_lo_real (c : CellID) (k : Nat) (pre : Bool) (ce : ClippedEdge) (i : Option Nat) (hc : IsCell c k)
    (hk : k < 30) (hpre : pre = true → k = 0) (hi : RegIdx i) (hB : BR ce c i none) (hM : MR ce.fe c i (some 0)) :
    F64.ge ce.bound.2.1 (middle (fromCellID c) cellPadding pre).2.2 = false := by
  obtain ⟨⟨f11, f12, f21, f22⟩, e11, e12, e21, e22⟩ := middle_spec pre hc hk hpre
  have r0 : RegIdx (some 0) := regIdx_some (by omega)
  have fv := kV_facts hc hk (some 0) r0
  cases hg : F64.ge ce.bound.2.1 (middle (fromCellID c) cellPadding pre).2.2 with
  | false => rfl
  | true =>
    exfalso
    have h1 := (ge_iff_rv hB.1.wv.1 f22).1 hg
    obtain ⟨nl, t, h0, h1', hr⟩ := hM
    have hW := (BR_shrink_v hi r0 hB).2 nl t h0 h1' (inRegF_of_inRegM hc hk hi r0 hr)
    have h3 := hr.2.2.2
    rw [fv.2.2.2.1] at h3
    rw [e22] at h1
    exact keep_hi_arith (ku_le hc hk).2 h1 hW.2.1 h3

theorem keepV_hi_real (c : CellID) (k : Nat) (pre : Bool) (ce : ClippedEdge) (i : Option Nat) (hc : IsCell c k)
    (hk : k < 30) (hpre : pre = true → k = 0) (hi : RegIdx i) (hB : BR ce c i none) (hM : MR ce.fe c i (some 1)) :
    F64.le ce.bound.2.2 (middle (fromCellID c) cellPadding pre).2.1 = false := by
  obtain ⟨⟨f11, f12, f21, f22⟩, e11, e12, e21, e22⟩ := middle_spec pre hc hk hpre
  have r1 : RegIdx (some 1) := regIdx_some (by omega)
  have fv := kV_facts hc hk (some 1) r1
  cases hg : F64.le ce.bound.2.2 (middle (fromCellID c) cellPadding pre).2.1 with
  | false => rfl
  | true =>
    exfalso
    have h1 := (le_iff_rv hB.1.wv.2.1 f21).1 hg
    obtain ⟨nl, t, h0, h1', hr⟩ := hM
    have hW := (BR_shrink_v hi r1 hB).2 nl t h0 h1' (inRegF_of_inRegM hc hk hi r1 hr)
    have h3 := hr.2.2.1
    rw [fv.2.2.2.2.1] at h3
    rw [e21] at h1
    exact keep_lo_arith (ku_le hc hk).2 h1 hW.2.2 h3

/-- **all per-call clipping facts hold for the real geometry** -/
theorem clipSoundNG_real : ClipSoundNG MeetsReal BoundOKR MR BR where
  meets_child := meets_child_real
  B_whole := fun _ _ _ _ h => h
  B_child := B_child_real
  M_child := M_child_real
  M_mono_u := M_mono_u_real
  M_mono_v := M_mono_v_real
  B_mono_u := fun _ _ i hi h => BR_shrink_u (regIdx_some hi) regIdx_none h
  B_mono_v := fun _ _ _ j hi hj h => BR_shrink_v hi (regIdx_some hj) h
  clipU_hi := clipU_hi_real
  clipU_lo := clipU_lo_real
  clipV_hi := clipV_hi_real
  clipV_lo := clipV_lo_real
  keepU_lo := keepU_lo_real
  keepU_hi := keepU_hi_real
  keepV_lo := keepV_lo_real
  keepV_hi := keepV_hi_real

end S2Proofs.C06Clip
