/-
  S2Proofs.C06Clip.Defs — REAL geometry in (u,v) face coordinates for index invariant I1 of the built ShapeIndex.

  * `rv x`            exact real value of a finite float (`S2Proofs.FloatErr.val`)
  * `UG k`            real value of the float cell boundary `stToUV (k / 2^30)` — the value `Cell.BoundUV`, `PaddedCell.Middle`
                      and `ShrinkToFit` compute for grid index `k` (`siTiToST (2k) = ijToSTMin k` bit for bit, `C12ST.siTiToST_double`)
  * `cellULo … cellVHi` the uv-rectangle of a cell id (through the integer fields of `PaddedCellFromCellID`)
  * `segU / segV`     the exact segment between the float uv endpoints of a face edge
  * `MeetsCell`       the exact segment meets the (unpadded) uv-rectangle of the cell
  * `MeetsReal`       the exact segment meets the uv-rectangle expanded by `meetPad = cellPadding − clipSlack`,
                      `clipSlack = 4·dblEpsilon` (≥ the documented `edgeClipErrorUVCoord = 2.25·dblEpsilon` plus the roundings of
                      `mid ± padding`); `MeetsCell → MeetsReal` (`meetsReal_of_meetsCell`)
  * `FaceEdgeOK`      the uv endpoints of a face edge are finite and lie in `[-(1+2^-40), 1+2^-40]²` (decidable)
-/
import S2.IndexBuild
import S2Proofs.FloatErr.StdModel
import S2Proofs.C12Dist.CellOK
import S2Proofs.C06.PaddedCell
import S2Proofs.C06.BuildClip

namespace S2Proofs.C06Clip
open S2 S2.CellID S2.Hilbert S2.PaddedCellM S2.IndexBuild S2Proofs.F64Order S2Proofs.C06BuildH

/-- exact real value of a finite float -/
noncomputable abbrev rv (x : F64) : ℝ := S2Proofs.FloatErr.val x

/-- real value of the float cell boundary with grid index `k` (`0 ≤ k ≤ 2^30`) -/
noncomputable def UG (k : Nat) : ℝ := rv (STUV.stToUV (S2Proofs.C12M.g k))

/-- `dblEpsilon = 2^-52` -/
noncomputable def dblEps : ℝ := 1 / 2 ^ 52

/-- the part of the padding that pays for the clipping error: `4·dblEpsilon` -/
noncomputable def clipSlack : ℝ := 4 * dblEps

/-- real value of the float constant `cellPadding` (≈ 17.2·dblEpsilon) -/
noncomputable def padR : ℝ := rv cellPadding

/-- the padding `MeetsReal` uses: `cellPadding − clipSlack` (> 13·dblEpsilon) -/
noncomputable def meetPad : ℝ := padR - clipSlack

/-- lower / upper u and v boundary of the cell `c` (real values of the floats the implementation uses) -/
noncomputable def cellULo (c : CellID) : ℝ := UG (fromCellID c).iLo
noncomputable def cellUHi (c : CellID) : ℝ := UG ((fromCellID c).iLo + sizeIJ (fromCellID c).level)
noncomputable def cellVLo (c : CellID) : ℝ := UG (fromCellID c).jLo
noncomputable def cellVHi (c : CellID) : ℝ := UG ((fromCellID c).jLo + sizeIJ (fromCellID c).level)

/-- the point at parameter `t` of the exact segment between the float uv endpoints of a face edge -/
noncomputable def segU (fe : FaceEdge) (t : ℝ) : ℝ := rv fe.a.1 + t * (rv fe.b.1 - rv fe.a.1)
noncomputable def segV (fe : FaceEdge) (t : ℝ) : ℝ := rv fe.a.2 + t * (rv fe.b.2 - rv fe.a.2)

/-- the exact segment of `fe` meets the uv-rectangle of cell `c` expanded by `p` on all sides -/
def MeetsPad (p : ℝ) (fe : FaceEdge) (c : CellID) : Prop :=
  ∃ t : ℝ, 0 ≤ t ∧ t ≤ 1 ∧
    cellULo c - p ≤ segU fe t ∧ segU fe t ≤ cellUHi c + p ∧
    cellVLo c - p ≤ segV fe t ∧ segV fe t ≤ cellVHi c + p

/-- the exact segment meets the (unpadded) cell -/
def MeetsCell (fe : FaceEdge) (c : CellID) : Prop := MeetsPad 0 fe c

/-- `Meets` of I1: the exact segment meets the cell expanded by `cellPadding − clipSlack` -/
def MeetsReal (fe : FaceEdge) (c : CellID) : Prop := MeetsPad meetPad fe c

/-- the uv endpoints of a face edge are finite and within `1 + 2^-40` of the origin in both coordinates
    (what `ClipToPaddedFace(…, cellPadding)` / the `maxUV` fast path produce); decidable -/
def CoordOK (x : F64) : Prop := Fin x ∧ |rv x| ≤ 1 + 1 / 2 ^ 40
def FaceEdgeOK (fe : FaceEdge) : Prop :=
  CoordOK fe.a.1 ∧ CoordOK fe.a.2 ∧ CoordOK fe.b.1 ∧ CoordOK fe.b.2

/-! ### the constant `cellPadding` -/

theorem cellPadding_bits : cellPadding = ⟨0x3cf13a5919a791a3⟩ := by
  have h : cellPadding.bits = (0x3cf13a5919a791a3 : UInt64) := by decide +kernel
  cases hc : cellPadding with
  | mk b => rw [hc] at h; simp only at h; rw [h]

theorem cellPadding_fin : Fin cellPadding := by rw [cellPadding_bits]; decide

/-- `cellPadding = 0x113a5919a791a3 · 2^-100` -/
theorem padR_eq : padR = 4849228960993699 / 2 ^ 100 := by
  unfold padR rv S2Proofs.FloatErr.val
  rw [cellPadding_bits]
  have : S2.Exact.toInt (⟨0x3cf13a5919a791a3⟩ : F64) = 4849228960993699 * 2 ^ 974 := by decide +kernel
  rw [this]
  push_cast
  rw [show (2 : ℝ) ^ 1074 = 2 ^ 974 * 2 ^ 100 by rw [← pow_add]]
  field_simp

theorem padR_lo : 17 * dblEps ≤ padR := by
  rw [padR_eq]; unfold dblEps; norm_num

theorem padR_hi : padR ≤ 18 * dblEps := by
  rw [padR_eq]; unfold dblEps; norm_num

theorem meetPad_nonneg : 0 ≤ meetPad := by
  have := padR_lo
  unfold meetPad clipSlack
  have : (0 : ℝ) ≤ dblEps := by unfold dblEps; positivity
  linarith

theorem MeetsPad.mono {p q : ℝ} (hpq : p ≤ q) {fe : FaceEdge} {c : CellID} (h : MeetsPad p fe c) :
    MeetsPad q fe c := by
  obtain ⟨t, h0, h1, a, b, c', d⟩ := h
  exact ⟨t, h0, h1, by linarith, by linarith, by linarith, by linarith⟩

/-- what the queries need: an exact segment that meets the unpadded cell `Meets` it -/
theorem meetsReal_of_meetsCell {fe : FaceEdge} {c : CellID} (h : MeetsCell fe c) : MeetsReal fe c :=
  MeetsPad.mono meetPad_nonneg h

/-! ### middle lines and the float padded boundaries -/

/-- the u / v coordinate of the centre lines of a non-leaf cell (grid index `iLo + size/2`) -/
noncomputable def cellUMid (c : CellID) : ℝ := UG ((fromCellID c).iLo + sizeIJ (fromCellID c).level / 2)
noncomputable def cellVMid (c : CellID) : ℝ := UG ((fromCellID c).jLo + sizeIJ (fromCellID c).level / 2)

/-- the FLOAT padded boundaries `stToUV(k/2^30) ∓ cellPadding` as the implementation computes them
    (`PaddedCell.Middle()`, `PaddedCell.bound`) -/
def padLoF (k : Nat) : F64 := F64.sub (STUV.stToUV (S2Proofs.C12M.g k)) cellPadding
def padHiF (k : Nat) : F64 := F64.add (STUV.stToUV (S2Proofs.C12M.g k)) cellPadding

/-- bound on the rounding error of `stToUV(k/2^30) ± cellPadding` -/
noncomputable def rho : ℝ := 1 / 2 ^ 53 + 1 / 2 ^ 90

/-! ### the contract of `ShrinkToFit`, restricted to the face -/

/-- no edge of face `f` meets a valid cell OF FACE `f` that is disjoint from the root cell chosen by `shrinkToFit`
    (`S2Proofs.C06BuildH.ShrinkSound` quantifies over cells of all faces, which a purely geometric `Meets` in the
    uv-coordinates of ONE face cannot satisfy; the build only ever asks about cells of the face `f`) -/
def ShrinkSoundF (Meets : FaceEdge → CellID → Prop) (f : Nat) (fes : List FaceEdge) : Prop :=
  ∀ fe ∈ fes, ∀ x : CellID, isValid x = true → lo (fromFace f) ≤ lo x → hi x ≤ hi (fromFace f) → Meets fe x →
    ¬ (hi x < lo (rootCell f fes) ∨ hi (rootCell f fes) < lo x)

/-- float round trip uv → st → ij, lower side: a float `w` more than `2·dblEpsilon` above the cell boundary with grid
    index `k` has `stToIJ (uvToST w) ≥ k` -/
def RoundTripGe : Prop :=
  ∀ (w : F64), Fin w → |rv w| ≤ 2 → ∀ k : Nat, k ≤ 2 ^ 30 - 1 → UG k + 2 * dblEps < rv w →
    (k : Int) ≤ STUV.stToIJ (STUV.uvToST w)

/-- upper side: a float `w` more than `2·dblEpsilon` below the boundary with grid index `k` has `stToIJ (uvToST w) < k` -/
def RoundTripLt : Prop :=
  ∀ (w : F64), Fin w → |rv w| ≤ 2 → ∀ k : Nat, 0 < k → k ≤ 2 ^ 30 → rv w < UG k - 2 * dblEps →
    STUV.stToIJ (STUV.uvToST w) < (k : Int)

/-! ### the per-call clipping facts, GUARDED

  `S2Proofs.C06BuildH.ClipSoundN` quantifies its per-call fields over ALL `pre : Bool`; but `middle p padding true` is the
  preset rectangle `[-padding, padding]²` of the FACE cells, which is the centre cross of `p` only when `p` is a face
  cell.  The build passes `pre = true` only for face cells (`isFace`), so the fields carry the guard `pre = true → k = 0`.
  `meets_mono` is only needed (and stated) for parent / child. -/
structure ClipSoundNG (Meets : FaceEdge → CellID → Prop) (BoundOK : ClippedEdge → CellID → Prop)
    (M : FaceEdge → CellID → Option Nat → Option Nat → Prop)
    (B : ClippedEdge → CellID → Option Nat → Option Nat → Prop) : Prop where
  meets_child : ∀ (fe : FaceEdge) (c : CellID) (k pos : Nat), IsCell c k → k < 30 → pos < 4 →
    Meets fe (child c pos) → Meets fe c
  B_whole : ∀ (c : CellID) (k : Nat) (ce : ClippedEdge), IsCell c k → BoundOK ce c → B ce c none none
  B_child : ∀ (c : CellID) (k : Nat) (ce : ClippedEdge) (pos : Nat), IsCell c k → k < 30 → pos < 4 →
    B ce c (some (childIJ (fromCellID c) pos).1) (some (childIJ (fromCellID c) pos).2) → BoundOK ce (child c pos)
  M_child : ∀ (c : CellID) (k : Nat) (fe : FaceEdge) (pos : Nat), IsCell c k → k < 30 → pos < 4 →
    Meets fe (child c pos) →
    M fe c (some (childIJ (fromCellID c) pos).1) (some (childIJ (fromCellID c) pos).2)
  M_mono_u : ∀ (fe : FaceEdge) (c : CellID) (i : Nat) (j : Option Nat), i < 2 → RegIdx j →
    M fe c (some i) j → M fe c none j
  M_mono_v : ∀ (fe : FaceEdge) (c : CellID) (i : Option Nat) (j : Nat), RegIdx i → j < 2 →
    M fe c i (some j) → M fe c i none
  B_mono_u : ∀ (ce : ClippedEdge) (c : CellID) (i : Nat), i < 2 → B ce c none none → B ce c (some i) none
  B_mono_v : ∀ (ce : ClippedEdge) (c : CellID) (i : Option Nat) (j : Nat), RegIdx i → j < 2 →
    B ce c i none → B ce c i (some j)
  clipU_hi : ∀ (c : CellID) (k : Nat) (pre : Bool) (ce : ClippedEdge), IsCell c k → k < 30 → (pre = true → k = 0) →
    B ce c none none →
    F64.le ce.bound.1.2 (middle (fromCellID c) cellPadding pre).1.1 = false →
    F64.ge ce.bound.1.1 (middle (fromCellID c) cellPadding pre).1.2 = false →
    B (clipUBound ce 1 (middle (fromCellID c) cellPadding pre).1.2) c (some 0) none
  clipU_lo : ∀ (c : CellID) (k : Nat) (pre : Bool) (ce : ClippedEdge), IsCell c k → k < 30 → (pre = true → k = 0) →
    B ce c none none →
    F64.le ce.bound.1.2 (middle (fromCellID c) cellPadding pre).1.1 = false →
    F64.ge ce.bound.1.1 (middle (fromCellID c) cellPadding pre).1.2 = false →
    B (clipUBound ce 0 (middle (fromCellID c) cellPadding pre).1.1) c (some 1) none
  clipV_hi : ∀ (c : CellID) (k : Nat) (pre : Bool) (ce : ClippedEdge) (i : Option Nat), IsCell c k → k < 30 →
    (pre = true → k = 0) → RegIdx i → B ce c i none →
    F64.le ce.bound.2.2 (middle (fromCellID c) cellPadding pre).2.1 = false →
    F64.ge ce.bound.2.1 (middle (fromCellID c) cellPadding pre).2.2 = false →
    B (clipVBound ce 1 (middle (fromCellID c) cellPadding pre).2.2) c i (some 0)
  clipV_lo : ∀ (c : CellID) (k : Nat) (pre : Bool) (ce : ClippedEdge) (i : Option Nat), IsCell c k → k < 30 →
    (pre = true → k = 0) → RegIdx i → B ce c i none →
    F64.le ce.bound.2.2 (middle (fromCellID c) cellPadding pre).2.1 = false →
    F64.ge ce.bound.2.1 (middle (fromCellID c) cellPadding pre).2.2 = false →
    B (clipVBound ce 0 (middle (fromCellID c) cellPadding pre).2.1) c i (some 1)
  keepU_lo : ∀ (c : CellID) (k : Nat) (pre : Bool) (ce : ClippedEdge), IsCell c k → k < 30 → (pre = true → k = 0) →
    B ce c none none → M ce.fe c (some 0) none →
    F64.ge ce.bound.1.1 (middle (fromCellID c) cellPadding pre).1.2 = false
  keepU_hi : ∀ (c : CellID) (k : Nat) (pre : Bool) (ce : ClippedEdge), IsCell c k → k < 30 → (pre = true → k = 0) →
    B ce c none none → M ce.fe c (some 1) none →
    F64.le ce.bound.1.2 (middle (fromCellID c) cellPadding pre).1.1 = false
  keepV_lo : ∀ (c : CellID) (k : Nat) (pre : Bool) (ce : ClippedEdge) (i : Option Nat), IsCell c k → k < 30 →
    (pre = true → k = 0) → RegIdx i → B ce c i none → M ce.fe c i (some 0) →
    F64.ge ce.bound.2.1 (middle (fromCellID c) cellPadding pre).2.2 = false
  keepV_hi : ∀ (c : CellID) (k : Nat) (pre : Bool) (ce : ClippedEdge) (i : Option Nat), IsCell c k → k < 30 →
    (pre = true → k = 0) → RegIdx i → B ce c i none → M ce.fe c i (some 1) →
    F64.le ce.bound.2.2 (middle (fromCellID c) cellPadding pre).2.1 = false

/-! ### the integer part of `ShrinkToFit` -/

/-- `ShrinkToFit` after the four conversions `xlo = stToIJ (uvToST padded.X.Lo)` … : the xor / most-significant-bit
    computation of the level and the resulting ancestor of the leaf `(iMin, jMin)` -/
def shrinkIJ (p : PaddedCell) (xlo xhi ylo yhi : Nat) : CellID :=
  let ijSize := sizeIJ p.level
  let iMin := if p.iLo < xlo then xlo else p.iLo
  let iXor := if p.iLo + ijSize - 1 ≤ xhi then iMin ^^^ (p.iLo + ijSize - 1) else iMin ^^^ xhi
  let jMin := if p.jLo < ylo then ylo else p.jLo
  let jXor := if p.jLo + ijSize - 1 ≤ yhi then jMin ^^^ (p.jLo + ijSize - 1) else jMin ^^^ yhi
  let levelMSB : UInt64 := UInt64.ofNat (((iXor ||| jXor) <<< 1) + 1)
  let lvl := maxLevel - msbPos levelMSB
  if lvl ≤ p.level then p.id else
  parent (cellIDFromFaceIJ (face p.id) iMin jMin) lvl

/-- `shrinkToFit` is its early returns followed by `shrinkIJ` -/
theorem shrinkToFit_eq (p : PaddedCell) (padding : F64) (rect : CellM.Rect2) :
    shrinkToFit p padding rect =
      if p.level == 0 && (CellM.Ivl.contains rect.1 CellM.fzero || CellM.Ivl.contains rect.2 CellM.fzero) then p.id else
      if CellM.Ivl.contains rect.1 (STUV.stToUV (STUV.siTiToST (centerSiTi p).1)) ||
         CellM.Ivl.contains rect.2 (STUV.stToUV (STUV.siTiToST (centerSiTi p).2)) then p.id else
      shrinkIJ p
        (STUV.stToIJ (STUV.uvToST (CellM.Rect2.expandedByMargin rect (padding + (⟨0x3CB8000000000000⟩ : F64))).1.1)).toNat
        (STUV.stToIJ (STUV.uvToST (CellM.Rect2.expandedByMargin rect (padding + (⟨0x3CB8000000000000⟩ : F64))).1.2)).toNat
        (STUV.stToIJ (STUV.uvToST (CellM.Rect2.expandedByMargin rect (padding + (⟨0x3CB8000000000000⟩ : F64))).2.1)).toNat
        (STUV.stToIJ (STUV.uvToST (CellM.Rect2.expandedByMargin rect (padding + (⟨0x3CB8000000000000⟩ : F64))).2.2)).toNat := by
  rfl

/-- the cell `shrinkIJ` returns for the face cell covers the ij-rectangle `[xlo,xhi] × [ylo,yhi]`: a cell of the face
    whose ij-square meets that rectangle is not disjoint (in Hilbert ranges) from it -/
def ShrinkIJCovers : Prop :=
  ∀ (f : Nat), f < 6 → ∀ (xlo xhi ylo yhi : Nat), xlo < 2 ^ 30 → xhi < 2 ^ 30 → ylo < 2 ^ 30 → yhi < 2 ^ 30 →
  ∀ (x : CellID) (k : Nat), IsCell x k → lo (fromFace f) ≤ lo x → hi x ≤ hi (fromFace f) →
    (fromCellID x).iLo ≤ xhi → xlo < (fromCellID x).iLo + 2 ^ (30 - k) →
    (fromCellID x).jLo ≤ yhi → ylo < (fromCellID x).jLo + 2 ^ (30 - k) →
    ¬ (hi x < lo (shrinkIJ (fromCellID (fromFace f)) xlo xhi ylo yhi) ∨
       hi (shrinkIJ (fromCellID (fromFace f)) xlo xhi ylo yhi) < lo x)

end S2Proofs.C06Clip
