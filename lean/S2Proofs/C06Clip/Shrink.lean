/-
  S2Proofs.C06Clip.Shrink — the contract of `ShrinkToFit` as the ShapeIndex builder uses it, for REAL geometry.

  `shrinkSoundF_real` : `ShrinkSoundF MeetsReal f fes` from
    * `RoundTripGe`, `RoundTripLt`  (float round trip uv → st → ij against a grid index, margin `2·dblEpsilon`)
    * `ShrinkIJCovers`              (the integer part of `ShrinkToFit` covers the ij-rectangle it is given)
  for face edges whose uv endpoints are finite and within `1 + 2^-40` of the origin (`FaceEdgeOK`).

  Steps
    * `faceBound_spec`   the bound of a non-empty list of good face edges is a non-empty finite rectangle with ends in
                         `[-(1+2^-40), 1+2^-40]` that contains every endpoint (real values)
    * `seg_in_bound`     hence every point of every exact segment
    * `marginF_rv`       the margin `cellPadding + 1.5·dblEpsilon` is computed exactly
    * `expanded_spec`    one side of the padded rectangle: finite, non-empty, `|·| ≤ 2`, each end within
                         `shrinkTau = 2^-53 + 2^-91` of `B ∓ margin`; `expandedByMargin_good` for the rectangle
    * `idx_spec`         the two grid indices of one coordinate enclose the grid cell, through `RoundTripGe/Lt`
-/
import S2Proofs.C06Clip.Defs
import S2Proofs.C06.BuildI1
import S2Proofs.C06.BuildTop
import S2Proofs.Properties.C06_PaddedCell
import S2Proofs.C12.STExact
import S2Proofs.C12Dist.EdgeErr
import S2Proofs.F64Carrier
import S2Proofs.F64Round
import Mathlib.Tactic.Linarith
import Mathlib.Tactic.NormNum
import Mathlib.Tactic.Positivity
import Mathlib.Tactic.Ring

namespace S2Proofs.C06Clip
open S2 S2.CellID S2.Hilbert S2.PaddedCellM S2.IndexBuild S2.CellM S2Proofs.F64Order S2Proofs.C06BuildH

/-! ### comparisons of finite floats are comparisons of their real values -/

private theorem rv_le_iff_toIntS (x y : F64) : rv x ≤ rv y ↔ S2.Exact.toInt x ≤ S2.Exact.toInt y := by
  unfold rv S2Proofs.FloatErr.val
  rw [div_le_div_iff_of_pos_right (by positivity)]
  exact Int.cast_le

private theorem rv_lt_iff_toIntS (x y : F64) : rv x < rv y ↔ S2.Exact.toInt x < S2.Exact.toInt y := by
  unfold rv S2Proofs.FloatErr.val
  rw [div_lt_div_iff_of_pos_right (by positivity)]
  exact Int.cast_lt

theorem le_iff_rv' {x y : F64} (hx : Fin x) (hy : Fin y) : F64.le x y = true ↔ rv x ≤ rv y := by
  rw [le_iff hx hy, rv_le_iff_toIntS]

theorem lt_iff_rv' {x y : F64} (hx : Fin x) (hy : Fin y) : F64.lt x y = true ↔ rv x < rv y := by
  rw [lt_iff hx hy, rv_lt_iff_toIntS]

/-- `math.Min` of two finite floats is one of them and has the smaller real value -/
private theorem fmin_rv {x y : F64} (hx : Fin x) (hy : Fin y) :
    (F64.fmin x y = x ∨ F64.fmin x y = y) ∧ rv (F64.fmin x y) ≤ rv x ∧ rv (F64.fmin x y) ≤ rv y := by
  obtain ⟨h1, h2⟩ := S2Proofs.F64Carrier.fmin_spec (S2Proofs.F64Carrier.nn_of_fin hx) (S2Proofs.F64Carrier.nn_of_fin hy)
  have hf : Fin (F64.fmin x y) := by rcases h1 with h | h <;> rw [h] <;> assumption
  rw [S2Proofs.F64Carrier.key_fin hf, S2Proofs.F64Carrier.key_fin hx, S2Proofs.F64Carrier.key_fin hy] at h2
  refine ⟨h1, ?_, ?_⟩
  · rw [rv_le_iff_toIntS, h2]; exact min_le_left _ _
  · rw [rv_le_iff_toIntS, h2]; exact min_le_right _ _

private theorem fmax_rv {x y : F64} (hx : Fin x) (hy : Fin y) :
    (F64.fmax x y = x ∨ F64.fmax x y = y) ∧ rv x ≤ rv (F64.fmax x y) ∧ rv y ≤ rv (F64.fmax x y) := by
  obtain ⟨h1, h2⟩ := S2Proofs.F64Carrier.fmax_spec (S2Proofs.F64Carrier.nn_of_fin hx) (S2Proofs.F64Carrier.nn_of_fin hy)
  have hf : Fin (F64.fmax x y) := by rcases h1 with h | h <;> rw [h] <;> assumption
  rw [S2Proofs.F64Carrier.key_fin hf, S2Proofs.F64Carrier.key_fin hx, S2Proofs.F64Carrier.key_fin hy] at h2
  refine ⟨h1, ?_, ?_⟩
  · rw [rv_le_iff_toIntS, h2]; exact le_max_left _ _
  · rw [rv_le_iff_toIntS, h2]; exact le_max_right _ _

/-! ### good intervals -/

/-- a non-empty interval with good ends -/
def GoodI (i : Ivl) : Prop := CoordOK i.1 ∧ CoordOK i.2 ∧ rv i.1 ≤ rv i.2

/-- `r` extends `a` -/
def ExtI (r a : Ivl) : Prop := rv r.1 ≤ rv a.1 ∧ rv a.2 ≤ rv r.2

/-- the real value of `x` lies in `i` -/
def InI (i : Ivl) (x : F64) : Prop := rv i.1 ≤ rv x ∧ rv x ≤ rv i.2

theorem GoodI.isEmpty {i : Ivl} (h : GoodI i) : Ivl.isEmpty i = false := by
  unfold Ivl.isEmpty F64.gt
  cases hlt : F64.lt i.2 i.1
  · rfl
  · have := (lt_iff_rv' h.2.1.1 h.1.1).1 hlt
    exact absurd h.2.2 (not_le.2 this)

theorem ExtI.refl (a : Ivl) : ExtI a a := ⟨le_refl _, le_refl _⟩

theorem ExtI.trans {r s a : Ivl} (h1 : ExtI r s) (h2 : ExtI s a) : ExtI r a :=
  ⟨le_trans h1.1 h2.1, le_trans h2.2 h1.2⟩

theorem InI.of_ext {r a : Ivl} {x : F64} (h1 : ExtI r a) (h2 : InI a x) : InI r x :=
  ⟨le_trans h1.1 h2.1, le_trans h2.2 h1.2⟩

theorem emptyIvl_isEmpty : Ivl.isEmpty emptyIvl = true := by decide +kernel

theorem union_empty_left (o : Ivl) : Ivl.union emptyIvl o = o := by
  unfold Ivl.union; rw [emptyIvl_isEmpty]; rfl

theorem union_good {i o : Ivl} (hi : GoodI i) (ho : GoodI o) :
    GoodI (Ivl.union i o) ∧ ExtI (Ivl.union i o) i ∧ ExtI (Ivl.union i o) o := by
  unfold Ivl.union
  rw [hi.isEmpty, ho.isEmpty]
  simp only [Bool.false_eq_true, if_false]
  obtain ⟨hm1, hm2, hm3⟩ := fmin_rv hi.1.1 ho.1.1
  obtain ⟨hM1, hM2, hM3⟩ := fmax_rv hi.2.1.1 ho.2.1.1
  refine ⟨⟨?_, ?_, ?_⟩, ⟨hm2, hM2⟩, ⟨hm3, hM3⟩⟩
  · show CoordOK (F64.fmin i.1 o.1)
    rcases hm1 with h | h <;> rw [h]
    · exact hi.1
    · exact ho.1
  · show CoordOK (F64.fmax i.2 o.2)
    rcases hM1 with h | h <;> rw [h]
    · exact hi.2.1
    · exact ho.2.1
  · show rv (F64.fmin i.1 o.1) ≤ rv (F64.fmax i.2 o.2)
    exact le_trans hm2 (le_trans hi.2.2 hM2)

theorem addPoint_good {a b : F64} (ha : CoordOK a) (hb : CoordOK b) :
    GoodI (Ivl.addPoint (a, a) b) ∧ InI (Ivl.addPoint (a, a) b) a ∧ InI (Ivl.addPoint (a, a) b) b := by
  have he : Ivl.isEmpty (a, a) = false := GoodI.isEmpty (i := (a, a)) ⟨ha, ha, le_refl _⟩
  unfold Ivl.addPoint
  simp only [he, Bool.false_eq_true, if_false]
  by_cases h1 : F64.lt b a = true
  · simp only [h1, if_true]
    have := (lt_iff_rv' hb.1 ha.1).1 h1
    exact ⟨⟨hb, ha, this.le⟩, ⟨this.le, le_refl _⟩, ⟨le_refl _, this.le⟩⟩
  · have h1' : ¬ rv b < rv a := fun h => h1 ((lt_iff_rv' hb.1 ha.1).2 h)
    simp only [h1]
    by_cases h2 : F64.gt b a = true
    · simp only [h2, if_true]
      have := (lt_iff_rv' ha.1 hb.1).1 h2
      exact ⟨⟨ha, hb, this.le⟩, ⟨le_refl _, this.le⟩, ⟨this.le, le_refl _⟩⟩
    · have h2' : ¬ rv a < rv b := fun h => h2 ((lt_iff_rv' ha.1 hb.1).2 h)
      simp only [h2]
      have e : rv a = rv b := le_antisymm (not_lt.1 h1') (not_lt.1 h2')
      exact ⟨⟨ha, ha, le_refl _⟩, ⟨le_refl _, le_refl _⟩, ⟨e.le, e.ge⟩⟩

/-! ### good rectangles and the bound of a face -/

def GoodR (r : Rect2) : Prop := GoodI r.1 ∧ GoodI r.2
def ExtR (r a : Rect2) : Prop := ExtI r.1 a.1 ∧ ExtI r.2 a.2
/-- both endpoints of the edge lie in the rectangle (real values) -/
def InR (r : Rect2) (fe : FaceEdge) : Prop :=
  InI r.1 fe.a.1 ∧ InI r.1 fe.b.1 ∧ InI r.2 fe.a.2 ∧ InI r.2 fe.b.2

theorem InR.of_ext {r a : Rect2} {fe : FaceEdge} (h1 : ExtR r a) (h2 : InR a fe) : InR r fe :=
  ⟨h2.1.of_ext h1.1, h2.2.1.of_ext h1.1, h2.2.2.1.of_ext h1.2, h2.2.2.2.of_ext h1.2⟩

theorem rectFromPoints_good {fe : FaceEdge} (h : FaceEdgeOK fe) :
    GoodR (rectFromPoints fe.a fe.b) ∧ InR (rectFromPoints fe.a fe.b) fe := by
  obtain ⟨g1, a1, b1⟩ := addPoint_good h.1 h.2.2.1
  obtain ⟨g2, a2, b2⟩ := addPoint_good h.2.1 h.2.2.2
  exact ⟨⟨g1, g2⟩, a1, b1, a2, b2⟩

theorem addRect_good {r o : Rect2} (hr : GoodR r) (ho : GoodR o) :
    GoodR (Rect2.addRect r o) ∧ ExtR (Rect2.addRect r o) r ∧ ExtR (Rect2.addRect r o) o := by
  obtain ⟨g1, e1, f1⟩ := union_good hr.1 ho.1
  obtain ⟨g2, e2, f2⟩ := union_good hr.2 ho.2
  exact ⟨⟨g1, g2⟩, ⟨e1, e2⟩, ⟨f1, f2⟩⟩

theorem addRect_empty (o : Rect2) : Rect2.addRect emptyRect o = o := by
  unfold Rect2.addRect emptyRect
  simp only [union_empty_left]

theorem fold_good (fes : List FaceEdge) (hok : ∀ fe ∈ fes, FaceEdgeOK fe) (acc : Rect2) (hacc : GoodR acc) :
    GoodR ((fes.map fun fe => (⟨fe, rectFromPoints fe.a fe.b⟩ : ClippedEdge)).foldl
      (fun b c => Rect2.addRect b c.bound) acc) ∧
    ExtR ((fes.map fun fe => (⟨fe, rectFromPoints fe.a fe.b⟩ : ClippedEdge)).foldl
      (fun b c => Rect2.addRect b c.bound) acc) acc ∧
    ∀ fe ∈ fes, InR ((fes.map fun fe => (⟨fe, rectFromPoints fe.a fe.b⟩ : ClippedEdge)).foldl
      (fun b c => Rect2.addRect b c.bound) acc) fe := by
  induction fes generalizing acc with
  | nil => exact ⟨hacc, ⟨ExtI.refl _, ExtI.refl _⟩, by simp⟩
  | cons fe0 rest ih =>
    simp only [List.map_cons, List.foldl_cons]
    obtain ⟨g0, in0⟩ := rectFromPoints_good (hok fe0 (List.mem_cons_self))
    obtain ⟨g1, e1, f1⟩ := addRect_good hacc g0
    obtain ⟨G, E, I⟩ := ih (fun fe hfe => hok fe (List.mem_cons_of_mem _ hfe)) _ g1
    refine ⟨G, ⟨E.1.trans e1.1, E.2.trans e1.2⟩, ?_⟩
    intro fe hfe
    rcases List.mem_cons.1 hfe with h | h
    · subst h
      exact InR.of_ext ⟨E.1.trans f1.1, E.2.trans f1.2⟩ in0
    · exact I fe h

/-- **the bound of a non-empty list of good face edges** is a non-empty finite rectangle with good ends that contains
    every endpoint -/
theorem faceBound_spec (fes : List FaceEdge) (hne : fes ≠ []) (hok : ∀ fe ∈ fes, FaceEdgeOK fe) :
    GoodR (faceBound fes) ∧ ∀ fe ∈ fes, InR (faceBound fes) fe := by
  cases fes with
  | nil => exact absurd rfl hne
  | cons fe0 rest =>
    unfold faceBound
    simp only [List.map_cons, List.foldl_cons, addRect_empty]
    obtain ⟨g0, in0⟩ := rectFromPoints_good (hok fe0 (List.mem_cons_self))
    obtain ⟨G, E, I⟩ := fold_good rest (fun fe hfe => hok fe (List.mem_cons_of_mem _ hfe)) _ g0
    refine ⟨G, ?_⟩
    intro fe hfe
    rcases List.mem_cons.1 hfe with h | h
    · subst h; exact InR.of_ext E in0
    · exact I fe h

/-- every point of the exact segment of an edge lies in a rectangle that contains its endpoints -/
theorem seg_in_bound {r : Rect2} {fe : FaceEdge} (h : InR r fe) (t : ℝ) (h0 : 0 ≤ t) (h1 : t ≤ 1) :
    rv r.1.1 ≤ segU fe t ∧ segU fe t ≤ rv r.1.2 ∧ rv r.2.1 ≤ segV fe t ∧ segV fe t ≤ rv r.2.2 := by
  obtain ⟨⟨a1, a2⟩, ⟨b1, b2⟩, ⟨c1, c2⟩, ⟨d1, d2⟩⟩ := h
  unfold segU segV
  have h1' : 0 ≤ 1 - t := by linarith
  refine ⟨?_, ?_, ?_, ?_⟩ <;> nlinarith

/-! ### the margin `cellPadding + 1.5·dblEpsilon` and the padded rectangle -/

/-- the margin `ShrinkToFit` expands the bound by -/
def marginF : F64 := cellPadding + (⟨0x3CB8000000000000⟩ : F64)

theorem marginF_bits : marginF = ⟨0x3cf2ba5919a791a3⟩ := by
  unfold marginF
  rw [cellPadding_bits]
  decide +kernel

theorem marginF_fin : Fin marginF := by rw [marginF_bits]; decide

set_option exponentiation.threshold 2100 in
/-- the margin is computed exactly: `cellPadding + 1.5·dblEpsilon` -/
theorem marginF_rv : rv marginF = padR + 3 / 2 * dblEps := by
  rw [padR_eq]
  unfold rv S2Proofs.FloatErr.val dblEps
  rw [marginF_bits]
  have : S2.Exact.toInt (⟨0x3cf2ba5919a791a3⟩ : F64) = 5271441426059683 * 2 ^ 974 := by decide +kernel
  rw [this]
  push_cast
  rw [show (2 : ℝ) ^ 1074 = 2 ^ 974 * 2 ^ 100 by rw [← pow_add]]
  field_simp
  norm_num

theorem dblEps_posS : 0 < dblEps := by unfold dblEps; positivity

theorem marginF_bounds : 18 * dblEps ≤ rv marginF ∧ rv marginF ≤ 20 * dblEps := by
  rw [marginF_rv]
  have := padR_lo; have := padR_hi; have := dblEps_posS
  constructor <;> linarith

/-- rounding error bound of `B ∓ margin` -/
noncomputable def shrinkTau : ℝ := 1 / 2 ^ 53 + 1 / 2 ^ 91

set_option exponentiation.threshold 2100 in
private theorem rnd_small {x c : ℝ} (hx : |x| ≤ 1 + 1 / 2 ^ 39)
    (h : S2Proofs.FloatErr.Rnd S2Proofs.FloatErr.uR S2Proofs.FloatErr.eR x c) : |c - x| ≤ shrinkTau := by
  unfold S2Proofs.FloatErr.Rnd S2Proofs.FloatErr.uR S2Proofs.FloatErr.eR at h
  unfold shrinkTau
  have h0 : (0 : ℝ) ≤ 1 / 2 ^ 53 := by positivity
  have h1 : (1 : ℝ) / 2 ^ 53 * |x| ≤ 1 / 2 ^ 53 * (1 + 1 / 2 ^ 39) := mul_le_mul_of_nonneg_left hx h0
  have h2 : (1 : ℝ) / 2 ^ 1075 ≤ 1 / 2 ^ 92 :=
    one_div_le_one_div_of_le (by positivity) (pow_le_pow_right₀ (by norm_num) (by norm_num))
  have h3 : (1 : ℝ) / 2 ^ 53 * (1 + 1 / 2 ^ 39) + 1 / 2 ^ 92 = 1 / 2 ^ 53 + 1 / 2 ^ 91 := by norm_num
  linarith

/-- **one side of the padded rectangle**: `Ivl.expanded i margin` of a good interval is `(i.lo − m, i.hi + m)`, both
    finite, non-empty, `|·| ≤ 2`, each within `shrinkTau` of the exact value -/
theorem expanded_spec {i : Ivl} (h : GoodI i) :
    Ivl.expanded i marginF = (i.1 - marginF, i.2 + marginF) ∧
    Fin (i.1 - marginF) ∧ Fin (i.2 + marginF) ∧
    |rv (i.1 - marginF) - (rv i.1 - rv marginF)| ≤ shrinkTau ∧
    |rv (i.2 + marginF) - (rv i.2 + rv marginF)| ≤ shrinkTau ∧
    |rv (i.1 - marginF)| ≤ 2 ∧ |rv (i.2 + marginF)| ≤ 2 ∧
    Ivl.isEmpty (Ivl.expanded i marginF) = false := by
  obtain ⟨⟨f1, b1⟩, ⟨f2, b2⟩, hle⟩ := h
  obtain ⟨m1, m2⟩ := marginF_bounds
  have hd := dblEps_posS
  have hd2 : dblEps = 1 / 2 ^ 52 := rfl
  have hb1 := abs_le.1 b1
  have hb2 := abs_le.1 b2
  have hs1 : |rv i.1 - rv marginF| ≤ 1 + 1 / 2 ^ 39 := by
    rw [abs_le]; constructor <;> norm_num at * <;> linarith
  have hs2 : |rv i.2 + rv marginF| ≤ 1 + 1 / 2 ^ 39 := by
    rw [abs_le]; constructor <;> norm_num at * <;> linarith
  obtain ⟨g1, r1, _⟩ := S2Proofs.C12Dist.EdgeErr.subS f1 marginF_fin (le_trans hs1 (by norm_num))
  obtain ⟨g2, r2, _⟩ := S2Proofs.C12Dist.EdgeErr.addS f2 marginF_fin (le_trans hs2 (by norm_num))
  have e1 := rnd_small hs1 r1
  have e2 := rnd_small hs2 r2
  have ht : shrinkTau ≤ 1 / 2 ^ 52 := by unfold shrinkTau; norm_num
  have a1 := abs_le.1 e1
  have a2 := abs_le.1 e2
  have hs1' := abs_le.1 hs1
  have hs2' := abs_le.1 hs2
  have hexp : Ivl.expanded i marginF = (i.1 - marginF, i.2 + marginF) := by
    unfold Ivl.expanded
    rw [GoodI.isEmpty ⟨⟨f1, b1⟩, ⟨f2, b2⟩, hle⟩]; rfl
  refine ⟨hexp, g1, g2, e1, e2, ?_, ?_, ?_⟩
  · rw [abs_le]; constructor <;> norm_num at * <;> linarith
  · rw [abs_le]; constructor <;> norm_num at * <;> linarith
  · rw [hexp]
    unfold Ivl.isEmpty F64.gt
    cases hlt : F64.lt (i.1 - marginF, i.2 + marginF).2 (i.1 - marginF, i.2 + marginF).1
    · rfl
    · have := (lt_iff_rv' g2 g1).1 hlt
      exfalso
      have : rv (i.2 + marginF) < rv (i.1 - marginF) := this
      norm_num at *
      linarith

/-! ### the four grid indices -/

/-- **one coordinate**: a real `s` inside the good interval `i` and within `meetPad` of the grid cell `[UG I, UG I']`;
    then the indices `ShrinkToFit` computes from the padded interval enclose `[I, I')` -/
theorem idx_spec (hge : RoundTripGe) (hlt : RoundTripLt) {i : Ivl} (h : GoodI i) (s : ℝ)
    (hs1 : rv i.1 ≤ s) (hs2 : s ≤ rv i.2) (I I' : Nat) (hI : I ≤ 2 ^ 30 - 1) (hI'0 : 0 < I') (hI' : I' ≤ 2 ^ 30)
    (hm1 : UG I - meetPad ≤ s) (hm2 : s ≤ UG I' + meetPad) :
    I ≤ (STUV.stToIJ (STUV.uvToST (Ivl.expanded i marginF).2)).toNat ∧
    (STUV.stToIJ (STUV.uvToST (Ivl.expanded i marginF).1)).toNat < I' ∧
    (STUV.stToIJ (STUV.uvToST (Ivl.expanded i marginF).1)).toNat < 2 ^ 30 ∧
    (STUV.stToIJ (STUV.uvToST (Ivl.expanded i marginF).2)).toNat < 2 ^ 30 := by
  obtain ⟨hexp, g1, g2, e1, e2, b1, b2, _⟩ := expanded_spec h
  rw [hexp]
  have hd := dblEps_posS
  have hmr := marginF_rv
  have ht : shrinkTau = 1 / 2 * dblEps + 1 / 2 ^ 91 := by unfold shrinkTau dblEps; norm_num
  have ht2 : (1 : ℝ) / 2 ^ 91 < dblEps := by unfold dblEps; norm_num
  have a1 := abs_le.1 e1
  have a2 := abs_le.1 e2
  have hmp : meetPad = padR - 4 * dblEps := rfl
  have r1 := S2Proofs.C12ST.stToIJ_range (STUV.uvToST (i.1 - marginF))
  have r2 := S2Proofs.C12ST.stToIJ_range (STUV.uvToST (i.2 + marginF))
  have k2 : (I : Int) ≤ STUV.stToIJ (STUV.uvToST (i.2 + marginF)) := by
    apply hge (i.2 + marginF) g2 b2 I hI
    linarith
  have k1 : STUV.stToIJ (STUV.uvToST (i.1 - marginF)) < (I' : Int) := by
    apply hlt (i.1 - marginF) g1 b1 I' hI'0 hI'
    linarith
  refine ⟨?_, ?_, ?_, ?_⟩
  · show I ≤ (STUV.stToIJ (STUV.uvToST (i.2 + marginF))).toNat
    omega
  · show (STUV.stToIJ (STUV.uvToST (i.1 - marginF))).toNat < I'
    omega
  · show (STUV.stToIJ (STUV.uvToST (i.1 - marginF))).toNat < 2 ^ 30
    omega
  · show (STUV.stToIJ (STUV.uvToST (i.2 + marginF))).toNat < 2 ^ 30
    omega

/-- the padded rectangle of a good bound is the pair of the expanded intervals -/
theorem expandedByMargin_good {r : Rect2} (h : GoodR r) :
    Rect2.expandedByMargin r marginF = (Ivl.expanded r.1 marginF, Ivl.expanded r.2 marginF) := by
  obtain ⟨_, _, _, _, _, _, _, n1⟩ := expanded_spec h.1
  obtain ⟨_, _, _, _, _, _, _, n2⟩ := expanded_spec h.2
  unfold Rect2.expandedByMargin Rect2.expanded
  simp only [n1, n2, Bool.or_self, Bool.false_eq_true, if_false]

/-! ### the contract -/

/-- **`ShrinkToFit` is sound for real geometry**: no good face edge of face `f` meets (within `meetPad`) a valid cell of
    the face that is disjoint from the root cell the builder starts from -/
theorem shrinkSoundF_real (hge : RoundTripGe) (hlt : RoundTripLt) (hcov : ShrinkIJCovers)
    (f : Nat) (hf : f < 6) (fes : List FaceEdge) (hok : ∀ fe ∈ fes, FaceEdgeOK fe) :
    ShrinkSoundF MeetsReal f fes := by
  intro fe hfe x hv hlo hhi hmeet
  have hne : fes ≠ [] := by rintro rfl; simp at hfe
  have hemp : fes.isEmpty = false := by
    cases fes with
    | nil => exact absurd rfl hne
    | cons _ _ => rfl
  obtain ⟨_, _, hx1, hx2, _⟩ := valid_facts hv
  have hface : ¬ (hi x < lo (fromFace f) ∨ hi (fromFace f) < lo x) := by omega
  unfold rootCell
  rw [hemp]
  simp only [Bool.false_eq_true, if_false]
  rw [shrinkToFit_eq]
  split
  · rw [S2Proofs.C06PC.fromCellID_id]; exact hface
  split
  · rw [S2Proofs.C06PC.fromCellID_id]; exact hface
  -- the main case
  obtain ⟨GB, IB⟩ := faceBound_spec fes hne hok
  have hin := IB fe hfe
  obtain ⟨k, hc⟩ := (isValid_iff x).mp hv
  obtain ⟨_, hlev, _, _, _, bI, bJ⟩ := S2Proofs.C06.paddedCell_fromCellID_bounds x hv
  rw [hc.level_eq, S2Proofs.C06PC.sizeIJ_eq] at bI bJ
  obtain ⟨t, t0, t1, mu1, mu2, mv1, mv2⟩ := hmeet
  unfold cellULo at mu1
  unfold cellUHi at mu2
  unfold cellVLo at mv1
  unfold cellVHi at mv2
  rw [hlev, hc.level_eq, S2Proofs.C06PC.sizeIJ_eq] at mu2 mv2
  obtain ⟨su1, su2, sv1, sv2⟩ := seg_in_bound hin t t0 t1
  have hp : 0 < 2 ^ (30 - k) := Nat.two_pow_pos _
  obtain ⟨xa, xb, xc, xd⟩ := idx_spec hge hlt GB.1 (segU fe t) su1 su2 (fromCellID x).iLo
    ((fromCellID x).iLo + 2 ^ (30 - k)) (by omega) (by omega) bI mu1 mu2
  obtain ⟨ya, yb, yc, yd⟩ := idx_spec hge hlt GB.2 (segV fe t) sv1 sv2 (fromCellID x).jLo
    ((fromCellID x).jLo + 2 ^ (30 - k)) (by omega) (by omega) bJ mv1 mv2
  show ¬ (hi x < lo (shrinkIJ (fromCellID (fromFace f))
      (STUV.stToIJ (STUV.uvToST (Rect2.expandedByMargin (faceBound fes) marginF).1.1)).toNat
      (STUV.stToIJ (STUV.uvToST (Rect2.expandedByMargin (faceBound fes) marginF).1.2)).toNat
      (STUV.stToIJ (STUV.uvToST (Rect2.expandedByMargin (faceBound fes) marginF).2.1)).toNat
      (STUV.stToIJ (STUV.uvToST (Rect2.expandedByMargin (faceBound fes) marginF).2.2)).toNat) ∨
    hi (shrinkIJ (fromCellID (fromFace f))
      (STUV.stToIJ (STUV.uvToST (Rect2.expandedByMargin (faceBound fes) marginF).1.1)).toNat
      (STUV.stToIJ (STUV.uvToST (Rect2.expandedByMargin (faceBound fes) marginF).1.2)).toNat
      (STUV.stToIJ (STUV.uvToST (Rect2.expandedByMargin (faceBound fes) marginF).2.1)).toNat
      (STUV.stToIJ (STUV.uvToST (Rect2.expandedByMargin (faceBound fes) marginF).2.2)).toNat) < lo x)
  rw [expandedByMargin_good GB]
  exact hcov f hf _ _ _ _ xc xd yc yd x k hc hlo hhi xa xb ya yb

/-! ### non-vacuity -/

set_option exponentiation.threshold 2100 in
/-- a finite float with `|x| ≤ 1` (decidable on the exact integer value) is a good coordinate -/
theorem coordOK_of_toInt {x : F64} (hf : Fin x) (h : (S2.Exact.toInt x).natAbs ≤ 2 ^ 1074) : CoordOK x := by
  refine ⟨hf, ?_⟩
  have h1 : |rv x| = ((S2.Exact.toInt x).natAbs : ℝ) / 2 ^ 1074 := by
    unfold rv S2Proofs.FloatErr.val
    rw [abs_div, abs_of_pos (show (0 : ℝ) < 2 ^ 1074 by positivity), Nat.cast_natAbs, Int.cast_abs]
  have h2 : ((S2.Exact.toInt x).natAbs : ℝ) ≤ 2 ^ 1074 := by exact_mod_cast h
  have h3 : ((S2.Exact.toInt x).natAbs : ℝ) / 2 ^ 1074 ≤ 1 := by
    rw [div_le_one (by positivity)]; exact h2
  have h4 : (0 : ℝ) ≤ 1 / 2 ^ 40 := by positivity
  rw [h1]; linarith

/-- the edge from `(0.25, 0.25)` to `(0.5, 0.375)` -/
def exEdge : FaceEdge :=
  { shapeID := 0, edgeID := 0, maxLevel := 30, hasInterior := false,
    a := (⟨0x3FD0000000000000⟩, ⟨0x3FD0000000000000⟩), b := (⟨0x3FE0000000000000⟩, ⟨0x3FD8000000000000⟩),
    v0 := default, v1 := default }

example : FaceEdgeOK exEdge :=
  ⟨coordOK_of_toInt (by decide) (by decide +kernel), coordOK_of_toInt (by decide) (by decide +kernel),
   coordOK_of_toInt (by decide) (by decide +kernel), coordOK_of_toInt (by decide) (by decide +kernel)⟩

/-- the hypotheses of `shrinkSoundF_real` on the edge list are satisfiable by a non-empty list -/
example : ∀ fe ∈ [exEdge], FaceEdgeOK fe := by
  intro fe hfe
  rw [List.mem_singleton.1 hfe]
  exact ⟨coordOK_of_toInt (by decide) (by decide +kernel), coordOK_of_toInt (by decide) (by decide +kernel),
   coordOK_of_toInt (by decide) (by decide +kernel), coordOK_of_toInt (by decide) (by decide +kernel)⟩

#print axioms shrinkSoundF_real

end S2Proofs.C06Clip
