/-
  S2Proofs.C06Clip.CellGeom — the cell geometry the clipping proof of index invariant I1 needs:

  * the grid `UG k` (`k ≤ 2^30`) is monotone with gaps `≥ 2^-31`, inside `[-1,1]`, `UG (2^29) = 0`
  * comparison of finite floats through their real values (`le_iff_rv` …)
  * the float padded boundaries `padLoF k / padHiF k` are finite, within `rho` of `UG k ∓ padR`, monotone in `k`,
    and never tiny
  * the integer fields of `PaddedCellFromCellID` (`cell_ij`, `cell_child`)
  * the four float ends of `Middle()` are the padded boundaries of the centre lines (`middle_spec`)
  * the uv-rectangle of a child is the matching half of the rectangle of the parent (`cellRect_child`)
-/
import S2Proofs.C06Clip.Defs
import S2Proofs.C12.STExact
import S2Proofs.C12.MarginCoord
import S2Proofs.F64Round
import S2Proofs.Properties.C06_PaddedCell
import Mathlib.Tactic.Linarith
import Mathlib.Tactic.NormNum
import Mathlib.Tactic.Positivity
import Mathlib.Tactic.Ring

namespace S2Proofs.C06Clip
open S2 S2.CellID S2.Hilbert S2.PaddedCellM S2.IndexBuild S2Proofs.F64Order S2Proofs.C06PC S2Proofs.C12H
open S2Proofs.C12Dist.CellOK

/-! ### the grid -/

theorem UG_fin (k : Nat) (hk : k ≤ 2 ^ 30) : Fin (STUV.stToUV (S2Proofs.C12M.g k)) :=
  S2Proofs.C12M.fin_stToUV_g k hk

theorem UG_gap {k1 k2 : Nat} (h : k1 < k2) (hk : k2 ≤ 2 ^ 30) : UG k1 + 1 / 2 ^ 31 ≤ UG k2 :=
  stToUV_g_gap k1 k2 h hk

theorem UG_mono {k1 k2 : Nat} (h : k1 ≤ k2) (hk : k2 ≤ 2 ^ 30) : UG k1 ≤ UG k2 := by
  rcases Nat.lt_or_eq_of_le h with hlt | rfl
  · have := UG_gap hlt hk
    have hp : (0 : ℝ) < 1 / 2 ^ 31 := by positivity
    linarith
  · exact le_refl _

theorem UG_ge (k : Nat) (hk : k ≤ 2 ^ 30) : -1 ≤ UG k := stToUV_g_ge k hk

theorem UG_le (k : Nat) (hk : k ≤ 2 ^ 30) : UG k ≤ 1 := stToUV_g_le k hk

theorem rv_zero : rv (F64.zero false) = 0 := by
  unfold rv S2Proofs.FloatErr.val
  rw [S2Proofs.C12ST.toInt_zero]; simp

theorem UG_half : UG (2 ^ 29) = 0 := by
  unfold UG
  rw [S2Proofs.C12M.stToUV_g_half]; exact rv_zero

/-! ### comparison of finite floats through `rv` -/

theorem rv_le_iff_toInt (x y : F64) : rv x ≤ rv y ↔ S2.Exact.toInt x ≤ S2.Exact.toInt y := by
  unfold rv S2Proofs.FloatErr.val
  rw [div_le_div_iff_of_pos_right (by positivity)]; exact Int.cast_le

theorem rv_lt_iff_toInt (x y : F64) : rv x < rv y ↔ S2.Exact.toInt x < S2.Exact.toInt y := by
  unfold rv S2Proofs.FloatErr.val
  rw [div_lt_div_iff_of_pos_right (by positivity)]; exact Int.cast_lt

theorem le_iff_rv {x y : F64} (hx : Fin x) (hy : Fin y) : F64.le x y = true ↔ rv x ≤ rv y := by
  rw [le_iff hx hy, rv_le_iff_toInt]

theorem lt_iff_rv {x y : F64} (hx : Fin x) (hy : Fin y) : F64.lt x y = true ↔ rv x < rv y := by
  rw [lt_iff hx hy, rv_lt_iff_toInt]

theorem ge_iff_rv {x y : F64} (hx : Fin x) (hy : Fin y) : F64.ge x y = true ↔ rv y ≤ rv x := by
  unfold F64.ge; exact le_iff_rv hy hx

theorem gt_iff_rv {x y : F64} (hx : Fin x) (hy : Fin y) : F64.gt x y = true ↔ rv y < rv x := by
  unfold F64.gt; exact lt_iff_rv hy hx

theorem fin_not_nan {x : F64} (hx : Fin x) : x.isNaN = false := isNaN_false hx

/-! ### `+` / `−` of finite floats, in ℝ -/

theorem rv_bridge (x : F64) : rv x = ((F64Round.val x : ℚ) : ℝ) := val_bridge x

theorem abs_le_of_rv {q : ℚ} {B : ℚ} (h : |(q : ℝ)| ≤ (B : ℝ)) : |q| ≤ B := by
  have : ((|q| : ℚ) : ℝ) ≤ (B : ℝ) := by rw [Rat.cast_abs]; exact h
  exact_mod_cast this

set_option exponentiation.threshold 2100 in
theorem sub_fin_R {x y : F64} (hx : Fin x) (hy : Fin y) (hb : |rv x - rv y| ≤ 4) : Fin (F64.sub x y) := by
  apply F64Round.sub_fin_of_lt hx hy
  have h4 : |F64Round.val x - F64Round.val y| ≤ 4 := by
    apply abs_le_of_rv
    push_cast
    rw [← rv_bridge, ← rv_bridge]; exact hb
  exact lt_of_le_of_lt h4 (by norm_num)

set_option exponentiation.threshold 2100 in
theorem add_fin_R {x y : F64} (hx : Fin x) (hy : Fin y) (hb : |rv x + rv y| ≤ 4) : Fin (F64.add x y) := by
  apply F64Round.add_fin_of_lt hx hy
  have h4 : |F64Round.val x + F64Round.val y| ≤ 4 := by
    apply abs_le_of_rv
    push_cast
    rw [← rv_bridge, ← rv_bridge]; exact hb
  exact lt_of_le_of_lt h4 (by norm_num)

theorem sub_err_R {x y : F64} (hx : Fin x) (hy : Fin y) (hf : Fin (F64.sub x y)) :
    |rv (F64.sub x y) - (rv x - rv y)| ≤ |rv x - rv y| / 2 ^ 53 := by
  have h := F64Round.sub_rel_err hx hy hf
  have hR : ((|F64Round.val (F64.sub x y) - (F64Round.val x - F64Round.val y)| : ℚ) : ℝ) ≤
      ((|F64Round.val x - F64Round.val y| / 2 ^ 53 : ℚ) : ℝ) := Rat.cast_le.2 h
  rw [Rat.cast_abs] at hR
  push_cast at hR
  rw [← rv_bridge, ← rv_bridge, ← rv_bridge] at hR
  exact hR

theorem add_err_R {x y : F64} (hx : Fin x) (hy : Fin y) (hf : Fin (F64.add x y)) :
    |rv (F64.add x y) - (rv x + rv y)| ≤ |rv x + rv y| / 2 ^ 53 := by
  have h := F64Round.add_rel_err hx hy hf
  have hR : ((|F64Round.val (F64.add x y) - (F64Round.val x + F64Round.val y)| : ℚ) : ℝ) ≤
      ((|F64Round.val x + F64Round.val y| / 2 ^ 53 : ℚ) : ℝ) := Rat.cast_le.2 h
  rw [Rat.cast_abs] at hR
  push_cast at hR
  rw [← rv_bridge, ← rv_bridge, ← rv_bridge] at hR
  exact hR

/-! ### the float padded boundaries -/

theorem padR_pos : 0 < padR := by
  have := padR_lo
  have : (0 : ℝ) < dblEps := by unfold dblEps; positivity
  linarith

theorem padR_small : padR ≤ 1 / 2 ^ 47 := by
  have := padR_hi
  have : 18 * dblEps ≤ 1 / 2 ^ 47 := by unfold dblEps; norm_num
  linarith

theorem rho_pos : 0 < rho := by unfold rho; positivity

/-- the error of one rounding of a value of magnitude at most `1 + 2^-45` is at most `rho` -/
theorem rho_bound {x : ℝ} (hx : |x| ≤ 1 + 1 / 2 ^ 45) : |x| / 2 ^ 53 ≤ rho := by
  unfold rho
  have : |x| / 2 ^ 53 ≤ (1 + 1 / 2 ^ 45) / 2 ^ 53 := div_le_div_of_nonneg_right hx (by positivity)
  have h2 : ((1 : ℝ) + 1 / 2 ^ 45) / 2 ^ 53 ≤ 1 / 2 ^ 53 + 1 / 2 ^ 90 := by norm_num
  linarith

theorem padF_spec (k : Nat) (hk : k ≤ 2 ^ 30) :
    Fin (padLoF k) ∧ Fin (padHiF k) ∧ |rv (padLoF k) - (UG k - padR)| ≤ rho ∧
      |rv (padHiF k) - (UG k + padR)| ≤ rho := by
  have hu := UG_fin k hk
  have hp := cellPadding_fin
  have h1 := UG_ge k hk
  have h2 := UG_le k hk
  have p0 := padR_pos
  have p1 := padR_small
  have e45 : (1 : ℝ) / 2 ^ 47 ≤ 1 / 2 ^ 45 := by norm_num
  have bs : |UG k - padR| ≤ 1 + 1 / 2 ^ 45 := by rw [abs_le]; constructor <;> linarith
  have ba : |UG k + padR| ≤ 1 + 1 / 2 ^ 45 := by rw [abs_le]; constructor <;> linarith
  have e4 : (1 : ℝ) + 1 / 2 ^ 45 ≤ 4 := by norm_num
  have fs : Fin (padLoF k) := sub_fin_R hu hp (le_trans bs e4)
  have fa : Fin (padHiF k) := add_fin_R hu hp (le_trans ba e4)
  refine ⟨fs, fa, ?_, ?_⟩
  · exact le_trans (sub_err_R hu hp fs) (rho_bound bs)
  · exact le_trans (add_err_R hu hp fa) (rho_bound ba)

theorem padLoF_mono {k1 k2 : Nat} (h : k1 ≤ k2) (hk : k2 ≤ 2 ^ 30) : rv (padLoF k1) ≤ rv (padLoF k2) := by
  have hk1 : k1 ≤ 2 ^ 30 := le_trans h hk
  have hp := cellPadding_fin
  have hm := S2Proofs.C12M.stToUV_g_mono k1 k2 h hk
  have hle := F64Round.IsRound.mono (F64Round.isRound_sub (UG_fin k1 hk1) hp) (F64Round.isRound_sub (UG_fin k2 hk) hp)
    (by linarith)
  exact (le_iff_rv (padF_spec k1 hk1).1 (padF_spec k2 hk).1).1 hle

theorem padHiF_mono {k1 k2 : Nat} (h : k1 ≤ k2) (hk : k2 ≤ 2 ^ 30) : rv (padHiF k1) ≤ rv (padHiF k2) := by
  have hk1 : k1 ≤ 2 ^ 30 := le_trans h hk
  have hp := cellPadding_fin
  have hm := S2Proofs.C12M.stToUV_g_mono k1 k2 h hk
  have hle := F64Round.IsRound.mono (F64Round.isRound_add (UG_fin k1 hk1) hp) (F64Round.isRound_add (UG_fin k2 hk) hp)
    (by linarith)
  exact (le_iff_rv (padF_spec k1 hk1).2.1 (padF_spec k2 hk).2.1).1 hle

/-- away from the centre line the grid values are at least `2^-31` in magnitude -/
theorem UG_abs_ge {k : Nat} (hk : k ≤ 2 ^ 30) (hne : k ≠ 2 ^ 29) : 1 / 2 ^ 31 ≤ |UG k| := by
  rcases Nat.lt_or_gt_of_ne hne with hlt | hgt
  · have := UG_gap hlt (by norm_num : 2 ^ 29 ≤ 2 ^ 30)
    rw [UG_half] at this
    rw [abs_of_nonpos (by have hp : (0 : ℝ) < 1 / 2 ^ 31 := by positivity
                          linarith)]
    linarith
  · have := UG_gap hgt hk
    rw [UG_half] at this
    rw [abs_of_nonneg (by have hp : (0 : ℝ) < 1 / 2 ^ 31 := by positivity
                          linarith)]
    linarith

/-- a value within relative error `2^-53` of `±p`, `p ≥ 17·2^-52`, has magnitude at least `2^-49` -/
theorem near_pad_abs_ge (x p q : ℝ) (hp : 17 / 2 ^ 52 ≤ p) (hq : |q| = p) (h : |x - q| ≤ p / 2 ^ 53) :
    1 / 2 ^ 49 ≤ |x| := by
  have hpp : 0 < p := lt_of_lt_of_le (by positivity) hp
  have h1 : p / 2 ^ 53 ≤ p / 2 :=
    div_le_div_of_nonneg_left (le_of_lt hpp) (by norm_num) (by norm_num)
  have h2 : |q| - |x| ≤ |x - q| := by rw [abs_sub_comm x q]; exact abs_sub_abs_le_abs_sub q x
  have h3 : (1 : ℝ) / 2 ^ 49 ≤ 17 / 2 ^ 52 / 2 := by norm_num
  linarith

/-- the clip values are never tiny (the centre line is 0 or at least 2^-31 away from 0) -/
theorem padF_abs_ge (k : Nat) (hk : k ≤ 2 ^ 30) : 1 / 2 ^ 49 ≤ |rv (padLoF k)| ∧ 1 / 2 ^ 49 ≤ |rv (padHiF k)| := by
  obtain ⟨fs, fa, es, ea⟩ := padF_spec k hk
  have p0 := padR_lo
  have p1 := padR_small
  have hd : dblEps = 1 / 2 ^ 52 := rfl
  have hrho : rho ≤ 1 / 2 ^ 52 := by unfold rho; norm_num
  by_cases hc : k = 2 ^ 29
  · subst hc
    have hu := UG_fin (2 ^ 29) hk
    have hp := cellPadding_fin
    have hz : rv (STUV.stToUV (S2Proofs.C12M.g (2 ^ 29))) = 0 := UG_half
    have hpd : rv cellPadding = padR := rfl
    have e1 : |rv (padLoF (2 ^ 29)) - (rv (STUV.stToUV (S2Proofs.C12M.g (2 ^ 29))) - rv cellPadding)| ≤
        |rv (STUV.stToUV (S2Proofs.C12M.g (2 ^ 29))) - rv cellPadding| / 2 ^ 53 := sub_err_R hu hp fs
    have e2 : |rv (padHiF (2 ^ 29)) - (rv (STUV.stToUV (S2Proofs.C12M.g (2 ^ 29))) + rv cellPadding)| ≤
        |rv (STUV.stToUV (S2Proofs.C12M.g (2 ^ 29))) + rv cellPadding| / 2 ^ 53 := add_err_R hu hp fa
    rw [hz, hpd] at e1 e2
    rw [zero_sub, abs_neg, abs_of_pos padR_pos] at e1
    rw [zero_add, abs_of_pos padR_pos] at e2
    have hp17 : (17 : ℝ) / 2 ^ 52 ≤ padR := by rw [hd] at p0; linarith
    exact ⟨near_pad_abs_ge _ padR (-padR) hp17 (by rw [abs_neg, abs_of_pos padR_pos]) e1,
      near_pad_abs_ge _ padR padR hp17 (abs_of_pos padR_pos) e2⟩
  · have hU := UG_abs_ge hk hc
    have c1 : (1 : ℝ) / 2 ^ 49 + 1 / 2 ^ 47 + 1 / 2 ^ 52 ≤ 1 / 2 ^ 31 := by norm_num
    rw [abs_le] at es ea
    obtain ⟨es1, es2⟩ := es
    obtain ⟨ea1, ea2⟩ := ea
    rcases le_or_gt 0 (UG k) with h0 | h0
    · rw [abs_of_nonneg h0] at hU
      constructor
      · rw [abs_of_nonneg (by linarith)]; linarith
      · rw [abs_of_nonneg (by linarith)]; linarith
    · rw [abs_of_neg h0] at hU
      constructor
      · rw [abs_of_nonpos (by linarith)]; linarith
      · rw [abs_of_nonpos (by linarith)]; linarith

/-! ### integer fields of `PaddedCellFromCellID` -/

theorem cell_ij {c : CellID} {k : Nat} (hc : IsCell c k) :
    (fromCellID c).level = k ∧ sizeIJ k = 2 ^ (30 - k) ∧
    (fromCellID c).iLo % 2 ^ (30 - k) = 0 ∧ (fromCellID c).iLo + 2 ^ (30 - k) ≤ 2 ^ 30 ∧
    (fromCellID c).jLo % 2 ^ (30 - k) = 0 ∧ (fromCellID c).jLo + 2 ^ (30 - k) ≤ 2 ^ 30 := by
  obtain ⟨hI, hJ, -⟩ := prefixState_bounds c k
  have h1 := mul_pow_lt _ k hc.k_le hI
  have h2 := mul_pow_lt _ k hc.k_le hJ
  rw [Nat.add_mul, Nat.one_mul] at h1 h2
  rw [fromCellID_eq hc]
  exact ⟨rfl, sizeIJ_eq k, Nat.mul_mod_left _ _, h1, Nat.mul_mod_left _ _, h2⟩

theorem cell_child {c : CellID} {k pos : Nat} (hc : IsCell c k) (hk : k < 30) (hpos : pos < 4) :
    (childIJ (fromCellID c) pos).1 < 2 ∧ (childIJ (fromCellID c) pos).2 < 2 ∧
    (fromCellID (child c pos)).level = k + 1 ∧
    (fromCellID (child c pos)).iLo = (fromCellID c).iLo + (childIJ (fromCellID c) pos).1 * 2 ^ (29 - k) ∧
    (fromCellID (child c pos)).jLo = (fromCellID c).jLo + (childIJ (fromCellID c) pos).2 * 2 ^ (29 - k) := by
  have hO := fromCellID_orientation_lt hc
  obtain ⟨h1, h2, -⟩ := S2Proofs.C06.paddedCell_childIJ_lt (fromCellID c) pos hO hpos
  have hch := childAtPos_fromCellID hc hk hpos
  have hl := fromCellID_level hc
  have hs : sizeIJ (k + 1) = 2 ^ (29 - k) := by
    rw [sizeIJ_eq]; congr 1; omega
  refine ⟨h1, h2, ?_, ?_, ?_⟩
  · rw [← hch]; unfold childAtPos fromParentIJ; simp only [hl]
  · rw [← hch]; unfold childAtPos fromParentIJ; simp only [hl, hs]
  · rw [← hch]; unfold childAtPos fromParentIJ; simp only [hl, hs]

/-! ### `Middle()` -/

theorem isEmpty_pad : CellM.Ivl.isEmpty (-cellPadding, cellPadding) = false := by
  rw [cellPadding_bits]; decide

theorem padLoF_half : padLoF (2 ^ 29) = -cellPadding := by
  unfold padLoF
  rw [S2Proofs.C12M.stToUV_g_half, cellPadding_bits]; decide +kernel

theorem padHiF_half : padHiF (2 ^ 29) = cellPadding := by
  unfold padHiF
  rw [S2Proofs.C12M.stToUV_g_half, cellPadding_bits]; decide +kernel

/-- the preset rectangle of a face cell -/
theorem middle_true (p : PaddedCell) :
    middle p cellPadding true = ((padLoF (2 ^ 29), padHiF (2 ^ 29)), (padLoF (2 ^ 29), padHiF (2 ^ 29))) := by
  unfold middle
  rw [padLoF_half, padHiF_half]
  simp [isEmpty_pad]

/-- the lazily computed rectangle: the padded boundaries of the two centre lines -/
theorem middle_false {p : PaddedCell} {m n : Nat} (hm : m ≤ 2 ^ 30) (hn : n ≤ 2 ^ 30)
    (h1 : 2 * p.iLo + sizeIJ p.level = 2 * m) (h2 : 2 * p.jLo + sizeIJ p.level = 2 * n) :
    middle p cellPadding false = ((padLoF m, padHiF m), (padLoF n, padHiF n)) := by
  unfold middle centerSiTi
  simp only [Bool.false_and, Bool.false_eq_true, if_false]
  rw [h1, h2]
  have u1 : u32 (2 * m) = 2 * m := by unfold u32; omega
  have u2 : u32 (2 * n) = 2 * n := by unfold u32; omega
  rw [u1, u2, S2Proofs.C12ST.siTiToST_double m (by omega), S2Proofs.C12ST.siTiToST_double n (by omega)]
  rfl

/-- the centre grid index of a non-leaf cell -/
theorem center_idx {c : CellID} {k : Nat} (hc : IsCell c k) (hk : k < 30) :
    2 * (fromCellID c).iLo + sizeIJ (fromCellID c).level = 2 * ((fromCellID c).iLo + 2 ^ (29 - k)) ∧
    2 * (fromCellID c).jLo + sizeIJ (fromCellID c).level = 2 * ((fromCellID c).jLo + 2 ^ (29 - k)) ∧
    (fromCellID c).iLo + 2 ^ (29 - k) ≤ 2 ^ 30 ∧ (fromCellID c).jLo + 2 ^ (29 - k) ≤ 2 ^ 30 ∧
    2 ^ (30 - k) = 2 * 2 ^ (29 - k) := by
  obtain ⟨hl, hs, -, hi, -, hj⟩ := cell_ij hc
  have e : 2 ^ (30 - k) = 2 * 2 ^ (29 - k) := by
    rw [show 30 - k = (29 - k) + 1 by omega, Nat.pow_succ]; ring
  rw [hl, hs, e]
  rw [e] at hi hj
  exact ⟨by ring, by ring, by omega, by omega, rfl⟩

theorem middle_eq {c : CellID} {k : Nat} (pre : Bool) (hc : IsCell c k) (hk : k < 30) (hpre : pre = true → k = 0) :
    middle (fromCellID c) cellPadding pre =
      ((padLoF ((fromCellID c).iLo + 2 ^ (29 - k)), padHiF ((fromCellID c).iLo + 2 ^ (29 - k))),
       (padLoF ((fromCellID c).jLo + 2 ^ (29 - k)), padHiF ((fromCellID c).jLo + 2 ^ (29 - k)))) := by
  obtain ⟨h1, h2, hm, hn, -⟩ := center_idx hc hk
  cases pre with
  | false => exact middle_false hm hn h1 h2
  | true =>
    have hk0 : k = 0 := hpre rfl
    subst hk0
    obtain ⟨-, -, hi, hi2, hj, hj2⟩ := cell_ij hc
    simp only [Nat.sub_zero] at hi2 hj2
    have ei : (fromCellID c).iLo = 0 := by omega
    have ej : (fromCellID c).jLo = 0 := by omega
    rw [ei, ej, middle_true]
    simp

/-- **`Middle()`**: values of the four float ends (`pre = true` is the preset face rectangle; only for level 0) -/
theorem middle_spec {c : CellID} {k : Nat} (pre : Bool) (hc : IsCell c k) (hk : k < 30) (hpre : pre = true → k = 0) :
    (Fin (middle (fromCellID c) cellPadding pre).1.1 ∧ Fin (middle (fromCellID c) cellPadding pre).1.2 ∧
     Fin (middle (fromCellID c) cellPadding pre).2.1 ∧ Fin (middle (fromCellID c) cellPadding pre).2.2) ∧
    rv (middle (fromCellID c) cellPadding pre).1.1 = rv (padLoF ((fromCellID c).iLo + 2 ^ (29 - k))) ∧
    rv (middle (fromCellID c) cellPadding pre).1.2 = rv (padHiF ((fromCellID c).iLo + 2 ^ (29 - k))) ∧
    rv (middle (fromCellID c) cellPadding pre).2.1 = rv (padLoF ((fromCellID c).jLo + 2 ^ (29 - k))) ∧
    rv (middle (fromCellID c) cellPadding pre).2.2 = rv (padHiF ((fromCellID c).jLo + 2 ^ (29 - k))) := by
  obtain ⟨-, -, hm, hn, -⟩ := center_idx hc hk
  rw [middle_eq pre hc hk hpre]
  exact ⟨⟨(padF_spec _ hm).1, (padF_spec _ hm).2.1, (padF_spec _ hn).1, (padF_spec _ hn).2.1⟩, rfl, rfl, rfl, rfl⟩

/-! ### the uv-rectangle of a cell and of its children -/

theorem cellMid_eq {c : CellID} {k : Nat} (hc : IsCell c k) (hk : k < 30) :
    cellUMid c = UG ((fromCellID c).iLo + 2 ^ (29 - k)) ∧ cellVMid c = UG ((fromCellID c).jLo + 2 ^ (29 - k)) ∧
    cellUHi c = UG ((fromCellID c).iLo + 2 ^ (30 - k)) ∧ cellVHi c = UG ((fromCellID c).jLo + 2 ^ (30 - k)) := by
  obtain ⟨hl, hs, -, -, -, -⟩ := cell_ij hc
  obtain ⟨-, -, -, -, e⟩ := center_idx hc hk
  have hh : 2 ^ (30 - k) / 2 = 2 ^ (29 - k) := by rw [e]; omega
  unfold cellUMid cellVMid cellUHi cellVHi
  rw [hl, hs, hh]
  exact ⟨rfl, rfl, rfl, rfl⟩

/-- the uv-rectangle of a child: lower half [lo, mid] for index 0, upper half [mid, hi] for index 1 -/
theorem cellRect_child {c : CellID} {k pos : Nat} (hc : IsCell c k) (hk : k < 30) (hpos : pos < 4) :
    (cellULo (child c pos) = if (childIJ (fromCellID c) pos).1 = 0 then cellULo c else cellUMid c) ∧
    (cellUHi (child c pos) = if (childIJ (fromCellID c) pos).1 = 0 then cellUMid c else cellUHi c) ∧
    (cellVLo (child c pos) = if (childIJ (fromCellID c) pos).2 = 0 then cellVLo c else cellVMid c) ∧
    (cellVHi (child c pos) = if (childIJ (fromCellID c) pos).2 = 0 then cellVMid c else cellVHi c) := by
  obtain ⟨hi, hj, hl, ei, ej⟩ := cell_child hc hk hpos
  obtain ⟨m1, m2, m3, m4⟩ := cellMid_eq hc hk
  obtain ⟨-, -, -, -, e⟩ := center_idx hc hk
  have hs : sizeIJ (k + 1) = 2 ^ (29 - k) := by
    rw [sizeIJ_eq]; congr 1; omega
  rw [m1, m2, m3, m4]
  unfold cellULo cellUHi cellVLo cellVHi
  rw [hl, hs, ei, ej]
  generalize (childIJ (fromCellID c) pos).1 = i at hi
  generalize (childIJ (fromCellID c) pos).2 = j at hj
  have hi' : i = 0 ∨ i = 1 := by omega
  have hj' : j = 0 ∨ j = 1 := by omega
  have e2 : ∀ a : Nat, a + 1 * 2 ^ (29 - k) + 2 ^ (29 - k) = a + 2 ^ (30 - k) := by
    intro a; rw [e]; ring
  refine ⟨?_, ?_, ?_, ?_⟩
  · rcases hi' with rfl | rfl
    · simp
    · simp
  · rcases hi' with rfl | rfl
    · simp
    · rw [e2]; simp
  · rcases hj' with rfl | rfl
    · simp
    · simp
  · rcases hj' with rfl | rfl
    · simp
    · rw [e2]; simp

theorem cellRect_order {c : CellID} {k : Nat} (hc : IsCell c k) (hk : k < 30) :
    cellULo c ≤ cellUMid c ∧ cellUMid c ≤ cellUHi c ∧ cellVLo c ≤ cellVMid c ∧ cellVMid c ≤ cellVHi c := by
  obtain ⟨m1, m2, m3, m4⟩ := cellMid_eq hc hk
  obtain ⟨-, -, hm, hn, e⟩ := center_idx hc hk
  obtain ⟨-, -, -, hi, -, hj⟩ := cell_ij hc
  rw [m1, m2, m3, m4]
  unfold cellULo cellVLo
  have hp := Nat.two_pow_pos (29 - k)
  exact ⟨UG_mono (by omega) hm, UG_mono (by omega) hi, UG_mono (by omega) hn, UG_mono (by omega) hj⟩

-- non-vacuity of the hypotheses: a face cell (the only level where `pre = true` is allowed), a level-14 cell with a
-- child position, and grid indices on both sides of the centre line
example : IsCell (0x1000000000000000 : CellID) 0 ∧ 0 < 30 ∧ ((true : Bool) = true → (0 : Nat) = 0) :=
  ⟨⟨by decide, by decide, by decide⟩, by decide, fun _ => rfl⟩
example : IsCell (0xb1b2d3c500000000 : CellID) 14 ∧ 14 < 30 ∧ 3 < 4 ∧ ((false : Bool) = true → (14 : Nat) = 0) :=
  ⟨⟨by decide, by decide, by decide⟩, by decide, by decide, fun h => by cases h⟩
example : (5 : Nat) < 2 ^ 29 ∧ 2 ^ 29 < 2 ^ 29 + 7 ∧ 2 ^ 29 + 7 ≤ 2 ^ 30 := by decide

#print axioms UG_mono
#print axioms UG_gap
#print axioms UG_ge
#print axioms UG_le
#print axioms UG_half
#print axioms UG_fin
#print axioms le_iff_rv
#print axioms lt_iff_rv
#print axioms ge_iff_rv
#print axioms gt_iff_rv
#print axioms fin_not_nan
#print axioms padF_spec
#print axioms padLoF_mono
#print axioms padHiF_mono
#print axioms padF_abs_ge
#print axioms cell_ij
#print axioms cell_child
#print axioms middle_eq
#print axioms middle_spec
#print axioms cellMid_eq
#print axioms cellRect_child
#print axioms cellRect_order

end S2Proofs.C06Clip
