/-
  S2Proofs.C06Clip.ClipReal — real-arithmetic helpers for the clipping analysis:
    * `rv` of `fmin / fmax / Ivl.clampPoint` on finite floats
    * `float_gap` : two different finite floats one of which is not tiny are at least `2^-200` apart
    * `slope_*`   : on which side of the exact interpolated value the points of a segment lie
-/
import S2Proofs.C06Clip.Defs
import S2Proofs.C06Clip.CellGeom
import S2Proofs.F64Carrier
import S2Proofs.C12.MarginRound

namespace S2Proofs.C06Clip
open S2 S2.CellID S2.Hilbert S2.PaddedCellM S2.IndexBuild S2Proofs.F64Order S2Proofs.C06BuildH S2.Exact

theorem rv_def (x : F64) : rv x = (toInt x : ℝ) / 2 ^ 1074 := rfl

theorem rv_le_of_toInt_le {x y : F64} (h : toInt x ≤ toInt y) : rv x ≤ rv y := by
  rw [rv_def, rv_def]
  exact div_le_div_of_nonneg_right (by exact_mod_cast h) (by positivity)

theorem rv_fmax {x y : F64} (hx : Fin x) (hy : Fin y) :
    Fin (F64.fmax x y) ∧ rv (F64.fmax x y) = max (rv x) (rv y) := by
  obtain ⟨hor, hkey⟩ := F64Carrier.fmax_spec (F64Carrier.nn_of_fin hx) (F64Carrier.nn_of_fin hy)
  have hf : Fin (F64.fmax x y) := by rcases hor with h | h <;> rw [h] <;> assumption
  refine ⟨hf, ?_⟩
  rw [F64Carrier.key_fin hf, F64Carrier.key_fin hx, F64Carrier.key_fin hy] at hkey
  rcases le_total (toInt x) (toInt y) with h | h
  · rw [max_eq_right h] at hkey
    rw [max_eq_right (rv_le_of_toInt_le h), rv_def, rv_def, hkey]
  · rw [max_eq_left h] at hkey
    rw [max_eq_left (rv_le_of_toInt_le h), rv_def, rv_def, hkey]

theorem rv_fmin {x y : F64} (hx : Fin x) (hy : Fin y) :
    Fin (F64.fmin x y) ∧ rv (F64.fmin x y) = min (rv x) (rv y) := by
  obtain ⟨hor, hkey⟩ := F64Carrier.fmin_spec (F64Carrier.nn_of_fin hx) (F64Carrier.nn_of_fin hy)
  have hf : Fin (F64.fmin x y) := by rcases hor with h | h <;> rw [h] <;> assumption
  refine ⟨hf, ?_⟩
  rw [F64Carrier.key_fin hf, F64Carrier.key_fin hx, F64Carrier.key_fin hy] at hkey
  rcases le_total (toInt x) (toInt y) with h | h
  · rw [min_eq_left h] at hkey
    rw [min_eq_left (rv_le_of_toInt_le h), rv_def, rv_def, hkey]
  · rw [min_eq_right h] at hkey
    rw [min_eq_right (rv_le_of_toInt_le h), rv_def, rv_def, hkey]

/-- `r1.Interval.ClampPoint` on finite floats: finite, and its value is the real clamp -/
theorem rv_clampPoint (i : CellM.Ivl) (p : F64) (h1 : Fin i.1) (h2 : Fin i.2) (hp : Fin p) :
    Fin (Ivl.clampPoint i p) ∧ rv (Ivl.clampPoint i p) = max (rv i.1) (min (rv i.2) (rv p)) := by
  unfold Ivl.clampPoint
  obtain ⟨f1, e1⟩ := rv_fmin h2 hp
  obtain ⟨f2, e2⟩ := rv_fmax h1 f1
  exact ⟨f2, by rw [e2, e1]⟩

/-! ### floats are not dense -/

set_option exponentiation.threshold 2100 in
/-- two finite floats `a < x` with `|x| ≥ 2^-49` differ by at least `2^-200` -/
theorem float_gap_lt {a x : F64} (hlt : rv a < rv x) (hx : 1 / 2 ^ 49 ≤ |rv x|) :
    1 / 2 ^ 200 ≤ rv x - rv a := by
  have hlt' : toInt a < toInt x := by
    rw [rv_def, rv_def, div_lt_div_iff_of_pos_right (by positivity)] at hlt
    exact_mod_cast hlt
  -- |toInt x| ≥ 2^1025
  have hX : (2 : Int) ^ 1025 ≤ |toInt x| := by
    rw [rv_def, abs_div, abs_of_pos (by positivity : (0 : ℝ) < 2 ^ 1074), le_div_iff₀ (by positivity)] at hx
    have e : (1 : ℝ) / 2 ^ 49 * 2 ^ 1074 = 2 ^ 1025 := by
      rw [show (2 : ℝ) ^ 1074 = 2 ^ 49 * 2 ^ 1025 by rw [← pow_add]]; field_simp
    rw [e] at hx
    have : ((2 : Int) ^ 1025 : ℝ) ≤ ((|toInt x| : Int) : ℝ) := by
      rw [Int.cast_abs]; push_cast; exact hx
    exact_mod_cast this
  obtain ⟨n, hn⟩ := S2Proofs.C12M.toInt_dvd_of_le x 1024 (by decide)
    (le_trans (by norm_num : (2 : Int) ^ 1024 ≤ 2 ^ 1025) hX)
  simp only [show 1024 - 52 = 972 from rfl] at hn
  -- the difference of the integers is at least 2^972
  have key : (2 : Int) ^ 972 ≤ toInt x - toInt a := by
    by_cases hA : (2 : Int) ^ 1024 ≤ |toInt a|
    · obtain ⟨m, hm⟩ := S2Proofs.C12M.toInt_dvd_of_le a 1024 (by decide) hA
      simp only [show 1024 - 52 = 972 from rfl] at hm
      rw [hn, hm] at hlt' ⊢
      have hp : (0 : Int) < 2 ^ 972 := by positivity
      have hmn : m < n := by
        by_contra hc
        have : n * 2 ^ 972 ≤ m * 2 ^ 972 := Int.mul_le_mul_of_nonneg_right (not_lt.mp hc) (le_of_lt hp)
        omega
      have : (m + 1) * 2 ^ 972 ≤ n * 2 ^ 972 := Int.mul_le_mul_of_nonneg_right (by omega) (le_of_lt hp)
      have e : (m + 1) * (2 : Int) ^ 972 = m * 2 ^ 972 + 2 ^ 972 := by ring
      omega
    · have hA' : |toInt a| < (2 : Int) ^ 1024 := not_le.mp hA
      have e : (2 : Int) ^ 1025 = 2 * 2 ^ 1024 := by norm_num
      have h972 : (2 : Int) ^ 972 ≤ 2 ^ 1024 := by norm_num
      rcases abs_cases (toInt x) with ⟨hx1, _⟩ | ⟨hx1, _⟩ <;> rcases abs_cases (toInt a) with ⟨ha1, _⟩ | ⟨ha1, _⟩ <;>
        omega
  have : ((2 : Int) ^ 972 : ℝ) ≤ ((toInt x - toInt a : Int) : ℝ) := by exact_mod_cast key
  rw [rv_def, rv_def, ← sub_div, le_div_iff₀ (by positivity)]
  push_cast at this
  have e2 : (1 : ℝ) / 2 ^ 200 * 2 ^ 1074 = 2 ^ 874 := by
    rw [show (2 : ℝ) ^ 1074 = 2 ^ 200 * 2 ^ 874 by rw [← pow_add]]; field_simp
  rw [e2]
  have : (2 : ℝ) ^ 874 ≤ 2 ^ 972 := pow_le_pow_right₀ (by norm_num) (by norm_num)
  linarith

/-- the same with `x < b` -/
theorem float_gap_gt {b x : F64} (hlt : rv x < rv b) (hx : 1 / 2 ^ 49 ≤ |rv x|) :
    1 / 2 ^ 200 ≤ rv b - rv x := by
  have h1 : rv (F64.neg b) < rv (F64.neg x) := by
    rw [show rv (F64.neg b) = - rv b from S2Proofs.FloatErr.val_neg b,
        show rv (F64.neg x) = - rv x from S2Proofs.FloatErr.val_neg x]
    linarith
  have h2 : 1 / 2 ^ 49 ≤ |rv (F64.neg x)| := by
    rw [show rv (F64.neg x) = - rv x from S2Proofs.FloatErr.val_neg x, abs_neg]; exact hx
  have := float_gap_lt h1 h2
  rw [show rv (F64.neg b) = - rv b from S2Proofs.FloatErr.val_neg b,
      show rv (F64.neg x) = - rv x from S2Proofs.FloatErr.val_neg x] at this
  linarith

/-! ### the side of the exact interpolated value -/

/-- the deviation of the secondary coordinate from the interpolated value is the slope times the deviation of the
    primary coordinate -/
theorem seg_dev (p p' q q' x t : ℝ) (hp : p' - p ≠ 0) :
    ((q + t * (q' - q)) - (q + (q' - q) * (x - p) / (p' - p))) * (p' - p) ^ 2 =
      ((q' - q) * (p' - p)) * ((p + t * (p' - p)) - x) := by
  field_simp
  ring

theorem slope_le_of_nonneg (p p' q q' x t : ℝ) (hp : p' - p ≠ 0) (hs : 0 ≤ (q' - q) * (p' - p))
    (hu : p + t * (p' - p) ≤ x) : q + t * (q' - q) ≤ q + (q' - q) * (x - p) / (p' - p) := by
  have h := seg_dev p p' q q' x t hp
  have h2 : 0 < (p' - p) ^ 2 := by positivity
  have h3 : ((q' - q) * (p' - p)) * ((p + t * (p' - p)) - x) ≤ 0 :=
    mul_nonpos_of_nonneg_of_nonpos hs (by linarith)
  by_contra hc
  have : 0 < ((q + t * (q' - q)) - (q + (q' - q) * (x - p) / (p' - p))) * (p' - p) ^ 2 :=
    mul_pos (by linarith) h2
  linarith

theorem slope_ge_of_nonneg (p p' q q' x t : ℝ) (hp : p' - p ≠ 0) (hs : 0 ≤ (q' - q) * (p' - p))
    (hu : x ≤ p + t * (p' - p)) : q + (q' - q) * (x - p) / (p' - p) ≤ q + t * (q' - q) := by
  have h := seg_dev p p' q q' x t hp
  have h2 : 0 < (p' - p) ^ 2 := by positivity
  have h3 : 0 ≤ ((q' - q) * (p' - p)) * ((p + t * (p' - p)) - x) := mul_nonneg hs (by linarith)
  by_contra hc
  have : ((q + t * (q' - q)) - (q + (q' - q) * (x - p) / (p' - p))) * (p' - p) ^ 2 < 0 :=
    mul_neg_of_neg_of_pos (by linarith) h2
  linarith

theorem slope_ge_of_nonpos (p p' q q' x t : ℝ) (hp : p' - p ≠ 0) (hs : (q' - q) * (p' - p) ≤ 0)
    (hu : p + t * (p' - p) ≤ x) : q + (q' - q) * (x - p) / (p' - p) ≤ q + t * (q' - q) := by
  have h := seg_dev p p' q q' x t hp
  have h2 : 0 < (p' - p) ^ 2 := by positivity
  have h3 : 0 ≤ ((q' - q) * (p' - p)) * ((p + t * (p' - p)) - x) :=
    mul_nonneg_of_nonpos_of_nonpos hs (by linarith)
  by_contra hc
  have : ((q + t * (q' - q)) - (q + (q' - q) * (x - p) / (p' - p))) * (p' - p) ^ 2 < 0 :=
    mul_neg_of_neg_of_pos (by linarith) h2
  linarith

theorem slope_le_of_nonpos (p p' q q' x t : ℝ) (hp : p' - p ≠ 0) (hs : (q' - q) * (p' - p) ≤ 0)
    (hu : x ≤ p + t * (p' - p)) : q + t * (q' - q) ≤ q + (q' - q) * (x - p) / (p' - p) := by
  have h := seg_dev p p' q q' x t hp
  have h2 : 0 < (p' - p) ^ 2 := by positivity
  have h3 : ((q' - q) * (p' - p)) * ((p + t * (p' - p)) - x) ≤ 0 :=
    mul_nonpos_of_nonpos_of_nonneg hs (by linarith)
  by_contra hc
  have : 0 < ((q + t * (q' - q)) - (q + (q' - q) * (x - p) / (p' - p))) * (p' - p) ^ 2 :=
    mul_pos (by linarith) h2
  linarith

/-- a convex combination lies between the two ends -/
theorem seg_between (p p' t : ℝ) (h0 : 0 ≤ t) (h1 : t ≤ 1) :
    min p p' ≤ p + t * (p' - p) ∧ p + t * (p' - p) ≤ max p p' := by
  rcases le_total p p' with h | h
  · rw [min_eq_left h, max_eq_right h]
    constructor <;> nlinarith
  · rw [min_eq_right h, max_eq_left h]
    constructor <;> nlinarith

end S2Proofs.C06Clip
