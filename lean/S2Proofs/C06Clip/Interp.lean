/-
  S2Proofs.C06Clip.Interp — floating-point error analysis of `interpolateFloat64` (s2/edge_clipping.go)

      interpolateFloat64(x, a, b, a1, b1) =
        a1                                   if a == b
        a1 + (b1 - a1) * (x - a) / (b - a)   if |a - x| <= |b - x|
        b1 + (a1 - b1) * (x - b) / (a - b)   otherwise

  * `interpolateFloat64_err_pad`  (P1) coordinates in the padded face `[-(1+2^-40), 1+2^-40]`: error ≤ 3·dblEps + 2^-80
  * `interpolateFloat64_err`      (P2) coordinates in `[-1,1]`: error ≤ 2.25·dblEps + 2^-100
                                  (the documented `edgeClipErrorUVCoord`)
  * `interpolateFloat64_at_a/_at_b` (P3) exact at the endpoints

  Layers: (1) binade-aware absolute rounding error (`isRound_grid_err`: `|Q| ≤ 2^g·2^-1021 → |fl Q − Q| ≤ 2^g·2^-1075`),
  (2) float steps in ℝ (`RStep`), (3) pure real error analysis (`quot_core`, `key_sum`), (4) the float theorems.
-/
import S2Proofs.C06Clip.Defs
import S2Proofs.F64Round
import S2Proofs.C12Dist.EdgeErr
import Mathlib.Tactic.Ring
import Mathlib.Tactic.Linarith
import Mathlib.Tactic.Positivity
import Mathlib.Tactic.NormNum
import Mathlib.Tactic.FieldSimp

set_option linter.unusedSimpArgs false
set_option linter.unusedVariables false

/-! ### (1) binade-aware absolute error of correct rounding -/

namespace S2Proofs.C06Clip
open S2 S2.Exact S2Proofs.F64Order S2Proofs.F64Round

/-- values of at most `2^53` grid steps of size `2^g` units are rounded with an error of at most half a grid step -/
theorem rmag_grid_err (N D g : Nat) (hD : 0 < D) (hN : N ≤ 2 ^ 53 * (D * 2 ^ g)) :
    2 * (rmag N D * D) ≤ 2 * N + D * 2 ^ g ∧ 2 * N ≤ 2 * (rmag N D * D) + D * 2 ^ g := by
  have hM : 0 < D * 2 ^ g := Nat.mul_pos hD (Nat.two_pow_pos _)
  have hm : rhe N (D * 2 ^ g) ≤ 2 ^ 53 := by
    have := rhe_mono N (2 ^ 53 * (D * 2 ^ g)) (D * 2 ^ g) hM hN
    rwa [rhe_exact _ _ hM] at this
  have hrep : Rep (rhe N (D * 2 ^ g) * 2 ^ g) := by
    rcases Nat.lt_or_ge (rhe N (D * 2 ^ g)) (2 ^ 53) with h | h
    · exact ⟨_, _, h, rfl⟩
    · have e : rhe N (D * 2 ^ g) = 2 ^ 53 := Nat.le_antisymm hm h
      refine ⟨2 ^ 52, g + 1, by decide, ?_⟩
      rw [e, Nat.pow_succ]; ring
  have hn := rmag_nearest N D hD _ hrep
  have he := rhe_err N (D * 2 ^ g) hM
  have e : rhe N (D * 2 ^ g) * 2 ^ g * D = rhe N (D * 2 ^ g) * (D * 2 ^ g) := by ring
  rw [e] at hn
  rw [← Int.natCast_natAbs, ← Int.natCast_natAbs] at hn
  generalize rmag N D * D = A at *
  generalize rhe N (D * 2 ^ g) * (D * 2 ^ g) = B at *
  generalize D * 2 ^ g = C at *
  omega

theorem rint_grid_err (s : Int) (D g : Nat) (hD : 0 < D) (h : rmag s.natAbs D < 2 ^ 2098)
    (hs : s.natAbs ≤ 2 ^ 53 * (D * 2 ^ g)) : 2 * |rint s D * D - s| ≤ ((D * 2 ^ g : Nat) : Int) := by
  have hk := rmag_grid_err s.natAbs D g hD hs
  rw [rint_eq_of_lt s D h]
  obtain ⟨e1, e2⟩ := hk
  generalize rmag s.natAbs D = R at *
  generalize D * 2 ^ g = C at *
  have e1' : ((2 * (R * D) : Nat) : Int) ≤ ((2 * s.natAbs + C : Nat) : Int) := by exact_mod_cast e1
  have e2' : ((2 * s.natAbs : Nat) : Int) ≤ ((2 * (R * D) + C : Nat) : Int) := by exact_mod_cast e2
  have e : (if s < 0 then -(R : Int) else (R : Int)) * D = (if s < 0 then -((R : Int) * D) else (R : Int) * D) := by
    split <;> ring
  rw [e]
  simp only [Int.natCast_mul, Int.natCast_add, Nat.cast_ofNat] at e1' e2'
  generalize (R : Int) * D = a at *
  rw [← Int.natCast_natAbs]
  split <;> omega

set_option exponentiation.threshold 2100 in
/-- **binade-aware absolute error**: a finite correctly rounded image of `Q`, `|Q| ≤ 2^g · 2^-1021`, is within
    `2^g · 2^-1075` of `Q` (`g = 1021`: `|Q| ≤ 1 → 2^-54`; `g = 1022`: `|Q| ≤ 2 → 2^-53`) -/
theorem isRound_grid_err {r : F64} {Q : ℚ} (h : IsRound r Q) (hf : F64Order.Fin r) (g : Nat)
    (hQ : |Q| ≤ 2 ^ g / 2 ^ 1021) : |val r - Q| ≤ 2 ^ g / 2 ^ 1075 := by
  obtain ⟨s, D, hD, hQe, ht, hlt⟩ := h.int_form hf
  have hDU : (0 : ℚ) < (D : ℚ) * U := by have := U_pos; positivity
  have hs : s.natAbs ≤ 2 ^ 53 * (D * 2 ^ g) := by
    rw [abs_Q_eq hD hQe, div_le_div_iff₀ hDU (by positivity)] at hQ
    have hU : U = 2 ^ 53 * 2 ^ 1021 := by unfold U; rw [← pow_add]
    have h2 : ((|s| : Int) : ℚ) ≤ 2 ^ 53 * (D * 2 ^ g) := by
      have h1021 : (0 : ℚ) < 2 ^ 1021 := by positivity
      have : ((|s| : Int) : ℚ) * 2 ^ 1021 ≤ (2 ^ 53 * (D * 2 ^ g)) * 2 ^ 1021 := by
        calc ((|s| : Int) : ℚ) * 2 ^ 1021 ≤ 2 ^ g * ((D : ℚ) * U) := hQ
          _ = (2 ^ 53 * (D * 2 ^ g)) * 2 ^ 1021 := by rw [hU]; ring
      exact le_of_mul_le_mul_right this h1021
    have h3 : ((s.natAbs : Nat) : ℚ) ≤ ((2 ^ 53 * (D * 2 ^ g) : Nat) : ℚ) := by
      push_cast
      rw [Nat.cast_natAbs]
      exact h2
    exact_mod_cast h3
  have hi := rint_grid_err s D g hD hlt hs
  rw [abs_val_sub_eq r hD hQe, div_le_div_iff₀ hDU (by positivity), ht]
  have hi' : ((2 * |rint s D * D - s| : Int) : ℚ) ≤ (((D * 2 ^ g : Nat) : Int) : ℚ) := by exact_mod_cast hi
  have hU : U * 2 = 2 ^ 1075 := by unfold U; rw [← pow_succ]
  push_cast at hi' ⊢
  calc |(rint s D : ℚ) * D - s| * 2 ^ 1075 = (2 * |(rint s D : ℚ) * D - s|) * U := by rw [← hU]; ring
    _ ≤ ((D : ℚ) * 2 ^ g) * U := mul_le_mul_of_nonneg_right hi' (le_of_lt U_pos)
    _ = 2 ^ g * ((D : ℚ) * U) := by ring

end S2Proofs.C06Clip

namespace S2Proofs.C06Clip
open S2 S2.Exact S2.IndexBuild S2Proofs.F64Order S2Proofs.FloatErr

/-! ### (2) float steps in ℝ -/

/-- what a finite correctly rounded result `y` of the exact real `X` satisfies -/
structure RStep (X y : ℝ) : Prop where
  rel : |y - X| ≤ uR * |X| + eR
  g1 : |X| ≤ 1 → |y - X| ≤ 1 / 2 ^ 54
  g2 : |X| ≤ 2 → |y - X| ≤ 1 / 2 ^ 53

theorem rv_cast (x : F64) : rv x = ((F64Round.val x : ℚ) : ℝ) := S2Proofs.C12Dist.CellOK.val_bridge x

theorem abs_cast_le {Q c : ℚ} (h : |(Q : ℝ)| ≤ (c : ℝ)) : |Q| ≤ c := by
  have : ((|Q| : ℚ) : ℝ) ≤ ((c : ℚ) : ℝ) := by rw [Rat.cast_abs]; exact h
  exact_mod_cast this

theorem cast_abs_le {Q c : ℚ} (h : |Q| ≤ c) : |(Q : ℝ)| ≤ (c : ℝ) := by
  have : ((|Q| : ℚ) : ℝ) ≤ ((c : ℚ) : ℝ) := Rat.cast_le.mpr h
  rwa [Rat.cast_abs] at this

set_option exponentiation.threshold 2100 in
theorem rstep {r : F64} {Q : ℚ} (h : F64Round.IsRound r Q) (hb : |(Q : ℝ)| ≤ 2 ^ 30) :
    Fin r ∧ RStep (Q : ℝ) (rv r) := by
  obtain ⟨hf, hr, _⟩ := S2Proofs.C12Dist.EdgeErr.round_step h hb
  refine ⟨hf, ⟨hr, fun h1 => ?_, fun h2 => ?_⟩⟩
  · have hq : |Q| ≤ 2 ^ 1021 / 2 ^ 1021 := by
      rw [div_self (by positivity)]; exact abs_cast_le (by push_cast; exact h1)
    have := cast_abs_le (isRound_grid_err h hf 1021 hq)
    rw [rv_cast]
    push_cast at this
    have e : (2 : ℝ) ^ 1021 / 2 ^ 1075 = 1 / 2 ^ 54 := by
      rw [show (2 : ℝ) ^ 1075 = 2 ^ 1021 * 2 ^ 54 by rw [← pow_add]]; field_simp
    rw [e] at this; exact this
  · have hq : |Q| ≤ 2 ^ 1022 / 2 ^ 1021 := by
      have e : (2 : ℚ) ^ 1022 / 2 ^ 1021 = 2 := by
        rw [show (2 : ℚ) ^ 1022 = 2 ^ 1021 * 2 by rw [← pow_succ]]; field_simp
      rw [e]; exact abs_cast_le (by push_cast; exact h2)
    have := cast_abs_le (isRound_grid_err h hf 1022 hq)
    rw [rv_cast]
    push_cast at this
    have e : (2 : ℝ) ^ 1022 / 2 ^ 1075 = 1 / 2 ^ 53 := by
      rw [show (2 : ℝ) ^ 1075 = 2 ^ 1022 * 2 ^ 53 by rw [← pow_add]]; field_simp
    rw [e] at this; exact this

/-- subtraction: additionally the relative error has no underflow term -/
theorem subR {x y : F64} (hx : Fin x) (hy : Fin y) (hb : |rv x - rv y| ≤ 2 ^ 30) :
    Fin (x - y) ∧ RStep (rv x - rv y) (rv (x - y)) ∧ |rv (x - y) - (rv x - rv y)| ≤ uR * |rv x - rv y| := by
  have e : ((F64Round.val x - F64Round.val y : ℚ) : ℝ) = rv x - rv y := by
    push_cast; rw [← rv_cast, ← rv_cast]
  obtain ⟨hf, hs⟩ := rstep (F64Round.isRound_sub hx hy) (by rw [e]; exact hb)
  rw [e] at hs
  refine ⟨hf, hs, ?_⟩
  have h0 := cast_abs_le (F64Round.sub_rel_err hx hy hf)
  push_cast at h0
  simp only [← rv_cast] at h0
  show |rv (F64.sub x y) - (rv x - rv y)| ≤ uR * |rv x - rv y|
  unfold uR
  have e2 : |rv x - rv y| / 2 ^ 53 = 1 / 2 ^ 53 * |rv x - rv y| := by ring
  linarith

theorem addR {x y : F64} (hx : Fin x) (hy : Fin y) (hb : |rv x + rv y| ≤ 2 ^ 30) :
    Fin (x + y) ∧ RStep (rv x + rv y) (rv (x + y)) ∧ |rv (x + y) - (rv x + rv y)| ≤ uR * |rv x + rv y| := by
  have e : ((F64Round.val x + F64Round.val y : ℚ) : ℝ) = rv x + rv y := by
    push_cast; rw [← rv_cast, ← rv_cast]
  obtain ⟨hf, hs⟩ := rstep (F64Round.isRound_add hx hy) (by rw [e]; exact hb)
  rw [e] at hs
  refine ⟨hf, hs, ?_⟩
  have h0 := cast_abs_le (F64Round.add_rel_err hx hy hf)
  push_cast at h0
  simp only [← rv_cast] at h0
  show |rv (F64.add x y) - (rv x + rv y)| ≤ uR * |rv x + rv y|
  unfold uR
  have e2 : |rv x + rv y| / 2 ^ 53 = 1 / 2 ^ 53 * |rv x + rv y| := by ring
  linarith

theorem mulR {x y : F64} (hx : Fin x) (hy : Fin y) (hb : |rv x * rv y| ≤ 2 ^ 30) :
    Fin (x * y) ∧ RStep (rv x * rv y) (rv (x * y)) := by
  have e : ((F64Round.val x * F64Round.val y : ℚ) : ℝ) = rv x * rv y := by
    push_cast; rw [← rv_cast, ← rv_cast]
  obtain ⟨hf, hs⟩ := rstep (F64Round.isRound_mul hx hy) (by rw [e]; exact hb)
  rw [e] at hs
  exact ⟨hf, hs⟩

theorem divR {x y : F64} (hx : Fin x) (hy : Fin y) (hy0 : rv y ≠ 0) (hb : |rv x / rv y| ≤ 2 ^ 30) :
    Fin (x / y) ∧ RStep (rv x / rv y) (rv (x / y)) := by
  have hz : y.isZero = false := S2Proofs.FE2.isZero_false_of_val_ne hy0
  have e : ((F64Round.val x / F64Round.val y : ℚ) : ℝ) = rv x / rv y := by
    push_cast; rw [← rv_cast, ← rv_cast]
  obtain ⟨hf, hs⟩ := rstep (F64Round.isRound_div hx hy hz) (by rw [e]; exact hb)
  rw [e] at hs
  exact ⟨hf, hs⟩

/-! ### (3) pure real error analysis -/

theorem abs5 (a b c d e : ℝ) : |a + b + c + d - e| ≤ |a| + |b| + |c| + |d| + |e| := by
  rw [abs_le]
  constructor <;>
    linarith [neg_abs_le a, le_abs_self a, neg_abs_le b, le_abs_self b, neg_abs_le c, le_abs_self c,
      neg_abs_le d, le_abs_self d, neg_abs_le e, le_abs_self e]

theorem le_of_mul_le {u A c G : ℝ} (hu : u < 1) (h : (1 - u) * A ≤ G) (hc : G ≤ (1 - u) * c) : A ≤ c :=
  le_of_mul_le_mul_left (h.trans hc) (by linarith)

/-- the computed quotient `p / d2` against the exact `Δ·t`, `t = (x-a)/(b-a)`, `w = b-a`:
    `d1 ≈ t·w`, `d2 ≈ w` (relative `u`), `D ≈ Δ` (absolute `eD`), `p ≈ D·d1` (relative `u`, absolute `η`) -/
theorem quot_core {u η t w Δ d1 d2 D p eD : ℝ} (hu0 : 0 ≤ u) (hu1 : u < 1) (ht : 0 ≤ t) (heD : 0 ≤ eD)
    (hw : w ≠ 0)
    (h1 : |d1 - t * w| ≤ u * (t * |w|)) (h2 : |d2 - w| ≤ u * |w|) (h3 : |D - Δ| ≤ eD)
    (h4 : |p - D * d1| ≤ u * |D * d1| + η) :
    d2 ≠ 0 ∧
    (1 - u) * |p / d2 - Δ * t| ≤ |Δ| * t * (3 * u + u ^ 2) + eD * t * (1 + u) ^ 2 + η / |w| := by
  have hW : 0 < |w| := abs_pos.mpr hw
  have hd2 : (1 - u) * |w| ≤ |d2| := by
    have := abs_sub_abs_le_abs_sub w d2
    rw [abs_sub_comm] at this
    linarith
  have hd2pos : 0 < |d2| := lt_of_lt_of_le (mul_pos (by linarith) hW) hd2
  have hd2ne : d2 ≠ 0 := abs_pos.mp hd2pos
  refine ⟨hd2ne, ?_⟩
  have hD : |D| ≤ |Δ| + eD := by
    have := abs_sub_abs_le_abs_sub D Δ; linarith
  have etw : |t * w| = t * |w| := by rw [abs_mul, abs_of_nonneg ht]
  have hd1 : |d1| ≤ t * |w| * (1 + u) := by
    have := abs_sub_abs_le_abs_sub d1 (t * w)
    rw [etw] at this; linarith
  have htW : 0 ≤ t * |w| := mul_nonneg ht hW.le
  have hDd1 : |D * d1| ≤ (|Δ| + eD) * (t * |w| * (1 + u)) := by
    rw [abs_mul]
    exact mul_le_mul hD hd1 (abs_nonneg _) (by positivity)
  have hN : p - Δ * t * d2 = (p - D * d1) + (D - Δ) * (d1 - t * w) + (D - Δ) * (t * w) + Δ * (d1 - t * w)
      - Δ * t * (d2 - w) := by ring
  have b1 : |(D - Δ) * (d1 - t * w)| ≤ eD * (u * (t * |w|)) := by
    rw [abs_mul]; exact mul_le_mul h3 h1 (abs_nonneg _) heD
  have b2 : |(D - Δ) * (t * w)| ≤ eD * (t * |w|) := by
    rw [abs_mul, etw]; exact mul_le_mul_of_nonneg_right h3 htW
  have b3 : |Δ * (d1 - t * w)| ≤ |Δ| * (u * (t * |w|)) := by
    rw [abs_mul]; exact mul_le_mul_of_nonneg_left h1 (abs_nonneg _)
  have b4 : |Δ * t * (d2 - w)| ≤ |Δ| * t * (u * |w|) := by
    rw [abs_mul, abs_mul, abs_of_nonneg ht]
    exact mul_le_mul_of_nonneg_left h2 (mul_nonneg (abs_nonneg _) ht)
  have b0 : u * |D * d1| ≤ u * ((|Δ| + eD) * (t * |w| * (1 + u))) := mul_le_mul_of_nonneg_left hDd1 hu0
  have hNb : |p - Δ * t * d2| ≤ |w| * (|Δ| * t * (3 * u + u ^ 2) + eD * t * (1 + u) ^ 2) + η := by
    rw [hN]
    have := abs5 (p - D * d1) ((D - Δ) * (d1 - t * w)) ((D - Δ) * (t * w)) (Δ * (d1 - t * w)) (Δ * t * (d2 - w))
    have e : |w| * (|Δ| * t * (3 * u + u ^ 2) + eD * t * (1 + u) ^ 2) + η =
        u * ((|Δ| + eD) * (t * |w| * (1 + u))) + η + eD * (u * (t * |w|)) + eD * (t * |w|) + |Δ| * (u * (t * |w|))
          + |Δ| * t * (u * |w|) := by ring
    rw [e]; linarith
  have hq : p / d2 - Δ * t = (p - Δ * t * d2) / d2 := by field_simp
  have hA : |p / d2 - Δ * t| * |d2| = |p - Δ * t * d2| := by
    rw [hq, abs_div, div_mul_cancel₀ _ hd2pos.ne']
  have hA0 : 0 ≤ |p / d2 - Δ * t| := abs_nonneg _
  have hmul : ((1 - u) * |p / d2 - Δ * t|) * |w| ≤
      (|Δ| * t * (3 * u + u ^ 2) + eD * t * (1 + u) ^ 2 + η / |w|) * |w| := by
    have e : (|Δ| * t * (3 * u + u ^ 2) + eD * t * (1 + u) ^ 2 + η / |w|) * |w| =
        |w| * (|Δ| * t * (3 * u + u ^ 2) + eD * t * (1 + u) ^ 2) + η := by
      field_simp
    rw [e]
    calc ((1 - u) * |p / d2 - Δ * t|) * |w| = |p / d2 - Δ * t| * ((1 - u) * |w|) := by ring
      _ ≤ |p / d2 - Δ * t| * |d2| := mul_le_mul_of_nonneg_left hd2 hA0
      _ = |p - Δ * t * d2| := hA
      _ ≤ _ := hNb
  exact le_of_mul_le_mul_right hmul hW

/-- from the (rounded) branch test to the parameter: `t = (x-a)/(b-a) ∈ [0, (1+u)/2]` -/
theorem t_bound {u x a b : ℝ} (hu0 : 0 ≤ u) (hbtw : (a ≤ x ∧ x ≤ b) ∨ (b ≤ x ∧ x ≤ a)) (hne : b - a ≠ 0)
    (h : (1 - u) * |a - x| ≤ (1 + u) * |b - x|) :
    0 ≤ (x - a) / (b - a) ∧ (x - a) / (b - a) ≤ (1 + u) / 2 ∧ x - a = (x - a) / (b - a) * (b - a) := by
  refine ⟨?_, ?_, by field_simp⟩
  · rcases hbtw with ⟨h1, h2⟩ | ⟨h1, h2⟩
    · exact div_nonneg (by linarith) (by linarith)
    · exact div_nonneg_of_nonpos (by linarith) (by linarith)
  · rcases hbtw with ⟨h1, h2⟩ | ⟨h1, h2⟩
    · have hpos : 0 < b - a := lt_of_le_of_ne (by linarith) (Ne.symm hne)
      rw [abs_of_nonpos (by linarith), abs_of_nonneg (by linarith)] at h
      rw [div_le_iff₀ hpos]
      nlinarith
    · have hneg : b - a < 0 := lt_of_le_of_ne (by linarith) hne
      rw [abs_of_nonneg (by linarith), abs_of_nonpos (by linarith)] at h
      rw [div_le_iff_of_neg hneg]
      nlinarith

/-- the exact value is a convex combination -/
theorem conv_bound {a1 b1 t M : ℝ} (ha : |a1| ≤ M) (hb : |b1| ≤ M) (h0 : 0 ≤ t) (h1 : t ≤ 1) :
    |a1 + (b1 - a1) * t| ≤ M := by
  have e : a1 + (b1 - a1) * t = (1 - t) * a1 + t * b1 := by ring
  rw [e]
  have h2 := abs_add_le ((1 - t) * a1) (t * b1)
  rw [abs_mul, abs_mul, abs_of_nonneg h0, abs_of_nonneg (by linarith : 0 ≤ 1 - t)] at h2
  have h3 : (1 - t) * |a1| ≤ (1 - t) * M := mul_le_mul_of_nonneg_left ha (by linarith)
  have h4 : t * |b1| ≤ t * M := mul_le_mul_of_nonneg_left hb h0
  linarith

/-- **key**: for `t ≤ (1+u)/2` the exact value `v = a1 + Δt` and the increment `T = Δt` cannot both be large -/
theorem key_sum {a1 b1 t u : ℝ} (ha : |a1| ≤ 1) (hb : |b1| ≤ 1) (h0 : 0 ≤ t) (h1 : t ≤ (1 + u) / 2) (hu : 0 ≤ u) :
    |a1 + (b1 - a1) * t| + |(b1 - a1) * t| ≤ 1 + 2 * u := by
  have hα : |a1 * (1 - 2 * t)| ≤ |1 - 2 * t| := by
    rw [abs_mul]; exact mul_le_of_le_one_left (abs_nonneg _) ha
  have hβ : |b1 * t| ≤ t := by
    rw [abs_mul, abs_of_nonneg h0]; exact mul_le_of_le_one_left h0 hb
  have hγ : |a1 * t| ≤ t := by
    rw [abs_mul, abs_of_nonneg h0]; exact mul_le_of_le_one_left h0 ha
  have e1 : a1 + (b1 - a1) * t + (b1 - a1) * t = a1 * (1 - 2 * t) + 2 * (b1 * t) := by ring
  have e2 : a1 + (b1 - a1) * t - (b1 - a1) * t = a1 := by ring
  have hα' := abs_le.mp hα
  have hβ' := abs_le.mp hβ
  have ha' := abs_le.mp ha
  have h12 : |1 - 2 * t| + 2 * t ≤ 1 + 2 * u := by
    rcases abs_cases (1 - 2 * t) with ⟨h, _⟩ | ⟨h, _⟩ <;> rw [h] <;> linarith
  rcases abs_cases (a1 + (b1 - a1) * t) with ⟨hv, _⟩ | ⟨hv, _⟩ <;>
    rcases abs_cases ((b1 - a1) * t) with ⟨hT, _⟩ | ⟨hT, _⟩ <;> rw [hv, hT] <;> linarith

/-! ### (4) the float computation -/

/-- exact linear interpolation -/
noncomputable def interpR (x a b a1 b1 : ℝ) : ℝ := a1 + (b1 - a1) * (x - a) / (b - a)

theorem interpR_of_t {x a b a1 b1 t : ℝ} (hne : b - a ≠ 0) (ht : x - a = t * (b - a)) :
    interpR x a b a1 b1 = a1 + (b1 - a1) * t := by
  unfold interpR
  rw [ht]; field_simp

theorem interpR_of_t' {x a b a1 b1 t : ℝ} (hne : b - a ≠ 0) (ht : x - b = t * (a - b)) :
    interpR x a b a1 b1 = b1 + (a1 - b1) * t := by
  have hx : x - a = (1 - t) * (b - a) := by linarith
  rw [interpR_of_t hne hx]; ring

theorem eR_le : eR ≤ 1 / 2 ^ 200 := by
  unfold eR
  exact one_div_le_one_div_of_le (by positivity) (pow_le_pow_right₀ (by norm_num) (by norm_num))

theorem eR_div_le {w : ℝ} (hw : 1 / 2 ^ 200 ≤ |w|) : eR / |w| ≤ 1 / 2 ^ 200 := by
  have hpos : (0 : ℝ) < 1 / 2 ^ 200 := by positivity
  have hW : 0 < |w| := lt_of_lt_of_le hpos hw
  rw [div_le_iff₀ hW]
  have h1 : eR ≤ 1 / 2 ^ 200 * (1 / 2 ^ 200) := by
    have e : (1 : ℝ) / 2 ^ 200 * (1 / 2 ^ 200) = 1 / 2 ^ 400 := by rw [one_div_mul_one_div, ← pow_add]
    rw [e]
    unfold eR
    exact one_div_le_one_div_of_le (by positivity) (pow_le_pow_right₀ (by norm_num) (by norm_num))
  have h2 : 1 / 2 ^ 200 * (1 / 2 ^ 200) ≤ 1 / 2 ^ 200 * |w| := mul_le_mul_of_nonneg_left hw hpos.le
  linarith

/-- the first four roundings of a branch: `d1 = x ⊖ a`, `d2 = b ⊖ a`, `D = b1 ⊖ a1`, `p = D ⊗ d1` -/
theorem branch_common (x a b a1 b1 : F64) (hx : Fin x) (ha : Fin a) (hb : Fin b) (ha1 : Fin a1) (hb1 : Fin b1)
    (ma : |rv a| ≤ 2) (mb : |rv b| ≤ 2) (ma1 : |rv a1| ≤ 2) (mb1 : |rv b1| ≤ 2)
    (t : ℝ) (ht0 : 0 ≤ t) (ht1 : t ≤ 1) (hxt : rv x - rv a = t * (rv b - rv a)) :
    Fin ((b1 - a1) * (x - a)) ∧ Fin (b - a) ∧
    |rv (x - a) - t * (rv b - rv a)| ≤ uR * (t * |rv b - rv a|) ∧
    |rv (b - a) - (rv b - rv a)| ≤ uR * |rv b - rv a| ∧
    RStep (rv b1 - rv a1) (rv (b1 - a1)) ∧ |rv (b1 - a1) - (rv b1 - rv a1)| ≤ uR * |rv b1 - rv a1| ∧
    |rv ((b1 - a1) * (x - a)) - rv (b1 - a1) * rv (x - a)| ≤ uR * |rv (b1 - a1) * rv (x - a)| + eR := by
  have hu : uR ≤ 1 := uR_le_one
  have hu0 := uR_nonneg
  have hw4 : |rv b - rv a| ≤ 4 := by
    have := abs_sub (rv b) (rv a); linarith
  have hΔ4 : |rv b1 - rv a1| ≤ 4 := by
    have := abs_sub (rv b1) (rv a1); linarith
  have hxa : |rv x - rv a| = t * |rv b - rv a| := by rw [hxt, abs_mul, abs_of_nonneg ht0]
  have hxa4 : |rv x - rv a| ≤ 4 := by
    rw [hxa]
    have : t * |rv b - rv a| ≤ 1 * |rv b - rv a| := mul_le_mul_of_nonneg_right ht1 (abs_nonneg _)
    linarith
  obtain ⟨f1, _, r1⟩ := subR hx ha (by linarith)
  obtain ⟨f2, _, r2⟩ := subR hb ha (by linarith)
  obtain ⟨f3, s3, r3⟩ := subR hb1 ha1 (by linarith)
  have m1 : |rv (x - a)| ≤ 8 := by
    have := abs_sub_abs_le_abs_sub (rv (x - a)) (rv x - rv a)
    have : uR * |rv x - rv a| ≤ 1 * |rv x - rv a| := mul_le_mul_of_nonneg_right hu (abs_nonneg _)
    linarith
  have m3 : |rv (b1 - a1)| ≤ 8 := by
    have := abs_sub_abs_le_abs_sub (rv (b1 - a1)) (rv b1 - rv a1)
    have : uR * |rv b1 - rv a1| ≤ 1 * |rv b1 - rv a1| := mul_le_mul_of_nonneg_right hu (abs_nonneg _)
    linarith
  have m4 : |rv (b1 - a1) * rv (x - a)| ≤ 2 ^ 30 := by
    rw [abs_mul]
    have := mul_le_mul m3 m1 (abs_nonneg _) (by norm_num)
    linarith
  obtain ⟨f4, s4⟩ := mulR f3 f1 m4
  refine ⟨f4, f2, ?_, r2, s3, r3, s4.rel⟩
  rw [hxt, abs_mul, abs_of_nonneg ht0] at r1
  exact r1

/-- **P1, one branch**: `a1 ⊕ (b1 ⊖ a1) ⊗ (x ⊖ a) ⊘ (b ⊖ a)` against `a1 + (b1 - a1)·t`, `t = (x-a)/(b-a) ≤ (1+u)/2` -/
theorem branch_pad (x a b a1 b1 : F64) (hx : Fin x) (ha : CoordOK a) (hb : CoordOK b)
    (ha1 : CoordOK a1) (hb1 : CoordOK b1) (hw : 1 / 2 ^ 200 ≤ |rv b - rv a|)
    (t : ℝ) (ht0 : 0 ≤ t) (ht1 : t ≤ (1 + uR) / 2) (hxt : rv x - rv a = t * (rv b - rv a)) :
    Fin (a1 + (b1 - a1) * (x - a) / (b - a)) ∧
    |rv (a1 + (b1 - a1) * (x - a) / (b - a)) - (rv a1 + (rv b1 - rv a1) * t)| ≤ 3 * dblEps + 1 / 2 ^ 80 := by
  have hM : (1 : ℝ) + 1 / 2 ^ 40 ≤ 2 := by norm_num
  have hu0 := uR_nonneg
  have hu1 : uR < 1 := by unfold uR; norm_num
  have ht1' : t ≤ 1 := by unfold uR at ht1; norm_num at ht1; linarith
  obtain ⟨fp, fd2, h1, h2, s3, r3, h4⟩ := branch_common x a b a1 b1 hx ha.1 hb.1 ha1.1 hb1.1
    (ha.2.trans hM) (hb.2.trans hM) (ha1.2.trans hM) (hb1.2.trans hM) t ht0 ht1' hxt
  have hwne : rv b - rv a ≠ 0 := by
    intro h; rw [h, abs_zero] at hw
    have : (0 : ℝ) < 1 / 2 ^ 200 := by positivity
    linarith
  set Δ := rv b1 - rv a1 with hΔdef
  have hΔ : |Δ| ≤ 2 * (1 + 1 / 2 ^ 40) := by
    have := abs_sub (rv b1) (rv a1); linarith [ha1.2, hb1.2]
  obtain ⟨hd2ne, hq⟩ := quot_core hu0 hu1 ht0 (mul_nonneg hu0 (abs_nonneg Δ)) hwne h1 h2 r3 h4
  have hX : |Δ| * t ≤ (1 + 1 / 2 ^ 40) * (1 + uR) := by
    have := mul_le_mul hΔ ht1 ht0 (by norm_num)
    linarith
  have hX0 : 0 ≤ |Δ| * t := mul_nonneg (abs_nonneg _) ht0
  -- the quotient
  have hQT : |rv ((b1 - a1) * (x - a)) / rv (b - a) - Δ * t| ≤ 4 * uR + 1 / 2 ^ 85 := by
    apply le_of_mul_le hu1 hq
    have e : |Δ| * t * (3 * uR + uR ^ 2) + uR * |Δ| * t * (1 + uR) ^ 2 + eR / |rv b - rv a| =
        (|Δ| * t) * (3 * uR + uR ^ 2 + uR * (1 + uR) ^ 2) + eR / |rv b - rv a| := by ring
    rw [e]
    have hc : 0 ≤ 3 * uR + uR ^ 2 + uR * (1 + uR) ^ 2 := by positivity
    have h5 := mul_le_mul_of_nonneg_right hX hc
    have h6 := eR_div_le hw
    have h7 : (1 + 1 / 2 ^ 40) * (1 + uR) * (3 * uR + uR ^ 2 + uR * (1 + uR) ^ 2) + 1 / 2 ^ 200 ≤
        (1 - uR) * (4 * uR + 1 / 2 ^ 85) := by unfold uR; norm_num
    linarith
  have hT : |Δ * t| ≤ (1 + 1 / 2 ^ 40) * (1 + uR) := by rw [abs_mul, abs_of_nonneg ht0]; exact hX
  have hK : (1 + 1 / 2 ^ 40) * (1 + uR) ≤ 1 + 1 / 2 ^ 39 := by unfold uR; norm_num
  have hQ0 : |rv ((b1 - a1) * (x - a)) / rv (b - a)| ≤ 1 + 1 / 2 ^ 38 := by
    have := abs_sub_abs_le_abs_sub (rv ((b1 - a1) * (x - a)) / rv (b - a)) (Δ * t)
    have : 4 * uR + 1 / 2 ^ 85 ≤ 1 / 2 ^ 39 := by unfold uR; norm_num
    have : (1 : ℝ) / 2 ^ 39 + 1 / 2 ^ 39 = 1 / 2 ^ 38 := by norm_num
    linarith
  obtain ⟨fq, sq⟩ := divR fp fd2 hd2ne (hQ0.trans (by norm_num))
  have hq1 := sq.rel
  have hqT : |rv ((b1 - a1) * (x - a) / (b - a)) - Δ * t| ≤ 5 * uR + 1 / 2 ^ 84 := by
    have e : rv ((b1 - a1) * (x - a) / (b - a)) - Δ * t =
        (rv ((b1 - a1) * (x - a) / (b - a)) - rv ((b1 - a1) * (x - a)) / rv (b - a)) +
        (rv ((b1 - a1) * (x - a)) / rv (b - a) - Δ * t) := by ring
    rw [e]
    have h5 := abs_add_le (rv ((b1 - a1) * (x - a) / (b - a)) - rv ((b1 - a1) * (x - a)) / rv (b - a))
      (rv ((b1 - a1) * (x - a)) / rv (b - a) - Δ * t)
    have h6 : uR * |rv ((b1 - a1) * (x - a)) / rv (b - a)| ≤ uR * (1 + 1 / 2 ^ 38) :=
      mul_le_mul_of_nonneg_left hQ0 hu0
    have h7 := eR_le
    have h8 : uR * (1 + 1 / 2 ^ 38) + 1 / 2 ^ 200 + (4 * uR + 1 / 2 ^ 85) ≤ 5 * uR + 1 / 2 ^ 84 := by
      unfold uR; norm_num
    linarith
  -- the sum
  have hv : |rv a1 + Δ * t| ≤ 1 + 1 / 2 ^ 40 := conv_bound ha1.2 hb1.2 ht0 ht1'
  have hs : |rv a1 + rv ((b1 - a1) * (x - a) / (b - a))| ≤ 1 + 1 / 2 ^ 39 := by
    have e : rv a1 + rv ((b1 - a1) * (x - a) / (b - a)) =
        (rv a1 + Δ * t) + (rv ((b1 - a1) * (x - a) / (b - a)) - Δ * t) := by ring
    rw [e]
    have h5 := abs_add_le (rv a1 + Δ * t) (rv ((b1 - a1) * (x - a) / (b - a)) - Δ * t)
    have : 5 * uR + 1 / 2 ^ 84 ≤ 1 / 2 ^ 40 := by unfold uR; norm_num
    have : (1 : ℝ) / 2 ^ 40 + 1 / 2 ^ 40 = 1 / 2 ^ 39 := by norm_num
    linarith
  obtain ⟨fr, _, rr⟩ := addR ha1.1 fq (hs.trans (by norm_num))
  refine ⟨fr, ?_⟩
  have e : rv (a1 + (b1 - a1) * (x - a) / (b - a)) - (rv a1 + Δ * t) =
      (rv (a1 + (b1 - a1) * (x - a) / (b - a)) - (rv a1 + rv ((b1 - a1) * (x - a) / (b - a)))) +
      (rv ((b1 - a1) * (x - a) / (b - a)) - Δ * t) := by ring
  rw [e]
  have h5 := abs_add_le (rv (a1 + (b1 - a1) * (x - a) / (b - a)) - (rv a1 + rv ((b1 - a1) * (x - a) / (b - a))))
    (rv ((b1 - a1) * (x - a) / (b - a)) - Δ * t)
  have h6 : uR * |rv a1 + rv ((b1 - a1) * (x - a) / (b - a))| ≤ uR * (1 + 1 / 2 ^ 39) :=
    mul_le_mul_of_nonneg_left hs hu0
  have h7 : uR * (1 + 1 / 2 ^ 39) + (5 * uR + 1 / 2 ^ 84) ≤ 3 * dblEps + 1 / 2 ^ 80 := by
    unfold uR dblEps; norm_num
  linarith

theorem rv_abs (y : F64) : rv (F64.abs y) = |rv y| := by
  rw [rv_cast, rv_cast, F64Round.val_abs, Rat.cast_abs]

theorem rv_le_iff {x y : F64} (hx : Fin x) (hy : Fin y) : F64.le x y = true ↔ rv x ≤ rv y := by
  rw [F64Round.val_le_iff hx hy, rv_cast, rv_cast, Rat.cast_le]

theorem rv_eq_of_toInt {x y : F64} (h : toInt x = toInt y) : rv x = rv y := by
  unfold rv S2Proofs.FloatErr.val; rw [h]

theorem toInt_eq_of_rv {x y : F64} (h : rv x = rv y) : toInt x = toInt y := by
  unfold rv S2Proofs.FloatErr.val at h
  have h2 : ((toInt x : ℤ) : ℝ) = ((toInt y : ℤ) : ℝ) := by
    have hp : (0 : ℝ) < 2 ^ 1074 := by positivity
    field_simp at h
    exact h
  exact_mod_cast h2

/-- the rounded difference brackets the exact one -/
theorem sub_bracket {x y : F64} (hx : Fin x) (hy : Fin y) (hb : |rv x - rv y| ≤ 2 ^ 30) :
    Fin (F64.abs (x - y)) ∧ (1 - uR) * |rv x - rv y| ≤ rv (F64.abs (x - y)) ∧
      rv (F64.abs (x - y)) ≤ (1 + uR) * |rv x - rv y| := by
  obtain ⟨f, _, r⟩ := subR hx hy hb
  rw [rv_abs]
  refine ⟨(F64Round.fin_abs _).2 f, ?_, ?_⟩
  · have := abs_sub_abs_le_abs_sub (rv x - rv y) (rv (x - y))
    rw [abs_sub_comm (rv x - rv y) (rv (x - y))] at this
    linarith
  · have := abs_sub_abs_le_abs_sub (rv (x - y)) (rv x - rv y)
    linarith

/-- which branch is taken, and what the (rounded) test implies for the parameter -/
theorem interp_dispatch (x a b a1 b1 : F64) (hx : Fin x) (ha : Fin a) (hb : Fin b)
    (ma : |rv a| ≤ 2) (mb : |rv b| ≤ 2)
    (hbtw : (rv a ≤ rv x ∧ rv x ≤ rv b) ∨ (rv b ≤ rv x ∧ rv x ≤ rv a)) (hne : rv b - rv a ≠ 0)
    (P : F64 → Prop)
    (h1 : ∀ t : ℝ, 0 ≤ t → t ≤ (1 + uR) / 2 → rv x - rv a = t * (rv b - rv a) →
      P (a1 + (b1 - a1) * (x - a) / (b - a)))
    (h2 : ∀ t : ℝ, 0 ≤ t → t ≤ (1 + uR) / 2 → rv x - rv b = t * (rv a - rv b) →
      P (b1 + (a1 - b1) * (x - b) / (a - b))) :
    P (interpolateFloat64 x a b a1 b1) := by
  have hfeq : ¬ (F64.feq a b = true) := by
    rw [feq_iff ha hb]
    intro h
    exact hne (by rw [rv_eq_of_toInt h]; ring)
  have mx : |rv x| ≤ 2 := by
    rw [abs_le] at ma mb ⊢
    rcases hbtw with ⟨h, h'⟩ | ⟨h, h'⟩ <;> constructor <;> linarith
  have bax : |rv a - rv x| ≤ 2 ^ 30 := by
    have := abs_sub (rv a) (rv x); linarith
  have bbx : |rv b - rv x| ≤ 2 ^ 30 := by
    have := abs_sub (rv b) (rv x); linarith
  obtain ⟨fA, lA, uA⟩ := sub_bracket ha hx bax
  obtain ⟨fB, lB, uB⟩ := sub_bracket hb hx bbx
  unfold interpolateFloat64
  rw [if_neg hfeq]
  by_cases hle : F64.le (a - x).abs (b - x).abs = true
  · rw [if_pos hle]
    rw [rv_le_iff fA fB] at hle
    obtain ⟨t0, t1, tx⟩ := t_bound uR_nonneg hbtw hne (by linarith)
    exact h1 _ t0 t1 tx
  · rw [if_neg hle]
    rw [rv_le_iff fA fB] at hle
    have hne' : rv a - rv b ≠ 0 := fun h => hne (by linarith)
    obtain ⟨t0, t1, tx⟩ := t_bound (x := rv x) (a := rv b) (b := rv a) uR_nonneg hbtw.symm hne' (by linarith)
    exact h2 _ t0 t1 tx

/-- **(P1)** coordinates in the padded face -/
theorem interpolateFloat64_err_pad (x a b a1 b1 : F64) (hx : Fin x) (ha : CoordOK a) (hb : CoordOK b)
    (ha1 : CoordOK a1) (hb1 : CoordOK b1)
    (hbtw : (rv a ≤ rv x ∧ rv x ≤ rv b) ∨ (rv b ≤ rv x ∧ rv x ≤ rv a))
    (hw : 1 / 2 ^ 200 ≤ |rv b - rv a|) :
    Fin (interpolateFloat64 x a b a1 b1) ∧
    |rv (interpolateFloat64 x a b a1 b1) - interpR (rv x) (rv a) (rv b) (rv a1) (rv b1)| ≤ 3 * dblEps + 1 / 2 ^ 80 := by
  have hM : (1 : ℝ) + 1 / 2 ^ 40 ≤ 2 := by norm_num
  have hne : rv b - rv a ≠ 0 := by
    intro h; rw [h, abs_zero] at hw
    have : (0 : ℝ) < 1 / 2 ^ 200 := by positivity
    linarith
  apply interp_dispatch x a b a1 b1 hx ha.1 hb.1 (ha.2.trans hM) (hb.2.trans hM) hbtw hne
    (fun r => Fin r ∧ |rv r - interpR (rv x) (rv a) (rv b) (rv a1) (rv b1)| ≤ 3 * dblEps + 1 / 2 ^ 80)
  · intro t t0 t1 tx
    rw [interpR_of_t hne tx]
    exact branch_pad x a b a1 b1 hx ha hb ha1 hb1 hw t t0 t1 tx
  · intro t t0 t1 tx
    rw [interpR_of_t' hne tx]
    exact branch_pad x b a b1 a1 hx hb ha hb1 ha1 (by rw [abs_sub_comm]; exact hw) t t0 t1 tx

/-! ### (P3) exactness at the endpoints (no size hypothesis on `a`, `b`: `b ⊖ a` may overflow to `±inf`) -/

theorem zero_facts (s : Bool) : Fin (F64.zero s) ∧ (F64.zero s).isZero = true ∧ (F64.zero s).isNaN = false ∧
    (F64.zero s).isInf = false ∧ toInt (F64.zero s) = 0 := by
  cases s <;> decide

/-- a difference of two floats of equal value is a zero -/
theorem sub_eq_zero_of_rv {x y : F64} (hx : Fin x) (hy : Fin y) (h : rv x = rv y) : ∃ s, x - y = F64.zero s := by
  have ht := toInt_eq_of_rv h
  have hy' : Fin (F64.neg y) := (S2Proofs.F64Sym.isFinite_neg y).2 hy
  refine ⟨_, F64Round.add_zero_sign hx hy' ?_⟩
  rw [F64Round.toInt_neg]; omega

set_option exponentiation.threshold 2100 in
/-- a difference of two floats of different value is not a zero and not NaN (it may be `±inf`) -/
theorem sub_ne_zero_of_rv {x y : F64} (hx : Fin x) (hy : Fin y) (h : rv x ≠ rv y) :
    (x - y).isNaN = false ∧ (x - y).isZero = false ∧ F64Round.ext (x - y) ≠ 0 := by
  have hn : (F64.sub x y).isNaN = false := F64Round.sub_not_nan hx hy
  have hs : toInt x - toInt y ≠ 0 := fun hc => h (rv_eq_of_toInt (by omega))
  have he : F64Round.ext (F64.sub x y) ≠ 0 := by
    rw [F64Round.ext_sub hx hy]
    have hpos := F64Round.rmag_pos (toInt x - toInt y).natAbs 1 (by decide) (by omega)
    unfold F64Round.rint F64Round.rclamp
    have : 0 < min (F64Round.rmag (toInt x - toInt y).natAbs 1) (2 ^ 2098) :=
      Nat.lt_min.2 ⟨hpos, Nat.two_pow_pos _⟩
    split <;> omega
  refine ⟨hn, ?_, he⟩
  show (F64.sub x y).isZero = false
  rcases F64Round.notNaN_cases hn with hf | hi | hi
  · cases hz : (F64.sub x y).isZero
    · rfl
    · exfalso
      apply he
      rw [F64Round.ext_finite hf]
      have := S2Proofs.FloatErr.val_of_isZero hz
      unfold S2Proofs.FloatErr.val at this
      have hp : (0 : ℝ) < 2 ^ 1074 := by positivity
      have h0 : ((toInt (F64.sub x y) : ℤ) : ℝ) = 0 := by
        rcases div_eq_zero_iff.1 this with h' | h'
        · exact h'
        · exact absurd h' hp.ne'
      exact_mod_cast h0
  · rw [hi]; decide
  · rw [hi]; decide

theorem div_zero_left (s : Bool) (y : F64) (hn : y.isNaN = false) (hz : y.isZero = false) :
    ∃ s', F64.zero s / y = F64.zero s' := by
  obtain ⟨_, z1, z2, z3, _⟩ := zero_facts s
  refine ⟨(F64.zero s).signBit != y.signBit, ?_⟩
  show F64.div (F64.zero s) y = _
  unfold F64.div
  simp only [z1, z2, z3, hn, hz, Bool.or_self, Bool.false_eq_true, if_false, if_true]
  cases y.isInf <;> simp

theorem mul_zero_right {x : F64} (hx : Fin x) (s : Bool) : ∃ s', x * F64.zero s = F64.zero s' :=
  ⟨_, F64Round.mul_zero_sign hx (zero_facts s).1 (Or.inr (zero_facts s).2.1)⟩

theorem add_zero_val {x : F64} (hx : Fin x) (s : Bool) : rv (x + F64.zero s) = rv x := by
  have hz := zero_facts s
  have h := F64Round.isRound_add hx hz.1
  have hv : F64Round.val (F64.zero s) = 0 := by unfold F64Round.val; rw [hz.2.2.2.2]; simp
  rw [hv, add_zero] at h
  exact rv_eq_of_toInt (F64Round.IsRound.fix hx h).2

/-- the value of a branch at its own endpoint -/
theorem branch_at (x a b a1 b1 : F64) (hx : Fin x) (ha : Fin a) (hb : Fin b) (ha1 : CoordOK a1) (hb1 : CoordOK b1)
    (hab : rv a ≠ rv b) (hxa : rv x = rv a) : rv (a1 + (b1 - a1) * (x - a) / (b - a)) = rv a1 := by
  have hD : Fin (b1 - a1) := by
    have := abs_sub (rv b1) (rv a1)
    exact (subR hb1.1 ha1.1 (by linarith [ha1.2, hb1.2])).1
  obtain ⟨s1, e1⟩ := sub_eq_zero_of_rv hx ha hxa
  obtain ⟨s2, e2⟩ := mul_zero_right hD s1
  obtain ⟨hn, hz, _⟩ := sub_ne_zero_of_rv hb ha (Ne.symm hab)
  obtain ⟨s3, e3⟩ := div_zero_left s2 (b - a) hn hz
  rw [e1, e2, e3]
  exact add_zero_val ha1.1 s3

theorem ext_abs_zero (s : Bool) : F64Round.ext (F64.abs (F64.zero s)) = 0 := by cases s <;> decide

/-- **(P3)** "If x == a, then x1 = a1 (exactly)" -/
theorem interpolateFloat64_at_a (x a b a1 b1 : F64) (hx : Fin x) (ha : Fin a) (hb : Fin b)
    (ha1 : CoordOK a1) (hb1 : CoordOK b1) (hab : rv a ≠ rv b) (hxa : rv x = rv a) :
    rv (interpolateFloat64 x a b a1 b1) = rv a1 := by
  have hfeq : ¬ (F64.feq a b = true) := by
    rw [feq_iff ha hb]; exact fun h => hab (rv_eq_of_toInt h)
  obtain ⟨s, es⟩ := sub_eq_zero_of_rv ha hx hxa.symm
  have hnB : (b - x).isNaN = false := F64Round.sub_not_nan hb hx
  have hle : F64.le (a - x).abs (b - x).abs = true := by
    rw [F64Round.le_iff_ext (by rw [F64Round.isNaN_abs, es]; exact (zero_facts s).2.2.1)
      (by rw [F64Round.isNaN_abs]; exact hnB), es, ext_abs_zero, F64Round.ext_abs _ hnB]
    exact abs_nonneg _
  unfold interpolateFloat64
  rw [if_neg hfeq, if_pos hle]
  exact branch_at x a b a1 b1 hx ha hb ha1 hb1 hab hxa

/-- **(P3)** "if x == b, then x1 = b1 (exactly)" -/
theorem interpolateFloat64_at_b (x a b a1 b1 : F64) (hx : Fin x) (ha : Fin a) (hb : Fin b)
    (ha1 : CoordOK a1) (hb1 : CoordOK b1) (hab : rv a ≠ rv b) (hxb : rv x = rv b) :
    rv (interpolateFloat64 x a b a1 b1) = rv b1 := by
  have hfeq : ¬ (F64.feq a b = true) := by
    rw [feq_iff ha hb]; exact fun h => hab (rv_eq_of_toInt h)
  obtain ⟨s, es⟩ := sub_eq_zero_of_rv hb hx hxb.symm
  obtain ⟨hnA, _, heA⟩ := sub_ne_zero_of_rv ha hx (by rw [hxb]; exact hab)
  have hle : ¬ (F64.le (a - x).abs (b - x).abs = true) := by
    rw [F64Round.le_iff_ext (by rw [F64Round.isNaN_abs]; exact hnA)
      (by rw [F64Round.isNaN_abs, es]; exact (zero_facts s).2.2.1), es, ext_abs_zero, F64Round.ext_abs _ hnA]
    intro h
    exact heA (abs_eq_zero.1 (le_antisymm h (abs_nonneg _)))
  unfold interpolateFloat64
  rw [if_neg hfeq, if_neg hle]
  exact branch_at x b a b1 a1 hx hb ha hb1 ha1 (Ne.symm hab) hxb

/-! ### (P2) coordinates in `[-1,1]`: binade-aware analysis, `4.5·2^-53 = 2.25·dblEps` -/

/-- the last two roundings (`q = fl(Q0)`, `r = fl(a1 + q)`), three cases:
    * `|Q0| ≤ 1`, `|a1+q| ≤ 1`: both absolute errors are `2^-54`;
    * `|Q0| > 1`: then `|T| ≈ 1`, so the exact value `v` and the sum are `O(u)` and the last rounding is `O(u²)`;
    * `|a1+q| > 1`: then `|v| ≈ 1`, so `T` and `Q0` are `O(u)` and the quotient rounding is `O(u²)`. -/
theorem unit_final {a1 T v Q0 q r : ℝ} (hv : v = a1 + T)
    (hkey : |v| + |T| ≤ 1 + 2 * uR) (hQT : |Q0 - T| ≤ 7 / 2 * uR + 1 / 2 ^ 102)
    (sq : RStep Q0 q) (sr : RStep (a1 + q) r) (rr : |r - (a1 + q)| ≤ uR * |a1 + q|) :
    |r - v| ≤ 9 / 4 * dblEps + 1 / 2 ^ 100 := by
  have hu : uR = 1 / 2 ^ 53 := rfl
  have hd : dblEps = 1 / 2 ^ 52 := rfl
  have hu0 := uR_nonneg
  have he := eR_le
  have hsv : a1 + q - v = q - T := by rw [hv]; ring
  have hA : |q - T| ≤ |q - Q0| + |Q0 - T| := abs_sub_le q Q0 T
  have hB : |r - v| ≤ |r - (a1 + q)| + |a1 + q - v| := abs_sub_le r (a1 + q) v
  rw [hsv] at hB
  have hC : |a1 + q| - |v| ≤ |q - T| := by
    have := abs_sub_abs_le_abs_sub (a1 + q) v; rwa [hsv] at this
  have hE1 : |Q0| - |T| ≤ |Q0 - T| := abs_sub_abs_le_abs_sub Q0 T
  have hE2 : |T| - |Q0| ≤ |Q0 - T| := by
    have := abs_sub_abs_le_abs_sub T Q0; rwa [abs_sub_comm T Q0] at this
  have hv0 := abs_nonneg v
  have hT0 := abs_nonneg T
  have hQ2 : |Q0| ≤ 2 := by
    have : 1 + 2 * uR + (7 / 2 * uR + 1 / 2 ^ 102) ≤ 2 := by rw [hu]; norm_num
    linarith
  have gq2 := sq.g2 hQ2
  by_cases hQ1 : |Q0| ≤ 1
  · have gq1 := sq.g1 hQ1
    have hs2 : |a1 + q| ≤ 2 := by
      have : 1 + 2 * uR + (1 / 2 ^ 54 + (7 / 2 * uR + 1 / 2 ^ 102)) ≤ 2 := by rw [hu]; norm_num
      linarith
    by_cases hs1 : |a1 + q| ≤ 1
    · have gr1 := sr.g1 hs1
      have : (1 : ℝ) / 2 ^ 54 + (1 / 2 ^ 54 + (7 / 2 * uR + 1 / 2 ^ 102)) ≤ 9 / 4 * dblEps + 1 / 2 ^ 100 := by
        rw [hu, hd]; norm_num
      linarith
    · have gr2 := sr.g2 hs2
      have hs1' : 1 < |a1 + q| := not_le.mp hs1
      -- |v| > 1 - c1 - u/2, hence |T|, |Q0| are O(u)
      have hQs : |Q0| ≤ 10 * uR := by
        have : 2 * uR + (1 / 2 ^ 54 + (7 / 2 * uR + 1 / 2 ^ 102)) + (7 / 2 * uR + 1 / 2 ^ 102) ≤ 10 * uR := by
          rw [hu]; norm_num
        linarith
      have h1 := sq.rel
      have h2 : uR * |Q0| ≤ uR * (10 * uR) := mul_le_mul_of_nonneg_left hQs hu0
      have : (1 : ℝ) / 2 ^ 53 + (uR * (10 * uR) + 1 / 2 ^ 200 + (7 / 2 * uR + 1 / 2 ^ 102)) ≤
          9 / 4 * dblEps + 1 / 2 ^ 100 := by rw [hu, hd]; norm_num
      linarith
  · have hQ1' : 1 < |Q0| := not_le.mp hQ1
    have hss : |a1 + q| ≤ 11 * uR := by
      have : 2 * uR + (7 / 2 * uR + 1 / 2 ^ 102) + (1 / 2 ^ 53 + (7 / 2 * uR + 1 / 2 ^ 102)) ≤ 11 * uR := by
        rw [hu]; norm_num
      linarith
    have h2 : uR * |a1 + q| ≤ uR * (11 * uR) := mul_le_mul_of_nonneg_left hss hu0
    have : uR * (11 * uR) + (1 / 2 ^ 53 + (7 / 2 * uR + 1 / 2 ^ 102)) ≤ 9 / 4 * dblEps + 1 / 2 ^ 100 := by
      rw [hu, hd]; norm_num
    linarith

/-- **P2, one branch** -/
theorem branch_unit (x a b a1 b1 : F64) (hx : Fin x) (ha : Fin a) (hb : Fin b) (ha1 : Fin a1) (hb1 : Fin b1)
    (ma : |rv a| ≤ 1) (mb : |rv b| ≤ 1) (ma1 : |rv a1| ≤ 1) (mb1 : |rv b1| ≤ 1)
    (hw : 1 / 2 ^ 200 ≤ |rv b - rv a|)
    (t : ℝ) (ht0 : 0 ≤ t) (ht1 : t ≤ (1 + uR) / 2) (hxt : rv x - rv a = t * (rv b - rv a)) :
    Fin (a1 + (b1 - a1) * (x - a) / (b - a)) ∧
    |rv (a1 + (b1 - a1) * (x - a) / (b - a)) - (rv a1 + (rv b1 - rv a1) * t)| ≤ 9 / 4 * dblEps + 1 / 2 ^ 100 := by
  have hu0 := uR_nonneg
  have hu : uR = 1 / 2 ^ 53 := rfl
  have hu1 : uR < 1 := by unfold uR; norm_num
  have ht1' : t ≤ 1 := by unfold uR at ht1; norm_num at ht1; linarith
  obtain ⟨fp, fd2, h1, h2, s3, r3, h4⟩ := branch_common x a b a1 b1 hx ha hb ha1 hb1
    (by linarith) (by linarith) (by linarith) (by linarith) t ht0 ht1' hxt
  have hwne : rv b - rv a ≠ 0 := by
    intro h; rw [h, abs_zero] at hw
    have : (0 : ℝ) < 1 / 2 ^ 200 := by positivity
    linarith
  set Δ := rv b1 - rv a1 with hΔdef
  have hΔ : |Δ| ≤ 2 := by
    have := abs_sub (rv b1) (rv a1); linarith
  have h3 := s3.g2 hΔ
  obtain ⟨hd2ne, hq⟩ := quot_core hu0 hu1 ht0 (by positivity : (0 : ℝ) ≤ 1 / 2 ^ 53) hwne h1 h2 h3 h4
  have hX : |Δ| * t ≤ 1 + uR := by
    have := mul_le_mul hΔ ht1 ht0 (by norm_num)
    linarith
  have hQT : |rv ((b1 - a1) * (x - a)) / rv (b - a) - Δ * t| ≤ 7 / 2 * uR + 1 / 2 ^ 102 := by
    apply le_of_mul_le hu1 hq
    have hc : 0 ≤ 3 * uR + uR ^ 2 := by positivity
    have h5 := mul_le_mul_of_nonneg_right hX hc
    have h6 := eR_div_le hw
    have hc2 : (0 : ℝ) ≤ 1 / 2 ^ 53 * (1 + uR) ^ 2 := mul_nonneg (by norm_num) (sq_nonneg _)
    have h7 : 1 / 2 ^ 53 * t * (1 + uR) ^ 2 ≤ 1 / 2 ^ 53 * ((1 + uR) / 2) * (1 + uR) ^ 2 := by
      have := mul_le_mul_of_nonneg_left ht1 hc2
      calc 1 / 2 ^ 53 * t * (1 + uR) ^ 2 = 1 / 2 ^ 53 * (1 + uR) ^ 2 * t := by ring
        _ ≤ 1 / 2 ^ 53 * (1 + uR) ^ 2 * ((1 + uR) / 2) := this
        _ = _ := by ring
    have h8 : (1 + uR) * (3 * uR + uR ^ 2) + 1 / 2 ^ 53 * ((1 + uR) / 2) * (1 + uR) ^ 2 + 1 / 2 ^ 200 ≤
        (1 - uR) * (7 / 2 * uR + 1 / 2 ^ 102) := by rw [hu]; norm_num
    linarith
  have hkey := key_sum ma1 mb1 ht0 ht1 hu0
  have hT0 := abs_nonneg (rv a1 + Δ * t)
  have hQ0 : |rv ((b1 - a1) * (x - a)) / rv (b - a)| ≤ 2 := by
    have := abs_sub_abs_le_abs_sub (rv ((b1 - a1) * (x - a)) / rv (b - a)) (Δ * t)
    have : 1 + 2 * uR + (7 / 2 * uR + 1 / 2 ^ 102) ≤ 2 := by rw [hu]; norm_num
    linarith
  obtain ⟨fq, sq⟩ := divR fp fd2 hd2ne (hQ0.trans (by norm_num))
  have hq2 := sq.g2 hQ0
  have hs : |rv a1 + rv ((b1 - a1) * (x - a) / (b - a))| ≤ 4 := by
    have h5 := abs_add_le (rv a1) (rv ((b1 - a1) * (x - a) / (b - a)))
    have h6 := abs_sub_abs_le_abs_sub (rv ((b1 - a1) * (x - a) / (b - a))) (rv ((b1 - a1) * (x - a)) / rv (b - a))
    have : (1 : ℝ) / 2 ^ 53 ≤ 1 := by norm_num
    linarith
  obtain ⟨fr, sr, rr⟩ := addR ha1 fq (hs.trans (by norm_num))
  exact ⟨fr, unit_final rfl hkey hQT sq sr rr⟩

/-- **(P2)** the documented constant `edgeClipErrorUVCoord = 2.25·dblEpsilon`, coordinates in `[-1,1]` -/
theorem interpolateFloat64_err (x a b a1 b1 : F64) (hx : Fin x) (ha : Fin a) (hb : Fin b) (ha1 : Fin a1) (hb1 : Fin b1)
    (ma : |rv a| ≤ 1) (mb : |rv b| ≤ 1) (ma1 : |rv a1| ≤ 1) (mb1 : |rv b1| ≤ 1)
    (hbtw : (rv a ≤ rv x ∧ rv x ≤ rv b) ∨ (rv b ≤ rv x ∧ rv x ≤ rv a))
    (hw : 1 / 2 ^ 200 ≤ |rv b - rv a|) :
    Fin (interpolateFloat64 x a b a1 b1) ∧
    |rv (interpolateFloat64 x a b a1 b1) - interpR (rv x) (rv a) (rv b) (rv a1) (rv b1)| ≤ 9 / 4 * dblEps + 1 / 2 ^ 100 := by
  have hne : rv b - rv a ≠ 0 := by
    intro h; rw [h, abs_zero] at hw
    have : (0 : ℝ) < 1 / 2 ^ 200 := by positivity
    linarith
  apply interp_dispatch x a b a1 b1 hx ha hb (by linarith) (by linarith) hbtw hne
    (fun r => Fin r ∧ |rv r - interpR (rv x) (rv a) (rv b) (rv a1) (rv b1)| ≤ 9 / 4 * dblEps + 1 / 2 ^ 100)
  · intro t t0 t1 tx
    rw [interpR_of_t hne tx]
    exact branch_unit x a b a1 b1 hx ha hb ha1 hb1 ma mb ma1 mb1 hw t t0 t1 tx
  · intro t t0 t1 tx
    rw [interpR_of_t' hne tx]
    exact branch_unit x b a b1 a1 hx hb ha hb1 ha1 mb ma mb1 ma1 (by rw [abs_sub_comm]; exact hw) t t0 t1 tx

/-! ### non-vacuity: concrete instances of the hypotheses -/

theorem rv_of_toInt {x : F64} {n : ℤ} (h : toInt x = n) : rv x = (n : ℝ) / 2 ^ 1074 := by
  unfold rv S2Proofs.FloatErr.val; rw [h]

set_option exponentiation.threshold 2100 in
/-- `a = -0.5`, `b = 0.5`, `x = 0.1` (not a dyadic point: every rounding is inexact), `a1 = -1`, `b1 = 1`:
    the hypotheses of P2 (and of P1) hold; the exact value is `2·rv x = 0x3FC999999999999A`, the computed value is
    `0x3FC9999999999998` (error `2^-54`). -/
example :
    let a : F64 := ⟨0xBFE0000000000000⟩; let b : F64 := ⟨0x3FE0000000000000⟩; let x : F64 := ⟨0x3FB999999999999A⟩
    let a1 : F64 := ⟨0xBFF0000000000000⟩; let b1 : F64 := ⟨0x3FF0000000000000⟩
    (Fin x ∧ Fin a ∧ Fin b ∧ Fin a1 ∧ Fin b1) ∧ (|rv a| ≤ 1 ∧ |rv b| ≤ 1 ∧ |rv a1| ≤ 1 ∧ |rv b1| ≤ 1) ∧
    (CoordOK a ∧ CoordOK b ∧ CoordOK a1 ∧ CoordOK b1) ∧
    ((rv a ≤ rv x ∧ rv x ≤ rv b) ∨ (rv b ≤ rv x ∧ rv x ≤ rv a)) ∧ 1 / 2 ^ 200 ≤ |rv b - rv a| ∧
    interpolateFloat64 x a b a1 b1 = ⟨0x3FC9999999999998⟩ ∧
    |rv (interpolateFloat64 x a b a1 b1) - interpR (rv x) (rv a) (rv b) (rv a1) (rv b1)| ≤ 9 / 4 * dblEps + 1 / 2 ^ 100 := by
  intro a b x a1 b1
  have fa : Fin a := by decide
  have fb : Fin b := by decide
  have fx : Fin x := by decide
  have fa1 : Fin a1 := by decide
  have fb1 : Fin b1 := by decide
  have va : rv a = -(1 / 2) := by
    rw [rv_of_toInt (show toInt a = -(2 ^ 1073) by decide +kernel)]; norm_num
  have vb : rv b = 1 / 2 := by
    rw [rv_of_toInt (show toInt b = 2 ^ 1073 by decide +kernel)]; norm_num
  have va1 : rv a1 = -1 := by
    rw [rv_of_toInt (show toInt a1 = -(2 ^ 1074) by decide +kernel)]; norm_num
  have vb1 : rv b1 = 1 := by
    rw [rv_of_toInt (show toInt b1 = 2 ^ 1074 by decide +kernel)]; norm_num
  have vx : rv x = 7205759403792794 / 2 ^ 56 := by
    rw [rv_of_toInt (show toInt x = 7205759403792794 * 2 ^ 1018 by decide +kernel)]; norm_num
  have ma : |rv a| ≤ 1 := by rw [va]; norm_num [abs_le]
  have mb : |rv b| ≤ 1 := by rw [vb]; norm_num [abs_le]
  have ma1 : |rv a1| ≤ 1 := by rw [va1]; norm_num
  have mb1 : |rv b1| ≤ 1 := by rw [vb1]; norm_num
  have hbtw : (rv a ≤ rv x ∧ rv x ≤ rv b) ∨ (rv b ≤ rv x ∧ rv x ≤ rv a) := by
    left; rw [va, vb, vx]; norm_num
  have hw : 1 / 2 ^ 200 ≤ |rv b - rv a| := by rw [va, vb]; norm_num
  have hM : (1 : ℝ) ≤ 1 + 1 / 2 ^ 40 := by norm_num
  exact ⟨⟨fx, fa, fb, fa1, fb1⟩, ⟨ma, mb, ma1, mb1⟩,
    ⟨⟨fa, ma.trans hM⟩, ⟨fb, mb.trans hM⟩, ⟨fa1, ma1.trans hM⟩, ⟨fb1, mb1.trans hM⟩⟩, hbtw, hw, by decide +kernel,
    (interpolateFloat64_err x a b a1 b1 fx fa fb fa1 fb1 ma mb ma1 mb1 hbtw hw).2⟩

set_option exponentiation.threshold 2100 in
/-- a padded coordinate: `b1 = 1 + 2^-40` is `CoordOK` but not in `[-1,1]` (P1 applies, P2 does not);
    second branch (`x = 0.25` is nearer to `b = 0.5` than to `a = -0.5`) -/
example :
    let a : F64 := ⟨0xBFE0000000000000⟩; let b : F64 := ⟨0x3FE0000000000000⟩; let x : F64 := ⟨0x3FD0000000000000⟩
    let a1 : F64 := ⟨0xBFF0000000000000⟩; let b1 : F64 := ⟨0x3FF0000000001000⟩
    Fin x ∧ CoordOK a ∧ CoordOK b ∧ CoordOK a1 ∧ CoordOK b1 ∧ ¬ |rv b1| ≤ 1 ∧
    ((rv a ≤ rv x ∧ rv x ≤ rv b) ∨ (rv b ≤ rv x ∧ rv x ≤ rv a)) ∧ 1 / 2 ^ 200 ≤ |rv b - rv a| ∧
    F64.le (a - x).abs (b - x).abs = false := by
  intro a b x a1 b1
  have va : rv a = -(1 / 2) := by
    rw [rv_of_toInt (show toInt a = -(2 ^ 1073) by decide +kernel)]; norm_num
  have vb : rv b = 1 / 2 := by
    rw [rv_of_toInt (show toInt b = 2 ^ 1073 by decide +kernel)]; norm_num
  have va1 : rv a1 = -1 := by
    rw [rv_of_toInt (show toInt a1 = -(2 ^ 1074) by decide +kernel)]; norm_num
  have vb1 : rv b1 = 1 + 1 / 2 ^ 40 := by
    rw [rv_of_toInt (show toInt b1 = 2 ^ 1074 + 2 ^ 1034 by decide +kernel)]; norm_num
  have vx : rv x = 1 / 4 := by
    rw [rv_of_toInt (show toInt x = 2 ^ 1072 by decide +kernel)]; norm_num
  refine ⟨by decide, ⟨by decide, ?_⟩, ⟨by decide, ?_⟩, ⟨by decide, ?_⟩, ⟨by decide, ?_⟩, ?_, ?_, ?_, by decide +kernel⟩
  · rw [va]; norm_num [abs_le]
  · rw [vb]; norm_num [abs_le]
  · rw [va1]; norm_num
  · rw [vb1, abs_of_pos (by norm_num)]
  · rw [vb1, abs_of_pos (by norm_num)]; norm_num
  · left; rw [va, vb, vx]; norm_num
  · rw [va, vb]; norm_num

/-- endpoints (P3): `x = a` with the other sign of zero (`a = +0`, `x = -0`), and an overflowing `b ⊖ a`
    (`a = -maxfloat`, `b = maxfloat`): the result is still `a1` -/
example : interpolateFloat64 ⟨0x8000000000000000⟩ ⟨0⟩ ⟨0x3FE0000000000000⟩ ⟨0xBFF0000000000000⟩ ⟨0x3FF0000000000000⟩
      = ⟨0xBFF0000000000000⟩ ∧
    interpolateFloat64 ⟨0xFFEFFFFFFFFFFFFF⟩ ⟨0xFFEFFFFFFFFFFFFF⟩ ⟨0x7FEFFFFFFFFFFFFF⟩ ⟨0xBFF0000000000000⟩
      ⟨0x3FF0000000000000⟩ = ⟨0xBFF0000000000000⟩ ∧
    ¬ Fin ((⟨0x7FEFFFFFFFFFFFFF⟩ : F64) - ⟨0xFFEFFFFFFFFFFFFF⟩) := by decide +kernel

end S2Proofs.C06Clip

#print axioms S2Proofs.C06Clip.isRound_grid_err
#print axioms S2Proofs.C06Clip.interpolateFloat64_err_pad
#print axioms S2Proofs.C06Clip.interpolateFloat64_err
#print axioms S2Proofs.C06Clip.interpolateFloat64_at_a
#print axioms S2Proofs.C06Clip.interpolateFloat64_at_b
