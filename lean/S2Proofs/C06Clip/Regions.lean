/-
  S2Proofs.C06Clip.Regions — the per-call clipping facts `ClipSoundNG` instantiated with REAL geometry.

  For a non-leaf cell `c` and region indices `i, j : Option Nat` (`none` = whole cell, `some 0 / some 1` = lower / upper half)
    * `InRegF c i j u v`  : `(u, v)` lies in the FLOAT padded region — between `fl(UG lo − cellPadding)` and
                            `fl(UG hi + cellPadding)` in both coordinates (`padLoF`, `padHiF`; these are the values
                            `Middle()` hands to `clipUBound` / `clipVBound`, so the regions of the children of a cell are
                            exactly the whole-cell regions of the child cells)
    * `BR ce c i j`       : `ce` is well-formed and every point of the exact segment inside that region lies in the float
                            bound `ce.bound` up to `epsClip` (= interpolation error, 3·dblEpsilon)
    * `MR fe c i j`       : the exact segment meets the uv-region expanded by `meetPad = cellPadding − 4·dblEpsilon`
  The padding pays for the errors in `keep*`:  `rho + epsClip < clipSlack`  (`budget`), i.e.
      rounding of `mid ± cellPadding` (2^-53) + interpolation error (3·2^-52)  <  4·2^-52 = cellPadding − meetPad.
-/
import S2Proofs.C06Clip.ClipBound

namespace S2Proofs.C06Clip
open S2 S2.CellID S2.Hilbert S2.PaddedCellM S2.IndexBuild S2Proofs.F64Order S2Proofs.C06BuildH S2.Exact

/-! ### region indices -/

def kLo (lo sz : Nat) (i : Option Nat) : Nat := if i = some 1 then lo + sz / 2 else lo
def kHi (lo sz : Nat) (i : Option Nat) : Nat := if i = some 0 then lo + sz / 2 else lo + sz

def kULo (c : CellID) (i : Option Nat) : Nat := kLo (fromCellID c).iLo (sizeIJ (fromCellID c).level) i
def kUHi (c : CellID) (i : Option Nat) : Nat := kHi (fromCellID c).iLo (sizeIJ (fromCellID c).level) i
def kVLo (c : CellID) (j : Option Nat) : Nat := kLo (fromCellID c).jLo (sizeIJ (fromCellID c).level) j
def kVHi (c : CellID) (j : Option Nat) : Nat := kHi (fromCellID c).jLo (sizeIJ (fromCellID c).level) j

theorem regIdx_cases {i : Option Nat} (h : RegIdx i) : i = none ∨ i = some 0 ∨ i = some 1 := by
  cases i with
  | none => exact Or.inl rfl
  | some n =>
    have := h n rfl
    have : n = 0 ∨ n = 1 := by omega
    rcases this with rfl | rfl
    · exact Or.inr (Or.inl rfl)
    · exact Or.inr (Or.inr rfl)

/-- all index facts of one axis: `lo`, `lo + h`, `lo + 2h` with `lo + 2h ≤ 2^30` -/
theorem k_facts (lo h : Nat) (i : Option Nat) (hi : RegIdx i) (hb : lo + 2 * h ≤ 2 ^ 30) :
    kLo lo (2 * h) none = lo ∧ kHi lo (2 * h) none = lo + 2 * h ∧
    kLo lo (2 * h) (some 0) = lo ∧ kHi lo (2 * h) (some 0) = lo + h ∧
    kLo lo (2 * h) (some 1) = lo + h ∧ kHi lo (2 * h) (some 1) = lo + 2 * h ∧
    lo ≤ kLo lo (2 * h) i ∧ kLo lo (2 * h) i ≤ kHi lo (2 * h) i ∧ kHi lo (2 * h) i ≤ lo + 2 * h ∧
    kHi lo (2 * h) i ≤ 2 ^ 30 ∧ kLo lo (2 * h) i ≤ 2 ^ 30 := by
  have e : 2 * h / 2 = h := by omega
  rcases regIdx_cases hi with rfl | rfl | rfl <;> simp [kLo, kHi, e] <;> omega

/-- a cell that is not a leaf -/
def NonLeaf (c : CellID) : Prop := ∃ k, IsCell c k ∧ k < 30

/-- the two axes of a non-leaf cell in the form `lo`, `h` -/
theorem axes {c : CellID} {k : Nat} (hc : IsCell c k) (hk : k < 30) :
    sizeIJ (fromCellID c).level = 2 * 2 ^ (29 - k) ∧
    (fromCellID c).iLo + 2 * 2 ^ (29 - k) ≤ 2 ^ 30 ∧ (fromCellID c).jLo + 2 * 2 ^ (29 - k) ≤ 2 ^ 30 := by
  obtain ⟨h1, h2, _, h4, _, h6⟩ := cell_ij hc
  obtain ⟨_, _, _, _, h5⟩ := center_idx hc hk
  rw [h1, h2, h5]
  rw [h5] at h4 h6
  exact ⟨rfl, h4, h6⟩

/-! ### regions -/

/-- `(u, v)` lies in the float padded region `(i, j)` of `c` -/
def InRegF (c : CellID) (i j : Option Nat) (u v : ℝ) : Prop :=
  rv (padLoF (kULo c i)) ≤ u ∧ u ≤ rv (padHiF (kUHi c i)) ∧
  rv (padLoF (kVLo c j)) ≤ v ∧ v ≤ rv (padHiF (kVHi c j))

/-- `(u, v)` lies in the uv-region `(i, j)` of `c` expanded by `meetPad` -/
def InRegM (c : CellID) (i j : Option Nat) (u v : ℝ) : Prop :=
  UG (kULo c i) - meetPad ≤ u ∧ u ≤ UG (kUHi c i) + meetPad ∧
  UG (kVLo c j) - meetPad ≤ v ∧ v ≤ UG (kVHi c j) + meetPad

/-- the float bound of `ce` is sound for region `(i, j)` of `c` -/
def BR (ce : ClippedEdge) (c : CellID) (i j : Option Nat) : Prop :=
  WfCE ce ∧ (NonLeaf c → ∀ t : ℝ, 0 ≤ t → t ≤ 1 → InRegF c i j (segU ce.fe t) (segV ce.fe t) →
    Within ce.bound (segU ce.fe t) (segV ce.fe t))

/-- `BoundOK` of I1 -/
def BoundOKR (ce : ClippedEdge) (c : CellID) : Prop := BR ce c none none

/-- the exact segment meets region `(i, j)` of the non-leaf cell `c` expanded by `meetPad` -/
def MR (fe : FaceEdge) (c : CellID) (i j : Option Nat) : Prop :=
  NonLeaf c ∧ ∃ t : ℝ, 0 ≤ t ∧ t ≤ 1 ∧ InRegM c i j (segU fe t) (segV fe t)

theorem budget : rho + epsClip < clipSlack := by
  unfold rho epsClip clipSlack dblEps; norm_num

theorem meetsReal_iff (fe : FaceEdge) (c : CellID) :
    MeetsReal fe c ↔ ∃ t : ℝ, 0 ≤ t ∧ t ≤ 1 ∧ InRegM c none none (segU fe t) (segV fe t) := by
  unfold MeetsReal MeetsPad InRegM cellULo cellUHi cellVLo cellVHi kULo kUHi kVLo kVHi kLo kHi
  simp

/-- index facts of the u axis -/
theorem kU_facts {c : CellID} {k : Nat} (hc : IsCell c k) (hk : k < 30) (i : Option Nat) (hi : RegIdx i) :
    kULo c none = (fromCellID c).iLo ∧ kUHi c none = (fromCellID c).iLo + 2 * 2 ^ (29 - k) ∧
    kULo c (some 0) = (fromCellID c).iLo ∧ kUHi c (some 0) = (fromCellID c).iLo + 2 ^ (29 - k) ∧
    kULo c (some 1) = (fromCellID c).iLo + 2 ^ (29 - k) ∧ kUHi c (some 1) = (fromCellID c).iLo + 2 * 2 ^ (29 - k) ∧
    (fromCellID c).iLo ≤ kULo c i ∧ kULo c i ≤ kUHi c i ∧ kUHi c i ≤ (fromCellID c).iLo + 2 * 2 ^ (29 - k) ∧
    kUHi c i ≤ 2 ^ 30 ∧ kULo c i ≤ 2 ^ 30 := by
  obtain ⟨es, bi, _⟩ := axes hc hk
  unfold kULo kUHi
  rw [es]
  exact k_facts _ _ i hi bi

/-- index facts of the v axis -/
theorem kV_facts {c : CellID} {k : Nat} (hc : IsCell c k) (hk : k < 30) (j : Option Nat) (hj : RegIdx j) :
    kVLo c none = (fromCellID c).jLo ∧ kVHi c none = (fromCellID c).jLo + 2 * 2 ^ (29 - k) ∧
    kVLo c (some 0) = (fromCellID c).jLo ∧ kVHi c (some 0) = (fromCellID c).jLo + 2 ^ (29 - k) ∧
    kVLo c (some 1) = (fromCellID c).jLo + 2 ^ (29 - k) ∧ kVHi c (some 1) = (fromCellID c).jLo + 2 * 2 ^ (29 - k) ∧
    (fromCellID c).jLo ≤ kVLo c j ∧ kVLo c j ≤ kVHi c j ∧ kVHi c j ≤ (fromCellID c).jLo + 2 * 2 ^ (29 - k) ∧
    kVHi c j ≤ 2 ^ 30 ∧ kVLo c j ≤ 2 ^ 30 := by
  obtain ⟨es, _, bj⟩ := axes hc hk
  unfold kVLo kVHi
  rw [es]
  exact k_facts _ _ j hj bj

/-- region inclusion: float regions -/
theorem inRegF_mono {c : CellID} {k : Nat} (hc : IsCell c k) (hk : k < 30) {i i' j j' : Option Nat}
    (hi : RegIdx i) (hi' : RegIdx i') (hj : RegIdx j) (hj' : RegIdx j')
    (h1 : kULo c i' ≤ kULo c i) (h2 : kUHi c i ≤ kUHi c i') (h3 : kVLo c j' ≤ kVLo c j) (h4 : kVHi c j ≤ kVHi c j')
    {u v : ℝ} (h : InRegF c i j u v) : InRegF c i' j' u v := by
  have fi := kU_facts hc hk i hi
  have fi' := kU_facts hc hk i' hi'
  have fj := kV_facts hc hk j hj
  have fj' := kV_facts hc hk j' hj'
  obtain ⟨a, b, c', d⟩ := h
  exact ⟨le_trans (padLoF_mono h1 fi.2.2.2.2.2.2.2.2.2.2) a, le_trans b (padHiF_mono h2 fi'.2.2.2.2.2.2.2.2.2.1),
    le_trans (padLoF_mono h3 fj.2.2.2.2.2.2.2.2.2.2) c', le_trans d (padHiF_mono h4 fj'.2.2.2.2.2.2.2.2.2.1)⟩

theorem padLo_le_of_meet {k : Nat} (hk : k ≤ 2 ^ 30) {x : ℝ} (h : UG k - meetPad ≤ x) : rv (padLoF k) ≤ x := by
  obtain ⟨_, _, p1, _⟩ := padF_spec k hk
  have hb := budget
  have he := epsClip_nonneg
  have hms : meetPad = padR - clipSlack := rfl
  rw [abs_le] at p1
  linarith [p1.2]

theorem padHi_ge_of_meet {k : Nat} (hk : k ≤ 2 ^ 30) {x : ℝ} (h : x ≤ UG k + meetPad) : x ≤ rv (padHiF k) := by
  obtain ⟨_, _, _, p2⟩ := padF_spec k hk
  have hb := budget
  have he := epsClip_nonneg
  have hms : meetPad = padR - clipSlack := rfl
  rw [abs_le] at p2
  linarith [p2.1]

/-- the `meetPad` region lies inside the float padded region -/
theorem inRegF_of_inRegM {c : CellID} {k : Nat} (hc : IsCell c k) (hk : k < 30) {i j : Option Nat}
    (hi : RegIdx i) (hj : RegIdx j) {u v : ℝ} (h : InRegM c i j u v) : InRegF c i j u v := by
  have fi := kU_facts hc hk i hi
  have fj := kV_facts hc hk j hj
  obtain ⟨a, b, c', d⟩ := h
  exact ⟨padLo_le_of_meet fi.2.2.2.2.2.2.2.2.2.2 a, padHi_ge_of_meet fi.2.2.2.2.2.2.2.2.2.1 b,
    padLo_le_of_meet fj.2.2.2.2.2.2.2.2.2.2 c', padHi_ge_of_meet fj.2.2.2.2.2.2.2.2.2.1 d⟩

end S2Proofs.C06Clip
