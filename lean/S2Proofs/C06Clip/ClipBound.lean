/-
  S2Proofs.C06Clip.ClipBound — ONE call of `clipUBound` / `clipVBound` is sound (region-free form):

  for a well-formed clipped edge `ce` (`WfCE`: face edge endpoints in the padded face, bound finite, non-empty and inside
  the bounding rectangle of the two endpoints) and a clip value `x` strictly inside the clipped coordinate's interval, the new
  bound is again well-formed, and every point of the exact segment that is on the kept side of `x` and was inside the old
  bound up to `epsClip` is inside the new bound up to `epsClip` — the error does NOT accumulate, because the new end is
  interpolated from the exact endpoints (`interpolateFloat64_err_pad`), not from the old bound.
-/
import S2Proofs.C06Clip.ClipReal
import S2Proofs.C06Clip.Interp

namespace S2Proofs.C06Clip
open S2 S2.CellID S2.Hilbert S2.PaddedCellM S2.IndexBuild S2Proofs.F64Order S2Proofs.C06BuildH S2.Exact

/-- the error a bound may have against the exact segment: the interpolation error `3·dblEpsilon (+2^-80)` -/
noncomputable def epsClip : ℝ := 3 * dblEps + 1 / 2 ^ 80

theorem epsClip_nonneg : 0 ≤ epsClip := by unfold epsClip dblEps; positivity

/-- a float interval: finite, non-empty, inside `[mn, mx]` -/
def Wf1 (i : CellM.Ivl) (mn mx : ℝ) : Prop :=
  Fin i.1 ∧ Fin i.2 ∧ rv i.1 ≤ rv i.2 ∧ mn ≤ rv i.1 ∧ rv i.2 ≤ mx

/-- `w` lies in the interval up to `epsClip` -/
def Within1 (i : CellM.Ivl) (w : ℝ) : Prop := rv i.1 - epsClip ≤ w ∧ w ≤ rv i.2 + epsClip

/-- well-formed clipped edge -/
structure WfCE (ce : ClippedEdge) : Prop where
  feok : FaceEdgeOK ce.fe
  wu : Wf1 ce.bound.1 (min (rv ce.fe.a.1) (rv ce.fe.b.1)) (max (rv ce.fe.a.1) (rv ce.fe.b.1))
  wv : Wf1 ce.bound.2 (min (rv ce.fe.a.2) (rv ce.fe.b.2)) (max (rv ce.fe.a.2) (rv ce.fe.b.2))

/-- the point `(u, v)` lies in the rectangle up to `epsClip` -/
def Within (b : CellM.Rect2) (u v : ℝ) : Prop := Within1 b.1 u ∧ Within1 b.2 v

theorem wf1_setLo {i : CellM.Ivl} {mn mx : ℝ} (h : Wf1 i mn mx) {x : F64} (hx : Fin x) (h1 : rv i.1 ≤ rv x)
    (h2 : rv x ≤ rv i.2) : Wf1 (x, i.2) mn mx := by
  obtain ⟨a, b, c, d, e⟩ := h
  exact ⟨hx, b, h2, le_trans d h1, e⟩

theorem wf1_setHi {i : CellM.Ivl} {mn mx : ℝ} (h : Wf1 i mn mx) {x : F64} (hx : Fin x) (h1 : rv i.1 ≤ rv x)
    (h2 : rv x ≤ rv i.2) : Wf1 (i.1, x) mn mx := by
  obtain ⟨a, b, c, d, e⟩ := h
  exact ⟨a, hx, h1, d, le_trans h2 e⟩

theorem within1_setLo {i : CellM.Ivl} {w : ℝ} {x : F64} (h : Within1 i w) (hxw : rv x - epsClip ≤ w) :
    Within1 (x, i.2) w := ⟨hxw, h.2⟩

theorem within1_setHi {i : CellM.Ivl} {w : ℝ} {x : F64} (h : Within1 i w) (hxw : w ≤ rv x + epsClip) :
    Within1 (i.1, x) w := ⟨h.1, hxw⟩

theorem clamp_facts (lo hi I : ℝ) (h : lo ≤ hi) :
    lo ≤ max lo (min hi I) ∧ max lo (min hi I) ≤ hi ∧ min hi I ≤ max lo (min hi I) ∧
      max lo (min hi I) ≤ max lo I :=
  ⟨le_max_left _ _, max_le h (min_le_left _ _), le_max_right _ _, max_le_max (le_refl _) (min_le_right _ _)⟩

/-- replacing the UPPER end by the clamped interpolated value, when the exact points lie below the exact value -/
theorem clampHi_step {i : CellM.Ivl} {mn mx : ℝ} (h : Wf1 i mn mx) {I : F64} (hI : Fin I) {L w : ℝ}
    (hIL : |rv I - L| ≤ epsClip) (hw : Within1 i w) (hwL : w ≤ L) :
    Wf1 (i.1, Ivl.clampPoint i I) mn mx ∧ Within1 (i.1, Ivl.clampPoint i I) w := by
  obtain ⟨fc, ec⟩ := rv_clampPoint i I h.1 h.2.1 hI
  obtain ⟨c1, c2, c3, c4⟩ := clamp_facts (rv i.1) (rv i.2) (rv I) h.2.2.1
  rw [← ec] at c1 c2 c3 c4
  refine ⟨wf1_setHi h fc c1 c2, within1_setHi hw ?_⟩
  rw [abs_le] at hIL
  rcases le_total (rv i.2) (rv I) with hc | hc
  · rw [min_eq_left hc] at c3; linarith [hw.2]
  · rw [min_eq_right hc] at c3; linarith

/-- the well-formedness part does not need the point -/
theorem clampHi_wf {i : CellM.Ivl} {mn mx : ℝ} (h : Wf1 i mn mx) {I : F64} (hI : Fin I) :
    Wf1 (i.1, Ivl.clampPoint i I) mn mx := by
  obtain ⟨fc, ec⟩ := rv_clampPoint i I h.1 h.2.1 hI
  obtain ⟨c1, c2, _, _⟩ := clamp_facts (rv i.1) (rv i.2) (rv I) h.2.2.1
  rw [← ec] at c1 c2
  exact wf1_setHi h fc c1 c2

theorem clampLo_wf {i : CellM.Ivl} {mn mx : ℝ} (h : Wf1 i mn mx) {I : F64} (hI : Fin I) :
    Wf1 (Ivl.clampPoint i I, i.2) mn mx := by
  obtain ⟨fc, ec⟩ := rv_clampPoint i I h.1 h.2.1 hI
  obtain ⟨c1, c2, _, _⟩ := clamp_facts (rv i.1) (rv i.2) (rv I) h.2.2.1
  rw [← ec] at c1 c2
  exact wf1_setLo h fc c1 c2

/-- replacing the LOWER end by the clamped interpolated value, when the exact points lie above the exact value -/
theorem clampLo_within {i : CellM.Ivl} {mn mx : ℝ} (h : Wf1 i mn mx) {I : F64} (hI : Fin I) {L w : ℝ}
    (hIL : |rv I - L| ≤ epsClip) (hw : Within1 i w) (hwL : L ≤ w) :
    Within1 (Ivl.clampPoint i I, i.2) w := by
  obtain ⟨fc, ec⟩ := rv_clampPoint i I h.1 h.2.1 hI
  obtain ⟨c1, c2, c3, c4⟩ := clamp_facts (rv i.1) (rv i.2) (rv I) h.2.2.1
  rw [← ec] at c1 c2 c3 c4
  refine within1_setLo hw ?_
  rw [abs_le] at hIL
  rcases le_total (rv i.1) (rv I) with hc | hc
  · rw [max_eq_right hc] at c4; linarith
  · rw [max_eq_left hc] at c4; linarith [hw.1]

theorem clampHi_within {i : CellM.Ivl} {mn mx : ℝ} (h : Wf1 i mn mx) {I : F64} (hI : Fin I) {L w : ℝ}
    (hIL : |rv I - L| ≤ epsClip) (hw : Within1 i w) (hwL : w ≤ L) :
    Within1 (i.1, Ivl.clampPoint i I) w := (clampHi_step h hI hIL hw hwL).2

/-! ### the sign of the slope -/

/-- `positiveSlope` in real terms: the product of the two coordinate differences is `≥ 0` / `≤ 0` -/
theorem positiveSlope_sign (fe : FaceEdge) (h : FaceEdgeOK fe) :
    (positiveSlope fe = true → 0 ≤ (rv fe.b.2 - rv fe.a.2) * (rv fe.b.1 - rv fe.a.1)) ∧
    (positiveSlope fe = false → (rv fe.b.2 - rv fe.a.2) * (rv fe.b.1 - rv fe.a.1) ≤ 0) := by
  obtain ⟨⟨fa1, _⟩, ⟨fa2, _⟩, ⟨fb1, _⟩, ⟨fb2, _⟩⟩ := h
  unfold positiveSlope
  have g1 := gt_iff_rv fa1 fb1
  have g2 := gt_iff_rv fa2 fb2
  cases h1 : F64.gt fe.a.1 fe.b.1 <;> cases h2 : F64.gt fe.a.2 fe.b.2 <;> rw [h1] at g1 <;> rw [h2] at g2 <;>
    simp only [Bool.false_eq_true, false_iff, true_iff, not_lt] at g1 g2
  · refine ⟨fun _ => mul_nonneg (by linarith) (by linarith), fun h => by simp at h⟩
  · refine ⟨fun h => by simp at h, fun _ => mul_nonpos_of_nonpos_of_nonneg (by linarith) (by linarith)⟩
  · refine ⟨fun h => by simp at h, fun _ => mul_nonpos_of_nonneg_of_nonpos (by linarith) (by linarith)⟩
  · refine ⟨fun _ => mul_nonneg_of_nonpos_of_nonpos (by linarith) (by linarith), fun h => by simp at h⟩

/-- the clip value lies between the two endpoints and the endpoints are well apart -/
theorem between_of_wf {i : CellM.Ivl} {a b x : F64} (h : Wf1 i (min (rv a) (rv b)) (max (rv a) (rv b)))
    (hlo : rv i.1 < rv x) (hhi : rv x < rv i.2) (hx49 : 1 / 2 ^ 49 ≤ |rv x|) :
    ((rv a ≤ rv x ∧ rv x ≤ rv b) ∨ (rv b ≤ rv x ∧ rv x ≤ rv a)) ∧ 1 / 2 ^ 200 ≤ |rv b - rv a| ∧
      rv b - rv a ≠ 0 := by
  obtain ⟨_, _, _, d, e⟩ := h
  have hpos : (0 : ℝ) < 1 / 2 ^ 200 := by positivity
  rcases le_total (rv a) (rv b) with hab | hab
  · rw [min_eq_left hab] at d
    rw [max_eq_right hab] at e
    have g1 := float_gap_lt (a := a) (x := x) (by linarith) hx49
    have hba : 1 / 2 ^ 200 ≤ rv b - rv a := by linarith
    refine ⟨Or.inl ⟨by linarith, by linarith⟩, ?_, by linarith⟩
    rw [abs_of_nonneg (by linarith)]; exact hba
  · rw [min_eq_right hab] at d
    rw [max_eq_left hab] at e
    have g1 := float_gap_lt (a := b) (x := x) (by linarith) hx49
    have hba : 1 / 2 ^ 200 ≤ rv a - rv b := by linarith
    refine ⟨Or.inr ⟨by linarith, by linarith⟩, ?_, by linarith⟩
    rw [abs_of_nonpos (by linarith)]; linarith

theorem updateBound_fe (e : ClippedEdge) (uEnd : Nat) (u : F64) (vEnd : Nat) (v : F64) :
    (updateBound e uEnd u vEnd v).fe = e.fe := rfl

/-! ### one call of `clipUBound` -/

/-- **`clipUBound` is sound.**  `uEnd = 1`: the upper u end becomes `x`, points with `u ≤ x` are kept;
    `uEnd = 0`: the lower u end becomes `x`, points with `u ≥ x` are kept. -/
theorem clipUBound_sound (ce : ClippedEdge) (hw : WfCE ce) (uEnd : Nat) (hE : uEnd = 0 ∨ uEnd = 1) (x : F64)
    (hx : Fin x) (hx49 : 1 / 2 ^ 49 ≤ |rv x|) (hlo : rv ce.bound.1.1 < rv x) (hhi : rv x < rv ce.bound.1.2) :
    WfCE (clipUBound ce uEnd x) ∧
    ∀ t : ℝ, 0 ≤ t → t ≤ 1 → (uEnd = 1 → segU ce.fe t ≤ rv x) → (uEnd = 0 → rv x ≤ segU ce.fe t) →
      Within ce.bound (segU ce.fe t) (segV ce.fe t) →
      Within (clipUBound ce uEnd x).bound (segU ce.fe t) (segV ce.fe t) := by
  rcases clipUBound_shape ce uEnd x with h | ⟨_, h⟩
  · rw [h]; exact ⟨hw, fun t _ _ _ _ hin => hin⟩
  obtain ⟨hbtw, hgap, hne⟩ := between_of_wf hw.wu hlo hhi hx49
  obtain ⟨oa1, oa2, ob1, ob2⟩ := hw.feok
  obtain ⟨fI, eI⟩ := interpolateFloat64_err_pad x ce.fe.a.1 ce.fe.b.1 ce.fe.a.2 ce.fe.b.2 hx oa1 ob1 oa2 ob2 hbtw hgap
  have eI' : |rv (interpolateFloat64 x ce.fe.a.1 ce.fe.b.1 ce.fe.a.2 ce.fe.b.2) -
      (rv ce.fe.a.2 + (rv ce.fe.b.2 - rv ce.fe.a.2) * (rv x - rv ce.fe.a.1) / (rv ce.fe.b.1 - rv ce.fe.a.1))| ≤ epsClip := eI
  obtain ⟨sp, sn⟩ := positiveSlope_sign ce.fe hw.feok
  rw [h]
  rcases hE with rfl | rfl
  · -- uEnd = 0 : lower u end := x
    cases hps : positiveSlope ce.fe
    · -- negative slope : vEnd = 1
      have hv : (if ((0 : Nat) == 1) == false then (1 : Nat) else 0) = 1 := by decide
      rw [hv]
      have hb : (updateBound ce 0 x 1 (Ivl.clampPoint ce.bound.2
          (interpolateFloat64 x ce.fe.a.1 ce.fe.b.1 ce.fe.a.2 ce.fe.b.2))).bound =
          ((x, ce.bound.1.2), (ce.bound.2.1, Ivl.clampPoint ce.bound.2
            (interpolateFloat64 x ce.fe.a.1 ce.fe.b.1 ce.fe.a.2 ce.fe.b.2))) := rfl
      refine ⟨⟨hw.feok, ?_, ?_⟩, ?_⟩
      · rw [hb]; exact wf1_setLo hw.wu hx (le_of_lt hlo) (le_of_lt hhi)
      · rw [hb]; exact clampHi_wf hw.wv fI
      · intro t h0 h1 _ hk hin
        rw [hb]
        have hside := slope_le_of_nonpos (rv ce.fe.a.1) (rv ce.fe.b.1) (rv ce.fe.a.2) (rv ce.fe.b.2) (rv x) t hne
          (sn hps) (hk rfl)
        exact ⟨within1_setLo hin.1 (by have := hk rfl; have := epsClip_nonneg; linarith),
          clampHi_within hw.wv fI eI' hin.2 hside⟩
    · -- positive slope : vEnd = 0
      have hv : (if ((0 : Nat) == 1) == true then (1 : Nat) else 0) = 0 := by decide
      rw [hv]
      have hb : (updateBound ce 0 x 0 (Ivl.clampPoint ce.bound.2
          (interpolateFloat64 x ce.fe.a.1 ce.fe.b.1 ce.fe.a.2 ce.fe.b.2))).bound =
          ((x, ce.bound.1.2), (Ivl.clampPoint ce.bound.2
            (interpolateFloat64 x ce.fe.a.1 ce.fe.b.1 ce.fe.a.2 ce.fe.b.2), ce.bound.2.2)) := rfl
      refine ⟨⟨hw.feok, ?_, ?_⟩, ?_⟩
      · rw [hb]; exact wf1_setLo hw.wu hx (le_of_lt hlo) (le_of_lt hhi)
      · rw [hb]; exact clampLo_wf hw.wv fI
      · intro t h0 h1 _ hk hin
        rw [hb]
        have hside := slope_ge_of_nonneg (rv ce.fe.a.1) (rv ce.fe.b.1) (rv ce.fe.a.2) (rv ce.fe.b.2) (rv x) t hne
          (sp hps) (hk rfl)
        exact ⟨within1_setLo hin.1 (by have := hk rfl; have := epsClip_nonneg; linarith),
          clampLo_within hw.wv fI eI' hin.2 hside⟩
  · -- uEnd = 1 : upper u end := x
    cases hps : positiveSlope ce.fe
    · -- negative slope : vEnd = 0
      have hv : (if ((1 : Nat) == 1) == false then (1 : Nat) else 0) = 0 := by decide
      rw [hv]
      have hb : (updateBound ce 1 x 0 (Ivl.clampPoint ce.bound.2
          (interpolateFloat64 x ce.fe.a.1 ce.fe.b.1 ce.fe.a.2 ce.fe.b.2))).bound =
          ((ce.bound.1.1, x), (Ivl.clampPoint ce.bound.2
            (interpolateFloat64 x ce.fe.a.1 ce.fe.b.1 ce.fe.a.2 ce.fe.b.2), ce.bound.2.2)) := rfl
      refine ⟨⟨hw.feok, ?_, ?_⟩, ?_⟩
      · rw [hb]; exact wf1_setHi hw.wu hx (le_of_lt hlo) (le_of_lt hhi)
      · rw [hb]; exact clampLo_wf hw.wv fI
      · intro t h0 h1 hk _ hin
        rw [hb]
        have hside := slope_ge_of_nonpos (rv ce.fe.a.1) (rv ce.fe.b.1) (rv ce.fe.a.2) (rv ce.fe.b.2) (rv x) t hne
          (sn hps) (hk rfl)
        exact ⟨within1_setHi hin.1 (by have := hk rfl; have := epsClip_nonneg; linarith),
          clampLo_within hw.wv fI eI' hin.2 hside⟩
    · -- positive slope : vEnd = 1
      have hv : (if ((1 : Nat) == 1) == true then (1 : Nat) else 0) = 1 := by decide
      rw [hv]
      have hb : (updateBound ce 1 x 1 (Ivl.clampPoint ce.bound.2
          (interpolateFloat64 x ce.fe.a.1 ce.fe.b.1 ce.fe.a.2 ce.fe.b.2))).bound =
          ((ce.bound.1.1, x), (ce.bound.2.1, Ivl.clampPoint ce.bound.2
            (interpolateFloat64 x ce.fe.a.1 ce.fe.b.1 ce.fe.a.2 ce.fe.b.2))) := rfl
      refine ⟨⟨hw.feok, ?_, ?_⟩, ?_⟩
      · rw [hb]; exact wf1_setHi hw.wu hx (le_of_lt hlo) (le_of_lt hhi)
      · rw [hb]; exact clampHi_wf hw.wv fI
      · intro t h0 h1 hk _ hin
        rw [hb]
        have hside := slope_le_of_nonneg (rv ce.fe.a.1) (rv ce.fe.b.1) (rv ce.fe.a.2) (rv ce.fe.b.2) (rv x) t hne
          (sp hps) (hk rfl)
        exact ⟨within1_setHi hin.1 (by have := hk rfl; have := epsClip_nonneg; linarith),
          clampHi_within hw.wv fI eI' hin.2 hside⟩

/-! ### one call of `clipVBound` (the mirror image) -/

/-- **`clipVBound` is sound.**  `vEnd = 1`: the upper v end becomes `x`, points with `v ≤ x` are kept;
    `vEnd = 0`: the lower v end becomes `x`, points with `v ≥ x` are kept. -/
theorem clipVBound_sound (ce : ClippedEdge) (hw : WfCE ce) (vEnd : Nat) (hE : vEnd = 0 ∨ vEnd = 1) (x : F64)
    (hx : Fin x) (hx49 : 1 / 2 ^ 49 ≤ |rv x|) (hlo : rv ce.bound.2.1 < rv x) (hhi : rv x < rv ce.bound.2.2) :
    WfCE (clipVBound ce vEnd x) ∧
    ∀ t : ℝ, 0 ≤ t → t ≤ 1 → (vEnd = 1 → segV ce.fe t ≤ rv x) → (vEnd = 0 → rv x ≤ segV ce.fe t) →
      Within ce.bound (segU ce.fe t) (segV ce.fe t) →
      Within (clipVBound ce vEnd x).bound (segU ce.fe t) (segV ce.fe t) := by
  rcases clipVBound_shape ce vEnd x with h | ⟨_, h⟩
  · rw [h]; exact ⟨hw, fun t _ _ _ _ hin => hin⟩
  obtain ⟨hbtw, hgap, hne⟩ := between_of_wf hw.wv hlo hhi hx49
  obtain ⟨oa1, oa2, ob1, ob2⟩ := hw.feok
  obtain ⟨fI, eI⟩ := interpolateFloat64_err_pad x ce.fe.a.2 ce.fe.b.2 ce.fe.a.1 ce.fe.b.1 hx oa2 ob2 oa1 ob1 hbtw hgap
  have eI' : |rv (interpolateFloat64 x ce.fe.a.2 ce.fe.b.2 ce.fe.a.1 ce.fe.b.1) -
      (rv ce.fe.a.1 + (rv ce.fe.b.1 - rv ce.fe.a.1) * (rv x - rv ce.fe.a.2) / (rv ce.fe.b.2 - rv ce.fe.a.2))| ≤ epsClip := eI
  obtain ⟨sp0, sn0⟩ := positiveSlope_sign ce.fe hw.feok
  have sp : positiveSlope ce.fe = true → 0 ≤ (rv ce.fe.b.1 - rv ce.fe.a.1) * (rv ce.fe.b.2 - rv ce.fe.a.2) :=
    fun h => by have := sp0 h; rwa [mul_comm] at this
  have sn : positiveSlope ce.fe = false → (rv ce.fe.b.1 - rv ce.fe.a.1) * (rv ce.fe.b.2 - rv ce.fe.a.2) ≤ 0 :=
    fun h => by have := sn0 h; rwa [mul_comm] at this
  rw [h]
  rcases hE with rfl | rfl
  · -- vEnd = 0 : lower v end := x
    cases hps : positiveSlope ce.fe
    · -- negative slope : uEnd = 1
      have hv : (if ((0 : Nat) == 1) == false then (1 : Nat) else 0) = 1 := by decide
      rw [hv]
      have hb : (updateBound ce 1 (Ivl.clampPoint ce.bound.1
          (interpolateFloat64 x ce.fe.a.2 ce.fe.b.2 ce.fe.a.1 ce.fe.b.1)) 0 x).bound =
          ((ce.bound.1.1, Ivl.clampPoint ce.bound.1
            (interpolateFloat64 x ce.fe.a.2 ce.fe.b.2 ce.fe.a.1 ce.fe.b.1)), (x, ce.bound.2.2)) := rfl
      refine ⟨⟨hw.feok, ?_, ?_⟩, ?_⟩
      · rw [hb]; exact clampHi_wf hw.wu fI
      · rw [hb]; exact wf1_setLo hw.wv hx (le_of_lt hlo) (le_of_lt hhi)
      · intro t h0 h1 _ hk hin
        rw [hb]
        have hside := slope_le_of_nonpos (rv ce.fe.a.2) (rv ce.fe.b.2) (rv ce.fe.a.1) (rv ce.fe.b.1) (rv x) t hne
          (sn hps) (hk rfl)
        exact ⟨clampHi_within hw.wu fI eI' hin.1 hside,
          within1_setLo hin.2 (by have := hk rfl; have := epsClip_nonneg; linarith)⟩
    · -- positive slope : uEnd = 0
      have hv : (if ((0 : Nat) == 1) == true then (1 : Nat) else 0) = 0 := by decide
      rw [hv]
      have hb : (updateBound ce 0 (Ivl.clampPoint ce.bound.1
          (interpolateFloat64 x ce.fe.a.2 ce.fe.b.2 ce.fe.a.1 ce.fe.b.1)) 0 x).bound =
          ((Ivl.clampPoint ce.bound.1
            (interpolateFloat64 x ce.fe.a.2 ce.fe.b.2 ce.fe.a.1 ce.fe.b.1), ce.bound.1.2), (x, ce.bound.2.2)) := rfl
      refine ⟨⟨hw.feok, ?_, ?_⟩, ?_⟩
      · rw [hb]; exact clampLo_wf hw.wu fI
      · rw [hb]; exact wf1_setLo hw.wv hx (le_of_lt hlo) (le_of_lt hhi)
      · intro t h0 h1 _ hk hin
        rw [hb]
        have hside := slope_ge_of_nonneg (rv ce.fe.a.2) (rv ce.fe.b.2) (rv ce.fe.a.1) (rv ce.fe.b.1) (rv x) t hne
          (sp hps) (hk rfl)
        exact ⟨clampLo_within hw.wu fI eI' hin.1 hside,
          within1_setLo hin.2 (by have := hk rfl; have := epsClip_nonneg; linarith)⟩
  · -- vEnd = 1 : upper v end := x
    cases hps : positiveSlope ce.fe
    · -- negative slope : uEnd = 0
      have hv : (if ((1 : Nat) == 1) == false then (1 : Nat) else 0) = 0 := by decide
      rw [hv]
      have hb : (updateBound ce 0 (Ivl.clampPoint ce.bound.1
          (interpolateFloat64 x ce.fe.a.2 ce.fe.b.2 ce.fe.a.1 ce.fe.b.1)) 1 x).bound =
          ((Ivl.clampPoint ce.bound.1
            (interpolateFloat64 x ce.fe.a.2 ce.fe.b.2 ce.fe.a.1 ce.fe.b.1), ce.bound.1.2), (ce.bound.2.1, x)) := rfl
      refine ⟨⟨hw.feok, ?_, ?_⟩, ?_⟩
      · rw [hb]; exact clampLo_wf hw.wu fI
      · rw [hb]; exact wf1_setHi hw.wv hx (le_of_lt hlo) (le_of_lt hhi)
      · intro t h0 h1 hk _ hin
        rw [hb]
        have hside := slope_ge_of_nonpos (rv ce.fe.a.2) (rv ce.fe.b.2) (rv ce.fe.a.1) (rv ce.fe.b.1) (rv x) t hne
          (sn hps) (hk rfl)
        exact ⟨clampLo_within hw.wu fI eI' hin.1 hside,
          within1_setHi hin.2 (by have := hk rfl; have := epsClip_nonneg; linarith)⟩
    · -- positive slope : uEnd = 1
      have hv : (if ((1 : Nat) == 1) == true then (1 : Nat) else 0) = 1 := by decide
      rw [hv]
      have hb : (updateBound ce 1 (Ivl.clampPoint ce.bound.1
          (interpolateFloat64 x ce.fe.a.2 ce.fe.b.2 ce.fe.a.1 ce.fe.b.1)) 1 x).bound =
          ((ce.bound.1.1, Ivl.clampPoint ce.bound.1
            (interpolateFloat64 x ce.fe.a.2 ce.fe.b.2 ce.fe.a.1 ce.fe.b.1)), (ce.bound.2.1, x)) := rfl
      refine ⟨⟨hw.feok, ?_, ?_⟩, ?_⟩
      · rw [hb]; exact clampHi_wf hw.wu fI
      · rw [hb]; exact wf1_setHi hw.wv hx (le_of_lt hlo) (le_of_lt hhi)
      · intro t h0 h1 hk _ hin
        rw [hb]
        have hside := slope_le_of_nonneg (rv ce.fe.a.2) (rv ce.fe.b.2) (rv ce.fe.a.1) (rv ce.fe.b.1) (rv x) t hne
          (sp hps) (hk rfl)
        exact ⟨clampHi_within hw.wu fI eI' hin.1 hside,
          within1_setHi hin.2 (by have := hk rfl; have := epsClip_nonneg; linarith)⟩

/-! ### the root bound `RectFromPoints(a, b)` -/

theorem addPoint_self_cases (a b : F64) (ha : Fin a) (hb : Fin b) :
    Fin (Ivl.addPoint (a, a) b).1 ∧ Fin (Ivl.addPoint (a, a) b).2 ∧
    rv (Ivl.addPoint (a, a) b).1 = min (rv a) (rv b) ∧ rv (Ivl.addPoint (a, a) b).2 = max (rv a) (rv b) := by
  have he : CellM.Ivl.isEmpty (a, a) = false := by
    unfold CellM.Ivl.isEmpty
    cases hg : F64.gt a a
    · rfl
    · have := (gt_iff_rv ha ha).1 hg; exact absurd this (lt_irrefl _)
  unfold Ivl.addPoint
  simp only [he, Bool.false_eq_true, if_false]
  by_cases h1 : F64.lt b a = true
  · simp only [h1, if_true]
    have := (lt_iff_rv hb ha).1 h1
    exact ⟨hb, ha, by rw [min_eq_right (le_of_lt this)], by rw [max_eq_left (le_of_lt this)]⟩
  · have h1' : F64.lt b a = false := by simpa using h1
    simp only [h1', Bool.false_eq_true, if_false]
    have n1 : ¬ rv b < rv a := fun hc => h1 ((lt_iff_rv hb ha).2 hc)
    by_cases h2 : F64.gt b a = true
    · simp only [h2, if_true]
      have := (gt_iff_rv hb ha).1 h2
      exact ⟨ha, hb, by rw [min_eq_left (le_of_lt this)], by rw [max_eq_right (le_of_lt this)]⟩
    · have h2' : F64.gt b a = false := by simpa using h2
      simp only [h2', Bool.false_eq_true, if_false]
      have n2 : ¬ rv a < rv b := fun hc => h2 ((gt_iff_rv hb ha).2 hc)
      have : rv a = rv b := le_antisymm (not_lt.mp n1) (not_lt.mp n2)
      exact ⟨ha, ha, by rw [this, min_self], by rw [this, max_self]⟩

/-- the bound the builder starts from is well-formed and contains the whole exact segment -/
theorem root_sound (fe : FaceEdge) (h : FaceEdgeOK fe) :
    WfCE ⟨fe, rectFromPoints fe.a fe.b⟩ ∧
    ∀ t : ℝ, 0 ≤ t → t ≤ 1 → Within (rectFromPoints fe.a fe.b) (segU fe t) (segV fe t) := by
  have h' := h
  obtain ⟨⟨fa1, _⟩, ⟨fa2, _⟩, ⟨fb1, _⟩, ⟨fb2, _⟩⟩ := h
  obtain ⟨u1, u2, u3, u4⟩ := addPoint_self_cases fe.a.1 fe.b.1 fa1 fb1
  obtain ⟨v1, v2, v3, v4⟩ := addPoint_self_cases fe.a.2 fe.b.2 fa2 fb2
  have e1 : (rectFromPoints fe.a fe.b).1 = Ivl.addPoint (fe.a.1, fe.a.1) fe.b.1 := rfl
  have e2 : (rectFromPoints fe.a fe.b).2 = Ivl.addPoint (fe.a.2, fe.a.2) fe.b.2 := rfl
  refine ⟨⟨h', ?_, ?_⟩, ?_⟩
  · show Wf1 (rectFromPoints fe.a fe.b).1 _ _
    rw [e1]
    exact ⟨u1, u2, by rw [u3, u4]; exact min_le_max, le_of_eq u3.symm, le_of_eq u4⟩
  · show Wf1 (rectFromPoints fe.a fe.b).2 _ _
    rw [e2]
    exact ⟨v1, v2, by rw [v3, v4]; exact min_le_max, le_of_eq v3.symm, le_of_eq v4⟩
  · intro t h0 h1
    have bu := seg_between (rv fe.a.1) (rv fe.b.1) t h0 h1
    have bv := seg_between (rv fe.a.2) (rv fe.b.2) t h0 h1
    have := epsClip_nonneg
    unfold Within Within1
    rw [e1, e2, u3, u4, v3, v4]
    unfold segU segV
    exact ⟨⟨by linarith [bu.1], by linarith [bu.2]⟩, ⟨by linarith [bv.1], by linarith [bv.2]⟩⟩

end S2Proofs.C06Clip
