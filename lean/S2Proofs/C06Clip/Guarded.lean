/-
  S2Proofs.C06Clip.Guarded — index invariant I1 of the built ShapeIndex from the GUARDED clipping hypotheses.

  The hypothesis records of `S2Proofs.C06.BuildI1` / `BuildClip` / `BuildInd` quantify the per-call clipping facts over
  ALL `pre : Bool`, although `middle p padding true` is the preset rectangle `[-padding, padding]²` of the FACE cells and
  the build passes `pre = true` only for face cells; and `ShrinkSound` quantifies over the cells of all faces although the
  build only asks about cells of the face being built.  This file re-does the chain
      `ClipSoundNG → ClipSoundG → BuildStepG (induction over the whole build) → EdgesOK → CellI1 → I1`
  with the guard `pre = true → k = 0` (k = level of the cell) and the face-restricted `ShrinkSoundF`
  (`S2Proofs.C06Clip.Defs`).  The proofs are the existing ones with the guard threaded through; every lemma that does not
  mention the too-strong records is reused.
-/
import S2Proofs.C06Clip.Defs
import S2Proofs.C06.BuildSorted
import S2Proofs.C06.BuildClip
import S2Proofs.Properties.C06_BuildI3
open S2 S2.CellID S2.Hilbert S2.PaddedCellM S2.IndexBuild S2Proofs.C12H S2Proofs.C06PC S2Proofs.C06BuildH

set_option linter.unusedSimpArgs false
namespace S2Proofs.C06Clip

/-! ### the step-level hypothesis, guarded -/

/-- `S2Proofs.C06BuildH.ClipSound` with the guard `pre = true → k = 0` and `meets_mono` only for parent / child -/
structure ClipSoundG (Meets : FaceEdge → CellID → Prop) (BoundOK : ClippedEdge → CellID → Prop) : Prop where
  /-- an edge that meets a child cell meets the cell -/
  meets_child : ∀ (fe : FaceEdge) (c : CellID) (k pos : Nat), IsCell c k → k < 30 → pos < 4 →
    Meets fe (child c pos) → Meets fe c
  /-- whatever the child clipping passes on has a sound bound for the child -/
  bound_step : ∀ (c : CellID) (k : Nat) (pre : Bool) (ce ce' : ClippedEdge) (pos : Nat), IsCell c k → k < 30 →
    (pre = true → k = 0) → pos < 4 → BoundOK ce c →
    (edgeChildren (middle (fromCellID c) cellPadding pre) ce).get
      (childIJ (fromCellID c) pos).1 (childIJ (fromCellID c) pos).2 = some ce' → BoundOK ce' (child c pos)
  /-- an edge with a sound bound that meets the child is passed on to the child -/
  keep_step : ∀ (c : CellID) (k : Nat) (pre : Bool) (ce : ClippedEdge) (pos : Nat), IsCell c k → k < 30 →
    (pre = true → k = 0) → pos < 4 → BoundOK ce c → Meets ce.fe (child c pos) →
    (edgeChildren (middle (fromCellID c) cellPadding pre) ce).get
      (childIJ (fromCellID c) pos).1 (childIJ (fromCellID c) pos).2 ≠ none

/-- non-vacuity: the hypothesis records are consistent -/
example : ClipSoundG (fun _ _ => False) (fun _ _ => True) := by
  constructor <;> intros <;> trivial

example : ClipSoundNG (fun _ _ => False) (fun _ _ => True) (fun _ _ _ _ => False) (fun _ _ _ _ => True) := by
  constructor <;> intros <;> trivial

section Narrow
variable {Meets : FaceEdge → CellID → Prop} {BoundOK : ClippedEdge → CellID → Prop}
  {M : FaceEdge → CellID → Option Nat → Option Nat → Prop}
  {B : ClippedEdge → CellID → Option Nat → Option Nat → Prop}

/-- `clipVAxis`: whatever it passes on is sound for the corresponding v half -/
theorem clipVAxis_boundG (h : ClipSoundNG Meets BoundOK M B) {c : CellID} {k : Nat} (pre : Bool)
    (hc : IsCell c k) (hk : k < 30) (hp : pre = true → k = 0) (e : ClippedEdge) (i : Option Nat) (hi : RegIdx i) (hB : B e c i none) :
    (∀ x, (clipVAxis e (middle (fromCellID c) cellPadding pre).2).1 = some x → B x c i (some 0)) ∧
    (∀ x, (clipVAxis e (middle (fromCellID c) cellPadding pre).2).2 = some x → B x c i (some 1)) := by
  unfold clipVAxis
  by_cases h1 : F64.le e.bound.2.2 (middle (fromCellID c) cellPadding pre).2.1 = true
  · simp only [h1, ↓reduceIte]
    refine ⟨?_, ?_⟩
    · intro x hx; simp at hx; subst hx; exact h.B_mono_v _ _ _ 0 hi (by omega) hB
    · intro x hx; simp at hx
  · simp only [h1, ↓reduceIte]
    by_cases h2 : F64.ge e.bound.2.1 (middle (fromCellID c) cellPadding pre).2.2 = true
    · simp only [h2, ↓reduceIte]
      refine ⟨?_, ?_⟩
      · intro x hx; simp at hx
      · intro x hx; simp at hx; subst hx; exact h.B_mono_v _ _ _ 1 hi (by omega) hB
    · simp only [h2, ↓reduceIte]
      have h1' : F64.le e.bound.2.2 (middle (fromCellID c) cellPadding pre).2.1 = false := by simpa using h1
      have h2' : F64.ge e.bound.2.1 (middle (fromCellID c) cellPadding pre).2.2 = false := by simpa using h2
      refine ⟨?_, ?_⟩
      · intro x hx; simp at hx; subst hx; exact h.clipV_hi c k pre e i hc hk hp hi hB h1' h2'
      · intro x hx; simp at hx; subst hx; exact h.clipV_lo c k pre e i hc hk hp hi hB h1' h2'

/-- `clipVAxis`: an edge that meets a v half is passed to it -/
theorem clipVAxis_keepG (h : ClipSoundNG Meets BoundOK M B) {c : CellID} {k : Nat} (pre : Bool)
    (hc : IsCell c k) (hk : k < 30) (hp : pre = true → k = 0) (e : ClippedEdge) (i : Option Nat) (hi : RegIdx i) (hB : B e c i none) :
    (M e.fe c i (some 0) → (clipVAxis e (middle (fromCellID c) cellPadding pre).2).1 ≠ none) ∧
    (M e.fe c i (some 1) → (clipVAxis e (middle (fromCellID c) cellPadding pre).2).2 ≠ none) := by
  unfold clipVAxis
  by_cases h1 : F64.le e.bound.2.2 (middle (fromCellID c) cellPadding pre).2.1 = true
  · simp only [h1, ↓reduceIte]
    refine ⟨fun _ => by simp, ?_⟩
    intro hm
    have := h.keepV_hi c k pre e i hc hk hp hi hB hm
    rw [h1] at this; cases this
  · simp only [h1, ↓reduceIte]
    by_cases h2 : F64.ge e.bound.2.1 (middle (fromCellID c) cellPadding pre).2.2 = true
    · simp only [h2, ↓reduceIte]
      refine ⟨?_, fun _ => by simp⟩
      intro hm
      have := h.keepV_lo c k pre e i hc hk hp hi hB hm
      rw [h2] at this; cases this
    · simp only [h2, ↓reduceIte]
      exact ⟨fun _ => by simp, fun _ => by simp⟩

/-- `edgeChildren`: each of the four slots, when filled, carries a bound sound for its quarter -/
theorem edgeChildren_boundG (h : ClipSoundNG Meets BoundOK M B) {c : CellID} {k : Nat} (pre : Bool)
    (hc : IsCell c k) (hk : k < 30) (hp : pre = true → k = 0) (e : ClippedEdge) (hB : B e c none none) :
    (∀ x, (edgeChildren (middle (fromCellID c) cellPadding pre) e).c00 = some x → B x c (some 0) (some 0)) ∧
    (∀ x, (edgeChildren (middle (fromCellID c) cellPadding pre) e).c01 = some x → B x c (some 0) (some 1)) ∧
    (∀ x, (edgeChildren (middle (fromCellID c) cellPadding pre) e).c10 = some x → B x c (some 1) (some 0)) ∧
    (∀ x, (edgeChildren (middle (fromCellID c) cellPadding pre) e).c11 = some x → B x c (some 1) (some 1)) := by
  have r0 : RegIdx (some 0) := regIdx_some (by omega)
  have r1 : RegIdx (some 1) := regIdx_some (by omega)
  unfold edgeChildren
  by_cases h1 : F64.le e.bound.1.2 (middle (fromCellID c) cellPadding pre).1.1 = true
  · simp only [h1, ↓reduceIte]
    have hv := clipVAxis_boundG h pre hc hk hp e (some 0) r0 (h.B_mono_u _ _ 0 (by omega) hB)
    exact ⟨hv.1, hv.2, (fun x hx => by simp at hx), (fun x hx => by simp at hx)⟩
  · simp only [h1, ↓reduceIte]
    by_cases h2 : F64.ge e.bound.1.1 (middle (fromCellID c) cellPadding pre).1.2 = true
    · simp only [h2, ↓reduceIte]
      have hv := clipVAxis_boundG h pre hc hk hp e (some 1) r1 (h.B_mono_u _ _ 1 (by omega) hB)
      exact ⟨(fun x hx => by simp at hx), (fun x hx => by simp at hx), hv.1, hv.2⟩
    · simp only [h2, ↓reduceIte]
      have h1' : F64.le e.bound.1.2 (middle (fromCellID c) cellPadding pre).1.1 = false := by simpa using h1
      have h2' : F64.ge e.bound.1.1 (middle (fromCellID c) cellPadding pre).1.2 = false := by simpa using h2
      have hU0 := h.clipU_hi c k pre e hc hk hp hB h1' h2'
      have hU1 := h.clipU_lo c k pre e hc hk hp hB h1' h2'
      by_cases h3 : F64.le e.bound.2.2 (middle (fromCellID c) cellPadding pre).2.1 = true
      · simp only [h3, ↓reduceIte]
        refine ⟨?_, (fun x hx => by simp at hx), ?_, (fun x hx => by simp at hx)⟩
        · intro x hx; simp at hx; subst hx; exact h.B_mono_v _ _ _ 0 r0 (by omega) hU0
        · intro x hx; simp at hx; subst hx; exact h.B_mono_v _ _ _ 0 r1 (by omega) hU1
      · simp only [h3, ↓reduceIte]
        by_cases h4 : F64.ge e.bound.2.1 (middle (fromCellID c) cellPadding pre).2.2 = true
        · simp only [h4, ↓reduceIte]
          refine ⟨(fun x hx => by simp at hx), ?_, (fun x hx => by simp at hx), ?_⟩
          · intro x hx; simp at hx; subst hx; exact h.B_mono_v _ _ _ 1 r0 (by omega) hU0
          · intro x hx; simp at hx; subst hx; exact h.B_mono_v _ _ _ 1 r1 (by omega) hU1
        · simp only [h4, ↓reduceIte]
          have hv0 := clipVAxis_boundG h pre hc hk hp _ (some 0) r0 hU0
          have hv1 := clipVAxis_boundG h pre hc hk hp _ (some 1) r1 hU1
          exact ⟨hv0.1, hv0.2, hv1.1, hv1.2⟩

/-- `edgeChildren`: an edge that meets a quarter fills the slot of that quarter -/
theorem edgeChildren_keepG (h : ClipSoundNG Meets BoundOK M B) {c : CellID} {k : Nat} (pre : Bool)
    (hc : IsCell c k) (hk : k < 30) (hp : pre = true → k = 0) (e : ClippedEdge) (hB : B e c none none) :
    (M e.fe c (some 0) (some 0) → (edgeChildren (middle (fromCellID c) cellPadding pre) e).c00 ≠ none) ∧
    (M e.fe c (some 0) (some 1) → (edgeChildren (middle (fromCellID c) cellPadding pre) e).c01 ≠ none) ∧
    (M e.fe c (some 1) (some 0) → (edgeChildren (middle (fromCellID c) cellPadding pre) e).c10 ≠ none) ∧
    (M e.fe c (some 1) (some 1) → (edgeChildren (middle (fromCellID c) cellPadding pre) e).c11 ≠ none) := by
  have r0 : RegIdx (some 0) := regIdx_some (by omega)
  have r1 : RegIdx (some 1) := regIdx_some (by omega)
  -- consequences of meeting a quarter
  have mU0 : ∀ j, j < 2 → M e.fe c (some 0) (some j) → M e.fe c (some 0) none :=
    fun j hj hm => h.M_mono_v _ _ _ j r0 hj hm
  have mU1 : ∀ j, j < 2 → M e.fe c (some 1) (some j) → M e.fe c (some 1) none :=
    fun j hj hm => h.M_mono_v _ _ _ j r1 hj hm
  have mV0 : ∀ i, i < 2 → M e.fe c (some i) (some 0) → M e.fe c none (some 0) :=
    fun i hi hm => h.M_mono_u _ _ i _ hi r0 hm
  have mV1 : ∀ i, i < 2 → M e.fe c (some i) (some 1) → M e.fe c none (some 1) :=
    fun i hi hm => h.M_mono_u _ _ i _ hi r1 hm
  unfold edgeChildren
  by_cases h1 : F64.le e.bound.1.2 (middle (fromCellID c) cellPadding pre).1.1 = true
  · simp only [h1, ↓reduceIte]
    have hv := clipVAxis_keepG h pre hc hk hp e (some 0) r0 (h.B_mono_u _ _ 0 (by omega) hB)
    have no1 : ∀ j, j < 2 → M e.fe c (some 1) (some j) → False := by
      intro j hj hm
      have := h.keepU_hi c k pre e hc hk hp hB (mU1 j hj hm)
      rw [h1] at this; cases this
    exact ⟨hv.1, hv.2, (fun hm => (no1 0 (by omega) hm).elim), (fun hm => (no1 1 (by omega) hm).elim)⟩
  · simp only [h1, ↓reduceIte]
    by_cases h2 : F64.ge e.bound.1.1 (middle (fromCellID c) cellPadding pre).1.2 = true
    · simp only [h2, ↓reduceIte]
      have hv := clipVAxis_keepG h pre hc hk hp e (some 1) r1 (h.B_mono_u _ _ 1 (by omega) hB)
      have no0 : ∀ j, j < 2 → M e.fe c (some 0) (some j) → False := by
        intro j hj hm
        have := h.keepU_lo c k pre e hc hk hp hB (mU0 j hj hm)
        rw [h2] at this; cases this
      exact ⟨(fun hm => (no0 0 (by omega) hm).elim), (fun hm => (no0 1 (by omega) hm).elim), hv.1, hv.2⟩
    · simp only [h2, ↓reduceIte]
      have h1' : F64.le e.bound.1.2 (middle (fromCellID c) cellPadding pre).1.1 = false := by simpa using h1
      have h2' : F64.ge e.bound.1.1 (middle (fromCellID c) cellPadding pre).1.2 = false := by simpa using h2
      by_cases h3 : F64.le e.bound.2.2 (middle (fromCellID c) cellPadding pre).2.1 = true
      · simp only [h3, ↓reduceIte]
        have no1 : ∀ i, i < 2 → M e.fe c (some i) (some 1) → False := by
          intro i hi hm
          have := h.keepV_hi c k pre e none hc hk hp regIdx_none hB (mV1 i hi hm)
          rw [h3] at this; cases this
        exact ⟨fun _ => by simp, (fun hm => (no1 0 (by omega) hm).elim), fun _ => by simp,
          (fun hm => (no1 1 (by omega) hm).elim)⟩
      · simp only [h3, ↓reduceIte]
        by_cases h4 : F64.ge e.bound.2.1 (middle (fromCellID c) cellPadding pre).2.2 = true
        · simp only [h4, ↓reduceIte]
          have no0 : ∀ i, i < 2 → M e.fe c (some i) (some 0) → False := by
            intro i hi hm
            have := h.keepV_lo c k pre e none hc hk hp regIdx_none hB (mV0 i hi hm)
            rw [h4] at this; cases this
          exact ⟨(fun hm => (no0 0 (by omega) hm).elim), fun _ => by simp,
            (fun hm => (no0 1 (by omega) hm).elim), fun _ => by simp⟩
        · simp only [h4, ↓reduceIte]
          have hU0 := h.clipU_hi c k pre e hc hk hp hB h1' h2'
          have hU1 := h.clipU_lo c k pre e hc hk hp hB h1' h2'
          have hv0 := clipVAxis_keepG h pre hc hk hp _ (some 0) r0 hU0
          have hv1 := clipVAxis_keepG h pre hc hk hp _ (some 1) r1 hU1
          rw [clipUBound_fe] at hv0 hv1
          exact ⟨hv0.1, hv0.2, hv1.1, hv1.2⟩

/-- the per-call facts imply the step-level hypothesis of I1 -/
theorem clipSoundG_of_narrow (h : ClipSoundNG Meets BoundOK M B) : ClipSoundG Meets BoundOK where
  meets_child := h.meets_child
  bound_step := by
    intro c k pre ce ce' pos hc hk hp hpos hOK hget
    have hB := h.B_whole c k ce hc hOK
    obtain ⟨b00, b01, b10, b11⟩ := edgeChildren_boundG h pre hc hk hp ce hB
    apply h.B_child c k ce' pos hc hk hpos
    obtain ⟨hi, hj⟩ := childIJ_fromCellID_lt hc pos hpos
    generalize (childIJ (fromCellID c) pos).1 = i at hi hget ⊢
    generalize (childIJ (fromCellID c) pos).2 = j at hj hget ⊢
    have hi' : i = 0 ∨ i = 1 := by omega
    have hj' : j = 0 ∨ j = 1 := by omega
    rcases hi' with rfl | rfl <;> rcases hj' with rfl | rfl <;> simp [Quad.get] at hget
    · exact b00 _ hget
    · exact b01 _ hget
    · exact b10 _ hget
    · exact b11 _ hget
  keep_step := by
    intro c k pre ce pos hc hk hp hpos hOK hm
    have hB := h.B_whole c k ce hc hOK
    obtain ⟨k00, k01, k10, k11⟩ := edgeChildren_keepG h pre hc hk hp ce hB
    have hM := h.M_child c k ce.fe pos hc hk hpos hm
    obtain ⟨hi, hj⟩ := childIJ_fromCellID_lt hc pos hpos
    generalize (childIJ (fromCellID c) pos).1 = i at hi hM ⊢
    generalize (childIJ (fromCellID c) pos).2 = j at hj hM ⊢
    have hi' : i = 0 ∨ i = 1 := by omega
    have hj' : j = 0 ∨ j = 1 := by omega
    rcases hi' with rfl | rfl <;> rcases hj' with rfl | rfl <;> simp only [Quad.get] <;> simp
    · exact k00 hM
    · exact k01 hM
    · exact k10 hM
    · exact k11 hM

end Narrow
/-! ### the induction over the build, guarded -/

/-- the build passes `pre = isFace c`, which is `true` only at level 0 -/
theorem isFace_guard {c : CellID} {k : Nat} (hc : IsCell c k) : isFace c = true → k = 0 := by
  intro h
  rw [hc.isFace_eq] at h
  exact of_decide_eq_true h

/-- the local obligations of the build induction (`S2Proofs.C06BuildH.BuildStep` with `ch` guarded by `pre = true → k = 0`) -/
structure BuildStepG (n : Nat) (F : IndexCell → Prop) (TP : Tracker → Nat → Prop)
    (EI : CellID → List ClippedEdge → Prop) (CP : IndexCell → Prop) : Prop where
  lvl : ∀ c es, EI c es → ∀ ce ∈ es, ce.fe.maxLevel ≤ 30
  make : ∀ (c : CellID) (k : Nat) (es : List ClippedEdge) (t : Tracker) (cells : List IndexCell) (t' : Tracker),
    IsCell c k → EI c es → TP t (lo c) → makeIndexCell n (fromCellID c) es t = some (cells, t') →
    (∀ x ∈ cells, F x) → TP t' (hi c + 2) ∧ ∀ x ∈ cells, CP x
  ch : ∀ (c : CellID) (k : Nat) (pre : Bool) (es : List ClippedEdge) (pos : Nat), IsCell c k → k < 30 →
    (pre = true → k = 0) → pos < 4 → EI c es →
    EI (child c pos) (childEdges (es.map (edgeChildren (middle (fromCellID c) cellPadding pre)))
      (childIJ (fromCellID c) pos).1 (childIJ (fromCellID c) pos).2)
  skip : ∀ (t : Tracker) (b e : Nat), b ≤ e → TP t b →
    (∀ c, isValid c = true → b ≤ lo c → hi c < e → EI c []) → TP t e

variable {n : Nat} {F : IndexCell → Prop} {TP : Tracker → Nat → Prop} {EI : CellID → List ClippedEdge → Prop} {CP : IndexCell → Prop}

theorem visitChild_indG (S : BuildStepG n F TP EI CP)
    {recur : PaddedCell → List ClippedEdge → Tracker → Res} {c : CellID} {k : Nat} (hc : IsCell c k) (hk : k < 30)
    {pos : Nat} (hpos : pos < 4) (quads : List Quad)
    (hE : EI (child c pos) (childEdges quads (childIJ (fromCellID c) pos).1 (childIJ (fromCellID c) pos).2))
    (hrec : ∀ t, TP t (lo (child c pos)) →
      (∀ x ∈ (recur (fromCellID (child c pos))
        (childEdges quads (childIJ (fromCellID c) pos).1 (childIJ (fromCellID c) pos).2) t).cells, F x) →
      TP (recur (fromCellID (child c pos))
        (childEdges quads (childIJ (fromCellID c) pos).1 (childIJ (fromCellID c) pos).2) t).t (hi (child c pos) + 2) ∧
      ∀ x ∈ (recur (fromCellID (child c pos))
        (childEdges quads (childIJ (fromCellID c) pos).1 (childIJ (fromCellID c) pos).2) t).cells, CP x)
    {r : Res} (hr : TP r.t (lo (child c pos))) (hcells : ∀ x ∈ r.cells, CP x)
    (hF : ∀ x ∈ (visitChild recur (fromCellID c) quads r pos).cells, F x) :
    TP (visitChild recur (fromCellID c) quads r pos).t (hi (child c pos) + 2) ∧
    ∀ x ∈ (visitChild recur (fromCellID c) quads r pos).cells, CP x := by
  have e : fromParentIJ (fromCellID c) (childIJ (fromCellID c) pos).1 (childIJ (fromCellID c) pos).2 =
      fromCellID (child c pos) := childAtPos_fromCellID hc hk hpos
  unfold visitChild at hF ⊢
  simp only [] at hF ⊢
  split
  · rename_i hcond
    rw [if_pos hcond] at hF
    rw [e] at hF ⊢
    obtain ⟨h1, h2⟩ := hrec r.t hr (fun x hx => hF x (List.mem_append_right _ hx))
    refine ⟨h1, ?_⟩
    intro x hx
    rcases List.mem_append.mp hx with hx | hx
    · exact hcells x hx
    · exact h2 x hx
  · rename_i hcond
    have hes : childEdges quads (childIJ (fromCellID c) pos).1 (childIJ (fromCellID c) pos).2 = [] := by
      cases hl : childEdges quads (childIJ (fromCellID c) pos).1 (childIJ (fromCellID c) pos).2 with
      | nil => rfl
      | cons a l => rw [hl] at hcond; simp at hcond
    have hids : r.t.shapeIDs = [] := by
      cases hl : r.t.shapeIDs with
      | nil => rfl
      | cons a l => rw [hl] at hcond; simp at hcond
    rw [hes] at hE
    have hmk := makeIndexCell_nil_nil n (fromCellID (child c pos)) r.t hids
    have := S.make (child c pos) (k + 1) [] r.t [] r.t (hc.child_isCell hk hpos) hE hr hmk (by simp)
    exact ⟨this.1, hcells⟩

theorem subdivide_indG (S : BuildStepG n F TP EI CP)
    {recur : PaddedCell → List ClippedEdge → Tracker → Res} {c : CellID} {k : Nat} (hc : IsCell c k) (hk : k < 30)
    (pre : Bool) (hp : pre = true → k = 0) (es : List ClippedEdge) (t : Tracker) (hE : EI c es) (hT : TP t (lo c))
    (hrec : ∀ pos, pos < 4 → ∀ t', TP t' (lo (child c pos)) →
      (∀ x ∈ (recur (fromCellID (child c pos))
        (childEdges (es.map (edgeChildren (middle (fromCellID c) cellPadding pre)))
          (childIJ (fromCellID c) pos).1 (childIJ (fromCellID c) pos).2) t').cells, F x) →
      TP (recur (fromCellID (child c pos))
        (childEdges (es.map (edgeChildren (middle (fromCellID c) cellPadding pre)))
          (childIJ (fromCellID c) pos).1 (childIJ (fromCellID c) pos).2) t').t (hi (child c pos) + 2) ∧
      ∀ x ∈ (recur (fromCellID (child c pos))
        (childEdges (es.map (edgeChildren (middle (fromCellID c) cellPadding pre)))
          (childIJ (fromCellID c) pos).1 (childIJ (fromCellID c) pos).2) t').cells, CP x)
    (hF : ∀ x ∈ (subdivide recur (fromCellID c) pre es t).cells, F x) :
    TP (subdivide recur (fromCellID c) pre es t).t (hi c + 2) ∧
    ∀ x ∈ (subdivide recur (fromCellID c) pre es t).cells, CP x := by
  obtain ⟨h0, h3, hstep⟩ := hc.child_ranges hk
  have e0 : lo (child c 0) = lo c := congrArg UInt64.toNat h0
  have e3 : hi (child c 3) = hi c := congrArg UInt64.toNat h3
  have s0 : hi (child c 0) + 2 = lo (child c 1) := hstep 0 (by omega)
  have s1 : hi (child c 1) + 2 = lo (child c 2) := hstep 1 (by omega)
  have s2 : hi (child c 2) + 2 = lo (child c 3) := hstep 2 (by omega)
  unfold subdivide at hF ⊢
  simp only [] at hF ⊢
  have hF3 := fun x hx => hF x (visitChild_cells_prefix _ _ _ _ 3 x hx)
  have hF2 := fun x hx => hF3 x (visitChild_cells_prefix _ _ _ _ 2 x hx)
  have hF1 := fun x hx => hF2 x (visitChild_cells_prefix _ _ _ _ 1 x hx)
  have g1 := visitChild_indG S hc hk (show 0 < 4 by omega) _ (S.ch c k pre es 0 hc hk hp (by omega) hE)
    (hrec 0 (by omega)) (r := ⟨[], t, true⟩) (by rw [e0]; exact hT) (by simp) hF1
  rw [s0] at g1
  have g2 := visitChild_indG S hc hk (show 1 < 4 by omega) _ (S.ch c k pre es 1 hc hk hp (by omega) hE)
    (hrec 1 (by omega)) g1.1 g1.2 hF2
  rw [s1] at g2
  have g3 := visitChild_indG S hc hk (show 2 < 4 by omega) _ (S.ch c k pre es 2 hc hk hp (by omega) hE)
    (hrec 2 (by omega)) g2.1 g2.2 hF3
  rw [s2] at g3
  have g4 := visitChild_indG S hc hk (show 3 < 4 by omega) _ (S.ch c k pre es 3 hc hk hp (by omega) hE)
    (hrec 3 (by omega)) g3.1 g3.2 hF
  rw [e3] at g4
  exact g4

/-- the induction over `updateEdges` -/
theorem updateEdges_indG (S : BuildStepG n F TP EI CP) :
    ∀ (fuel : Nat) (c : CellID) (k : Nat) (pre : Bool) (es : List ClippedEdge) (t : Tracker),
      IsCell c k → (pre = true → k = 0) → 31 ≤ k + fuel → EI c es → TP t (lo c) →
      (∀ x ∈ (updateEdges n fuel (fromCellID c) pre es t).cells, F x) →
      TP (updateEdges n fuel (fromCellID c) pre es t).t (hi c + 2) ∧
      ∀ x ∈ (updateEdges n fuel (fromCellID c) pre es t).cells, CP x := by
  intro fuel
  induction fuel with
  | zero => intro c k pre es t hc _ hf; have := hc.k_le; omega
  | succ fuel ih =>
    intro c k pre es t hc hp hf hE hT hF
    unfold updateEdges at hF ⊢
    cases hmk : makeIndexCell n (fromCellID c) es t with
    | some r =>
      obtain ⟨cells, t'⟩ := r
      rw [hmk] at hF
      simp only [] at hF ⊢
      exact S.make c k es t cells t' hc hE hT hmk hF
    | none =>
      rw [hmk] at hF
      simp only [] at hF ⊢
      rcases makeIndexCell_cases n (fromCellID c) es t with ⟨_, hcnt⟩ | h | ⟨cs, t', h, _⟩
      · obtain ⟨e, he, hl⟩ := countExceeds_true _ es 0 (by decide) hcnt
        rw [fromCellID_level hc] at hl
        have hk : k < 30 := by have := S.lvl c es hE e he; omega
        apply subdivide_indG S hc hk pre hp es t hE hT _ hF
        intro pos hpos t' hT' hF'
        exact ih (child c pos) (k + 1) false _ t' (hc.child_isCell hk hpos) (fun h => by cases h) (by omega)
          (S.ch c k pre es pos hc hk hp hpos hE) hT' hF'
      · rw [h] at hmk; cases hmk
      · rw [h] at hmk; cases hmk

theorem foldCells_indG (S : BuildStepG n F TP EI CP) (t : Tracker) (b e : Nat) (hT : TP t b)
    (hE : ∀ c, isValid c = true → b ≤ lo c → hi c < e → EI c []) :
    ∀ (L : List CellID) (r : Res), (∀ c ∈ L, isValid c = true ∧ b ≤ lo c ∧ hi c < e) → r.t = t →
      (∀ x ∈ r.cells, CP x) → (∀ x ∈ (skipFold n L r).cells, F x) →
      (skipFold n L r).t = t ∧ ∀ x ∈ (skipFold n L r).cells, CP x := by
  intro L
  induction L with
  | nil => intro r _ hr hc _; exact ⟨hr, hc⟩
  | cons c L ih =>
    intro r hL hr hc hF
    obtain ⟨hv, hb, he⟩ := hL c List.mem_cons_self
    obtain ⟨k, hk⟩ := (isValid_iff c).mp hv
    have vc := valid_facts hv
    unfold skipFold at hF ⊢
    rw [List.foldl_cons] at hF ⊢
    apply ih _ (fun c' hc' => hL c' (List.mem_cons_of_mem _ hc')) _ _ hF
    · simp only []
      rw [hr]
      exact updateEdges_nil_t n 30 _ _ t
    · simp only []
      intro x hx
      rcases List.mem_append.mp hx with hx | hx
      · exact hc x hx
      · rw [hr] at hx
        have hTc : TP t (lo c) := S.skip t b (lo c) hb hT
          (fun c' hv' hb' he' => hE c' hv' hb' (by omega))
        refine (updateEdges_indG S IndexBuild.fuel c k (isFace c) [] t hk (isFace_guard hk) (by unfold IndexBuild.fuel; omega)
          (hE c hv hb he) hTc ?_).2 x hx
        intro y hy
        apply hF y
        apply skipFold_prefix n L _ y
        simp only []
        rw [hr]
        exact List.mem_append_right _ hy

/-- `skipCellRange`: the tracker is untouched, `TP` moves to the end of the range, the interior-only cells are `CP` -/
theorem skipCellRange_indG (S : BuildStepG n F TP EI CP) {b e : CellID} (hb : b.toNat % 2 = 1) (he : IsPos e)
    (hbe : b.toNat ≤ e.toNat) (t : Tracker) (hT : TP t b.toNat)
    (hE : ∀ c, isValid c = true → b.toNat ≤ lo c → hi c < e.toNat → EI c [])
    (hF : ∀ x ∈ (skipCellRange n b e t).cells, F x) :
    (skipCellRange n b e t).t = t ∧ TP t e.toNat ∧ ∀ x ∈ (skipCellRange n b e t).cells, CP x := by
  have hTe : TP t e.toNat := S.skip t _ _ hbe hT hE
  unfold skipCellRange at hF ⊢
  split
  · exact ⟨rfl, hTe, by simp⟩
  · rename_i hcond
    rw [if_neg hcond] at hF
    obtain ⟨hav, _, _, hcov, _⟩ := fromRange_spec hb he hbe
    have := foldCells_indG S t b.toNat e.toNat hT hE (CellUnion.fromRange b e) ⟨[], t, true⟩ (by
      intro c hc
      have hv := hav c hc
      have vc := valid_facts hv
      have h1 := (hcov (lo c) vc.1).mp ⟨c, hc, Nat.le_refl _, by omega⟩
      have h2 := (hcov (hi c) vc.2.1).mp ⟨c, hc, by omega, Nat.le_refl _⟩
      exact ⟨hv, h1.1, h2.2⟩) rfl (by simp) hF
    exact ⟨this.1, hTe, this.2⟩

/-- `updateFaceEdges` of face `f` -/
theorem updateFaceEdges_indG (S : BuildStepG n F TP EI CP) (f : Nat) (hf : f < 6) (fes : List FaceEdge) (t : Tracker)
    (hT : TP t (lo (fromFace f)))
    (hroot : EI (rootCell f fes) (fes.map fun fe => (⟨fe, rectFromPoints fe.a fe.b⟩ : ClippedEdge)))
    (hoff : ∀ c, isValid c = true → lo (fromFace f) ≤ lo c → hi c ≤ hi (fromFace f) →
      (hi c < lo (rootCell f fes) ∨ hi (rootCell f fes) < lo c) → EI c [])
    (hnil : fes = [] → ∀ c, isValid c = true → lo (fromFace f) ≤ lo c → hi c ≤ hi (fromFace f) → EI c [])
    (hF : ∀ x ∈ (updateFaceEdges n f fes t).cells, F x) :
    TP (updateFaceEdges n f fes t).t (hi (fromFace f) + 2) ∧ ∀ x ∈ (updateFaceEdges n f fes t).cells, CP x := by
  obtain ⟨hi0, hj0, _⟩ := face_fromCellID f hf
  have hfs := S2Proofs.C01.fromFace_spec f hf
  have hcf : IsCell (fromFace f) 0 := fromFace_isCell f hf
  have vF := valid_facts hfs.2.1
  unfold updateFaceEdges at hF ⊢
  unfold rootCell faceBound at hroot hoff
  generalize (List.map (fun fe => ({ fe := fe, bound := rectFromPoints fe.a fe.b } : ClippedEdge)) fes) = ces
    at hroot hoff hF ⊢
  split
  · rename_i hcond
    have hfe : fes = [] := by
      cases hl : fes with
      | nil => rfl
      | cons a l => rw [hl] at hcond; simp at hcond
    refine ⟨?_, by simp⟩
    apply S.skip t _ _ (by omega) hT
    intro c hv h1 h2
    have vc := valid_facts hv
    exact hnil hfe c hv h1 (by omega)
  · rename_i hcond0
    rw [if_neg hcond0] at hF
    simp only [fromCellID_id] at hF ⊢
    generalize hS : (if fes.isEmpty = true then fromFace f else
      shrinkToFit (fromCellID (fromFace f)) cellPadding _) = S' at hroot hoff hF ⊢
    have hScases : S' = fromFace f ∨ (isValid S' = true ∧ face S' = f) := by
      rw [← hS]
      split
      · left; rfl
      · have key := fun rect => shrinkToFit_cases (fromCellID (fromFace f)) cellPadding rect hi0 hj0
          (by rw [fromCellID_id, hfs.2.2.2.1]; exact hf)
        simp only [fromCellID_id, hfs.2.2.2.1] at key
        exact key _
    split
    · rename_i hne
      rw [if_pos hne] at hF
      simp only [] at hF
      rcases hScases with h | ⟨hv, hface⟩
      · simp [h] at hne
      · obtain ⟨k, hk⟩ := (isValid_iff S').mp hv
        have vS := valid_facts hv
        have hin := face_contains hv
        rw [hface] at hin
        have hFle := face_hi_le f hf
        have hn1 : (next (rangeMax S')).toNat = hi S' + 2 :=
          next_leaf_toNat _ vS.2.1 (by show hi S' + 2 < _; omega)
        have hn2 : (next (rangeMax (fromFace f))).toNat = hi (fromFace f) + 2 :=
          next_leaf_toNat _ vF.2.1 (by show hi (fromFace f) + 2 < _; omega)
        -- the range before the root cell
        have g1 := skipCellRange_indG S (b := rangeMin (fromFace f)) (e := rangeMin S')
          vF.1 ⟨vS.1, by show lo S' ≤ _; omega⟩ hin.1 t hT (by
            intro c hvc h1 h2
            have vc := valid_facts hvc
            exact hoff c hvc h1 (by show hi c ≤ hi (fromFace f); have : hi c < lo S' := h2; omega)
              (Or.inl h2))
            (fun x hx => hF x (List.mem_append_left _ (List.mem_append_left _ hx)))
        rw [g1.1] at hF ⊢
        have g2 := updateEdges_indG S IndexBuild.fuel S' k (isFace S') ces t hk (isFace_guard hk)
          (by unfold IndexBuild.fuel; omega) hroot g1.2.1
          (fun x hx => hF x (List.mem_append_left _ (List.mem_append_right _ hx)))
        have g3 := skipCellRange_indG S (b := next (rangeMax S')) (e := next (rangeMax (fromFace f)))
          (by rw [hn1]; omega) ⟨by rw [hn2]; omega, by rw [hn2]; omega⟩ (by rw [hn1, hn2]; omega)
          (updateEdges n IndexBuild.fuel (fromCellID S') (isFace S') ces t).t
          (by rw [hn1]; exact g2.1) (by
            intro c hvc h1 h2
            rw [hn1] at h1
            rw [hn2] at h2
            have vc := valid_facts hvc
            exact hoff c hvc (by show lo (fromFace f) ≤ lo c; omega) (by omega) (Or.inr (by omega)))
          (fun x hx => hF x (List.mem_append_right _ hx))
        refine ⟨?_, ?_⟩
        · show TP (skipCellRange n (next (rangeMax S')) (next (rangeMax (fromFace f)))
            (updateEdges n IndexBuild.fuel (fromCellID S') (isFace S') ces t).t).t _
          rw [g3.1]
          have := g3.2.1
          rw [hn2] at this
          exact this
        · intro x hx
          simp only [List.mem_append] at hx
          rcases hx with (hx | hx) | hx
          · exact g1.2.2 x hx
          · exact g2.2 x hx
          · exact g3.2.2 x hx
    · rename_i hne
      rw [if_neg hne] at hF
      have hSe : S' = fromFace f := by simpa using hne
      rw [hSe] at hroot
      exact updateEdges_indG S IndexBuild.fuel (fromFace f) 0 true ces t hcf (fun _ => rfl)
        (by unfold IndexBuild.fuel; omega) hroot hT hF

/-- the induction over the whole build; `F` may be any property of ALL cells of the result (e.g. "is a cell of the
    built index"): it is handed down to the `makeIndexCell` call that produces the cell -/
theorem buildRes_indG (S : BuildStepG n F TP EI CP) (all : List (Nat × FaceEdge)) (t0 : Tracker)
    (hT : TP t0 (lo (fromFace 0)))
    (hroot : ∀ f, f < 6 → EI (rootCell f (faceEdgesOf all f))
      ((faceEdgesOf all f).map fun fe => (⟨fe, rectFromPoints fe.a fe.b⟩ : ClippedEdge)))
    (hoff : ∀ f, f < 6 → ∀ c, isValid c = true → lo (fromFace f) ≤ lo c → hi c ≤ hi (fromFace f) →
      (hi c < lo (rootCell f (faceEdgesOf all f)) ∨ hi (rootCell f (faceEdgesOf all f)) < lo c) → EI c [])
    (hnil : ∀ f, f < 6 → faceEdgesOf all f = [] → ∀ c, isValid c = true → lo (fromFace f) ≤ lo c →
      hi c ≤ hi (fromFace f) → EI c [])
    (hF : ∀ x ∈ ((List.range 6).foldl (faceStep n all) ⟨[], t0, true⟩).cells, F x) :
    ∀ x ∈ ((List.range 6).foldl (faceStep n all) ⟨[], t0, true⟩).cells, CP x := by
  have o0 := face_order 0 (by omega)
  have o1 := face_order 1 (by omega)
  have o2 := face_order 2 (by omega)
  have o3 := face_order 3 (by omega)
  have o4 := face_order 4 (by omega)
  simp only [Nat.zero_add, Nat.reduceAdd] at o0 o1 o2 o3 o4
  have fs : ∀ (r : Res) (f : Nat), f < 6 → TP r.t (lo (fromFace f)) → (∀ x ∈ r.cells, CP x) →
      (∀ x ∈ (faceStep n all r f).cells, F x) →
      TP (faceStep n all r f).t (hi (fromFace f) + 2) ∧ ∀ x ∈ (faceStep n all r f).cells, CP x := by
    intro r f hf hT hc hF'
    unfold faceStep at hF' ⊢
    simp only [] at hF' ⊢
    have := updateFaceEdges_indG S f hf (faceEdgesOf all f) r.t hT (hroot f hf) (hoff f hf) (hnil f hf)
      (fun x hx => hF' x (List.mem_append_right _ hx))
    refine ⟨this.1, ?_⟩
    intro x hx
    rcases List.mem_append.mp hx with hx | hx
    · exact hc x hx
    · exact this.2 x hx
  have hr : List.range 6 = [0, 1, 2, 3, 4, 5] := by decide
  rw [hr] at hF ⊢
  simp only [List.foldl_cons, List.foldl_nil] at hF ⊢
  have hF5 := fun x hx => hF x (faceStep_prefix n all _ 5 x hx)
  have hF4 := fun x hx => hF5 x (faceStep_prefix n all _ 4 x hx)
  have hF3 := fun x hx => hF4 x (faceStep_prefix n all _ 3 x hx)
  have hF2 := fun x hx => hF3 x (faceStep_prefix n all _ 2 x hx)
  have hF1 := fun x hx => hF2 x (faceStep_prefix n all _ 1 x hx)
  have g1 := fs ⟨[], t0, true⟩ 0 (by omega) hT (by simp) hF1
  rw [o0] at g1
  have g2 := fs _ 1 (by omega) g1.1 g1.2 hF2
  rw [o1] at g2
  have g3 := fs _ 2 (by omega) g2.1 g2.2 hF3
  rw [o2] at g3
  have g4 := fs _ 3 (by omega) g3.1 g3.2 hF4
  rw [o3] at g4
  have g5 := fs _ 4 (by omega) g4.1 g4.2 hF5
  rw [o4] at g5
  have g6 := fs _ 5 (by omega) g5.1 g5.2 hF
  exact g6.2

/-! ### the edge-list invariant under the guarded hypothesis -/

/-- the child lists of `subdivide` are correct edge lists of the children -/
theorem _root_.S2Proofs.C06BuildH.EdgesOK.toChildG {shapes : Array Shape} {Meets : FaceEdge → CellID → Prop}
    {BoundOK : ClippedEdge → CellID → Prop} (hs : ClipSoundG Meets BoundOK)
    {c : CellID} {k : Nat} (pre : Bool) {es : List ClippedEdge} {pos : Nat} (hc : IsCell c k) (hk : k < 30)
    (hp : pre = true → k = 0) (hpos : pos < 4) (h : EdgesOK shapes Meets BoundOK c es) :
    EdgesOK shapes Meets BoundOK (child c pos)
      (childEdges (es.map (edgeChildren (middle (fromCellID c) cellPadding pre)))
        (childIJ (fromCellID c) pos).1 (childIJ (fromCellID c) pos).2) := by
  have hcc := hc.child_isCell hk hpos
  have hvc : isValid c = true := (isValid_iff _).mpr ⟨_, hc⟩
  have hvcc : isValid (child c pos) = true := (isValid_iff _).mpr ⟨_, hcc⟩
  have hcont : lo c ≤ lo (child c pos) ∧ hi (child c pos) ≤ hi c := by
    obtain ⟨h0, h3, hstep⟩ := hc.child_ranges hk
    have e0 : lo (child c 0) = lo c := congrArg UInt64.toNat h0
    have e3 : hi (child c 3) = hi c := congrArg UInt64.toNat h3
    have s0 : hi (child c 0) + 2 = lo (child c 1) := hstep 0 (by omega)
    have s1 : hi (child c 1) + 2 = lo (child c 2) := hstep 1 (by omega)
    have s2 : hi (child c 2) + 2 = lo (child c 3) := hstep 2 (by omega)
    have v0 := valid_facts ((isValid_iff _).mpr ⟨_, hc.child_isCell hk (show 0 < 4 by omega)⟩)
    have v1 := valid_facts ((isValid_iff _).mpr ⟨_, hc.child_isCell hk (show 1 < 4 by omega)⟩)
    have v2 := valid_facts ((isValid_iff _).mpr ⟨_, hc.child_isCell hk (show 2 < 4 by omega)⟩)
    have v3 := valid_facts ((isValid_iff _).mpr ⟨_, hc.child_isCell hk (show 3 < 4 by omega)⟩)
    have : pos = 0 ∨ pos = 1 ∨ pos = 2 ∨ pos = 3 := by omega
    rcases this with rfl | rfl | rfl | rfl <;> omega
  refine ⟨?_, ?_, ?_, ?_⟩
  · exact h.sorted.sublist (childEdges_sublist _ es _ _)
  · intro ce' hce'
    obtain ⟨e', he', hfe⟩ := childEdges_mem _ es _ _ ce' hce'
    rw [hfe]; exact h.feq e' he'
  · intro ce' hce'
    obtain ⟨q, hq, hget⟩ := (childEdges_get _ _ _ _).mp hce'
    obtain ⟨e', he', rfl⟩ := List.mem_map.mp hq
    exact hs.bound_step c k pre e' ce' pos hc hk hp hpos (h.bound e' he') hget
  · intro f hf h1 h2 fe hfe hm
    have hmc : Meets fe c := hs.meets_child fe c k pos hc hk hpos hm
    have hfc := face_contains hvc
    have hff : f = face c := face_unique hf hc.face_lt6 hvcc h1 h2 (by omega) (by omega)
    rw [← hff] at hfc
    obtain ⟨ce, hce, hcefe⟩ := h.complete f hf hfc.1 hfc.2 fe hfe hmc
    have hkeep := hs.keep_step c k pre ce pos hc hk hp hpos (h.bound ce hce) (by rw [hcefe]; exact hm)
    obtain ⟨ce', hget⟩ := Option.ne_none_iff_exists'.mp hkeep
    have hfe' := edgeChildren_fe _ _ _ _ _ hget
    exact ⟨ce', (childEdges_get _ _ _ _).mpr ⟨_, List.mem_map_of_mem hce, hget⟩, hfe'.trans hcefe⟩

/-- the `BuildStepG` of I1: tracker invariant `TrOK`, edge lists `EdgesOK`, per cell `CellI1` -/
theorem buildStep_I1G (shapes : Array Shape) {Meets : FaceEdge → CellID → Prop}
    {BoundOK : ClippedEdge → CellID → Prop} (hs : ClipSoundG Meets BoundOK) :
    BuildStepG shapes.size (fun _ => True) (fun t _ => TrOK shapes.size t) (EdgesOK shapes Meets BoundOK)
      (CellI1 shapes Meets) where
  lvl := fun c es h ce hce => FEQ_maxLevel shapes _ (h.feq ce hce).1
  make := by
    intro c k es t cells t' hc hE hT hmk _
    rw [makeIndexCell_eq] at hmk
    split at hmk
    · simp only [Option.some.injEq, Prod.mk.injEq] at hmk
      obtain ⟨rfl, rfl⟩ := hmk
      exact ⟨hT, by simp⟩
    · split at hmk
      · cases hmk
      · simp only [Option.some.injEq, Prod.mk.injEq] at hmk
        obtain ⟨rfl, rfl⟩ := hmk
        refine ⟨TrOK_t2Of _ _ es t hT hE.sid_lt, ?_⟩
        intro x hx
        simp only [List.mem_singleton] at hx
        subst hx
        rw [fromCellID_id]
        exact cellI1_of_edgesOK hE (TrOK_t1Of _ _ es t hT hE.sid_lt)
  ch := fun c k pre es pos hc hk hp hpos hE => hE.toChildG hs pre hc hk hp hpos
  skip := fun t b e _ hT _ => hT

/-- **I1 in full** for every cell of the built index, from `ClipSoundG`, sound root bounds and `ShrinkSoundF` only. -/
theorem build_cellI1G (shapes : Array Shape) {Meets : FaceEdge → CellID → Prop}
    {BoundOK : ClippedEdge → CellID → Prop} (hs : ClipSoundG Meets BoundOK)
    (hroot : ∀ f, f < 6 → ∀ fe ∈ faceEdgesOf (allFaceEdges shapes) f,
      BoundOK ⟨fe, rectFromPoints fe.a fe.b⟩ (rootCell f (faceEdgesOf (allFaceEdges shapes) f)))
    (hshrink : ∀ f, f < 6 → ShrinkSoundF Meets f (faceEdgesOf (allFaceEdges shapes) f)) :
    ∀ x ∈ build shapes, CellI1 shapes Meets x := by
  unfold build buildRes
  apply buildRes_indG (buildStep_I1G shapes hs) (allFaceEdges shapes) (initialTracker shapes)
    (TrOK_initialTracker shapes) (fun f hf => EdgesOK.atRoot f hf (hroot f hf))
  · intro f hf c hv h1 h2 hdis
    apply EdgesOK.ofClear
    intro f' hf' h1' h2' fe hfe hm
    have : f = f' := face_unique hf hf' hv h1 h2 h1' h2'
    subst this
    exact hshrink f hf fe hfe c hv h1 h2 hm hdis
  · intro f hf hnil c hv h1 h2
    apply EdgesOK.ofClear
    intro f' hf' h1' h2' fe hfe _
    have : f = f' := face_unique hf hf' hv h1 h2 h1' h2'
    subst this
    rw [hnil] at hfe
    cases hfe
  · intro _ _; trivial

/-! ### I1 -/

/-- **I1 from the guarded per-call facts**: in the built index every face edge of the face of an index cell that meets
    (the padded cell of) that index cell is listed in it, from `ClipSoundNG` (per-call clipping facts, asked for
    `pre = true` only at face cells), sound root bounds and the face-restricted `ShrinkToFit` contract. -/
theorem build_I1_guarded (shapes : Array Shape) {Meets : FaceEdge → CellID → Prop}
    {BoundOK : ClippedEdge → CellID → Prop} {M : FaceEdge → CellID → Option Nat → Option Nat → Prop}
    {B : ClippedEdge → CellID → Option Nat → Option Nat → Prop} (hs : ClipSoundNG Meets BoundOK M B)
    (hroot : S2Proofs.C06Build.RootSound shapes BoundOK)
    (hshrink : ∀ f, f < 6 → ShrinkSoundF Meets f (faceEdgesOf (allFaceEdges shapes) f)) :
    S2Proofs.C06Build.I1 shapes Meets :=
  fun x hx f hf h1 h2 fe hfe hm =>
    build_cellI1G shapes (clipSoundG_of_narrow hs) hroot hshrink x hx f hf h1 h2 fe hfe hm

/-- the step-level form -/
theorem build_I1_guarded_step (shapes : Array Shape) {Meets : FaceEdge → CellID → Prop}
    {BoundOK : ClippedEdge → CellID → Prop} (hs : ClipSoundG Meets BoundOK)
    (hroot : S2Proofs.C06Build.RootSound shapes BoundOK)
    (hshrink : ∀ f, f < 6 → ShrinkSoundF Meets f (faceEdgesOf (allFaceEdges shapes) f)) :
    S2Proofs.C06Build.I1 shapes Meets :=
  fun x hx f hf h1 h2 fe hfe hm => build_cellI1G shapes hs hroot hshrink x hx f hf h1 h2 fe hfe hm

/-- consistency of the hypotheses of `build_I1_guarded` (trivial instance: nothing meets anything) -/
example (shapes : Array Shape) : S2Proofs.C06Build.I1 shapes (fun _ _ => False) :=
  build_I1_guarded shapes (BoundOK := fun _ _ => True) (M := fun _ _ _ _ => False) (B := fun _ _ _ _ => True)
    (by constructor <;> intros <;> trivial) (fun _ _ _ _ => trivial) (fun _ _ _ _ _ _ _ _ h => h.elim)

/-- the leaf range of a child lies in the leaf range of its parent -/
theorem child_contained {c : CellID} {k pos : Nat} (hc : IsCell c k) (hk : k < 30) (hpos : pos < 4) :
    lo c ≤ lo (child c pos) ∧ hi (child c pos) ≤ hi c := by
  obtain ⟨h0, h3, hstep⟩ := hc.child_ranges hk
  have e0 : lo (child c 0) = lo c := congrArg UInt64.toNat h0
  have e3 : hi (child c 3) = hi c := congrArg UInt64.toNat h3
  have s0 : hi (child c 0) + 2 = lo (child c 1) := hstep 0 (by omega)
  have s1 : hi (child c 1) + 2 = lo (child c 2) := hstep 1 (by omega)
  have s2 : hi (child c 2) + 2 = lo (child c 3) := hstep 2 (by omega)
  have v0 := valid_facts ((isValid_iff _).mpr ⟨_, hc.child_isCell hk (show 0 < 4 by omega)⟩)
  have v1 := valid_facts ((isValid_iff _).mpr ⟨_, hc.child_isCell hk (show 1 < 4 by omega)⟩)
  have v2 := valid_facts ((isValid_iff _).mpr ⟨_, hc.child_isCell hk (show 2 < 4 by omega)⟩)
  have v3 := valid_facts ((isValid_iff _).mpr ⟨_, hc.child_isCell hk (show 3 < 4 by omega)⟩)
  have : pos = 0 ∨ pos = 1 ∨ pos = 2 ∨ pos = 3 := by omega
  rcases this with rfl | rfl | rfl | rfl <;> omega

/-- the unguarded records imply the guarded ones (the guarded hypotheses are weaker) -/
theorem clipSoundNG_of_clipSoundN {Meets : FaceEdge → CellID → Prop} {BoundOK : ClippedEdge → CellID → Prop}
    {M : FaceEdge → CellID → Option Nat → Option Nat → Prop}
    {B : ClippedEdge → CellID → Option Nat → Option Nat → Prop} (h : ClipSoundN Meets BoundOK M B) :
    ClipSoundNG Meets BoundOK M B where
  meets_child := by
    intro fe c k pos hc hk hpos hm
    have hcc := hc.child_isCell hk hpos
    have hvc : isValid c = true := (isValid_iff _).mpr ⟨_, hc⟩
    have hvcc : isValid (child c pos) = true := (isValid_iff _).mpr ⟨_, hcc⟩
    have hcont := child_contained hc hk hpos
    exact h.meets_mono _ _ _ hvc hvcc hcont.1 hcont.2 hm
  B_whole := h.B_whole
  B_child := h.B_child
  M_child := h.M_child
  M_mono_u := h.M_mono_u
  M_mono_v := h.M_mono_v
  B_mono_u := h.B_mono_u
  B_mono_v := h.B_mono_v
  clipU_hi := fun c k pre ce hc hk _ => h.clipU_hi c k pre ce hc hk
  clipU_lo := fun c k pre ce hc hk _ => h.clipU_lo c k pre ce hc hk
  clipV_hi := fun c k pre ce i hc hk _ => h.clipV_hi c k pre ce i hc hk
  clipV_lo := fun c k pre ce i hc hk _ => h.clipV_lo c k pre ce i hc hk
  keepU_lo := fun c k pre ce hc hk _ => h.keepU_lo c k pre ce hc hk
  keepU_hi := fun c k pre ce hc hk _ => h.keepU_hi c k pre ce hc hk
  keepV_lo := fun c k pre ce i hc hk _ => h.keepV_lo c k pre ce i hc hk
  keepV_hi := fun c k pre ce i hc hk _ => h.keepV_hi c k pre ce i hc hk

end S2Proofs.C06Clip

#print axioms S2Proofs.C06Clip.build_I1_guarded
