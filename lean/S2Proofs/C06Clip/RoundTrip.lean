/-
  S2Proofs.C06Clip.RoundTrip — the two float round-trip facts uv → st → ij that `PaddedCell.ShrinkToFit` relies on
  (its "1.5·dblEpsilon" fudge), proved for the soft-float model:

    `roundTripGe : RoundTripGe`   a finite float `w`, `|w| ≤ 2`, more than `2·dblEpsilon` ABOVE the float cell boundary
                                  `stToUV (k/2^30)` (`k ≤ 2^30 − 1`) has `stToIJ (uvToST w) ≥ k`
    `roundTripLt : RoundTripLt`   a finite float `w`, `|w| ≤ 2`, more than `2·dblEpsilon` BELOW the float cell boundary
                                  `stToUV (k/2^30)` (`0 < k ≤ 2^30`) has `stToIJ (uvToST w) < k`

  For `|w| ≤ 1` these are the contrapositives of the C12 margin lemmas `coord_hi` / `coord_lo` (`2·dblEpsilon = 4E`,
  `E = 2^-53`) together with the exact characterisation of `stToIJ` (`C12ST.stToIJ_ge_iff_of_le_two`, `stToIJ_lt_iff`).
  For `1 < |w| ≤ 2` one side is vacuous (`-1 ≤ UG k ≤ 1`) and on the other side `uvToST w` is a finite float `≥ 1`
  (resp. `≤ 0`), by monotonicity of the correctly rounded operations, so that `stToIJ` clamps to `2^30 − 1` (resp. `0`).
-/
import S2Proofs.C06Clip.Defs
import S2Proofs.C12.MarginAssemble
import S2Proofs.C12.STExact

set_option linter.unusedSimpArgs false
set_option linter.unusedVariables false

namespace S2Proofs.C06Clip
open S2 S2.STUV S2Proofs.F64Order S2Proofs.F64Round S2Proofs.C12M

/-! ### `stToIJ s` against comparisons of the VALUE of `s` with `k / 2^30` -/

theorem le_two_of_val {s : F64} (fs : F64Order.Fin s) (h2 : val s ≤ 2) : F64.le s F64.two = true := by
  rw [val_le_iff fs C12ST.Fin_two, val_two]; exact h2

/-- `k/2^30 ≤ s` ⟹ `k ≤ stToIJ s` (finite `s ≤ 2`, `k ≤ 2^30 − 1`) -/
theorem stToIJ_ge_of_val (s : F64) (fs : F64Order.Fin s) (h2 : val s ≤ 2) (k : Nat) (hk : k ≤ 2 ^ 30 - 1)
    (h : (k : ℚ) / 2 ^ 30 ≤ val s) : (k : Int) ≤ stToIJ s := by
  rcases Nat.eq_zero_or_pos k with rfl | hk0
  · exact_mod_cast (C12ST.stToIJ_range s).1
  · refine (C12ST.stToIJ_ge_iff_of_le_two s (C12ST.isFinite_of_fin fs) (le_two_of_val fs h2) k hk0 (by omega)).2 ?_
    have gk := g_spec k (by omega)
    show F64.le (g k) s = true
    rw [val_le_iff gk.1 fs, val_g k (by omega)]; exact h

/-- `s < k/2^30` ⟹ `stToIJ s < k` (finite `s ≤ 2`, `0 < k ≤ 2^30`) -/
theorem stToIJ_lt_of_val (s : F64) (fs : F64Order.Fin s) (h2 : val s ≤ 2) (k : Nat) (hk0 : 0 < k) (hk : k ≤ 2 ^ 30)
    (h : val s < (k : ℚ) / 2 ^ 30) : stToIJ s < (k : Int) := by
  rcases Nat.lt_or_eq_of_le hk with hlt | rfl
  · refine (C12ST.stToIJ_lt_iff s (C12ST.isFinite_of_fin fs) (le_two_of_val fs h2) k hk0 (by omega)).2 ?_
    have gk := g_spec k hk
    show F64.lt s (g k) = true
    rw [val_lt_iff fs gk.1, val_g k hk]; exact h
  · have := (C12ST.stToIJ_range s).2
    push_cast; omega

/-! ### the unit range `|w| ≤ 1` (rational values) -/

theorem ge_unit_Q (w : F64) (fw : F64Order.Fin w) (h1 : -1 ≤ val w) (h2 : val w ≤ 1) (k : Nat) (hk : k ≤ 2 ^ 30 - 1)
    (h : val (stToUV (g k)) + 4 * E < val w) : (k : Int) ≤ stToIJ (uvToST w) := by
  obtain ⟨fs, s0, s1⟩ := uvToST_range w fw h1 h2
  apply stToIJ_ge_of_val _ fs (by linarith) k hk
  by_contra hc
  have hc' : val (uvToST w) < (k : ℚ) / 2 ^ 30 := not_le.1 hc
  have := coord_hi w fw h1 h2 k (by omega) (Or.inr (by rw [val_g k (by omega)]; exact hc'))
  linarith

theorem lt_unit_Q (w : F64) (fw : F64Order.Fin w) (h1 : -1 ≤ val w) (h2 : val w ≤ 1) (k : Nat) (hk0 : 0 < k)
    (hk : k ≤ 2 ^ 30) (h : val w < val (stToUV (g k)) - 4 * E) : stToIJ (uvToST w) < (k : Int) := by
  obtain ⟨fs, s0, s1⟩ := uvToST_range w fw h1 h2
  apply stToIJ_lt_of_val _ fs (by linarith) k hk0 hk
  by_contra hc
  have hc' : (k : ℚ) / 2 ^ 30 ≤ val (uvToST w) := not_lt.1 hc
  have := coord_lo w fw h1 h2 k hk (Or.inr (by rw [val_g k hk]; exact hc'))
  linarith

/-! ### the outer range `1 < |w| ≤ 2` -/

/-- the floats `8` and `16` (upper bounds only) -/
def c8 : F64 := ⟨0x4020000000000000⟩
def c16 : F64 := ⟨0x4030000000000000⟩

theorem fin_c8 : F64Order.Fin c8 := by decide
theorem fin_c16 : F64Order.Fin c16 := by decide
theorem fin_negc8 : F64Order.Fin (F64.neg c8) := by decide

theorem val_c8 : val c8 = 8 := by
  have h : Exact.toInt c8 = 8 * 2 ^ 1074 := by decide +kernel
  unfold val U; rw [h]; push_cast; field_simp

theorem val_c16 : val c16 = 16 := by
  have h : Exact.toInt c16 = 16 * 2 ^ 1074 := by decide +kernel
  unfold val U; rw [h]; push_cast; field_simp

theorem small_lt_top16 {x : ℚ} (h : |x| ≤ 16) : |x| < 2 ^ 1024 - 2 ^ 970 := by
  have e1 : (2 : ℚ) ^ 1024 = 2 ^ 54 * 2 ^ 970 := by rw [← pow_add]
  have h970 : (1 : ℚ) ≤ 2 ^ 970 := one_le_pow₀ (by norm_num)
  rw [e1]
  clear e1
  generalize (2 : ℚ) ^ 970 = X at *
  have h54 : (18 : ℚ) ≤ 2 ^ 54 := by norm_num
  have : 18 * X ≤ 2 ^ 54 * X := mul_le_mul_of_nonneg_right h54 (by linarith)
  linarith

/-- `0.5 · sqrt t` for a finite float `4 ≤ t ≤ 16` is a finite float in `[1, 2]` -/
theorem half_sqrt_range (t : F64) (ft : F64Order.Fin t) (h4 : 4 ≤ val t) (h16 : val t ≤ 16) :
    F64Order.Fin (F64.half * F64.sqrt t) ∧ 1 ≤ val (F64.half * F64.sqrt t) ∧ val (F64.half * F64.sqrt t) ≤ 2 := by
  obtain ⟨hs, h0⟩ := pos_of_val_pos (t := t) (by linarith)
  obtain ⟨fr, r0, hall⟩ := sqrt_spec ft hs h0
  have hr2 : 2 ≤ val (F64.sqrt t) := by
    by_contra hc
    have hlt : val (F64.sqrt t) < val F64.two := by rw [val_two]; exact not_le.1 hc
    have := (hall F64.two (by rw [val_two]; norm_num)).2 hlt
    rw [val_two] at this hlt
    nlinarith
  have hr4 : val (F64.sqrt t) ≤ 4 := by
    by_contra hc
    have hlt : val F64.four < val (F64.sqrt t) := by rw [val_four]; exact not_le.1 hc
    have := (hall F64.four (by rw [val_four]; norm_num)).1 hlt
    rw [val_four] at this hlt
    nlinarith
  obtain ⟨fh, vh⟩ := half_mul_exact _ fr (by linarith)
  exact ⟨fh, by rw [vh]; linarith, by rw [vh]; linarith⟩

/-- `w > 1` (`≤ 2`): `uvToST w` is a finite float in `[1, 2]` -/
theorem uvToST_above (w : F64) (fw : F64Order.Fin w) (h1 : 1 < val w) (h2 : val w ≤ 2) :
    F64Order.Fin (uvToST w) ∧ 1 ≤ val (uvToST w) ∧ val (uvToST w) ≤ 2 := by
  have hb : F64.ge w (F64.zero false) = true := (ge_zero_iff w fw).2 (by linarith)
  have hm := isRound_mul fin_three fw
  rw [val_three] at hm
  have fm : F64Order.Fin (F64.mul F64.three w) :=
    hm.fin_of_lt (small_lt_top16 (by rw [abs_le]; constructor <;> linarith))
  have m3 : 3 ≤ val (F64.mul F64.three w) := by
    have := IsRound.ge_of_ge hm fm fin_three (by rw [val_three]; linarith)
    rwa [val_three] at this
  have m8 : val (F64.mul F64.three w) ≤ 8 := by
    have := IsRound.le_of_le hm fm fin_c8 (by rw [val_c8]; linarith)
    rwa [val_c8] at this
  have ht := isRound_add fin_one fm
  rw [val_one] at ht
  have ft : F64Order.Fin (F64.add F64.one (F64.mul F64.three w)) :=
    ht.fin_of_lt (small_lt_top16 (by rw [abs_le]; constructor <;> linarith))
  have t4 : 4 ≤ val (F64.add F64.one (F64.mul F64.three w)) := by
    have := IsRound.ge_of_ge ht ft fin_four (by rw [val_four]; linarith)
    rwa [val_four] at this
  have t16 : val (F64.add F64.one (F64.mul F64.three w)) ≤ 16 := by
    have := IsRound.le_of_le ht ft fin_c16 (by rw [val_c16]; linarith)
    rwa [val_c16] at this
  have e : tOf w = F64.add F64.one (F64.mul F64.three w) := by unfold tOf; rw [if_pos hb]; rfl
  rw [uvToST_eq, if_pos hb, e]
  exact half_sqrt_range _ ft t4 t16

/-- `w < -1` (`≥ -2`): `uvToST w` is a finite float `≤ 0` -/
theorem uvToST_below (w : F64) (fw : F64Order.Fin w) (h1 : val w < -1) (h2 : -2 ≤ val w) :
    F64Order.Fin (uvToST w) ∧ val (uvToST w) ≤ 0 := by
  have hb : ¬ F64.ge w (F64.zero false) = true := fun h => by
    have := (ge_zero_iff w fw).1 h; linarith
  have hm := isRound_mul fin_three fw
  rw [val_three] at hm
  have fm : F64Order.Fin (F64.mul F64.three w) :=
    hm.fin_of_lt (small_lt_top16 (by rw [abs_le]; constructor <;> linarith))
  have m3 : val (F64.mul F64.three w) ≤ -3 := by
    have := IsRound.le_of_le hm fm fin_negThree (by rw [val_neg, val_three]; linarith)
    rwa [val_neg, val_three] at this
  have m8 : -8 ≤ val (F64.mul F64.three w) := by
    have := IsRound.ge_of_ge hm fm fin_negc8 (by rw [val_neg, val_c8]; linarith)
    rwa [val_neg, val_c8] at this
  have ht := isRound_sub fin_one fm
  rw [val_one] at ht
  have ft : F64Order.Fin (F64.sub F64.one (F64.mul F64.three w)) :=
    ht.fin_of_lt (small_lt_top16 (by rw [abs_le]; constructor <;> linarith))
  have t4 : 4 ≤ val (F64.sub F64.one (F64.mul F64.three w)) := by
    have := IsRound.ge_of_ge ht ft fin_four (by rw [val_four]; linarith)
    rwa [val_four] at this
  have t16 : val (F64.sub F64.one (F64.mul F64.three w)) ≤ 16 := by
    have := IsRound.le_of_le ht ft fin_c16 (by rw [val_c16]; linarith)
    rwa [val_c16] at this
  have e : tOf w = F64.sub F64.one (F64.mul F64.three w) := by unfold tOf; rw [if_neg hb]; rfl
  obtain ⟨fh, hl, hh⟩ := half_sqrt_range _ ft t4 t16
  rw [uvToST_eq, if_neg hb, e]
  have hs := isRound_sub fin_one fh
  rw [val_one] at hs
  have fs : F64Order.Fin (F64.sub F64.one (F64.half * F64.sqrt (F64.sub F64.one (F64.mul F64.three w)))) :=
    hs.fin_of_lt (small_lt_top16 (by rw [abs_le]; constructor <;> linarith))
  refine ⟨fs, ?_⟩
  have := IsRound.le_of_le hs fs fin_zero (by rw [val_zero]; linarith)
  rwa [val_zero] at this

/-! ### rational forms on the whole range `|w| ≤ 2` -/

theorem roundTripGe_Q (w : F64) (fw : F64Order.Fin w) (h1 : -2 ≤ val w) (h2 : val w ≤ 2) (k : Nat)
    (hk : k ≤ 2 ^ 30 - 1) (h : val (stToUV (g k)) + 4 * E < val w) : (k : Int) ≤ stToIJ (uvToST w) := by
  have hE := E_pos
  by_cases ha : 1 < val w
  · obtain ⟨fs, s1, s2⟩ := uvToST_above w fw ha h2
    apply stToIJ_ge_of_val _ fs s2 k hk
    have hkq : (k : ℚ) ≤ 2 ^ 30 := by
      have : k ≤ 2 ^ 30 := by omega
      exact_mod_cast this
    have : (k : ℚ) / 2 ^ 30 ≤ 1 := by rw [div_le_one (by positivity)]; exact hkq
    linarith
  · have hlo : -1 ≤ val (stToUV (g k)) := by
      have := stToUV_g_mono 0 k (Nat.zero_le _) (by omega)
      rwa [stToUV_g_zero, val_neg, val_one] at this
    exact ge_unit_Q w fw (by linarith) (not_lt.1 ha) k hk h

theorem roundTripLt_Q (w : F64) (fw : F64Order.Fin w) (h1 : -2 ≤ val w) (h2 : val w ≤ 2) (k : Nat) (hk0 : 0 < k)
    (hk : k ≤ 2 ^ 30) (h : val w < val (stToUV (g k)) - 4 * E) : stToIJ (uvToST w) < (k : Int) := by
  have hE := E_pos
  by_cases ha : val w < -1
  · obtain ⟨fs, s0⟩ := uvToST_below w fw ha h1
    apply stToIJ_lt_of_val _ fs (by linarith) k hk0 hk
    have : (0 : ℚ) < (k : ℚ) / 2 ^ 30 := by
      have : (0 : ℚ) < k := by exact_mod_cast hk0
      positivity
    linarith
  · have hhi : val (stToUV (g k)) ≤ 1 := by
      have := stToUV_g_mono k (2 ^ 30) hk (le_refl _)
      rwa [stToUV_g_one, val_one] at this
    exact lt_unit_Q w fw (not_lt.1 ha) (by linarith) k hk0 hk h

/-! ### the real-valued statements of `Defs.lean` -/

theorem rv_eq (x : F64) : rv x = ((val x : ℚ) : ℝ) := S2Proofs.C12Dist.CellOK.val_bridge x

theorem fourE_cast : ((4 * E : ℚ) : ℝ) = 2 * dblEps := by
  unfold E dblEps; push_cast; norm_num

theorem rv_bounds {w : F64} (hw : |rv w| ≤ 2) : -2 ≤ val w ∧ val w ≤ 2 := by
  rw [rv_eq, abs_le] at hw
  constructor
  · have : ((-2 : ℚ) : ℝ) ≤ ((val w : ℚ) : ℝ) := by push_cast; exact hw.1
    exact Rat.cast_le.1 this
  · have : ((val w : ℚ) : ℝ) ≤ ((2 : ℚ) : ℝ) := by push_cast; exact hw.2
    exact Rat.cast_le.1 this

/-- **lower side of the round trip** uv → st → ij -/
theorem roundTripGe : RoundTripGe := by
  intro w fw hw k hk h
  obtain ⟨h1, h2⟩ := rv_bounds hw
  unfold UG at h
  rw [rv_eq, rv_eq, ← fourE_cast, ← Rat.cast_add] at h
  exact roundTripGe_Q w fw h1 h2 k hk (Rat.cast_lt.1 h)

/-- **upper side of the round trip** uv → st → ij -/
theorem roundTripLt : RoundTripLt := by
  intro w fw hw k hk0 hk h
  obtain ⟨h1, h2⟩ := rv_bounds hw
  unfold UG at h
  rw [rv_eq, rv_eq, ← fourE_cast, ← Rat.cast_sub] at h
  exact roundTripLt_Q w fw h1 h2 k hk0 hk (Rat.cast_lt.1 h)

/-! ### non-vacuity: concrete instances -/

/-- `w = 0.5`, `k = 2^29` (`UG k = 0`): `stToIJ (uvToST 0.5) ≥ 2^29` -/
example : ((2 ^ 29 : Nat) : Int) ≤ stToIJ (uvToST F64.half) :=
  roundTripGe_Q F64.half fin_half (by rw [val_half]; norm_num) (by rw [val_half]; norm_num) (2 ^ 29) (by decide)
    (by rw [stToUV_g_half, val_zero, val_half]; unfold E; norm_num)

/-- `w = -0.5`, `k = 2^29` (`UG k = 0`): `stToIJ (uvToST (-0.5)) < 2^29` -/
example : stToIJ (uvToST (F64.neg F64.half)) < ((2 ^ 29 : Nat) : Int) :=
  roundTripLt_Q (F64.neg F64.half) (by decide) (by rw [val_neg, val_half]; norm_num)
    (by rw [val_neg, val_half]; norm_num) (2 ^ 29) (by decide) (by decide)
    (by rw [stToUV_g_half, val_zero, val_neg, val_half]; unfold E; norm_num)

/-- outer range: `w = 2`, `k = 2^30 − 1`: the clamp gives exactly `2^30 − 1` -/
example : ((2 ^ 30 - 1 : Nat) : Int) ≤ stToIJ (uvToST F64.two) := by
  obtain ⟨fs, s1, s2⟩ := uvToST_above F64.two C12ST.Fin_two (by rw [val_two]; norm_num) (by rw [val_two])
  exact stToIJ_ge_of_val _ fs s2 (2 ^ 30 - 1) (le_refl _) (by
    have : (((2 ^ 30 - 1 : Nat) : ℚ)) / 2 ^ 30 ≤ 1 := by norm_num
    linarith)

/-- the instances through the `Prop`s of `Defs.lean` themselves (real-valued hypotheses) -/
example : ((2 ^ 29 : Nat) : Int) ≤ stToIJ (uvToST F64.half) := by
  have hv : rv F64.half = 1 / 2 := by rw [rv_eq, val_half]; norm_num
  refine roundTripGe F64.half fin_half (by rw [hv]; norm_num) (2 ^ 29) (by decide) ?_
  have hu : UG (2 ^ 29) = 0 := by unfold UG; rw [stToUV_g_half, rv_eq, val_zero]; norm_num
  rw [hu, hv]; unfold dblEps; norm_num

end S2Proofs.C06Clip

#print axioms S2Proofs.C06Clip.roundTripGe
#print axioms S2Proofs.C06Clip.roundTripLt
