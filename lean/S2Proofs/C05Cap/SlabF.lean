/-
  C05Cap.SlabF — FLOAT error of the skip test (`dot > 0`) and of the slab test of the edge loop of `Cap.intersects`
  (model `S2.CapCell.edgeStep`, Boolean helpers `skipF`, `slabF` of `SoundLoop.lean`):

      edge := cell.Edge(k)            -- Normalize(EdgeRaw(k))
      dot  := c.center.Dot(edge)      -- skipF = dot > 0
      dir  := edge.Cross(c.center)
      slabF = dir.Dot(cell.Vertex(k)) < 0 && dir.Dot(cell.Vertex(k+1)) > 0

  * `skip_clear`: float `dot > 0` and the centre at least `2^-50` away from the great circle of the edge ⇒ exact `0 < A·N_k`.
  * `slab_err`:   the float slab quantity `dir·Vertex(j)` is within `slabErr = 40u` of the exact normalised one
                  `slabT = (N_k × A)·V̂_j / |N_k|` (face frame).
  * `slab_false`: `slabF = false` ⇒ not (`slabT k < −slabErr` and `slabErr < slabT (k+1)`).
  * `uvwR_cross`: the face frame map is a rotation (sign `+` on all six faces).
-/
import S2Proofs.C05Cap.SoundF
import S2Proofs.C05Cap.FloatEdgeCore

namespace S2Proofs.C05Cap
open S2 S2.CellM S2.STUV S2.CapF64 S2.CapCell S2Proofs.C12Dist S2Proofs.C16Acc S2Proofs.FloatErr S2Proofs.F64Order
open S2Proofs.CapF64 (NUnit NU eps)
open scoped S2.CapF64

namespace SlabF

/-- the face frame map is a rotation: it maps cross products to cross products (all six faces) -/
theorem uvwR_cross (f : Nat) (p q : R3) : uvwR f (R3.cross p q) = R3.cross (uvwR f p) (uvwR f q) := by
  unfold uvwR R3.cross; split <;> (ext <;> simp <;> ring)

/-- the real core of the skip test: `E = s(N + ν)`, `|ν| ≤ c|N|`, `|E| ≥ 0.99`, `A·E > −ed`, `|A·N| ≥ 8u|N|` ⇒ `A·N > 0` -/
theorem skip_real (A N ν E : R3) (s c ed : ℝ) (hs : 0 < s) (hE : E = R3.smul s (R3.add N ν)) (hν : ν.norm ≤ c * N.norm)
    (hc0 : 0 ≤ c) (hc : c ≤ 21 / 20 * uR) (hA : A.norm ≤ 101 / 100) (hEn : 99 / 100 ≤ E.norm)
    (hed : ed ≤ 25 / 8 * uR) (hD : -ed < R3.dot A E)
    (hclear : 8 * uR * N.norm ≤ |R3.dot A N|) : 0 < R3.dot A N := by
  by_contra hneg
  have hneg' : R3.dot A N ≤ 0 := not_lt.mp hneg
  rw [abs_of_nonpos hneg'] at hclear
  have hu0 := uR_nonneg
  have hu : uR ≤ 1 / 2 ^ 53 := le_of_eq rfl
  have hn := N.norm_nonneg
  have e1 : R3.dot A E = s * R3.dot A N + s * R3.dot A ν := by
    rw [hE]; unfold R3.dot R3.smul R3.add; ring
  have h2 : R3.dot A ν ≤ 101 / 100 * (c * N.norm) := by
    have h := R3.dot_le A ν
    have : A.norm * ν.norm ≤ 101 / 100 * (c * N.norm) :=
      mul_le_mul hA hν (R3.norm_nonneg _) (by norm_num)
    linarith
  have h3 : E.norm = s * (R3.add N ν).norm := by rw [hE, R3.norm_smul, abs_of_pos hs]
  have h4 := R3.norm_add_le N ν
  have h5 : (R3.add N ν).norm ≤ (1 + c) * N.norm := by linarith
  have h6 : E.norm ≤ s * ((1 + c) * N.norm) := by rw [h3]; exact mul_le_mul_of_nonneg_left h5 hs.le
  -- s|N| ≥ 0.98
  have hc1 : 1 + c ≤ 101 / 100 := by
    have : 21 / 20 * uR ≤ 1 / 100 := by
      have : (21 : ℝ) / 20 * (1 / 2 ^ 53) ≤ 1 / 100 := by norm_num
      linarith
    linarith
  have hsn0 : 0 ≤ s * N.norm := mul_nonneg hs.le hn
  have h7 : 98 / 100 ≤ s * N.norm := by
    have : s * ((1 + c) * N.norm) = (1 + c) * (s * N.norm) := by ring
    rw [this] at h6
    have : (1 + c) * (s * N.norm) ≤ 101 / 100 * (s * N.norm) := mul_le_mul_of_nonneg_right hc1 hsn0
    linarith
  have h8 : s * R3.dot A N ≤ s * (-(8 * uR * N.norm)) := mul_le_mul_of_nonneg_left (by linarith) hs.le
  have h9 : s * R3.dot A ν ≤ s * (101 / 100 * (c * N.norm)) := mul_le_mul_of_nonneg_left h2 hs.le
  have h10 : s * (101 / 100 * (c * N.norm)) ≤ 101 / 100 * (21 / 20 * uR) * (s * N.norm) := by
    have : s * (101 / 100 * (c * N.norm)) = 101 / 100 * c * (s * N.norm) := by ring
    rw [this]
    exact mul_le_mul_of_nonneg_right (by linarith) hsn0
  have h11 : R3.dot A E ≤ -(69 / 10 * uR) * (s * N.norm) := by
    rw [e1]
    have : s * (-(8 * uR * N.norm)) = -(8 * uR) * (s * N.norm) := by ring
    nlinarith
  have h12 : -(69 / 10 * uR) * (s * N.norm) ≤ -(69 / 10 * uR) * (98 / 100) := by
    have := mul_le_mul_of_nonneg_left h7 (by linarith : (0 : ℝ) ≤ 69 / 10 * uR)
    linarith
  linarith

end SlabF

open SlabF FloatEdge in
/-- **the skip test**: float `dot > 0`, and the centre at least `2^-50` away from the great circle of edge `k`
    (`|A·N_k|/|N_k| ≥ 2^-50 = 8u`) ⇒ the centre is strictly on the inner side: `0 < A·N_k` (= `SkipExact`). -/
theorem skip_clear (cell : Cell) (ctx : CellCtx cell) (c : Cap) (hc : NUnit c.center) (k : Nat) (hk : k < 4)
    (hs : skipF c cell k = true)
    (hclear : 1 / 2 ^ 50 ≤ |R3.dot (fA cell c.center) (nrm (rectOf cell) k)| / (nrm (rectOf cell) k).norm) :
    0 < R3.dot (fA cell c.center) (nrm (rectOf cell) k) := by
  obtain ⟨fE, hE2, s, ν, hs0, heq, hν⟩ := edge_scale cell ctx.fu0 ctx.fu1 ctx.fv0 ctx.fv1 ctx.hr ctx.hface k hk
  obtain ⟨fd, hdD, -⟩ := dot_err c.center (CellM.edge cell k) hc fE hE2
  obtain ⟨-, eN, -⟩ := edgeRaw_frame cell ctx.fu0 ctx.fu1 ctx.fv0 ctx.fv1 ctx.hr ctx.hface k hk
  have hu0 := uR_nonneg
  have hu : uR = 1 / 2 ^ 53 := rfl
  -- frame
  have eDot : R3.dot (fA cell c.center) (nrm (rectOf cell) k) = R3.dot (ofV c.center) (ofV (edgeRaw cell k)) := by
    unfold fA; rw [← eN, uvwR_dot]
  have eNorm : (nrm (rectOf cell) k).norm = (ofV (edgeRaw cell k)).norm := by
    rw [← eN]; exact VertexF.norm_uvwR _ _
  have hn2 := nrm_norm2 (rectOf cell) ctx.hr k
  have hNpos : 0 < (nrm (rectOf cell) k).norm := by
    apply lt_of_lt_of_le (by norm_num : (0 : ℝ) < 1)
    apply R3.le_norm_of_sq; linarith [hn2.1]
  rw [eDot, eNorm] at hclear
  rw [eNorm] at hNpos
  rw [eDot]
  -- the float sign test
  have hd0 : 0 < val (c.center.dot (CellM.edge cell k)) := by
    unfold skipF F64.gt at hs
    have := (S2Proofs.CapF64.lt_iff_val (zero_val false).1 fd).1 hs
    rwa [(zero_val false).2] at this
  have hdb := abs_le.mp hdD
  have hEb := abs_le.mp hE2
  have hEn : 99 / 100 ≤ (ofV (CellM.edge cell k)).norm := by
    apply R3.le_norm_of_sq
    have : ((99 : ℝ) / 100) ^ 2 ≤ 1 - 20 * (1 / 2 ^ 53) := by norm_num
    linarith
  have hAn : (ofV c.center).norm ≤ 101 / 100 := by
    apply R3.norm_le_of_sq (by norm_num)
    have := VertexF.nunit_norm2 hc
    have := VertexF.nu_eps_le
    have : (1 : ℝ) + 10 * (1 / 2 ^ 53) ≤ (101 / 100) ^ 2 := by norm_num
    linarith
  have hcl : 8 * uR * (ofV (edgeRaw cell k)).norm ≤ |R3.dot (ofV c.center) (ofV (edgeRaw cell k))| := by
    rw [le_div_iff₀ hNpos] at hclear
    have : (8 : ℝ) * uR = 1 / 2 ^ 50 := by rw [hu]; norm_num
    rw [this]; exact hclear
  have hcc : uR + 1 / 2 ^ 500 ≤ 21 / 20 * uR := by
    have := w500_le
    have : (1 : ℝ) / 2 ^ 100 ≤ 1 / 20 * (1 / 2 ^ 53) := by norm_num
    linarith
  exact skip_real (ofV c.center) (ofV (edgeRaw cell k)) ν (ofV (CellM.edge cell k)) s (uR + 1 / 2 ^ 500) edR hs0 heq hν
    (by have := w500_nonneg; linarith) hcc hAn hEn edR_le (by linarith) hcl


/-! ## the slab test -/

namespace SlabF
open S2Proofs.C12Dist.VertexErr

/-- `Normalize(w)` for a finite `w` with coordinates in `[-1,1]` and `|w|² ≥ 1`: finite, `|‖·‖² − 1| ≤ 20u`, within `9.001u` of `w/|w|` -/
theorem normalize_close (w : V3) (hw : Fin3 w)
    (b1 : |val w.x| ≤ 1) (b2 : |val w.y| ≤ 1) (b3 : |val w.z| ≤ 1) (hS1 : 1 ≤ (ofV w).norm2) :
    Fin3 w.normalize ∧ |(ofV w.normalize).norm2 - 1| ≤ 20 * uR ∧ 0 < (ofV w).norm ∧
    (R3.smul (1 / (ofV w).norm) (ofV w)).norm = 1 ∧
    (R3.sub (ofV w.normalize) (R3.smul (1 / (ofV w).norm) (ofV w))).norm ≤ (9 + 1 / 1000) * uR := by
  have hu0 := uR_nonneg
  have p14 : (1 : ℝ) ≤ 2 ^ 14 := by norm_num
  have m1 : |val w.x| ≤ 2 ^ 14 := le_trans b1 p14
  have m2 : |val w.y| ≤ 2 ^ 14 := le_trans b2 p14
  have m3 : |val w.z| ≤ 2 ^ 14 := le_trans b3 p14
  obtain ⟨fn, herr⟩ := norm2_wide _ hw ⟨m1, m2, m3⟩
  have hn2 : 1 / 4 ≤ val w.norm2 := by
    have hρ := rhoU_le3
    have hρ2 : rhoU uR ≤ 1 / 2 := le_trans hρ (by unfold uR; norm_num)
    have h1 := mul_le_mul_of_nonneg_right hρ2 (le_trans (by norm_num) hS1 : (0 : ℝ) ≤ _)
    have h2 := four_eR_le_u
    have h3 : uR / 1000 ≤ 1 / 4 := by unfold uR; norm_num
    have hb := abs_le.mp herr
    linarith
  have hlo : 1 / 2 ^ 1022 ≤ val w.norm2 :=
    le_trans (one_div_le_one_div_of_le (by norm_num)
      (le_trans (by norm_num : (4 : ℝ) ≤ 2 ^ 2) (pow_le_pow_right₀ (by norm_num) (by norm_num)))) hn2
  have hfeq : F64.feq w.norm2 (F64.zero false) = false := by
    cases h : F64.feq w.norm2 (F64.zero false)
    · rfl
    · exfalso
      have h1 := (feq_iff fn (zero_val false).1).1 h
      have h2 := (val_eq_iff _ _).2 h1
      rw [VertexErr.val_zero] at h2
      linarith
  rw [normalize_eq w hfeq]
  obtain ⟨_, _, fq, hn512, _, s, ν, hs0, hsn, heq, hν⟩ := scaleSpec _ hw m1 m2 m3 hlo
  have hVpos : 0 < (ofV w).norm := lt_of_lt_of_le (by positivity) hn512
  obtain ⟨hVh, hQ⟩ := unit_close hVpos hs0 hsn hν
  rw [← heq] at hQ
  exact ⟨fq, scale_unit w hw m1 m2 m3 hlo, hVpos, hVh, hQ⟩

theorem abs_mul_le_half (x y : ℝ) : |x * y| ≤ (x ^ 2 + y ^ 2) / 2 := by
  rw [abs_mul]
  nlinarith [sq_nonneg (|x| - |y|), sq_abs x, sq_abs y]

/-- one component of the float cross product of two unit-ish vectors: absolute error `2.01u` -/
theorem cross_comp_err {a b a' b' : F64} (ha : Fin a) (hb : Fin b) (ha' : Fin a') (hb' : Fin b')
    (ma : |val a| ≤ 2) (mb : |val b| ≤ 2) (ma' : |val a'| ≤ 2) (mb' : |val b'| ≤ 2)
    (hS : val a ^ 2 + val b ^ 2 + val a' ^ 2 + val b' ^ 2 ≤ 2 + 30 * uR) :
    Fin (a * b - a' * b') ∧ |val (a * b - a' * b') - (val a * val b - val a' * val b')| ≤ 201 / 100 * uR := by
  obtain ⟨f, -, r1, r2, r3⟩ := cross_step stdModel ha hb ha' hb' ma mb ma' mb'
  refine ⟨f, ?_⟩
  have hu0 := uR_nonneg
  have hu : uR = 1 / 2 ^ 53 := rfl
  have he0 := eR_nonneg
  have het : eR ≤ uR / 2 ^ 30 := EdgeErr.eR_le_uR
  have h := cross_comp hu0 r1 r2 r3
  have k1 := abs_mul_le_half (val a) (val b)
  have k2 := abs_mul_le_half (val a') (val b')
  have hSS : |val a * val b| + |val a' * val b'| ≤ 1001 / 1000 := by
    have : 30 * uR ≤ 2 / 1000 := by rw [hu]; norm_num
    linarith
  have hD : |val a * val b - val a' * val b'| ≤ 1001 / 1000 := by
    have := abs_sub (val a * val b) (val a' * val b')
    linarith
  have hS0 : 0 ≤ |val a * val b| + |val a' * val b'| := by positivity
  have t1 : uR * |val a * val b - val a' * val b'| ≤ uR * (1001 / 1000) := mul_le_mul_of_nonneg_left hD hu0
  have huu : uR * (1 + uR) ≤ uR * (1001 / 1000) := by
    apply mul_le_mul_of_nonneg_left _ hu0
    have : uR ≤ 1 / 1000 := by rw [hu]; norm_num
    linarith
  have t2 : uR * (1 + uR) * (|val a * val b| + |val a' * val b'|) ≤ uR * (1001 / 1000) * (1001 / 1000) :=
    mul_le_mul huu hSS hS0 (by linarith)
  have t3 : 2 * (1 + uR) * eR ≤ uR / 1000 := by
    have h1 : (1 + uR) * eR ≤ 2 * eR := by
      have : uR ≤ 1 := uR_le_one
      nlinarith
    have : uR / 2 ^ 30 * 4 ≤ uR / 1000 := by rw [hu]; norm_num
    linarith
  linarith

/-- the float cross product of two unit-ish vectors: the error vector has norm at most `4.02u` -/
theorem cross_err (e a : V3) (fe : Fin3 e) (fa : Fin3 a) (he : (ofV e).norm2 ≤ 1 + 20 * uR) (ha : (ofV a).norm2 ≤ 1 + 10 * uR) :
    Fin3 (e.cross a) ∧ (R3.sub (ofV (e.cross a)) (R3.cross (ofV e) (ofV a))).norm ≤ 402 / 100 * uR := by
  have hu0 := uR_nonneg
  have hu : uR = 1 / 2 ^ 53 := rfl
  have hE : val e.x ^ 2 + val e.y ^ 2 + val e.z ^ 2 ≤ 1 + 20 * uR := he
  have hA : val a.x ^ 2 + val a.y ^ 2 + val a.z ^ 2 ≤ 1 + 10 * uR := ha
  have h4e : 1 + 20 * uR ≤ 4 := by rw [hu]; norm_num
  have h4a : 1 + 10 * uR ≤ 4 := by rw [hu]; norm_num
  have ex : |val e.x| ≤ 2 := abs_le_of_sq_sum_le hE h4e
  have ey : |val e.y| ≤ 2 := abs_le_of_sq_sum_le (by linarith : val e.y ^ 2 + val e.x ^ 2 + val e.z ^ 2 ≤ 1 + 20 * uR) h4e
  have ez : |val e.z| ≤ 2 := abs_le_of_sq_sum_le (by linarith : val e.z ^ 2 + val e.x ^ 2 + val e.y ^ 2 ≤ 1 + 20 * uR) h4e
  have ax : |val a.x| ≤ 2 := abs_le_of_sq_sum_le hA h4a
  have ay : |val a.y| ≤ 2 := abs_le_of_sq_sum_le (by linarith : val a.y ^ 2 + val a.x ^ 2 + val a.z ^ 2 ≤ 1 + 10 * uR) h4a
  have az : |val a.z| ≤ 2 := abs_le_of_sq_sum_le (by linarith : val a.z ^ 2 + val a.x ^ 2 + val a.y ^ 2 ≤ 1 + 10 * uR) h4a
  obtain ⟨fe1, fe2, fe3⟩ := fe
  obtain ⟨fa1, fa2, fa3⟩ := fa
  have sx := sq_nonneg (val e.x); have sy := sq_nonneg (val e.y); have sz := sq_nonneg (val e.z)
  have tx := sq_nonneg (val a.x); have ty := sq_nonneg (val a.y); have tz := sq_nonneg (val a.z)
  obtain ⟨f1, c1⟩ := cross_comp_err fe2 fa3 fe3 fa2 ey az ez ay (by linarith)
  obtain ⟨f2, c2⟩ := cross_comp_err fe3 fa1 fe1 fa3 ez ax ex az (by linarith)
  obtain ⟨f3, c3⟩ := cross_comp_err fe1 fa2 fe2 fa1 ex ay ey ax (by linarith)
  refine ⟨⟨f1, f2, f3⟩, ?_⟩
  have h := R3.norm_le_of_comp_le (v := R3.sub (ofV (e.cross a)) (R3.cross (ofV e) (ofV a))) (c := 201 / 100 * uR)
    (by linarith) c1 c2 c3
  linarith

set_option exponentiation.threshold 1100 in
theorem dotK_le : (fU uR + gU uR) * (21 / 20) + hU uR * eR ≤ 16 / 5 * uR := by
  unfold fU gU hU uR eR
  norm_num

/-- the float dot product of two vectors with `|P||Q| ≤ 1.05`: absolute error `3.2u` -/
theorem dot_gen (p q : V3) (fp : Fin3 p) (fq : Fin3 q) (Mp Mq : ℝ) (hp : (ofV p).norm ≤ Mp) (hq : (ofV q).norm ≤ Mq)
    (hp2 : Mp ≤ 2) (hq2 : Mq ≤ 2) (hM : Mp * Mq ≤ 21 / 20) :
    Fin (p.dot q) ∧ |val (p.dot q) - R3.dot (ofV p) (ofV q)| ≤ 16 / 5 * uR := by
  obtain ⟨p1, p2, p3⟩ := R3.abs_comp_le_norm (ofV p)
  obtain ⟨q1, q2, q3⟩ := R3.abs_comp_le_norm (ofV q)
  have mp : |val p.x| ≤ 2 ∧ |val p.y| ≤ 2 ∧ |val p.z| ≤ 2 :=
    ⟨by have : |val p.x| ≤ (ofV p).norm := p1
        linarith, by have : |val p.y| ≤ (ofV p).norm := p2
                     linarith, by have : |val p.z| ≤ (ofV p).norm := p3
                                  linarith⟩
  have mq : |val q.x| ≤ 2 ∧ |val q.y| ≤ 2 ∧ |val q.z| ≤ 2 :=
    ⟨by have : |val q.x| ≤ (ofV q).norm := q1
        linarith, by have : |val q.y| ≤ (ofV q).norm := q2
                     linarith, by have : |val q.z| ≤ (ofV q).norm := q3
                                  linarith⟩
  obtain ⟨fd, hd⟩ := dotChain_of_stdModel stdModel p q fp fq mp mq
  refine ⟨fd, ?_⟩
  set T := |val p.x * val q.x| + |val p.y * val q.y| + |val p.z * val q.z| with hT
  have hT0 : 0 ≤ T := by positivity
  have hP0 := (ofV p).norm_nonneg
  have hQ0 := (ofV q).norm_nonneg
  have hTM : T ≤ 21 / 20 := by
    have hcs := cs3 (val p.x) (val p.y) (val p.z) (val q.x) (val q.y) (val q.z)
    have e1 : |val p.x| * |val q.x| + |val p.y| * |val q.y| + |val p.z| * |val q.z| = T := by
      rw [hT]; simp only [abs_mul]
    rw [e1] at hcs
    have e2 : (val p.x ^ 2 + val p.y ^ 2 + val p.z ^ 2) * (val q.x ^ 2 + val q.y ^ 2 + val q.z ^ 2)
        = ((ofV p).norm * (ofV q).norm) ^ 2 := by
      rw [mul_pow, R3.norm_sq, R3.norm_sq]; rfl
    rw [e2] at hcs
    have h1 : T ≤ (ofV p).norm * (ofV q).norm := le_of_sq_le hT0 (mul_nonneg hP0 hQ0) hcs
    have h2 : (ofV p).norm * (ofV q).norm ≤ Mp * Mq := mul_le_mul hp hq hQ0 (le_trans hP0 hp)
    linarith
  have hDT : |val p.x * val q.x + val p.y * val q.y + val p.z * val q.z| ≤ T := abs_add_three _ _ _
  have eD : R3.dot (ofV p) (ofV q) = val p.x * val q.x + val p.y * val q.y + val p.z * val q.z := rfl
  rw [eD]
  have h1 : fU uR * |val p.x * val q.x + val p.y * val q.y + val p.z * val q.z| ≤ fU uR * (21 / 20) :=
    mul_le_mul_of_nonneg_left (le_trans hDT hTM) fU_nn
  have h2 : gU uR * T ≤ gU uR * (21 / 20) := mul_le_mul_of_nonneg_left hTM gU_nn
  have := dotK_le
  linarith

/-- the real skeleton of the slab quantity: `dF ≈ E × a`, `E ≈ n̂`, `Vq ≈ V̂` -/
theorem slab_real (dF E a Vq Vh nh : R3) (c1 c2 c3 mE ma mV : ℝ)
    (h1 : (R3.sub dF (R3.cross E a)).norm ≤ c1) (h2 : (R3.sub E nh).norm ≤ c2) (h3 : (R3.sub Vq Vh).norm ≤ c3)
    (hVh : Vh.norm = 1) (hE : E.norm ≤ mE) (ha : a.norm ≤ ma) (hVq : Vq.norm ≤ mV) :
    |R3.dot dF Vq - R3.dot (R3.cross nh a) Vh| ≤ c1 * mV + mE * ma * c3 + c2 * ma := by
  have e : R3.dot dF Vq - R3.dot (R3.cross nh a) Vh
      = R3.dot (R3.sub dF (R3.cross E a)) Vq + R3.dot (R3.cross E a) (R3.sub Vq Vh)
        + R3.dot (R3.cross (R3.sub E nh) a) Vh := by
    unfold R3.dot R3.cross R3.sub; simp only; ring
  rw [e]
  have k1 := R3.abs_dot_le (R3.sub dF (R3.cross E a)) Vq
  have k2 := R3.abs_dot_le (R3.cross E a) (R3.sub Vq Vh)
  have k3 := R3.abs_dot_le (R3.cross (R3.sub E nh) a) Vh
  have n1 := R3.norm_cross_le E a
  have n2 := R3.norm_cross_le (R3.sub E nh) a
  have z1 := (R3.sub dF (R3.cross E a)).norm_nonneg
  have z2 := (R3.sub E nh).norm_nonneg
  have z3 := (R3.sub Vq Vh).norm_nonneg
  have z4 := E.norm_nonneg
  have z5 := a.norm_nonneg
  have z6 := Vq.norm_nonneg
  have z7 := (R3.cross E a).norm_nonneg
  have z8 := (R3.cross (R3.sub E nh) a).norm_nonneg
  have b1 : (R3.sub dF (R3.cross E a)).norm * Vq.norm ≤ c1 * mV := mul_le_mul h1 hVq z6 (le_trans z1 h1)
  have b2 : (R3.cross E a).norm * (R3.sub Vq Vh).norm ≤ mE * ma * c3 := by
    have : E.norm * a.norm ≤ mE * ma := mul_le_mul hE ha z5 (le_trans z4 hE)
    exact mul_le_mul (le_trans n1 this) h3 z3 (le_trans (mul_nonneg z4 z5) this)
  have b3 : (R3.cross (R3.sub E nh) a).norm * Vh.norm ≤ c2 * ma := by
    rw [hVh, mul_one]
    exact le_trans n2 (mul_le_mul h2 ha z5 (le_trans z2 h2))
  have t := abs_add_three (R3.dot (R3.sub dF (R3.cross E a)) Vq) (R3.dot (R3.cross E a) (R3.sub Vq Vh))
    (R3.dot (R3.cross (R3.sub E nh) a) Vh)
  linarith

theorem norm_le_1001 {v : R3} (h : v.norm2 ≤ 1 + 20 * uR) : v.norm ≤ 1001 / 1000 := by
  apply R3.norm_le_of_sq (by norm_num)
  have : (1 : ℝ) + 20 * (1 / 2 ^ 53) ≤ (1001 / 1000) ^ 2 := by norm_num
  have hu : uR = 1 / 2 ^ 53 := rfl
  linarith

end SlabF

/-- the error bound of the float slab quantities -/
noncomputable def slabErr : ℝ := 40 * uR

/-- the exact normalised slab quantity `(N_k × A)·V̂_j / |N_k|` (face frame) -/
noncomputable def slabT (cell : Cell) (a : V3) (k j : Nat) : ℝ :=
  R3.dot (R3.cross (nrm (rectOf cell) k) (fA cell a)) (vtx (rectOf cell) j) / (nrm (rectOf cell) k).norm

open SlabF FloatEdge VertexF in
/-- **the float slab quantity**: `dir·Vertex(j)`, `dir = Edge(k) × centre`, is finite and within `slabErr = 40u` of the exact
    normalised quantity `(N_k × A)·V̂_j / |N_k|` -/
theorem slab_err (cell : Cell) (ctx : CellCtx cell) (a : V3) (ha : NUnit a) (k : Nat) (hk : k < 4) (j : Nat) (hj : j < 4) :
    Fin (((CellM.edge cell k).cross a).dot (CellM.vertex cell j)) ∧
    |val (((CellM.edge cell k).cross a).dot (CellM.vertex cell j)) - slabT cell a k j| ≤ slabErr := by
  have hu0 := uR_nonneg
  have hu : uR = 1 / 2 ^ 53 := rfl
  -- the edge normal
  obtain ⟨fN, eN, bx, by', bz⟩ := edgeRaw_frame cell ctx.fu0 ctx.fu1 ctx.fv0 ctx.fv1 ctx.hr ctx.hface k hk
  have hn := nrm_norm2 (rectOf cell) ctx.hr k
  rw [← eN, uvwR_norm2] at hn
  obtain ⟨fE, hE2, hNpos, hnh, hEc⟩ := normalize_close (edgeRaw cell k) fN bx by' bz hn.1
  have eEdge : CellM.edge cell k = (edgeRaw cell k).normalize := rfl
  rw [← eEdge] at fE hE2 hEc
  -- the vertex
  obtain ⟨x, y, hx, hy, e1, e2⟩ := vertex_cases cell j hj
  obtain ⟨a0, a1, a2, b0, b1, b2⟩ := ctx.hr
  unfold rectOf at a0 a1 a2 b0 b1 b2
  simp only at a0 a1 a2 b0 b1 b2
  have fx : Fin x := by rcases hx with rfl | rfl <;> [exact ctx.fu0; exact ctx.fu1]
  have fy : Fin y := by rcases hy with rfl | rfl <;> [exact ctx.fv0; exact ctx.fv1]
  have bx' : |val x| ≤ 1 := by rcases hx with rfl | rfl <;> (rw [abs_le]; constructor <;> linarith)
  have by'' : |val y| ≤ 1 := by rcases hy with rfl | rfl <;> (rw [abs_le]; constructor <;> linarith)
  obtain ⟨w1, w2, w3⟩ := coords_vertex cell.face bx' by''
  obtain ⟨fV, hV2, hWpos, hVh, hVc⟩ := normalize_close (faceUVToXYZ cell.face x y) (fin3_vertex cell.face fx fy) w1 w2 w3
    (norm2_vertex_ge cell.face x y)
  rw [← e1] at fV hV2 hVc
  -- names
  set E := ofV (CellM.edge cell k) with hEdef
  set N := ofV (edgeRaw cell k) with hNdef
  set W := ofV (faceUVToXYZ cell.face x y) with hWdef
  set Vq := ofV (CellM.vertex cell j) with hVqdef
  -- sizes
  have hEn : E.norm ≤ 1001 / 1000 := norm_le_1001 (by have := (abs_le.mp hE2).2; linarith)
  have hVn : Vq.norm ≤ 1001 / 1000 := norm_le_1001 (by have := (abs_le.mp hV2).2; linarith)
  have ha2 : (ofV a).norm2 ≤ 1 + 10 * uR := by
    have := nunit_norm2 ha
    have := nu_eps_le
    linarith
  have han : (ofV a).norm ≤ 1001 / 1000 := norm_le_1001 (by linarith)
  -- the float cross product
  obtain ⟨fC, hC⟩ := cross_err (CellM.edge cell k) a fE ha.1 (by have := (abs_le.mp hE2).2; linarith) ha2
  have hCn : (ofV ((CellM.edge cell k).cross a)).norm ≤ 101 / 100 := by
    have h1 := R3.norm_le_add_sub (ofV ((CellM.edge cell k).cross a)) (R3.cross E (ofV a))
    have h2 := R3.norm_cross_le E (ofV a)
    have h3 : E.norm * (ofV a).norm ≤ 1001 / 1000 * (1001 / 1000) :=
      mul_le_mul hEn han (R3.norm_nonneg _) (by norm_num)
    have : 402 / 100 * uR ≤ 1 / 1000 := by rw [hu]; norm_num
    linarith
  -- the float dot product
  obtain ⟨fD, hD⟩ := dot_gen ((CellM.edge cell k).cross a) (CellM.vertex cell j) fC fV (101 / 100) (1001 / 1000) hCn hVn
    (by norm_num) (by norm_num) (by norm_num)
  refine ⟨fD, ?_⟩
  -- the real skeleton
  have hS := slab_real (ofV ((CellM.edge cell k).cross a)) E (ofV a) Vq (R3.smul (1 / W.norm) W) (R3.smul (1 / N.norm) N)
    (402 / 100 * uR) ((9 + 1 / 1000) * uR) ((9 + 1 / 1000) * uR) (1001 / 1000) (1001 / 1000) (1001 / 1000)
    hC hEc hVc hVh hEn han hVn
  -- the frame
  have eT : R3.dot (R3.cross (R3.smul (1 / N.norm) N) (ofV a)) (R3.smul (1 / W.norm) W) = slabT cell a k j := by
    unfold slabT
    have hvt : vtx (rectOf cell) j = uvwR cell.face (R3.smul (1 / W.norm) W) := by
      rw [e2, hWdef, frame_unit]
    rw [hvt, ← eN, norm_uvwR]
    unfold fA
    rw [← uvwR_cross, uvwR_dot, R3.cross_smul_left]
    have : ∀ (c : ℝ) (p q : R3), R3.dot (R3.smul c p) q = R3.dot p q * c := by
      intro c p q; unfold R3.dot R3.smul; ring
    rw [this]
    field_simp
  rw [eT] at hS
  have hb1 := abs_le.mp hD
  have hb2 := abs_le.mp hS
  unfold slabErr
  rw [abs_le]
  constructor <;> nlinarith

open SlabF in
/-- **the float slab test is false** ⇒ the exact normalised slab quantities are not both clearly (by `slabErr`) on the accepting side -/
theorem slab_false (cell : Cell) (ctx : CellCtx cell) (c : Cap) (hc : NUnit c.center) (k : Nat) (hk : k < 4)
    (h : slabF c cell k = false) :
    ¬ (slabT cell c.center k k < -slabErr ∧ slabErr < slabT cell c.center k ((k + 1) % 4)) := by
  rintro ⟨h1, h2⟩
  obtain ⟨f1, e1⟩ := slab_err cell ctx c.center hc k hk k hk
  obtain ⟨f2, e2⟩ := slab_err cell ctx c.center hc k hk ((k + 1) % 4) (Nat.mod_lt _ (by norm_num))
  have fz := (zero_val false).1
  have vz := (zero_val false).2
  have b1 := abs_le.mp e1
  have b2 := abs_le.mp e2
  have t1 : F64.lt (((CellM.edge cell k).cross c.center).dot (CellM.vertex cell k)) (F64.zero false) = true := by
    rw [S2Proofs.CapF64.lt_iff_val f1 fz, vz]; linarith
  have t2 : F64.gt (((CellM.edge cell k).cross c.center).dot (CellM.vertex cell ((k + 1) % 4))) (F64.zero false) = true := by
    unfold F64.gt
    rw [S2Proofs.CapF64.lt_iff_val fz f2, vz]; linarith
  unfold slabF at h
  simp only [t1, t2, Bool.and_self] at h
  exact Bool.noConfusion h

/-! ### non-vacuity: the face cell 0 (uv rectangle `[-1,1]²`); centre `(1,0,0)` (the cell centre: every edge is skipped, and the centre
    is at distance `1/√2` from each edge circle); centre `(−1,0,0)`, radius `1/2`, edge 0 (not skipped, slab test false) -/

namespace SlabF
def exB : V3 := ⟨F64.one, F64.zero false, F64.zero false⟩

theorem exCtx : CellCtx FloatEdge.exCell :=
  ⟨by decide, by decide, by decide, by decide, FloatEdge.exCell_ok, by decide⟩
end SlabF

open SlabF FloatEdge in
/-- all hypotheses of `skip_clear` hold for a concrete instance -/
example : CellCtx exCell ∧ NUnit exB ∧ (0 : Nat) < 4 ∧ skipF ⟨exB, exRad⟩ exCell 0 = true ∧
    1 / 2 ^ 50 ≤ |R3.dot (fA exCell exB) (nrm (rectOf exCell) 0)| / (nrm (rectOf exCell) 0).norm := by
  refine ⟨exCtx, (S2Proofs.CapF64.nunitB_iff exB).1 (by decide +kernel), by norm_num, by decide +kernel, ?_⟩
  have hd : R3.dot (fA exCell exB) (nrm (rectOf exCell) 0) = 1 := by
    simp only [fA, exCell, exB, uvwR, ofV, nrm, rectOf, R3.dot]
    rw [FloatEdge.val_negOne, FloatEdge.val_one, (zero_val false).2]; norm_num
  have hn2 := nrm_norm2 (rectOf exCell) exCell_ok 0
  have hpos : 0 < (nrm (rectOf exCell) 0).norm := by
    apply lt_of_lt_of_le (by norm_num : (0 : ℝ) < 1)
    apply R3.le_norm_of_sq; linarith [hn2.1]
  have hle : (nrm (rectOf exCell) 0).norm ≤ 2 := by
    apply R3.norm_le_of_sq (by norm_num); linarith [hn2.2]
  rw [hd, abs_one, le_div_iff₀ hpos]
  have : (1 : ℝ) / 2 ^ 50 ≤ 1 / 2 := by norm_num
  nlinarith

open SlabF FloatEdge in
/-- all hypotheses of `slab_err` / `slab_false` hold for a concrete instance -/
example : CellCtx exCell ∧ NUnit exA ∧ (0 : Nat) < 4 ∧ (1 : Nat) < 4 ∧ slabF ⟨exA, exRad⟩ exCell 0 = false := by
  refine ⟨exCtx, (S2Proofs.CapF64.nunitB_iff exA).1 (by decide +kernel), by norm_num, by norm_num, by decide +kernel⟩

end S2Proofs.C05Cap
