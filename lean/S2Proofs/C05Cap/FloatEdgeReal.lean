/-
  C05Cap.FloatEdgeReal — the PURE REAL lemma behind the "edge too far" exit of `Cap.intersects`.

  `A` the cap centre (unit-ish: `|‖A‖² − 1| ≤ γ`), `N ≠ 0` a normal of the edge plane, `q` a unit vector on the inner side of
  the plane up to a tilt `κ` (`q·N ≥ −κ|N|`; `κ = 0` for the exact normal), `ρ ∈ [0,2]` the squared chord radius.  If
      A·N ≤ ε|N|      and      (sin²R ρ − δ)·|N|² ≤ (A·N)²
  then  `dist2 A q ≥ ρ − (γ + 2(ε + (1+γ)κ) + 2√(γ+δ))`, and for `ρ ≤ 1` even
        `dist2 A q ≥ ρ − (3γ + 2δ + 2(ε + (1+γ)κ))`.

  The `√` is not an artefact: for `ρ` near 2 (cap ≈ hemisphere, `1 − ρ/2 ≈ 0`) an error `δ` in the comparison of the squares moves the
  boundary by `√δ`.
-/
import S2Proofs.C05Cap.Defs
import Mathlib.Tactic.Ring
import Mathlib.Tactic.Linarith
import Mathlib.Tactic.Positivity
import Mathlib.Tactic.NormNum
import Mathlib.Tactic.FieldSimp

namespace S2Proofs.C05Cap
open S2Proofs.C12Dist S2Proofs.C16Acc

namespace FloatEdge

theorem one_sub_sin2R (ρ : ℝ) : 1 - sin2R ρ = (1 - ρ / 2) ^ 2 := by unfold sin2R; ring

/-- `√(c² + x) ≤ c + √x` -/
theorem sqrt_add_le {c x : ℝ} (hc : 0 ≤ c) (hx : 0 ≤ x) : Real.sqrt (c ^ 2 + x) ≤ c + Real.sqrt x := by
  have hs := Real.sqrt_nonneg x
  have hsq := Real.sq_sqrt hx
  rw [show c + Real.sqrt x = Real.sqrt ((c + Real.sqrt x) ^ 2) from (Real.sqrt_sq (by linarith)).symm]
  apply Real.sqrt_le_sqrt
  nlinarith [mul_nonneg hc hs]

/-- `√(c² + x) ≤ c + x` for `c ≥ 1/2` -/
theorem sqrt_add_le_lin {c x : ℝ} (hc : 1 / 2 ≤ c) (hx : 0 ≤ x) : Real.sqrt (c ^ 2 + x) ≤ c + x := by
  rw [show c + x = Real.sqrt ((c + x) ^ 2) from (Real.sqrt_sq (by linarith)).symm]
  apply Real.sqrt_le_sqrt
  nlinarith [mul_nonneg (by linarith : (0 : ℝ) ≤ 2 * c - 1) hx, sq_nonneg x]

/-- the core estimate with a UNIT normal `e`: `A·q ≤ ε + μκ + √(‖A‖² − (A·e)²)` -/
theorem dot_le_unit (A e q : R3) (he : e.norm2 = 1) (hq : q.norm2 = 1) (ε κ μ : ℝ)
    (hκ : 0 ≤ κ) (hε : 0 ≤ ε) (hqe : -κ ≤ R3.dot q e) (hμ : A.norm2 ≤ μ ^ 2) (hμ0 : 0 ≤ μ)
    (hd : R3.dot A e ≤ ε) :
    R3.dot A q ≤ ε + μ * κ + Real.sqrt (A.norm2 - (R3.dot A e) ^ 2) := by
  set α := R3.dot A e with hα
  -- the part of `A` orthogonal to `e`
  have hw2 : (R3.sub A (R3.smul α e)).norm2 = A.norm2 - α ^ 2 := by
    have e1 : (R3.sub A (R3.smul α e)).norm2 = A.norm2 - 2 * α * R3.dot A e + α ^ 2 * e.norm2 := by
      unfold R3.sub R3.smul R3.norm2 R3.dot; ring
    rw [e1, he, ← hα]; ring
  have hwq : R3.dot (R3.sub A (R3.smul α e)) q = R3.dot A q - α * R3.dot q e := by
    unfold R3.sub R3.smul R3.dot; ring
  have hqn : q.norm = 1 := by unfold R3.norm; rw [hq, Real.sqrt_one]
  have hcs := R3.dot_le (R3.sub A (R3.smul α e)) q
  rw [hqn, mul_one, hwq] at hcs
  unfold R3.norm at hcs
  rw [hw2] at hcs
  -- |q·e| ≤ 1, |α| ≤ μ
  have hqe1 : R3.dot q e ≤ 1 := by
    have := R3.dot_sq_le q e
    rw [hq, he] at this
    nlinarith
  have hαμ : -μ ≤ α := by
    have := R3.dot_sq_le A e
    rw [he, mul_one] at this
    nlinarith
  -- α·(q·e) ≤ ε + μκ
  have hprod : α * R3.dot q e ≤ ε + μ * κ := by
    by_cases hα0 : 0 ≤ α
    · by_cases ht0 : 0 ≤ R3.dot q e
      · have : α * R3.dot q e ≤ ε * 1 := mul_le_mul hd hqe1 ht0 hε
        nlinarith [mul_nonneg hμ0 hκ]
      · have : α * R3.dot q e ≤ 0 := mul_nonpos_of_nonneg_of_nonpos hα0 (le_of_lt (not_le.mp ht0))
        nlinarith [mul_nonneg hμ0 hκ]
    · have hα0' : α ≤ 0 := le_of_lt (not_le.mp hα0)
      by_cases ht0 : 0 ≤ R3.dot q e
      · have : α * R3.dot q e ≤ 0 := mul_nonpos_of_nonpos_of_nonneg hα0' ht0
        nlinarith [mul_nonneg hμ0 hκ]
      · have ht0' : R3.dot q e ≤ 0 := le_of_lt (not_le.mp ht0)
        -- (−α)(−t) ≤ μ κ
        have : (-α) * (-(R3.dot q e)) ≤ μ * κ :=
          mul_le_mul (by linarith) (by linarith) (by linarith) hμ0
        nlinarith
  linarith

/-- the unit-normal form of the far test: general radius, slack `γ + 2(ε + μκ) + 2√(γ+δ)` -/
theorem far_unit (A e q : R3) (he : e.norm2 = 1) (hq : q.norm2 = 1) (ρ γ ε δ κ : ℝ)
    (hρ0 : 0 ≤ ρ) (hρ2 : ρ ≤ 2) (hκ : 0 ≤ κ) (hε : 0 ≤ ε) (hγ : 0 ≤ γ) (hγδ : 0 ≤ γ + δ)
    (hqe : -κ ≤ R3.dot q e) (hA : |A.norm2 - 1| ≤ γ) (hd : R3.dot A e ≤ ε)
    (hfar : sin2R ρ - δ ≤ (R3.dot A e) ^ 2) :
    ρ - (γ + 2 * (ε + (1 + γ) * κ) + 2 * Real.sqrt (γ + δ)) ≤ dist2 A q := by
  have hAb := abs_le.mp hA
  have hμ : A.norm2 ≤ (1 + γ) ^ 2 := by nlinarith
  have h1 := dot_le_unit A e q he hq ε κ (1 + γ) hκ hε hqe hμ (by linarith) hd
  have hc : 0 ≤ 1 - ρ / 2 := by linarith
  have h2 : Real.sqrt (A.norm2 - (R3.dot A e) ^ 2) ≤ (1 - ρ / 2) + Real.sqrt (γ + δ) := by
    refine le_trans (Real.sqrt_le_sqrt ?_) (sqrt_add_le hc hγδ)
    have := one_sub_sin2R ρ
    linarith
  rw [dist2_eq, hq]
  linarith

/-- the unit-normal form for `ρ ≤ 1` (caps of at most 60°): slack `3γ + 2δ + 2(ε + μκ)`, no square root -/
theorem far_unit_small (A e q : R3) (he : e.norm2 = 1) (hq : q.norm2 = 1) (ρ γ ε δ κ : ℝ)
    (hρ0 : 0 ≤ ρ) (hρ1 : ρ ≤ 1) (hκ : 0 ≤ κ) (hε : 0 ≤ ε) (hγ : 0 ≤ γ) (hγδ : 0 ≤ γ + δ)
    (hqe : -κ ≤ R3.dot q e) (hA : |A.norm2 - 1| ≤ γ) (hd : R3.dot A e ≤ ε)
    (hfar : sin2R ρ - δ ≤ (R3.dot A e) ^ 2) :
    ρ - (3 * γ + 2 * δ + 2 * (ε + (1 + γ) * κ)) ≤ dist2 A q := by
  have hAb := abs_le.mp hA
  have hμ : A.norm2 ≤ (1 + γ) ^ 2 := by nlinarith
  have h1 := dot_le_unit A e q he hq ε κ (1 + γ) hκ hε hqe hμ (by linarith) hd
  have hc : 1 / 2 ≤ 1 - ρ / 2 := by linarith
  have h2 : Real.sqrt (A.norm2 - (R3.dot A e) ^ 2) ≤ (1 - ρ / 2) + (γ + δ) := by
    refine le_trans (Real.sqrt_le_sqrt ?_) (sqrt_add_le_lin hc hγδ)
    have := one_sub_sin2R ρ
    linarith
  rw [dist2_eq, hq]
  linarith

/-- the unit-normal form with a MARGIN `γ` in the squared test (`sin²R ρ + γ ≤ (A·e)²`): no square root of a small number is left,
    slack `γ + 2(ε + μκ)` for all `0 ≤ ρ ≤ 2` -/
theorem far_unit_margin (A e q : R3) (he : e.norm2 = 1) (hq : q.norm2 = 1) (ρ γ ε κ : ℝ)
    (_hρ0 : 0 ≤ ρ) (hρ2 : ρ ≤ 2) (hκ : 0 ≤ κ) (hε : 0 ≤ ε) (hγ : 0 ≤ γ)
    (hqe : -κ ≤ R3.dot q e) (hA : |A.norm2 - 1| ≤ γ) (hd : R3.dot A e ≤ ε)
    (hfar : sin2R ρ + γ ≤ (R3.dot A e) ^ 2) :
    ρ - (γ + 2 * (ε + (1 + γ) * κ)) ≤ dist2 A q := by
  have hAb := abs_le.mp hA
  have hμ : A.norm2 ≤ (1 + γ) ^ 2 := by nlinarith
  have h1 := dot_le_unit A e q he hq ε κ (1 + γ) hκ hε hqe hμ (by linarith) hd
  have hc : 0 ≤ 1 - ρ / 2 := by linarith
  have h2 : Real.sqrt (A.norm2 - (R3.dot A e) ^ 2) ≤ 1 - ρ / 2 := by
    rw [show 1 - ρ / 2 = Real.sqrt ((1 - ρ / 2) ^ 2) from (Real.sqrt_sq hc).symm]
    apply Real.sqrt_le_sqrt
    have := one_sub_sin2R ρ
    linarith
  rw [dist2_eq, hq]
  linarith

/-! ### from a general normal `N ≠ 0` to the unit normal `N/|N|` -/

theorem unit_of (N : R3) (hN : 0 < N.norm2) :
    0 < N.norm ∧ (R3.smul (1 / N.norm) N).norm2 = 1 ∧
    ∀ X : R3, R3.dot X (R3.smul (1 / N.norm) N) = R3.dot X N / N.norm := by
  have hn : 0 < N.norm := Real.sqrt_pos.mpr hN
  refine ⟨hn, ?_, ?_⟩
  · rw [R3.norm2_smul, ← R3.norm_sq]; field_simp
  · intro X; unfold R3.dot R3.smul; field_simp

end FloatEdge

open FloatEdge in
/-- **the real lemma, with a tilt** `κ` of the normal (`q·N ≥ −κ|N|`): general radius `0 ≤ ρ ≤ 2` -/
theorem far_real_tilt (A N q : R3) (hN : 0 < N.norm2) (hq : q.norm2 = 1) (ρ γ ε δ κ : ℝ)
    (hρ0 : 0 ≤ ρ) (hρ2 : ρ ≤ 2) (hκ : 0 ≤ κ) (hε : 0 ≤ ε) (hγ : 0 ≤ γ) (hγδ : 0 ≤ γ + δ)
    (hqN : -κ * N.norm ≤ R3.dot q N) (hA : |A.norm2 - 1| ≤ γ) (hd : R3.dot A N ≤ ε * N.norm)
    (hfar : (sin2R ρ - δ) * N.norm2 ≤ (R3.dot A N) ^ 2) :
    ρ - (γ + 2 * (ε + (1 + γ) * κ) + 2 * Real.sqrt (γ + δ)) ≤ dist2 A q := by
  obtain ⟨hn, he, hdot⟩ := unit_of N hN
  apply far_unit A (R3.smul (1 / N.norm) N) q he hq ρ γ ε δ κ hρ0 hρ2 hκ hε hγ hγδ
  · rw [hdot, le_div_iff₀ hn]; exact hqN
  · exact hA
  · rw [hdot, div_le_iff₀ hn]; exact hd
  · rw [hdot, div_pow, R3.norm_sq, le_div_iff₀ hN]; exact hfar

open FloatEdge in
/-- the same for `ρ ≤ 1`: linear slack -/
theorem far_real_tilt_small (A N q : R3) (hN : 0 < N.norm2) (hq : q.norm2 = 1) (ρ γ ε δ κ : ℝ)
    (hρ0 : 0 ≤ ρ) (hρ1 : ρ ≤ 1) (hκ : 0 ≤ κ) (hε : 0 ≤ ε) (hγ : 0 ≤ γ) (hγδ : 0 ≤ γ + δ)
    (hqN : -κ * N.norm ≤ R3.dot q N) (hA : |A.norm2 - 1| ≤ γ) (hd : R3.dot A N ≤ ε * N.norm)
    (hfar : (sin2R ρ - δ) * N.norm2 ≤ (R3.dot A N) ^ 2) :
    ρ - (3 * γ + 2 * δ + 2 * (ε + (1 + γ) * κ)) ≤ dist2 A q := by
  obtain ⟨hn, he, hdot⟩ := unit_of N hN
  apply far_unit_small A (R3.smul (1 / N.norm) N) q he hq ρ γ ε δ κ hρ0 hρ1 hκ hε hγ hγδ
  · rw [hdot, le_div_iff₀ hn]; exact hqN
  · exact hA
  · rw [hdot, div_le_iff₀ hn]; exact hd
  · rw [hdot, div_pow, R3.norm_sq, le_div_iff₀ hN]; exact hfar

open FloatEdge in
/-- **the real lemma for the REPAIRED test**: a margin `γ` (the allowance on `‖A‖²`) in the squared test,
    `(sin²R ρ + γ)·|N|² ≤ (A·N)²`, gives a slack LINEAR in the errors for every radius `0 ≤ ρ ≤ 2` -/
theorem far_real_margin (A N q : R3) (hN : 0 < N.norm2) (hq : q.norm2 = 1) (κ ε γ ρ : ℝ) (hκ : 0 ≤ κ)
    (hqN : -κ * N.norm ≤ R3.dot q N) (hρ0 : 0 ≤ ρ) (hρ2 : ρ ≤ 2) (hε : 0 ≤ ε) (hγ : 0 ≤ γ)
    (hA : |A.norm2 - 1| ≤ γ) (hd : R3.dot A N ≤ ε * N.norm) (hfar : (sin2R ρ + γ) * N.norm2 ≤ (R3.dot A N) ^ 2) :
    ρ - (γ + 2 * (ε + (1 + γ) * κ)) ≤ dist2 A q := by
  obtain ⟨hn, he, hdot⟩ := unit_of N hN
  apply far_unit_margin A (R3.smul (1 / N.norm) N) q he hq ρ γ ε κ hρ0 hρ2 hκ hε hγ
  · rw [hdot, le_div_iff₀ hn]; exact hqN
  · exact hA
  · rw [hdot, div_le_iff₀ hn]; exact hd
  · rw [hdot, div_pow, R3.norm_sq, le_div_iff₀ hN]; exact hfar

/-- **`far_real`** (exact normal, `q·N ≥ 0`): if the centre `A` (`|‖A‖²−1| ≤ γ`) is on the outer side of the edge plane up to `ε`
    (`A·N ≤ ε|N|`) and the squared test `sin²R ρ·|N|² − δ|N|² ≤ (A·N)²` holds, every unit `q` on the inner side has
    `dist2 A q ≥ ρ − (2ε + γ + 2√(γ+δ))`. -/
theorem far_real (A N q : R3) (hN : 0 < N.norm2) (hq : q.norm2 = 1) (hqN : 0 ≤ R3.dot q N) (ρ γ ε δ : ℝ)
    (hρ0 : 0 ≤ ρ) (hρ2 : ρ ≤ 2) (hε : 0 ≤ ε) (hγ : 0 ≤ γ) (hγδ : 0 ≤ γ + δ)
    (hA : |A.norm2 - 1| ≤ γ) (hd : R3.dot A N ≤ ε * N.norm)
    (hfar : sin2R ρ * N.norm2 - δ * N.norm2 ≤ (R3.dot A N) ^ 2) :
    ρ - (2 * ε + γ + 2 * Real.sqrt (γ + δ)) ≤ dist2 A q := by
  have h := far_real_tilt A N q hN hq ρ γ ε δ 0 hρ0 hρ2 (le_refl 0) hε hγ hγδ (by simpa using hqN) hA hd
    (by linarith [sub_mul (sin2R ρ) δ N.norm2])
  linarith

/-- `far_real` for `ρ ≤ 1`: slack `2ε + 3γ + 2δ` -/
theorem far_real_small (A N q : R3) (hN : 0 < N.norm2) (hq : q.norm2 = 1) (hqN : 0 ≤ R3.dot q N) (ρ γ ε δ : ℝ)
    (hρ0 : 0 ≤ ρ) (hρ1 : ρ ≤ 1) (hε : 0 ≤ ε) (hγ : 0 ≤ γ) (hγδ : 0 ≤ γ + δ)
    (hA : |A.norm2 - 1| ≤ γ) (hd : R3.dot A N ≤ ε * N.norm)
    (hfar : sin2R ρ * N.norm2 - δ * N.norm2 ≤ (R3.dot A N) ^ 2) :
    ρ - (2 * ε + 3 * γ + 2 * δ) ≤ dist2 A q := by
  have h := far_real_tilt_small A N q hN hq ρ γ ε δ 0 hρ0 hρ1 (le_refl 0) hε hγ hγδ (by simpa using hqN) hA hd
    (by linarith [sub_mul (sin2R ρ) δ N.norm2])
  linarith

/-- the exact test (`γ = ε = δ = 0`, `‖A‖ = 1`): the `return false` of `stepR` is sound -/
theorem far_exact (A N q : R3) (hN : 0 < N.norm2) (hq : q.norm2 = 1) (hqN : 0 ≤ R3.dot q N) (ρ : ℝ)
    (hρ0 : 0 ≤ ρ) (hρ2 : ρ ≤ 2) (hA : A.norm2 = 1) (hd : R3.dot A N ≤ 0)
    (hfar : sin2R ρ * N.norm2 ≤ (R3.dot A N) ^ 2) : ρ ≤ dist2 A q := by
  have h := far_real A N q hN hq hqN ρ 0 0 0 hρ0 hρ2 (le_refl 0) (le_refl 0) (by norm_num)
    (by rw [hA]; simp) (by simpa using hd) (by simpa using hfar)
  simpa using h

/-- **the `√δ` of `far_real` is sharp** (at `ρ = 2`, `γ = ε = 0`): for every `0 ≤ δ ≤ 1` there are a unit centre `A`, a unit normal `N`
    with `A·N ≤ 0` and `(sin²R 2 − δ)|N|² ≤ (A·N)²`, and a unit `q` ON the plane (`q·N = 0`) with `dist2 A q = 2 − 2√δ` exactly. -/
theorem far_real_sharp (δ : ℝ) (h0 : 0 ≤ δ) (h1 : δ ≤ 1) :
    ∃ A N q : R3, 0 < N.norm2 ∧ q.norm2 = 1 ∧ 0 ≤ R3.dot q N ∧ A.norm2 = 1 ∧ R3.dot A N ≤ 0 * N.norm ∧
      sin2R 2 * N.norm2 - δ * N.norm2 ≤ (R3.dot A N) ^ 2 ∧ dist2 A q = 2 - 2 * Real.sqrt (0 + δ) := by
  have hs1 := Real.sq_sqrt h0
  have hs2 := Real.sq_sqrt (by linarith : (0 : ℝ) ≤ 1 - δ)
  have hs3 := Real.sqrt_nonneg (1 - δ)
  refine ⟨⟨Real.sqrt δ, 0, -Real.sqrt (1 - δ)⟩, ⟨0, 0, 1⟩, ⟨1, 0, 0⟩, ?_, ?_, ?_, ?_, ?_, ?_, ?_⟩
  · unfold R3.norm2; norm_num
  · unfold R3.norm2; norm_num
  · unfold R3.dot; norm_num
  · unfold R3.norm2; simp only; nlinarith
  · unfold R3.dot; simp only; linarith
  · unfold sin2R R3.norm2 R3.dot; simp only; nlinarith
  · rw [dist2_eq]; unfold R3.norm2 R3.dot; simp only [zero_add]; nlinarith

-- non-vacuity of `far_real`: centre `(0,0,1)`, normal `(0,0,-1)`... the centre is exactly opposite to the inner side,
-- `ρ = 1`, `q = (1,0,0)` on the plane: `dist2 = 2 ≥ 1`.
example : ∃ A N q : R3, 0 < N.norm2 ∧ q.norm2 = 1 ∧ 0 ≤ R3.dot q N ∧ A.norm2 = 1 ∧ R3.dot A N ≤ 0 ∧
    sin2R 1 * N.norm2 ≤ (R3.dot A N) ^ 2 :=
  ⟨⟨0, 0, 1⟩, ⟨0, 0, -1⟩, ⟨1, 0, 0⟩, by unfold R3.norm2; norm_num, by unfold R3.norm2; norm_num,
    by unfold R3.dot; norm_num, by unfold R3.norm2; norm_num, by unfold R3.dot; norm_num,
    by unfold sin2R R3.norm2 R3.dot; norm_num⟩

end S2Proofs.C05Cap
