/-
  C05Cap.SoundClear — the final `return false` of the edge loop WITHOUT the proviso `DecisionsExact`:
  it is replaced by the general-position hypothesis `CenterClear` (the centre is at least `2^-50` away from the great
  circle of each cell edge).  The slab clause of the proviso becomes a theorem by a robust argument (`robust_edge`: when a cell
  point is `Δ` inside the cap while every vertex is outside, the exact slab quantities are at least `≈ Δ/2` in size, above the
  float error `slabErr` of the computed ones), the skip clause follows from `CenterClear` (`skip_clear`).
-/
import S2Proofs.C05Cap.SoundF
import S2Proofs.C05Cap.RobustEdge
import S2Proofs.C05Cap.SlabF

namespace S2Proofs.C05Cap
open S2 S2.CellM S2.CapF64 S2.CapCell S2Proofs.C12Dist S2Proofs.C16Acc S2Proofs.FloatErr S2Proofs.F64Order
open S2Proofs.CapF64 (NUnit NU eps)
open scoped S2.CapF64

/-- normalised exact slab quantity of edge `k` at vertex `j` -/
noncomputable def tSlab (r : RRect) (A : R3) (k j : Nat) : ℝ :=
  R3.dot (R3.cross (nrm r k) A) (vtx r j) / (nrm r k).norm

/-- the robust margin of the argument (squared chord): `2^-45 = 256u` -/
noncomputable def robustΔ : ℝ := 1 / 2 ^ 45

/-- FALL THROUGH, robust: every vertex farther than `ρv` from `A`, the unit centre outside the cell, and at every edge
    either the centre is strictly inside the edge's great circle or the exact slab quantities are not both beyond `λ`
    (`λ ≤ 120u`) ⇒ no cell point is within `ρv − 10γ − 2^-45` of `A`. -/
theorem fall_through_clear_real (r : RRect) (hr : r.OK) (A : R3) (γ : ℝ) (hγ1 : γ ≤ 1 / 2 ^ 40) (hA : |A.norm2 - 1| ≤ γ)
    (ρv : ℝ) (hρ2 : ρv ≤ 2) (hv : ∀ k, k < 4 → ρv < dist2 A (vtx r k))
    (hout : ¬ InCell r (unitOf A)) (lam : ℝ) (hlam : lam ≤ 120 * uR)
    (hdec : ∀ k, k < 4 → SkipExact r A k ∨ ¬ (tSlab r A k k < -lam ∧ lam < tSlab r A k ((k + 1) % 4)))
    (q : R3) (hq : InCell r q) : ρv - 10 * γ - robustΔ < dist2 A q := by
  by_contra hcon
  have hcon := not_lt.mp hcon
  have hγ10 : γ ≤ 1 / 10 := le_trans hγ1 (by norm_num)
  obtain ⟨hpos, hlo, hhi⟩ := norm_near_one A γ (by linarith) hA
  have hγ0 : 0 ≤ γ := le_trans (abs_nonneg _) hA
  have hn : 0 < A.norm := Real.sqrt_pos.mpr hpos
  have hs : 0 < 1 / A.norm := by positivity
  have hΔ : (0 : ℝ) < robustΔ := by unfold robustΔ; positivity
  -- the unit centre meets the cell within ρ1 = ρv − 5γ − Δ
  have hM : Meets r (unitOf A) (ρv - 5 * γ - robustΔ) := by
    refine ⟨q, hq, ?_⟩
    have := unit_dist2_le A q γ hγ10 hA hq.1 (ρv - 10 * γ - robustΔ) hcon (by linarith)
    linarith
  have hv' : ∀ k, k < 4 → (ρv - 5 * γ - robustΔ) + robustΔ ≤ dist2 (unitOf A) (vtx r k) := fun k hk => by
    have := unit_dist2_ge A _ γ hγ10 hA (vtx_norm2 r k) ρv (hv k hk) (by linarith)
    linarith
  obtain ⟨k, hk, hd, hs1, hs2, hq1, hq2⟩ :=
    robust_edge r hr (unitOf A) (unitOf_norm2 A hpos) _ robustΔ hΔ hM hv' hout
  unfold unitOf at hd hs1 hs2 hq1 hq2
  rw [dot_smul_left] at hd
  rw [cross_smul_right', dot_smul_left] at hs1 hs2 hq1 hq2
  rcases hdec k hk with h | h
  · unfold SkipExact at h
    have : 0 < 1 / A.norm * R3.dot A (nrm r k) := mul_pos hs h
    linarith
  · apply h
    have hNpos : 0 < (nrm r k).norm2 := nrm_norm2_pos r k
    have hNn : 0 < (nrm r k).norm := Real.sqrt_pos.mpr hNpos
    have hNsq : (nrm r k).norm ^ 2 = (nrm r k).norm2 := R3.norm_sq _
    -- (1 − ρ1/2) ≥ Δ/2
    have hc : robustΔ / 2 ≤ 1 - (ρv - 5 * γ - robustΔ) / 2 := by linarith
    have hu : uR = 1 / 2 ^ 53 := rfl
    have hΔv : robustΔ = 256 * uR := by unfold robustΔ; rw [hu]; norm_num
    have hupos : (0 : ℝ) < uR := by rw [hu]; positivity
    -- lower bound of the squares of the exact slab quantities (scaled by 1/|A|)
    have key : ∀ T : ℝ, (nrm r k).norm2 * ((1 - (ρv - 5 * γ - robustΔ) / 2) * (robustΔ / 2)) ≤ (1 / A.norm * T) ^ 2 →
        (121 * uR) ^ 2 < (T / (nrm r k).norm) ^ 2 := by
      intro T hT
      have h1 : (nrm r k).norm2 * (robustΔ / 2 * (robustΔ / 2)) ≤ (1 / A.norm * T) ^ 2 := by
        have : robustΔ / 2 * (robustΔ / 2) ≤ (1 - (ρv - 5 * γ - robustΔ) / 2) * (robustΔ / 2) :=
          mul_le_mul_of_nonneg_right hc (by linarith)
        nlinarith
      have h2 : (1 / A.norm * T) ^ 2 = T ^ 2 / A.norm ^ 2 := by field_simp
      rw [h2, le_div_iff₀ (by positivity)] at h1
      rw [div_pow, hNsq, lt_div_iff₀ hNpos]
      have hA2 : (99 / 100 : ℝ) ≤ A.norm ^ 2 := by
        rw [R3.norm_sq]; have := (abs_le.mp hA).1; linarith
      rw [hΔv] at h1
      have e0 : (121 * uR) ^ 2 < (128 * uR) * (128 * uR) * (99 / 100) := by nlinarith [hupos, mul_pos hupos hupos]
      have e1 : (121 * uR) ^ 2 * (nrm r k).norm2 < (128 * uR) * (128 * uR) * (99 / 100) * (nrm r k).norm2 :=
        mul_lt_mul_of_pos_right e0 hNpos
      have hX : 0 ≤ (nrm r k).norm2 * (256 * uR / 2 * (256 * uR / 2)) :=
        mul_nonneg hNpos.le (mul_nonneg (by linarith) (by linarith))
      have e2 : (nrm r k).norm2 * (256 * uR / 2 * (256 * uR / 2)) * (99 / 100) ≤
          (nrm r k).norm2 * (256 * uR / 2 * (256 * uR / 2)) * A.norm ^ 2 := mul_le_mul_of_nonneg_left hA2 hX
      nlinarith
    have abs_of_sq : ∀ x : ℝ, (121 * uR) ^ 2 < x ^ 2 → x < -(121 * uR) ∨ 121 * uR < x := by
      intro x hx
      by_contra hne
      have hne1 : -(121 * uR) ≤ x := not_lt.mp (fun h => hne (Or.inl h))
      have hne2 : x ≤ 121 * uR := not_lt.mp (fun h => hne (Or.inr h))
      have : x ^ 2 ≤ (121 * uR) ^ 2 := by
        have h61 : 0 ≤ 121 * uR := by linarith
        nlinarith
      linarith
    constructor
    · have hlt : tSlab r A k k < 0 := by
        unfold tSlab
        apply div_neg_of_neg_of_pos _ hNn
        by_contra h'
        have h' := not_lt.mp h'
        have : 0 ≤ 1 / A.norm * R3.dot (R3.cross (nrm r k) A) (vtx r k) := mul_nonneg hs.le h'
        linarith
      rcases abs_of_sq _ (key _ hq1) with h1 | h1
      · unfold tSlab; linarith
      · unfold tSlab at hlt; linarith
    · have hgt : 0 < tSlab r A k ((k + 1) % 4) := by
        unfold tSlab
        apply div_pos _ hNn
        by_contra h'
        have h' := not_lt.mp h'
        have : 1 / A.norm * R3.dot (R3.cross (nrm r k) A) (vtx r ((k + 1) % 4)) ≤ 0 :=
          mul_nonpos_of_nonneg_of_nonpos hs.le h'
        linarith
      rcases abs_of_sq _ (key _ hq2) with h1 | h1
      · unfold tSlab at hgt; linarith
      · unfold tSlab; linarith

/-! ### the float layer -/

/-- GENERAL POSITION of the centre with respect to a cell: it is at least `2^-50` (≈ 8.9e-16 rad) away from the great circle
    of each of the four edges (exact quantities: centre in the face frame, raw edge normals) -/
def CenterClear (c : Cap) (cell : Cell) : Prop :=
  ∀ k, k < 4 → 1 / 2 ^ 50 ≤ |R3.dot (fA cell c.center) (nrm (rectOf cell) k)| / (nrm (rectOf cell) k).norm

theorem slabErr_le : slabErr ≤ 120 * uR := by
  have hu : (0 : ℝ) < uR := by unfold uR; positivity
  unfold slabErr; linarith

/-- under `CenterClear` every fall-through of the loop body happened for an exactly true reason (skip) or with exact slab
    quantities that are not both beyond the float error (slab) -/
theorem decisions_of_clear (cell : Cell) (ctx : CellCtx cell) (c : Cap) (hc : NUnit c.center) (hclear : CenterClear c cell)
    (hall : ∀ k, k < 4 → edgeStep c (Chord.sin2 c.radius) cell k = none) :
    ∀ k, k < 4 → SkipExact (rectOf cell) (fA cell c.center) k ∨
      ¬ (tSlab (rectOf cell) (fA cell c.center) k k < -slabErr ∧ slabErr < tSlab (rectOf cell) (fA cell c.center) k ((k + 1) % 4)) := by
  intro k hk
  rcases edgeStep_none (hall k hk) with hs | ⟨-, -, hsl⟩
  · exact Or.inl (skip_clear cell ctx c hc k hk hs (hclear k hk))
  · exact Or.inr (slab_false cell ctx c hc k hk hsl)

/-- CORE (general position instead of the proviso): `intersects c cell = false`, no vertex within `ρ − vs` of the centre ⇒
    no cell point within `ρ − (2·vs + 11·γ0 + es + 2^-45)` -/
theorem intersects_false_core_clear {es : ℝ} (hE : EdgeFarSpec es) (hC : CenterSpec) (hes : 0 ≤ es)
    (cell : Cell) (ctx : CellCtx cell) (c : Cap) (hc : NUnit c.center) (hfin : Fin c.radius) (hr4 : val c.radius ≤ 4)
    (vs : ℝ) (hvs : 0 ≤ vs)
    (hvout : ∀ k, k < 4 → val c.radius - vs < dist2 (fA cell c.center) (vtx (rectOf cell) k))
    (hclear : FellThrough c cell → CenterClear c cell)
    (h : intersects c cell = false) :
    ∀ q : R3, InCellXYZ cell q → val c.radius - (2 * vs + 11 * γ0 + es + robustΔ) ≤ dist2 (ofV c.center) q := by
  intro q hq
  have hγ := γ0_nonneg
  have hΔ : (0 : ℝ) < robustΔ := by unfold robustΔ; positivity
  have hq' : InCell (rectOf cell) (uvwR cell.face q) := hq
  have hA := fA_norm2 cell hc
  rw [← fA_dist2 cell c.center q]
  have hd0 : 0 ≤ dist2 (fA cell c.center) (uvwR cell.face q) := by unfold dist2; exact R3.norm2_nonneg _
  rcases intersects_false h with h1 | ⟨_, h2⟩ | ⟨h1, h2, h3, h4⟩
  · have h2' := radius_ge_two hfin h1
    have := conv_out (rectOf cell) ctx.hr (fA cell c.center) (val c.radius - vs) hvout _ hq'
    have hn : (fA cell c.center).norm2 ≤ 1 + γ0 := by have := (abs_le.mp hA).2; linarith
    have hm : max 0 ((fA cell c.center).norm2 + 1 - (val c.radius - vs)) ≤ γ0 + vs :=
      max_le (by linarith) (by linarith)
    linarith
  · have := isEmpty_true hfin h2
    linarith
  · have hlt := radius_lt_two' hfin h1
    have h0 := isEmpty_false hfin h2
    rcases edgeLoop_false h4 with ⟨k, hk, hk'⟩ | hall
    · obtain ⟨hs, hf⟩ := edgeStep_false_tests hk'
      have := hE cell ctx c hc hfin h0 hlt k hk hs hf q hq
      rw [← fA_dist2 cell c.center q] at this
      linarith
    · have hCl := hclear ⟨h1, h2, h3, hall⟩
      have hγ1 : γ0 ≤ 1 / 2 ^ 40 := le_trans γ0_le (by unfold uR; norm_num)
      obtain ⟨hpos, -, -⟩ := norm_near_one (fA cell c.center) γ0 (le_trans hγ1 (by norm_num)) hA
      have hn : 0 < (fA cell c.center).norm := Real.sqrt_pos.mpr hpos
      have hout : ¬ InCell (rectOf cell) (unitOf (fA cell c.center)) := by
        unfold unitOf fA
        exact hC cell ctx c.center hc.1 h3 _ (by positivity)
      have := fall_through_clear_real (rectOf cell) ctx.hr (fA cell c.center) γ0 hγ1 hA (val c.radius - vs) (by linarith)
        hvout hout slabErr slabErr_le (decisions_of_clear cell ctx c hc hCl hall) _ hq'
      linarith

/-- slack of `IntersectsCell = false` under general position -/
noncomputable def slackIClear (es : ℝ) : ℝ := 2 * vertSlack + 11 * γ0 + es + robustΔ

/-- **`IntersectsCell = false` is sound for a centre in general position** (no proviso) -/
theorem intersectsCell_false_sound_clear {es : ℝ} (hE : EdgeFarSpec es) (hC : CenterSpec) (hes : 0 ≤ es)
    (cell : Cell) (ctx : CellCtx cell) (c : Cap) (hc : NUnit c.center) (hfin : Fin c.radius) (hr4 : val c.radius ≤ 4)
    (hclear : FellThrough c cell → CenterClear c cell)
    (h : CapCell.intersectsCell c cell = false) :
    ∀ q : R3, InCellXYZ cell q → val c.radius - slackIClear es ≤ dist2 (ofV c.center) q := by
  obtain ⟨hv, hi⟩ := intersectsCell_false h
  have hvout : ∀ k, k < 4 → val c.radius - vertSlack < dist2 (fA cell c.center) (vtx (rectOf cell) k) := by
    intro k hk
    exact vertex_out cell ctx.fu0 ctx.fu1 ctx.fv0 ctx.fv1 ctx.hr ctx.hface c.center hc k hk c.radius hfin (hv k hk)
  exact intersects_false_core_clear hE hC hes cell ctx c hc hfin hr4 vertSlack vertSlack_nonneg hvout hclear hi

/-- slack of `ContainsCell = true` under general position -/
noncomputable def slackCClear (es : ℝ) : ℝ := 2 * vertSlack + 17 * γ0 + 20 * uR + es + robustΔ

/-- **`ContainsCell = true` is sound for a centre in general position** (the hypothesis concerns the complement cap, whose
    centre is the antipode: same great-circle distances) -/
theorem containsCell_true_sound_clear {es : ℝ} (hE : EdgeFarSpec es) (hC : CenterSpec) (hS : Sub4Upper) (hes : 0 ≤ es)
    (cell : Cell) (ctx : CellCtx cell) (c : Cap) (hc : NUnit c.center) (hfin : Fin c.radius) (hr4 : val c.radius ≤ 4)
    (hclear : FellThrough c.complement cell → CenterClear c.complement cell)
    (h : CapCell.containsCell c cell = true) :
    ∀ q : R3, InCellXYZ cell q → dist2 (ofV c.center) q ≤ val c.radius + slackCClear es := by
  intro q hq
  obtain ⟨hv, hi⟩ := containsCell_true h
  have hγ := γ0_nonneg
  have hγ1 : γ0 ≤ 1 / 10 := le_trans γ0_le (by unfold uR; norm_num)
  have hu : (0 : ℝ) < uR := by unfold uR; positivity
  have hvs := vertSlack_nonneg
  have hΔ : (0 : ℝ) < robustΔ := by unfold robustΔ; positivity
  have hq' : InCell (rectOf cell) (uvwR cell.face q) := hq
  have hA := fA_norm2 cell hc
  have hvin : ∀ k, k < 4 → dist2 (fA cell c.center) (vtx (rectOf cell) k) ≤ val c.radius + vertSlack := by
    intro k hk
    exact vertex_in cell ctx.fu0 ctx.fu1 ctx.fv0 ctx.fv1 ctx.hr ctx.hface c.center hc k hk c.radius hfin (hv k hk)
  have hr0 : 0 ≤ val c.radius := by
    obtain ⟨fb, n, hn, hn0, -⟩ := vertex_between_raw cell ctx.fu0 ctx.fu1 ctx.fv0 ctx.fv1 ctx.hr c.center hc 0 (by norm_num)
    have h0 := hv 0 (by norm_num)
    rw [S2Proofs.CapF64.containsPoint_eq] at h0
    have hle := (S2Proofs.CapF64.le_iff_val fb hfin).mp h0
    have hb0 : 0 ≤ val (Chord.between c.center (CellM.vertex cell 0)) := by
      rw [hn]; exact le_min (by norm_num) hn0
    linarith
  rw [← fA_dist2 cell c.center q]
  rw [S2Proofs.CapF64.complement_eq] at hi hclear
  by_cases hfull : c.isFull = true
  · rw [S2Proofs.CapF64.isFull_eq] at hfull
    have e4 : val c.radius = 4 := by
      have := (S2Proofs.CapF64.feq_iff_val hfin S2Proofs.CapF64.val_f4.1).mp hfull
      rwa [S2Proofs.CapF64.val_f4.2] at this
    have := dist2_le_full (fA cell c.center) (uvwR cell.face q) γ0 hγ1 hA hq'.1
    unfold slackCClear
    linarith
  · rw [if_neg hfull] at hi hclear
    have hne : c.isEmpty = false := by
      cases he : c.isEmpty
      · rfl
      · have := isEmpty_true hfin he; linarith
    rw [hne] at hi hclear
    simp only [Bool.false_eq_true, if_false] at hi hclear
    set c' : Cap := ⟨c.center.mul Chord.fNeg1, Chord.sub Chord.f4 c.radius⟩ with hc'
    have hcn : NUnit c'.center := S2Proofs.CapF64.nunit_neg hc
    obtain ⟨fs, s0, s4, slo⟩ := S2Proofs.CapF64.sub4_spec c.radius hfin hr0 hr4
    have sup := hS c.radius hfin hr0 hr4
    have hfA : fA cell c'.center = R3.neg (fA cell c.center) := fA_neg cell hc.1
    have hn2 : (fA cell c.center).norm2 ≤ 1 + γ0 := by have := (abs_le.mp hA).2; linarith
    have hn1 : 1 - γ0 ≤ (fA cell c.center).norm2 := by have := (abs_le.mp hA).1; linarith
    have hvout : ∀ k, k < 4 → val c'.radius - (vertSlack + 2 * γ0 + 5 * uR) <
        dist2 (fA cell c'.center) (vtx (rectOf cell) k) := by
      intro k hk
      rw [hfA, dist2_neg_left _ _ (vtx_norm2 _ k)]
      have := hvin k hk
      have ht : (1 : ℝ) / 2 ^ 1000 ≤ uR := by
        unfold uR
        exact one_div_le_one_div_of_le (by positivity) (pow_le_pow_right₀ (by norm_num) (by norm_num))
      show val (Chord.sub Chord.f4 c.radius) - _ < _
      nlinarith
    have hcore := intersects_false_core_clear hE hC hes cell ctx c' hcn fs s4 (vertSlack + 2 * γ0 + 5 * uR)
      (by linarith) hvout hclear hi q hq
    rw [← fA_dist2 cell c'.center q, hfA, dist2_neg_left _ _ hq'.1] at hcore
    have hlow : 4 - val c.radius - 9 * uR ≤ val c'.radius := by
      show _ ≤ val (Chord.sub Chord.f4 c.radius)
      have ht : (1 : ℝ) / 2 ^ 1000 ≤ uR := by
        unfold uR
        exact one_div_le_one_div_of_le (by positivity) (pow_le_pow_right₀ (by norm_num) (by norm_num))
      have h1 : (1 - uR) ^ 2 ≥ 1 - 2 * uR := by nlinarith [sq_nonneg uR]
      nlinarith
    unfold slackCClear
    linarith

end S2Proofs.C05Cap
