/-
  C05Cap.FloatEdgeOld — FLOAT soundness of the PRE-repair "edge too far" exit of `Cap.intersects` (before repair D59, faithful model
  `S2Proofs.C05Cap.edgeStepOld`):

      edge := cell.Edge(k).Vector;  dot := c.center.Dot(edge)
      if dot > 0 { continue }
      if dot*dot > sin2Angle*edge.Norm2() { return false }

  When this `return false` fired, every point of the EXACT cell is at squared chord distance `≥ rad − 2^-23` from the centre (all radii
  `0 ≤ rad < 2`), `≥ rad − 2^-46` for `rad ≤ 1`.  The `√u`-size slack of the general statement is SHARP (`far_real_sharp` in
  `FloatEdgeReal.lean`): the test compares squares, and for `rad → 2` an error `δ ≈ 15u` in the squares is an error `√δ` in the chord.
  This is finding D59; the repaired test is analysed in `FloatEdge.lean` (slack O(u) for all radii).
-/
import S2Proofs.C05Cap.FloatEdgeCore
import S2Proofs.C05Cap.OldModel

namespace S2Proofs.C05Cap
open S2 S2.CellM S2Proofs.FloatErr S2Proofs.F64Order S2Proofs.C12Dist S2Proofs.C16Acc

/-- slack of the "edge too far" exit for a general radius (`0 ≤ rad < 2`) -/
noncomputable def edgeSlack : ℝ := 1 / 2 ^ 23
/-- slack of the "edge too far" exit for `rad ≤ 1` (caps of at most 60°) -/
noncomputable def edgeSlackSmall : ℝ := 1 / 2 ^ 46

namespace FloatEdge
open S2Proofs.CapF64 (NUnit NU eps nrm2)

/-! ### the real content of the two float tests -/

/-- **the float tests, read in exact arithmetic** (`A = ofV a`, `E = ofV (edge cell k)`, `N = ofV (edgeRaw cell k)`):
    `E ≠ 0`; unit vectors on the inner side of `N` are on the inner side of `E` up to the tilt `2(u + 2^-500)`;
    `A·E ≤ 4u|E|`;  `(sin²R ρ − 15u)·‖E‖² ≤ (A·E)²`. -/
theorem edge_far_core_old (cell : Cell) (fu0 : Fin cell.uv.1.1) (fu1 : Fin cell.uv.1.2) (fv0 : Fin cell.uv.2.1) (fv1 : Fin cell.uv.2.2)
    (hr : (rectOf cell).OK) (hface : cell.face < 6)
    (a : V3) (ha : NUnit a) (rad : F64) (hfin : Fin rad) (h0 : 0 ≤ val rad) (h2 : val rad < 2) (k : Nat) (hk : k < 4)
    (hdot : F64.gt (a.dot (CellM.edge cell k)) (F64.zero false) = false)
    (hfar : F64.gt ((a.dot (CellM.edge cell k)) * (a.dot (CellM.edge cell k)))
      (Chord.sin2 rad * (CellM.edge cell k).norm2) = true) :
    0 < (ofV (CellM.edge cell k)).norm2 ∧
    (∀ q : R3, q.norm2 = 1 → 0 ≤ R3.dot q (ofV (edgeRaw cell k)) →
      -(2 * (uR + 1 / 2 ^ 500)) * (ofV (CellM.edge cell k)).norm ≤ R3.dot q (ofV (CellM.edge cell k))) ∧
    R3.dot (ofV a) (ofV (CellM.edge cell k)) ≤ 4 * uR * (ofV (CellM.edge cell k)).norm ∧
    (sin2R (val rad) - 15 * uR) * (ofV (CellM.edge cell k)).norm2 ≤ (R3.dot (ofV a) (ofV (CellM.edge cell k))) ^ 2 := by
  obtain ⟨fE, hE2, s, ν, hs0, heq, hν⟩ := edge_scale cell fu0 fu1 fv0 fv1 hr hface k hk
  obtain ⟨fd, hdD, hDM⟩ := dot_err a (CellM.edge cell k) ha fE hE2
  set E := ofV (CellM.edge cell k) with hEdef
  set D := R3.dot (ofV a) E with hDdef
  set d := val (a.dot (CellM.edge cell k)) with hddef
  have hu0 := uR_nonneg
  have hu : uR ≤ 1 / 2 ^ 53 := le_of_eq rfl
  have he0 := eR_nonneg
  have het := eR_tiny
  have hed := edR_le
  have hed0 := edR_nonneg
  have hEb := abs_le.mp hE2
  have he2lo : 99 / 100 ≤ E.norm2 := by linarith
  have he2hi : E.norm2 ≤ 101 / 100 := by linarith
  have hEn : 99 / 100 ≤ E.norm := by
    apply R3.le_norm_of_sq
    have : ((99 : ℝ) / 100) ^ 2 ≤ 99 / 100 := by norm_num
    linarith
  have fz := (zero_val false).1
  have vz := (zero_val false).2
  -- the sign test
  have hd0 : d ≤ 0 := by
    by_contra hc
    have hc' : val (F64.zero false) < d := by rw [vz]; exact not_le.mp hc
    have : F64.lt (F64.zero false) (a.dot (CellM.edge cell k)) = true :=
      (S2Proofs.CapF64.lt_iff_val fz fd).2 hc'
    unfold F64.gt at hdot
    rw [this] at hdot
    exact Bool.noConfusion hdot
  have hdDb := abs_le.mp hdD
  refine ⟨by linarith, ?_, ?_, ?_⟩
  · intro q hq hqN
    have hc : uR + 1 / 2 ^ 500 ≤ 1 / 2 := by
      have := w500_le
      have : (1 : ℝ) / 2 ^ 100 ≤ 1 / 4 := by norm_num
      linarith
    exact tilt_real _ ν E q s (uR + 1 / 2 ^ 500) hs0 heq hν (by have := w500_nonneg; linarith) hc hq hqN
  · have h1 : D ≤ edR := by linarith
    have h2 : 4 * uR * (99 / 100) ≤ 4 * uR * E.norm := mul_le_mul_of_nonneg_left hEn (by linarith)
    linarith
  · -- the squared test
    have hdabs : |d| ≤ 101 / 100 := by
      have h1 : |d| ≤ |D| + edR := by
        have := abs_sub_abs_le_abs_sub d D
        linarith
      have : Mdot ≤ 1 + 1 / 1000 := by unfold Mdot; linarith
      linarith
    have hdd30 : |d * d| ≤ 2 ^ 30 := by
      rw [abs_mul]
      have : |d| * |d| ≤ 101 / 100 * (101 / 100) := mul_le_mul hdabs hdabs (abs_nonneg _) (by norm_num)
      have : (101 : ℝ) / 100 * (101 / 100) ≤ 2 ^ 30 := by norm_num
      linarith
    obtain ⟨fdd, rdd, _⟩ := EdgeErr.mulS fd fd hdd30
    obtain ⟨fsf, sf0, sflow, sfhi⟩ := sin2_lower rad hfin h0 (le_of_lt h2)
    -- float norm2 of the edge
    have hE2' : val (CellM.edge cell k).x ^ 2 + val (CellM.edge cell k).y ^ 2 + val (CellM.edge cell k).z ^ 2 ≤ 4 := by
      have : E.norm2 = val (CellM.edge cell k).x ^ 2 + val (CellM.edge cell k).y ^ 2 + val (CellM.edge cell k).z ^ 2 := rfl
      linarith
    have p14 : (2 : ℝ) ≤ 2 ^ 14 := by norm_num
    have mE : |val (CellM.edge cell k).x| ≤ 2 ^ 14 ∧ |val (CellM.edge cell k).y| ≤ 2 ^ 14 ∧
        |val (CellM.edge cell k).z| ≤ 2 ^ 14 := by
      refine ⟨le_trans (abs_le_of_sq_sum_le hE2' (le_refl _)) p14, ?_, ?_⟩
      · exact le_trans (abs_le_of_sq_sum_le (by linarith : val (CellM.edge cell k).y ^ 2 + val (CellM.edge cell k).x ^ 2
          + val (CellM.edge cell k).z ^ 2 ≤ 4) (le_refl _)) p14
      · exact le_trans (abs_le_of_sq_sum_le (by linarith : val (CellM.edge cell k).z ^ 2 + val (CellM.edge cell k).x ^ 2
          + val (CellM.edge cell k).y ^ 2 ≤ 4) (le_refl _)) p14
    obtain ⟨fnf, hnf⟩ := norm2_wide (CellM.edge cell k) fE mE
    rw [← hEdef] at hnf
    have hρ := rhoU_le3
    have hρ0 := rhoU_nn
    have hnfb := abs_le.mp hnf
    have he4 : 4 * eR ≤ 1 / 2 ^ 80 := by
      have : uR / 2 ^ 30 ≤ 1 / 2 ^ 83 := by unfold uR; norm_num
      have : (4 : ℝ) * (1 / 2 ^ 83) ≤ 1 / 2 ^ 80 := by norm_num
      linarith
    have hrE : rhoU uR * E.norm2 ≤ (3 + 1 / 1000) * uR * (101 / 100) :=
      mul_le_mul hρ he2hi (by linarith) (by linarith)
    have h80 : (1 : ℝ) / 2 ^ 80 ≤ 1 / 100 := by norm_num
    have hnf0 : 0 ≤ val (CellM.edge cell k).norm2 := by linarith
    have hnfhi : val (CellM.edge cell k).norm2 ≤ 2 := by linarith
    have hsn0 : 0 ≤ val (Chord.sin2 rad) * val (CellM.edge cell k).norm2 := mul_nonneg sf0 hnf0
    have hsn30 : |val (Chord.sin2 rad) * val (CellM.edge cell k).norm2| ≤ 2 ^ 30 := by
      rw [abs_of_nonneg hsn0]
      have : val (Chord.sin2 rad) * val (CellM.edge cell k).norm2 ≤ 33 * 2 := mul_le_mul sfhi hnfhi hnf0 (by norm_num)
      have : (33 : ℝ) * 2 ≤ 2 ^ 30 := by norm_num
      linarith
    obtain ⟨fpf, rpf, _⟩ := EdgeErr.mulS fsf fnf hsn30
    -- the comparison
    have hlt : val (Chord.sin2 rad * (CellM.edge cell k).norm2)
        < val (a.dot (CellM.edge cell k) * a.dot (CellM.edge cell k)) := by
      unfold F64.gt at hfar
      exact (S2Proofs.CapF64.lt_iff_val fpf fdd).1 hfar
    -- into the shape of `far_chain`
    unfold Rnd at rdd rpf
    rw [abs_of_nonneg hsn0] at rpf
    have hddu : val (a.dot (CellM.edge cell k) * a.dot (CellM.edge cell k)) ≤ d ^ 2 * (1 + uR) + eR := by
      have := (abs_le.mp rdd).2
      rw [abs_of_nonneg (mul_self_nonneg d)] at this
      have e : d ^ 2 * (1 + uR) = d * d + uR * (d * d) := by ring
      rw [e]; linarith only [this]
    have hpfl : val (Chord.sin2 rad) * val (CellM.edge cell k).norm2 * (1 - uR) - eR
        ≤ val (Chord.sin2 rad * (CellM.edge cell k).norm2) := by
      have := (abs_le.mp rpf).1
      have e : val (Chord.sin2 rad) * val (CellM.edge cell k).norm2 * (1 - uR)
          = val (Chord.sin2 rad) * val (CellM.edge cell k).norm2
            - uR * (val (Chord.sin2 rad) * val (CellM.edge cell k).norm2) := by ring
      rw [e]; linarith only [this]
    have hS0 : 0 ≤ sin2R (val rad) := by unfold sin2R; exact mul_nonneg h0 (by linarith)
    have hS1 : sin2R (val rad) ≤ 1 := by
      unfold sin2R
      have hsq := sq_nonneg (val rad - 2)
      have e : val rad * (1 - val rad / 4) = 1 - (val rad - 2) ^ 2 / 4 := by ring
      rw [e]; linarith only [hsq]
    have hnfl : E.norm2 * (1 - rhoU uR) - 4 * eR ≤ val (CellM.edge cell k).norm2 := by
      have e : E.norm2 * (1 - rhoU uR) = E.norm2 - rhoU uR * E.norm2 := by ring
      rw [e]; linarith
    have hr1 : rhoU uR ≤ 1 / 2 := by linarith
    have hchain := far_chain (S := sin2R (val rad)) (d := d) (D := D) hS0 hS1 hddu hlt hpfl sf0 sflow
      (by linarith) hnfl hρ0 hr1 he2lo he2hi hdD hdabs
    have hδ : rhoU uR + (3 * uR + 5 * eR) + uR + 105 / 100 * uR + 205 / 100 * edR + 7 * eR ≤ 15 * uR := by
      have : 12 * eR ≤ uR / 100 := by
        have : uR / 2 ^ 30 * 12 ≤ uR / 100 := by unfold uR; norm_num
        linarith
      linarith
    have hmono : (sin2R (val rad) - 15 * uR) * E.norm2
        ≤ (sin2R (val rad) - (rhoU uR + (3 * uR + 5 * eR) + uR + 105 / 100 * uR + 205 / 100 * edR + 7 * eR)) * E.norm2 :=
      mul_le_mul_of_nonneg_right (by linarith) (by linarith)
    linarith

/-! ### numeric evaluation of the two slacks -/

theorem slack_general :
    NU * eps + 2 * (4 * uR + (1 + NU * eps) * (2 * (uR + 1 / 2 ^ 500))) + 2 * Real.sqrt (NU * eps + 15 * uR) ≤ 1 / 2 ^ 23 := by
  have hγ := gamma_le
  have hγ0 := gamma_nonneg
  have hw := w500_le
  have hw0 := w500_nonneg
  have hu0 := uR_nonneg
  have hu : uR = 1 / 2 ^ 53 := rfl
  generalize NU * eps = γ at *
  generalize (1 : ℝ) / 2 ^ 500 = w at *
  have hκ : 2 * (uR + w) ≤ 3 * uR := by
    have : (1 : ℝ) / 2 ^ 100 ≤ uR / 2 := by rw [hu]; norm_num
    linarith
  have hγ1 : 1 + γ ≤ 2 := by
    have : 10 * uR ≤ 1 := by rw [hu]; norm_num
    linarith
  have h1 : (1 + γ) * (2 * (uR + w)) ≤ 2 * (3 * uR) := mul_le_mul hγ1 hκ (by linarith) (by norm_num)
  have hs : Real.sqrt (γ + 15 * uR) ≤ 1 / 2 ^ 24 - 1 / 2 ^ 30 := by
    have hc : (0 : ℝ) ≤ 1 / 2 ^ 24 - 1 / 2 ^ 30 := by norm_num
    rw [show (1 : ℝ) / 2 ^ 24 - 1 / 2 ^ 30 = Real.sqrt ((1 / 2 ^ 24 - 1 / 2 ^ 30) ^ 2) from (Real.sqrt_sq hc).symm]
    apply Real.sqrt_le_sqrt
    have : 25 * uR ≤ (1 / 2 ^ 24 - 1 / 2 ^ 30) ^ 2 := by rw [hu]; norm_num
    linarith
  have h30 : 30 * uR ≤ 2 * (1 / 2 ^ 30) := by rw [hu]; norm_num
  have e : (1 : ℝ) / 2 ^ 23 = 2 * (1 / 2 ^ 24) := by norm_num
  rw [e]
  linarith

theorem slack_small :
    3 * (NU * eps) + 2 * (15 * uR) + 2 * (4 * uR + (1 + NU * eps) * (2 * (uR + 1 / 2 ^ 500))) ≤ 1 / 2 ^ 46 := by
  have hγ := gamma_le
  have hγ0 := gamma_nonneg
  have hw := w500_le
  have hw0 := w500_nonneg
  have hu0 := uR_nonneg
  have hu : uR = 1 / 2 ^ 53 := rfl
  generalize NU * eps = γ at *
  generalize (1 : ℝ) / 2 ^ 500 = w at *
  have hκ : 2 * (uR + w) ≤ 3 * uR := by
    have : (1 : ℝ) / 2 ^ 100 ≤ uR / 2 := by rw [hu]; norm_num
    linarith
  have hγ1 : 1 + γ ≤ 2 := by
    have : 10 * uR ≤ 1 := by rw [hu]; norm_num
    linarith
  have h1 : (1 + γ) * (2 * (uR + w)) ≤ 2 * (3 * uR) := mul_le_mul hγ1 hκ (by linarith) (by norm_num)
  have h80 : 80 * uR ≤ 1 / 2 ^ 46 := by rw [hu]; norm_num
  linarith

end FloatEdge

open FloatEdge S2Proofs.CapF64 in
/-- **FLOAT soundness of the "edge too far" `return false` of `Cap.intersects`** (general radius): if, for the bit-exact binary64 model,
    `dot := a.Dot(cell.Edge(k))` is not `> 0` and `dot*dot > Sin2(rad)*edge.Norm2()`, then every point `q` of the EXACT cell is at
    squared chord distance at least `rad − 2^-23` from the centre `a`: the cap shrunk by `2^-23` does not meet the cell. -/
theorem edge_far_sound_old (cell : Cell) (fu0 : Fin cell.uv.1.1) (fu1 : Fin cell.uv.1.2) (fv0 : Fin cell.uv.2.1) (fv1 : Fin cell.uv.2.2)
    (hr : (rectOf cell).OK) (hface : cell.face < 6)
    (a : V3) (ha : S2Proofs.CapF64.NUnit a) (rad : F64) (hfin : Fin rad) (h0 : 0 ≤ val rad) (h2 : val rad < 2) (k : Nat) (hk : k < 4)
    (hdot : F64.gt (a.dot (CellM.edge cell k)) (F64.zero false) = false)
    (hfar : F64.gt ((a.dot (CellM.edge cell k)) * (a.dot (CellM.edge cell k)))
      (Chord.sin2 rad * (CellM.edge cell k).norm2) = true) :
    ∀ q : R3, InCellXYZ cell q → val rad - edgeSlack ≤ S2Proofs.C12Dist.dist2 (ofV a) q := by
  intro q hq
  obtain ⟨hq1, hqN, _, _⟩ := edge_frame cell fu0 fu1 fv0 fv1 hr hface k hk q hq
  obtain ⟨hE, htilt, hd, hsq⟩ := edge_far_core_old cell fu0 fu1 fv0 fv1 hr hface a ha rad hfin h0 h2 k hk hdot hfar
  have hA : |(ofV a).norm2 - 1| ≤ NU * eps := ha.2
  have hu0 := uR_nonneg
  have hw0 := w500_nonneg
  have hγ0 := gamma_nonneg
  have h := far_real_tilt (ofV a) (ofV (CellM.edge cell k)) q hE hq1 (val rad) (NU * eps) (4 * uR) (15 * uR)
    (2 * (uR + 1 / 2 ^ 500)) h0 (le_of_lt h2) (by linarith) (by linarith) hγ0 (by linarith)
    (htilt q hq1 hqN) hA hd hsq
  have := slack_general
  unfold edgeSlack
  linarith

open FloatEdge S2Proofs.CapF64 in
/-- **the same for caps of at most 60°** (`rad ≤ 1`): slack `2^-46` -/
theorem edge_far_sound_small_old (cell : Cell) (fu0 : Fin cell.uv.1.1) (fu1 : Fin cell.uv.1.2) (fv0 : Fin cell.uv.2.1) (fv1 : Fin cell.uv.2.2)
    (hr : (rectOf cell).OK) (hface : cell.face < 6)
    (a : V3) (ha : S2Proofs.CapF64.NUnit a) (rad : F64) (hfin : Fin rad) (h0 : 0 ≤ val rad) (h1 : val rad ≤ 1) (k : Nat) (hk : k < 4)
    (hdot : F64.gt (a.dot (CellM.edge cell k)) (F64.zero false) = false)
    (hfar : F64.gt ((a.dot (CellM.edge cell k)) * (a.dot (CellM.edge cell k)))
      (Chord.sin2 rad * (CellM.edge cell k).norm2) = true) :
    ∀ q : R3, InCellXYZ cell q → val rad - edgeSlackSmall ≤ S2Proofs.C12Dist.dist2 (ofV a) q := by
  intro q hq
  obtain ⟨hq1, hqN, _, _⟩ := edge_frame cell fu0 fu1 fv0 fv1 hr hface k hk q hq
  obtain ⟨hE, htilt, hd, hsq⟩ := edge_far_core_old cell fu0 fu1 fv0 fv1 hr hface a ha rad hfin h0 (by linarith) k hk hdot hfar
  have hA : |(ofV a).norm2 - 1| ≤ NU * eps := ha.2
  have hu0 := uR_nonneg
  have hw0 := w500_nonneg
  have hγ0 := gamma_nonneg
  have h := far_real_tilt_small (ofV a) (ofV (CellM.edge cell k)) q hE hq1 (val rad) (NU * eps) (4 * uR) (15 * uR)
    (2 * (uR + 1 / 2 ^ 500)) h0 h1 (by linarith) (by linarith) hγ0 (by linarith)
    (htilt q hq1 hqN) hA hd hsq
  have := slack_small
  unfold edgeSlackSmall
  linarith


/-- the two theorems for the cell of a VALID cell id (the cell hypotheses are `cellOK`) -/
theorem edge_far_sound_id_old (id : CellID) (hv : CellID.isValid id = true)
    (a : V3) (ha : S2Proofs.CapF64.NUnit a) (rad : F64) (hfin : Fin rad) (h0 : 0 ≤ val rad) (h2 : val rad < 2) (k : Nat) (hk : k < 4)
    (hdot : F64.gt (a.dot (CellM.edge (cellFromCellID id) k)) (F64.zero false) = false)
    (hfar : F64.gt ((a.dot (CellM.edge (cellFromCellID id) k)) * (a.dot (CellM.edge (cellFromCellID id) k)))
      (Chord.sin2 rad * (CellM.edge (cellFromCellID id) k).norm2) = true) :
    (∀ q : R3, InCellXYZ (cellFromCellID id) q → val rad - edgeSlack ≤ S2Proofs.C12Dist.dist2 (ofV a) q) ∧
    (val rad ≤ 1 → ∀ q : R3, InCellXYZ (cellFromCellID id) q → val rad - edgeSlackSmall ≤ S2Proofs.C12Dist.dist2 (ofV a) q) := by
  obtain ⟨f1, f2, f3, f4, hr, hface⟩ := cellOK id hv
  exact ⟨edge_far_sound_old _ f1 f2 f3 f4 hr hface a ha rad hfin h0 h2 k hk hdot hfar,
    fun h1 => edge_far_sound_small_old _ f1 f2 f3 f4 hr hface a ha rad hfin h0 h1 k hk hdot hfar⟩

/-! ### the model: `edgeStepOld … = some false` is exactly this exit -/

/-- `edgeStep` returns `some false` only through the "edge too far" test -/
theorem edgeStepOld_false (c : CapF64.Cap) (s : F64) (cell : Cell) (k : Nat)
    (h : edgeStepOld c s cell k = some false) :
    F64.gt (c.center.dot (CellM.edge cell k)) (F64.zero false) = false ∧
    F64.gt ((c.center.dot (CellM.edge cell k)) * (c.center.dot (CellM.edge cell k))) (s * (CellM.edge cell k).norm2) = true := by
  unfold edgeStepOld at h
  simp only at h
  split at h
  · cases h
  · rename_i h1
    split at h
    · rename_i h2
      exact ⟨by simpa using h1, h2⟩
    · split at h <;> cases h

/-- **soundness of `edgeStep … = some false`** (the form used by the loop of `Cap.intersects`): for a Normalize-grade centre and a
    finite radius `0 ≤ rad < 2`, no point of the exact cell is within `rad − 2^-23` of the centre (`rad − 2^-46` when `rad ≤ 1`) -/
theorem edgeStepOld_false_sound (c : CapF64.Cap) (cell : Cell)
    (fu0 : Fin cell.uv.1.1) (fu1 : Fin cell.uv.1.2) (fv0 : Fin cell.uv.2.1) (fv1 : Fin cell.uv.2.2)
    (hr : (rectOf cell).OK) (hface : cell.face < 6)
    (ha : S2Proofs.CapF64.NUnit c.center) (hfin : Fin c.radius) (h0 : 0 ≤ val c.radius) (h2 : val c.radius < 2) (k : Nat) (hk : k < 4)
    (h : edgeStepOld c (Chord.sin2 c.radius) cell k = some false) :
    (∀ q : R3, InCellXYZ cell q → val c.radius - edgeSlack ≤ S2Proofs.C12Dist.dist2 (ofV c.center) q) ∧
    (val c.radius ≤ 1 → ∀ q : R3, InCellXYZ cell q → val c.radius - edgeSlackSmall ≤ S2Proofs.C12Dist.dist2 (ofV c.center) q) := by
  obtain ⟨hdot, hfar⟩ := edgeStepOld_false c _ cell k h
  exact ⟨edge_far_sound_old cell fu0 fu1 fv0 fv1 hr hface c.center ha c.radius hfin h0 h2 k hk hdot hfar,
    fun h1 => edge_far_sound_small_old cell fu0 fu1 fv0 fv1 hr hface c.center ha c.radius hfin h0 h1 k hk hdot hfar⟩


open FloatEdge in
/-- all hypotheses of `edge_far_sound` / `edge_far_sound_small` hold for a concrete instance -/
example : Fin exCell.uv.1.1 ∧ Fin exCell.uv.1.2 ∧ Fin exCell.uv.2.1 ∧ Fin exCell.uv.2.2 ∧ (rectOf exCell).OK ∧ exCell.face < 6 ∧
    S2Proofs.CapF64.NUnit exA ∧ Fin exRad ∧ 0 ≤ val exRad ∧ val exRad ≤ 1 ∧ val exRad < 2 ∧
    F64.gt (exA.dot (CellM.edge exCell 0)) (F64.zero false) = false ∧
    F64.gt ((exA.dot (CellM.edge exCell 0)) * (exA.dot (CellM.edge exCell 0)))
      (Chord.sin2 exRad * (CellM.edge exCell 0).norm2) = true ∧
    edgeStepOld ⟨exA, exRad⟩ (Chord.sin2 exRad) exCell 0 = some false := by
  refine ⟨by decide, by decide, by decide, by decide, exCell_ok, by decide,
    (S2Proofs.CapF64.nunitB_iff exA).1 (by decide +kernel), by decide, ?_, ?_, ?_,
    by decide +kernel, by decide +kernel, by decide +kernel⟩ <;> rw [val_exRad] <;> norm_num

end S2Proofs.C05Cap
