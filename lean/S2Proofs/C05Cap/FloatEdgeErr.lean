/-
  C05Cap.FloatEdgeErr — real-arithmetic lemmas of the float error analysis of the "edge too far" test
      dot := c.center.Dot(edge);  dot ≤ 0;  dot*dot > sin2Angle * edge.Norm2()
  (no floats in this file except in `sin2_lower`).
-/
import S2Proofs.C05Cap.Defs
import S2Proofs.C12Dist.EdgeErr
import S2Proofs.CapF64.Between

namespace S2Proofs.C05Cap
open S2 S2.CellM S2Proofs.FloatErr S2Proofs.F64Order S2Proofs.C12Dist S2Proofs.C16Acc

namespace FloatEdge

/-! ### the tilt of the normalised float normal against the exact one -/

/-- `E = s(N + ν)`, `|ν| ≤ c|N|`, `c ≤ 1/2`: a unit `q` with `q·N ≥ 0` has `q·E ≥ −2c|E|` -/
theorem tilt_real (N ν E q : R3) (s c : ℝ) (hs : 0 < s) (hE : E = R3.smul s (R3.add N ν)) (hν : ν.norm ≤ c * N.norm)
    (hc0 : 0 ≤ c) (hc : c ≤ 1 / 2) (hq : q.norm2 = 1) (hqN : 0 ≤ R3.dot q N) :
    -(2 * c) * E.norm ≤ R3.dot q E := by
  have hn := N.norm_nonneg
  have hqn : q.norm = 1 := by unfold R3.norm; rw [hq, Real.sqrt_one]
  have e1 : R3.dot q E = s * R3.dot q N + s * R3.dot q ν := by
    rw [hE]; unfold R3.dot R3.smul R3.add; ring
  have h2 : -(ν.norm) ≤ R3.dot q ν := by
    have := R3.abs_dot_le q ν
    rw [hqn, one_mul] at this
    exact (abs_le.mp this).1
  have h3 : E.norm = s * (R3.add N ν).norm := by rw [hE, R3.norm_smul, abs_of_pos hs]
  have h4 := R3.norm_ge_sub N ν
  have h5 : N.norm / 2 ≤ (R3.add N ν).norm := by nlinarith
  have h6 : s * (N.norm / 2) ≤ E.norm := by rw [h3]; exact mul_le_mul_of_nonneg_left h5 hs.le
  have h7 : 0 ≤ s * R3.dot q N := mul_nonneg hs.le hqN
  have h8 : s * (-(ν.norm)) ≤ s * R3.dot q ν := mul_le_mul_of_nonneg_left h2 hs.le
  have h9 : s * ν.norm ≤ s * (c * N.norm) := mul_le_mul_of_nonneg_left hν hs.le
  have h10 : (2 * c) * (s * (N.norm / 2)) ≤ (2 * c) * E.norm := mul_le_mul_of_nonneg_left h6 (by linarith)
  rw [e1]
  nlinarith

/-! ### the chain of inequalities of the squared test -/

theorem eR_tiny : eR ≤ uR / 2 ^ 30 := EdgeErr.eR_le_uR

/-- from the float comparison `fl(d·d) > fl(sf·nf)` to the exact `D² ≥ (S − δ)·e2` -/
theorem far_chain {S d D dd sf nf pf e2 ed δs r : ℝ}
    (hS0 : 0 ≤ S) (hS1 : S ≤ 1)
    (hdd : dd ≤ d ^ 2 * (1 + uR) + eR)
    (hlt : pf < dd)
    (hpf : sf * nf * (1 - uR) - eR ≤ pf)
    (hsf0 : 0 ≤ sf) (hsf : S - δs ≤ sf) (hδs : 0 ≤ δs)
    (hnf : e2 * (1 - r) - 4 * eR ≤ nf) (hr0 : 0 ≤ r) (hr1 : r ≤ 1 / 2)
    (he2lo : 99 / 100 ≤ e2) (he2hi : e2 ≤ 101 / 100)
    (hdD : |d - D| ≤ ed) (hd : |d| ≤ 101 / 100) :
    (S - (r + δs + uR + 105 / 100 * uR + 205 / 100 * ed + 7 * eR)) * e2 ≤ D ^ 2 := by
  have hu0 := uR_nonneg
  have he0 := eR_nonneg
  have hu : uR ≤ 1 / 2 ^ 53 := le_of_eq rfl
  have het := eR_tiny
  have he1 : eR ≤ 1 / 2 ^ 83 := by
    have : uR / 2 ^ 30 ≤ 1 / 2 ^ 83 := by unfold uR; norm_num
    linarith
  have hed : 0 ≤ ed := le_trans (abs_nonneg _) hdD
  -- nl = lower bound of nf
  set nl := e2 * (1 - r) - 4 * eR with hnl
  have hnl0 : 0 ≤ nl := by nlinarith
  have hnle : nl ≤ e2 := by nlinarith
  have hnf0 : 0 ≤ nf := le_trans hnl0 hnf
  -- A
  have hA : (S - δs) * nl ≤ sf * nf := by
    by_cases hc : 0 ≤ S - δs
    · exact mul_le_mul hsf hnf hnl0 hsf0
    · have h1 : (S - δs) * nl ≤ 0 := mul_nonpos_of_nonpos_of_nonneg (le_of_lt (not_le.mp hc)) hnl0
      have h2 : 0 ≤ sf * nf := mul_nonneg hsf0 hnf0
      linarith
  -- B
  have hB : S * e2 - (r + δs) * e2 - 4 * eR ≤ (S - δs) * nl := by
    have e1 : (S - δs) * nl = S * e2 - S * (e2 * r) - 4 * eR * S - δs * nl := by rw [hnl]; ring
    have h1 : S * (e2 * r) ≤ 1 * (e2 * r) := mul_le_mul_of_nonneg_right hS1 (mul_nonneg (by linarith) hr0)
    have h2 : 4 * eR * S ≤ 4 * eR * 1 := mul_le_mul_of_nonneg_left hS1 (by linarith)
    have h3 : δs * nl ≤ δs * e2 := mul_le_mul_of_nonneg_left hnle hδs
    rw [e1]; nlinarith
  -- C
  set X := S * e2 - (r + δs) * e2 - 4 * eR with hX
  have hXle : X ≤ e2 := by
    have h1 : S * e2 ≤ 1 * e2 := mul_le_mul_of_nonneg_right hS1 (by linarith)
    have h2 : 0 ≤ (r + δs) * e2 := mul_nonneg (by linarith) (by linarith)
    rw [hX]; linarith
  have hC : X - uR * e2 - eR ≤ pf := by
    have h1 : X * (1 - uR) ≤ sf * nf * (1 - uR) :=
      mul_le_mul_of_nonneg_right (le_trans hB hA) (by linarith)
    have h2 : uR * X ≤ uR * e2 := mul_le_mul_of_nonneg_left hXle hu0
    nlinarith
  -- D
  have hd2 : d ^ 2 ≤ 103 / 100 := by
    have := abs_le.mp hd
    nlinarith
  have hD : pf - eR - 103 / 100 * uR ≤ d ^ 2 := by
    have : uR * d ^ 2 ≤ uR * (103 / 100) := mul_le_mul_of_nonneg_left hd2 hu0
    nlinarith
  -- E
  have hE : d ^ 2 - 202 / 100 * ed ≤ D ^ 2 := by
    have e1 : D ^ 2 = d ^ 2 - 2 * d * (d - D) + (d - D) ^ 2 := by ring
    have h1 : d * (d - D) ≤ |d| * |d - D| := by
      rw [← abs_mul]; exact le_abs_self _
    have h2 : |d| * |d - D| ≤ 101 / 100 * ed := mul_le_mul hd hdD (abs_nonneg _) (by norm_num)
    nlinarith [sq_nonneg (d - D)]
  -- total
  have hfin : 103 / 100 * uR + 202 / 100 * ed + 6 * eR ≤ (105 / 100 * uR + 205 / 100 * ed + 7 * eR) * e2 := by
    have : (105 / 100 * uR + 205 / 100 * ed + 7 * eR) * (99 / 100) ≤ (105 / 100 * uR + 205 / 100 * ed + 7 * eR) * e2 :=
      mul_le_mul_of_nonneg_left he2lo (by linarith)
    nlinarith
  have etot : (S - (r + δs + uR + 105 / 100 * uR + 205 / 100 * ed + 7 * eR)) * e2
      = X + 4 * eR - uR * e2 - (105 / 100 * uR + 205 / 100 * ed + 7 * eR) * e2 := by rw [hX]; ring
  rw [etot]
  linarith

/-! ### the REPAIRED test `fl(d·fl(d + τ)) > fl(sf·nf)` (`τ = capEdgeDotError = 2^-48`) -/

/-- lower bound of the right-hand side `pf = fl(sf·nf)` (steps A–C of `far_chain`) -/
theorem pf_lower {S sf nf pf e2 δs r : ℝ}
    (hS0 : 0 ≤ S) (hS1 : S ≤ 1)
    (hpf : sf * nf * (1 - uR) - eR ≤ pf)
    (hsf0 : 0 ≤ sf) (hsf : S - δs ≤ sf) (hδs : 0 ≤ δs)
    (hnf : e2 * (1 - r) - 4 * eR ≤ nf) (hr0 : 0 ≤ r) (hr1 : r ≤ 1 / 2)
    (he2lo : 99 / 100 ≤ e2) (he2hi : e2 ≤ 101 / 100) :
    S * e2 - (r + δs + uR) * e2 - 5 * eR ≤ pf := by
  have hu0 := uR_nonneg
  have he0 := eR_nonneg
  have hu : uR ≤ 1 / 2 ^ 53 := le_of_eq rfl
  have het := eR_tiny
  have he1 : eR ≤ 1 / 2 ^ 83 := by
    have : uR / 2 ^ 30 ≤ 1 / 2 ^ 83 := by unfold uR; norm_num
    linarith
  set nl := e2 * (1 - r) - 4 * eR with hnl
  have hnl0 : 0 ≤ nl := by nlinarith
  have hnle : nl ≤ e2 := by nlinarith
  have hnf0 : 0 ≤ nf := le_trans hnl0 hnf
  have hA : (S - δs) * nl ≤ sf * nf := by
    by_cases hc : 0 ≤ S - δs
    · exact mul_le_mul hsf hnf hnl0 hsf0
    · have h1 : (S - δs) * nl ≤ 0 := mul_nonpos_of_nonpos_of_nonneg (le_of_lt (not_le.mp hc)) hnl0
      have h2 : 0 ≤ sf * nf := mul_nonneg hsf0 hnf0
      linarith
  have hB : S * e2 - (r + δs) * e2 - 4 * eR ≤ (S - δs) * nl := by
    have e1 : (S - δs) * nl = S * e2 - S * (e2 * r) - 4 * eR * S - δs * nl := by rw [hnl]; ring
    have h1 : S * (e2 * r) ≤ 1 * (e2 * r) := mul_le_mul_of_nonneg_right hS1 (mul_nonneg (by linarith) hr0)
    have h2 : 4 * eR * S ≤ 4 * eR * 1 := mul_le_mul_of_nonneg_left hS1 (by linarith)
    have h3 : δs * nl ≤ δs * e2 := mul_le_mul_of_nonneg_left hnle hδs
    rw [e1]; nlinarith
  set X := S * e2 - (r + δs) * e2 - 4 * eR with hX
  have hXle : X ≤ e2 := by
    have h1 : S * e2 ≤ 1 * e2 := mul_le_mul_of_nonneg_right hS1 (by linarith)
    have h2 : 0 ≤ (r + δs) * e2 := mul_nonneg (by linarith) (by linarith)
    rw [hX]; linarith
  have h1 : X * (1 - uR) ≤ sf * nf * (1 - uR) :=
    mul_le_mul_of_nonneg_right (le_trans hB hA) (by linarith)
  have h2 : uR * X ≤ uR * e2 := mul_le_mul_of_nonneg_left hXle hu0
  have e3 : S * e2 - (r + δs + uR) * e2 - 5 * eR = X - uR * e2 - eR := by rw [hX]; ring
  rw [e3]
  nlinarith

/-- upper bound of the left-hand side `m = fl(d·fl(d+τ))` for `d ≤ 0`: `m ≤ d² − (τ − 2.1u)|d| + 3·2^-1075` -/
theorem m_upper {d t m τ : ℝ} (hd0 : d ≤ 0) (hd : -(101 / 100) ≤ d) (hτ0 : 0 ≤ τ) (hτ : τ ≤ 1 / 100)
    (ht : Rnd uR eR (d + τ) t) (hm : Rnd uR eR (d * t) m) :
    m ≤ d ^ 2 - (τ - 21 / 10 * uR) * (-d) + 3 * eR := by
  have hu0 := uR_nonneg
  have he0 := eR_nonneg
  have hu : uR ≤ 1 / 2 ^ 53 := le_of_eq rfl
  unfold Rnd at ht hm
  set x := -d with hx
  have hx0 : 0 ≤ x := by linarith
  have hx1 : x ≤ 101 / 100 := by linarith
  have hdx : d = -x := by linarith
  -- W bounds |t − (d+τ)|
  have habs : |d + τ| ≤ x + τ := by
    rw [abs_le]; constructor <;> linarith
  set W := uR * (x + τ) + eR with hW
  have hwW : |t - (d + τ)| ≤ W := by
    have := mul_le_mul_of_nonneg_left habs hu0
    linarith
  have hW0 : 0 ≤ W := le_trans (abs_nonneg _) hwW
  have hwb := abs_le.mp hwW
  -- d·t ≤ x² − τx + xW
  have h1 : d * t ≤ x ^ 2 - τ * x + x * W := by
    have e : d * t = x ^ 2 - τ * x + (-x) * (t - (d + τ)) := by rw [hdx]; ring
    have : (-x) * (t - (d + τ)) ≤ x * W := by nlinarith
    linarith
  -- |d t| ≤ x (x + τ + W)
  have h2 : |d * t| ≤ x * (x + τ + W) := by
    rw [abs_mul, hdx, abs_neg, abs_of_nonneg hx0]
    apply mul_le_mul_of_nonneg_left _ hx0
    have e : t = (-x + τ) + (t - (-x + τ)) := by ring
    rw [e]
    have h3 := abs_add_le (-x + τ) (t - (-x + τ))
    rw [hdx] at habs hwW
    linarith
  have h3 : m ≤ d * t + uR * |d * t| + eR := by
    have := (abs_le.mp hm).2; linarith
  have h4 : uR * |d * t| ≤ uR * (x * (x + τ + W)) := mul_le_mul_of_nonneg_left h2 hu0
  -- bracket
  have hxt : x + τ ≤ 102 / 100 := by linarith
  have hb1 : uR * (x + τ) ≤ uR * (102 / 100) := mul_le_mul_of_nonneg_left hxt hu0
  have hb2 : uR * W ≤ uR * (1 / 100) := by
    apply mul_le_mul_of_nonneg_left _ hu0
    have : eR ≤ 1 / 1000 := by
      have := eR_tiny
      have : uR / 2 ^ 30 ≤ 1 / 1000 := by unfold uR; norm_num
      linarith
    have : uR * (102 / 100) ≤ 1 / 1000 := by
      have : (1 : ℝ) / 2 ^ 53 * (102 / 100) ≤ 1 / 1000 := by norm_num
      nlinarith
    linarith
  -- x·(W + u(x+τ+W)) ≤ x·(2.1u) + 2 eR
  have hbr : W + uR * (x + τ + W) ≤ 21 / 10 * uR + eR := by
    have e : W + uR * (x + τ + W) = 2 * (uR * (x + τ)) + uR * W + eR := by rw [hW]; ring
    rw [e]; linarith
  have h5 : x * (W + uR * (x + τ + W)) ≤ x * (21 / 10 * uR + eR) := mul_le_mul_of_nonneg_left hbr hx0
  have h6 : x * eR ≤ 101 / 100 * eR := mul_le_mul_of_nonneg_right hx1 he0
  have e7 : x * (W + uR * (x + τ + W)) = x * W + uR * (x * (x + τ + W)) := by ring
  have e8 : d ^ 2 = x ^ 2 := by rw [hdx]; ring
  have e9 : x * (21 / 10 * uR + eR) = 21 / 10 * uR * x + x * eR := by ring
  have e10 : (τ - 21 / 10 * uR) * x = τ * x - 21 / 10 * uR * x := by ring
  rw [e8, e10]
  linarith

/-- **the chain for the repaired test**: from `fl(d·fl(d+τ)) > fl(sf·nf)`, `d ≤ 0`, to
    `S·e2 − (r+δs+u)·e2 + (τ − 2.1u)|d| − 8·2^-1075 ≤ d²`  and
    `S·e2 − (r+δs+u)·e2 + (τ − 2.1u − 2·ed)|d| − 8·2^-1075 ≤ D²` -/
theorem far_chain_fixed {S d D t m sf nf pf e2 ed δs r τ : ℝ}
    (hS0 : 0 ≤ S) (hS1 : S ≤ 1)
    (hd0 : d ≤ 0) (hd : -(101 / 100) ≤ d) (hτ0 : 0 ≤ τ) (hτ : τ ≤ 1 / 100)
    (ht : Rnd uR eR (d + τ) t) (hm : Rnd uR eR (d * t) m)
    (hlt : pf < m)
    (hpf : sf * nf * (1 - uR) - eR ≤ pf)
    (hsf0 : 0 ≤ sf) (hsf : S - δs ≤ sf) (hδs : 0 ≤ δs)
    (hnf : e2 * (1 - r) - 4 * eR ≤ nf) (hr0 : 0 ≤ r) (hr1 : r ≤ 1 / 2)
    (he2lo : 99 / 100 ≤ e2) (he2hi : e2 ≤ 101 / 100)
    (hdD : |d - D| ≤ ed) :
    S * e2 - (r + δs + uR) * e2 + (τ - 21 / 10 * uR) * (-d) - 8 * eR ≤ d ^ 2 ∧
    S * e2 - (r + δs + uR) * e2 + (τ - 21 / 10 * uR - 2 * ed) * (-d) - 8 * eR ≤ D ^ 2 := by
  have h1 := pf_lower hS0 hS1 hpf hsf0 hsf hδs hnf hr0 hr1 he2lo he2hi
  have h2 := m_upper hd0 hd hτ0 hτ ht hm
  have hfirst : S * e2 - (r + δs + uR) * e2 + (τ - 21 / 10 * uR) * (-d) - 8 * eR ≤ d ^ 2 := by linarith
  refine ⟨hfirst, ?_⟩
  have hE : d ^ 2 - 2 * ed * (-d) ≤ D ^ 2 := by
    have e1 : D ^ 2 = d ^ 2 - 2 * d * (d - D) + (d - D) ^ 2 := by ring
    have h3 : d * (d - D) ≤ |d| * |d - D| := by rw [← abs_mul]; exact le_abs_self _
    have h4 : |d| = -d := abs_of_nonpos hd0
    have h5 : |d| * |d - D| ≤ (-d) * ed := by
      rw [h4]; exact mul_le_mul_of_nonneg_left hdD (by linarith)
    nlinarith [sq_nonneg (d - D)]
  have e : (τ - 21 / 10 * uR - 2 * ed) * (-d) = (τ - 21 / 10 * uR) * (-d) - 2 * ed * (-d) := by ring
  rw [e]
  linarith

/-! ### `ChordAngle.Sin2` in floating point: a lower bound -/

/-- real arithmetic of `fl(ρ·fl(1 − fl(ρ/4)))` -/
theorem sin2_real {ρ t1 t2 sf : ℝ} (h0 : 0 ≤ ρ) (h2 : ρ ≤ 2)
    (r1 : Rnd uR eR (1 / 4 * ρ) t1) (r2 : Rnd uR eR (1 - t1) t2) (r3 : Rnd uR eR (ρ * t2) sf) :
    0 ≤ 1 - t1 ∧ 0 ≤ t2 ∧ sin2R ρ - (3 * uR + 5 * eR) ≤ sf := by
  have hu0 := uR_nonneg
  have he0 := eR_nonneg
  have hu : uR ≤ 1 / 2 ^ 53 := le_of_eq rfl
  have het := eR_tiny
  have he1 : eR ≤ 1 / 2 ^ 83 := by
    have : uR / 2 ^ 30 ≤ 1 / 2 ^ 83 := by unfold uR; norm_num
    linarith
  unfold Rnd at r1 r2 r3
  rw [abs_of_nonneg (by linarith : (0 : ℝ) ≤ 1 / 4 * ρ)] at r1
  have b1 := abs_le.mp r1
  -- L = lower bound of 1 − t1
  have hL : 1 - 1 / 4 * ρ - (uR * (1 / 4 * ρ) + eR) ≤ 1 - t1 := by linarith
  have hρu : uR * (1 / 4 * ρ) ≤ uR * (1 / 2) := mul_le_mul_of_nonneg_left (by linarith) hu0
  have hL0 : 2 / 5 ≤ 1 - t1 := by
    have : uR * (1 / 2) + eR ≤ 1 / 10 := by
      have : (1 : ℝ) / 2 ^ 53 * (1 / 2) + 1 / 2 ^ 83 ≤ 1 / 10 := by norm_num
      nlinarith
    linarith
  rw [abs_of_nonneg (by linarith : (0 : ℝ) ≤ 1 - t1)] at r2
  have b2 := abs_le.mp r2
  have ht2 : (1 - t1) * (1 - uR) - eR ≤ t2 := by nlinarith
  have ht20 : 0 ≤ t2 := by
    have h1 : 2 / 5 * (1 - uR) ≤ (1 - t1) * (1 - uR) := mul_le_mul_of_nonneg_right hL0 (by linarith)
    have : (2 : ℝ) / 5 * (1 - 1 / 2 ^ 53) - 1 / 2 ^ 83 ≥ 0 := by norm_num
    nlinarith
  have hρt : 0 ≤ ρ * t2 := mul_nonneg h0 ht20
  rw [abs_of_nonneg hρt] at r3
  have b3 := abs_le.mp r3
  refine ⟨by linarith, ht20, ?_⟩
  -- sf ≥ ρ t2 (1−u) − e
  have hsf : ρ * t2 * (1 - uR) - eR ≤ sf := by nlinarith
  -- ρ t2 ≥ ρ·((1−t1)(1−u) − e) ≥ ρ·((L)(1−u) − e)
  set P := ρ * (1 - ρ / 4) with hP
  set Q := ρ * (ρ / 4) with hQ
  have hP0 : 0 ≤ P := mul_nonneg h0 (by linarith)
  have hQ0 : 0 ≤ Q := mul_nonneg h0 (by linarith)
  have hQ1 : Q ≤ 1 := by rw [hQ]; nlinarith
  have hP1 : P ≤ 1 := by rw [hP]; nlinarith [sq_nonneg (ρ - 2)]
  have k1 : ρ * ((1 - 1 / 4 * ρ - (uR * (1 / 4 * ρ) + eR)) * (1 - uR) - eR) ≤ ρ * t2 := by
    apply mul_le_mul_of_nonneg_left _ h0
    have : (1 - 1 / 4 * ρ - (uR * (1 / 4 * ρ) + eR)) * (1 - uR) ≤ (1 - t1) * (1 - uR) :=
      mul_le_mul_of_nonneg_right hL (by linarith)
    linarith
  have e1 : ρ * ((1 - 1 / 4 * ρ - (uR * (1 / 4 * ρ) + eR)) * (1 - uR) - eR)
      = P * (1 - uR) - (uR * Q + eR * ρ) * (1 - uR) - eR * ρ := by rw [hP, hQ]; ring
  rw [e1] at k1
  -- multiply by (1 − u)
  have k2 : (P * (1 - uR) - (uR * Q + eR * ρ) * (1 - uR) - eR * ρ) * (1 - uR) ≤ ρ * t2 * (1 - uR) :=
    mul_le_mul_of_nonneg_right k1 (by linarith)
  have e2 : (P * (1 - uR) - (uR * Q + eR * ρ) * (1 - uR) - eR * ρ) * (1 - uR)
      = P - (2 * uR - uR ^ 2) * P - (uR * Q + eR * ρ) * (1 - uR) ^ 2 - eR * ρ * (1 - uR) := by ring
  rw [e2] at k2
  have m1 : (2 * uR - uR ^ 2) * P ≤ 2 * uR * 1 := by
    have : (2 * uR - uR ^ 2) * P ≤ (2 * uR) * P := mul_le_mul_of_nonneg_right (by nlinarith) hP0
    have : (2 * uR) * P ≤ (2 * uR) * 1 := mul_le_mul_of_nonneg_left hP1 (by linarith)
    linarith
  have m2 : (uR * Q + eR * ρ) * (1 - uR) ^ 2 ≤ uR + 2 * eR := by
    have h1 : (1 - uR) ^ 2 ≤ 1 := by nlinarith
    have h2' : 0 ≤ uR * Q + eR * ρ := add_nonneg (mul_nonneg hu0 hQ0) (mul_nonneg he0 h0)
    have h3 : (uR * Q + eR * ρ) * (1 - uR) ^ 2 ≤ (uR * Q + eR * ρ) * 1 := mul_le_mul_of_nonneg_left h1 h2'
    have h4 : uR * Q ≤ uR * 1 := mul_le_mul_of_nonneg_left hQ1 hu0
    have h5 : eR * ρ ≤ eR * 2 := mul_le_mul_of_nonneg_left h2 he0
    linarith
  have m3 : eR * ρ * (1 - uR) ≤ 2 * eR := by
    have h5 : eR * ρ ≤ eR * 2 := mul_le_mul_of_nonneg_left h2 he0
    have : eR * ρ * (1 - uR) ≤ eR * ρ * 1 := mul_le_mul_of_nonneg_left (by linarith) (mul_nonneg he0 h0)
    linarith
  have hS : sin2R ρ = P := by unfold sin2R; rw [hP]
  rw [hS]
  clear_value P Q
  linarith only [k2, m1, m2, m3, hsf]

theorem fin_fQuarter : Fin Chord.fQuarter := by decide
set_option exponentiation.threshold 1100 in
theorem val_fQuarter : val Chord.fQuarter = 1 / 4 := by
  have h : S2.Exact.toInt Chord.fQuarter = 2 ^ 1072 := by decide +kernel
  unfold val; rw [h]; push_cast; norm_num

theorem fin_one' : Fin F64.one := by decide
set_option exponentiation.threshold 1100 in
theorem val_one' : val F64.one = 1 := by
  have h : S2.Exact.toInt F64.one = 2 ^ 1074 := by decide +kernel
  unfold val; rw [h]; push_cast; norm_num

/-- `Chord.sin2 rad` for `0 ≤ rad ≤ 2`: finite, non-negative, at least `sin²R ρ − (3u + 5·2^-1075)` -/
theorem sin2_lower (rad : F64) (hfin : Fin rad) (h0 : 0 ≤ val rad) (h2 : val rad ≤ 2) :
    Fin (Chord.sin2 rad) ∧ 0 ≤ val (Chord.sin2 rad) ∧ sin2R (val rad) - (3 * uR + 5 * eR) ≤ val (Chord.sin2 rad) ∧
    val (Chord.sin2 rad) ≤ 33 := by
  have hq := fin_fQuarter
  obtain ⟨f1, r1, n1⟩ := EdgeErr.mulS hq hfin (by
    rw [val_fQuarter, abs_of_nonneg (by linarith)]
    have : (2 : ℝ) ≤ 2 ^ 30 := by norm_num
    linarith)
  rw [val_fQuarter] at r1
  have hr1 := r1
  unfold Rnd at r1
  rw [abs_of_nonneg (by linarith : (0 : ℝ) ≤ 1 / 4 * val rad)] at r1
  have b1 := abs_le.mp r1
  have hu : uR ≤ 1 := uR_le_one
  have he : eR ≤ 1 := eR_le_one
  have hu0 := uR_nonneg
  have he0 := eR_nonneg
  have ht1 : |val (Chord.fQuarter * rad)| ≤ 2 := by
    rw [abs_le]; constructor <;> nlinarith
  obtain ⟨f2, r2, n2⟩ := EdgeErr.subS fin_one' f1 (by
    rw [val_one']
    have := abs_sub (1 : ℝ) (val (Chord.fQuarter * rad))
    have : (3 : ℝ) ≤ 2 ^ 30 := by norm_num
    rw [abs_one] at *
    linarith)
  rw [val_one'] at r2 n2
  have hr2 := r2
  unfold Rnd at r2
  have ht2 : |val (F64.one - Chord.fQuarter * rad)| ≤ 8 := by
    have h3 : |1 - val (Chord.fQuarter * rad)| ≤ 3 := by
      have := abs_sub (1 : ℝ) (val (Chord.fQuarter * rad))
      rw [abs_one] at this; linarith
    have := abs_sub_abs_le_abs_sub (val (F64.one - Chord.fQuarter * rad)) (1 - val (Chord.fQuarter * rad))
    nlinarith [abs_nonneg (1 - val (Chord.fQuarter * rad))]
  have hM : |val rad * val (F64.one - Chord.fQuarter * rad)| ≤ 16 := by
    rw [abs_mul, abs_of_nonneg h0]
    nlinarith [abs_nonneg (val (F64.one - Chord.fQuarter * rad))]
  obtain ⟨f3, r3, n3⟩ := EdgeErr.mulS hfin f2 (by
    have : (16 : ℝ) ≤ 2 ^ 30 := by norm_num
    linarith)
  obtain ⟨_, ht20, hlow⟩ := sin2_real h0 h2 hr1 hr2 r3
  have hup := rnd_growth uR_le_one eR_le_one r3 hM
  refine ⟨f3, n3 (mul_nonneg h0 ht20), hlow, ?_⟩
  have := le_abs_self (val (Chord.sin2 rad))
  have e : Chord.sin2 rad = rad * (F64.one - Chord.fQuarter * rad) := rfl
  rw [e] at this ⊢
  linarith

end FloatEdge
end S2Proofs.C05Cap
