/-
  C05Cap.FloatEdge — FLOAT soundness of the REPAIRED "edge too far" exit of `Cap.intersects` (`s2/cap.go` after repair D59, model
  `S2.CapCell.edgeStep`):

      edge := cell.Edge(k).Vector;  dot := c.center.Dot(edge)
      if dot > 0 { continue }
      if dot*(dot+capEdgeDotError) > sin2Angle*edge.Norm2() { return false }          -- capEdgeDotError = 16·dblEpsilon = 2^-48

  When this `return false` fires (binary64, bit-exact model), NO point of the EXACT cell is in the cap shrunk by `2^-47` (= 64u):
      `edge_far_sound`   every cell point `q` has `dist2 a q ≥ rad − 2^-47`,   for ALL radii `0 ≤ rad < 2`.
  (Before the repair the sharp slack was `2^-23`: `FloatEdgeOld.lean`, `far_real_sharp`.)

  Why O(u) now (u = 2^-53, τ = 2^-48 = 32u, d = fl(A·E) ≤ 0):  `far_chain_fixed` turns the float comparison into
      `S·‖E‖² − 7.01u·‖E‖² + (τ − 2.1u − 2·3.125u)|d| ≤ (A·E)²`,   S = sin²R ρ.
  * `ρ ≤ 1`: drop the margin, `(S − 8u)‖E‖² ≤ (A·E)²`, and `far_real_tilt_small` (`1 − ρ/2 ≥ ½`, no square root) gives `≈ 56u`.
  * `1 ≤ ρ < 2`: `S ≥ 3/4` forces `|d| ≥ 0.86`, the margin `23.65u·0.86 ≈ 20u` pays for `7.01u` AND for the allowance `γ = 9.03u` on `‖a‖²`:
    `(S + γ)‖E‖² ≤ (A·E)²`, and `far_real_margin` gives `γ + 2(ε + (1+γ)κ) ≈ 22u` (then `‖A‖² − α² ≤ (1 − ρ/2)²` exactly: no `√` of a small number).
  Shared parts: `FloatEdgeCore.lean` (`dot_err`, `edge_scale`), `FloatEdgeErr.lean` (`far_chain_fixed`, `sin2_lower`), `FloatEdgeFrame.lean`
  (`edge_frame`), `FloatEdgeReal.lean` (`far_real_margin`, `far_real_tilt_small`).
-/
import S2Proofs.C05Cap.FloatEdgeCore

namespace S2Proofs.C05Cap
open S2 S2.CellM S2Proofs.FloatErr S2Proofs.F64Order S2Proofs.C12Dist S2Proofs.C16Acc

/-- slack of the REPAIRED "edge too far" exit, all radii `0 ≤ rad < 2`: `2^-47 = 64·2^-53` -/
noncomputable def edgeSlackFixed : ℝ := 1 / 2 ^ 47

namespace FloatEdge
open S2Proofs.CapF64 (NUnit NU eps nrm2)

set_option exponentiation.threshold 1100 in
/-- `capEdgeDotError = 2^-48 = 32u` -/
theorem val_capEdgeDotError : Fin CapCell.capEdgeDotError ∧ val CapCell.capEdgeDotError = 32 * uR := by
  refine ⟨by decide, ?_⟩
  have h : S2.Exact.toInt CapCell.capEdgeDotError = 2 ^ 1026 := by decide +kernel
  unfold val uR; rw [h]; push_cast; norm_num

/-- `NU·eps = 9.03125u` -/
theorem gamma_le' : NU * eps ≤ 904 / 100 * uR := by unfold NU eps uR; norm_num

/-! ### the right-hand side `fl(Sin2(rad)·edge.Norm2())` -/

/-- lower bound of the float right-hand side for a finite unit-ish vector `e` (`|‖E‖² − 1| ≤ 20u`) and `0 ≤ rad ≤ 2` -/
theorem rhs_lower (e : V3) (fE : Fin3 e) (hE2 : |(ofV e).norm2 - 1| ≤ 20 * uR)
    (rad : F64) (hfin : Fin rad) (h0 : 0 ≤ val rad) (h2 : val rad ≤ 2) :
    Fin (Chord.sin2 rad * e.norm2) ∧
    sin2R (val rad) * (ofV e).norm2 - (701 / 100 * uR + 5 * eR) * (ofV e).norm2 - 5 * eR ≤ val (Chord.sin2 rad * e.norm2) := by
  set E := ofV e with hEdef
  have hu0 := uR_nonneg
  have hu : uR ≤ 1 / 2 ^ 53 := le_of_eq rfl
  have he0 := eR_nonneg
  have het := eR_tiny
  have hEb := abs_le.mp hE2
  have he2lo : 99 / 100 ≤ E.norm2 := by linarith
  have he2hi : E.norm2 ≤ 101 / 100 := by linarith
  obtain ⟨fsf, sf0, sflow, sfhi⟩ := sin2_lower rad hfin h0 h2
  -- float norm2 of the edge
  have hE2' : val e.x ^ 2 + val e.y ^ 2 + val e.z ^ 2 ≤ 4 := by
    have : E.norm2 = val e.x ^ 2 + val e.y ^ 2 + val e.z ^ 2 := rfl
    linarith
  have p14 : (2 : ℝ) ≤ 2 ^ 14 := by norm_num
  have mE : |val e.x| ≤ 2 ^ 14 ∧ |val e.y| ≤ 2 ^ 14 ∧
      |val e.z| ≤ 2 ^ 14 := by
    refine ⟨le_trans (abs_le_of_sq_sum_le hE2' (le_refl _)) p14, ?_, ?_⟩
    · exact le_trans (abs_le_of_sq_sum_le (by linarith : val e.y ^ 2 + val e.x ^ 2
        + val e.z ^ 2 ≤ 4) (le_refl _)) p14
    · exact le_trans (abs_le_of_sq_sum_le (by linarith : val e.z ^ 2 + val e.x ^ 2
        + val e.y ^ 2 ≤ 4) (le_refl _)) p14
  obtain ⟨fnf, hnf⟩ := norm2_wide e fE mE
  rw [← hEdef] at hnf
  have hρ := rhoU_le3
  have hρ0 := rhoU_nn
  have hnfb := abs_le.mp hnf
  have he4 : 4 * eR ≤ 1 / 2 ^ 80 := by
    have : uR / 2 ^ 30 ≤ 1 / 2 ^ 83 := by unfold uR; norm_num
    have : (4 : ℝ) * (1 / 2 ^ 83) ≤ 1 / 2 ^ 80 := by norm_num
    linarith
  have hrE : rhoU uR * E.norm2 ≤ (3 + 1 / 1000) * uR * (101 / 100) :=
    mul_le_mul hρ he2hi (by linarith) (by linarith)
  have h80 : (1 : ℝ) / 2 ^ 80 ≤ 1 / 100 := by norm_num
  have hnf0 : 0 ≤ val e.norm2 := by linarith
  have hnfhi : val e.norm2 ≤ 2 := by linarith
  have hsn0 : 0 ≤ val (Chord.sin2 rad) * val e.norm2 := mul_nonneg sf0 hnf0
  have hsn30 : |val (Chord.sin2 rad) * val e.norm2| ≤ 2 ^ 30 := by
    rw [abs_of_nonneg hsn0]
    have : val (Chord.sin2 rad) * val e.norm2 ≤ 33 * 2 := mul_le_mul sfhi hnfhi hnf0 (by norm_num)
    have : (33 : ℝ) * 2 ≤ 2 ^ 30 := by norm_num
    linarith
  obtain ⟨fpf, rpf, _⟩ := EdgeErr.mulS fsf fnf hsn30
  unfold Rnd at rpf
  rw [abs_of_nonneg hsn0] at rpf
  have hpfl : val (Chord.sin2 rad) * val e.norm2 * (1 - uR) - eR
      ≤ val (Chord.sin2 rad * e.norm2) := by
    have := (abs_le.mp rpf).1
    have e : val (Chord.sin2 rad) * val e.norm2 * (1 - uR)
        = val (Chord.sin2 rad) * val e.norm2
          - uR * (val (Chord.sin2 rad) * val e.norm2) := by ring
    rw [e]; linarith only [this]
  have hS0 : 0 ≤ sin2R (val rad) := by unfold sin2R; exact mul_nonneg h0 (by linarith)
  have hS1 : sin2R (val rad) ≤ 1 := by
    unfold sin2R
    have hsq := sq_nonneg (val rad - 2)
    have e : val rad * (1 - val rad / 4) = 1 - (val rad - 2) ^ 2 / 4 := by ring
    rw [e]; linarith only [hsq]
  have hnfl : E.norm2 * (1 - rhoU uR) - 4 * eR ≤ val e.norm2 := by
    have e : E.norm2 * (1 - rhoU uR) = E.norm2 - rhoU uR * E.norm2 := by ring
    rw [e]; linarith
  have hr1 : rhoU uR ≤ 1 / 2 := by linarith
  have hpl := pf_lower hS0 hS1 hpfl sf0 sflow (by linarith) hnfl hρ0 hr1 he2lo he2hi
  have hc7 : rhoU uR + (3 * uR + 5 * eR) + uR ≤ 701 / 100 * uR + 5 * eR := by linarith
  have hc7e : (rhoU uR + (3 * uR + 5 * eR) + uR) * E.norm2 ≤ (701 / 100 * uR + 5 * eR) * E.norm2 :=
    mul_le_mul_of_nonneg_right hc7 (by linarith)
  exact ⟨fpf, by linarith⟩

/-- the generic chain: `P ≤ pf < m = fl(d·fl(d+τ))`, `d ≤ 0`, `|d − D| ≤ ed` -/
theorem far_chain_fixed2 {P d D t m pf ed τ : ℝ}
    (hd0 : d ≤ 0) (hd : -(101 / 100) ≤ d) (hτ0 : 0 ≤ τ) (hτ : τ ≤ 1 / 100)
    (ht : Rnd uR eR (d + τ) t) (hm : Rnd uR eR (d * t) m) (hlt : pf < m) (hP : P ≤ pf) (hdD : |d - D| ≤ ed) :
    P + (τ - 21 / 10 * uR) * (-d) - 3 * eR ≤ d ^ 2 ∧
    P + (τ - 21 / 10 * uR - 2 * ed) * (-d) - 3 * eR ≤ D ^ 2 := by
  have h2 := m_upper hd0 hd hτ0 hτ ht hm
  have hfirst : P + (τ - 21 / 10 * uR) * (-d) - 3 * eR ≤ d ^ 2 := by linarith
  refine ⟨hfirst, ?_⟩
  have hE : d ^ 2 - 2 * ed * (-d) ≤ D ^ 2 := by
    have e1 : D ^ 2 = d ^ 2 - 2 * d * (d - D) + (d - D) ^ 2 := by ring
    have h3 : d * (d - D) ≤ |d| * |d - D| := by rw [← abs_mul]; exact le_abs_self _
    have h4 : |d| = -d := abs_of_nonpos hd0
    have h5 : |d| * |d - D| ≤ (-d) * ed := by
      rw [h4]; exact mul_le_mul_of_nonneg_left hdD (by linarith)
    nlinarith [sq_nonneg (d - D)]
  have e : (τ - 21 / 10 * uR - 2 * ed) * (-d) = (τ - 21 / 10 * uR) * (-d) - 2 * ed * (-d) := by ring
  rw [e]
  linarith

/-! ### the real content of the two float tests (repaired comparison) -/

/-- **the float tests, read in exact arithmetic** (`A = ofV a`, `E = ofV (edge cell k)`, `N = ofV (edgeRaw cell k)`):
    `E ≠ 0`; unit vectors on the inner side of `N` are on the inner side of `E` up to the tilt `2(u + 2^-500)`; `A·E ≤ 4u|E|`;
    for `ρ ≤ 1`: `(sin²R ρ − 8u)·‖E‖² ≤ (A·E)²`;  for `ρ ≥ 1`: `(sin²R ρ + NU·eps)·‖E‖² ≤ (A·E)²` (the margin survives). -/
theorem edge_far_core (cell : Cell) (fu0 : Fin cell.uv.1.1) (fu1 : Fin cell.uv.1.2) (fv0 : Fin cell.uv.2.1) (fv1 : Fin cell.uv.2.2)
    (hr : (rectOf cell).OK) (hface : cell.face < 6)
    (a : V3) (ha : NUnit a) (rad : F64) (hfin : Fin rad) (h0 : 0 ≤ val rad) (h2 : val rad < 2) (k : Nat) (hk : k < 4)
    (hdot : F64.gt (a.dot (CellM.edge cell k)) (F64.zero false) = false)
    (hfar : F64.gt ((a.dot (CellM.edge cell k)) * ((a.dot (CellM.edge cell k)) + CapCell.capEdgeDotError))
      (Chord.sin2 rad * (CellM.edge cell k).norm2) = true) :
    0 < (ofV (CellM.edge cell k)).norm2 ∧
    (∀ q : R3, q.norm2 = 1 → 0 ≤ R3.dot q (ofV (edgeRaw cell k)) →
      -(2 * (uR + 1 / 2 ^ 500)) * (ofV (CellM.edge cell k)).norm ≤ R3.dot q (ofV (CellM.edge cell k))) ∧
    R3.dot (ofV a) (ofV (CellM.edge cell k)) ≤ 4 * uR * (ofV (CellM.edge cell k)).norm ∧
    (val rad ≤ 1 → (sin2R (val rad) - 8 * uR) * (ofV (CellM.edge cell k)).norm2
        ≤ (R3.dot (ofV a) (ofV (CellM.edge cell k))) ^ 2) ∧
    (1 ≤ val rad → (sin2R (val rad) + NU * eps) * (ofV (CellM.edge cell k)).norm2
        ≤ (R3.dot (ofV a) (ofV (CellM.edge cell k))) ^ 2) := by
  obtain ⟨fE, hE2, s, ν, hs0, heq, hν⟩ := edge_scale cell fu0 fu1 fv0 fv1 hr hface k hk
  obtain ⟨fd, hdD, hDM⟩ := dot_err a (CellM.edge cell k) ha fE hE2
  set E := ofV (CellM.edge cell k) with hEdef
  set D := R3.dot (ofV a) E with hDdef
  set d := val (a.dot (CellM.edge cell k)) with hddef
  have hu0 := uR_nonneg
  have hu : uR ≤ 1 / 2 ^ 53 := le_of_eq rfl
  have he0 := eR_nonneg
  have het := eR_tiny
  have hed := edR_le
  have hed0 := edR_nonneg
  have hEb := abs_le.mp hE2
  have he2lo : 99 / 100 ≤ E.norm2 := by linarith
  have he2hi : E.norm2 ≤ 101 / 100 := by linarith
  have hEn : 99 / 100 ≤ E.norm := by
    apply R3.le_norm_of_sq
    have : ((99 : ℝ) / 100) ^ 2 ≤ 99 / 100 := by norm_num
    linarith
  have fz := (zero_val false).1
  have vz := (zero_val false).2
  -- the sign test
  have hd0 : d ≤ 0 := by
    by_contra hc
    have hc' : val (F64.zero false) < d := by rw [vz]; exact not_le.mp hc
    have : F64.lt (F64.zero false) (a.dot (CellM.edge cell k)) = true :=
      (S2Proofs.CapF64.lt_iff_val fz fd).2 hc'
    unfold F64.gt at hdot
    rw [this] at hdot
    exact Bool.noConfusion hdot
  have hdDb := abs_le.mp hdD
  refine ⟨by linarith, ?_, ?_, ?_⟩
  · intro q hq hqN
    have hc : uR + 1 / 2 ^ 500 ≤ 1 / 2 := by
      have := w500_le
      have : (1 : ℝ) / 2 ^ 100 ≤ 1 / 4 := by norm_num
      linarith
    exact tilt_real _ ν E q s (uR + 1 / 2 ^ 500) hs0 heq hν (by have := w500_nonneg; linarith) hc hq hqN
  · have h1 : D ≤ edR := by linarith
    have h2 : 4 * uR * (99 / 100) ≤ 4 * uR * E.norm := mul_le_mul_of_nonneg_left hEn (by linarith)
    linarith
  · -- the squared test
    have hdabs : |d| ≤ 101 / 100 := by
      have h1 : |d| ≤ |D| + edR := by
        have := abs_sub_abs_le_abs_sub d D
        linarith
      have : Mdot ≤ 1 + 1 / 1000 := by unfold Mdot; linarith
      linarith
    have hdlo : -(101 / 100) ≤ d := (abs_le.mp hdabs).1
    obtain ⟨fτ, vτ⟩ := val_capEdgeDotError
    have hτ0 : 0 ≤ val CapCell.capEdgeDotError := by rw [vτ]; linarith
    have hτ1 : val CapCell.capEdgeDotError ≤ 1 / 100 := by
      rw [vτ]
      have : 32 * (1 / 2 ^ 53 : ℝ) ≤ 1 / 100 := by norm_num
      linarith
    have hsum2 : |d + val CapCell.capEdgeDotError| ≤ 2 := by
      rw [abs_le]; constructor <;> linarith
    obtain ⟨ft, rt, _⟩ := EdgeErr.addS fd fτ (by
      have : (2 : ℝ) ≤ 2 ^ 30 := by norm_num
      linarith)
    have htabs := rnd_growth uR_le_one eR_le_one rt hsum2
    have hdt30 : |d * val (a.dot (CellM.edge cell k) + CapCell.capEdgeDotError)| ≤ 2 ^ 30 := by
      rw [abs_mul]
      have : |d| * |val (a.dot (CellM.edge cell k) + CapCell.capEdgeDotError)| ≤ 101 / 100 * (2 * 2 + 1) :=
        mul_le_mul hdabs htabs (abs_nonneg _) (by norm_num)
      have : (101 : ℝ) / 100 * (2 * 2 + 1) ≤ 2 ^ 30 := by norm_num
      linarith
    obtain ⟨fdd, rdd, _⟩ := EdgeErr.mulS fd ft hdt30
    obtain ⟨fpf, hP⟩ := rhs_lower (CellM.edge cell k) fE hE2 rad hfin h0 (le_of_lt h2)
    rw [← hEdef] at hP
    -- the comparison
    have hlt : val (Chord.sin2 rad * (CellM.edge cell k).norm2)
        < val (a.dot (CellM.edge cell k) * (a.dot (CellM.edge cell k) + CapCell.capEdgeDotError)) := by
      unfold F64.gt at hfar
      exact (S2Proofs.CapF64.lt_iff_val fpf fdd).1 hfar
    -- into the shape of `far_chain`
    obtain ⟨hc1, hc2⟩ := far_chain_fixed2 (d := d) (D := D) (ed := edR) hd0 hdlo hτ0 hτ1 rt rdd hlt hP hdD
    rw [vτ] at hc1 hc2
    set x := -d with hx
    have hx0 : 0 ≤ x := by linarith
    -- constants
    have he8 : 13 * eR ≤ uR / 100 := by
      have : uR / 2 ^ 30 * 13 ≤ uR / 100 := by unfold uR; norm_num
      linarith
    have hK : 23 * uR ≤ 32 * uR - 21 / 10 * uR - 2 * edR := by linarith
    have hue_lo : uR * (99 / 100) ≤ uR * E.norm2 := mul_le_mul_of_nonneg_left he2lo hu0
    have hue_hi : uR * E.norm2 ≤ uR * (101 / 100) := mul_le_mul_of_nonneg_left he2hi hu0
    have hee_hi : eR * E.norm2 ≤ eR * (101 / 100) := mul_le_mul_of_nonneg_left he2hi he0
    have e7 : (701 / 100 * uR + 5 * eR) * E.norm2 = 701 / 100 * (uR * E.norm2) + 5 * (eR * E.norm2) := by ring
    constructor
    · intro _
      have hKx : 0 ≤ (32 * uR - 21 / 10 * uR - 2 * edR) * x := mul_nonneg (by linarith) hx0
      have e : (sin2R (val rad) - 8 * uR) * E.norm2 = sin2R (val rad) * E.norm2 - 8 * (uR * E.norm2) := by ring
      rw [e]
      linarith
    · intro h1
      have hS34 : 3 / 4 ≤ sin2R (val rad) := by
        unfold sin2R
        have : 0 ≤ (val rad - 1) * (3 - val rad) := mul_nonneg (by linarith) (by linarith)
        have e : val rad * (1 - val rad / 4) = 3 / 4 + (val rad - 1) * (3 - val rad) / 4 := by ring
        rw [e]; linarith
      have hSe : 3 / 4 * E.norm2 ≤ sin2R (val rad) * E.norm2 := mul_le_mul_of_nonneg_right hS34 (by linarith)
      have hτx : 0 ≤ (32 * uR - 21 / 10 * uR) * x := mul_nonneg (by linarith) hx0
      have hx2 : 74 / 100 ≤ x ^ 2 := by
        have : d ^ 2 = x ^ 2 := by rw [hx]; ring
        have : (1 : ℝ) / 2 ^ 53 ≤ 1 / 10000 := by norm_num
        linarith
      have hx86 : 86 / 100 ≤ x := by
        by_contra hc
        have : x < 86 / 100 := not_le.mp hc
        nlinarith
      have hKx : 23 * uR * (86 / 100) ≤ (32 * uR - 21 / 10 * uR - 2 * edR) * x :=
        mul_le_mul hK hx86 (by norm_num) (by linarith)
      have hγ := gamma_le
      have hγe : NU * eps * E.norm2 ≤ 10 * uR * E.norm2 := mul_le_mul_of_nonneg_right hγ (by linarith)
      have e : (sin2R (val rad) + NU * eps) * E.norm2 = sin2R (val rad) * E.norm2 + NU * eps * E.norm2 := by ring
      have e' : 10 * uR * E.norm2 = 10 * (uR * E.norm2) := by ring
      rw [e]
      linarith

/-! ### numeric evaluation of the slack -/

theorem kappa_le : (1 + NU * eps) * (2 * (uR + 1 / 2 ^ 500)) ≤ 3 * uR := by
  have hγ := gamma_le
  have hγ0 := gamma_nonneg
  have hw := w500_le
  have hw0 := w500_nonneg
  have hu0 := uR_nonneg
  have hu : uR = 1 / 2 ^ 53 := rfl
  generalize NU * eps = γ at *
  generalize (1 : ℝ) / 2 ^ 500 = w at *
  have hκ : 2 * (uR + w) ≤ 21 / 10 * uR := by
    have : (1 : ℝ) / 2 ^ 100 ≤ uR / 20 := by rw [hu]; norm_num
    linarith
  have hγ1 : 1 + γ ≤ 11 / 10 := by
    have : 10 * uR ≤ 1 / 10 := by rw [hu]; norm_num
    linarith
  have h1 : (1 + γ) * (2 * (uR + w)) ≤ 11 / 10 * (21 / 10 * uR) := mul_le_mul hγ1 hκ (by linarith) (by norm_num)
  linarith

theorem slack_fixed_small :
    3 * (NU * eps) + 2 * (8 * uR) + 2 * (4 * uR + (1 + NU * eps) * (2 * (uR + 1 / 2 ^ 500))) ≤ 1 / 2 ^ 47 := by
  have h1 := kappa_le
  have h2 := gamma_le'
  have h64 : 64 * uR = 1 / 2 ^ 47 := by unfold uR; norm_num
  have hu0 := uR_nonneg
  linarith

theorem slack_fixed_big :
    NU * eps + 2 * (4 * uR + (1 + NU * eps) * (2 * (uR + 1 / 2 ^ 500))) ≤ 1 / 2 ^ 47 := by
  have h1 := kappa_le
  have h2 := gamma_le'
  have h64 : 64 * uR = 1 / 2 ^ 47 := by unfold uR; norm_num
  have hu0 := uR_nonneg
  linarith

end FloatEdge

open FloatEdge S2Proofs.CapF64 in
/-- **FLOAT soundness of the REPAIRED "edge too far" `return false` of `Cap.intersects`**, every radius `0 ≤ rad < 2`: if, for the bit-exact
    binary64 model, `dot := a.Dot(cell.Edge(k))` is not `> 0` and `dot*(dot+capEdgeDotError) > Sin2(rad)*edge.Norm2()`, then every point `q`
    of the EXACT cell is at squared chord distance at least `rad − 2^-47` from the centre `a`. -/
theorem edge_far_sound (cell : Cell) (fu0 : Fin cell.uv.1.1) (fu1 : Fin cell.uv.1.2) (fv0 : Fin cell.uv.2.1) (fv1 : Fin cell.uv.2.2)
    (hr : (rectOf cell).OK) (hface : cell.face < 6)
    (a : V3) (ha : S2Proofs.CapF64.NUnit a) (rad : F64) (hfin : Fin rad) (h0 : 0 ≤ val rad) (h2 : val rad < 2) (k : Nat) (hk : k < 4)
    (hdot : F64.gt (a.dot (CellM.edge cell k)) (F64.zero false) = false)
    (hfar : F64.gt ((a.dot (CellM.edge cell k)) * ((a.dot (CellM.edge cell k)) + CapCell.capEdgeDotError))
      (Chord.sin2 rad * (CellM.edge cell k).norm2) = true) :
    ∀ q : R3, InCellXYZ cell q → val rad - edgeSlackFixed ≤ S2Proofs.C12Dist.dist2 (ofV a) q := by
  intro q hq
  obtain ⟨hq1, hqN, _, _⟩ := edge_frame cell fu0 fu1 fv0 fv1 hr hface k hk q hq
  obtain ⟨hE, htilt, hd, hsmall, hbig⟩ := edge_far_core cell fu0 fu1 fv0 fv1 hr hface a ha rad hfin h0 h2 k hk hdot hfar
  have hA : |(ofV a).norm2 - 1| ≤ NU * eps := ha.2
  have hu0 := uR_nonneg
  have hw0 := w500_nonneg
  have hγ0 := gamma_nonneg
  unfold edgeSlackFixed
  rcases le_total (val rad) 1 with h1 | h1
  · have h := far_real_tilt_small (ofV a) (ofV (CellM.edge cell k)) q hE hq1 (val rad) (NU * eps) (4 * uR) (8 * uR)
      (2 * (uR + 1 / 2 ^ 500)) h0 h1 (by linarith) (by linarith) hγ0 (by linarith)
      (htilt q hq1 hqN) hA hd (hsmall h1)
    have := slack_fixed_small
    linarith
  · have h := far_real_margin (ofV a) (ofV (CellM.edge cell k)) q hE hq1 (2 * (uR + 1 / 2 ^ 500)) (4 * uR) (NU * eps) (val rad)
      (by linarith) (htilt q hq1 hqN) h0 (le_of_lt h2) (by linarith) hγ0 hA hd (hbig h1)
    have := slack_fixed_big
    linarith

/-- the theorem for the cell of a VALID cell id (the cell hypotheses are `cellOK`) -/
theorem edge_far_sound_id (id : CellID) (hv : CellID.isValid id = true)
    (a : V3) (ha : S2Proofs.CapF64.NUnit a) (rad : F64) (hfin : Fin rad) (h0 : 0 ≤ val rad) (h2 : val rad < 2) (k : Nat) (hk : k < 4)
    (hdot : F64.gt (a.dot (CellM.edge (cellFromCellID id) k)) (F64.zero false) = false)
    (hfar : F64.gt ((a.dot (CellM.edge (cellFromCellID id) k)) * ((a.dot (CellM.edge (cellFromCellID id) k)) + CapCell.capEdgeDotError))
      (Chord.sin2 rad * (CellM.edge (cellFromCellID id) k).norm2) = true) :
    ∀ q : R3, InCellXYZ (cellFromCellID id) q → val rad - edgeSlackFixed ≤ S2Proofs.C12Dist.dist2 (ofV a) q := by
  obtain ⟨f1, f2, f3, f4, hr, hface⟩ := cellOK id hv
  exact edge_far_sound _ f1 f2 f3 f4 hr hface a ha rad hfin h0 h2 k hk hdot hfar

/-! ### the model: `S2.CapCell.edgeStep … = some false` is exactly this exit -/

/-- the repaired `edgeStep` returns `some false` only through the "edge too far" test -/
theorem edgeStep_false (c : CapF64.Cap) (s : F64) (cell : Cell) (k : Nat)
    (h : CapCell.edgeStep c s cell k = some false) :
    F64.gt (c.center.dot (CellM.edge cell k)) (F64.zero false) = false ∧
    F64.gt ((c.center.dot (CellM.edge cell k)) * ((c.center.dot (CellM.edge cell k)) + CapCell.capEdgeDotError))
      (s * (CellM.edge cell k).norm2) = true := by
  unfold CapCell.edgeStep at h
  simp only at h
  split at h
  · cases h
  · rename_i h1
    split at h
    · rename_i h2
      exact ⟨by simpa using h1, h2⟩
    · split at h <;> cases h

/-- **soundness of the repaired `edgeStep … = some false`** (the form used by the loop of `Cap.intersects`): for a Normalize-grade centre and
    a finite radius `0 ≤ rad < 2`, no point of the exact cell is within `rad − 2^-47` of the centre -/
theorem edgeStep_false_sound (c : CapF64.Cap) (cell : Cell)
    (fu0 : Fin cell.uv.1.1) (fu1 : Fin cell.uv.1.2) (fv0 : Fin cell.uv.2.1) (fv1 : Fin cell.uv.2.2)
    (hr : (rectOf cell).OK) (hface : cell.face < 6)
    (ha : S2Proofs.CapF64.NUnit c.center) (hfin : Fin c.radius) (h0 : 0 ≤ val c.radius) (h2 : val c.radius < 2) (k : Nat) (hk : k < 4)
    (h : CapCell.edgeStep c (Chord.sin2 c.radius) cell k = some false) :
    ∀ q : R3, InCellXYZ cell q → val c.radius - edgeSlackFixed ≤ S2Proofs.C12Dist.dist2 (ofV c.center) q := by
  obtain ⟨hdot, hfar⟩ := edgeStep_false c _ cell k h
  exact edge_far_sound cell fu0 fu1 fv0 fv1 hr hface c.center ha c.radius hfin h0 h2 k hk hdot hfar

/-! ### non-vacuity: the face cell 0 (uv rectangle `[-1,1]²`), centre `(−1,0,0)`, `rad = 0.5`, edge 0: the repaired exit fires -/

open FloatEdge in
/-- all hypotheses of `edge_far_sound` / `edgeStep_false_sound` hold for a concrete instance -/
example : Fin exCell.uv.1.1 ∧ Fin exCell.uv.1.2 ∧ Fin exCell.uv.2.1 ∧ Fin exCell.uv.2.2 ∧ (rectOf exCell).OK ∧ exCell.face < 6 ∧
    S2Proofs.CapF64.NUnit exA ∧ Fin exRad ∧ 0 ≤ val exRad ∧ val exRad < 2 ∧
    F64.gt (exA.dot (CellM.edge exCell 0)) (F64.zero false) = false ∧
    F64.gt ((exA.dot (CellM.edge exCell 0)) * ((exA.dot (CellM.edge exCell 0)) + CapCell.capEdgeDotError))
      (Chord.sin2 exRad * (CellM.edge exCell 0).norm2) = true ∧
    CapCell.edgeStep ⟨exA, exRad⟩ (Chord.sin2 exRad) exCell 0 = some false := by
  refine ⟨by decide, by decide, by decide, by decide, exCell_ok, by decide,
    (S2Proofs.CapF64.nunitB_iff exA).1 (by decide +kernel), by decide, ?_, ?_,
    by decide +kernel, by decide +kernel, by decide +kernel⟩ <;> rw [val_exRad] <;> norm_num

end S2Proofs.C05Cap
